(* C05, main syntactic theorem: the output of the model of `linearize` satisfies the ordered
   linear discipline (`lin_check`), for every definition that is typed in the non-linear
   discipline, whose binders are unique and whose ids are below max_id.
   Induction on the fuel of `lin` (the size of the statement), one lemma per statement form. *)
From Coq Require Import String List ZArith NArith Bool Lia Permutation.
From SCC Require Import Base.Sexp Lang.AxSyn Model.Linearize Model.LinCheck.
From SCC Require Import Proof.LinBasics Proof.LinFbs Proof.LinFreshen Proof.LinTyping.
Import ListNotations.
Open Scope list_scope.
Open Scope N_scope.

(* ---------- the invariant carried through the pass ---------- *)
Definition inv (c : ctx) (s : stmt) (m : N) : Prop :=
  NoDup (ids c) /\ NoDup (binders s) /\
  (forall x, In x (ids c) -> ~ In x (binders s)) /\
  (forall x, In x (ids c) -> x <= m) /\ (forall x, In x (binders s) -> x <= m).

Lemma NoDup_app_iff : forall {A} (a b : list A),
  NoDup (a ++ b) <-> NoDup a /\ NoDup b /\ (forall x, In x a -> In x b -> False).
Proof.
  induction a as [|y a IH]; intros b; simpl.
  - split; [intros H; repeat split; auto; constructor|tauto].
  - split.
    + intros H. inversion H as [|? ? Hn Hnd]; subst. apply IH in Hnd. destruct Hnd as [H1 [H2 H3]].
      split; [constructor; auto; intros Hin; apply Hn; apply in_or_app; auto|].
      split; auto. intros x [<-|Hx] Hb; [apply Hn; apply in_or_app; auto|eauto].
    + intros [H1 [H2 H3]]. inversion H1 as [|? ? Hn Hnd]; subst. constructor.
      * intros Hin. apply in_app_or in Hin. destruct Hin; [auto|]. eapply H3; eauto.
      * apply IH. repeat split; auto. intros x Hx Hb. eapply H3; eauto.
Qed.

Lemma inv_of_nodup : forall c s m,
  NoDup (ids c ++ binders s) -> (forall x, In x (ids c ++ binders s) -> x <= m) -> inv c s m.
Proof.
  intros c s m H1 H2. apply NoDup_app_iff in H1. destruct H1 as [H3 [H4 H5]].
  split; [auto|]. split; [auto|]. split; [|split].
  - intros x Hx Hb. apply (H5 x Hx Hb).
  - intros x Hx. apply H2. apply in_or_app; auto.
  - intros x Hx. apply H2. apply in_or_app; auto.
Qed.

(* the invariant for a sub-statement s' in a context c' whose ids come from the old context, from
   binders of s outside s', or are fresh *)
Lemma inv_gen : forall c s m c' s' m' pre post,
  inv c s m -> m <= m' -> NoDup (ids c') ->
  binders s = pre ++ binders s' ++ post ->
  (forall x, In x (ids c') -> In x (ids c) \/ In x pre \/ In x post \/ (m < x /\ x <= m')) ->
  inv c' s' m'.
Proof.
  intros c s m c' s' m' pre post [I1 [I2 [I3 [I4 I5]]]] Hm Hnd Hb Hc.
  rewrite Hb in *. apply NoDup_app_iff in I2. destruct I2 as [P1 [P2 P3]].
  apply NoDup_app_iff in P2. destruct P2 as [P4 [P5 P6]].
  split; [auto|]. split; [auto|]. split; [|split].
  - intros x Hx Hs. destruct (Hc x Hx) as [H|[H|[H|H]]].
    + apply (I3 x H). apply in_or_app. right. apply in_or_app. auto.
    + apply (P3 x H). apply in_or_app. auto.
    + apply (P6 x Hs H).
    + assert (x <= m) by (apply I5; apply in_or_app; right; apply in_or_app; auto). lia.
  - intros x Hx. destruct (Hc x Hx) as [H|[H|[H|H]]].
    + apply I4 in H. lia.
    + assert (x <= m) by (apply I5; apply in_or_app; auto). lia.
    + assert (x <= m) by (apply I5; apply in_or_app; right; apply in_or_app; auto). lia.
    + lia.
  - intros x Hx. assert (x <= m) by (apply I5; apply in_or_app; right; apply in_or_app; auto). lia.
Qed.

Lemma stmt_size_pos : forall s, (1 <= stmt_size s)%nat.
Proof. destruct s; simpl; lia. Qed.

Lemma has_In_ids : forall c x k t, has c x k t = true -> In (idn x) (ids c).
Proof.
  unfold has; intros c x k t H. destruct (lookup_b c (idn x)) as [b|] eqn:E; try discriminate.
  apply lookup_b_Some in E. destruct E as [E1 E2]. rewrite <- E2. apply In_ids; auto.
Qed.
Lemma has_b_In : forall c b, NoDup (ids c) -> In b c -> has_b c b = true.
Proof.
  intros c b H Hin. unfold has_b, has. rewrite lookup_b_In; auto.
  rewrite chi_eqb_refl, ty_eqb_refl; auto.
Qed.
Lemma has_b_In_ids : forall c b, has_b c b = true -> In (idn (bvar b)) (ids c).
Proof. unfold has_b; intros; eapply has_In_ids; eauto. Qed.

Lemma NoDup_snoc : forall (l : list N) x, NoDup l -> ~ In x l -> NoDup (l ++ [x]).
Proof.
  intros l x H Hn. apply NoDup_app_iff. repeat split; auto.
  - constructor; [simpl; tauto|constructor].
  - intros y Hy [<-|[]]. auto.
Qed.

(* ---------- inserting an explicit substitution ---------- *)
Lemma same_kt_sym : forall a b, same_kt a b -> same_kt b a.
Proof. intros a b H; induction H; constructor; auto. destruct H; auto. Qed.
Lemma same_kt_app : forall a a' b b', same_kt a a' -> same_kt b b' -> same_kt (a ++ b) (a' ++ b').
Proof.
  intros a a' b b' H Hb; induction H; simpl; auto. constructor; auto.
Qed.

Lemma subst_ok : forall S c newc oldc body,
  NoDup (ids c) -> same_kt newc oldc -> (forall b, In b oldc -> has_b c b = true) ->
  lin_check S newc body = true ->
  lin_check S c (Substitute (combine newc (vars oldc)) body) = true.
Proof.
  intros S c newc oldc body Hnd Hkt Hin Hbody.
  assert (Hlen : length newc = length (vars oldc)).
  { rewrite vars_length. apply same_kt_length; auto. }
  simpl. rewrite (combine_map_fst _ _ Hlen), Hbody, andb_true_r.
  apply andb_true_iff; split; [apply nodupb_NoDup; auto|].
  clear Hbody Hlen. induction Hkt as [|x y newc oldc [K1 K2] Hkt IH]; simpl; auto.
  apply andb_true_iff; split.
  - specialize (Hin y (or_introl eq_refl)). unfold has_b in Hin. rewrite K1, K2. auto.
  - apply IH. intros b Hb. apply Hin. simpl; auto.
Qed.
Lemma self_subst_ok : forall S c nc body,
  NoDup (ids c) -> NoDup (ids nc) -> (forall b, In b nc -> In b c) ->
  lin_check S nc body = true ->
  lin_check S c (Substitute (self_re nc) body) = true.
Proof.
  intros. unfold self_re. apply subst_ok; auto.
  - apply same_kt_refl.
  - intros b Hb. apply has_b_In; auto.
Qed.

(* ---------- contexts produced by filter_by_set ---------- *)
(* the lookups of `vb :: c` and of `filter_by_set c F ++ [vb]` agree on F and on vb *)
Lemma lookup_snoc_fbs : forall c F vb x,
  NoDup (ids c) -> ~ In (idn (bvar vb)) (ids c) -> (In x F \/ x = idn (bvar vb)) ->
  lookup_b (vb :: c) x = lookup_b (filter_by_set c F ++ [vb]) x.
Proof.
  intros c F vb x Hnd Hv Hx. rewrite lookup_b_cons, lookup_b_app, fbs_lookup by auto.
  destruct (N.eqb (idn (bvar vb)) x) eqn:E.
  - apply N.eqb_eq in E. subst x.
    assert (Hn : lookup_b c (idn (bvar vb)) = None) by (apply lookup_b_None; auto).
    rewrite Hn. destruct (mem (idn (bvar vb)) F); simpl; rewrite N.eqb_refl; auto.
  - apply N.eqb_neq in E. destruct Hx as [Hx|Hx]; [|congruence].
    apply mem_In in Hx. rewrite Hx. destruct (lookup_b c x); auto.
    simpl. apply N.eqb_neq in E. rewrite E. auto.
Qed.
Lemma lookup_fbs_sub : forall c F x, NoDup (ids c) -> In x F -> lookup_b c x = lookup_b (filter_by_set c F) x.
Proof. intros c F x Hnd Hx. rewrite fbs_lookup by auto. apply mem_In in Hx. rewrite Hx. auto. Qed.
Lemma fbs_ids_incl : forall c F x, In x (ids (filter_by_set c F)) -> In x (ids c).
Proof. intros c F x H. apply fbs_ids_In in H. tauto. Qed.

(* ---------- the clause loop ---------- *)
Lemma lin_cls_spec : forall (L : stmt -> ctx -> N -> stmt * N) mk (Q : clause -> stmt -> N -> Prop) cls m,
  (forall cl b a a', Q cl b a -> a <= a' -> Q cl b a') ->
  (forall cl m0, In cl cls -> m <= m0 ->
     Q cl (fst (L (cl_body cl) (mk (cl_ctx cl)) m0)) (snd (L (cl_body cl) (mk (cl_ctx cl)) m0)) /\
     m0 <= snd (L (cl_body cl) (mk (cl_ctx cl)) m0)) ->
  m <= snd (lin_cls L mk cls m) /\
  Forall2 (fun cl cl' => cl_xtor cl' = cl_xtor cl /\ cl_ctx cl' = cl_ctx cl /\
                         Q cl (cl_body cl') (snd (lin_cls L mk cls m)))
          cls (fst (lin_cls L mk cls m)).
Proof.
  intros L mk Q cls; induction cls as [|[[x cc] body] r IH]; intros m Hmono H; simpl.
  - split; [lia|constructor].
  - destruct (H (x, cc, body) m (or_introl eq_refl)) as [H1 H2]; [lia|].
    unfold cl_body, cl_ctx in H1, H2; simpl in H1, H2.
    destruct (L body (mk cc) m) as [b' m'] eqn:E. simpl in *.
    destruct (IH m' Hmono) as [H3 H4].
    { intros cl m0 Hcl Hm0. apply H; auto. lia. }
    destruct (lin_cls L mk r m') as [r' m''] eqn:E'. simpl in *.
    split; [lia|]. constructor; auto.
    repeat split; auto. eapply Hmono; eauto.
Qed.
Lemma cls_sig_F2 : forall (Q : clause -> stmt -> Prop) cls cls' xs,
  Forall2 (fun cl cl' => cl_xtor cl' = cl_xtor cl /\ cl_ctx cl' = cl_ctx cl /\ Q cl (cl_body cl')) cls cls' ->
  cls_sig cls' xs = cls_sig cls xs.
Proof.
  intros Q cls cls' xs H; revert xs; induction H as [|cl cl' cls cls' [H1 [H2 H3]] H IH]; intros [|x xs]; simpl; auto.
  rewrite H1, H2, IH; auto.
Qed.
Lemma cls_ok_F2 : forall S t (Q : clause -> stmt -> Prop) cls cls',
  Forall2 (fun cl cl' => cl_xtor cl' = cl_xtor cl /\ cl_ctx cl' = cl_ctx cl /\ Q cl (cl_body cl')) cls cls' ->
  cls_ok S t cls' = cls_ok S t cls.
Proof. intros; unfold cls_ok. destruct (type_xtors S t); auto. eapply cls_sig_F2; eauto. Qed.
Lemma forallb_F2 : forall (P : clause -> bool) (Q : clause -> stmt -> Prop) cls cls',
  Forall2 (fun cl cl' => cl_xtor cl' = cl_xtor cl /\ cl_ctx cl' = cl_ctx cl /\ Q cl (cl_body cl')) cls cls' ->
  (forall cl cl', cl_ctx cl' = cl_ctx cl -> Q cl (cl_body cl') -> P cl' = true) ->
  forallb P cls' = true.
Proof.
  intros P Q cls cls' H HP; induction H as [|cl cl' cls cls' [H1 [H2 H3]] H IH]; simpl; auto.
  rewrite (HP cl cl'); auto.
Qed.

Lemma binders_cls_split : forall cls cl, In cl cls ->
  exists pre post, binders_cls cls = pre ++ (ids (cl_ctx cl) ++ binders (cl_body cl)) ++ post.
Proof.
  induction cls as [|c0 r IH]; intros cl H; simpl in *; [tauto|].
  destruct H as [->|H].
  - exists [], (binders_cls r). simpl. rewrite <- app_assoc. auto.
  - destruct (IH cl H) as [pre [post E]]. rewrite E.
    exists (ids (cl_ctx c0) ++ binders (cl_body c0) ++ pre), post.
    rewrite <- !app_assoc. auto.
Qed.

(* ---------- one step of `lin`, per statement form (all by computation) ---------- *)
Lemma lin_call : forall f l args c m,
  lin (S f) (Call l args) c m =
  if ctx_eqb c args then (Call l [], m)
  else let '(fr, m1) := freshen args [] m in (Substitute (combine fr (vars args)) (Call l []), m1).
Proof. reflexivity. Qed.
Lemma lin_let : forall f v t tag args next c m,
  lin (S f) (Let v t tag args next) c m =
  let nc := filter_by_set c (fv next) in
  if ctx_eqb c (nc ++ args) then
    let '(n', m1) := lin f next (nc ++ [mkb v Prd t]) m in (Let v t tag args n', m1)
  else
    let '(args', m1) := freshen args (ids nc) m in
    let '(n', m2) := lin f next (nc ++ [mkb v Prd t]) m1 in
    (Substitute (combine (nc ++ args') (vars (nc ++ args))) (Let v t tag args' n'), m2).
Proof. reflexivity. Qed.
Lemma lin_switch : forall f v t cls c m,
  lin (S f) (Switch v t cls) c m =
  let nc := filter_by_set c (fv_clauses cls) in
  let '(cls', m1) := lin_cls (lin f) (fun cc => nc ++ cc) cls m in
  if ctx_eqb c (nc ++ [mkb v Prd t]) then (Switch v t cls', m1)
  else
    let '(v', m2) := if mem (idn v) (ids nc) then ((fst v, m1 + 1), m1 + 1) else (v, m1) in
    (Substitute (combine (nc ++ [mkb v' Prd t]) (vars (nc ++ [mkb v Prd t]))) (Switch v' t cls'), m2).
Proof. reflexivity. Qed.
Lemma lin_create : forall f v t e cls next c m,
  lin (S f) (Create v t e cls next) c m =
  let cn := filter_by_set c (fv next) in
  let k := length cn in
  let cc := filter_by_set (skipn k c ++ firstn k c) (fv_clauses cls) in
  let '(cls', m1) := lin_cls (lin f) (fun x => x ++ cc) cls m in
  if ctx_eqb c (cn ++ cc) then
    let '(n', m2) := lin f next (cn ++ [mkb v Cns t]) m1 in
    (Create v t (Some cc) cls' n', m2)
  else
    let '(cnf, m2) := freshen cn (ids cc) m1 in
    let '(n', m3) := lin f (sub_s (combine (ids cn) (vars cnf)) next) (cnf ++ [mkb v Cns t]) m2 in
    (Substitute (combine (cnf ++ cc) (vars (cn ++ cc))) (Create v t (Some cc) cls' n'), m3).
Proof. reflexivity. Qed.
Lemma lin_invoke : forall f v tag t args c m,
  lin (S f) (Invoke v tag t args) c m =
  if ctx_eqb c (args ++ [mkb v Cns t]) then (Invoke v tag t [], m)
  else let '(fr, m1) := freshen args [idn v] m in
       (Substitute (combine (fr ++ [mkb v Cns t]) (vars (args ++ [mkb v Cns t]))) (Invoke v tag t []), m1).
Proof. reflexivity. Qed.
Lemma lin_literal : forall f n v next c m,
  lin (S f) (Literal n v next) c m =
  let nc := filter_by_set c (fv next) in
  let '(n', m1) := lin f next (nc ++ [mkb v Ext I64]) m in
  if ctx_eqb c nc then (Literal n v n', m1) else (Substitute (self_re nc) (Literal n v n'), m1).
Proof. reflexivity. Qed.
Lemma lin_op : forall f a o b v next c m,
  lin (S f) (Op a o b v next) c m =
  let nc := filter_by_set c (add (idn b) (add (idn a) (fv next))) in
  let '(n', m1) := lin f next (nc ++ [mkb v Ext I64]) m in
  if ctx_eqb c nc then (Op a o b v n', m1) else (Substitute (self_re nc) (Op a o b v n'), m1).
Proof. reflexivity. Qed.
Lemma lin_print : forall f nl v next c m,
  lin (S f) (PrintI64 nl v next) c m =
  let nc := filter_by_set c (add (idn v) (fv next)) in
  let '(n', m1) := lin f next nc m in
  if ctx_eqb c nc then (PrintI64 nl v n', m1) else (Substitute (self_re nc) (PrintI64 nl v n'), m1).
Proof. reflexivity. Qed.
Lemma lin_ifc : forall f so a b t e c m,
  lin (S f) (IfC so a b t e) c m =
  let '(t', m1) := lin f t c m in let '(e', m2) := lin f e c m1 in (IfC so a b t' e', m2).
Proof. reflexivity. Qed.
Lemma lin_exit : forall f v c m, lin (S f) (Exit v) c m = (Exit v, m).
Proof. reflexivity. Qed.


(* ---------- establishing lin_check for the shape-sensitive statements ---------- *)
Lemma ctx_match_length : forall a b, ctx_match a b = true -> length a = length b.
Proof.
  induction a as [|x a IH]; intros [|y b] H; simpl in *; try discriminate; auto.
  btrue. f_equal; auto.
Qed.
Lemma args_ok_same_kt : forall S t tag a a', same_kt a' a -> args_ok S t tag a = true -> args_ok S t tag a' = true.
Proof.
  unfold args_ok; intros S t tag a a' H. destruct (lookup_xtor S t tag); auto.
  apply sig_match_same_kt; auto.
Qed.
Lemma lin_check_let_intro : forall S c0 tl v t tag args next,
  NoDup (ids (c0 ++ tl)) -> ctx_match tl args = true -> args_ok S t tag args = true ->
  lin_check S (c0 ++ [mkb v Prd t]) next = true ->
  lin_check S (c0 ++ tl) (Let v t tag args next) = true.
Proof.
  intros S c0 tl v t tag args next Hnd Hm Ha Hn. simpl.
  rewrite <- (ctx_match_length _ _ Hm), split_lastn_app, Hm, Ha, Hn.
  rewrite !andb_true_r. apply nodupb_NoDup; auto.
Qed.
Lemma lin_check_switch_intro : forall S c0 b v t cls,
  NoDup (ids (c0 ++ [b])) -> idn (bvar b) = idn v -> bchi b = Prd -> bty b = t ->
  cls_ok S t cls = true -> lin_clauses_sw S c0 cls = true ->
  lin_check S (c0 ++ [b]) (Switch v t cls) = true.
Proof.
  intros S c0 b v t cls Hnd Hi Hc Ht Hk Hl. rewrite lin_check_switch.
  change 1%nat with (length [b]). rewrite split_lastn_app, Hi, Hc, Ht, Hk, Hl.
  rewrite N.eqb_refl, ty_eqb_refl. simpl. rewrite andb_true_r. apply nodupb_NoDup; auto.
Qed.
Lemma lin_check_create_intro : forall S c0 env v t cls next,
  NoDup (ids (c0 ++ env)) -> cls_ok S t cls = true -> lin_clauses_cr S env cls = true ->
  lin_check S (c0 ++ [mkb v Cns t]) next = true ->
  lin_check S (c0 ++ env) (Create v t (Some env) cls next) = true.
Proof.
  intros S c0 env v t cls next Hnd Hk Hl Hn. rewrite lin_check_create.
  rewrite split_lastn_app, ctx_match_refl, Hk, Hl, Hn. simpl. rewrite andb_true_r. apply nodupb_NoDup; auto.
Qed.
Lemma lin_check_invoke_intro : forall S c0 b v tag t args,
  NoDup (ids (c0 ++ [b])) -> idn (bvar b) = idn v -> bchi b = Cns -> bty b = t ->
  args_ok S t tag c0 = true ->
  lin_check S (c0 ++ [b]) (Invoke v tag t args) = true.
Proof.
  intros S c0 b v tag t args Hnd Hi Hc Ht Ha. simpl.
  change 1%nat with (length [b]). rewrite split_lastn_app, Hi, Hc, Ht, Ha.
  rewrite N.eqb_refl, ty_eqb_refl. simpl. rewrite andb_true_r. apply nodupb_NoDup; auto.
Qed.


(* ---------- helpers for the clause-carrying statements ---------- *)
Lemma reorder_perm : forall {A} k (c : list A), Permutation (skipn k c ++ firstn k c) c.
Proof.
  intros. eapply Permutation_trans; [apply Permutation_app_comm|]. rewrite firstn_skipn. apply Permutation_refl.
Qed.
Lemma reorder_In : forall {A} k (c : list A) b, In b (skipn k c ++ firstn k c) <-> In b c.
Proof.
  intros; split; intros H.
  - eapply Permutation_in; [apply reorder_perm|]; eauto.
  - eapply Permutation_in; [apply Permutation_sym, reorder_perm|]; eauto.
Qed.
Lemma reorder_NoDup : forall k (c : ctx), NoDup (ids c) -> NoDup (ids (skipn k c ++ firstn k c)).
Proof.
  intros k c H. unfold ids. eapply Permutation_NoDup; [apply Permutation_sym, Permutation_map, reorder_perm|]. auto.
Qed.
(* switch clauses: `cc ++ c` and `filter_by_set c F ++ cc` look up alike on cc and F *)
Lemma lookup_clause_sw : forall c F cc x,
  NoDup (ids c) -> (forall y, In y (ids cc) -> ~ In y (ids c)) -> (In x (ids cc) \/ In x F) ->
  lookup_b (cc ++ c) x = lookup_b (filter_by_set c F ++ cc) x.
Proof.
  intros c F cc x Hnd Hd Hx. rewrite !lookup_b_app, fbs_lookup by auto.
  destruct (lookup_b cc x) as [b|] eqn:E.
  - assert (Hin : In x (ids cc)).
    { apply lookup_b_Some in E. destruct E as [E1 E2]. subst; apply In_ids; auto. }
    assert (Hn : lookup_b c x = None) by (apply lookup_b_None; auto).
    rewrite Hn. destruct (mem x F); auto.
  - destruct Hx as [Hx|Hx]; [apply lookup_b_None in E; tauto|].
    apply mem_In in Hx. rewrite Hx. destruct (lookup_b c x); auto.
Qed.
Lemma binders_cls_ctx_NoDup : forall cls cl, NoDup (binders_cls cls) -> In cl cls -> NoDup (ids (cl_ctx cl)).
Proof.
  intros cls cl H Hin. destruct (binders_cls_split cls cl Hin) as [pre [post E]]. rewrite E in H.
  apply NoDup_app_iff in H. destruct H as [_ [H _]].
  apply NoDup_app_iff in H. destruct H as [H _].
  apply NoDup_app_iff in H. tauto.
Qed.

(* the renaming Create applies to `next`: the i-th variable of context_next goes to the i-th
   variable of its freshened version *)
Lemma ren_lookup : forall cn cnf, same_shape cn cnf -> NoDup (ids cn) ->
  forall b, In b cn ->
  exists b', In b' cnf /\ sub_n (combine (ids cn) (vars cnf)) (idn (bvar b)) = idn (bvar b') /\
             bchi b' = bchi b /\ bty b' = bty b.
Proof.
  intros cn cnf H; induction H as [|x y cn cnf [K1 [K2 K3]] H IH]; intros Hnd b Hb; simpl in *; [tauto|].
  inversion Hnd as [|? ? Hn Hnd']; subst.
  destruct Hb as [<-|Hb].
  - exists y. unfold sub_n; simpl. rewrite N.eqb_refl. simpl. auto.
  - destruct (IH Hnd' b Hb) as [b' [B1 [B2 B3]]]. exists b'. split; auto. split; auto.
    unfold sub_n in *; simpl.
    destruct (N.eqb (idn (bvar x)) (idn (bvar b))) eqn:E; auto.
    apply N.eqb_eq in E. exfalso. apply Hn. rewrite E. apply In_ids; auto.
Qed.
Lemma su_fst : forall cn cnf, same_shape cn cnf -> map fst (combine (ids cn) (vars cnf)) = ids cn.
Proof.
  intros. apply combine_map_fst. rewrite ids_length, vars_length. apply same_shape_length; auto.
Qed.
Lemma su_snd : forall cn cnf, same_shape cn cnf ->
  map (fun p : N * ident => idn (snd p)) (combine (ids cn) (vars cnf)) = ids cnf.
Proof.
  intros cn cnf H. rewrite <- (map_map snd idn). rewrite combine_map_snd.
  - apply ids_vars.
  - rewrite ids_length, vars_length. apply same_shape_length; auto.
Qed.

Ltac fin := repeat (apply andb_true_iff; split); try assumption; try (apply nodupb_NoDup; assumption).

(* ---------- binders of the output ---------- *)
Fixpoint binders_ns_cls (cls : list clause) : list N :=
  match cls with
  | [] => []
  | c :: r => ids (cl_ctx c) ++ binders_ns (cl_body c) ++ binders_ns_cls r
  end.
Lemma binders_ns_switch : forall v t cls, binders_ns (Switch v t cls) = binders_ns_cls cls.
Proof. intros; simpl. induction cls as [|[[x cc] b] r IH]; simpl; auto; try (rewrite IH; auto). Qed.
Lemma binders_ns_create : forall v t e cls next,
  binders_ns (Create v t e cls next) = idn v :: binders_ns_cls cls ++ binders_ns next.
Proof.
  intros; simpl. f_equal. f_equal. induction cls as [|[[x cc] b] r IH]; simpl; auto; try (rewrite IH; auto).
Qed.
Lemma binders_subst : forall (newc : ctx) (olds : list ident) body, length newc = length olds ->
  binders (Substitute (combine newc olds) body) = ids newc ++ binders body.
Proof.
  intros newc olds body H. simpl. f_equal.
  rewrite <- (map_map fst (fun b => idn (bvar b))). rewrite combine_map_fst; auto.
Qed.
Lemma bns_cls_F2 : forall (Q : clause -> stmt -> Prop) cls cls',
  Forall2 (fun cl cl' => cl_xtor cl' = cl_xtor cl /\ cl_ctx cl' = cl_ctx cl /\ Q cl (cl_body cl')) cls cls' ->
  (forall cl b, Q cl b -> binders_ns b = binders (cl_body cl)) ->
  binders_ns_cls cls' = binders_cls cls.
Proof.
  intros Q cls cls' H HQ; induction H as [|cl cl' cls cls' [H1 [H2 H3]] H IH]; simpl; auto.
  rewrite H2, (HQ _ _ H3), IH. auto.
Qed.
Lemma bound_cls_F2 : forall (Q : clause -> stmt -> Prop) cls cls' a,
  Forall2 (fun cl cl' => cl_xtor cl' = cl_xtor cl /\ cl_ctx cl' = cl_ctx cl /\ Q cl (cl_body cl')) cls cls' ->
  (forall cl b, Q cl b -> forall x, In x (binders b) -> x <= a) ->
  (forall x, In x (binders_cls cls) -> x <= a) ->
  forall x, In x (binders_cls cls') -> x <= a.
Proof.
  intros Q cls cls' a H HQ; induction H as [|cl cl' cls cls' [H1 [H2 H3]] H IH]; simpl; intros Hb x Hx; [tauto|].
  apply in_app_or in Hx. destruct Hx as [Hx|Hx].
  - apply Hb. rewrite H2 in Hx. apply in_or_app; auto.
  - apply in_app_or in Hx. destruct Hx as [Hx|Hx].
    + eapply HQ; eauto.
    + apply IH; auto. intros y Hy. apply Hb. apply in_or_app; right. apply in_or_app; auto.
Qed.

(* ---------- what is shown of one call of `lin` ---------- *)
Definition post (S : sigs) (c : ctx) (s : stmt) (m : N) (r : stmt * N) : Prop :=
  lin_check S c (fst r) = true /\ m <= snd r /\
  binders_ns (fst r) = binders s /\ (forall x, In x (binders (fst r)) -> x <= snd r).

Lemma post_wrap : forall S c s m (newc oldc : ctx) body m',
  lin_check S c (Substitute (combine newc (vars oldc)) body) = true -> m <= m' ->
  length newc = length oldc -> binders_ns body = binders s ->
  (forall x, In x (ids newc) -> x <= m') -> (forall x, In x (binders body) -> x <= m') ->
  post S c s m (Substitute (combine newc (vars oldc)) body, m').
Proof.
  intros S c s m newc oldc body m' H1 H2 H3 H4 H5 H6. unfold post. cbn [fst snd].
  split; auto. split; auto. split; auto.
  rewrite binders_subst by (rewrite vars_length; auto).
  intros x Hx. apply in_app_or in Hx. destruct Hx; auto.
Qed.

Definition good (S : sigs) (f : nat) : Prop :=
  forall s c m, (stmt_size s <= f)%nat -> ax_check S c s = true -> inv c s m ->
    post S c s m (lin f s c m).

Section Cases.
  Variable S : sigs.
  Variable f : nat.
  Hypothesis IH : good S f.
  Notation Sf := (Datatypes.S f).

  Lemma case_exit : forall v c m,
    ax_check S c (Exit v) = true -> inv c (Exit v) m -> post S c (Exit v) m (lin Sf (Exit v) c m).
  Proof.
    intros v c m Hax [I1 _]. rewrite lin_exit. unfold post. simpl in *.
    split; [fin|]. split; [lia|]. split; auto. tauto.
  Qed.

  Lemma case_ifc : forall so a b t e c m,
    (stmt_size (IfC so a b t e) <= Sf)%nat ->
    ax_check S c (IfC so a b t e) = true -> inv c (IfC so a b t e) m ->
    post S c (IfC so a b t e) m (lin Sf (IfC so a b t e) c m).
  Proof.
    intros so a b t e c m Hsz Hax Hinv. rewrite lin_ifc. simpl in Hsz, Hax.
    assert (I1 : NoDup (ids c)) by apply Hinv.
    apply andb_true_iff in Hax. destruct Hax as [Hax Hae].
    apply andb_true_iff in Hax. destruct Hax as [Hax Hat].
    apply andb_true_iff in Hax. destruct Hax as [Ha Hb].
    destruct (IH t c m) as [T1 [T2 [T3 T4]]]; [lia|auto| |].
    { apply inv_gen with (c := c) (s := IfC so a b t e) (m := m) (pre := []) (post := binders e);
        [exact Hinv|lia|auto|reflexivity|auto]. }
    destruct (lin f t c m) as [t' m1] eqn:Et. cbn [fst snd] in *.
    destruct (IH e c m1) as [E1 [E2 [E3 E4]]]; [lia|auto| |].
    { apply inv_gen with (c := c) (s := IfC so a b t e) (m := m) (pre := binders t) (post := []);
        [exact Hinv|lia|auto|simpl; rewrite app_nil_r; auto|auto]. }
    destruct (lin f e c m1) as [e' m2] eqn:Ee. cbn [fst snd] in *.
    unfold post. cbn [fst snd]. split; [simpl; fin|]. split; [lia|]. split.
    - simpl. rewrite T3, E3. auto.
    - simpl. intros x Hx. apply in_app_or in Hx. destruct Hx as [Hx|Hx]; auto.
      apply T4 in Hx. lia.
  Qed.

  Lemma case_print : forall nl v next c m,
    (stmt_size (PrintI64 nl v next) <= Sf)%nat ->
    ax_check S c (PrintI64 nl v next) = true -> inv c (PrintI64 nl v next) m ->
    post S c (PrintI64 nl v next) m (lin Sf (PrintI64 nl v next) c m).
  Proof.
    intros nl v next c m Hsz Hax Hinv. rewrite lin_print. cbv zeta. simpl in Hsz, Hax.
    assert (I1 : NoDup (ids c)) by apply Hinv.
    assert (I4 : forall x, In x (ids c) -> x <= m) by apply Hinv.
    apply andb_true_iff in Hax. destruct Hax as [Hv Hax].
    set (F := add (idn v) (fv next)). set (nc := filter_by_set c F).
    assert (Hnc : NoDup (ids nc)) by (apply fbs_NoDup; auto).
    assert (Hax' : ax_check S nc next = true).
    { rewrite <- Hax. symmetry. apply ax_check_ext. intros x Hx.
      apply lookup_fbs_sub; auto. apply add_In; auto. }
    destruct (IH next nc m) as [N1 [N2 [N3 N4]]]; [lia|auto| |].
    { apply inv_gen with (c := c) (s := PrintI64 nl v next) (m := m) (pre := []) (post := []);
        [exact Hinv|lia|auto|simpl; rewrite app_nil_r; auto|].
      intros x Hx. left. eapply fbs_ids_incl; eauto. }
    destruct (lin f next nc m) as [n' m1] eqn:En. cbn [fst snd] in *.
    assert (Hv' : has_ext nc v = true).
    { unfold has_ext in *. rewrite <- Hv. apply has_ext_lookup. symmetry. apply lookup_fbs_sub; auto.
      apply add_In; auto. }
    destruct (ctx_eqb c nc) eqn:Eq.
    - unfold post. cbn [fst snd]. split; [|split; [lia|split; auto]].
      apply ctx_eqb_eq in Eq. rewrite <- Eq in *. simpl. fin.
    - apply post_wrap; auto.
      + apply self_subst_ok; auto.
        * intros b Hb. apply fbs_In in Hb. tauto.
        * simpl. fin.
      + intros x Hx. apply fbs_ids_incl in Hx. apply I4 in Hx. lia.
  Qed.

  Lemma case_literal : forall n v next c m,
    (stmt_size (Literal n v next) <= Sf)%nat ->
    ax_check S c (Literal n v next) = true -> inv c (Literal n v next) m ->
    post S c (Literal n v next) m (lin Sf (Literal n v next) c m).
  Proof.
    intros n v next c m Hsz Hax Hinv. rewrite lin_literal. cbv zeta. simpl in Hsz, Hax.
    assert (I1 : NoDup (ids c)) by apply Hinv.
    assert (I4 : forall x, In x (ids c) -> x <= m) by apply Hinv.
    assert (I5 : idn v <= m) by (apply Hinv; simpl; auto).
    assert (Iv : ~ In (idn v) (ids c)).
    { destruct Hinv as [_ [_ [I3 _]]]. intros Hin. apply (I3 _ Hin). simpl; auto. }
    set (F := fv next). set (nc := filter_by_set c F). set (vb := mkb v Ext I64).
    assert (Hnc : NoDup (ids nc)) by (apply fbs_NoDup; auto).
    assert (Hax' : ax_check S (nc ++ [vb]) next = true).
    { rewrite <- Hax. symmetry. apply ax_check_ext. intros x Hx.
      apply lookup_snoc_fbs; auto. }
    assert (Hnd' : NoDup (ids (nc ++ [vb]))).
    { rewrite ids_app. apply NoDup_snoc; auto. intros Hin. apply Iv. eapply fbs_ids_incl; eauto. }
    destruct (IH next (nc ++ [vb]) m) as [N1 [N2 [N3 N4]]]; [lia|auto| |].
    { apply inv_gen with (c := c) (s := Literal n v next) (m := m) (pre := [idn v]) (post := []);
        [exact Hinv|lia|auto|simpl; rewrite app_nil_r; auto|].
      intros x Hx. rewrite ids_app in Hx. apply in_app_or in Hx. destruct Hx as [Hx|[<-|[]]].
      - left. eapply fbs_ids_incl; eauto.
      - right. left. simpl; auto. }
    destruct (lin f next (nc ++ [vb]) m) as [n' m1] eqn:En. cbn [fst snd] in *.
    assert (Hbn : binders_ns (Literal n v n') = binders (Literal n v next)) by (simpl; rewrite N3; auto).
    assert (Hbd : forall x, In x (binders (Literal n v n')) -> x <= m1).
    { simpl. intros x [<-|Hx]; auto. lia. }
    destruct (ctx_eqb c nc) eqn:Eq.
    - unfold post. cbn [fst snd]. split; [|split; [lia|split; auto]].
      apply ctx_eqb_eq in Eq. rewrite <- Eq in *. simpl. fin.
    - apply post_wrap; auto.
      + apply self_subst_ok; auto.
        * intros b Hb. apply fbs_In in Hb. tauto.
        * simpl. fin.
      + intros x Hx. apply fbs_ids_incl in Hx. apply I4 in Hx. lia.
  Qed.

  Lemma case_op : forall a o b v next c m,
    (stmt_size (Op a o b v next) <= Sf)%nat ->
    ax_check S c (Op a o b v next) = true -> inv c (Op a o b v next) m ->
    post S c (Op a o b v next) m (lin Sf (Op a o b v next) c m).
  Proof.
    intros a o b v next c m Hsz Hax Hinv. rewrite lin_op. cbv zeta. simpl in Hsz, Hax.
    assert (I1 : NoDup (ids c)) by apply Hinv.
    assert (I4 : forall x, In x (ids c) -> x <= m) by apply Hinv.
    assert (I5 : idn v <= m) by (apply Hinv; simpl; auto).
    assert (Iv : ~ In (idn v) (ids c)).
    { destruct Hinv as [_ [_ [I3 _]]]. intros Hin. apply (I3 _ Hin). simpl; auto. }
    apply andb_true_iff in Hax. destruct Hax as [Hax Hn].
    apply andb_true_iff in Hax. destruct Hax as [Ha Hb].
    set (F := add (idn b) (add (idn a) (fv next))). set (nc := filter_by_set c F). set (vb := mkb v Ext I64).
    assert (Hnc : NoDup (ids nc)) by (apply fbs_NoDup; auto).
    assert (Hax' : ax_check S (nc ++ [vb]) next = true).
    { rewrite <- Hn. symmetry. apply ax_check_ext. intros x Hx.
      apply lookup_snoc_fbs; auto. left. apply add_In. right. apply add_In. auto. }
    assert (Hnd' : NoDup (ids (nc ++ [vb]))).
    { rewrite ids_app. apply NoDup_snoc; auto. intros Hin. apply Iv. eapply fbs_ids_incl; eauto. }
    destruct (IH next (nc ++ [vb]) m) as [N1 [N2 [N3 N4]]]; [lia|auto| |].
    { apply inv_gen with (c := c) (s := Op a o b v next) (m := m) (pre := [idn v]) (post := []);
        [exact Hinv|lia|auto|simpl; rewrite app_nil_r; auto|].
      intros x Hx. rewrite ids_app in Hx. apply in_app_or in Hx. destruct Hx as [Hx|[<-|[]]].
      - left. eapply fbs_ids_incl; eauto.
      - right. left. simpl; auto. }
    destruct (lin f next (nc ++ [vb]) m) as [n' m1] eqn:En. cbn [fst snd] in *.
    assert (Ha' : has_ext nc a = true).
    { unfold has_ext in *. rewrite <- Ha. apply has_ext_lookup. symmetry. apply lookup_fbs_sub; auto.
      apply add_In. right. apply add_In. auto. }
    assert (Hb' : has_ext nc b = true).
    { unfold has_ext in *. rewrite <- Hb. apply has_ext_lookup. symmetry. apply lookup_fbs_sub; auto.
      apply add_In. auto. }
    assert (Hbn : binders_ns (Op a o b v n') = binders (Op a o b v next)) by (simpl; rewrite N3; auto).
    assert (Hbd : forall x, In x (binders (Op a o b v n')) -> x <= m1).
    { simpl. intros x [<-|Hx]; auto. lia. }
    destruct (ctx_eqb c nc) eqn:Eq.
    - unfold post. cbn [fst snd]. split; [|split; [lia|split; auto]].
      apply ctx_eqb_eq in Eq. rewrite <- Eq in *. simpl. fin.
    - apply post_wrap; auto.
      + apply self_subst_ok; auto.
        * intros b0 Hb0. apply fbs_In in Hb0. tauto.
        * simpl. fin.
      + intros x Hx. apply fbs_ids_incl in Hx. apply I4 in Hx. lia.
  Qed.

  Lemma case_call : forall l args c m,
    ax_check S c (Call l args) = true -> inv c (Call l args) m ->
    post S c (Call l args) m (lin Sf (Call l args) c m).
  Proof.
    intros l args c m Hax Hinv. rewrite lin_call. simpl in Hax.
    destruct Hinv as [I1 [I2 [I3 [I4 I5]]]].
    destruct (lookup_label S l) as [ps|] eqn:El; try discriminate.
    apply andb_true_iff in Hax. destruct Hax as [Hsig Hargs].
    rewrite forallb_forall in Hargs.
    destruct (ctx_eqb c args) eqn:Eq.
    - apply ctx_eqb_eq in Eq. subst. unfold post. cbn [fst snd].
      split; [simpl; rewrite El; fin|]. split; [lia|]. split; [auto|simpl; tauto].
    - destruct (freshen args [] m) as [fr m1] eqn:Ef.
      assert (Hb1 : forall x, In x (@nil N) -> x <= m) by (intros x []).
      assert (Hb2 : forall x, In x (ids args) -> x <= m).
      { intros x Hx. apply In_ids_ex in Hx. destruct Hx as [b [B1 B2]].
        apply Hargs in B1. apply has_b_In_ids in B1. rewrite B2 in B1. auto. }
      destruct (freshen_spec _ _ _ _ _ Ef Hb1 Hb2) as [F1 [F2 [F3 [F4 F5]]]].
      assert (Hkt : same_kt fr args) by (apply same_kt_sym, same_shape_kt; auto).
      apply post_wrap; auto.
      + apply subst_ok; auto. simpl. rewrite El. fin. eapply sig_match_same_kt; eauto.
      + symmetry. apply same_shape_length; auto.
      + eapply freshen_bound; eauto.
      + simpl; tauto.
  Qed.

  Lemma case_invoke : forall v tag t args c m,
    ax_check S c (Invoke v tag t args) = true -> inv c (Invoke v tag t args) m ->
    post S c (Invoke v tag t args) m (lin Sf (Invoke v tag t args) c m).
  Proof.
    intros v tag t args c m Hax Hinv. rewrite lin_invoke. simpl in Hax.
    destruct Hinv as [I1 [I2 [I3 [I4 I5]]]].
    apply andb_true_iff in Hax. destruct Hax as [Hax Hargs].
    apply andb_true_iff in Hax. destruct Hax as [Hv Hok].
    rewrite forallb_forall in Hargs.
    assert (Hvm : idn v <= m) by (apply I4; eapply has_In_ids; eauto).
    set (cb := mkb v Cns t).
    destruct (ctx_eqb c (args ++ [cb])) eqn:Eq.
    - apply ctx_eqb_eq in Eq. unfold post. cbn [fst snd].
      split; [|split; [lia|split; [auto|simpl; tauto]]].
      rewrite Eq. apply lin_check_invoke_intro; auto. rewrite <- Eq; auto.
    - destruct (freshen args [idn v] m) as [fr m1] eqn:Ef.
      assert (Hb1 : forall x, In x [idn v] -> x <= m) by (intros x [<-|[]]; auto).
      assert (Hb2 : forall x, In x (ids args) -> x <= m).
      { intros x Hx. apply In_ids_ex in Hx. destruct Hx as [b [B1 B2]].
        apply Hargs in B1. apply has_b_In_ids in B1. rewrite B2 in B1. auto. }
      destruct (freshen_spec _ _ _ _ _ Ef Hb1 Hb2) as [F1 [F2 [F3 [F4 F5]]]].
      assert (Hkt : same_kt fr args) by (apply same_kt_sym, same_shape_kt; auto).
      apply post_wrap; auto.
      + apply subst_ok; auto.
        * apply same_kt_app; auto. apply same_kt_refl.
        * intros b Hb. apply in_app_or in Hb. destruct Hb as [Hb|[<-|[]]]; auto.
        * apply lin_check_invoke_intro; auto.
          -- rewrite ids_app. apply NoDup_snoc; auto. intros Hin. apply (F4 _ Hin). simpl; auto.
          -- eapply args_ok_same_kt; eauto.
      + rewrite !app_length. simpl. f_equal. symmetry. apply same_shape_length; auto.
      + intros x Hx. rewrite ids_app in Hx. apply in_app_or in Hx. destruct Hx as [Hx|[<-|[]]].
        * eapply freshen_bound; eauto.
        * simpl. lia.
      + simpl; tauto.
  Qed.

  Lemma case_let : forall v t tag args next c m,
    (stmt_size (Let v t tag args next) <= Sf)%nat ->
    ax_check S c (Let v t tag args next) = true -> inv c (Let v t tag args next) m ->
    post S c (Let v t tag args next) m (lin Sf (Let v t tag args next) c m).
  Proof.
    intros v t tag args next c m Hsz Hax Hinv. rewrite lin_let. cbv zeta. simpl in Hsz, Hax.
    assert (I1 : NoDup (ids c)) by apply Hinv.
    assert (I4 : forall x, In x (ids c) -> x <= m) by apply Hinv.
    assert (I5 : idn v <= m) by (apply Hinv; simpl; auto).
    assert (Iv : ~ In (idn v) (ids c)).
    { destruct Hinv as [_ [_ [I3 _]]]. intros Hin. apply (I3 _ Hin). simpl; auto. }
    apply andb_true_iff in Hax. destruct Hax as [Hax Hn].
    apply andb_true_iff in Hax. destruct Hax as [Hok Hargs].
    rewrite forallb_forall in Hargs.
    set (nc := filter_by_set c (fv next)). set (vb := mkb v Prd t).
    assert (Hnc : NoDup (ids nc)) by (apply fbs_NoDup; auto).
    assert (Hax' : ax_check S (nc ++ [vb]) next = true).
    { rewrite <- Hn. symmetry. apply ax_check_ext. intros x Hx. apply lookup_snoc_fbs; auto. }
    assert (Hnd' : NoDup (ids (nc ++ [vb]))).
    { rewrite ids_app. apply NoDup_snoc; auto. intros Hin. apply Iv. eapply fbs_ids_incl; eauto. }
    assert (Hinv' : forall m', m <= m' -> inv (nc ++ [vb]) next m').
    { intros m' Hm'.
      apply inv_gen with (c := c) (s := Let v t tag args next) (m := m) (pre := [idn v]) (post := []);
        [exact Hinv|lia|auto|simpl; rewrite app_nil_r; auto|].
      intros x Hx. rewrite ids_app in Hx. apply in_app_or in Hx. destruct Hx as [Hx|[<-|[]]].
      - left. eapply fbs_ids_incl; eauto.
      - right. left. simpl; auto. }
    destruct (ctx_eqb c (nc ++ args)) eqn:Eq.
    - destruct (IH next (nc ++ [vb]) m) as [N1 [N2 [N3 N4]]]; [lia|auto|apply Hinv'; lia|].
      destruct (lin f next (nc ++ [vb]) m) as [n' m1] eqn:En. cbn [fst snd] in *.
      unfold post. cbn [fst snd]. split; [|split; [lia|split]].
      + apply ctx_eqb_eq in Eq. rewrite Eq at 1.
        apply lin_check_let_intro; auto.
        * rewrite <- Eq; auto.
        * apply ctx_match_refl.
      + simpl. rewrite N3. auto.
      + simpl. intros x [<-|Hx]; auto. lia.
    - destruct (freshen args (ids nc) m) as [args' m1] eqn:Ef.
      assert (Hb1 : forall x, In x (ids nc) -> x <= m).
      { intros x Hx. apply I4. eapply fbs_ids_incl; eauto. }
      assert (Hb2 : forall x, In x (ids args) -> x <= m).
      { intros x Hx. apply In_ids_ex in Hx. destruct Hx as [b [B1 B2]].
        apply Hargs in B1. apply has_b_In_ids in B1. rewrite B2 in B1. auto. }
      destruct (freshen_spec _ _ _ _ _ Ef Hb1 Hb2) as [F1 [F2 [F3 [F4 F5]]]].
      assert (Hkt : same_kt args' args) by (apply same_kt_sym, same_shape_kt; auto).
      destruct (IH next (nc ++ [vb]) m1) as [N1 [N2 [N3 N4]]]; [lia|auto|apply Hinv'; lia|].
      destruct (lin f next (nc ++ [vb]) m1) as [n' m2] eqn:En. cbn [fst snd] in *.
      apply post_wrap; auto.
      + apply subst_ok; auto.
        * apply same_kt_app; auto. apply same_kt_refl.
        * intros b Hb. apply in_app_or in Hb. destruct Hb as [Hb|Hb]; auto.
          apply has_b_In; auto. apply fbs_In in Hb. tauto.
        * apply lin_check_let_intro; auto.
          -- rewrite ids_app. apply NoDup_app_iff. repeat split; auto.
             intros x Hx Hx'. apply (F4 _ Hx'). auto.
          -- apply ctx_match_refl.
          -- eapply args_ok_same_kt; eauto.
      + lia.
      + rewrite !app_length. f_equal. symmetry. apply same_shape_length; auto.
      + simpl. rewrite N3. auto.
      + intros x Hx. rewrite ids_app in Hx. apply in_app_or in Hx. destruct Hx as [Hx|Hx].
        * apply Hb1 in Hx. lia.
        * assert (x <= m1) by (eapply freshen_bound; eauto). lia.
      + simpl. intros x [<-|Hx]; auto. lia.
  Qed.

  Lemma case_switch : forall v t cls c m,
    (stmt_size (Switch v t cls) <= Sf)%nat ->
    ax_check S c (Switch v t cls) = true -> inv c (Switch v t cls) m ->
    post S c (Switch v t cls) m (lin Sf (Switch v t cls) c m).
  Proof.
    intros v t cls c m Hsz Hax Hinv. rewrite lin_switch. cbv zeta.
    rewrite size_switch in Hsz. rewrite ax_check_switch in Hax.
    assert (I1 : NoDup (ids c)) by apply Hinv.
    assert (I2 : NoDup (binders_cls cls)) by (rewrite <- (binders_switch v t); apply Hinv).
    assert (I3 : forall x, In x (ids c) -> ~ In x (binders_cls cls)).
    { rewrite <- (binders_switch v t). apply Hinv. }
    assert (I4 : forall x, In x (ids c) -> x <= m) by apply Hinv.
    assert (I5 : forall x, In x (binders_cls cls) -> x <= m).
    { rewrite <- (binders_switch v t). apply Hinv. }
    apply andb_true_iff in Hax. destruct Hax as [Hax Hcl].
    apply andb_true_iff in Hax. destruct Hax as [Hv Hok].
    unfold ax_clauses in Hcl. rewrite forallb_forall in Hcl.
    assert (Hvm : idn v <= m) by (apply I4; eapply has_In_ids; eauto).
    set (nc := filter_by_set c (fv_clauses cls)). set (vb := mkb v Prd t).
    assert (Hnc : NoDup (ids nc)) by (apply fbs_NoDup; auto).
    assert (Hncm : forall x, In x (ids nc) -> x <= m).
    { intros x Hx. apply I4. eapply fbs_ids_incl; eauto. }
    set (Q := fun (cl : clause) (b' : stmt) (a : N) =>
                lin_check S (nc ++ cl_ctx cl) b' = true /\ binders_ns b' = binders (cl_body cl) /\
                (forall x, In x (binders b') -> x <= a)).
    destruct (lin_cls_spec (lin f) (fun cc => nc ++ cc) Q cls m) as [H1 H2].
    { intros cl b a a' [Q1 [Q2 Q3]] Ha. repeat split; auto. intros x Hx. apply Q3 in Hx. lia. }
    { intros cl m0 Hin Hm0.
      assert (Hd : forall y, In y (ids (cl_ctx cl)) -> ~ In y (ids c)).
      { intros y Hy Hc. apply (I3 _ Hc). eapply binders_cls_In; eauto. apply in_or_app; auto. }
      destruct (IH (cl_body cl) (nc ++ cl_ctx cl) m0) as [P1 [P2 [P3 P4]]].
      - apply size_cls_In in Hin. lia.
      - rewrite <- (Hcl cl Hin). symmetry. apply ax_check_ext. intros x Hx.
        apply lookup_clause_sw; auto.
        destruct (in_dec N.eq_dec x (ids (cl_ctx cl))); auto.
        right. apply fv_clauses_In. exists cl; auto.
      - destruct (binders_cls_split cls cl Hin) as [pre [post0 E]].
        apply inv_gen with (c := c) (s := Switch v t cls) (m := m)
                           (pre := pre ++ ids (cl_ctx cl)) (post := post0); [exact Hinv|lia| | |].
        + rewrite ids_app. apply NoDup_app_iff. repeat split; auto.
          * eapply binders_cls_ctx_NoDup; eauto.
          * intros x Hx Hx'. apply (Hd x Hx'). eapply fbs_ids_incl; eauto.
        + rewrite binders_switch, E. rewrite <- !app_assoc. auto.
        + intros x Hx. rewrite ids_app in Hx. apply in_app_or in Hx. destruct Hx as [Hx|Hx].
          * left. eapply fbs_ids_incl; eauto.
          * right. left. apply in_or_app; auto.
      - unfold Q. auto. }
    destruct (lin_cls (lin f) (fun cc => nc ++ cc) cls m) as [cls' m1] eqn:Ec. cbn [fst snd] in *.
    set (Q' := fun cl b' => Q cl b' m1) in *.
    assert (Hok' : cls_ok S t cls' = true) by (rewrite (cls_ok_F2 S t Q' cls cls' H2); auto).
    assert (Hcl' : lin_clauses_sw S nc cls' = true).
    { unfold lin_clauses_sw. apply (forallb_F2 _ Q' cls cls' H2).
      intros cl cl' E [Q1 _]. rewrite E. auto. }
    assert (Hbn : forall v', binders_ns (Switch v' t cls') = binders (Switch v t cls)).
    { intros v'. rewrite binders_ns_switch, binders_switch. apply (bns_cls_F2 Q' cls cls' H2).
      intros cl b [_ [Q2 _]]; auto. }
    assert (Hbd : forall v' x, In x (binders (Switch v' t cls')) -> x <= m1).
    { intros v'. rewrite binders_switch. apply (bound_cls_F2 Q' cls cls' m1 H2).
      - intros cl b [_ [_ Q3]]; auto.
      - intros x Hx. apply I5 in Hx. lia. }
    destruct (ctx_eqb c (nc ++ [vb])) eqn:Eq.
    - unfold post. cbn [fst snd]. split; [|split; [lia|split; [apply Hbn|apply Hbd]]].
      apply ctx_eqb_eq in Eq. rewrite Eq at 1.
      apply lin_check_switch_intro; auto. rewrite <- Eq; auto.
    - assert (Hsrc : forall b, In b (nc ++ [vb]) -> has_b c b = true).
      { intros b Hb. apply in_app_or in Hb. destruct Hb as [Hb|[<-|[]]]; auto.
        apply has_b_In; auto. apply fbs_In in Hb. tauto. }
      destruct (mem (idn v) (ids nc)) eqn:M.
      + apply post_wrap; [ |lia|rewrite !app_length; auto|apply Hbn| |].
        * apply subst_ok; auto.
          -- apply same_kt_app; [apply same_kt_refl|]. constructor; [simpl; auto|constructor].
          -- apply lin_check_switch_intro; auto.
             rewrite ids_app. apply NoDup_snoc; auto. simpl. intros Hin.
             apply Hncm in Hin. lia.
        * intros x Hx. rewrite ids_app in Hx. apply in_app_or in Hx. destruct Hx as [Hx|[<-|[]]].
          -- apply Hncm in Hx. lia.
          -- simpl. lia.
        * intros x Hx. apply Hbd in Hx. lia.
      + apply mem_false in M. apply post_wrap; [ |lia|rewrite !app_length; auto|apply Hbn| |apply Hbd].
        * apply subst_ok; auto.
          -- apply same_kt_app; [apply same_kt_refl|]. constructor; [simpl; auto|constructor].
          -- apply lin_check_switch_intro; auto.
             rewrite ids_app. apply NoDup_snoc; auto.
        * intros x Hx. rewrite ids_app in Hx. apply in_app_or in Hx. destruct Hx as [Hx|[<-|[]]].
          -- apply Hncm in Hx. lia.
          -- simpl. lia.
  Qed.

  Lemma case_create : forall v t e cls next c m,
    (stmt_size (Create v t e cls next) <= Sf)%nat ->
    ax_check S c (Create v t e cls next) = true -> inv c (Create v t e cls next) m ->
    post S c (Create v t e cls next) m (lin Sf (Create v t e cls next) c m).
  Proof.
    intros v t e cls next c m Hsz Hax Hinv. rewrite lin_create. cbv zeta.
    rewrite size_create in Hsz. rewrite ax_check_create in Hax.
    pose proof Hinv as [I1 [I2 [I3 [I4 I5]]]]. rewrite binders_create in I2, I3, I5.
    assert (Iv : ~ In (idn v) (ids c)) by (intros Hin; apply (I3 _ Hin); simpl; auto).
    assert (Ivm : idn v <= m) by (apply I5; simpl; auto).
    assert (I2c : NoDup (binders_cls cls)).
    { inversion I2; subst. match goal with Hx : NoDup (_ ++ _) |- _ => apply NoDup_app_iff in Hx; tauto end. }
    assert (I5c : forall x, In x (binders_cls cls) -> x <= m).
    { intros x Hx. apply I5. right. apply in_or_app; auto. }
    apply andb_true_iff in Hax. destruct Hax as [Hax Hn].
    apply andb_true_iff in Hax. destruct Hax as [Hok Hcl].
    unfold ax_clauses in Hcl. rewrite forallb_forall in Hcl.
    set (cn := filter_by_set c (fv next)).
    set (cr := skipn (length cn) c ++ firstn (length cn) c).
    set (cc := filter_by_set cr (fv_clauses cls)). set (vb := mkb v Cns t).
    assert (Hcn : NoDup (ids cn)) by (apply fbs_NoDup; auto).
    assert (Hcr : NoDup (ids cr)) by (apply reorder_NoDup; auto).
    assert (Hcc : NoDup (ids cc)) by (apply fbs_NoDup; auto).
    assert (Hcn_in : forall b, In b cn -> In b c) by (intros b Hb; apply fbs_In in Hb; tauto).
    assert (Hcc_in : forall b, In b cc -> In b c).
    { intros b Hb. apply fbs_In in Hb. destruct Hb as [Hb _]. apply reorder_In in Hb. auto. }
    assert (Hcc_ids : forall x, In x (ids cc) -> In x (ids c)).
    { intros x Hx. apply In_ids_ex in Hx. destruct Hx as [b [B1 B2]]. subst. apply In_ids; auto. }
    assert (Hcc_look : forall x, In x (fv_clauses cls) -> lookup_b c x = lookup_b cc x).
    { intros x Hx. unfold cc. rewrite <- lookup_fbs_sub by auto.
      apply lookup_b_same_set; auto. intros b. symmetry. apply reorder_In. }
    (* the clauses *)
    set (Q := fun (cl : clause) (b' : stmt) (a : N) =>
                lin_check S (cl_ctx cl ++ cc) b' = true /\ binders_ns b' = binders (cl_body cl) /\
                (forall x, In x (binders b') -> x <= a)).
    destruct (lin_cls_spec (lin f) (fun x => x ++ cc) Q cls m) as [H1 H2].
    { intros cl b a a' [Q1 [Q2 Q3]] Ha. repeat split; auto. intros x Hx. apply Q3 in Hx. lia. }
    { intros cl m0 Hin Hm0.
      assert (Hd : forall y, In y (ids (cl_ctx cl)) -> ~ In y (ids c)).
      { intros y Hy Hc. apply (I3 _ Hc). right. apply in_or_app. left.
        eapply binders_cls_In; eauto. apply in_or_app; auto. }
      destruct (IH (cl_body cl) (cl_ctx cl ++ cc) m0) as [P1 [P2 [P3 P4]]].
      - apply size_cls_In in Hin. lia.
      - rewrite <- (Hcl cl Hin). symmetry. apply ax_check_ext. intros x Hx.
        rewrite !lookup_b_app. destruct (lookup_b (cl_ctx cl) x) eqn:E; auto.
        apply Hcc_look. apply fv_clauses_In. exists cl. repeat split; auto. apply lookup_b_None; auto.
      - destruct (binders_cls_split cls cl Hin) as [pre [post0 E]].
        apply inv_gen with (c := c) (s := Create v t e cls next) (m := m)
                           (pre := idn v :: pre ++ ids (cl_ctx cl)) (post := post0 ++ binders next);
          [exact Hinv|lia| | |].
        + rewrite ids_app. apply NoDup_app_iff. repeat split; auto.
          * eapply binders_cls_ctx_NoDup; eauto.
          * intros x Hx Hx'. apply (Hd x Hx). auto.
        + rewrite binders_create, E. simpl. rewrite <- !app_assoc. auto.
        + intros x Hx. rewrite ids_app in Hx. apply in_app_or in Hx. destruct Hx as [Hx|Hx].
          * right. left. right. apply in_or_app; auto.
          * left. auto.
      - unfold Q. auto. }
    destruct (lin_cls (lin f) (fun x => x ++ cc) cls m) as [cls' m1] eqn:Ec. cbn [fst snd] in *.
    set (Q' := fun cl b' => Q cl b' m1) in *.
    assert (Hok' : cls_ok S t cls' = true) by (rewrite (cls_ok_F2 S t Q' cls cls' H2); auto).
    assert (Hcl' : lin_clauses_cr S cc cls' = true).
    { unfold lin_clauses_cr. apply (forallb_F2 _ Q' cls cls' H2).
      intros cl cl' E [Q1 _]. rewrite E. auto. }
    assert (Hbnc : binders_ns_cls cls' = binders_cls cls).
    { apply (bns_cls_F2 Q' cls cls' H2). intros cl b [_ [Q2 _]]; auto. }
    assert (Hbdc : forall x, In x (binders_cls cls') -> x <= m1).
    { apply (bound_cls_F2 Q' cls cls' m1 H2).
      - intros cl b [_ [_ Q3]]; auto.
      - intros x Hx. apply I5c in Hx. lia. }
    destruct (ctx_eqb c (cn ++ cc)) eqn:Eq.
    - (* the context is already right *)
      assert (Hax' : ax_check S (cn ++ [vb]) next = true).
      { rewrite <- Hn. symmetry. apply ax_check_ext. intros x Hx. apply lookup_snoc_fbs; auto. }
      assert (Hnd' : NoDup (ids (cn ++ [vb]))).
      { rewrite ids_app. apply NoDup_snoc; auto. intros Hin. apply Iv. eapply fbs_ids_incl; eauto. }
      destruct (IH next (cn ++ [vb]) m1) as [N1 [N2 [N3 N4]]]; [lia|auto| |].
      { apply inv_gen with (c := c) (s := Create v t e cls next) (m := m)
                           (pre := idn v :: binders_cls cls) (post := []); [exact Hinv|lia|auto| |].
        - rewrite binders_create. simpl. rewrite app_nil_r. auto.
        - intros x Hx. rewrite ids_app in Hx. apply in_app_or in Hx. destruct Hx as [Hx|[<-|[]]].
          + left. eapply fbs_ids_incl; eauto.
          + right. left. simpl; auto. }
      destruct (lin f next (cn ++ [vb]) m1) as [n' m2] eqn:En. cbn [fst snd] in *.
      unfold post. cbn [fst snd]. split; [|split; [lia|split]].
      + apply ctx_eqb_eq in Eq. rewrite Eq at 1.
        apply lin_check_create_intro; auto. rewrite <- Eq; auto.
      + rewrite binders_ns_create, binders_create, Hbnc, N3. auto.
      + rewrite binders_create. intros x [<-|Hx]; [lia|].
        apply in_app_or in Hx. destruct Hx as [Hx|Hx]; auto. apply Hbdc in Hx. lia.
    - (* rearrangement, renaming of next *)
      destruct (freshen cn (ids cc) m1) as [cnf m2] eqn:Ef.
      assert (Hb1 : forall x, In x (ids cc) -> x <= m1).
      { intros x Hx. apply Hcc_ids in Hx. apply I4 in Hx. lia. }
      assert (Hb2 : forall x, In x (ids cn) -> x <= m1).
      { intros x Hx. apply fbs_ids_incl in Hx. apply I4 in Hx. lia. }
      destruct (freshen_spec _ _ _ _ _ Ef Hb1 Hb2) as [F1 [F2 [F3 [F4 F5]]]].
      set (su := combine (ids cn) (vars cnf)).
      assert (Hkt : same_kt cnf cn) by (apply same_kt_sym, same_shape_kt; auto).
      assert (Hcnf_src : forall x, In x (ids cnf) -> In x (ids c) \/ (m1 < x /\ x <= m2)).
      { intros x Hx. destruct (F5 x Hx) as [H|H]; auto. left. eapply fbs_ids_incl; eauto. }
      assert (Hv_cnf : ~ In (idn v) (ids cnf)).
      { intros Hin. destruct (Hcnf_src _ Hin) as [H|H]; [tauto|]. lia. }
      assert (Hns : has_subst next = false) by (eapply ax_check_no_subst; eauto).
      assert (Hnd' : NoDup (ids (cnf ++ [vb]))).
      { rewrite ids_app. apply NoDup_snoc; auto. }
      assert (Hax' : ax_check S (cnf ++ [vb]) (sub_s su next) = true).
      { apply ax_check_rename with (c := vb :: c); auto.
        - intros x Hx. unfold su. rewrite su_fst, su_snd by auto.
          assert (Hxb : In x (idn v :: binders_cls cls ++ binders next)).
          { right. apply in_or_app; auto. }
          split.
          + intros Hin. apply fbs_ids_incl in Hin. apply (I3 _ Hin); auto.
          + intros Hin. destruct (Hcnf_src _ Hin) as [H|H].
            * apply (I3 _ H); auto.
            * apply I5 in Hxb. lia.
        - intros n b Hn' Hl. rewrite lookup_b_cons in Hl. simpl in Hl.
          destruct (N.eqb (idn v) n) eqn:En.
          + apply N.eqb_eq in En. subst n. inversion Hl; subst b.
            rewrite sub_n_notin.
            2:{ unfold su. rewrite su_fst by auto. intros Hin. apply Iv. eapply fbs_ids_incl; eauto. }
            exists vb. rewrite lookup_b_app.
            assert (Hnone : lookup_b cnf (idn v) = None) by (apply lookup_b_None; auto).
            rewrite Hnone. simpl. rewrite N.eqb_refl. auto.
          + apply lookup_b_Some in Hl. destruct Hl as [L1 L2]. subst n.
            assert (Hbcn : In b cn) by (apply fbs_In; auto).
            destruct (ren_lookup cn cnf F2 Hcn b Hbcn) as [b' [B1 [B2 [B3 B4]]]].
            exists b'. fold su in B2. rewrite B2. split; auto.
            rewrite lookup_b_app. rewrite (lookup_b_In cnf b' F3 B1). auto. }
      destruct (IH (sub_s su next) (cnf ++ [vb]) m2) as [N1 [N2 [N3 N4]]]; [rewrite size_sub; lia|auto| |].
      { apply inv_gen with (c := c) (s := Create v t e cls next) (m := m)
                           (pre := idn v :: binders_cls cls) (post := []); [exact Hinv|lia|auto| |].
        - rewrite binders_create, binders_sub by auto. simpl. rewrite app_nil_r. auto.
        - intros x Hx. rewrite ids_app in Hx. apply in_app_or in Hx. destruct Hx as [Hx|[<-|[]]].
          + destruct (Hcnf_src _ Hx) as [H|H]; auto. right. right. right. lia.
          + right. left. simpl; auto. }
      destruct (lin f (sub_s su next) (cnf ++ [vb]) m2) as [n' m3] eqn:En. cbn [fst snd] in *.
      rewrite binders_sub in N3 by auto.
      apply post_wrap; auto.
      + apply subst_ok; auto.
        * apply same_kt_app; auto. apply same_kt_refl.
        * intros b Hb. apply has_b_In; auto. apply in_app_or in Hb. destruct Hb; auto.
        * apply lin_check_create_intro; auto.
          rewrite ids_app. apply NoDup_app_iff. repeat split; auto;
            try (intros x Hx Hx'; apply (F4 _ Hx); auto).
      + lia.
      + rewrite !app_length. f_equal. symmetry. apply same_shape_length; auto.
      + rewrite binders_ns_create, binders_create, Hbnc, N3. auto.
      + intros x Hx. rewrite ids_app in Hx. apply in_app_or in Hx. destruct Hx as [Hx|Hx].
        * assert (x <= m2) by (eapply freshen_bound; eauto). lia.
        * apply Hb1 in Hx. lia.
      + rewrite binders_create. intros x [<-|Hx]; [lia|].
        apply in_app_or in Hx. destruct Hx as [Hx|Hx]; auto. apply Hbdc in Hx. lia.
  Qed.
End Cases.

(* ---------- all statement forms together ---------- *)
Theorem lin_good : forall S f, good S f.
Proof.
  intros S; induction f as [|f IH]; intros s c m Hsz Hax Hinv.
  - pose proof (stmt_size_pos s). lia.
  - destruct s.
    + discriminate.
    + apply case_call; auto.
    + apply case_let; auto.
    + apply case_switch; auto.
    + apply case_create; auto.
    + apply case_invoke; auto.
    + apply case_literal; auto.
    + apply case_op; auto.
    + apply case_print; auto.
    + apply case_ifc; auto.
    + apply case_exit; auto.
Qed.

(* ---------- definitions and programs ---------- *)
Lemma def_ok_inv : forall S m d, def_ok S m d = true ->
  ax_check S (dctx d) (dbody d) = true /\ inv (dctx d) (dbody d) m.
Proof.
  unfold def_ok; intros S m d H. btrue. split; auto.
  apply inv_of_nodup.
  - apply nodupb_NoDup; auto.
  - rewrite forallb_forall in H0. intros x Hx. apply H0 in Hx. apply N.leb_le in Hx. auto.
Qed.
Lemma def_ok_mono : forall S m m' d, m <= m' -> def_ok S m d = true -> def_ok S m' d = true.
Proof.
  unfold def_ok; intros S m m' d Hm H. btrue; auto.
  rewrite forallb_forall in *. intros x Hx. apply H0 in Hx. apply N.leb_le in Hx. apply N.leb_le. lia.
Qed.

(* per definition: exact environments, unique binders kept, every bound id below the new max_id *)
Definition def_post (S : sigs) (d : def) (m : N) (r : def * N) : Prop :=
  lin_check_def S (fst r) = true /\ m <= snd r /\
  dname (fst r) = dname d /\ dctx (fst r) = dctx d /\
  binders_ns (dbody (fst r)) = binders (dbody d) /\
  (forall x, In x (binders (dbody (fst r))) -> x <= snd r).

Theorem linearize_def_spec : forall S d m, def_ok S m d = true -> def_post S d m (lin_def d m).
Proof.
  intros S d m H. apply def_ok_inv in H. destruct H as [Hax Hinv].
  unfold lin_def, lin_check_def, def_post.
  destruct (lin_good S (stmt_size (dbody d)) (dbody d) (dctx d) m) as [H1 [H2 [H3 H4]]]; auto.
  destruct (lin (stmt_size (dbody d)) (dbody d) (dctx d) m) as [b m'] eqn:E. simpl in *.
  repeat split; auto.
Qed.

Lemma Forall2_impl' : forall {A B} (P Q : A -> B -> Prop) l l',
  (forall a b, P a b -> Q a b) -> Forall2 P l l' -> Forall2 Q l l'.
Proof. intros A B P Q l l' H F; induction F; constructor; auto. Qed.

Definition labels_of (ds : list def) : list (ident * ctx) := map (fun d => (dname d, dctx d)) ds.

Lemma lin_defs_spec : forall S ds m,
  (forall d, In d ds -> def_ok S m d = true) ->
  m <= snd (lin_defs ds m) /\
  Forall2 (fun d d' => exists m0 m1, m <= m0 /\ m1 <= snd (lin_defs ds m) /\ def_post S d m0 (d', m1))
          ds (fst (lin_defs ds m)).
Proof.
  intros S ds; induction ds as [|d r IH]; intros m H; simpl.
  - split; [lia|constructor].
  - pose proof (linearize_def_spec S d m (H d (or_introl eq_refl))) as D.
    destruct (lin_def d m) as [d' m1] eqn:E.
    assert (Hm1 : m <= m1) by (destruct D as [_ [D2 _]]; auto).
    destruct (IH m1) as [R1 R2].
    { intros d0 Hd0. eapply def_ok_mono; [|apply H; simpl; auto]. auto. }
    destruct (lin_defs r m1) as [r' m2] eqn:E'. simpl in *.
    split; [lia|]. constructor.
    + exists m, m1. split; [lia|]. split; [lia|]. exact D.
    + eapply Forall2_impl'; [|exact R2]. intros a b [m0 [m3 [A1 [A2 A3]]]].
      exists m0, m3. split; [lia|]. split; [lia|]. exact A3.
Qed.

Lemma lin_defs_labels : forall S ds ds' (m' : N),
  Forall2 (fun d d' => exists m0 m1, def_post S d m0 (d', m1)) ds ds' -> labels_of ds' = labels_of ds.
Proof.
  intros S ds ds' m' H; induction H as [|d d' ds ds' [m0 [m1 D]] H IH]; simpl; auto.
  destruct D as [_ [_ [D3 [D4 _]]]]. simpl in *. rewrite D3, D4, IH. auto.
Qed.

Lemma prog_ok_defs : forall p, prog_ok p = true -> forall d, In d (pdefs p) -> def_ok (sigs_of p) (pmax p) d = true.
Proof. unfold prog_ok; intros p H. rewrite forallb_forall in H. auto. Qed.

Lemma sigs_of_linearize : forall p, prog_ok p = true -> sigs_of (linearize p) = sigs_of p.
Proof.
  intros p H. unfold linearize, sigs_of.
  destruct (lin_defs_spec (sigs_of p) (pdefs p) (pmax p) (prog_ok_defs p H)) as [H1 H2].
  destruct (lin_defs (pdefs p) (pmax p)) as [ds m] eqn:E. simpl in *.
  fold (labels_of ds). fold (labels_of (pdefs p)).
  rewrite (lin_defs_labels (sigs_of p) (pdefs p) ds m); auto.
  eapply Forall2_impl'; [|exact H2]. intros a b [m0 [m1 [_ [_ A]]]]. eauto.
Qed.

(* C05, exact environments: every definition of the linearized program passes the checker of the
   ordered linear discipline *)
Theorem linearize_exact : forall p, prog_ok p = true -> lin_check_prog (linearize p) = true.
Proof.
  intros p H. unfold lin_check_prog. rewrite sigs_of_linearize by auto.
  unfold linearize.
  destruct (lin_defs_spec (sigs_of p) (pdefs p) (pmax p) (prog_ok_defs p H)) as [H1 H2].
  destruct (lin_defs (pdefs p) (pmax p)) as [ds m] eqn:E. simpl in *.
  apply forallb_forall. intros d' Hd'.
  clear E. induction H2 as [|d d2 ds0 ds' [m0 [m1 [_ [_ D]]]] H2 IH]; simpl in *; [tauto|].
  destruct Hd' as [<-|Hd']; auto. apply D.
Qed.

Theorem linearize_exact_wt : forall p, prog_ok p = true ->
  Forall (fun d => lin_wt (sigs_of (linearize p)) (dctx d) (dbody d)) (pdefs (linearize p)).
Proof.
  intros p H. apply linearize_exact in H. unfold lin_check_prog in H.
  rewrite forallb_forall in H. apply Forall_forall. intros d Hd.
  apply lin_check_sound. apply H; auto.
Qed.

(* C05, unique binders: definition by definition the binders (other than the targets of the
   inserted substitutions) are literally those of the input, hence still pairwise distinct and
   distinct from the parameters; every id bound anywhere in the output - inserted substitutions
   included - is at most the new max_id, which is at least the old one *)
Theorem linearize_unique : forall p, prog_ok p = true ->
  pmax p <= pmax (linearize p) /\
  Forall2 (fun d d' =>
             dname d' = dname d /\ dctx d' = dctx d /\
             binders_ns (dbody d') = binders (dbody d) /\
             NoDup (ids (dctx d') ++ binders_ns (dbody d')) /\
             (forall x, In x (binders (dbody d')) -> x <= pmax (linearize p)))
          (pdefs p) (pdefs (linearize p)).
Proof.
  intros p H. unfold linearize.
  destruct (lin_defs_spec (sigs_of p) (pdefs p) (pmax p) (prog_ok_defs p H)) as [H1 H2].
  pose proof (prog_ok_defs p H) as Hd.
  destruct (lin_defs (pdefs p) (pmax p)) as [ds m] eqn:E. simpl in *. split; auto.
  clear E. induction H2 as [|d d' ds0 ds' [m0 [m1 [A1 [A2 D]]]] H2 IH]; constructor.
  - destruct D as [_ [_ [D3 [D4 [D5 D6]]]]]. simpl in *.
    repeat split; auto.
    + rewrite D4, D5. specialize (Hd d (or_introl eq_refl)). unfold def_ok in Hd. btrue.
      apply nodupb_NoDup; auto.
    + intros x Hx. apply D6 in Hx. lia.
  - apply IH. intros d0 Hd0. apply Hd. simpl; auto.
Qed.

(* ---------- operands of op / ifc / print / exit stay in the environment passed on ---------- *)
Lemma has_snoc : forall c vb x k t, has c x k t = true -> has (c ++ [vb]) x k t = true.
Proof.
  unfold has; intros c vb x k t H. rewrite lookup_b_app.
  destruct (lookup_b c (idn x)); auto. discriminate.
Qed.
Definition ops_clauses_sw (c0 : ctx) (cls : list clause) : bool :=
  forallb (fun cl => ops_kept (c0 ++ cl_ctx cl) (cl_body cl)) cls.
Definition ops_clauses_cr (env : ctx) (cls : list clause) : bool :=
  forallb (fun cl => ops_kept (cl_ctx cl ++ env) (cl_body cl)) cls.
Lemma ops_kept_switch : forall c v t cls,
  ops_kept c (Switch v t cls) =
  match split_lastn 1 c with Some (c0, _) => ops_clauses_sw c0 cls | None => false end.
Proof.
  intros; simpl. destruct (split_lastn 1 c) as [[c0 tl]|]; auto.
  induction cls as [|[[x cc] b] r IH]; simpl; auto.
  unfold cl_ctx, cl_body; simpl. rewrite IH; auto.
Qed.
Lemma ops_kept_create : forall c v t env cls next,
  ops_kept c (Create v t (Some env) cls next) =
  match split_lastn (length env) c with
  | Some (c0, _) => ops_clauses_cr env cls && ops_kept (c0 ++ [mkb v Cns t]) next
  | None => false end.
Proof.
  intros; simpl. destruct (split_lastn (length env) c) as [[c0 tl]|]; auto. f_equal.
  induction cls as [|[[x cc] b] r IH]; simpl; auto.
  unfold cl_ctx, cl_body; simpl. rewrite IH; auto.
Qed.

Theorem lin_check_ops_kept : forall S s c, lin_check S c s = true -> ops_kept c s = true.
Proof.
  intros S s; induction s using stmt_ind2; intros c Hc.
  - simpl in *. btrue. auto.
  - reflexivity.
  - simpl in *. btrue. destruct (split_lastn (length args) c) as [[c0 tl]|]; try discriminate. btrue. auto.
  - rewrite lin_check_switch in Hc. rewrite ops_kept_switch. btrue.
    destruct (split_lastn 1 c) as [[c0 [|b [|]]]|]; try discriminate. btrue.
    match goal with Hl : lin_clauses_sw _ _ _ = true |- _ =>
      unfold lin_clauses_sw in Hl; rewrite forallb_forall in Hl; rename Hl into HL end.
    unfold ops_clauses_sw. apply forallb_forall. intros cl Hcl.
    rewrite Forall_forall in H. apply H; auto.
  - destruct env as [env|]; [|simpl in Hc; btrue; discriminate].
    rewrite lin_check_create in Hc. rewrite ops_kept_create. btrue.
    destruct (split_lastn (length env) c) as [[c0 tl]|]; try discriminate. btrue; auto.
    match goal with Hl : lin_clauses_cr _ _ _ = true |- _ =>
      unfold lin_clauses_cr in Hl; rewrite forallb_forall in Hl; rename Hl into HL end.
    unfold ops_clauses_cr. apply forallb_forall. intros cl Hcl.
    rewrite Forall_forall in H. apply H; auto.
  - reflexivity.
  - simpl in *. btrue. auto.
  - simpl in *. btrue; auto; apply has_snoc; auto.
  - simpl in *. btrue; auto.
  - simpl in *. btrue; auto.
  - simpl in *. btrue; auto.
Qed.

Theorem linearize_keeps_operands : forall p, prog_ok p = true ->
  forallb (fun d => ops_kept (dctx d) (dbody d)) (pdefs (linearize p)) = true.
Proof.
  intros p H. apply linearize_exact in H. unfold lin_check_prog in H.
  rewrite forallb_forall in *. intros d Hd. eapply lin_check_ops_kept. apply H; auto.
Qed.
