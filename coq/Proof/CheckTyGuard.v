(* C15 -> C12: the output of the type checker satisfies the typing guard [tg] of the pipeline theorem.
   Term level.  An induction over [check_term_gen]: the annotated output term satisfies [tg] in every scope G that
   agrees with the checker's context ([ctx_rel]: the rightmost binding of a name in the context is the first one in G),
   relative to a FINAL world (stF, D, C, q): every instance of the final symbol table stF is a declared type of the
   compiled declarations D/C, every source definition is a definition of the output q with the same signature.
   The frame facts (pinv, same_templates, grows) of every step are those of Proof/CheckPolySound.v.
   This file: the forms without constructors / destructors / case / new ([core_frag]). *)
From Coq Require Import List ZArith NArith String Bool Permutation Lia.
From SCC Require Import Base.Sexp Lang.SynUtil Lang.FunSyn Lang.FunTy Lang.CoreSyn Model.Check Sem.FunTyping Sem.FunNames
  Sem.AxSem Sem.FunSem Sem.FsCheck Sem.CoreCheck Model.Fun2Core Model.Fun2CoreGuard Model.Fun2CoreTyGuard
  Proof.FunInd Proof.FunEq Proof.CheckAnn Proof.TypingReject Proof.CheckBuild Proof.CheckMono Proof.CheckMonoSound
  Proof.PrintInj Proof.CheckPoly Proof.CheckInstBase Proof.CheckPolySound Proof.Fun2CoreInv Proof.Fun2CoreTyBase.
Import ListNotations.
Open Scope string_scope.
Open Scope list_scope.

(* ---------- the checker's context and the scope of the guard ---------- *)
Definition ctx_rel (ctx : fctx) (G : cctx) : Prop :=
  forall v, gl G (new_id v) = option_map compile_binding (lookup_last ctx v).

Lemma lookup_last_app : forall a b v,
  lookup_last (a ++ b) v = match lookup_last b v with Some x => Some x | None => lookup_last a v end.
Proof.
  induction a as [|x r IH]; intros b v; simpl.
  - destruct (lookup_last b v); reflexivity.
  - rewrite IH. destruct (lookup_last b v); reflexivity.
Qed.
Lemma lookup_last_var : forall c v b, lookup_last c v = Some b -> fbvar b = v.
Proof.
  induction c as [|x r IH]; intros v b H; simpl in H; [discriminate|].
  destruct (lookup_last r v) eqn:E; [inversion H; subst; eauto|].
  destruct (String.eqb (fbvar x) v) eqn:Ev; [|discriminate]. inversion H; subst. apply String.eqb_eq. exact Ev.
Qed.
Lemma lookup_last_notin : forall c v, mem v (fvars c) = false -> lookup_last c v = None.
Proof.
  induction c as [|x r IH]; intros v H; simpl in *; [reflexivity|].
  apply orb_false_iff in H. destruct H as [H1 H2]. rewrite (IH _ H2). rewrite String.eqb_sym, H1. reflexivity.
Qed.
Lemma gl_app : forall a b x, gl (a ++ b) x = match gl a x with Some y => Some y | None => gl b x end.
Proof.
  induction a as [|y r IH]; intros b x; simpl; [reflexivity|].
  unfold gl in *. simpl. destruct (cident_eqb (cbvar y) x); [reflexivity|apply IH].
Qed.
Lemma gl_nodup : forall c v, nodup (fvars c) = true ->
  gl (compile_ctx c) (new_id v) = option_map compile_binding (lookup_last c v).
Proof.
  induction c as [|x r IH]; intros v H; simpl in *; [reflexivity|].
  apply andb_true_iff in H. destruct H as [H1 H2]. apply negb_true_iff in H1.
  unfold gl in *. simpl. rewrite cid_eqb_new_id.
  destruct (String.eqb (fbvar x) v) eqn:Ev.
  - apply String.eqb_eq in Ev. subst v. rewrite (lookup_last_notin _ _ H1). reflexivity.
  - rewrite (IH v H2). destruct (lookup_last r v); reflexivity.
Qed.
Lemma ctx_rel_snoc : forall ctx G b, ctx_rel ctx G -> ctx_rel (ctx ++ [b]) (compile_binding b :: G).
Proof.
  intros ctx G b R v. rewrite lookup_last_app. simpl. unfold gl. simpl. rewrite cid_eqb_new_id.
  destruct (String.eqb (fbvar b) v); [reflexivity|]. apply R.
Qed.
Lemma ctx_rel_app : forall ctx G c, nodup (fvars c) = true -> ctx_rel ctx G -> ctx_rel (ctx ++ c) (compile_ctx c ++ G).
Proof.
  intros ctx G c N R v. rewrite lookup_last_app, gl_app, (gl_nodup _ _ N).
  destruct (lookup_last c v); [reflexivity|]. apply R.
Qed.
Lemma ctx_rel_init : forall c, nodup (fvars c) = true -> ctx_rel c (compile_ctx c).
Proof. intros c N v. apply gl_nodup. exact N. Qed.

Lemma var_ok_rel : forall ctx G v b, ctx_rel ctx G -> lookup_last ctx v = Some b ->
  var_ok G v (Some (fbty b)) (compile_chi (fbchi b)) = true.
Proof.
  intros ctx G v b R H. unfold var_ok. rewrite R, H. simpl. apply cbinding_eqb_eq.
  unfold compile_binding. rewrite (lookup_last_var _ _ _ H). reflexivity.
Qed.
Lemma lookup_var_last : forall ctx v found, lookup_var ctx v = COk found ->
  exists b, lookup_last ctx v = Some b /\ fbchi b = FPrd /\ fbty b = found.
Proof.
  intros ctx v found H. unfold lookup_var in H. destruct (lookup_last ctx v) as [b|]; [|discriminate].
  destruct (fbchi b) eqn:E; [|discriminate]. inversion H. eauto.
Qed.
Lemma lookup_covar_last : forall ctx v found, lookup_covar ctx v = COk found ->
  exists b, lookup_last ctx v = Some b /\ fbchi b = FCns /\ fbty b = found.
Proof.
  intros ctx v found H. unfold lookup_covar in H. destruct (lookup_last ctx v) as [b|]; [|discriminate].
  destruct (fbchi b) eqn:E; [discriminate|]. inversion H. eauto.
Qed.
Lemma nodup_str_eq : forall l, nodup_str l = nodup l.
Proof. induction l as [|x r IH]; simpl; [reflexivity|]. rewrite IH. reflexivity. Qed.

(* ---------- the fragment of this file ---------- *)
Fixpoint core_frag (t : fterm) : bool :=
  match t with
  | FVar _ _ _ | FLit _ => true
  | FOp a _ b => core_frag a && core_frag b
  | FIfC _ a b th el _ => core_frag a && match b with Some b' => core_frag b' | None => true end && core_frag th && core_frag el
  | FPrint _ a n _ => core_frag a && core_frag n
  | FLet _ _ a b _ => core_frag a && core_frag b
  | FCall _ args _ => (fix go (l : list fterm) : bool := match l with [] => true | a :: r => core_frag a && go r end) args
  | FCtor _ _ _ | FDtor _ _ _ _ _ | FCase _ _ _ _ | FNew _ _ => false
  | FLabel _ t _ | FGoto _ t _ | FExit t _ | FParen t => core_frag t
  end.
Definition core_frags (l : list fterm) : bool := forallb core_frag l.
Lemma core_frags_eq : forall l,
  (fix go (l : list fterm) : bool := match l with [] => true | a :: r => core_frag a && go r end) l = core_frags l.
Proof. induction l; simpl; [reflexivity|]. rewrite IHl. reflexivity. Qed.

Definition any_calls_main (l : list fterm) : bool := existsb calls_main l.
Lemma any_calls_main_eq : forall l,
  (fix go (l : list fterm) : bool := match l with [] => false | y :: r => calls_main y || go r end) l = any_calls_main l.
Proof. induction l; simpl; [reflexivity|]. rewrite IHl. reflexivity. Qed.

Section Tg.
  Variable ts : list tdecl.
  Variable fs : list fdef.
  Hypothesis W : poly_world ts fs.
  Notation pinv := (pinv ts).

  (* the final world *)
  Variable q : fcprog.
  Variables D C : list ctydecl.
  Variable stF : symtab.
  Hypothesis HtyF : forall t, ty_names_ok t = true -> has_inst_p stF t -> tyd D C (compile_ty t) = true.
  Hypothesis HdefF : forall f d, FunTyping.find_def fs f = Some d ->
    exists d', ffind_def q f = Some d' /\ fdctx d' = fdctx d /\ fdret d' = fdret d.

  Notation tg := (tg q D C).
  Notation tg_args := (tg_args q D C).
  Notation tg_arg := (tg_arg q D C).

  Lemma has_ty_of : forall t T, fterm_type t = Some T -> has_ty t (compile_ty T) = true.
  Proof. intros t T H. unfold has_ty, tyo. rewrite H. simpl. apply cty_eqb_eq. reflexivity. Qed.
  Lemma has_ty_i64 : forall t, fterm_type t = Some FI64 -> has_ty t CI64 = true.
  Proof. intros t H. exact (has_ty_of t FI64 H). Qed.
  Lemma same_ty_of : forall t T, fterm_type t = Some T -> same_ty t (Some T) = true.
  Proof. intros t T H. simpl. apply has_ty_of. exact H. Qed.

  Definition ctx_inst (ctx : fctx) : Prop := forall b, In b ctx -> has_inst_p stF (fbty b).
  Lemma ctx_inst_snoc : forall ctx b, ctx_inst ctx -> has_inst_p stF (fbty b) -> ctx_inst (ctx ++ [b]).
  Proof. intros ctx b H Hb x Hx. apply in_app_or in Hx. destruct Hx as [Hx|[<-|[]]]; auto. Qed.

  Definition ptg_at (t : fterm) : Prop :=
    forall eager st ctx T t' st' G,
      core_frag t = true ->
      term_names_ok t = true -> ctx_names_ok ctx = true -> ty_names_ok T = true -> tables ts fs st -> pinv st ->
      check_term_gen eager t st ctx T = COk (t', st') ->
      grows st' stF -> has_inst_p stF T -> ctx_rel ctx G -> ctx_inst ctx ->
      (calls_main t' = true -> calls_main_prog q = true) ->
      tg G t' = true /\ fterm_type t' = Some T /\ is_cns_var t' = false.

  Ltac frame := eauto using same_templates_trans, grows_trans, same_templates_refl, grows_refl.
  Ltac cm H := let X := fresh in intros X; apply H; simpl; rewrite ?any_calls_main_eq; unfold any_calls_main in *; simpl; rewrite X; rewrite ?orb_true_r; reflexivity.

  Lemma all_psound : forall l, Forall (psound_at ts fs) l.
  Proof. intros l. apply Forall_forall. intros x _. apply check_term_gen_psound. exact W. Qed.

  Lemma check_args_with_ptg : forall args, Forall ptg_at args ->
    forall eager sg st ctx args' st' G,
      core_frags args = true ->
      terms_names_ok args = true -> ctx_names_ok ctx = true -> ctx_names_ok sg = true ->
      tables ts fs st -> pinv st ->
      check_args_with (check_term_gen eager) args sg st ctx = COk (args', st') ->
      List.length args = List.length sg ->
      grows st' stF -> ctx_rel ctx G -> ctx_inst ctx ->
      (any_calls_main args' = true -> calls_main_prog q = true) ->
      tg_args G args' (compile_ctx sg) = true.
  Proof.
    intros args HF. induction HF as [|a ar Ha HFr IH]; intros eager sg st ctx args' st' G Hf Hm Hc Ht T I H Hlen GF R CI Hcm.
    - destruct sg; [|discriminate]. simpl in H. inversion H; subst. reflexivity.
    - destruct sg as [|b br]; [discriminate|]. simpl in Hlen. simpl in Hm, Ht, Hf.
      apply andb_true_iff in Hm. destruct Hm as [Hma Hmr]. apply andb_true_iff in Ht. destruct Ht as [Htb Htr].
      apply andb_true_iff in Hf. destruct Hf as [Hfa Hfr].
      simpl in H.
      destruct (fbchi b) eqn:Ech.
      + (* producer argument *)
        apply cbind_ok in H. destruct H as [st1 [H1 H]].
        apply cbind_ok in H. destruct H as [[a' st2] [H2 H]].
        apply cbind_ok in H. destruct H as [[ar' st3] [H3 H]]. inversion H; subst.
        destruct (ty_check_sound ts fs W _ _ _ Htb T I H1) as [_ [I1 [S1 [G1 Hi1]]]].
        destruct (check_term_gen_psound ts fs W a eager st1 ctx _ a' st2 Hma Hc Htb (tables_same _ _ _ _ T S1) I1 H2) as [_ [I2 [S2 [G2 _]]]].
        assert (S12 : same_templates st st2) by frame.
        rewrite <- (inst_ctx_nil br) in H3.
        destruct (check_args_with_psound ts fs W ar (all_psound ar) eager [] [] br st2 ctx ar' st' Hmr Hc Htr eq_refl
                    (tables_same _ _ _ _ T S12) I2 H3) as [_ [I3 [S3 [G3 _]]]]; [lia|].
        rewrite inst_ctx_nil in H3.
        assert (G2F : grows st2 stF) by frame.
        assert (HiF : has_inst_p stF (fbty b)) by (eapply has_inst_grows; [|exact Hi1]; frame).
        destruct (Ha eager st1 ctx _ a' st2 G Hfa Hma Hc Htb (tables_same _ _ _ _ T S1) I1 H2 G2F HiF R CI ltac:(cm Hcm)) as [K1 [K2 K3]].
        simpl compile_ctx. rewrite tg_args_cons. unfold Fun2CoreTyGuard.tg_arg. simpl cbchi. rewrite Ech. simpl compile_chi. cbv iota.
        rewrite K3, K1. simpl cbty. rewrite (has_ty_of _ _ K2), (HtyF _ Htb HiF). simpl.
        apply (IH eager br st2 ctx ar' st' G Hfr Hmr Hc Htr (tables_same _ _ _ _ T S12) I2 H3); [lia|exact GF|exact R|exact CI|cm Hcm].
      + (* consumer argument: a covariable *)
        destruct a as [v ann chi| | | | | | | | | | | | | |]; try discriminate.
        assert (Hgo : exists found st1 st2 ar', lookup_covar ctx v = COk found
                    /\ match ann with Some t => check_equality st t found | None => COk st end = COk st1
                    /\ check_equality st1 (fbty b) found = COk st2
                    /\ check_args_with (check_term_gen eager) ar br st2 ctx = COk (ar', st')
                    /\ args' = FVar v (Some found) (Some FCns) :: ar').
        { destruct chi as [[|]|]; try discriminate;
            (apply cbind_ok in H; destruct H as [found [Hl H]];
             apply cbind_ok in H; destruct H as [st1 [H1 H]];
             apply cbind_ok in H; destruct H as [st2 [H2 H]];
             apply cbind_ok in H; destruct H as [[ar' st3] [H3 H]]; inversion H; subst; eauto 10). }
        destruct Hgo as [found [st1 [st2 [ar' [Hl [H1 [H2 [H3 ->]]]]]]]].
        destruct (lookup_covar_last _ _ _ Hl) as [b0 [Hb0 [Hb0c Hbt]]].
        destruct (lookup_covar_E _ _ _ Hl) as [_ [b1 [Hb1 Hbt1]]].
        assert (Hmf : ty_names_ok found = true) by (subst found; rewrite <- Hbt1; apply (ctx_names_ok_in ctx); assumption).
        destruct (ann_check_psound ts fs W ann found st st1 Hma Hmf T I H1) as [_ [I1 [S1 G1]]].
        destruct (check_equality_sound ts fs W _ _ _ _ Htb Hmf (tables_same _ _ _ _ T S1) I1 H2) as [Heq [_ [I2 [S2 [G2 Hi2]]]]].
        assert (S12 : same_templates st st2) by frame.
        rewrite <- (inst_ctx_nil br) in H3.
        destruct (check_args_with_psound ts fs W ar (all_psound ar) eager [] [] br st2 ctx ar' st' Hmr Hc Htr eq_refl
                    (tables_same _ _ _ _ T S12) I2 H3) as [_ [I3 [S3 [G3 _]]]]; [lia|].
        rewrite inst_ctx_nil in H3.
        assert (HiF : has_inst_p stF (fbty b)) by (eapply has_inst_grows; [|exact Hi2]; frame).
        simpl compile_ctx. rewrite tg_args_cons. unfold Fun2CoreTyGuard.tg_arg. simpl cbchi. rewrite Ech. simpl compile_chi. cbv iota.
        pose proof (var_ok_rel _ _ _ _ R Hb0) as Hv. rewrite Hb0c, Hbt in Hv. simpl in Hv. rewrite Hv.
        simpl cbty. rewrite Heq. rewrite (has_ty_of (FVar v (Some found) (Some FCns)) found eq_refl).
        rewrite <- Heq. rewrite (HtyF _ Htb HiF). simpl.
        apply (IH eager br st2 ctx ar' st' G Hfr Hmr Hc Htr (tables_same _ _ _ _ T S12) I2 H3); [lia|exact GF|exact R|exact CI|cm Hcm].
  Qed.
  Lemma check_args_ptg : forall args, Forall ptg_at args ->
    forall eager sg st ctx args' st' G,
      core_frags args = true ->
      terms_names_ok args = true -> ctx_names_ok ctx = true -> ctx_names_ok sg = true ->
      tables ts fs st -> pinv st ->
      check_args (check_term_gen eager) args sg st ctx = COk (args', st') ->
      grows st' stF -> ctx_rel ctx G -> ctx_inst ctx ->
      (any_calls_main args' = true -> calls_main_prog q = true) ->
      tg_args G args' (compile_ctx sg) = true.
  Proof.
    intros args HF eager sg st ctx args' st' G Hf Hm Hc Ht T I H GF R CI Hcm. unfold check_args in H.
    destruct (Nat.eqb (List.length sg) (List.length args)) eqn:El; [|discriminate]. simpl in H.
    apply PeanoNat.Nat.eqb_eq in El.
    exact (check_args_with_ptg args HF eager sg st ctx args' st' G Hf Hm Hc Ht T I H (eq_sym El) GF R CI Hcm).
  Qed.

  (* the frame facts of one step, from Proof/CheckPolySound.v *)
  Lemma step_frame : forall t eager st ctx T t' st',
    term_names_ok t = true -> ctx_names_ok ctx = true -> ty_names_ok T = true -> tables ts fs st -> pinv st ->
    check_term_gen eager t st ctx T = COk (t', st') ->
    pinv st' /\ same_templates st st' /\ grows st st' /\ tables ts fs st'.
  Proof.
    intros t eager st ctx T t' st' Hm Hc HT Tb I H.
    destruct (check_term_gen_psound ts fs W t eager st ctx T t' st' Hm Hc HT Tb I H) as [_ [I1 [S1 [G1 _]]]].
    splits; auto. eapply tables_same; eassumption.
  Qed.

  Theorem check_term_gen_ptg : forall t, ptg_at t.
  Proof.
    intros t. induction t using fterm_ind'; unfold ptg_at;
      intros eager st ctx T t' st' G Hf Hm Hc HT Tb I Hk GF HiT R CI Hcm; simpl in Hk; simpl in Hm; simpl in Hf; try discriminate Hf.
    - (* FVar *)
      assert (Hx : exists found st1, lookup_var ctx v = COk found /\
                       match ty with Some t => check_equality st t found | None => COk st end = COk st1 /\
                       check_equality st1 T found = COk st' /\ t' = FVar v (Some T) (Some FPrd)).
      { destruct chi as [[|]|]; try discriminate;
          (apply cbind_ok in Hk; destruct Hk as [found [Hl Hk]];
           apply cbind_ok in Hk; destruct Hk as [st1 [H1 Hk]];
           apply cbind_ok in Hk; destruct Hk as [st2 [H2 Hk]]; inversion Hk; subst; eauto 10). }
      destruct Hx as [found [st1 [Hl [H1 [H2 ->]]]]].
      destruct (lookup_var_last _ _ _ Hl) as [b0 [Hb0 [Hb0c Hbt]]].
      destruct (lookup_var_E _ _ _ Hl) as [_ [b1 [Hb1 Hbt1]]].
      assert (Hmf : ty_names_ok found = true) by (subst found; rewrite <- Hbt1; apply (ctx_names_ok_in ctx); assumption).
      destruct (ann_check_psound ts fs W ty found st st1 Hm Hmf Tb I H1) as [_ [I1 [S1 G1]]].
      destruct (check_equality_sound ts fs W _ _ _ _ HT Hmf (tables_same _ _ _ _ Tb S1) I1 H2) as [Heq _].
      rewrite tg_var. pose proof (var_ok_rel _ _ _ _ R Hb0) as Hv. rewrite Hb0c, Hbt, <- Heq in Hv. simpl in Hv.
      rewrite Hv. auto.
    - (* FLit *)
      apply cbind_ok in Hk. destruct Hk as [st1 [H1 Hk]]. inversion Hk; subst.
      destruct (check_equality_sound ts fs W T FI64 _ _ HT eq_refl Tb I H1) as [Heq _]. subst T. auto.
    - (* FOp *)
      apply andb_true_iff in Hm. destruct Hm as [Hm1 Hm2]. apply andb_true_iff in Hf. destruct Hf as [Hf1 Hf2].
      apply cbind_ok in Hk. destruct Hk as [st1 [H1 Hk]].
      apply cbind_ok in Hk. destruct Hk as [[a' st2] [H2 Hk]].
      apply cbind_ok in Hk. destruct Hk as [[b' st3] [H3 Hk]]. inversion Hk; subst.
      destruct (check_equality_sound ts fs W FI64 T _ _ eq_refl HT Tb I H1) as [Heq [_ [I1 [S1 [G1 _]]]]]. subst T.
      destruct (step_frame _ _ _ _ FI64 _ _ Hm1 Hc eq_refl (tables_same _ _ _ _ Tb S1) I1 H2) as [I2 [S2 [G2 Tb2]]].
      destruct (step_frame _ _ _ _ FI64 _ _ Hm2 Hc eq_refl Tb2 I2 H3) as [I3 [S3 [G3 Tb3]]].
      destruct (IHt1 eager st1 ctx FI64 a' st2 G Hf1 Hm1 Hc eq_refl (tables_same _ _ _ _ Tb S1) I1 H2 ltac:(frame) Logic.I R CI ltac:(cm Hcm)) as [K1 [K2 _]].
      destruct (IHt2 eager st2 ctx FI64 b' st' G Hf2 Hm2 Hc eq_refl Tb2 I2 H3 GF Logic.I R CI ltac:(cm Hcm)) as [K3 [K4 _]].
      rewrite tg_op, K1, K3. rewrite (has_ty_i64 _ K2), (has_ty_i64 _ K4). auto.
    - (* FIfC *)
      apply andb_true_iff in Hm. destruct Hm as [Hm Hm4]. apply andb_true_iff in Hm. destruct Hm as [Hm Hm3].
      apply andb_true_iff in Hm. destruct Hm as [Hm1 Hm2].
      apply andb_true_iff in Hf. destruct Hf as [Hf Hf4]. apply andb_true_iff in Hf. destruct Hf as [Hf Hf3].
      apply andb_true_iff in Hf. destruct Hf as [Hf1 Hf2].
      apply cbind_ok in Hk. destruct Hk as [[a' st1] [H1 Hk]].
      apply cbind_ok in Hk. destruct Hk as [[b' st2] [H2 Hk]].
      apply cbind_ok in Hk. destruct Hk as [[th' st3] [H3 Hk]].
      apply cbind_ok in Hk. destruct Hk as [[el' st4] [H4 Hk]]. inversion Hk; subst.
      destruct (step_frame _ _ _ _ FI64 _ _ Hm1 Hc eq_refl Tb I H1) as [I1 [S1 [G1 Tb1]]].
      assert (Hb : pinv st2 /\ grows st1 st2 /\ tables ts fs st2 /\
                   (grows st2 stF -> (match b' with Some b1 => calls_main b1 | None => false end = true -> calls_main_prog q = true) ->
                    match b' with Some b1 => tg G b1 && has_ty b1 CI64 | None => true end = true)).
      { destruct b as [b0|].
        - apply cbind_ok in H2. destruct H2 as [[b1 sb] [H2 H2']]. inversion H2'; subst.
          destruct (step_frame _ _ _ _ FI64 _ _ Hm2 Hc eq_refl Tb1 I1 H2) as [I2 [S2 [G2 Tb2]]]. splits; auto.
          intros GF2 Hcm2.
          destruct (H b0 eq_refl eager st1 ctx FI64 b1 st2 G Hf2 Hm2 Hc eq_refl Tb1 I1 H2 GF2 Logic.I R CI Hcm2) as [K1 [K2 _]].
          rewrite K1, (has_ty_i64 _ K2). reflexivity.
        - inversion H2; subst. splits; frame. }
      destruct Hb as [I2 [G2 [Tb2 Kb]]].
      destruct (step_frame _ _ _ _ _ _ _ Hm3 Hc HT Tb2 I2 H3) as [I3 [S3 [G3 Tb3]]].
      destruct (step_frame _ _ _ _ _ _ _ Hm4 Hc HT Tb3 I3 H4) as [I4 [S4 [G4 Tb4]]].
      destruct (IHt1 eager st ctx FI64 a' st1 G Hf1 Hm1 Hc eq_refl Tb I H1 ltac:(frame) Logic.I R CI ltac:(cm Hcm)) as [K1 [K2 _]].
      destruct (IHt2 eager st2 ctx T th' st3 G Hf3 Hm3 Hc HT Tb2 I2 H3 ltac:(frame) HiT R CI ltac:(cm Hcm)) as [K3 [K4 _]].
      destruct (IHt3 eager st3 ctx T el' st' G Hf4 Hm4 Hc HT Tb3 I3 H4 GF HiT R CI ltac:(cm Hcm)) as [K5 [K6 _]].
      rewrite tg_ifc, K1, (has_ty_i64 _ K2), K3, K5, (same_ty_of _ _ K4), (same_ty_of _ _ K6).
      rewrite Kb; [auto|frame|]. destruct b' as [b1|]; [|discriminate]. cm Hcm.
    - (* FPrint *)
      apply andb_true_iff in Hm. destruct Hm as [Hm1 Hm2]. apply andb_true_iff in Hf. destruct Hf as [Hf1 Hf2].
      apply cbind_ok in Hk. destruct Hk as [[a' st1] [H1 Hk]].
      apply cbind_ok in Hk. destruct Hk as [[n' st2] [H2 Hk]]. inversion Hk; subst.
      destruct (step_frame _ _ _ _ FI64 _ _ Hm1 Hc eq_refl Tb I H1) as [I1 [S1 [G1 Tb1]]].
      destruct (step_frame _ _ _ _ _ _ _ Hm2 Hc HT Tb1 I1 H2) as [I2 [S2 [G2 Tb2]]].
      destruct (IHt1 eager st ctx FI64 a' st1 G Hf1 Hm1 Hc eq_refl Tb I H1 ltac:(frame) Logic.I R CI ltac:(cm Hcm)) as [K1 [K2 _]].
      destruct (IHt2 eager st1 ctx T n' st' G Hf2 Hm2 Hc HT Tb1 I1 H2 GF HiT R CI ltac:(cm Hcm)) as [K3 [K4 _]].
      rewrite tg_print, K1, (has_ty_i64 _ K2), K3, (same_ty_of _ _ K4). auto.
    - (* FLet *)
      apply andb_true_iff in Hm. destruct Hm as [Hm Hm3]. apply andb_true_iff in Hm. destruct Hm as [Hm1 Hm2].
      apply andb_true_iff in Hf. destruct Hf as [Hf1 Hf2].
      apply cbind_ok in Hk. destruct Hk as [st1 [H1 Hk]].
      apply cbind_ok in Hk. destruct Hk as [[a' st2] [H2 Hk]].
      apply cbind_ok in Hk. destruct Hk as [[b' st3] [H3 Hk]]. inversion Hk; subst.
      destruct (ty_check_sound ts fs W _ _ _ Hm1 Tb I H1) as [_ [I1 [S1 [G1 Hi1]]]].
      pose proof (tables_same _ _ _ _ Tb S1) as Tb1.
      destruct (step_frame _ _ _ _ _ _ _ Hm2 Hc Hm1 Tb1 I1 H2) as [I2 [S2 [G2 Tb2]]].
      assert (Hc' : ctx_names_ok (ctx ++ [mkfb v FPrd vty]) = true).
      { apply ctx_names_ok_app; [assumption|]. unfold ctx_names_ok. simpl. rewrite Hm1. reflexivity. }
      destruct (step_frame _ _ _ _ _ _ _ Hm3 Hc' HT Tb2 I2 H3) as [I3 [S3 [G3 Tb3]]].
      assert (HiV : has_inst_p stF vty) by (eapply has_inst_grows; [|exact Hi1]; frame).
      destruct (IHt1 eager st1 ctx vty a' st2 G Hf1 Hm2 Hc Hm1 Tb1 I1 H2 ltac:(frame) HiV R CI ltac:(cm Hcm)) as [K1 [K2 _]].
      destruct (IHt2 eager st2 _ T b' st' _ Hf2 Hm3 Hc' HT Tb2 I2 H3 GF HiT (ctx_rel_snoc _ _ (mkfb v FPrd vty) R) (ctx_inst_snoc _ (mkfb v FPrd vty) CI HiV) ltac:(cm Hcm)) as [K3 [K4 _]].
      rewrite tg_let, K1, (has_ty_of _ _ K2), (HtyF _ Hm1 HiV). unfold compile_binding in K3. simpl in K3. rewrite K3, (same_ty_of _ _ K4). auto.
    - (* FCall *)
      rewrite terms_names_ok_eq in Hm. rewrite core_frags_eq in Hf.
      destruct (aget (st_defs st) f) as [[types ret]|] eqn:Ed; [|discriminate].
      rewrite (t_df _ _ _ Tb) in Ed. destruct (FunTyping.find_def fs f) as [d|] eqn:Ef; [|discriminate]. simpl in Ed. inversion Ed; subst.
      assert (Hdin : In d fs /\ fdname d = f).
      { pose proof Ef as Ef'. unfold FunTyping.find_def in Ef'; apply find_some in Ef'. destruct Ef' as [? Ef']. apply String.eqb_eq in Ef'. tauto. }
      destruct Hdin as [Hdin Hdn].
      destruct (PW_defs _ _ W d Hdin) as [Hmd Hmr].
      apply cbind_ok in Hk. destruct Hk as [st1 [H1 Hk]].
      apply cbind_ok in Hk. destruct Hk as [[args' st2] [H2 Hk]]. inversion Hk; subst.
      destruct (check_equality_sound ts fs W _ _ _ _ HT Hmr Tb I H1) as [Heq [_ [I1 [S1 [G1 Hi1]]]]].
      destruct (HdefF _ d Ef) as [d' [Hfd [Hcx Hrt]]].
      assert (K : tg_args G args' (compile_ctx (fdctx d)) = true).
      { eapply (check_args_ptg args H eager (fdctx d) st1 ctx args' st' G); eauto using tables_same.
        intros X. apply Hcm. simpl. rewrite any_calls_main_eq. rewrite X. apply orb_true_r. }
      rewrite tg_call, Hfd, Hcx, Hrt, K, <- Heq. simpl.
      assert (Hmain : negb (String.eqb (fdname d) "main") || calls_main_prog q = true).
      { destruct (String.eqb (fdname d) "main") eqn:Em; [|reflexivity]. simpl. apply Hcm. simpl. rewrite Em. reflexivity. }
      rewrite Hmain. simpl. rewrite (HtyF _ HT HiT). rewrite (proj2 (cty_eqb_eq _ _) eq_refl). auto.
    - (* FLabel *)
      apply cbind_ok in Hk. destruct Hk as [[u' st1] [H1 Hk]]. inversion Hk; subst.
      assert (Hc' : ctx_names_ok (ctx ++ [mkfb l FCns T]) = true).
      { apply ctx_names_ok_app; [assumption|]. unfold ctx_names_ok. simpl. rewrite HT. reflexivity. }
      destruct (IHt eager st _ T u' st' _ Hf Hm Hc' HT Tb I H1 GF HiT (ctx_rel_snoc _ _ (mkfb l FCns T) R) (ctx_inst_snoc _ (mkfb l FCns T) CI HiT) ltac:(cm Hcm)) as [K1 [K2 _]].
      rewrite tg_label. unfold compile_binding in K1. simpl in K1. rewrite K1, (HtyF _ HT HiT), (has_ty_of _ _ K2). auto.
    - (* FGoto *)
      apply cbind_ok in Hk. destruct Hk as [cont [Hl Hk]].
      apply cbind_ok in Hk. destruct Hk as [[u' st1] [H1 Hk]]. inversion Hk; subst.
      destruct (lookup_covar_last _ _ _ Hl) as [b0 [Hb0 [Hb0c Hbt]]].
      destruct (lookup_covar_E _ _ _ Hl) as [_ [b1 [Hb1 Hbt1]]].
      assert (Hmf : ty_names_ok cont = true) by (subst cont; rewrite <- Hbt1; apply (ctx_names_ok_in ctx); assumption).
      assert (HiC : has_inst_p stF cont) by (rewrite <- Hbt1; apply CI; exact Hb1).
      destruct (IHt eager st ctx cont u' st' G Hf Hm Hc Hmf Tb I H1 GF HiC R CI ltac:(cm Hcm)) as [K1 [K2 _]].
      rewrite tg_goto, K1, K2. pose proof (var_ok_rel _ _ _ _ R Hb0) as Hv. rewrite Hb0c, Hbt in Hv. simpl in Hv. rewrite Hv.
      simpl. rewrite (HtyF _ Hmf HiC). auto.
    - (* FExit *)
      apply cbind_ok in Hk. destruct Hk as [[a' st1] [H1 Hk]]. inversion Hk; subst.
      destruct (IHt eager st ctx FI64 a' st' G Hf Hm Hc eq_refl Tb I H1 GF Logic.I R CI ltac:(cm Hcm)) as [K1 [K2 _]].
      rewrite tg_exit, K1, (has_ty_i64 _ K2). simpl. rewrite (HtyF _ HT HiT). auto.
    - (* FParen *)
      apply cbind_ok in Hk. destruct Hk as [[u' st1] [H1 Hk]]. inversion Hk; subst.
      destruct (IHt eager st ctx T u' st' G Hf Hm Hc HT Tb I H1 GF HiT R CI ltac:(cm Hcm)) as [K1 [K2 K3]].
      rewrite tg_paren. simpl. auto.
  Qed.
End Tg.
