(* C15 -> C12: the output of the type checker satisfies the typing guard [tg] of the pipeline theorem.
   Term level.  An induction over [check_term_gen]: the annotated output term satisfies [tg] in every scope G that
   agrees with the checker's context ([ctx_rel]: the rightmost binding of a name in the context is the first one in G),
   relative to a FINAL world (stF, D, C, q): every instance of the final symbol table stF is a declared type of the
   compiled declarations D/C, every source definition is a definition of the output q with the same signature.
   The frame facts (pinv, same_templates, grows) of every step are those of Proof/CheckPolySound.v.
   This file: the forms without constructors / destructors / case / new ([core_frag]). *)
From Coq Require Import List ZArith NArith String Bool Permutation Lia.
From SCC Require Import Base.Sexp Lang.SynUtil Lang.FunSyn Lang.FunTy Lang.CoreSyn Model.Check Sem.FunTyping Sem.FunNames
  Sem.AxSem Sem.FunSem Sem.FsCheck Sem.CoreCheck Model.Fun2Core Model.Fun2CoreGuard Model.Fun2CoreTyGuard
  Proof.FunInd Proof.FunEq Proof.CheckAnn Proof.TypingReject Proof.CheckBuild Proof.CheckMono Proof.CheckMonoSound
  Proof.PrintInj Proof.CheckPoly Proof.CheckInstBase Proof.CheckPolySound Proof.Fun2CoreInv Proof.Fun2CoreTyBase.
Import ListNotations.
Open Scope string_scope.
Open Scope list_scope.

(* ---------- the checker's context and the scope of the guard ---------- *)
Definition ctx_rel (ctx : fctx) (G : cctx) : Prop :=
  forall v, gl G (new_id v) = option_map compile_binding (lookup_last ctx v).

Lemma lookup_last_app : forall a b v,
  lookup_last (a ++ b) v = match lookup_last b v with Some x => Some x | None => lookup_last a v end.
Proof.
  induction a as [|x r IH]; intros b v; simpl.
  - destruct (lookup_last b v); reflexivity.
  - rewrite IH. destruct (lookup_last b v); reflexivity.
Qed.
Lemma lookup_last_var : forall c v b, lookup_last c v = Some b -> fbvar b = v.
Proof.
  induction c as [|x r IH]; intros v b H; simpl in H; [discriminate|].
  destruct (lookup_last r v) eqn:E; [inversion H; subst; eauto|].
  destruct (String.eqb (fbvar x) v) eqn:Ev; [|discriminate]. inversion H; subst. apply String.eqb_eq. exact Ev.
Qed.
Lemma lookup_last_notin : forall c v, mem v (fvars c) = false -> lookup_last c v = None.
Proof.
  induction c as [|x r IH]; intros v H; simpl in *; [reflexivity|].
  apply orb_false_iff in H. destruct H as [H1 H2]. rewrite (IH _ H2). rewrite String.eqb_sym, H1. reflexivity.
Qed.
Lemma gl_app : forall a b x, gl (a ++ b) x = match gl a x with Some y => Some y | None => gl b x end.
Proof.
  induction a as [|y r IH]; intros b x; simpl; [reflexivity|].
  unfold gl in *. simpl. destruct (cident_eqb (cbvar y) x); [reflexivity|apply IH].
Qed.
Lemma gl_nodup : forall c v, nodup (fvars c) = true ->
  gl (compile_ctx c) (new_id v) = option_map compile_binding (lookup_last c v).
Proof.
  induction c as [|x r IH]; intros v H; simpl in *; [reflexivity|].
  apply andb_true_iff in H. destruct H as [H1 H2]. apply negb_true_iff in H1.
  unfold gl in *. simpl. rewrite cid_eqb_new_id.
  destruct (String.eqb (fbvar x) v) eqn:Ev.
  - apply String.eqb_eq in Ev. subst v. rewrite (lookup_last_notin _ _ H1). reflexivity.
  - rewrite (IH v H2). destruct (lookup_last r v); reflexivity.
Qed.
Lemma ctx_rel_snoc : forall ctx G b, ctx_rel ctx G -> ctx_rel (ctx ++ [b]) (compile_binding b :: G).
Proof.
  intros ctx G b R v. rewrite lookup_last_app. simpl. unfold gl. simpl. rewrite cid_eqb_new_id.
  destruct (String.eqb (fbvar b) v); [reflexivity|]. apply R.
Qed.
Lemma ctx_rel_app : forall ctx G c, nodup (fvars c) = true -> ctx_rel ctx G -> ctx_rel (ctx ++ c) (compile_ctx c ++ G).
Proof.
  intros ctx G c N R v. rewrite lookup_last_app, gl_app, (gl_nodup _ _ N).
  destruct (lookup_last c v); [reflexivity|]. apply R.
Qed.
Lemma ctx_rel_init : forall c, nodup (fvars c) = true -> ctx_rel c (compile_ctx c).
Proof. intros c N v. apply gl_nodup. exact N. Qed.

Lemma var_ok_rel : forall ctx G v b, ctx_rel ctx G -> lookup_last ctx v = Some b ->
  var_ok G v (Some (fbty b)) (compile_chi (fbchi b)) = true.
Proof.
  intros ctx G v b R H. unfold var_ok. rewrite R, H. simpl. apply cbinding_eqb_eq.
  unfold compile_binding. rewrite (lookup_last_var _ _ _ H). reflexivity.
Qed.
Lemma lookup_var_last : forall ctx v found, lookup_var ctx v = COk found ->
  exists b, lookup_last ctx v = Some b /\ fbchi b = FPrd /\ fbty b = found.
Proof.
  intros ctx v found H. unfold lookup_var in H. destruct (lookup_last ctx v) as [b|]; [|discriminate].
  destruct (fbchi b) eqn:E; [|discriminate]. inversion H. eauto.
Qed.
Lemma lookup_covar_last : forall ctx v found, lookup_covar ctx v = COk found ->
  exists b, lookup_last ctx v = Some b /\ fbchi b = FCns /\ fbty b = found.
Proof.
  intros ctx v found H. unfold lookup_covar in H. destruct (lookup_last ctx v) as [b|]; [|discriminate].
  destruct (fbchi b) eqn:E; [discriminate|]. inversion H. eauto.
Qed.
Lemma nodup_str_eq : forall l, nodup_str l = nodup l.
Proof. induction l as [|x r IH]; simpl; [reflexivity|]. rewrite IH. reflexivity. Qed.

(* ---------- the fragment of this file ---------- *)
Fixpoint core_frag (t : fterm) : bool :=
  match t with
  | FVar _ _ _ | FLit _ => true
  | FOp a _ b => core_frag a && core_frag b
  | FIfC _ a b th el _ => core_frag a && match b with Some b' => core_frag b' | None => true end && core_frag th && core_frag el
  | FPrint _ a n _ => core_frag a && core_frag n
  | FLet _ _ a b _ => core_frag a && core_frag b
  | FCall _ args _ => (fix go (l : list fterm) : bool := match l with [] => true | a :: r => core_frag a && go r end) args
  | FCtor _ _ _ | FDtor _ _ _ _ _ | FCase _ _ _ _ | FNew _ _ => false
  | FLabel _ t _ | FGoto _ t _ | FExit t _ | FParen t => core_frag t
  end.
Definition core_frags (l : list fterm) : bool := forallb core_frag l.
Lemma core_frags_eq : forall l,
  (fix go (l : list fterm) : bool := match l with [] => true | a :: r => core_frag a && go r end) l = core_frags l.
Proof. induction l; simpl; [reflexivity|]. rewrite IHl. reflexivity. Qed.

Definition any_calls_main (l : list fterm) : bool := existsb calls_main l.
Lemma any_calls_main_eq : forall l,
  (fix go (l : list fterm) : bool := match l with [] => false | y :: r => calls_main y || go r end) l = any_calls_main l.
Proof. induction l; simpl; [reflexivity|]. rewrite IHl. reflexivity. Qed.

Section Tg.
  Variable ts : list tdecl.
  Variable fs : list fdef.
  Hypothesis W : poly_world ts fs.
  Notation pinv := (pinv ts).

  (* the final world *)
  Variable q : fcprog.
  Variables D C : list ctydecl.
  Variable stF : symtab.
  Hypothesis HtyF : forall t, ty_names_ok t = true -> has_inst_p stF t -> tyd D C (compile_ty t) = true.
  Hypothesis HdefF : forall d, In d fs ->
    exists d', ffind_def q (fdname d) = Some d' /\ fdctx d' = fdctx d /\ fdret d' = fdret d.

  Notation tg := (tg q D C).
  Notation tg_args := (tg_args q D C).
  Notation tg_arg := (tg_arg q D C).

  Lemma has_ty_of : forall t T, fterm_type t = Some T -> has_ty t (compile_ty T) = true.
  Proof. intros t T H. unfold has_ty, tyo. rewrite H. simpl. apply cty_eqb_eq. reflexivity. Qed.
  Lemma same_ty_of : forall t T, fterm_type t = Some T -> same_ty t (Some T) = true.
  Proof. intros t T H. simpl. apply has_ty_of. exact H. Qed.

  Definition ptg_at (t : fterm) : Prop :=
    forall eager st ctx T t' st' G,
      core_frag t = true ->
      term_names_ok t = true -> ctx_names_ok ctx = true -> ty_names_ok T = true -> tables ts fs st -> pinv st ->
      check_term_gen eager t st ctx T = COk (t', st') ->
      grows st' stF -> has_inst_p stF T -> ctx_rel ctx G ->
      (calls_main t' = true -> calls_main_prog q = true) ->
      tg G t' = true /\ fterm_type t' = Some T /\ is_cns_var t' = false.

  Ltac frame := eauto using same_templates_trans, grows_trans, same_templates_refl, grows_refl.
  Ltac cm H := let X := fresh in intros X; apply H; simpl; rewrite ?any_calls_main_eq; unfold any_calls_main in *; simpl; rewrite X; rewrite ?orb_true_r; reflexivity.

  Lemma all_psound : forall l, Forall (psound_at ts fs) l.
  Proof. intros l. apply Forall_forall. intros x _. apply check_term_gen_psound. exact W. Qed.

  Lemma check_args_with_ptg : forall args, Forall ptg_at args ->
    forall eager sg st ctx args' st' G,
      core_frags args = true ->
      terms_names_ok args = true -> ctx_names_ok ctx = true -> ctx_names_ok sg = true ->
      tables ts fs st -> pinv st ->
      check_args_with (check_term_gen eager) args sg st ctx = COk (args', st') ->
      List.length args = List.length sg ->
      grows st' stF -> ctx_rel ctx G ->
      (any_calls_main args' = true -> calls_main_prog q = true) ->
      tg_args G args' (compile_ctx sg) = true.
  Proof.
    intros args HF. induction HF as [|a ar Ha HFr IH]; intros eager sg st ctx args' st' G Hf Hm Hc Ht T I H Hlen GF R Hcm.
    - destruct sg; [|discriminate]. simpl in H. inversion H; subst. reflexivity.
    - destruct sg as [|b br]; [discriminate|]. simpl in Hlen. simpl in Hm, Ht, Hf.
      apply andb_true_iff in Hm. destruct Hm as [Hma Hmr]. apply andb_true_iff in Ht. destruct Ht as [Htb Htr].
      apply andb_true_iff in Hf. destruct Hf as [Hfa Hfr].
      simpl in H.
      destruct (fbchi b) eqn:Ech.
      + (* producer argument *)
        apply cbind_ok in H. destruct H as [st1 [H1 H]].
        apply cbind_ok in H. destruct H as [[a' st2] [H2 H]].
        apply cbind_ok in H. destruct H as [[ar' st3] [H3 H]]. inversion H; subst.
        destruct (ty_check_sound ts fs W _ _ _ Htb T I H1) as [_ [I1 [S1 [G1 Hi1]]]].
        destruct (check_term_gen_psound ts fs W a eager st1 ctx _ a' st2 Hma Hc Htb (tables_same _ _ _ _ T S1) I1 H2) as [_ [I2 [S2 [G2 _]]]].
        assert (S12 : same_templates st st2) by frame.
        rewrite <- (inst_ctx_nil br) in H3.
        destruct (check_args_with_psound ts fs W ar (all_psound ar) eager [] [] br st2 ctx ar' st' Hmr Hc Htr eq_refl
                    (tables_same _ _ _ _ T S12) I2 H3) as [_ [I3 [S3 [G3 _]]]]; [lia|].
        rewrite inst_ctx_nil in H3.
        assert (G2F : grows st2 stF) by frame.
        assert (HiF : has_inst_p stF (fbty b)) by (eapply has_inst_grows; [|exact Hi1]; frame).
        destruct (Ha eager st1 ctx _ a' st2 G Hfa Hma Hc Htb (tables_same _ _ _ _ T S1) I1 H2 G2F HiF R ltac:(cm Hcm)) as [K1 [K2 K3]].
        simpl compile_ctx. rewrite tg_args_cons. unfold Fun2CoreTyGuard.tg_arg. simpl cbchi. rewrite Ech. simpl compile_chi. cbv iota.
        rewrite K3, K1. simpl cbty. rewrite (has_ty_of _ _ K2), (HtyF _ Htb HiF). simpl.
        apply (IH eager br st2 ctx ar' st' G Hfr Hmr Hc Htr (tables_same _ _ _ _ T S12) I2 H3); [lia|exact GF|exact R|cm Hcm].
      + (* consumer argument: a covariable *)
        destruct a as [v ann chi| | | | | | | | | | | | | |]; try discriminate.
        assert (Hgo : exists found st1 st2 ar', lookup_covar ctx v = COk found
                    /\ match ann with Some t => check_equality st t found | None => COk st end = COk st1
                    /\ check_equality st1 (fbty b) found = COk st2
                    /\ check_args_with (check_term_gen eager) ar br st2 ctx = COk (ar', st')
                    /\ args' = FVar v (Some found) (Some FCns) :: ar').
        { destruct chi as [[|]|]; try discriminate;
            (apply cbind_ok in H; destruct H as [found [Hl H]];
             apply cbind_ok in H; destruct H as [st1 [H1 H]];
             apply cbind_ok in H; destruct H as [st2 [H2 H]];
             apply cbind_ok in H; destruct H as [[ar' st3] [H3 H]]; inversion H; subst; eauto 10). }
        destruct Hgo as [found [st1 [st2 [ar' [Hl [H1 [H2 [H3 ->]]]]]]]].
        destruct (lookup_covar_last _ _ _ Hl) as [b0 [Hb0 [Hb0c Hbt]]].
        destruct (lookup_covar_E _ _ _ Hl) as [_ [b1 [Hb1 Hbt1]]].
        assert (Hmf : ty_names_ok found = true) by (subst found; rewrite <- Hbt1; apply (ctx_names_ok_in ctx); assumption).
        destruct (ann_check_psound ts fs W ann found st st1 Hma Hmf T I H1) as [_ [I1 [S1 G1]]].
        destruct (check_equality_sound ts fs W _ _ _ _ Htb Hmf (tables_same _ _ _ _ T S1) I1 H2) as [Heq [_ [I2 [S2 [G2 Hi2]]]]].
        assert (S12 : same_templates st st2) by frame.
        rewrite <- (inst_ctx_nil br) in H3.
        destruct (check_args_with_psound ts fs W ar (all_psound ar) eager [] [] br st2 ctx ar' st' Hmr Hc Htr eq_refl
                    (tables_same _ _ _ _ T S12) I2 H3) as [_ [I3 [S3 [G3 _]]]]; [lia|].
        rewrite inst_ctx_nil in H3.
        assert (HiF : has_inst_p stF (fbty b)) by (eapply has_inst_grows; [|exact Hi2]; frame).
        simpl compile_ctx. rewrite tg_args_cons. unfold Fun2CoreTyGuard.tg_arg. simpl cbchi. rewrite Ech. simpl compile_chi. cbv iota.
        pose proof (var_ok_rel _ _ _ _ R Hb0) as Hv. rewrite Hb0c, Hbt in Hv. simpl in Hv. rewrite Hv.
        simpl cbty. rewrite Heq. rewrite (has_ty_of (FVar v (Some found) (Some FCns)) found eq_refl).
        rewrite <- Heq. rewrite (HtyF _ Htb HiF). simpl.
        apply (IH eager br st2 ctx ar' st' G Hfr Hmr Hc Htr (tables_same _ _ _ _ T S12) I2 H3); [lia|exact GF|exact R|cm Hcm].
  Qed.
End Tg.
