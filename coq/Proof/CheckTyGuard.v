(* C15 -> C12: the output of the type checker satisfies the typing guard [tg] of the pipeline theorem.
   Term level.  An induction over [check_term_gen]: the annotated output term satisfies [tg] in every scope G that
   agrees with the checker's context ([ctx_rel]: the rightmost binding of a name in the context is the first one in G),
   relative to a FINAL world (stF, D, C, q): every instance of the final symbol table stF is a declared type of the
   compiled declarations D/C, every source definition is a definition of the output q with the same signature.
   The frame facts (pinv, same_templates, grows) of every step are those of Proof/CheckPolySound.v.
   This file: the forms without constructors / destructors / case / new ([core_frag]). *)
From Coq Require Import List ZArith NArith String Bool Permutation Lia.
From SCC Require Import Base.Sexp Lang.SynUtil Lang.FunSyn Lang.FunTy Lang.CoreSyn Model.Check Sem.FunTyping Sem.FunNames
  Sem.AxSem Sem.FunSem Sem.FsCheck Sem.CoreCheck Model.Fun2Core Model.Fun2CoreGuard Model.Fun2CoreTyGuard
  Proof.FunInd Proof.FunEq Proof.CheckAnn Proof.TypingReject Proof.CheckBuild Proof.CheckMono Proof.CheckMonoSound
  Proof.PrintInj Proof.CheckPoly Proof.CheckInstBase Proof.CheckPolySound Proof.CheckScope Proof.Fun2CoreInv Proof.Fun2CoreTyBase.
Import ListNotations.
Open Scope string_scope.
Open Scope list_scope.

(* ---------- the checker's context and the scope of the guard ---------- *)
Definition ctx_rel (ctx : fctx) (G : cctx) : Prop :=
  forall v, gl G (new_id v) = option_map compile_binding (lookup_last ctx v).

Lemma lookup_last_app : forall a b v,
  lookup_last (a ++ b) v = match lookup_last b v with Some x => Some x | None => lookup_last a v end.
Proof.
  induction a as [|x r IH]; intros b v; simpl.
  - destruct (lookup_last b v); reflexivity.
  - rewrite IH. destruct (lookup_last b v); reflexivity.
Qed.
Lemma lookup_last_var : forall c v b, lookup_last c v = Some b -> fbvar b = v.
Proof.
  induction c as [|x r IH]; intros v b H; simpl in H; [discriminate|].
  destruct (lookup_last r v) eqn:E; [inversion H; subst; eauto|].
  destruct (String.eqb (fbvar x) v) eqn:Ev; [|discriminate]. inversion H; subst. apply String.eqb_eq. exact Ev.
Qed.
Lemma lookup_last_notin : forall c v, mem v (fvars c) = false -> lookup_last c v = None.
Proof.
  induction c as [|x r IH]; intros v H; simpl in *; [reflexivity|].
  apply orb_false_iff in H. destruct H as [H1 H2]. rewrite (IH _ H2). rewrite String.eqb_sym, H1. reflexivity.
Qed.
Lemma gl_app : forall a b x, gl (a ++ b) x = match gl a x with Some y => Some y | None => gl b x end.
Proof.
  induction a as [|y r IH]; intros b x; simpl; [reflexivity|].
  unfold gl in *. simpl. destruct (cident_eqb (cbvar y) x); [reflexivity|apply IH].
Qed.
Lemma gl_nodup : forall c v, nodup (fvars c) = true ->
  gl (compile_ctx c) (new_id v) = option_map compile_binding (lookup_last c v).
Proof.
  induction c as [|x r IH]; intros v H; simpl in *; [reflexivity|].
  apply andb_true_iff in H. destruct H as [H1 H2]. apply negb_true_iff in H1.
  unfold gl in *. simpl. rewrite cid_eqb_new_id.
  destruct (String.eqb (fbvar x) v) eqn:Ev.
  - apply String.eqb_eq in Ev. subst v. rewrite (lookup_last_notin _ _ H1). reflexivity.
  - rewrite (IH v H2). destruct (lookup_last r v); reflexivity.
Qed.
Lemma ctx_rel_snoc : forall ctx G b, ctx_rel ctx G -> ctx_rel (ctx ++ [b]) (compile_binding b :: G).
Proof.
  intros ctx G b R v. rewrite lookup_last_app. simpl. unfold gl. simpl. rewrite cid_eqb_new_id.
  destruct (String.eqb (fbvar b) v); [reflexivity|]. apply R.
Qed.
Lemma ctx_rel_app : forall ctx G c, nodup (fvars c) = true -> ctx_rel ctx G -> ctx_rel (ctx ++ c) (compile_ctx c ++ G).
Proof.
  intros ctx G c N R v. rewrite lookup_last_app, gl_app, (gl_nodup _ _ N).
  destruct (lookup_last c v); [reflexivity|]. apply R.
Qed.
Lemma ctx_rel_init : forall c, nodup (fvars c) = true -> ctx_rel c (compile_ctx c).
Proof. intros c N v. apply gl_nodup. exact N. Qed.

Lemma var_ok_rel : forall ctx G v b, ctx_rel ctx G -> lookup_last ctx v = Some b ->
  var_ok G v (Some (fbty b)) (compile_chi (fbchi b)) = true.
Proof.
  intros ctx G v b R H. unfold var_ok. rewrite R, H. simpl. apply cbinding_eqb_eq.
  unfold compile_binding. rewrite (lookup_last_var _ _ _ H). reflexivity.
Qed.
Lemma lookup_var_last : forall ctx v found, lookup_var ctx v = COk found ->
  exists b, lookup_last ctx v = Some b /\ fbchi b = FPrd /\ fbty b = found.
Proof.
  intros ctx v found H. unfold lookup_var in H. destruct (lookup_last ctx v) as [b|]; [|discriminate].
  destruct (fbchi b) eqn:E; [|discriminate]. inversion H. eauto.
Qed.
Lemma lookup_covar_last : forall ctx v found, lookup_covar ctx v = COk found ->
  exists b, lookup_last ctx v = Some b /\ fbchi b = FCns /\ fbty b = found.
Proof.
  intros ctx v found H. unfold lookup_covar in H. destruct (lookup_last ctx v) as [b|]; [|discriminate].
  destruct (fbchi b) eqn:E; [discriminate|]. inversion H. eauto.
Qed.
Lemma nodup_str_eq : forall l, nodup_str l = nodup l.
Proof. induction l as [|x r IH]; simpl; [reflexivity|]. rewrite IH. reflexivity. Qed.

(* ---------- the fragment of this file ---------- *)
Fixpoint core_frag (t : fterm) : bool :=
  match t with
  | FVar _ _ _ | FLit _ => true
  | FOp a _ b => core_frag a && core_frag b
  | FIfC _ a b th el _ => core_frag a && match b with Some b' => core_frag b' | None => true end && core_frag th && core_frag el
  | FPrint _ a n _ => core_frag a && core_frag n
  | FLet _ _ a b _ => core_frag a && core_frag b
  | FCall _ args _ => (fix go (l : list fterm) : bool := match l with [] => true | a :: r => core_frag a && go r end) args
  | FCtor _ _ _ | FDtor _ _ _ _ _ | FCase _ _ _ _ | FNew _ _ => false
  | FLabel _ t _ | FGoto _ t _ | FExit t _ | FParen t => core_frag t
  end.
Definition core_frags (l : list fterm) : bool := forallb core_frag l.
Lemma core_frags_eq : forall l,
  (fix go (l : list fterm) : bool := match l with [] => true | a :: r => core_frag a && go r end) l = core_frags l.
Proof. induction l; simpl; [reflexivity|]. rewrite IHl. reflexivity. Qed.

Definition any_calls_main (l : list fterm) : bool := existsb calls_main l.
Lemma any_calls_main_eq : forall l,
  (fix go (l : list fterm) : bool := match l with [] => false | y :: r => calls_main y || go r end) l = any_calls_main l.
Proof. induction l; simpl; [reflexivity|]. rewrite IHl. reflexivity. Qed.

Definition any_cls_cm (l : list fclause) : bool := existsb (fun c => calls_main (clause_body c)) l.
Lemma any_cls_cm_eq : forall l,
  (fix go (l : list fclause) : bool :=
     match l with [] => false | FClause _ _ _ _ body :: r => calls_main body || go r end) l = any_cls_cm l.
Proof. induction l as [|[? ? ? ? b] r IH]; simpl; [reflexivity|]. rewrite IH. reflexivity. Qed.

Lemma list_eqb_str_refl : forall l, list_eqb String.eqb l l = true.
Proof. induction l as [|x r IH]; simpl; [reflexivity|]. rewrite String.eqb_refl, IH. reflexivity. Qed.
Lemma split_last_snoc : forall l b, split_last (l ++ [b]) = Some (l, b).
Proof.
  induction l as [|x r IH]; intros b; simpl; [reflexivity|]. rewrite IH.
  destruct (r ++ [b]) eqn:E; [destruct r; discriminate|reflexivity].
Qed.
Lemma fparams_ok_zip : forall ns sg, List.length ns = List.length sg ->
  fparams_ok (compile_ctx (zip_names ns sg)) (compile_ctx sg) = true.
Proof.
  induction ns as [|n r IH]; intros [|b br] H; simpl in *; try discriminate; [reflexivity|].
  rewrite IH by lia. unfold csame_sig. simpl.
  rewrite (proj2 (cchi_eqb_eq _ _) eq_refl), (proj2 (cty_eqb_eq _ _) eq_refl). reflexivity.
Qed.
Lemma zip_names_in_ty : forall ns sg b, In b (zip_names ns sg) -> exists b', In b' sg /\ fbty b = fbty b'.
Proof.
  induction ns as [|n r IH]; intros [|x br] b H; simpl in *; try contradiction.
  destruct H as [<-|H]; [exists x; simpl; auto|]. destruct (IH _ _ H) as [b' [? ?]]. eauto.
Qed.

(* ---------- printed names ---------- *)
Definition show_items := fix go (l : list fty) : string :=
  match l with [] => ""%string | x :: l' => (", " ++ show_fty x ++ go l')%string end.
Lemma show_items_print : forall r, Forall (fun t => show_fty t = print_ty t) r ->
  (show_items r ++ "]")%string = fold_right (fun b acc => (", " ++ print_ty b ++ acc)%string) "]"%string r.
Proof.
  intros r H. induction H as [|x l Hx _ IH]; [reflexivity|].
  change (show_items (x :: l)) with (", " ++ show_fty x ++ show_items l)%string. cbn [fold_right].
  rewrite <- IH, Hx. rewrite !append_assoc. reflexivity.
Qed.
Lemma show_fty_print : forall t, show_fty t = print_ty t.
Proof.
  induction t using fty_ind'; [reflexivity|].
  destruct args as [|a r].
  - simpl. rewrite append_nil_r'. reflexivity.
  - inversion H as [|? ? Ha Hr]; subst.
    change (show_fty (FDecl n (a :: r))) with (n ++ "[" ++ show_fty a ++ show_items r ++ "]")%string.
    rewrite (show_items_print r Hr), Ha. reflexivity.
Qed.
Lemma compile_ty_decl : forall n a, compile_ty (FDecl n a) = CDecl (new_id (n ++ print_targs a)).
Proof. intros n a. unfold compile_ty. rewrite show_fty_print, print_ty_decl. reflexivity. Qed.

Section Tg.
  Variable ts : list tdecl.
  Variable fs : list fdef.
  Hypothesis W : poly_world ts fs.
  Notation pinv := (pinv ts).

  (* the final world *)
  Variable q : fcprog.
  Variables D C : list ctydecl.
  Variable stF : symtab.
  Hypothesis HtyF : forall t, ty_names_ok t = true -> has_inst_p stF t -> tyd D C (compile_ty t) = true.
  Hypothesis HdefF : forall f d, FunTyping.find_def fs f = Some d ->
    exists d', ffind_def q f = Some d' /\ fdctx d' = fdctx d /\ fdret d' = fdret d.

  Definition ctx_inst (ctx : fctx) : Prop := forall b, In b ctx -> has_inst_p stF (fbty b).
  (* the declarations of the final world: every instance of stF is a compiled declaration whose xtors are the
     instantiated xtors of its template, in declaration order, with instantiated field types *)
  Definition Rdata (td : tdecl) (targs : list fty) (s : xsig) (c : fctorsig) : Prop :=
    fctname c = xs_name s /\ fctargs c = inst_ctx (td_params td) targs (xs_args s) /\ ctx_inst (fctargs c).
  Definition Rcodata (td : tdecl) (targs : list fty) (s : xsig) (c : fdtorsig) : Prop :=
    fdtname c = xs_name s /\ fdtargs c = inst_ctx (td_params td) targs (xs_args s)
    /\ (exists r0, xs_ret s = Some r0 /\ fdtcont c = inst (td_params td) targs r0)
    /\ ctx_inst (fdtargs c) /\ has_inst_p stF (fdtcont c).
  Hypothesis HdataF : forall td targs, In td ts -> td_pol td = FData -> targs_ok ts td targs ->
    has_inst_p stF (FDecl (td_name td) targs) ->
    exists cs, find_decl D (new_id (td_name td ++ print_targs targs))
               = Some (mkct CData (new_id (td_name td ++ print_targs targs)) (map compile_ctor cs))
      /\ Forall2 (Rdata td targs) (td_xtors td) cs.
  Hypothesis HcodataF : forall td targs, In td ts -> td_pol td = FCodata -> targs_ok ts td targs ->
    has_inst_p stF (FDecl (td_name td) targs) ->
    exists ds, find_decl C (new_id (td_name td ++ print_targs targs))
               = Some (mkct CCodata (new_id (td_name td ++ print_targs targs)) (map compile_dtor ds))
      /\ Forall2 (Rcodata td targs) (td_xtors td) ds.

  Notation tg := (tg q D C).
  Notation tg_args := (tg_args q D C).
  Notation tg_arg := (tg_arg q D C).

  Lemma has_ty_of : forall t T, fterm_type t = Some T -> has_ty t (compile_ty T) = true.
  Proof. intros t T H. unfold has_ty, tyo. rewrite H. simpl. apply cty_eqb_eq. reflexivity. Qed.
  Lemma has_ty_i64 : forall t, fterm_type t = Some FI64 -> has_ty t CI64 = true.
  Proof. intros t H. exact (has_ty_of t FI64 H). Qed.
  Lemma same_ty_of : forall t T, fterm_type t = Some T -> same_ty t (Some T) = true.
  Proof. intros t T H. simpl. apply has_ty_of. exact H. Qed.

  Lemma ctx_inst_snoc : forall ctx b, ctx_inst ctx -> has_inst_p stF (fbty b) -> ctx_inst (ctx ++ [b]).
  Proof. intros ctx b H Hb x Hx. apply in_app_or in Hx. destruct Hx as [Hx|[<-|[]]]; auto. Qed.

  Lemma ctx_inst_app : forall a b, ctx_inst a -> ctx_inst b -> ctx_inst (a ++ b).
  Proof. intros a b Ha Hb x Hx. apply in_app_or in Hx. destruct Hx; auto. Qed.
  Lemma ctx_inst_zip : forall ns sg, ctx_inst sg -> ctx_inst (zip_names ns sg).
  Proof. intros ns sg H b Hb. destruct (zip_names_in_ty _ _ _ Hb) as [b' [Hin ->]]. auto. Qed.

  Lemma find_ctor_sig : forall td targs n s ss cs, Forall2 (Rdata td targs) ss cs ->
    find (fun s => String.eqb (xs_name s) n) ss = Some s ->
    exists c, find (fun sg => cident_eqb (cxname sg) (new_id n)) (map compile_ctor cs) = Some (compile_ctor c) /\ Rdata td targs s c.
  Proof.
    intros td targs n s ss cs HF. induction HF as [|x c l l' R _ IH]; simpl; intros Hf; [discriminate|].
    pose proof R as [En _]. rewrite cid_eqb_new_id, En.
    destruct (String.eqb (xs_name x) n); [inversion Hf; subst; eauto|auto].
  Qed.
  Lemma find_dtor_sig : forall td targs n s ss ds, Forall2 (Rcodata td targs) ss ds ->
    find (fun s => String.eqb (xs_name s) n) ss = Some s ->
    exists c, find (fun sg => cident_eqb (cxname sg) (new_id n)) (map compile_dtor ds) = Some (compile_dtor c) /\ Rcodata td targs s c.
  Proof.
    intros td targs n s ss ds HF. induction HF as [|x c l l' R _ IH]; simpl; intros Hf; [discriminate|].
    pose proof R as [En _]. rewrite cid_eqb_new_id, En.
    destruct (String.eqb (xs_name x) n); [inversion Hf; subst; eauto|auto].
  Qed.

  Definition ptg_at (t : fterm) : Prop :=
    forall eager st ctx T t' st' G,
      term_names_ok t = true -> ctx_names_ok ctx = true -> ty_names_ok T = true -> tables ts fs st -> pinv st ->
      check_term_gen eager t st ctx T = COk (t', st') ->
      grows st' stF -> has_inst_p stF T -> ctx_rel ctx G -> ctx_inst ctx ->
      (calls_main t' = true -> calls_main_prog q = true) ->
      tg G t' = true /\ fterm_type t' = Some T /\ is_cns_var t' = false.

  Ltac frame := eauto using same_templates_trans, grows_trans, same_templates_refl, grows_refl.
  Ltac cm H := let X := fresh in intros X; apply H; simpl; rewrite ?any_calls_main_eq; unfold any_calls_main in *; simpl; rewrite X; rewrite ?orb_true_r; reflexivity.

  Lemma all_psound : forall l, Forall (psound_at ts fs) l.
  Proof. intros l. apply Forall_forall. intros x _. apply check_term_gen_psound. exact W. Qed.

  Lemma all_psound_cls : forall l, Forall (fun c => psound_at ts fs (clause_body c)) l.
  Proof. intros l. apply Forall_forall. intros x _. apply check_term_gen_psound. exact W. Qed.

  Lemma check_args_with_ptg : forall args, Forall ptg_at args ->
    forall eager sg st ctx args' st' G,
      terms_names_ok args = true -> ctx_names_ok ctx = true -> ctx_names_ok sg = true ->
      tables ts fs st -> pinv st ->
      check_args_with (check_term_gen eager) args sg st ctx = COk (args', st') ->
      List.length args = List.length sg ->
      grows st' stF -> ctx_rel ctx G -> ctx_inst ctx ->
      (any_calls_main args' = true -> calls_main_prog q = true) ->
      tg_args G args' (compile_ctx sg) = true.
  Proof.
    intros args HF. induction HF as [|a ar Ha HFr IH]; intros eager sg st ctx args' st' G Hm Hc Ht T I H Hlen GF R CI Hcm.
    - destruct sg; [|discriminate]. simpl in H. inversion H; subst. reflexivity.
    - destruct sg as [|b br]; [discriminate|]. simpl in Hlen. simpl in Hm, Ht.
      apply andb_true_iff in Hm. destruct Hm as [Hma Hmr]. apply andb_true_iff in Ht. destruct Ht as [Htb Htr].
      simpl in H.
      destruct (fbchi b) eqn:Ech.
      + (* producer argument *)
        apply cbind_ok in H. destruct H as [st1 [H1 H]].
        apply cbind_ok in H. destruct H as [[a' st2] [H2 H]].
        apply cbind_ok in H. destruct H as [[ar' st3] [H3 H]]. inversion H; subst.
        destruct (ty_check_sound ts fs W _ _ _ Htb T I H1) as [_ [I1 [S1 [G1 Hi1]]]].
        destruct (check_term_gen_psound ts fs W a eager st1 ctx _ a' st2 Hma Hc Htb (tables_same _ _ _ _ T S1) I1 H2) as [_ [I2 [S2 [G2 _]]]].
        assert (S12 : same_templates st st2) by frame.
        rewrite <- (inst_ctx_nil br) in H3.
        destruct (check_args_with_psound ts fs W ar (all_psound ar) eager [] [] br st2 ctx ar' st' Hmr Hc Htr eq_refl
                    (tables_same _ _ _ _ T S12) I2 H3) as [_ [I3 [S3 [G3 _]]]]; [lia|].
        rewrite inst_ctx_nil in H3.
        assert (G2F : grows st2 stF) by frame.
        assert (HiF : has_inst_p stF (fbty b)) by (eapply has_inst_grows; [|exact Hi1]; frame).
        destruct (Ha eager st1 ctx _ a' st2 G Hma Hc Htb (tables_same _ _ _ _ T S1) I1 H2 G2F HiF R CI ltac:(cm Hcm)) as [K1 [K2 K3]].
        simpl compile_ctx. rewrite tg_args_cons. unfold Fun2CoreTyGuard.tg_arg. simpl cbchi. rewrite Ech. simpl compile_chi. cbv iota.
        rewrite K3, K1. simpl cbty. rewrite (has_ty_of _ _ K2), (HtyF _ Htb HiF). simpl.
        apply (IH eager br st2 ctx ar' st' G Hmr Hc Htr (tables_same _ _ _ _ T S12) I2 H3); [lia|exact GF|exact R|exact CI|cm Hcm].
      + (* consumer argument: a covariable *)
        destruct a as [v ann chi| | | | | | | | | | | | | |]; try discriminate.
        assert (Hgo : exists found st1 st2 ar', lookup_covar ctx v = COk found
                    /\ match ann with Some t => check_equality st t found | None => COk st end = COk st1
                    /\ check_equality st1 (fbty b) found = COk st2
                    /\ check_args_with (check_term_gen eager) ar br st2 ctx = COk (ar', st')
                    /\ args' = FVar v (Some found) (Some FCns) :: ar').
        { destruct chi as [[|]|]; try discriminate;
            (apply cbind_ok in H; destruct H as [found [Hl H]];
             apply cbind_ok in H; destruct H as [st1 [H1 H]];
             apply cbind_ok in H; destruct H as [st2 [H2 H]];
             apply cbind_ok in H; destruct H as [[ar' st3] [H3 H]]; inversion H; subst; eauto 10). }
        destruct Hgo as [found [st1 [st2 [ar' [Hl [H1 [H2 [H3 ->]]]]]]]].
        destruct (lookup_covar_last _ _ _ Hl) as [b0 [Hb0 [Hb0c Hbt]]].
        destruct (lookup_covar_E _ _ _ Hl) as [_ [b1 [Hb1 Hbt1]]].
        assert (Hmf : ty_names_ok found = true) by (subst found; rewrite <- Hbt1; apply (ctx_names_ok_in ctx); assumption).
        destruct (ann_check_psound ts fs W ann found st st1 Hma Hmf T I H1) as [_ [I1 [S1 G1]]].
        destruct (check_equality_sound ts fs W _ _ _ _ Htb Hmf (tables_same _ _ _ _ T S1) I1 H2) as [Heq [_ [I2 [S2 [G2 Hi2]]]]].
        assert (S12 : same_templates st st2) by frame.
        rewrite <- (inst_ctx_nil br) in H3.
        destruct (check_args_with_psound ts fs W ar (all_psound ar) eager [] [] br st2 ctx ar' st' Hmr Hc Htr eq_refl
                    (tables_same _ _ _ _ T S12) I2 H3) as [_ [I3 [S3 [G3 _]]]]; [lia|].
        rewrite inst_ctx_nil in H3.
        assert (HiF : has_inst_p stF (fbty b)) by (eapply has_inst_grows; [|exact Hi2]; frame).
        simpl compile_ctx. rewrite tg_args_cons. unfold Fun2CoreTyGuard.tg_arg. simpl cbchi. rewrite Ech. simpl compile_chi. cbv iota.
        pose proof (var_ok_rel _ _ _ _ R Hb0) as Hv. rewrite Hb0c, Hbt in Hv. simpl in Hv. rewrite Hv.
        simpl cbty. rewrite Heq. rewrite (has_ty_of (FVar v (Some found) (Some FCns)) found eq_refl).
        rewrite <- Heq. rewrite (HtyF _ Htb HiF). simpl.
        apply (IH eager br st2 ctx ar' st' G Hmr Hc Htr (tables_same _ _ _ _ T S12) I2 H3); [lia|exact GF|exact R|exact CI|cm Hcm].
  Qed.
  Lemma check_args_ptg : forall args, Forall ptg_at args ->
    forall eager sg st ctx args' st' G,
      terms_names_ok args = true -> ctx_names_ok ctx = true -> ctx_names_ok sg = true ->
      tables ts fs st -> pinv st ->
      check_args (check_term_gen eager) args sg st ctx = COk (args', st') ->
      grows st' stF -> ctx_rel ctx G -> ctx_inst ctx ->
      (any_calls_main args' = true -> calls_main_prog q = true) ->
      tg_args G args' (compile_ctx sg) = true.
  Proof.
    intros args HF eager sg st ctx args' st' G Hm Hc Ht T I H GF R CI Hcm. unfold check_args in H.
    destruct (Nat.eqb (List.length sg) (List.length args)) eqn:El; [|discriminate]. simpl in H.
    apply PeanoNat.Nat.eqb_eq in El.
    exact (check_args_with_ptg args HF eager sg st ctx args' st' G Hm Hc Ht T I H (eq_sym El) GF R CI Hcm).
  Qed.

  (* the frame facts of one step, from Proof/CheckPolySound.v *)
  Lemma step_frame : forall t eager st ctx T t' st',
    term_names_ok t = true -> ctx_names_ok ctx = true -> ty_names_ok T = true -> tables ts fs st -> pinv st ->
    check_term_gen eager t st ctx T = COk (t', st') ->
    pinv st' /\ same_templates st st' /\ grows st st' /\ tables ts fs st'.
  Proof.
    intros t eager st ctx T t' st' Hm Hc HT Tb I H.
    destruct (check_term_gen_psound ts fs W t eager st ctx T t' st' Hm Hc HT Tb I H) as [_ [I1 [S1 [G1 _]]]].
    splits; auto. eapply tables_same; eassumption.
  Qed.

  (* ---------- clauses ---------- *)
  Notation tg_clauses := (tg_clauses q D C).
  Notation tg_coclauses := (tg_coclauses q D C).

  Definition pc_ptg (pc : pclause) : Prop :=
    forall st ctx T t' st' G,
      ctx_names_ok ctx = true -> ty_names_ok T = true -> tables ts fs st -> pinv st ->
      pc_chk pc st ctx T = COk (t', st') ->
      grows st' stF -> has_inst_p stF T -> ctx_rel ctx G -> ctx_inst ctx ->
      (calls_main t' = true -> calls_main_prog q = true) ->
      tg G t' = true /\ fterm_type t' = Some T.

  Lemma prep_clauses_ptg : forall eager cls,
    Forall (fun c => ptg_at (clause_body c)) cls -> clauses_names_ok cls = true ->
    Forall pc_ptg (prep_clauses (check_term_gen eager) cls).
  Proof.
    intros eager cls HF. induction HF as [|[p x ns c b] r Hc _ IH]; intros Hm; simpl; constructor.
    - simpl in Hm. apply andb_true_iff in Hm. destruct Hm as [Hb _].
      unfold clause_names_ok in Hb. apply andb_true_iff in Hb. destruct Hb as [_ Hb].
      unfold pc_ptg. simpl. intros st ctx T t' st' G H1 H2 H3 H4 H5 H6 H7 H8 H9 H10.
      destruct (Hc eager st ctx T t' st' G Hb H1 H2 H3 H4 H5 H6 H7 H8 H9 H10) as [K1 [K2 _]]. auto.
    - apply IH. simpl in Hm. apply andb_true_iff in Hm. tauto.
  Qed.

  (* the part of one round of check_clauses that both kinds of clauses share *)
  Lemma clause_round : forall (is_case : bool) T td targs s sr pcls st ctx cls' leftover st',
    Forall (pc_psound ts fs) pcls -> Forall pc_ptg pcls ->
    ctx_names_ok ctx = true -> tables ts fs st -> pinv st ->
    In td ts -> targs_ok ts td targs -> (forall s0, In s0 (s :: sr) -> In s0 (td_xtors td)) ->
    td_pol td = (if is_case then FData else FCodata) -> (is_case = true -> ty_names_ok T = true) ->
    check_clauses is_case (print_targs targs) T (map xs_name (s :: sr)) pcls st ctx = COk (cls', leftover, st') ->
    exists cl pcls' bty body' st1 rest,
      Forall (pc_psound ts fs) pcls' /\ Forall pc_ptg pcls' /\ pc_ptg cl
      /\ pc_xtor cl = xs_name s
      /\ (if is_case then bty = T else exists r0, xs_ret s = Some r0 /\ bty = inst (td_params td) targs r0)
      /\ ty_names_ok bty = true
      /\ nodup (pc_names cl) = true
      /\ List.length (pc_names cl) = List.length (xs_args s)
      /\ ctx_names_ok (ctx ++ zip_names (pc_names cl) (inst_ctx (td_params td) targs (xs_args s))) = true
      /\ pc_chk cl st (ctx ++ zip_names (pc_names cl) (inst_ctx (td_params td) targs (xs_args s))) bty = COk (body', st1)
      /\ tables ts fs st1 /\ pinv st1
      /\ check_clauses is_case (print_targs targs) T (map xs_name sr) pcls' st1 ctx = COk (rest, leftover, st')
      /\ grows st1 st'
      /\ cls' = FClause (pc_pol cl) (pc_xtor cl) (pc_names cl)
                  (zip_names (pc_names cl) (inst_ctx (td_params td) targs (xs_args s))) body' :: rest.
  Proof.
    intros is_case T td targs s sr pcls st ctx cls' leftover st' HFs HFp Hc Tb I Htd Hok Hss Hpol HT H.
    simpl in H.
    destruct (swap_remove_first (fun c => String.eqb (pc_xtor c) (xs_name s)) pcls) as [[cl pcls']|] eqn:Es; [|destruct is_case; discriminate].
    apply swap_remove_first_spec in Es. destruct Es as [Hx Hperm]. apply String.eqb_eq in Hx.
    assert (HFs' : Forall (pc_psound ts fs) (cl :: pcls')).
    { eapply Permutation_Forall; [apply Permutation_sym; eassumption|assumption]. }
    assert (HFp' : Forall pc_ptg (cl :: pcls')).
    { eapply Permutation_Forall; [apply Permutation_sym; eassumption|assumption]. }
    inversion HFs' as [|? ? Hcls HFsr]; subst. inversion HFp' as [|? ? Hclp HFpr]; subst.
    apply cbind_ok in H. destruct H as [[sg bty] [Hsig H]].
    apply cbind_ok in H. destruct H as [[] [Hnd H]].
    apply cbind_ok in H. destruct H as [cctx [Hadd H]].
    apply cbind_ok in H. destruct H as [[body' st1] [Hbody H]].
    apply cbind_ok in H. destruct H as [[[rest left'] st2] [Hrest H]]. inversion H; subst.
    assert (Hs : In s (td_xtors td)) by (apply Hss; left; reflexivity).
    pose proof (PW_xnames _ _ W td s Htd Hs) as Nx.
    pose proof (targs_ok_names ts fs W _ _ Hok) as Nt.
    destruct (PW_sigs _ _ W td s Htd Hs) as [Nsg Nret].
    assert (Hsg : sg = inst_ctx (td_params td) targs (xs_args s)
                  /\ (if is_case then bty = T else exists r0, xs_ret s = Some r0 /\ bty = inst (td_params td) targs r0)).
    { destruct is_case.
      - destruct (aget (st_ctors st) (xs_name s ++ print_targs targs)%string) as [sg0|] eqn:Eg; [|discriminate]. inversion Hsig; subst.
        destruct (ctor_instance_sound ts fs W _ _ _ _ I Nx Nt Eg) as [td' [s' [Htd' [Hp' [Hs' [Hn' [_ ->]]]]]]].
        destruct (xtor_owner_unique ts fs W td td' s s' Htd Htd' ltac:(congruence) Hs Hs' ltac:(congruence)) as [<- <-].
        auto.
      - destruct (aget (st_dtors st) (xs_name s ++ print_targs targs)%string) as [[sg0 ret0]|] eqn:Eg; [|discriminate]. inversion Hsig; subst.
        destruct (dtor_instance_sound ts fs W _ _ _ _ _ I Nx Nt Eg) as [td' [s' [r0 [Htd' [Hp' [Hs' [Hn' [_ [Hr [-> ->]]]]]]]]]].
        destruct (xtor_owner_unique ts fs W td td' s s' Htd Htd' ltac:(congruence) Hs Hs' ltac:(congruence)) as [<- <-].
        eauto. }
    destruct Hsg as [-> Hbty].
    unfold add_types in Hadd. rewrite inst_ctx_length in Hadd.
    destruct (Nat.eqb (List.length (pc_names cl)) (List.length (xs_args s))) eqn:Elen; [|discriminate]. simpl in Hadd.
    inversion Hadd; subst cctx. apply PeanoNat.Nat.eqb_eq in Elen.
    assert (Hmb : ty_names_ok bty = true).
    { destruct is_case; [subst; auto|]. destruct Hbty as [r0 [Hr ->]]. rewrite Hr in Nret. apply inst_names_ok; assumption. }
    assert (Hmc : ctx_names_ok (ctx ++ zip_names (pc_names cl) (inst_ctx (td_params td) targs (xs_args s))) = true).
    { apply ctx_names_ok_app; [assumption|]. apply ctx_names_ok_zip. apply inst_ctx_names_ok; assumption. }
    destruct (Hcls st _ bty body' st1 Hmc Hmb Tb I Hbody) as [_ [I1 [S1 [G1 _]]]].
    pose proof (tables_same _ _ _ _ Tb S1) as Tb1.
    destruct (check_clauses_psound ts fs W is_case T td targs (map xs_name sr) pcls' st1 ctx rest leftover st' HFsr Hc Tb1 I1 Htd Hok)
      as [used [_ [_ [_ [I2 [S2 [G2 _]]]]]]]; auto.
    { intros y Hy. apply in_map_iff in Hy. destruct Hy as [s0 [<- Hs0]]. apply in_map. apply Hss. right. assumption. }
    exists cl, pcls', bty, body', st1, rest. splits; auto.
    apply names_no_dups_ok. exact Hnd.
  Qed.

  Lemma check_clauses_case_ptg : forall T td targs ss pcls st ctx cls' leftover st' G cs,
    Forall (pc_psound ts fs) pcls -> Forall pc_ptg pcls ->
    ctx_names_ok ctx = true -> tables ts fs st -> pinv st ->
    In td ts -> targs_ok ts td targs -> (forall s, In s ss -> In s (td_xtors td)) -> td_pol td = FData ->
    ty_names_ok T = true -> has_inst_p stF T ->
    check_clauses true (print_targs targs) T (map xs_name ss) pcls st ctx = COk (cls', leftover, st') ->
    grows st' stF -> ctx_rel ctx G -> ctx_inst ctx ->
    (any_cls_cm cls' = true -> calls_main_prog q = true) ->
    Forall2 (Rdata td targs) ss cs ->
    tg_clauses G (Some T) cls' (map compile_ctor cs) = true.
  Proof.
    intros T td targs ss. induction ss as [|s sr IH];
      intros pcls st ctx cls' leftover st' G cs HFs HFp Hc Tb I Htd Hok Hss Hpol HT HiT H GF R CI Hcm HR.
    - simpl in H. inversion H; subst. inversion HR; subst. reflexivity.
    - inversion HR as [|? c ? cr Rc HRr]; subst.
      destruct (clause_round true T td targs s sr pcls st ctx cls' leftover st' HFs HFp Hc Tb I Htd Hok Hss Hpol (fun _ => HT) H)
        as [cl [pcls' [bty [body' [st1 [rest [HFs' [HFp' [Hclp [Hx [Hbty [Hmb [Hnd [Hlen [Hmc [Hbody [Tb1 [I1 [Hrest [G1 ->]]]]]]]]]]]]]]]]]]]].
      subst bty. destruct Rc as [En [Ea Ei]].
      set (cctx := zip_names (pc_names cl) (inst_ctx (td_params td) targs (xs_args s))) in *.
      assert (Hfv : fvars cctx = pc_names cl).
      { unfold fvars, cctx. apply zip_names_vars. rewrite inst_ctx_length. exact Hlen. }
      assert (Hnd' : nodup (fvars cctx) = true) by (rewrite Hfv; exact Hnd).
      destruct (Hclp st _ T body' st1 (compile_ctx cctx ++ G) Hmc HT Tb I Hbody (grows_trans _ _ _ G1 GF) HiT
                  (ctx_rel_app _ _ _ Hnd' R)) as [K1 K2].
      { apply ctx_inst_app; [exact CI|]. apply ctx_inst_zip. rewrite <- Ea. exact Ei. }
      { intros X. apply Hcm. unfold any_cls_cm. simpl. rewrite X. reflexivity. }
      simpl map. rewrite tg_clauses_cons. unfold Fun2CoreTyGuard.tg_clause.
      rewrite Hfv, list_eqb_str_refl. unfold compile_ctor at 1. simpl cxname. rewrite cid_eqb_new_id, Hx, En, String.eqb_refl.
      simpl cxargs. rewrite Ea. unfold cctx at 1. rewrite fparams_ok_zip by (rewrite inst_ctx_length; exact Hlen).
      rewrite nodup_str_eq, Hnd, K1, (same_ty_of _ _ K2). simpl.
      apply (IH pcls' st1 ctx rest leftover st' G cr HFs' HFp' Hc Tb1 I1 Htd Hok); auto.
      + intros s0 Hs0. apply Hss. right. exact Hs0.
      + intros X. apply Hcm. unfold any_cls_cm in *. simpl. rewrite X. apply orb_true_r.
  Qed.

  Lemma check_clauses_new_ptg : forall T td targs ss pcls st ctx cls' leftover st' G ds,
    Forall (pc_psound ts fs) pcls -> Forall pc_ptg pcls ->
    ctx_names_ok ctx = true -> tables ts fs st -> pinv st ->
    In td ts -> targs_ok ts td targs -> (forall s, In s ss -> In s (td_xtors td)) -> td_pol td = FCodata ->
    check_clauses false (print_targs targs) T (map xs_name ss) pcls st ctx = COk (cls', leftover, st') ->
    grows st' stF -> ctx_rel ctx G -> ctx_inst ctx ->
    (any_cls_cm cls' = true -> calls_main_prog q = true) ->
    Forall2 (Rcodata td targs) ss ds ->
    tg_coclauses G cls' (map compile_dtor ds) = true.
  Proof.
    intros T td targs ss. induction ss as [|s sr IH];
      intros pcls st ctx cls' leftover st' G ds HFs HFp Hc Tb I Htd Hok Hss Hpol H GF R CI Hcm HR.
    - simpl in H. inversion H; subst. inversion HR; subst. reflexivity.
    - inversion HR as [|? c ? cr Rc HRr]; subst.
      destruct (clause_round false T td targs s sr pcls st ctx cls' leftover st' HFs HFp Hc Tb I Htd Hok Hss Hpol
                  (fun X => ltac:(discriminate X)) H)
        as [cl [pcls' [bty [body' [st1 [rest [HFs' [HFp' [Hclp [Hx [Hbty [Hmb [Hnd [Hlen [Hmc [Hbody [Tb1 [I1 [Hrest [G1 ->]]]]]]]]]]]]]]]]]]]].
      destruct Hbty as [r0 [Hr0 ->]]. destruct Rc as [En [Ea [[r1 [Hr1 Er]] [Ei Hic]]]].
      rewrite Hr0 in Hr1. inversion Hr1; subst r1. clear Hr1.
      set (cctx := zip_names (pc_names cl) (inst_ctx (td_params td) targs (xs_args s))) in *.
      assert (Hfv : fvars cctx = pc_names cl).
      { unfold fvars, cctx. apply zip_names_vars. rewrite inst_ctx_length. exact Hlen. }
      assert (Hnd' : nodup (fvars cctx) = true) by (rewrite Hfv; exact Hnd).
      rewrite Er in Hic.
      destruct (Hclp st _ _ body' st1 (compile_ctx cctx ++ G) Hmc Hmb Tb I Hbody (grows_trans _ _ _ G1 GF) Hic
                  (ctx_rel_app _ _ _ Hnd' R)) as [K1 K2].
      { apply ctx_inst_app; [exact CI|]. apply ctx_inst_zip. rewrite <- Ea. exact Ei. }
      { intros X. apply Hcm. unfold any_cls_cm. simpl. rewrite X. reflexivity. }
      simpl map. rewrite tg_coclauses_cons. unfold Fun2CoreTyGuard.tg_coclause.
      rewrite Hfv, list_eqb_str_refl. unfold compile_dtor at 1. simpl cxname. rewrite cid_eqb_new_id, Hx, En, String.eqb_refl.
      simpl cxargs. rewrite split_last_snoc. rewrite Ea. unfold cctx at 1. rewrite fparams_ok_zip by (rewrite inst_ctx_length; exact Hlen).
      simpl cbchi. simpl cbty. rewrite Er, (has_ty_of _ _ K2), (HtyF _ Hmb Hic).
      rewrite nodup_str_eq, Hnd, K1. simpl.
      apply (IH pcls' st1 ctx rest leftover st' G cr HFs' HFp' Hc Tb1 I1 Htd Hok); auto.
      + intros s0 Hs0. apply Hss. right. exact Hs0.
      + intros X. apply Hcm. unfold any_cls_cm in *. simpl. rewrite X. apply orb_true_r.
  Qed.

  Theorem check_term_gen_ptg : forall t, ptg_at t.
  Proof.
    intros t. induction t using fterm_ind'; unfold ptg_at;
      intros eager st ctx T t' st' G Hm Hc HT Tb I Hk GF HiT R CI Hcm; simpl in Hk; simpl in Hm.
    - (* FVar *)
      assert (Hx : exists found st1, lookup_var ctx v = COk found /\
                       match ty with Some t => check_equality st t found | None => COk st end = COk st1 /\
                       check_equality st1 T found = COk st' /\ t' = FVar v (Some T) (Some FPrd)).
      { destruct chi as [[|]|]; try discriminate;
          (apply cbind_ok in Hk; destruct Hk as [found [Hl Hk]];
           apply cbind_ok in Hk; destruct Hk as [st1 [H1 Hk]];
           apply cbind_ok in Hk; destruct Hk as [st2 [H2 Hk]]; inversion Hk; subst; eauto 10). }
      destruct Hx as [found [st1 [Hl [H1 [H2 ->]]]]].
      destruct (lookup_var_last _ _ _ Hl) as [b0 [Hb0 [Hb0c Hbt]]].
      destruct (lookup_var_E _ _ _ Hl) as [_ [b1 [Hb1 Hbt1]]].
      assert (Hmf : ty_names_ok found = true) by (subst found; rewrite <- Hbt1; apply (ctx_names_ok_in ctx); assumption).
      destruct (ann_check_psound ts fs W ty found st st1 Hm Hmf Tb I H1) as [_ [I1 [S1 G1]]].
      destruct (check_equality_sound ts fs W _ _ _ _ HT Hmf (tables_same _ _ _ _ Tb S1) I1 H2) as [Heq _].
      rewrite tg_var. pose proof (var_ok_rel _ _ _ _ R Hb0) as Hv. rewrite Hb0c, Hbt, <- Heq in Hv. simpl in Hv.
      rewrite Hv. auto.
    - (* FLit *)
      apply cbind_ok in Hk. destruct Hk as [st1 [H1 Hk]]. inversion Hk; subst.
      destruct (check_equality_sound ts fs W T FI64 _ _ HT eq_refl Tb I H1) as [Heq _]. subst T. auto.
    - (* FOp *)
      apply andb_true_iff in Hm. destruct Hm as [Hm1 Hm2].
      apply cbind_ok in Hk. destruct Hk as [st1 [H1 Hk]].
      apply cbind_ok in Hk. destruct Hk as [[a' st2] [H2 Hk]].
      apply cbind_ok in Hk. destruct Hk as [[b' st3] [H3 Hk]]. inversion Hk; subst.
      destruct (check_equality_sound ts fs W FI64 T _ _ eq_refl HT Tb I H1) as [Heq [_ [I1 [S1 [G1 _]]]]]. subst T.
      destruct (step_frame _ _ _ _ FI64 _ _ Hm1 Hc eq_refl (tables_same _ _ _ _ Tb S1) I1 H2) as [I2 [S2 [G2 Tb2]]].
      destruct (step_frame _ _ _ _ FI64 _ _ Hm2 Hc eq_refl Tb2 I2 H3) as [I3 [S3 [G3 Tb3]]].
      destruct (IHt1 eager st1 ctx FI64 a' st2 G Hm1 Hc eq_refl (tables_same _ _ _ _ Tb S1) I1 H2 ltac:(frame) Logic.I R CI ltac:(cm Hcm)) as [K1 [K2 _]].
      destruct (IHt2 eager st2 ctx FI64 b' st' G Hm2 Hc eq_refl Tb2 I2 H3 GF Logic.I R CI ltac:(cm Hcm)) as [K3 [K4 _]].
      rewrite tg_op, K1, K3. rewrite (has_ty_i64 _ K2), (has_ty_i64 _ K4). auto.
    - (* FIfC *)
      apply andb_true_iff in Hm. destruct Hm as [Hm Hm4]. apply andb_true_iff in Hm. destruct Hm as [Hm Hm3].
      apply andb_true_iff in Hm. destruct Hm as [Hm1 Hm2].
     
     
      apply cbind_ok in Hk. destruct Hk as [[a' st1] [H1 Hk]].
      apply cbind_ok in Hk. destruct Hk as [[b' st2] [H2 Hk]].
      apply cbind_ok in Hk. destruct Hk as [[th' st3] [H3 Hk]].
      apply cbind_ok in Hk. destruct Hk as [[el' st4] [H4 Hk]]. inversion Hk; subst.
      destruct (step_frame _ _ _ _ FI64 _ _ Hm1 Hc eq_refl Tb I H1) as [I1 [S1 [G1 Tb1]]].
      assert (Hb : pinv st2 /\ grows st1 st2 /\ tables ts fs st2 /\
                   (grows st2 stF -> (match b' with Some b1 => calls_main b1 | None => false end = true -> calls_main_prog q = true) ->
                    match b' with Some b1 => tg G b1 && has_ty b1 CI64 | None => true end = true)).
      { destruct b as [b0|].
        - apply cbind_ok in H2. destruct H2 as [[b1 sb] [H2 H2']]. inversion H2'; subst.
          destruct (step_frame _ _ _ _ FI64 _ _ Hm2 Hc eq_refl Tb1 I1 H2) as [I2 [S2 [G2 Tb2]]]. splits; auto.
          intros GF2 Hcm2.
          destruct (H b0 eq_refl eager st1 ctx FI64 b1 st2 G Hm2 Hc eq_refl Tb1 I1 H2 GF2 Logic.I R CI Hcm2) as [K1 [K2 _]].
          rewrite K1, (has_ty_i64 _ K2). reflexivity.
        - inversion H2; subst. splits; frame. }
      destruct Hb as [I2 [G2 [Tb2 Kb]]].
      destruct (step_frame _ _ _ _ _ _ _ Hm3 Hc HT Tb2 I2 H3) as [I3 [S3 [G3 Tb3]]].
      destruct (step_frame _ _ _ _ _ _ _ Hm4 Hc HT Tb3 I3 H4) as [I4 [S4 [G4 Tb4]]].
      destruct (IHt1 eager st ctx FI64 a' st1 G Hm1 Hc eq_refl Tb I H1 ltac:(frame) Logic.I R CI ltac:(cm Hcm)) as [K1 [K2 _]].
      destruct (IHt2 eager st2 ctx T th' st3 G Hm3 Hc HT Tb2 I2 H3 ltac:(frame) HiT R CI ltac:(cm Hcm)) as [K3 [K4 _]].
      destruct (IHt3 eager st3 ctx T el' st' G Hm4 Hc HT Tb3 I3 H4 GF HiT R CI ltac:(cm Hcm)) as [K5 [K6 _]].
      rewrite tg_ifc, K1, (has_ty_i64 _ K2), K3, K5, (same_ty_of _ _ K4), (same_ty_of _ _ K6).
      rewrite Kb; [auto|frame|]. destruct b' as [b1|]; [|discriminate]. cm Hcm.
    - (* FPrint *)
      apply andb_true_iff in Hm. destruct Hm as [Hm1 Hm2].
      apply cbind_ok in Hk. destruct Hk as [[a' st1] [H1 Hk]].
      apply cbind_ok in Hk. destruct Hk as [[n' st2] [H2 Hk]]. inversion Hk; subst.
      destruct (step_frame _ _ _ _ FI64 _ _ Hm1 Hc eq_refl Tb I H1) as [I1 [S1 [G1 Tb1]]].
      destruct (step_frame _ _ _ _ _ _ _ Hm2 Hc HT Tb1 I1 H2) as [I2 [S2 [G2 Tb2]]].
      destruct (IHt1 eager st ctx FI64 a' st1 G Hm1 Hc eq_refl Tb I H1 ltac:(frame) Logic.I R CI ltac:(cm Hcm)) as [K1 [K2 _]].
      destruct (IHt2 eager st1 ctx T n' st' G Hm2 Hc HT Tb1 I1 H2 GF HiT R CI ltac:(cm Hcm)) as [K3 [K4 _]].
      rewrite tg_print, K1, (has_ty_i64 _ K2), K3, (same_ty_of _ _ K4). auto.
    - (* FLet *)
      apply andb_true_iff in Hm. destruct Hm as [Hm Hm3]. apply andb_true_iff in Hm. destruct Hm as [Hm1 Hm2].
     
      apply cbind_ok in Hk. destruct Hk as [st1 [H1 Hk]].
      apply cbind_ok in Hk. destruct Hk as [[a' st2] [H2 Hk]].
      apply cbind_ok in Hk. destruct Hk as [[b' st3] [H3 Hk]]. inversion Hk; subst.
      destruct (ty_check_sound ts fs W _ _ _ Hm1 Tb I H1) as [_ [I1 [S1 [G1 Hi1]]]].
      pose proof (tables_same _ _ _ _ Tb S1) as Tb1.
      destruct (step_frame _ _ _ _ _ _ _ Hm2 Hc Hm1 Tb1 I1 H2) as [I2 [S2 [G2 Tb2]]].
      assert (Hc' : ctx_names_ok (ctx ++ [mkfb v FPrd vty]) = true).
      { apply ctx_names_ok_app; [assumption|]. unfold ctx_names_ok. simpl. rewrite Hm1. reflexivity. }
      destruct (step_frame _ _ _ _ _ _ _ Hm3 Hc' HT Tb2 I2 H3) as [I3 [S3 [G3 Tb3]]].
      assert (HiV : has_inst_p stF vty) by (eapply has_inst_grows; [|exact Hi1]; frame).
      destruct (IHt1 eager st1 ctx vty a' st2 G Hm2 Hc Hm1 Tb1 I1 H2 ltac:(frame) HiV R CI ltac:(cm Hcm)) as [K1 [K2 _]].
      destruct (IHt2 eager st2 _ T b' st' _ Hm3 Hc' HT Tb2 I2 H3 GF HiT (ctx_rel_snoc _ _ (mkfb v FPrd vty) R) (ctx_inst_snoc _ (mkfb v FPrd vty) CI HiV) ltac:(cm Hcm)) as [K3 [K4 _]].
      rewrite tg_let, K1, (has_ty_of _ _ K2), (HtyF _ Hm1 HiV). unfold compile_binding in K3. simpl in K3. rewrite K3, (same_ty_of _ _ K4). auto.
    - (* FCall *)
      rewrite terms_names_ok_eq in Hm.
      destruct (aget (st_defs st) f) as [[types ret]|] eqn:Ed; [|discriminate].
      rewrite (t_df _ _ _ Tb) in Ed. destruct (FunTyping.find_def fs f) as [d|] eqn:Ef; [|discriminate]. simpl in Ed. inversion Ed; subst.
      assert (Hdin : In d fs /\ fdname d = f).
      { pose proof Ef as Ef'. unfold FunTyping.find_def in Ef'; apply find_some in Ef'. destruct Ef' as [? Ef']. apply String.eqb_eq in Ef'. tauto. }
      destruct Hdin as [Hdin Hdn].
      destruct (PW_defs _ _ W d Hdin) as [Hmd Hmr].
      apply cbind_ok in Hk. destruct Hk as [st1 [H1 Hk]].
      apply cbind_ok in Hk. destruct Hk as [[args' st2] [H2 Hk]]. inversion Hk; subst.
      destruct (check_equality_sound ts fs W _ _ _ _ HT Hmr Tb I H1) as [Heq [_ [I1 [S1 [G1 Hi1]]]]].
      destruct (HdefF _ d Ef) as [d' [Hfd [Hcx Hrt]]].
      assert (K : tg_args G args' (compile_ctx (fdctx d)) = true).
      { eapply (check_args_ptg args H eager (fdctx d) st1 ctx args' st' G); eauto using tables_same.
        intros X. apply Hcm. simpl. rewrite any_calls_main_eq. rewrite X. apply orb_true_r. }
      rewrite tg_call, Hfd, Hcx, Hrt, K, <- Heq. simpl.
      assert (Hmain : negb (String.eqb (fdname d) "main") || calls_main_prog q = true).
      { destruct (String.eqb (fdname d) "main") eqn:Em; [|reflexivity]. simpl. apply Hcm. simpl. rewrite Em. reflexivity. }
      rewrite Hmain. simpl. rewrite (HtyF _ HT HiT). rewrite (proj2 (cty_eqb_eq _ _) eq_refl). auto.
    - (* FCtor *)
      apply andb_true_iff in Hm. destruct Hm as [Nx Hm]. rewrite terms_names_ok_eq in Hm.
      apply cbind_ok in Hk. destruct Hk as [st0 [H0 Hk]].
      destruct (eager_pstep ts fs W _ _ _ _ HT Tb I H0) as [I0 [S0 G0]].
      pose proof (tables_same _ _ _ _ Tb S0) as Tb0.
      destruct T as [|n targs]; [discriminate|].
      pose proof HT as HT'. rewrite ty_names_ok_decl in HT'. apply andb_true_iff in HT'. destruct HT' as [Nn Nt].
      destruct (aget (st_ctors st0) (x ++ print_targs targs)%string) as [types|] eqn:Ec; [|discriminate].
      destruct (lookup_ty_for_xtor FData st0 (x ++ print_targs targs)%string) as [[ty xs]|] eqn:El; [|discriminate].
      apply cbind_ok in Hk. destruct Hk as [[args' st1] [H1 Hk]].
      apply cbind_ok in Hk. destruct Hk as [st2 [H2 Hk]]. inversion Hk; subst.
      destruct (ctor_instance_sound ts fs W _ _ _ _ I0 Nx Nt Ec) as [td [s [Htd [Hp [Hs [Hsn [Hok ->]]]]]]].
      destruct (lookup_ty_for_xtor_sound ts fs W _ _ _ _ _ _ I0 Nx Nt El) as [td2 [Htd2 [Hp2 [-> [-> [Hx2 _]]]]]].
      assert (td2 = td).
      { eapply (owner_of_names ts fs W); [exact Htd2|exact Htd|congruence|exact Hx2|]. rewrite <- Hsn. apply in_map. assumption. }
      subst td2.
      destruct (PW_sigs _ _ W td s Htd Hs) as [Nsg _].
      assert (Nty : ctx_names_ok (inst_ctx (td_params td) targs (xs_args s)) = true) by (apply inst_ctx_names_ok; assumption).
      destruct (check_args_psound ts fs W args (all_psound args) eager _ _ _ _ _ _ _ Hm Hc Nsg Nt Tb0 I0 H1) as [_ [I1 [S1 [G1 _]]]].
      assert (S01 : same_templates st st1) by frame.
      assert (Nty2 : ty_names_ok (FDecl (td_name td) targs) = true).
      { rewrite ty_names_ok_decl, (PW_tnames _ _ W td Htd). exact Nt. }
      destruct (check_equality_sound ts fs W _ _ _ _ HT Nty2 (tables_same _ _ _ _ Tb S01) I1 H2) as [Heq [_ [I2 [S2 [G2 _]]]]].
      inversion Heq; subst n.
      destruct (HdataF td targs Htd Hp Hok HiT) as [cs [Hfd HR]].
      destruct (find_ctor_sig td targs x s _ cs HR) as [c [Hfc [En [Ea Ei]]]].
      { rewrite <- Hsn. exact (find_xsig_of_in ts fs W td s Htd Hs). }
      assert (K : tg_args G args' (compile_ctx (inst_ctx (td_params td) targs (xs_args s))) = true).
      { apply (check_args_ptg args H eager _ st0 ctx args' st1 G Hm Hc Nty Tb0 I0 H1); [frame|exact R|exact CI|].
        intros X. apply Hcm. simpl. rewrite any_calls_main_eq. exact X. }
      rewrite tg_ctor. unfold tyo. cbn [fterm_type option_map]. rewrite compile_ty_decl, Hfd.
      unfold find_cxtor. cbn [ctxtors]. rewrite Hfc. unfold compile_ctor. cbn [cxargs]. rewrite Ea, K. auto.
    - (* FDtor *)
      apply andb_true_iff in Hm. destruct Hm as [Hm Hm3]. apply andb_true_iff in Hm. destruct Hm as [Hm Hm2].
      apply andb_true_iff in Hm. destruct Hm as [Nx Nt].
      rewrite terms_names_ok_eq in Hm3.
      apply cbind_ok in Hk. destruct Hk as [[[ty xs] st1] [H1 Hk]].
      apply cbind_ok in Hk. destruct Hk as [[s' st2] [H2 Hk]].
      destruct (lookup_or_template_psound ts fs W _ _ _ _ _ _ _ Tb I Nx Nt H1) as [td [Htd [Hp [-> [-> [Hx [Hok [I1 [S1 [G1 Hi1]]]]]]]]]].
      assert (Nty : ty_names_ok (FDecl (td_name td) targs) = true).
      { rewrite ty_names_ok_decl, (PW_tnames _ _ W td Htd). exact Nt. }
      pose proof (tables_same _ _ _ _ Tb S1) as Tb1.
      destruct (step_frame _ _ _ _ _ _ _ Hm2 Hc Nty Tb1 I1 H2) as [I2 [S2 [G2 Tb2]]].
      destruct (aget (st_dtors st2) (x ++ print_targs targs)%string) as [[types ret]|] eqn:Ed; [|discriminate].
      apply cbind_ok in Hk. destruct Hk as [[args' st3] [H3 Hk]].
      apply cbind_ok in Hk. destruct Hk as [st4 [H4 Hk]]. inversion Hk; subst.
      destruct (dtor_instance_sound ts fs W _ _ _ _ _ I2 Nx Nt Ed) as [td' [s [r0 [Htd' [Hp' [Hs [Hsn [_ [Hret [-> ->]]]]]]]]]].
      assert (td' = td).
      { eapply (owner_of_names ts fs W); [exact Htd'|exact Htd|congruence| |exact Hx]. rewrite <- Hsn. apply in_map. assumption. }
      subst td'.
      destruct (PW_sigs _ _ W td s Htd Hs) as [Nsg Nret]. rewrite Hret in Nret. simpl in Nret.
      assert (Nsg' : ctx_names_ok (inst_ctx (td_params td) targs (xs_args s)) = true) by (apply inst_ctx_names_ok; assumption).
      destruct (check_args_psound ts fs W args (all_psound args) eager _ _ _ _ _ _ _ Hm3 Hc Nsg Nt Tb2 I2 H3) as [_ [I3 [S3 [G3 _]]]].
      assert (Nr : ty_names_ok (inst (td_params td) targs r0) = true) by (apply inst_names_ok; assumption).
      destruct (check_equality_sound ts fs W _ _ _ _ HT Nr (tables_same _ _ _ _ Tb2 S3) I3 H4) as [Heq [_ [I4 [S4 [G4 _]]]]].
      assert (HiS : has_inst_p stF (FDecl (td_name td) targs)) by (eapply has_inst_grows; [|exact Hi1]; frame).
      destruct (IHt eager st1 ctx _ s' st2 G Hm2 Hc Nty Tb1 I1 H2 ltac:(frame) HiS R CI ltac:(cm Hcm)) as [K1 [K2 _]].
      destruct (HcodataF td targs Htd Hp Hok HiS) as [ds [Hfd HR]].
      destruct (find_dtor_sig td targs x s _ ds HR) as [c [Hfc [En [Ea [[r1 [Hr1 Er]] [Ei Hic]]]]]].
      { rewrite <- Hsn. exact (find_xsig_of_in ts fs W td s Htd Hs). }
      rewrite Hret in Hr1. inversion Hr1; subst r1. clear Hr1.
      assert (K : tg_args G args' (compile_ctx (inst_ctx (td_params td) targs (xs_args s))) = true).
      { apply (check_args_ptg args H eager _ st2 ctx args' st3 G Hm3 Hc Nsg' Tb2 I2 H3); [frame|exact R|exact CI|].
        intros X. apply Hcm. simpl. rewrite any_calls_main_eq. rewrite X. apply orb_true_r. }
      rewrite tg_dtor, K1. unfold tyo at 1. rewrite K2. cbn [option_map]. rewrite compile_ty_decl, Hfd.
      unfold find_cxtor. cbn [ctxtors]. rewrite Hfc. unfold compile_dtor. cbn [cxargs]. rewrite split_last_snoc, Ea, K.
      cbn [cbchi cbty]. rewrite Er, <- Heq. rewrite (has_ty_of (FDtor s' x targs args' (Some T)) T eq_refl). auto.
    - (* FCase *)
      apply andb_true_iff in Hm. destruct Hm as [Hm Hm3]. apply andb_true_iff in Hm. destruct Hm as [Nt Hm2].
      rewrite clauses_names_ok_eq in Hm3.
      destruct cls as [|[p0 x0 ns0 c0 b0] clr]; [discriminate|].
      assert (Nx : name_ok x0 = true).
      { simpl in Hm3. apply andb_true_iff in Hm3. destruct Hm3 as [Hm3 _]. unfold clause_names_ok in Hm3.
        apply andb_true_iff in Hm3. tauto. }
      apply cbind_ok in Hk. destruct Hk as [[[ty xs] st1] [H1 Hk]].
      apply cbind_ok in Hk. destruct Hk as [[s' st2] [H2 Hk]].
      apply cbind_ok in Hk. destruct Hk as [[[cls' leftover] st3] [H3 Hk]].
      destruct leftover; [|discriminate]. inversion Hk; subst.
      destruct (lookup_or_template_psound ts fs W _ _ _ _ _ _ _ Tb I Nx Nt H1) as [td [Htd [Hp [-> [-> [Hx [Hok [I1 [S1 [G1 Hi1]]]]]]]]]].
      assert (Nty : ty_names_ok (FDecl (td_name td) targs) = true).
      { rewrite ty_names_ok_decl, (PW_tnames _ _ W td Htd). exact Nt. }
      pose proof (tables_same _ _ _ _ Tb S1) as Tb1.
      destruct (step_frame _ _ _ _ _ _ _ Hm2 Hc Nty Tb1 I1 H2) as [I2 [S2 [G2 Tb2]]].
      destruct (clauses_psound_result ts fs W eager true T td targs _ st2 ctx cls' st'
                  (all_psound_cls _) Hm3 Hc Tb2 I2 Htd Hok Hp (fun _ => HT) H3)
        as [_ [_ [I3 [S3 [G3 _]]]]].
      assert (HiS : has_inst_p stF (FDecl (td_name td) targs)) by (eapply has_inst_grows; [|exact Hi1]; frame).
      destruct (IHt eager st1 ctx _ s' st2 G Hm2 Hc Nty Tb1 I1 H2 ltac:(frame) HiS R CI ltac:(cm Hcm)) as [K1 [K2 _]].
      destruct (HdataF td targs Htd Hp Hok HiS) as [cs [Hfd HR]].
      assert (K : tg_clauses G (Some T) cls' (map compile_ctor cs) = true).
      { apply (check_clauses_case_ptg T td targs (td_xtors td) (prep_clauses (check_term_gen eager) (FClause p0 x0 ns0 c0 b0 :: clr))
                 st2 ctx cls' [] st' G cs
                 (prep_clauses_psound ts fs eager _ (all_psound_cls _) Hm3) (prep_clauses_ptg eager _ H Hm3)
                 Hc Tb2 I2 Htd Hok (fun s Hs => Hs) Hp HT HiT H3 GF R CI); [|exact HR].
        intros X. apply Hcm. simpl. rewrite any_cls_cm_eq. rewrite X. apply orb_true_r. }
      rewrite tg_case, K1. unfold tyo. rewrite K2. cbn [option_map]. rewrite compile_ty_decl, Hfd. cbn [ctxtors]. rewrite K. auto.
    - (* FNew *)
      rewrite clauses_names_ok_eq in Hm.
      apply cbind_ok in Hk. destruct Hk as [st0 [H0 Hk]].
      destruct (eager_pstep ts fs W _ _ _ _ HT Tb I H0) as [I0 [S0 G0]].
      pose proof (tables_same _ _ _ _ Tb S0) as Tb0.
      destruct T as [|n targs]; [discriminate|].
      pose proof HT as HT'. rewrite ty_names_ok_decl in HT'. apply andb_true_iff in HT'. destruct HT' as [Nn Nt].
      destruct (aget (st_types st0) (n ++ print_targs targs)%string) as [[[pol targs'] dtors]|] eqn:Eg; [|discriminate].
      destruct pol; [discriminate|].
      apply cbind_ok in Hk. destruct Hk as [[[cls' leftover] st1] [H1 Hk]].
      destruct leftover; [|discriminate]. inversion Hk; subst.
      destruct (pi_types _ _ I0 _ _ _ _ Eg) as [td [Htd [Ek [Hp [-> Hok]]]]].
      destruct (instance_name_inj _ _ _ _ (name_ok_no_delim _ Nn) (name_ok_no_delim _ (PW_tnames _ _ W td Htd))
                  Nt (targs_ok_names ts fs W _ _ Hok) Ek) as [-> <-].
      destruct (HcodataF td targs Htd Hp Hok HiT) as [ds [Hfd HR]].
      assert (K : tg_coclauses G cls' (map compile_dtor ds) = true).
      { apply (check_clauses_new_ptg (FDecl (td_name td) targs) td targs (td_xtors td) (prep_clauses (check_term_gen eager) cls)
                 st0 ctx cls' [] st' G ds
                 (prep_clauses_psound ts fs eager _ (all_psound_cls _) Hm) (prep_clauses_ptg eager _ H Hm)
                 Hc Tb0 I0 Htd Hok (fun s Hs => Hs) Hp H1 GF R CI); [|exact HR].
        intros X. apply Hcm. simpl. rewrite any_cls_cm_eq. exact X. }
      rewrite tg_new. unfold tyo. cbn [fterm_type option_map]. rewrite compile_ty_decl, Hfd. cbn [ctxtors]. rewrite K. auto.
    - (* FLabel *)
      apply cbind_ok in Hk. destruct Hk as [[u' st1] [H1 Hk]]. inversion Hk; subst.
      assert (Hc' : ctx_names_ok (ctx ++ [mkfb l FCns T]) = true).
      { apply ctx_names_ok_app; [assumption|]. unfold ctx_names_ok. simpl. rewrite HT. reflexivity. }
      destruct (IHt eager st _ T u' st' _ Hm Hc' HT Tb I H1 GF HiT (ctx_rel_snoc _ _ (mkfb l FCns T) R) (ctx_inst_snoc _ (mkfb l FCns T) CI HiT) ltac:(cm Hcm)) as [K1 [K2 _]].
      rewrite tg_label. unfold compile_binding in K1. simpl in K1. rewrite K1, (HtyF _ HT HiT), (has_ty_of _ _ K2). auto.
    - (* FGoto *)
      apply cbind_ok in Hk. destruct Hk as [cont [Hl Hk]].
      apply cbind_ok in Hk. destruct Hk as [[u' st1] [H1 Hk]]. inversion Hk; subst.
      destruct (lookup_covar_last _ _ _ Hl) as [b0 [Hb0 [Hb0c Hbt]]].
      destruct (lookup_covar_E _ _ _ Hl) as [_ [b1 [Hb1 Hbt1]]].
      assert (Hmf : ty_names_ok cont = true) by (subst cont; rewrite <- Hbt1; apply (ctx_names_ok_in ctx); assumption).
      assert (HiC : has_inst_p stF cont) by (rewrite <- Hbt1; apply CI; exact Hb1).
      destruct (IHt eager st ctx cont u' st' G Hm Hc Hmf Tb I H1 GF HiC R CI ltac:(cm Hcm)) as [K1 [K2 _]].
      rewrite tg_goto, K1, K2. pose proof (var_ok_rel _ _ _ _ R Hb0) as Hv. rewrite Hb0c, Hbt in Hv. simpl in Hv. rewrite Hv.
      simpl. rewrite (HtyF _ Hmf HiC). auto.
    - (* FExit *)
      apply cbind_ok in Hk. destruct Hk as [[a' st1] [H1 Hk]]. inversion Hk; subst.
      destruct (IHt eager st ctx FI64 a' st' G Hm Hc eq_refl Tb I H1 GF Logic.I R CI ltac:(cm Hcm)) as [K1 [K2 _]].
      rewrite tg_exit, K1, (has_ty_i64 _ K2). simpl. rewrite (HtyF _ HT HiT). auto.
    - (* FParen *)
      apply cbind_ok in Hk. destruct Hk as [[u' st1] [H1 Hk]]. inversion Hk; subst.
      destruct (IHt eager st ctx T u' st' G Hm Hc HT Tb I H1 GF HiT R CI ltac:(cm Hcm)) as [K1 [K2 K3]].
      rewrite tg_paren. simpl. auto.
  Qed.
End Tg.
