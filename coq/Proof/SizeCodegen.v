(* C19, code generation (generic code generator Model/Backend.v, any back end): the number of emitted
   instructions is linear in  size x (1 + maximal context length).
   The back end is abstract; its operations have abstract costs (Section hypotheses):
     - every single back-end operation (jump, move, arithmetic, label load, erase, share, ...) emits
       at most K instructions;
     - store / load of a block emit at most K * (1 + number of fields);
     - print emits at most K * (1 + context length) (caller-saved registers);
     - the parallel-move code of one Substitute (`code_exchange`) emits at most
       K * (1 + old context length + new context length).
   From these, [codegen_size_exact] bounds the code of a statement by K * cg_bound s n, where cg_bound
   follows the recursion of code_statement with the exact context lengths, and [cg_bound_poly] bounds
   cg_bound by  size * (5 + 2 * maximal context length). *)
From Coq Require Import String List ZArith NArith Bool Lia.
From SCC Require Import Base.Sexp Lang.AxSyn Lang.AxSize Model.ParMoves Model.Backend Proof.LinBasics Proof.SizeLin.
Import ListNotations.
Open Scope list_scope.
Open Scope N_scope.
Local Arguments N.add : simpl never.
Local Arguments N.mul : simpl never.
Local Arguments N.sub : simpl never.
Local Arguments N.of_nat : simpl never.
Local Arguments len : simpl never.

Lemma cg_bound_switch : forall v t cls n, cg_bound (Switch v t cls) n = 1 + (4 + len cls + cg_bound_sw n cls).
Proof. intros; simpl; do 2 f_equal; induction cls as [|[[x cc] b] r IH]; simpl; auto; rewrite IH; auto. Qed.
Lemma cg_bound_create : forall v t env cls next n,
  cg_bound (Create v t env cls next) n =
  1 + ((1 + env_len env) + 1 + cg_bound next (n - env_len env + 1) + 1 + len cls + cg_bound_cr (env_len env) cls).
Proof. intros; simpl; do 2 f_equal; induction cls as [|[[x cc] b] r IH]; simpl; auto; rewrite IH; auto. Qed.

Lemma ax_maxw_switch : forall v t cls n, ax_maxw (Switch v t cls) n = N.max n (ax_maxw_sw n cls).
Proof. intros; simpl; f_equal; induction cls as [|[[x cc] b] r IH]; simpl; auto; rewrite IH; auto. Qed.
Lemma ax_maxw_create : forall v t env cls next n,
  ax_maxw (Create v t env cls next) n =
  N.max n (N.max (N.max (env_len env) (ax_maxw next (n - env_len env + 1))) (ax_maxw_cr (env_len env) cls)).
Proof. intros; simpl; do 2 f_equal; induction cls as [|[[x cc] b] r IH]; simpl; auto; rewrite IH; auto. Qed.

(* ---------- cg_bound is size x (5 + 2 * maxw) ---------- *)
Ltac lens := repeat (progress (rewrite ?len_cons, ?len_app)); repeat match goal with |- context [@len ?X []] => change (@len X []) with 0 end.
Ltac lnil := repeat match goal with |- context [@len ?X []] => change (@len X []) with 0 end.

Definition cg_unit (M : N) : N := 5 + 2 * M.
Lemma cg_unit_mono : forall n a b, a <= b -> n * cg_unit a <= n * cg_unit b.
Proof. intros. apply N.mul_le_mono_l. unfold cg_unit. lia. Qed.

Ltac mono W' W n :=
  let H := fresh "HM" in
  assert (H : n * cg_unit W' <= n * cg_unit W) by (apply cg_unit_mono; lia).

Lemma cg_poly_sw : forall n (cls : list (ident * ctx * stmt)),
  Forall (fun c => forall n, cg_bound (cl_body c) n <= ax_size (cl_body c) * cg_unit (ax_maxw (cl_body c) n)) cls ->
  cg_bound_sw n cls + len cls <= ax_size_cls cls * cg_unit (ax_maxw_sw n cls).
Proof.
  induction cls as [|[[x cx] b] r IH]; intros HF; simpl.
  - lnil. lia.
  - inversion HF as [|? ? Hb HF']; subst. specialize (IH HF'). unfold cl_body in Hb; simpl in Hb.
    specialize (Hb (n - 1 + len cx)). rewrite len_cons.
    set (M := N.max (ax_maxw b (n - 1 + len cx)) (ax_maxw_sw n r)).
    mono (ax_maxw b (n - 1 + len cx)) M (ax_size b).
    mono (ax_maxw_sw n r) M (ax_size_cls r).
    assert (HW : len cx <= ax_maxw b (n - 1 + len cx)) by (destruct b; simpl; lia).
    assert (len cx <= M) by lia.
    rewrite !N.mul_add_distr_r. unfold cg_unit at 1 2.
    assert (len cx * (5 + 2 * M) >= len cx) by nia.
    lia.
Qed.

Lemma cg_poly_cr : forall e (cls : list (ident * ctx * stmt)),
  Forall (fun c => forall n, cg_bound (cl_body c) n <= ax_size (cl_body c) * cg_unit (ax_maxw (cl_body c) n)) cls ->
  cg_bound_cr e cls + len cls <= ax_size_cls cls * cg_unit (N.max e (ax_maxw_cr e cls)).
Proof.
  induction cls as [|[[x cx] b] r IH]; intros HF; simpl.
  - lnil. lia.
  - inversion HF as [|? ? Hb HF']; subst. specialize (IH HF'). unfold cl_body in Hb; simpl in Hb.
    specialize (Hb (len cx + e)). rewrite len_cons.
    set (M := N.max e (N.max (ax_maxw b (len cx + e)) (ax_maxw_cr e r))).
    mono (ax_maxw b (len cx + e)) M (ax_size b).
    mono (N.max e (ax_maxw_cr e r)) M (ax_size_cls r).
    rewrite !N.mul_add_distr_r. unfold cg_unit at 1 2.
    assert (len cx * (5 + 2 * M) >= 0) by lia.
    assert (e <= M) by lia.
    lia.
Qed.

Theorem cg_bound_poly : forall s w, cg_bound s w <= ax_size s * cg_unit (ax_maxw s w).
Proof.
  induction s using stmt_ind2; intros w.
  - (* Substitute *)
    cbn [cg_bound ax_size ax_maxw]. specialize (IHs (len re)).
    set (M := N.max w (ax_maxw s (len re))).
    mono (ax_maxw s (len re)) M (ax_size s).
    assert (len re <= ax_maxw s (len re)) by (destruct s; simpl; lia).
    rewrite !N.mul_add_distr_r. unfold cg_unit at 1 2.
    assert (len re * (5 + 2 * M) >= len re) by nia. lia.
  - cbn [cg_bound ax_size ax_maxw]. unfold cg_unit. nia.
  - (* Let *)
    cbn [cg_bound ax_size ax_maxw]. specialize (IHs (w - len args + 1)).
    set (M := N.max w (ax_maxw s (w - len args + 1))).
    mono (ax_maxw s (w - len args + 1)) M (ax_size s).
    rewrite !N.mul_add_distr_r. unfold cg_unit at 1 2.
    assert (len args * (5 + 2 * M) >= len args) by nia. lia.
  - (* Switch *)
    rewrite cg_bound_switch, ax_size_switch, ax_maxw_switch.
    pose proof (cg_poly_sw w cls H) as HC.
    mono (ax_maxw_sw w cls) (N.max w (ax_maxw_sw w cls)) (ax_size_cls cls).
    rewrite !N.mul_add_distr_r. unfold cg_unit at 1. lia.
  - (* Create *)
    rewrite cg_bound_create, ax_size_create, ax_maxw_create.
    pose proof (cg_poly_cr (env_len env) cls H) as HC. specialize (IHs (w - env_len env + 1)).
    fold (env_len env).
    set (M := N.max w (N.max (N.max (env_len env) (ax_maxw s (w - env_len env + 1))) (ax_maxw_cr (env_len env) cls))).
    mono (N.max (env_len env) (ax_maxw_cr (env_len env) cls)) M (ax_size_cls cls).
    mono (ax_maxw s (w - env_len env + 1)) M (ax_size s).
    rewrite !N.mul_add_distr_r. unfold cg_unit at 1 2.
    assert (env_len env * (5 + 2 * M) >= env_len env) by nia. lia.
  - cbn [cg_bound ax_size ax_maxw]. unfold cg_unit. nia.
  - cbn [cg_bound ax_size ax_maxw]. specialize (IHs (w + 1)).
    mono (ax_maxw s (w + 1)) (N.max w (ax_maxw s (w + 1))) (ax_size s).
    rewrite !N.mul_add_distr_r. unfold cg_unit at 1. lia.
  - cbn [cg_bound ax_size ax_maxw]. specialize (IHs (w + 1)).
    mono (ax_maxw s (w + 1)) (N.max w (ax_maxw s (w + 1))) (ax_size s).
    rewrite !N.mul_add_distr_r. unfold cg_unit at 1. lia.
  - cbn [cg_bound ax_size ax_maxw]. specialize (IHs w).
    mono (ax_maxw s w) (N.max w (ax_maxw s w)) (ax_size s).
    rewrite !N.mul_add_distr_r. unfold cg_unit at 1. lia.
  - cbn [cg_bound ax_size ax_maxw]. specialize (IHs1 w). specialize (IHs2 w).
    set (M := N.max w (N.max (ax_maxw s1 w) (ax_maxw s2 w))).
    mono (ax_maxw s1 w) M (ax_size s1). mono (ax_maxw s2 w) M (ax_size s2).
    rewrite !N.mul_add_distr_r. unfold cg_unit at 1. lia.
  - cbn [cg_bound ax_size ax_maxw]. unfold cg_unit. lia.
Qed.

(* ---------- the generated code obeys the recursive bound ---------- *)
Section Cost.
Context {Code Temp : Type} (B : backend Code Temp).
Variable K : N.
Hypothesis K1 : 1 <= K.
Hypothesis c_mark : forall c, len (b_mark B c) <= K.
Hypothesis c_jump : forall t, len (b_jump B t) <= K.
Hypothesis c_jump_label : forall l, len (b_jump_label B l) <= K.
Hypothesis c_jump_label_fixed : forall l, len (b_jump_label_fixed B l) <= K.
Hypothesis c_jcc2 : forall so a b l, len (b_jcc2 B so a b l) <= K.
Hypothesis c_jcc1 : forall so a l, len (b_jcc1 B so a l) <= K.
Hypothesis c_load_immediate : forall t z, len (b_load_immediate B t z) <= K.
Hypothesis c_load_label : forall t l, len (b_load_label B t l) <= K.
Hypothesis c_add_and_jump : forall t z, len (b_add_and_jump B t z) <= K.
Hypothesis c_arith : forall o a b c, len (b_arith B o a b c) <= K.
Hypothesis c_mov : forall a b, len (b_mov B a b) <= K.
Hypothesis c_print : forall nl t c, len (b_print B nl t c) <= K * (1 + len c).
Hypothesis c_erase : forall t lc, len (fst (b_erase B t lc)) <= K.
Hypothesis c_share : forall t n lc, len (fst (b_share_n B t n lc)) <= K.
Hypothesis c_store : forall a r lc code lc', b_store B a r lc = Ok (code, lc') -> len code <= K * (1 + len a).
Hypothesis c_load : forall a r lc code lc', b_load B a r lc = Ok (code, lc') -> len code <= K * (1 + len a).
(* the parallel moves of one Substitute: linear in the two context lengths *)
Hypothesis c_exchange : forall tm c nc code, code_exchange B tm c nc = Ok code -> len code <= K * (1 + len c + len nc).

Lemma map_insert_len : forall {Kt V} (cmp : Kt -> Kt -> comparison) k (v : V) m, len (map_insert cmp k v m) <= 1 + len m.
Proof.
  induction m as [|[k' v'] r IH]; simpl.
  - rewrite !len_cons, len_nil. lia.
  - destruct (cmp k k'); rewrite !len_cons in *; lia.
Qed.
Lemma transpose_len : forall re c, len (transpose re c) <= len c.
Proof.
  intros re c. unfold transpose.
  assert (G : forall m, len (fold_left (fun m b => map_insert binding_compare b
      (map (fun p => idn (bvar (fst p))) (filter (fun p => N.eqb (idn (bvar b)) (idn (snd p))) re)) m) c m) <= len c + len m).
  { induction c as [|b r IH]; intros m; simpl; [lnil; lia|].
    specialize (IH (map_insert binding_compare b (map (fun p => idn (bvar (fst p))) (filter (fun p => N.eqb (idn (bvar b)) (idn (snd p))) re)) m)).
    pose proof (map_insert_len binding_compare b (map (fun p => idn (bvar (fst p))) (filter (fun p => N.eqb (idn (bvar b)) (idn (snd p))) re)) m).
    rewrite len_cons. lia. }
  specialize (G []). rewrite len_nil in G. lia.
Qed.

Lemma urc_len : forall v c k lc c1 lc1, update_reference_count B v c k lc = Ok (c1, lc1) -> len c1 <= K.
Proof.
  intros v c k lc c1 lc1 E. unfold update_reference_count in E.
  destruct (variable_temporary B Fst c (idn v)) as [t|]; [|discriminate]. cbn [rbind] in E.
  destruct k as [|[|k]]; inversion E as [E'].
  - pose proof (c_erase t lc) as Hs. rewrite E' in Hs. exact Hs.
  - lnil; lia.
  - pose proof (c_share t (N.of_nat (S k)) lc) as Hs. rewrite E' in Hs. exact Hs.
Qed.

Lemma cwc_len : forall tm c lc code lc',
  code_weakening_contraction B tm c lc = Ok (code, lc') -> len code <= K * len tm.
Proof.
  induction tm as [|[b targets] r IH]; intros c lc code lc' H; simpl in H.
  - inversion H; subst. lnil. lia.
  - rewrite len_cons. destruct (bchi b).
    + destruct (update_reference_count B (bvar b) c (List.length targets) lc) as [[c1 lc1]|] eqn:E; [|discriminate]. cbn [rbind] in H.
      destruct (code_weakening_contraction B r c lc1) as [[c2 lc2]|] eqn:E2; [|discriminate]. cbn [rbind] in H.
      inversion H; subst. apply IH in E2. rewrite len_app.
      apply urc_len in E.
      lia.
    + destruct (update_reference_count B (bvar b) c (List.length targets) lc) as [[c1 lc1]|] eqn:E; [|discriminate]. cbn [rbind] in H.
      destruct (code_weakening_contraction B r c lc1) as [[c2 lc2]|] eqn:E2; [|discriminate]. cbn [rbind] in H.
      inversion H; subst. apply IH in E2. rewrite len_app.
      apply urc_len in E.
      lia.
    + apply IH in H. lia.
Qed.

Lemma code_table_len : forall (cls : list (ident * ctx * stmt)) base, len (code_table B cls base) <= K * len cls.
Proof.
  induction cls as [|c r IH]; intros base; unfold code_table in *; cbn [flat_map].
  - lnil. lia.
  - rewrite len_app, len_cons. specialize (IH base). pose proof (c_jump_label_fixed (base +++ "_" +++ show_ident (cl_xtor c))). lia.
Qed.

Lemma split_last_len : forall n c a b, split_last n c = Ok (a, b) -> len a = len c - N.of_nat n /\ len b = N.of_nat n.
Proof.
  intros n c a b H. unfold split_last in H. destruct (Nat.leb n (List.length c)) eqn:E; [|discriminate].
  apply Nat.leb_le in E. inversion H; subst. unfold len. rewrite firstn_length, skipn_length. lia.
Qed.
Lemma removelast_len : forall {X} (l : list X), len (removelast l) = len l - 1.
Proof.
  intros X l. unfold len. destruct l as [|x l]; [reflexivity|].
  assert (x :: l <> []) by discriminate. pose proof (app_removelast_last x H) as E.
  assert (List.length (x :: l) = S (List.length (removelast (x :: l)))) by (rewrite E at 1; rewrite app_length; simpl; lia).
  lia.
Qed.

Ltac bind H :=
  match type of H with
  | rbind ?e _ = Ok _ => let E := fresh "E" in destruct e eqn:E; [cbn [rbind] in H | discriminate H]
  end.

Theorem codegen_size_exact : forall types s c lc code lc',
  code_statement B types s c lc = Ok (code, lc') -> len code <= K * cg_bound s (len c).
Proof.
  intros types s; induction s using stmt_ind2; intros c lc code lc' HC.
  - (* Substitute *)
    cbn [code_statement] in HC. bind HC. destruct x as [body lcb]. cbn [fst snd] in HC. inversion HC; subst; clear HC.
    bind E. destruct x as [c1 lc1]. bind E. rename x into c2. bind E. destruct x as [c3 lc3]. inversion E; subst; clear E.
    apply cwc_len in E0. pose proof (transpose_len re c). apply c_exchange in E1. apply IHs in E2.
    rewrite len_map in *. lens. cbn [cg_bound]. pose proof (c_mark c).
    assert (K * len (transpose re c) <= K * len c) by (apply N.mul_le_mono_l; auto).
    rewrite !N.mul_add_distr_l in *. lia.
  - (* Call *)
    cbn [code_statement] in HC. cbn [rbind fst snd] in HC. inversion HC; subst. lens. cbn [cg_bound].
    pose proof (c_mark c). pose proof (c_jump_label (show_ident l +++ "_")). lia.
  - (* Let *)
    cbn [code_statement] in HC. bind HC. destruct x as [body lcb]. cbn [fst snd] in HC. inversion HC; subst; clear HC.
    bind E. bind E. bind E. destruct x1 as [rest arguments]. bind E. destruct x1 as [c1 lc1]. bind E. bind E. destruct x2 as [c3 lc3].
    inversion E; subst; clear E.
    apply split_last_len in E2 as [L1 L2]. apply c_store in E3. apply IHs in E5.
    rewrite len_app, len_cons, len_nil, L1 in E5. fold (len args) in *. rewrite L2 in E3.
    lens. cbn [cg_bound]. pose proof (c_mark c). pose proof (c_load_immediate x1 (b_jump_length B x0)).
    replace (len c - len args + (1 + 0)) with (len c - len args + 1) in E5 by lia.
    rewrite !N.mul_add_distr_l in *. lia.
  - (* Switch *)
    rewrite cg_bound_switch.
    cbn [code_statement] in HC. bind HC. destruct x as [body lcb]. cbn [fst snd] in HC. inversion HC; subst; clear HC.
    bind E. rename x into c1. bind E. destruct x as [c3 lc3]. inversion E; subst; clear E.
    assert (L1 : len c1 <= K * 3).
    { match type of E0 with (if ?b then _ else _) = _ => destruct b end; [inversion E0; subst; lnil; lia|].
      bind E0. inversion E0; subst. lens.
      pose proof (c_load_label (b_temp B) (type_label t (lc + 1))). pose proof (c_arith Sum (b_temp B) (b_temp B) x). pose proof (c_jump (b_temp B)). lia. }
    assert (L2 : len (if Nat.leb (List.length cls) 1 then [] else code_table B cls (type_label t (lc + 1))) <= K * len cls).
    { match goal with |- context [if ?b then _ else _] => destruct b end; [lnil; lia|apply code_table_len]. }
    assert (L3 : len c3 <= K * cg_bound_sw (len c) cls).
    { clear E0 L1 L2.
      match type of E1 with ?F cls ?l0 = _ =>
        assert (G : forall l lc0 c3 lc3,
                  Forall (fun c : clause => forall (c0 : ctx) (lc : N) (code : list Code) (lc' : N),
                            code_statement B types (cl_body c) c0 lc = Ok (code, lc') -> len code <= K * cg_bound (cl_body c) (len c0)) l ->
                  F l lc0 = Ok (c3, lc3) -> len c3 <= K * cg_bound_sw (len c) l)
      end.
      { clear E1. induction l as [|[[x cx] b] r IHr]; intros lc0 c3' lc3' HF E1.
        - inversion E1; subst. cbn [cg_bound_sw]. lnil. lia.
        - inversion HF as [|? ? Hb Hr]; subst. bind E1. destruct x0 as [cl lc1]. bind E1. destruct x0 as [cb lc2]. bind E1. destruct x0 as [cr lc3''].
          inversion E1; subst; clear E1. apply c_load in E. apply Hb in E0. apply IHr in E2; auto.
          unfold cl_body in E0; cbn [snd] in E0. rewrite len_app, removelast_len in E0.
          cbn [cg_bound_sw]. lens. rewrite !N.mul_add_distr_l in *. lia. }
      eapply G; eauto. }
    lens. pose proof (c_mark c). rewrite !N.mul_add_distr_l in *. unfold clause in *. lia.
  - (* Create *)
    rewrite cg_bound_create.
    cbn [code_statement] in HC. bind HC. destruct x as [body lcb]. cbn [fst snd] in HC. inversion HC; subst; clear HC.
    destruct env as [env|]; [|discriminate].
    bind E. destruct x as [rest cenv]. bind E. destruct x as [c1 lc1]. bind E. rename x into tmpv. bind E. destruct x as [c3 lc3].
    bind E. destruct x as [c5 lc5]. inversion E; subst; clear E.
    apply split_last_len in E0 as [L1 L2]. apply c_store in E1. apply IHs in E3.
    rewrite len_app, len_cons, len_nil, L1 in E3. fold (len env) in *. rewrite L2 in E1.
    assert (L4 : len (if Nat.leb (List.length cls) 1 then [] else code_table B cls (type_label t (lc1 + 1))) <= K * len cls).
    { match goal with |- context [if ?b then _ else _] => destruct b end; [lnil; lia|apply code_table_len]. }
    assert (L5 : len c5 <= K * cg_bound_cr (len env) cls).
    { clear L4 E3 E2 E1.
      match type of E4 with ?F cls ?l0 = _ =>
        assert (G : forall l lc0 c3 lc3,
                  Forall (fun c : clause => forall (c0 : ctx) (lc : N) (code : list Code) (lc' : N),
                            code_statement B types (cl_body c) c0 lc = Ok (code, lc') -> len code <= K * cg_bound (cl_body c) (len c0)) l ->
                  F l lc0 = Ok (c3, lc3) -> len c3 <= K * cg_bound_cr (len env) l)
      end.
      { clear E4. induction l as [|[[x cx] b] r IHr]; intros lc0 c3' lc3' HF E4.
        - inversion E4; subst. cbn [cg_bound_cr]. lnil. lia.
        - inversion HF as [|? ? Hb Hr]; subst. bind E4. destruct x0 as [cl lc1']. bind E4. destruct x0 as [cb lc2]. bind E4. destruct x0 as [cr lc3''].
          inversion E4; subst; clear E4. apply c_load in E. apply Hb in E0. apply IHr in E1; auto.
          unfold cl_body in E0; cbn [snd] in E0. rewrite len_app, L2 in E0. rewrite L2 in E.
          cbn [cg_bound_cr]. lens. rewrite !N.mul_add_distr_l in *. lia. }
      eapply G; eauto. }
    lens. pose proof (c_mark c). pose proof (c_load_label tmpv (type_label t (lc1 + 1))).
    cbn [env_len].
    replace (len c - len env + (1 + 0)) with (len c - len env + 1) in E3 by lia.
    rewrite !N.mul_add_distr_l in *. unfold clause in *. lia.
  - (* Invoke *)
    cbn [code_statement] in HC. bind HC. destruct x as [body lcb]. cbn [fst snd] in HC. inversion HC; subst; clear HC.
    bind E. bind E. pose proof (c_mark c). lens. cbn [cg_bound].
    destruct (Nat.leb (List.length (txtors x0)) 1).
    + inversion E; subst. pose proof (c_jump x). lia.
    + bind E. inversion E; subst. pose proof (c_add_and_jump x (b_jump_length B x1)). lia.
  - (* Literal *)
    cbn [code_statement] in HC. bind HC. destruct x as [body lcb]. cbn [fst snd] in HC. inversion HC; subst; clear HC.
    bind E. bind E. destruct x0 as [c2 lc2]. inversion E; subst; clear E.
    apply IHs in E1. rewrite len_app, len_cons, len_nil in E1. lens. cbn [cg_bound].
    replace (len c + (1 + 0)) with (len c + 1) in E1 by lia.
    pose proof (c_mark c). pose proof (c_load_immediate x n). rewrite !N.mul_add_distr_l in *. lia.
  - (* Op *)
    cbn [code_statement] in HC. bind HC. destruct x as [body lcb]. cbn [fst snd] in HC. inversion HC; subst; clear HC.
    bind E. bind E. bind E. bind E. destruct x2 as [c2 lc2]. inversion E; subst; clear E.
    apply IHs in E3. rewrite len_app, len_cons, len_nil in E3. lens. cbn [cg_bound].
    replace (len c + (1 + 0)) with (len c + 1) in E3 by lia.
    pose proof (c_mark c). pose proof (c_arith o x x0 x1). rewrite !N.mul_add_distr_l in *. lia.
  - (* PrintI64 *)
    cbn [code_statement] in HC. bind HC. destruct x as [body lcb]. cbn [fst snd] in HC. inversion HC; subst; clear HC.
    bind E. bind E. destruct x0 as [c2 lc2]. inversion E; subst; clear E.
    apply IHs in E1. lens. cbn [cg_bound].
    pose proof (c_mark c). pose proof (c_print nl x c). rewrite !N.mul_add_distr_l in *. lia.
  - (* IfC *)
    cbn [code_statement] in HC. bind HC. destruct x as [body lcb]. cbn [fst snd] in HC. inversion HC; subst; clear HC.
    bind E. rename x into ta. bind E. rename x into c1. bind E. destruct x as [c2 lc2]. bind E. destruct x as [c3 lc3]. inversion E; subst; clear E.
    apply IHs2 in E2. apply IHs1 in E3. lens. cbn [cg_bound].
    assert (len c1 <= K).
    { destruct b as [b|]; [bind E1|]; inversion E1; subst; [apply c_jcc2|apply c_jcc1]. }
    pose proof (c_mark c). rewrite !N.mul_add_distr_l in *. lia.
  - (* Exit *)
    cbn [code_statement] in HC. bind HC. destruct x as [body lcb]. cbn [fst snd] in HC. inversion HC; subst; clear HC.
    bind E. inversion E; subst. lens. cbn [cg_bound].
    pose proof (c_mark c). pose proof (c_mov (b_return1 B) x). pose proof (c_jump_label "cleanup"). lia.
Qed.

(* headline: instructions <= K * size * (5 + 2 * maximal context length) *)
Theorem codegen_size_lemma : forall types s c lc code lc',
  code_statement B types s c lc = Ok (code, lc') ->
  len code <= K * (ax_size s * (5 + 2 * ax_maxw s (len c))).
Proof.
  intros types s c lc code lc' H. apply codegen_size_exact in H.
  pose proof (cg_bound_poly s (len c)) as P. unfold cg_unit in P.
  assert (K * cg_bound s (len c) <= K * (ax_size s * (5 + 2 * ax_maxw s (len c)))) by (apply N.mul_le_mono_l; auto).
  lia.
Qed.

(* whole program: `translate` concatenates label + code of every definition *)
Theorem translate_size_lemma : forall types ds lc code lc',
  translate B types ds lc = Ok (code, lc') -> len code <= K * cg_bound_defs ds.
Proof.
  induction ds as [|d r IH]; intros lc code lc' H; simpl in H.
  - inversion H; subst. lnil. lia.
  - bind H. destruct x as [c1 lc1]. bind H. destruct x as [c2 lc2]. inversion H; subst; clear H.
    apply codegen_size_exact in E. apply IH in E0. simpl. lens.
    rewrite !N.mul_add_distr_l in *. lia.
Qed.
End Cost.
