(* C15, regression analysis: the checker BEFORE fix d524b1f (check_gen false, the instance-order
   defect) on the fragment without type parameters / type arguments: a program
   that satisfies the declarative rules is either accepted or rejected with `Undefined` (T-002) -
   the instance-order defect is the only way in which a well-typed program of the fragment is
   rejected, and no other error variant can be reported for it. *)
From Coq Require Import List ZArith String Bool Permutation Lia.
From SCC Require Import Base.Sexp Lang.SynUtil Lang.FunSyn Model.Check Sem.FunTyping
  Proof.FunInd Proof.FunEq Proof.CheckAnn Proof.TypingReject Proof.CheckBuild Proof.CheckMono
  Proof.CheckMonoSound Proof.CheckMonoProg Proof.CheckMonoComplete Proof.CheckMonoProgC Proof.CheckDecls.
Import ListNotations.
Open Scope list_scope.

(* success (with a property of the result) or the error Undefined *)
Definition ok_or_undef {X} (r : cres X) (P : X -> Prop) : Prop :=
  (exists x, r = COk x /\ P x) \/ r = CErr EUndefined.

Section Faithful.
  Variable ts : list tdecl.
  Variable fs : list fdef.
  Hypothesis W : mono_world ts fs.
  Hypothesis WF : wf_world ts fs.

  Ltac frame := eauto using same_templates_trans, grows_trans, same_templates_refl, grows_refl.
  Ltac undef := right; reflexivity.

  Definition framed (st : symtab) {X} (r : X * symtab) : Prop :=
    minv (snd r) /\ same_templates st (snd r) /\ grows st (snd r).

  Definition faithful_at (t : fterm) : Prop :=
    forall st ctx T,
      mono_term t = true -> mono_ctx ctx = true -> mono_ty T = true -> tables ts fs st -> minv st ->
      ctx_wf ts ctx = true -> wf_ty ts T = true ->
      chk ts fs (E ctx) t T = true ->
      ok_or_undef (check_term_gen false t st ctx T) (framed st).

  Lemma faithful_of_run : forall t st ctx T,
    mono_term t = true -> mono_ctx ctx = true -> mono_ty T = true -> tables ts fs st -> minv st ->
    ((exists r, check_term_gen false t st ctx T = COk r) \/ check_term_gen false t st ctx T = CErr EUndefined) ->
    ok_or_undef (check_term_gen false t st ctx T) (framed st).
  Proof.
    intros t st ctx T Hm Hc HT Tb I [[[t' st'] Hr]|He]; [|right; assumption].
    left. exists (t', st'). split; [assumption|].
    destruct (check_term_gen_sound ts fs W t false st ctx T t' st' Hm Hc HT Tb I Hr) as [_ [I' [S G]]].
    unfold framed. simpl. auto.
  Qed.

  (* ---------- arguments ---------- *)
  Lemma check_args_with_faithful : forall args, Forall faithful_at args ->
    forall tys st ctx,
      mono_terms args = true -> mono_ctx ctx = true -> mono_ctx tys = true -> tables ts fs st -> minv st ->
      ctx_wf ts ctx = true -> ctx_wf ts tys = true ->
      chk_args_with (chk ts fs) (E ctx) [] [] args tys = true ->
      ok_or_undef (check_args_with (check_term_gen false) args tys st ctx) (framed st).
  Proof.
    intros args HF. induction HF as [|a ar Ha _ IH]; intros tys st ctx Hm Hc Ht Tb I Hw Hwt Hk.
    - destruct tys; [|discriminate]. simpl. left. exists ([], st). split; [reflexivity|]. unfold framed; simpl. splits; frame.
    - destruct tys as [|b br]; [discriminate|]. simpl in Hm, Ht, Hwt.
      apply andb_true_iff in Hm. destruct Hm as [Hma Hmr]. apply andb_true_iff in Ht. destruct Ht as [Htb Htr].
      apply andb_true_iff in Hwt. destruct Hwt as [Hwb Hwr].
      simpl in Hk. rewrite inst_nil in Hk. apply andb_true_iff in Hk. destruct Hk as [Hka Hkr].
      simpl. destruct (fbchi b) eqn:Ech.
      + destruct (ty_check_mono_ok ts fs (W_ret _ _ W) _ st Htb Tb I Hwb) as [st1 [H1 [I1 [S1 [G1 _]]]]]. rewrite H1. simpl.
        destruct (Ha st1 ctx (fbty b) Hma Hc Htb (tables_same _ _ _ _ Tb S1) I1 Hw Hwb Hka) as [[[a' st2] [H2 [I2 [S2 G2]]]]|Hu];
          [|rewrite Hu; undef]. simpl in I2, S2, G2.
        rewrite H2. simpl.
        assert (S02 : same_templates st st2) by frame.
        destruct (IH br st2 ctx Hmr Hc Htr (tables_same _ _ _ _ Tb S02) I2 Hw Hwr Hkr) as [[[ar' st3] [H3 [I3 [S3 G3]]]]|Hu];
          [|rewrite Hu; undef]. simpl in I3, S3, G3.
        rewrite H3. simpl. left. exists (a' :: ar', st3). split; [reflexivity|]. unfold framed; simpl. splits; frame.
      + destruct a as [v ann chi| | | | | | | | | | | | | |]; try discriminate.
        apply andb_true_iff in Hka. destruct Hka as [Hka Hchi]. apply andb_true_iff in Hka. destruct Hka as [Hcns Hann].
        assert (Hl : lookup_covar ctx v = COk (fbty b)).
        { unfold is_cns in Hcns. destruct (E_cns ctx v (fbty b)) as [Hl _]; [|exact Hl].
          unfold cns_ty. destruct (E ctx v) as [[[|] T']|]; try discriminate. apply fty_eqb_eq in Hcns. subst. reflexivity. }
        assert (Hgo : ok_or_undef (doc found <- lookup_covar ctx v;
                                   doc st1 <- match ann with Some t => check_equality st t found | None => COk st end;
                                   doc st2 <- check_equality st1 (fbty b) found;
                                   doc (ar', st3) <- check_args_with (check_term_gen false) ar br st2 ctx;
                                   COk (FVar v (Some found) (Some FCns) :: ar', st3)) (framed st)).
        { rewrite Hl. simpl.
          destruct (ann_check_ok ts fs W ann (fbty b) st Hann Htb Hwb Tb I) as [st1 [H1 [I1 [S1 G1]]]]. rewrite H1. simpl.
          destruct (check_equality_mono_ok ts fs (W_ret _ _ W) (fbty b) st1 Htb (tables_same _ _ _ _ Tb S1) I1 Hwb) as [st2 [H2 [I2 [S2 [G2 _]]]]].
          rewrite H2. simpl. assert (S02 : same_templates st st2) by frame.
          destruct (IH br st2 ctx Hmr Hc Htr (tables_same _ _ _ _ Tb S02) I2 Hw Hwr Hkr) as [[[ar' st3] [H3 [I3 [S3 G3]]]]|Hu];
            [|rewrite Hu; undef]. simpl in I3, S3, G3.
          rewrite H3. simpl. left. eexists (_, st3). split; [reflexivity|]. unfold framed; simpl. splits; frame. }
        destruct chi as [[|]|]; try discriminate; exact Hgo.
  Qed.

  Lemma check_args_faithful : forall args, Forall faithful_at args ->
    forall tys st ctx,
      mono_terms args = true -> mono_ctx ctx = true -> mono_ctx tys = true -> tables ts fs st -> minv st ->
      ctx_wf ts ctx = true -> ctx_wf ts tys = true ->
      chk_args_with (chk ts fs) (E ctx) [] [] args tys = true ->
      ok_or_undef (check_args (check_term_gen false) args tys st ctx) (framed st).
  Proof.
    intros args HF tys st ctx Hm Hc Ht Tb I Hw Hwt Hk. unfold check_args.
    rewrite (chk_args_length ts fs _ _ _ _ _ Hk), PeanoNat.Nat.eqb_refl. simpl.
    eapply check_args_with_faithful; eassumption.
  Qed.

  (* ---------- clauses ---------- *)
  Definition pc_faithful (pc : pclause) : Prop :=
    forall st ctx T,
      mono_ctx ctx = true -> mono_ty T = true -> tables ts fs st -> minv st ->
      ctx_wf ts ctx = true -> wf_ty ts T = true -> chk ts fs (E ctx) (pc_body pc) T = true ->
      ok_or_undef (pc_chk pc st ctx T) (framed st).

  Lemma check_clauses_faithful : forall (is_case : bool) T td xtors pcls st ctx,
    Forall pc_faithful pcls ->
    mono_ctx ctx = true -> ctx_wf ts ctx = true -> tables ts fs st -> minv st ->
    In td ts -> td_pol td = (if is_case then FData else FCodata) ->
    (is_case = true -> mono_ty T = true /\ wf_ty ts T = true) ->
    ahas (st_types st) (td_name td) = true ->
    NoDup xtors -> (forall x, In x xtors -> In x (map xs_name (td_xtors td))) ->
    (forall x, In x xtors -> exists pc, In pc pcls /\ pc_xtor pc = x) ->
    Forall (fun pc => clause_ok ts fs (E ctx) td [] (if is_case then Some T else None) (clause_of pc) = true) pcls ->
    ok_or_undef (check_clauses is_case "" T xtors pcls st ctx)
                (fun r => minv (snd r) /\ same_templates st (snd r) /\ grows st (snd r)).
  Proof.
    intros is_case T td xtors. induction xtors as [|x xr IH];
      intros pcls st ctx HC Hmc Hwc Tb I Htd Hpol HT Hinst Hnd Hxs Hex Hok.
    - simpl. left. exists ([], pcls, st). split; [reflexivity|]. simpl. splits; frame.
    - simpl. destruct (Hex x (or_introl eq_refl)) as [pc0 [Hpc0 Hx0]].
      destruct (swap_remove_first_some (fun c => String.eqb (pc_xtor c) x) pcls pc0 Hpc0) as [cl [pcls' Es]];
        [rewrite Hx0; apply String.eqb_refl|].
      rewrite Es. pose proof (swap_remove_first_spec _ _ _ _ Es) as [Hx Hperm]. apply String.eqb_eq in Hx.
      assert (Hall : forall (P : pclause -> Prop), Forall P pcls -> P cl /\ Forall P pcls').
      { intros P HP. assert (HP' : Forall P (cl :: pcls')) by (eapply Permutation_Forall; [apply Permutation_sym; eassumption|assumption]).
        inversion HP'; auto. }
      destruct (Hall _ HC) as [HCcl HCr]. destruct (Hall _ Hok) as [Hokcl Hokr].
      rewrite append_nil_r.
      unfold clause_of, clause_ok in Hokcl. rewrite Hx in Hokcl.
      destruct (find_xsig td x) as [s|] eqn:Hs; [|discriminate].
      apply andb_true_iff in Hokcl. destruct Hokcl as [Hokcl Hbody]. apply andb_true_iff in Hokcl. destruct Hokcl as [Hnod Hlen].
      destruct (find_xsig_spec _ _ _ Hs) as [Hsin _].
      destruct (W_sigs _ _ W td s Htd Hsin) as [Hms Hmr]. destruct (WF_sigs _ _ WF td s Htd Hsin) as [Hws Hwr].
      rewrite (W_params _ _ W td Htd), extend_sig_nil in Hbody.
      assert (Hsig : exists bty,
                (if is_case
                 then match aget (st_ctors st) x with Some sg => COk (sg, T) | None => CErr EUndefined end
                 else match aget (st_dtors st) x with Some (sg, ret) => COk (sg, ret) | None => CErr EUndefined end)
                = COk (xs_args s, bty)
                /\ mono_ty bty = true /\ wf_ty ts bty = true
                /\ chk ts fs (E (ctx ++ zip_names (pc_names cl) (xs_args s))) (pc_body cl) bty = true).
      { unfold E. rewrite env_of_ctx_app. fold (E ctx). destruct is_case.
        - rewrite (instance_ctor ts fs W st td x s Tb I Htd Hpol Hinst Hs). exists T. destruct (HT eq_refl). auto.
        - destruct (instance_dtor ts fs W st td x s Tb I Htd Hpol Hinst Hs) as [r [Hr Hd]]. rewrite Hd. exists r.
          rewrite Hr in Hbody, Hmr. rewrite inst_nil in Hbody. simpl in Hmr. auto. }
      destruct Hsig as [bty [Hsig [Hmb [Hwb Hkb]]]]. rewrite Hsig. simpl.
      rewrite (nodup_names_no_dups _ Hnod). simpl.
      unfold add_types. rewrite Hlen. simpl.
      assert (Hmc' : mono_ctx (ctx ++ zip_names (pc_names cl) (xs_args s)) = true)
        by (apply mono_ctx_app; [assumption|apply mono_zip_names; assumption]).
      assert (Hwc' : ctx_wf ts (ctx ++ zip_names (pc_names cl) (xs_args s)) = true)
        by (apply ctx_wf_app; [assumption|apply ctx_wf_zip; assumption]).
      destruct (HCcl st _ bty Hmc' Hmb Tb I Hwc' Hwb Hkb) as [[[body' st1] [Hb [I1 [S1 G1]]]]|Hu]; [|rewrite Hu; undef].
      simpl in I1, S1, G1. rewrite Hb. simpl.
      inversion Hnd as [|? ? Hnotin Hnd']; subst.
      destruct (IH pcls' st1 ctx HCr Hmc Hwc (tables_same _ _ _ _ Tb S1) I1 Htd Hpol HT (G1 _ Hinst) Hnd')
        as [[[[rest leftover] st2] [Hr [I2 [S2 G2]]]]|Hu]; try assumption.
      + intros y Hy. apply Hxs. right. assumption.
      + intros y Hy. destruct (Hex y (or_intror Hy)) as [pc [Hpc Hpx]].
        exists pc. split; [|assumption].
        apply (Permutation_in _ (Permutation_sym Hperm)) in Hpc. destruct Hpc as [<-|Hpc]; [|assumption].
        exfalso. apply Hnotin. rewrite <- Hx, Hpx. assumption.
      + simpl in I2, S2, G2. rewrite Hr. simpl. left. eexists (_, leftover, st2). split; [reflexivity|]. simpl. splits; frame.
      + rewrite Hu. undef.
  Qed.

  Lemma prep_clauses_faithful : forall cls,
    Forall (fun c => faithful_at (clause_body c)) cls -> mono_clauses cls = true ->
    Forall pc_faithful (prep_clauses (check_term_gen false) cls).
  Proof.
    intros cls HF. induction HF as [|[p x ns c b] r Hc _ IH]; intros Hm; simpl; constructor.
    - simpl in Hm. apply andb_true_iff in Hm. destruct Hm as [Hb _].
      unfold pc_faithful. simpl. intros. eapply Hc; eassumption.
    - apply IH. simpl in Hm. apply andb_true_iff in Hm. tauto.
  Qed.

  Lemma clauses_faithful_result : forall (is_case : bool) T td cls st ctx,
    Forall (fun c => faithful_at (clause_body c)) cls ->
    mono_clauses cls = true -> mono_ctx ctx = true -> ctx_wf ts ctx = true -> tables ts fs st -> minv st ->
    In td ts -> td_pol td = (if is_case then FData else FCodata) ->
    (is_case = true -> mono_ty T = true /\ wf_ty ts T = true) ->
    ahas (st_types st) (td_name td) = true ->
    same_names (map clause_xtor cls) (map xs_name (td_xtors td)) = true ->
    chk_clauses_with (chk ts fs) (E ctx) td [] (if is_case then Some T else None) cls = true ->
    (exists cls' st', check_clauses is_case "" T (map xs_name (td_xtors td)) (prep_clauses (check_term_gen false) cls) st ctx
                      = COk (cls', [], st') /\ minv st' /\ same_templates st st' /\ grows st st')
    \/ check_clauses is_case "" T (map xs_name (td_xtors td)) (prep_clauses (check_term_gen false) cls) st ctx = CErr EUndefined.
  Proof.
    intros is_case T td cls st ctx HC Hm Hmc Hwc Tb I Htd Hpol HT Hinst Hsn Hk.
    assert (HS : Forall (fun c => sound_at ts fs (clause_body c)) cls).
    { apply Forall_forall. intros c _. apply check_term_gen_sound. exact W. }
    pose proof (prep_clauses_sound ts fs false cls HS Hm) as HPS.
    assert (Hnd : nodup (map xs_name (td_xtors td)) = true).
    { eapply xtor_names_of_type_nodup; [apply (nodup_xtors ts fs W)|eassumption|reflexivity]. }
    destruct (check_clauses_faithful is_case T td (map xs_name (td_xtors td)) (prep_clauses (check_term_gen false) cls) st ctx
                (prep_clauses_faithful cls HC Hm) Hmc Hwc Tb I Htd Hpol HT Hinst (nodup_NoDup _ Hnd) (fun x H => H))
      as [[[[cls' leftover] st'] [Hr [I' [S G]]]]|Hu]; [| |simpl in I', S, G|right; assumption].
    - intros x Hx. pose proof (same_names_covers _ _ Hsn x Hx) as Hin.
      apply in_map_iff in Hin. destruct Hin as [c [Hcx Hc]].
      rewrite <- (prep_clauses_map (check_term_gen false) cls) in Hc. apply in_map_iff in Hc. destruct Hc as [pc [<- Hpc]].
      exists pc. split; assumption.
    - apply Forall_forall. intros pc Hpc. rewrite chk_clauses_forallb, forallb_forall in Hk.
      apply Hk. eapply prep_clauses_in. eassumption.
    - left. exists cls', st'. splits; try assumption.
      assert (HT' : is_case = true -> mono_ty T = true) by (intros E0; apply HT; assumption).
      destruct (check_clauses_sound ts fs W is_case T td _ _ st ctx cls' leftover st' HPS Hmc Tb I Htd (fun x H => H) Hpol HT' Hr)
        as [used [Hp [Hmap _]]].
      assert (Hlen : List.length leftover = 0).
      { apply Permutation_length in Hp. rewrite app_length, prep_clauses_length in Hp.
        assert (List.length used = List.length (map xs_name (td_xtors td))) by (rewrite <- Hmap, map_length; reflexivity).
        unfold same_names in Hsn. apply andb_true_iff in Hsn. destruct Hsn as [Hsn _]. apply andb_true_iff in Hsn. destruct Hsn as [_ Hl].
        apply PeanoNat.Nat.eqb_eq in Hl. rewrite map_length in Hl. lia. }
      destruct leftover; [exact Hr|discriminate].
  Qed.

  Local Opaque ty_check.

  (* run a sub-check: success with frame, or Undefined (which propagates) *)
  Ltac sub X a' st2 H2 I2 S2 G2 :=
    destruct X as [[[a' st2] [H2 [I2 [S2 G2]]]]|Hu]; [simpl in I2, S2, G2; rewrite H2; simpl|rewrite Hu; right; reflexivity].
  Ltac done_ok := left; eexists (_, _); split; [reflexivity|unfold framed; simpl; splits; frame].

  Theorem check_term_faithful : forall t, faithful_at t.
  Proof.
    intros t. induction t using fterm_ind'; unfold faithful_at;
      intros st ctx T Hm Hc HT Tb I Hw HwT Hk; simpl in Hk; simpl in Hm.
    - (* FVar *)
      apply andb_true_iff in Hk. destruct Hk as [Hk Hchi]. apply andb_true_iff in Hk. destruct Hk as [Hprd Hann].
      pose proof (E_prd _ _ _ Hprd) as Hl.
      destruct (ann_check_ok ts fs W ty T st Hann HT HwT Tb I) as [st1 [H1 [I1 [S1 G1]]]].
      destruct (check_equality_mono_ok ts fs (W_ret _ _ W) T st1 HT (tables_same _ _ _ _ Tb S1) I1 HwT) as [st2 [H2 [I2 [S2 [G2 _]]]]].
      assert (Hgo : ok_or_undef (doc found <- lookup_var ctx v;
                     doc st1 <- match ty with Some t => check_equality st t found | None => COk st end;
                     doc st2 <- check_equality st1 T found; COk (FVar v (Some T) (Some FPrd), st2)) (framed st)).
      { rewrite Hl. simpl. rewrite H1. simpl. rewrite H2. simpl. done_ok. }
      simpl. destruct chi as [[|]|]; try discriminate; exact Hgo.
    - (* FLit *)
      apply fty_eqb_eq in Hk. subst T. simpl.
      destruct (check_equality_mono_ok ts fs (W_ret _ _ W) FI64 st eq_refl Tb I eq_refl) as [st1 [H1 [I1 [S1 [G1 _]]]]].
      rewrite H1. simpl. done_ok.
    - (* FOp *)
      apply andb_true_iff in Hm. destruct Hm as [Hm1 Hm2].
      apply andb_true_iff in Hk. destruct Hk as [Hk K2]. apply andb_true_iff in Hk. destruct Hk as [K0 K1].
      apply fty_eqb_eq in K0. subst T. simpl.
      destruct (check_equality_mono_ok ts fs (W_ret _ _ W) FI64 st eq_refl Tb I eq_refl) as [st1 [H1 [I1 [S1 [G1 _]]]]].
      rewrite H1. simpl.
      sub (IHt1 st1 ctx FI64 Hm1 Hc eq_refl (tables_same _ _ _ _ Tb S1) I1 Hw eq_refl K1) a' st2 H2 I2 S2 G2.
      assert (S02 : same_templates st st2) by frame.
      sub (IHt2 st2 ctx FI64 Hm2 Hc eq_refl (tables_same _ _ _ _ Tb S02) I2 Hw eq_refl K2) b' st3 H3 I3 S3 G3.
      done_ok.
    - (* FIfC *)
      apply andb_true_iff in Hm. destruct Hm as [Hm Hm4]. apply andb_true_iff in Hm. destruct Hm as [Hm Hm3].
      apply andb_true_iff in Hm. destruct Hm as [Hm1 Hm2].
      apply andb_true_iff in Hk. destruct Hk as [Hk K4]. apply andb_true_iff in Hk. destruct Hk as [Hk K3].
      apply andb_true_iff in Hk. destruct Hk as [K1 K2].
      simpl.
      sub (IHt1 st ctx FI64 Hm1 Hc eq_refl Tb I Hw eq_refl K1) a' st1 H1 I1 S1 G1.
      assert (Hb : ok_or_undef (match b with
                                | None => COk (None, st1)
                                | Some b0 => doc (b1, s0) <- check_term_gen false b0 st1 ctx FI64; COk (Some b1, s0)
                                end) (framed st1)).
      { destruct b as [b0|].
        - destruct (H _ eq_refl st1 ctx FI64 Hm2 Hc eq_refl (tables_same _ _ _ _ Tb S1) I1 Hw eq_refl K2) as [[[b1 st2] [H2 [I2 [S2 G2]]]]|Hu];
            [|rewrite Hu; right; reflexivity].
          rewrite H2. simpl. left. exists (Some b1, st2). split; [reflexivity|]. exact (conj I2 (conj S2 G2)).
        - left. exists (None, st1). split; [reflexivity|]. unfold framed; simpl. splits; frame. }
      destruct Hb as [[[b' st2] [H2 [I2 [S2 G2]]]]|Hu]; [simpl in I2, S2, G2; rewrite H2; simpl|rewrite Hu; right; reflexivity].
      assert (S02 : same_templates st st2) by frame.
      sub (IHt2 st2 ctx T Hm3 Hc HT (tables_same _ _ _ _ Tb S02) I2 Hw HwT K3) th' st3 H3 I3 S3 G3.
      assert (S03 : same_templates st st3) by frame.
      sub (IHt3 st3 ctx T Hm4 Hc HT (tables_same _ _ _ _ Tb S03) I3 Hw HwT K4) el' st4 H4 I4 S4 G4.
      done_ok.
    - (* FPrint *)
      apply andb_true_iff in Hm. destruct Hm as [Hm1 Hm2].
      apply andb_true_iff in Hk. destruct Hk as [K1 K2]. simpl.
      sub (IHt1 st ctx FI64 Hm1 Hc eq_refl Tb I Hw eq_refl K1) a' st1 H1 I1 S1 G1.
      sub (IHt2 st1 ctx T Hm2 Hc HT (tables_same _ _ _ _ Tb S1) I1 Hw HwT K2) n' st2 H2 I2 S2 G2.
      done_ok.
    - (* FLet *)
      apply andb_true_iff in Hm. destruct Hm as [Hm Hm3]. apply andb_true_iff in Hm. destruct Hm as [Hm1 Hm2].
      apply andb_true_iff in Hk. destruct Hk as [Hk K2]. apply andb_true_iff in Hk. destruct Hk as [Kw K1]. simpl.
      destruct (ty_check_mono_ok ts fs (W_ret _ _ W) vty st Hm1 Tb I Kw) as [st1 [H1 [I1 [S1 [G1 _]]]]]. rewrite H1. simpl.
      sub (IHt1 st1 ctx vty Hm2 Hc Hm1 (tables_same _ _ _ _ Tb S1) I1 Hw Kw K1) a' st2 H2 I2 S2 G2.
      assert (S02 : same_templates st st2) by frame.
      assert (Hc' : mono_ctx (ctx ++ [mkfb v FPrd vty]) = true).
      { apply mono_ctx_app; [assumption|]. simpl. rewrite Hm1. reflexivity. }
      assert (Hw' : ctx_wf ts (ctx ++ [mkfb v FPrd vty]) = true).
      { apply ctx_wf_app; [assumption|]. simpl. rewrite Kw. reflexivity. }
      rewrite <- E_snoc in K2.
      sub (IHt2 st2 _ T Hm3 Hc' HT (tables_same _ _ _ _ Tb S02) I2 Hw' HwT K2) b' st3 H3 I3 S3 G3.
      done_ok.
    - (* FCall *)
      rewrite mono_terms_eq in Hm.
      destruct (find_def fs f) as [d|] eqn:Ef; [|discriminate].
      apply andb_true_iff in Hk. destruct Hk as [Kr Ka]. apply fty_eqb_eq in Kr. subst T.
      assert (Hdin : In d fs) by (unfold find_def in Ef; apply find_some in Ef; tauto).
      destruct (W_defs _ _ W d Hdin) as [Hmd Hmr]. destruct (WF_defs _ _ WF d Hdin) as [Hwd Hwr].
      simpl. rewrite (t_df _ _ _ Tb), Ef. simpl.
      destruct (check_equality_mono_ok ts fs (W_ret _ _ W) (fdret d) st Hmr Tb I Hwr) as [st1 [H1 [I1 [S1 [G1 _]]]]].
      rewrite H1. simpl.
      sub (check_args_faithful args H (fdctx d) st1 ctx Hm Hc Hmd (tables_same _ _ _ _ Tb S1) I1 Hw Hwd Ka) args' st2 H2 I2 S2 G2.
      done_ok.
    - (* FCtor *)
      rewrite mono_terms_eq in Hm.
      destruct T as [|n targs]; [discriminate|]. pose proof (mono_ty_decl _ _ HT) as ->.
      destruct (find_type ts n) as [td|] eqn:Eft; [|discriminate].
      apply andb_true_iff in Hk. destruct Hk as [Hk Ka]. apply andb_true_iff in Hk. destruct Hk as [Kp _].
      apply fpol_eqb_eq in Kp.
      destruct (find_xsig td x) as [s|] eqn:Es; [|discriminate].
      pose proof (find_type_in _ _ _ Eft) as Hin. pose proof (find_type_name _ _ _ Eft) as Hn.
      destruct (find_xsig_spec _ _ _ Es) as [Hsin Hsn].
      destruct (W_sigs _ _ W td s Hin Hsin) as [Hms _]. destruct (WF_sigs _ _ WF td s Hin Hsin) as [Hws _].
      rewrite (W_params _ _ W td Hin) in Ka.
      simpl. rewrite append_nil_r.
      destruct (aget (st_ctors st) x) as [types|] eqn:Ec; [|right; reflexivity].
      destruct (mi_ctors _ I _ _ Ec) as [Htc _].
      pose proof (ctor_template_sig ts fs W _ _ _ _ _ Tb Hin Kp Es Htc) as ->.
      destruct (lookup_ty_for_xtor FData st x) as [[ty xs']|] eqn:El; [|right; reflexivity].
      destruct (lookup_ty_for_xtor_mono _ _ _ _ _ I El) as [n' [-> [Hg' Hx']]].
      destruct (mi_types _ I _ _ _ _ Hg') as [_ Ht'].
      destruct (template_type ts fs _ _ _ _ Tb Ht') as [td' [Hin' [_ [Hn' [Hp' Hxs']]]]].
      destruct (xtor_of_type ts fs W td' x Hin') as [s' [_ [Hfx' _]]]; [rewrite Hxs'; assumption|].
      rewrite Hp', (find_xtor_unique ts FData td x s (nodup_xtors ts fs W _) Hin Kp Es) in Hfx'. inversion Hfx'; subst td' s'.
      sub (check_args_faithful args H (xs_args s) st ctx Hm Hc Hms Tb I Hw Hws Ka) args' st1 H1 I1 S1 G1.
      rewrite Hn' in Hn. subst n'.
      destruct (check_equality_mono_ok ts fs (W_ret _ _ W) (FDecl n []) st1 eq_refl (tables_same _ _ _ _ Tb S1) I1 HwT) as [st2 [H2 [I2 [S2 [G2 _]]]]].
      rewrite H2. simpl. done_ok.
    - (* FDtor *)
      apply andb_true_iff in Hm. destruct Hm as [Hm Hm3]. apply andb_true_iff in Hm. destruct Hm as [Hm1 Hm2].
      rewrite mono_terms_eq in Hm3. destruct targs; [|discriminate].
      destruct (find_xtor ts FCodata x) as [[td sg]|] eqn:Ef; [|discriminate].
      apply andb_true_iff in Hk. destruct Hk as [Hk Kr]. apply andb_true_iff in Hk. destruct Hk as [Hk Ka].
      apply andb_true_iff in Hk. destruct Hk as [_ Ks].
      pose proof (find_xtor_in _ _ _ _ _ Ef) as [Hin [Hp Hs]].
      destruct (find_xsig_spec _ _ _ Hs) as [Hsin Hsn].
      destruct (W_sigs _ _ W td sg Hin Hsin) as [Hms Hmr]. destruct (WF_sigs _ _ WF td sg Hin Hsin) as [Hws Hwr].
      rewrite (W_params _ _ W td Hin) in Ka, Kr.
      destruct (xs_ret sg) as [R|] eqn:ER; [|discriminate]. rewrite inst_nil in Kr. apply fty_eqb_eq in Kr. subst R.
      simpl.
      destruct (lookup_or_template_complete ts fs W FCodata st x td sg Tb I Ef) as [st1 [H1 [I1 [S1 [G1 Hi1]]]]].
      rewrite H1. simpl.
      assert (Hwt : wf_ty ts (FDecl (td_name td) []) = true).
      { simpl. rewrite (find_type_unique ts td (proj1 (names_ok_parts ts fs W)) Hin), (W_params _ _ W td Hin). reflexivity. }
      sub (IHt st1 ctx (FDecl (td_name td) []) Hm2 Hc eq_refl (tables_same _ _ _ _ Tb S1) I1 Hw Hwt Ks) s' st2 H2 I2 S2 G2.
      assert (S02 : same_templates st st2) by frame. pose proof (tables_same _ _ _ _ Tb S02) as Tb2.
      rewrite append_nil_r.
      destruct (instance_dtor ts fs W st2 td x sg Tb2 I2 Hin Hp (G2 _ Hi1) Hs) as [rr [Hr Hd]]. rewrite ER in Hr. inversion Hr; subst rr.
      rewrite Hd.
      sub (check_args_faithful args H (xs_args sg) st2 ctx Hm3 Hc Hms Tb2 I2 Hw Hws Ka) args' st3 H3 I3 S3 G3.
      assert (S03 : same_templates st st3) by frame.
      destruct (check_equality_mono_ok ts fs (W_ret _ _ W) T st3 HT (tables_same _ _ _ _ Tb S03) I3 HwT) as [st4 [H4 [I4 [S4 [G4 _]]]]].
      rewrite H4. simpl. done_ok.
    - (* FCase *)
      apply andb_true_iff in Hm. destruct Hm as [Hm Hm3]. apply andb_true_iff in Hm. destruct Hm as [Hm1 Hm2].
      rewrite mono_clauses_eq in Hm3. destruct targs; [|discriminate].
      destruct cls as [|c0 clr]; [discriminate|].
      destruct (find_xtor ts FData (clause_xtor c0)) as [[td sg]|] eqn:Ef; [|discriminate].
      apply andb_true_iff in Hk. destruct Hk as [Hk Kc]. apply andb_true_iff in Hk. destruct Hk as [Hk Ksn].
      apply andb_true_iff in Hk. destruct Hk as [_ Ks].
      pose proof (find_xtor_in _ _ _ _ _ Ef) as [Hin [Hp Hs]].
      assert (Hwt : wf_ty ts (FDecl (td_name td) []) = true).
      { simpl. rewrite (find_type_unique ts td (proj1 (names_ok_parts ts fs W)) Hin), (W_params _ _ W td Hin). reflexivity. }
      destruct c0 as [p0 x0 ns0 cx0 b0]. simpl clause_xtor in Ef.
      simpl.
      destruct (lookup_or_template_complete ts fs W FData st x0 td sg Tb I Ef) as [st1 [H1 [I1 [S1 [G1 Hi1]]]]].
      rewrite H1. simpl.
      sub (IHt st1 ctx (FDecl (td_name td) []) Hm2 Hc eq_refl (tables_same _ _ _ _ Tb S1) I1 Hw Hwt Ks) s' st2 H2 I2 S2 G2.
      assert (S02 : same_templates st st2) by frame.
      destruct (clauses_faithful_result true T td (FClause p0 x0 ns0 cx0 b0 :: clr) st2 ctx H Hm3 Hc Hw
                  (tables_same _ _ _ _ Tb S02) I2 Hin Hp (fun _ => conj HT HwT) (G2 _ Hi1) Ksn Kc)
        as [[cls' [st3 [H3 [I3 [S3 G3]]]]]|Hu].
      + change (prep_clauses (check_term_gen false) (FClause p0 x0 ns0 cx0 b0 :: clr)) with
          (mkpc p0 x0 ns0 cx0 b0 (check_term_gen false b0) :: prep_clauses (check_term_gen false) clr) in H3.
        rewrite H3. simpl. done_ok.
      + change (prep_clauses (check_term_gen false) (FClause p0 x0 ns0 cx0 b0 :: clr)) with
          (mkpc p0 x0 ns0 cx0 b0 (check_term_gen false b0) :: prep_clauses (check_term_gen false) clr) in Hu.
        rewrite Hu. right. reflexivity.
    - (* FNew *)
      rewrite mono_clauses_eq in Hm.
      destruct T as [|n targs]; [discriminate|]. pose proof (mono_ty_decl _ _ HT) as ->.
      destruct (find_type ts n) as [td|] eqn:Eft; [|discriminate].
      apply andb_true_iff in Hk. destruct Hk as [Hk Kc]. apply andb_true_iff in Hk. destruct Hk as [Hk Ksn].
      apply andb_true_iff in Hk. destruct Hk as [Kp _]. apply fpol_eqb_eq in Kp.
      pose proof (find_type_in _ _ _ Eft) as Hin. pose proof (find_type_name _ _ _ Eft) as Hn.
      simpl. rewrite append_nil_r.
      destruct (aget (st_types st) n) as [[[pol targs] dtors]|] eqn:Eg; [|right; reflexivity].
      assert (Hi0 : ahas (st_types st) (td_name td) = true) by (unfold ahas; rewrite Hn, Eg; reflexivity).
      pose proof (instance_entry ts fs W st td Tb I Hin Hi0) as Hent. rewrite Hn, Eg, Kp in Hent. inversion Hent; subst.
      destruct (clauses_faithful_result false (FDecl (td_name td) []) td cls st ctx H Hm Hc Hw
                  Tb I Hin Kp (fun E0 => ltac:(discriminate)) Hi0 Ksn Kc)
        as [[cls' [st3 [H3 [I3 [S3 G3]]]]]|Hu].
      + rewrite H3. simpl. done_ok.
      + rewrite Hu. right. reflexivity.
    - (* FLabel *)
      simpl.
      assert (Hc' : mono_ctx (ctx ++ [mkfb l FCns T]) = true).
      { apply mono_ctx_app; [assumption|]. simpl. rewrite HT. reflexivity. }
      assert (Hw' : ctx_wf ts (ctx ++ [mkfb l FCns T]) = true).
      { apply ctx_wf_app; [assumption|]. simpl. rewrite HwT. reflexivity. }
      rewrite <- E_snoc in Hk.
      sub (IHt st _ T Hm Hc' HT Tb I Hw' HwT Hk) b' st1 H1 I1 S1 G1. done_ok.
    - (* FGoto *)
      destruct (cns_ty (E ctx) l) as [S0|] eqn:Ec; [|discriminate].
      destruct (E_cns _ _ _ Ec) as [Hl [b0 [Hb0 Hbt]]].
      simpl. rewrite Hl. simpl.
      assert (HmS : mono_ty S0 = true) by (subst S0; apply (mono_ctx_in ctx); assumption).
      assert (HwS : wf_ty ts S0 = true) by (subst S0; apply (ctx_wf_in ts ctx); assumption).
      sub (IHt st ctx S0 Hm Hc HmS Tb I Hw HwS Hk) b' st1 H1 I1 S1 G1. done_ok.
    - (* FExit *)
      simpl. sub (IHt st ctx FI64 Hm Hc eq_refl Tb I Hw eq_refl Hk) b' st1 H1 I1 S1 G1. done_ok.
    - (* FParen *)
      simpl. sub (IHt st ctx T Hm Hc HT Tb I Hw HwT Hk) b' st1 H1 I1 S1 G1. done_ok.
  Qed.
End Faithful.

(* ---------- definitions and programs ---------- *)
Section FaithfulDefs.
  Variable ts : list tdecl.
  Variable fs : list fdef.
  Hypothesis W : mono_world ts fs.
  Hypothesis WF : wf_world ts fs.

  Lemma def_check_faithful : forall d st, def_ok ts fs d = true ->
    mono_ctx (fdctx d) = true -> mono_ty (fdret d) = true -> mono_term (fdbody d) = true ->
    tables ts fs st -> minv st ->
    (exists d' st', def_check_gen false d st = COk (d', st') /\ minv st' /\ same_templates st st')
    \/ def_check_gen false d st = CErr EUndefined.
  Proof.
    intros d st Hok Hmc Hmr Hmb Tb I. unfold def_ok in Hok.
    apply andb_true_iff in Hok. destruct Hok as [Hok Hk]. apply andb_true_iff in Hok. destruct Hok as [Hok Hwr].
    apply andb_true_iff in Hok. destruct Hok as [Hnd Hwc]. apply andb_true_iff in Hnd. destruct Hnd as [Hmain Hnd].
    unfold def_check_gen. unfold ctx_no_dups. rewrite nodup_ctx_no_dups_go; [|assumption|intros ? ? []]. simpl.
    destruct (ctx_check_ok ts fs W _ st Hmc Hwc Tb I) as [st1 [H1 [I1 S1]]]. rewrite H1. simpl.
    destruct (ty_check_mono_ok ts fs (W_ret _ _ W) _ st1 Hmr (tables_same _ _ _ _ Tb S1) I1 Hwr) as [st2a [H2 [I2a [S2a _]]]].
    rewrite H2. simpl. assert (S02a : same_templates st st2a) by eauto using same_templates_trans.
    destruct (main_ret_check_mono_ok ts fs W d st2a Hmain (tables_same _ _ _ _ Tb S02a) I2a) as [st2 [H2m [I2 S2]]].
    rewrite H2m. simpl. assert (S02 : same_templates st st2) by eauto using same_templates_trans.
    destruct (check_term_faithful ts fs W WF (fdbody d) st2 (fdctx d) (fdret d) Hmb Hmc Hmr (tables_same _ _ _ _ Tb S02) I2 Hwc Hwr Hk)
      as [[[b' st3] [H3 [I3 [S3 G3]]]]|Hu].
    - simpl in I3, S3. rewrite H3. simpl. left. eexists _, st3. splits; eauto using same_templates_trans.
    - rewrite Hu. right. reflexivity.
  Qed.

  Lemma check_defs_faithful : forall ds st,
    (forall d, In d ds -> def_ok ts fs d = true /\ mono_ctx (fdctx d) = true /\ mono_ty (fdret d) = true /\ mono_term (fdbody d) = true) ->
    tables ts fs st -> minv st ->
    (exists ds' st', check_defs_gen false ds st = COk (ds', st') /\ minv st')
    \/ check_defs_gen false ds st = CErr EUndefined.
  Proof.
    induction ds as [|d r IH]; intros st H Tb I; simpl.
    - left. exists [], st. auto.
    - destruct (H d (or_introl eq_refl)) as [Hok [Hc [Hr Hb]]].
      destruct (def_check_faithful d st Hok Hc Hr Hb Tb I) as [[d' [st1 [H1 [I1 S1]]]]|Hu]; [|rewrite Hu; right; reflexivity].
      rewrite H1. simpl.
      destruct (IH st1 (fun d0 Hd0 => H d0 (or_intror Hd0)) (tables_same _ _ _ _ Tb S1) I1) as [[r' [st2 [H2 I2]]]|Hu];
        [|rewrite Hu; right; reflexivity].
      rewrite H2. simpl. left. eauto.
  Qed.
End FaithfulDefs.

(* the checker before the fix, on a well-typed program of the fragment: accepted, or `Undefined` *)
Theorem check_before_fix_mono : forall p,
  mono_prog p = true -> has_type_b p = true -> (exists q, check_before_fix p = COk q) \/ check_before_fix p = CErr EUndefined.
Proof.
  intros p Hm Ht. pose proof Ht as Ht0. unfold has_type_b in Ht.
  apply andb_true_iff in Ht. destruct Ht as [Ht Hdefs]. apply andb_true_iff in Ht. destruct Ht as [Hn Hdecls].
  assert (Hps : forall td, In td (tdecls (fpdecls p)) ->
            nodup (td_params td) = true /\ forallb (fun q => negb (is_some (find_type (tdecls (fpdecls p)) q))) (td_params td) = true
            /\ forallb (xsig_ok (tdecls (fpdecls p)) (td_params td)) (td_xtors td) = true).
  { intros td Hin. unfold decls_ok in Hdecls. rewrite forallb_forall in Hdecls. specialize (Hdecls td Hin).
    unfold tdecl_ok in Hdecls. apply andb_true_iff in Hdecls. destruct Hdecls as [Hd H3].
    apply andb_true_iff in Hd. destruct Hd as [H1 H2]. auto. }
  destruct (build_symbol_table_ok p Hn) as [st Hb]; [intros td Hin; destruct (Hps td Hin) as [? [? ?]]; auto|].
  destruct (build_symbol_table_spec p st Hb) as [Tb [_ [Hty [Hc [Hd _]]]]].
  pose proof (mono_world_of_prog p Hm Hn) as W. pose proof (wf_world_of_prog p W Ht0) as WF.
  unfold check_before_fix, check_gen. rewrite Hb. simpl. unfold check_with_table_gen.
  rewrite (check_type_decls_ok_conv _ _ st (fpdecls p) Tb); [|intros td Hin; destruct (Hps td Hin) as [? [? ?]]; auto|intros td Hin; destruct (Hps td Hin) as [? [? ?]]; auto]. simpl.
  rewrite defs_of_fdefs.
  destruct (check_defs_faithful _ _ W WF (fdefs (fpdecls p)) st) as [[ds' [st1 [H1 I1]]]|Hu]; [|exact Tb|apply minv_start; assumption| |].
  { intros d Hin. rewrite forallb_forall in Hdefs. destruct (W_defs _ _ W d Hin). splits; auto.
    eapply mono_def_body; eassumption. }
  - rewrite H1. simpl.
    destruct (collect_types_ok st1 I1 (st_types st1)) as [[das cos] Hcol].
    { intros k v Hin. apply In_aget; [apply (mi_nodup _ I1)|assumption]. }
    rewrite Hcol. simpl. left. eauto.
  - rewrite Hu. right. reflexivity.
Qed.
