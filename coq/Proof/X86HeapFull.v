(* C09 / C06, known finding heap-exhaustion-unchecked: the allocation code does not stay inside the heap region.
   The code the generator emits for storing one integer field into a new object (Model/X86.v `x_store`, the model
   of Memory::store; equal to the real code on every run of the correspondence steps) is run on the ISA model from
   the state whose HEAP register holds a block h of the region, FREE the next block h + 64 (the frontier), heap
   zeroed (reuse and deferred lists empty).  From the LAST block of the region it faults: acquire_block inspects the
   header of the block in FREE = HEAP_BASE + HEAP_SIZE - no comparison with the end of the region is emitted.
   From the block before it runs to its end.  This is why every program-level claim carries `heap_fits`
   (Proof/X86HSimTop.v): the statement without it is false in the ISA model. *)
From Coq Require Import List ZArith NArith String Bool Lia.
From SCC Require Import Proof.X86Mem.
From SCC Require Import Base.Sexp Lang.AxSyn Sem.AxSem Model.Backend Model.X86 Sem.X86Sem.
Import ListNotations.
Open Scope Z_scope.

Definition hf_field : ctx := [mkb ("x"%string, 1%N) Ext I64].
Definition hf_code : list xcode := match x_store hf_field [] 0 with Ok (cs, _) => cs | Err _ => [] end.
Definition hf_sp : Z := STACK_TOP - 8 - 64 - SPILL_SPACE.
(* the field value 7 in the second temporary of position 0 *)
Definition hf_state (h : Z) : xstate :=
  rset (rset (rset (rset (init_state []) 0%N (Some hf_sp)) HEAP (Some h)) FREE (Some (h + 64))) 5%N (Some 7).
Definition hf_outcome (h : Z) : outcome := snd (fst (run 50 2000 (mk_image hf_code) 1 (hf_state h))).

Definition hf_end : outcome := OStuck "fell-off-the-end".          (* the code ran to its end *)
Definition hf_oob_load : outcome := OStuck "out-of-bounds-load".  (* fault of the ISA model: load outside heap and stack *)

(* "from every block of the region the allocation runs to its end" *)
Definition alloc_in_region_statement : Prop :=
  forall h : Z, is_blk h -> hf_outcome h = OStuck "fell-off-the-end".

Lemma hf_code_nonempty : hf_code <> [].
Proof. vm_compute. discriminate. Qed.

(* control: from the last block but one the code runs to its end, takes that block and leaves the last one in HEAP *)
Lemma alloc_before_last_ok :
  let r := run 50 2000 (mk_image hf_code) 1 (hf_state (HEAP_BASE + HEAP_SIZE - 128)) in
  snd (fst r) = OStuck "fell-off-the-end" /\
  rget (snd r) HEAP = Some (HEAP_BASE + HEAP_SIZE - 64) /\ rget (snd r) FREE = Some (HEAP_BASE + HEAP_SIZE) /\
  hword (snd r) (HEAP_BASE + HEAP_SIZE - 128 + 56) = 7.
Proof. vm_compute. repeat split; reflexivity. Qed.

(* from the last block: a load outside the region *)
Lemma alloc_at_last_faults : hf_outcome (HEAP_BASE + HEAP_SIZE - 64) = OStuck "out-of-bounds-load".
Proof. vm_compute. reflexivity. Qed.

Theorem alloc_in_region_refuted : ~ alloc_in_region_statement.
Proof.
  intros H. specialize (H (HEAP_BASE + HEAP_SIZE - 64)).
  rewrite alloc_at_last_faults in H.
  assert (B : is_blk (HEAP_BASE + HEAP_SIZE - 64)).
  { exists 524287. unfold HEAP_BASE, HEAP_SIZE. repeat split; lia. }
  specialize (H B). discriminate.
Qed.
