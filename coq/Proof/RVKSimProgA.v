(* CHAIN VERSION of Proof/RVHSimProgA.v (mechanical port: the relation is Proof/RVKSimRel.hrel).
   C08, forward simulation for HEAP statements: what the program-level induction carries along
   (`hinv`: the invariant of the instrumented machine of C09 - InvA with the pointers of the environment as
   roots, chains owned, values represented, the environment typed -, the slot-count invariant P03, and the
   room in the heap region for everything the run will still allocate), progress facts of the machine under
   the relation, and the initial relation.  The counterpart of Proof/X86HSimProgA.v. *)
From Coq Require Import List ZArith NArith String Bool Lia FMapPositive Permutation.
From SCC Require Import Base.Sexp Lang.AxSyn Sem.AxSem Sem.AxHeap Model.ParMoves Model.Backend Model.RV Sem.RVSem Sem.RVWf
     Model.Linearize Model.LinCheck Generated.Constants Proof.LinBasics Proof.LinTyping
     Proof.RVSel Proof.SubstGraph Proof.SubstBackends Proof.RVSubst Proof.RVSimAddr Proof.BackendInv Proof.RVSimRel Proof.RVSimStmt
     Proof.RVHeapAbs Proof.RVHDefs Proof.RVHMem Proof.RVHBridge Proof.RVKSimRel Proof.RVKSimStmt.
From SCC Require Model.Heap Proof.HeapMore Proof.HeapTrace Proof.HeapRep Proof.AxHeapTyping Proof.AxHeapSafe Proof.AxHeapSubst Proof.X86SimProg.
Import ListNotations.
Open Scope Z_scope.
Open Scope list_scope.

Module XP := SCC.Proof.X86SimProg.

(* ---------- runs of the instrumented machine ---------- *)
Lemma hsteps_cons p he hs s ops he' s' pr tr c' :
  hstep p he hs s = HStep ops he' s' pr -> hsteps p (mkhc he' (hrun ops hs) s') tr c' ->
  hsteps p (mkhc he hs s) (ops ++ tr) c'.
Proof.
  intros HS H. remember (mkhc he' (hrun ops hs) s') as c1 eqn:E1.
  induction H as [c|c tr c2 ops2 he2 s2 pr2 H IH HS2]; subst.
  - rewrite app_nil_r. rewrite <- (app_nil_l ops).
    apply (hsteps_step p (mkhc he hs s) [] (mkhc he hs s) ops he' s' pr); [apply hsteps_refl|exact HS].
  - rewrite app_assoc. eapply hsteps_step; [apply IH; reflexivity|exact HS2].
Qed.

Lemma hstep_machine_ops p he hs s ops he' s' pr : hstep p he hs s = HStep ops he' s' pr -> Forall machine_op ops.
Proof.
  intros H. destruct s; cbn [hstep] in H;
    repeat match type of H with
           | match ?x with _ => _ end = _ => destruct x eqn:?; try discriminate
           | (if ?x then _ else _) = _ => destruct x eqn:?; try discriminate
           end; inversion H; subst; try (constructor; fail); try (repeat constructor; fail).
  - unfold subst_ops. apply Forall_forall. intros o Ho. apply in_flat_map in Ho as (bt & _ & Ho).
    unfold AxHeap.rc_op in Ho. destruct (bchi (fst bt)); try (destruct Ho; fail);
      (destruct (List.length (snd bt)) as [|[|m]]; cbn in Ho; try (destruct Ho; fail); destruct Ho as [<-|[]]; exact I).
  - unfold load_ops. destruct (List.length _); repeat constructor.
  - unfold load_ops. destruct (List.length _); repeat constructor.
Qed.

Section Inv.
Variable p : prog.
Hypothesis LP : lin_check_prog p = true.

Record hinv (he : henv) (hs : Heap.st) (s : stmt) : Prop := mk_hinv {
  hi_inv : AxHeapSafe.HInv HEAP_BASE he hs;
  hi_wt : AxHeapTyping.cfg_wt p he s;
  hi_p03 : P03 hs;
  hi_fit : forall tr c', hsteps p (mkhc he hs s) tr c' -> Heap.frontier (hc_heap c') + 64 <= LIMIT
}.

Lemma hinv_step he hs s ops he' s' pr :
  hinv he hs s -> hstep p he hs s = HStep ops he' s' pr -> hinv he' (hrun ops hs) s'.
Proof.
  intros [HI WT K FIT] HS.
  destruct (AxHeapSafe.hstep_safe HEAP_BASE p he hs s ops he' s' pr WT HI HS) as (_ & _ & HI').
  split; [exact HI'|eapply AxHeapTyping.hstep_wt; eauto|apply P03_hrun; [exact K|eapply hstep_machine_ops; eauto]|].
  intros tr c' H. apply (FIT (ops ++ tr) c'). eapply hsteps_cons; eauto.
Qed.
Lemma hinv_invA he hs s : hinv he hs s -> exists hl fl cl, InvA HEAP_BASE hs (roots he) hl fl cl.
Proof. intros [(lk & IA & _) _ _ _]. exact IA. Qed.
Lemma hinv_fit0 he hs s : hinv he hs s -> Heap.frontier hs + 64 <= LIMIT.
Proof. intros H. apply (hi_fit _ _ _ H [] (mkhc he hs s)). apply hsteps_refl. Qed.
Lemma hinv_fit1 he hs s ops he' s' pr :
  hinv he hs s -> hstep p he hs s = HStep ops he' s' pr -> Heap.frontier (hrun ops hs) + 64 <= LIMIT.
Proof. intros H HS. apply (hinv_fit0 _ _ _ (hinv_step _ _ _ _ _ _ _ H HS)). Qed.
Lemma hinv_ptrs_ok he hs s : hinv he hs s -> forall en, In en he -> chi_of (h_val en) = Ext -> h_ptr en = 0.
Proof. intros [(lk & _ & _ & ER) _ _ _]. exact (AxHeapSafe.reps_ptrs_ok _ _ _ ER). Qed.
(* the representation of the last entry of the environment *)
Lemma hinv_last_rep he0 x v q hs s : hinv (he0 ++ [(x, v, q)]) hs s -> exists lk, HeapRep.rep lk (Heap.m hs) v q.
Proof.
  intros [(lk & _ & _ & ER) _ _ _]. exists lk. unfold AxHeapSafe.env_rep in ER.
  unfold ptrs in ER. rewrite !map_app in ER. apply HeapRep.reps_app_inv in ER as (p1 & p2 & E & _ & R2).
  cbn [map h_val h_ptr fst snd] in *. inversion R2 as [|v0 vs0 p0 pl0 RV RS]; subst. inversion RS; subst.
  apply app_inj_tail in E as [_ E]. subst p0. exact RV.
Qed.
End Inv.

(* ---------- names ---------- *)
Section Names.
Variable types : list tydecl.
Variable CLO : Z -> ident -> list clause -> ctx -> Prop.
Local Notation hrel := (hrel types CLO).

Lemma hrel_ctx_of c he hs s : hrel c he hs s -> map h_id he = vars c -> ctx_of he = c.
Proof.
  intros R NM. pose proof (hrel_length R) as LEN.
  apply nth_ext with (d := mkb (""%string, 0%N) Ext I64) (d' := mkb (""%string, 0%N) Ext I64); [unfold ctx_of; now rewrite map_length|].
  intros i Hi. unfold ctx_of in Hi. rewrite map_length in Hi.
  destruct (nth_error he i) as [[[x v] q]|] eqn:He; [|apply nth_error_None in He; lia].
  destruct (hr_vals R i x v q He) as (b & Hb & V).
  unfold ctx_of. rewrite (nth_indep _ _ (binding_of (x, v, q))) by (rewrite map_length; lia).
  rewrite map_nth, (nth_error_nth _ _ _ He), (nth_error_nth _ _ _ Hb).
  assert (EX : x = bvar b).
  { assert (H1 : nth_error (map h_id he) i = Some x) by (rewrite nth_error_map, He; reflexivity).
    rewrite NM in H1. unfold vars in H1. rewrite nth_error_map, Hb in H1. cbn in H1. congruence. }
  assert (EK : chi_of v = bchi b /\ ty_of v = bty b).
  { destruct V as [b z q t A B T Lg|b v q a t1 t2 A K1 K2 T1 T2 L1 L2 X]; cbn; split; congruence. }
  unfold binding_of. cbn [h_id h_val fst snd]. destruct b as [bv bc bt]. cbn in *. destruct EK. subst. reflexivity.
Qed.

(* integer operands *)
Lemma hlookup_of_in (he : henv) x : In x (env_ids (erase_env he)) -> exists en, hlookup he x = Some en.
Proof.
  induction he as [|[[y w] q] he IH]; cbn; [tauto|]. intros [E|H].
  - unfold h_id; cbn. rewrite E, N.eqb_refl. eauto.
  - unfold h_id; cbn. destruct (N.eqb (idn y) x); eauto.
Qed.
Lemma hhas_ext_lookup_int c he hs st a : hrel c he hs st -> has_ext c a = true -> exists x, lookup_int (erase_env he) a = Some x.
Proof.
  intros R H. unfold has_ext, has in H. destruct (lookup_b c (idn a)) as [b|] eqn:L; [|discriminate].
  apply lookup_b_Some in L as [Hin Hid]. apply andb_true_iff in H as [K T]. apply chi_eqb_eq in K. apply ty_eqb_eq in T.
  assert (I : In (idn a) (env_ids (erase_env he))).
  { rewrite (hr_ids R), <- Hid. now apply In_ids. }
  destruct (XP.lookup_of_in (erase_env he) _ I) as (v & Lv). destruct (hlookup_nth he _ _ Lv) as (i & y & q & Hi & Ey).
  destruct (hr_vals R i y v q Hi) as (b' & Hb' & V).
  destruct (henv_ctx_nth c he i y v q (hr_ids R) Hi) as (b0 & Hb0 & Eb0). assert (b0 = b') by congruence. subst b0.
  apply In_nth_error in Hin as (i' & Hi').
  assert (i' = i) by (eapply (ids_nth_inj c i' i b b'); eauto using (hr_nodup R); congruence). subst i'.
  assert (b' = b) by congruence. subst b'.
  inversion V; subst; [|congruence]. exists z. unfold lookup_int, lookup_id. now rewrite Lv.
Qed.
Lemma hsubst_total (he : henv) : forall re, (forall q, In q re -> In (idn (snd q)) (env_ids (erase_env he))) -> exists he', hsubst he re = Some he'.
Proof.
  induction re as [|[nb old] re IH]; intros H; cbn [hsubst]; [eauto|].
  destruct (hlookup_of_in he (idn old) (H (nb, old) (or_introl eq_refl))) as (en & ->).
  destruct IH as (he' & ->); [intros q Hq; apply H; now right|]. eauto.
Qed.
Lemma hsubst_names : forall re (he he' : henv), hsubst he re = Some he' -> map h_id he' = vars (map fst re).
Proof.
  induction re as [|[nb old] re IH]; intros he he' H; cbn [hsubst] in H.
  - inversion H. reflexivity.
  - destruct (hlookup he (idn old)) as [en|]; [|discriminate]. destruct (hsubst he re) as [hr|] eqn:R; [|discriminate].
    inversion H; subst. cbn. f_equal. eapply IH; eauto.
Qed.
Lemma attach_names : forall (e : env) ps, map h_id (attach e ps) = map fst e.
Proof. induction e as [|xv e IH]; intros [|q ps]; cbn; f_equal; auto. Qed.
End Names.

(* ---------- the entry state ---------- *)
Lemma init_hword args a : hword (init_state args) a = 0.
Proof. unfold hword, init_state. cbn [heap]. now rewrite PM.gempty. Qed.

Lemma hentry_rel types CLO c0 args e0 :
  bind (vars c0) (map VInt args) = Some e0 -> NoDup (ids c0) -> XR.ctx_int c0 = true -> (List.length args <= 14)%nat ->
  hrel types CLO c0 (attach e0 []) (Heap.init HEAP_BASE) (init_state args).
Proof.
  intros BD ND CI LE.
  assert (NA : forall r, (r = HEAP \/ r = FREE) -> forall i, (i < List.length args)%nat -> r <> arg_reg i).
  { intros r Hr i _. unfold arg_reg. change RESERVED with 4%N. change HEAP with 2%N in Hr. change FREE with 3%N in Hr. lia. }
  assert (RH : rget (init_state args) HEAP = Some HEAP_BASE) by (rewrite init_regs_other; [reflexivity|apply NA; auto|discriminate]).
  assert (RF : rget (init_state args) FREE = Some (HEAP_BASE + 64)) by (rewrite init_regs_other; [reflexivity|apply NA; auto|discriminate]).
  split.
  - exact RH.
  - exact RF.
  - split; [cbn [abs_heap Heap.heap Heap.init]; unfold reg_or0; now rewrite RH|]. split; [cbn [abs_heap Heap.free Heap.init]; unfold reg_or0; now rewrite RF|]. split; [reflexivity|].
    intros y _. cbn [abs_heap Heap.m Heap.init]. unfold abs_mem. rewrite !init_hword. split; reflexivity.
  - rewrite attach_erase. unfold env_ids. rewrite <- (map_map fst idn), (XS.bind_ids _ _ _ BD). unfold vars, ids. now rewrite map_map.
  - exact ND.
  - intros i x v q Hi. destruct (attach_nth _ _ _ _ _ _ Hi) as [He _].
    destruct (XS.bind_nth _ _ _ _ _ _ BD He) as (Hx & Hv).
    rewrite nth_error_map in Hv. destruct (nth_error args i) as [a|] eqn:Ha; [|discriminate]. cbn in Hv. inversion Hv; subst v.
    unfold vars in Hx. rewrite nth_error_map in Hx. destruct (nth_error c0 i) as [b|] eqn:Hb; [|discriminate].
    assert (Li : (i < List.length args)%nat) by (apply nth_error_Some; congruence).
    destruct (XS.ctx_int_nth c0 i b CI Hb) as (K & T).
    exists b. split; [reflexivity|].
    apply (hv_int types CLO _ i b a q (pos_reg Snd i) K T); [apply rtpos_lt; lia|].
    replace (pos_reg Snd i) with (arg_reg i) by (unfold pos_reg, arg_reg; cbn [tnum_n]; lia).
    now apply init_regs_arg.
Qed.
