(* C15, program level, programs WITH type parameters and type arguments: check (the code as it is,
   and the code before fix d524b1f) accepts only programs that satisfy the declarative rules -
   provided the types written inside data/codata declarations are well-formed ([decl_types_wf],
   the complement of the former finding C15-lazy-declaration-types; since fix eb42971 the checker
   establishes it, Proof/CheckDecls.v, and Proof/CheckFixed.v drops the hypothesis) and all type / constructor / destructor names are identifier-like ([prog_names_ok]; true of
   every parsed program). *)
From Coq Require Import List ZArith String Bool Permutation Lia.
From SCC Require Import Base.Sexp Lang.SynUtil Lang.FunSyn Model.Check Sem.FunTyping
  Proof.FunInd Proof.FunEq Proof.CheckAnn Proof.TypingReject Proof.CheckBuild Proof.CheckMono Proof.CheckMonoSound
  Proof.CheckMonoProg Proof.PrintInj Proof.CheckPoly Proof.CheckInstBase Proof.CheckPolySound.
From SCC Require Import Sem.FunClosed.
Import ListNotations.
Open Scope list_scope.

(* ---------- the two guards: prog_names_ok, decl_types_wf (definitions in Sem/FunNames.v) ---------- *)
Lemma decls_ok_types_wf : forall ts, decls_ok ts = true -> decl_types_wf ts = true.
Proof.
  intros ts H. unfold decls_ok, decl_types_wf in *. rewrite forallb_forall in *. intros t Ht.
  specialize (H t Ht). unfold tdecl_ok in H. apply andb_true_iff in H. tauto.
Qed.

(* ---------- the world of a program ---------- *)
Lemma poly_world_of_prog : forall p,
  prog_names_ok p = true -> names_ok (tdecls (fpdecls p)) (fdefs (fpdecls p)) = true ->
  (forall td, In td (tdecls (fpdecls p)) -> nodup (td_params td) = true) ->
  poly_world (tdecls (fpdecls p)) (fdefs (fpdecls p)).
Proof.
  intros p Hm Hn Hps. unfold prog_names_ok in Hm. rewrite forallb_forall in Hm.
  constructor; [assumption|assumption| | | | |].
  - intros td Hin. destruct (in_tdecls _ _ Hin) as [d [Hd Ht]]. specialize (Hm d Hd).
    destruct d as [d|d|d]; simpl in Ht; inversion Ht; subst; simpl in *; apply andb_true_iff in Hm; tauto.
  - intros td s Hin Hs. destruct (in_tdecls _ _ Hin) as [d [Hd Ht]]. specialize (Hm d Hd).
    destruct d as [d|d|d]; simpl in Ht; inversion Ht; subst; simpl in *.
    + apply andb_true_iff in Hm. destruct Hm as [_ Hm]. rewrite forallb_forall in Hm.
      apply in_map_iff in Hs. destruct Hs as [c [<- Hc]]. simpl. specialize (Hm c Hc). apply andb_true_iff in Hm. tauto.
    + apply andb_true_iff in Hm. destruct Hm as [_ Hm]. rewrite forallb_forall in Hm.
      apply in_map_iff in Hs. destruct Hs as [c [<- Hc]]. simpl. specialize (Hm c Hc).
      apply andb_true_iff in Hm. destruct Hm as [Hm _]. apply andb_true_iff in Hm. tauto.
  - intros td s Hin Hs. destruct (in_tdecls _ _ Hin) as [d [Hd Ht]]. specialize (Hm d Hd).
    destruct d as [d|d|d]; simpl in Ht; inversion Ht; subst; simpl in *.
    + apply andb_true_iff in Hm. destruct Hm as [_ Hm]. rewrite forallb_forall in Hm.
      apply in_map_iff in Hs. destruct Hs as [c [<- Hc]]. simpl. specialize (Hm c Hc). apply andb_true_iff in Hm.
      split; [tauto|reflexivity].
    + apply andb_true_iff in Hm. destruct Hm as [_ Hm]. rewrite forallb_forall in Hm.
      apply in_map_iff in Hs. destruct Hs as [c [<- Hc]]. simpl. specialize (Hm c Hc).
      apply andb_true_iff in Hm. destruct Hm as [Hm Hr]. apply andb_true_iff in Hm. split; [tauto|assumption].
  - intros d Hin. apply in_fdefs in Hin. specialize (Hm _ Hin). simpl in Hm.
    apply andb_true_iff in Hm. destruct Hm as [Hm _]. apply andb_true_iff in Hm. exact Hm.
  - intros td s Hin Hp Hs. destruct (in_tdecls _ _ Hin) as [d [Hd Ht]].
    destruct d as [d|d|d]; simpl in Ht; inversion Ht; subst; simpl in *; [discriminate|].
    apply in_map_iff in Hs. destruct Hs as [c [<- Hc]]. simpl. discriminate.
Qed.
Lemma names_def_body : forall p d, prog_names_ok p = true -> In d (fdefs (fpdecls p)) -> term_names_ok (fdbody d) = true.
Proof.
  intros p d Hm Hin. unfold prog_names_ok in Hm. rewrite forallb_forall in Hm.
  apply in_fdefs in Hin. specialize (Hm _ Hin). simpl in Hm. apply andb_true_iff in Hm. tauto.
Qed.

(* ---------- definitions ---------- *)
Section Defs.
  Variable ts : list tdecl.
  Variable fs : list fdef.
  Hypothesis W : poly_world ts fs.

  Lemma ctx_check_psound : forall c st st', ctx_names_ok c = true -> tables ts fs st -> pinv ts st ->
    ctx_check c st = COk st' ->
    forallb (fun b => wf_ty ts (fbty b)) c = true /\ pinv ts st' /\ same_templates st st' /\ grows st st'
    /\ ctx_declared (ikeys st') c = true.
  Proof.
    induction c as [|b r IH]; intros st st' Hm Tb I H; simpl in *.
    - inversion H; subst. auto 10 using same_templates_refl, grows_refl.
    - apply andb_true_iff in Hm. destruct Hm as [Hb Hr].
      apply cbind_ok in H. destruct H as [st1 [H1 H]].
      destruct (ty_check_sound ts fs W _ _ _ Hb Tb I H1) as [Hw [I1 [S1 [G1 Hi1]]]].
      destruct (IH st1 st' Hr (tables_same _ _ _ _ Tb S1) I1 H) as [Hwr [I2 [S2 [G2 C2]]]].
      rewrite Hw, Hwr. splits; eauto using same_templates_trans, grows_trans.
      rewrite C2, andb_true_r. eapply ty_declared_mono; [apply (grows_names_le _ _ G2)|]. apply has_inst_declared. exact Hi1.
  Qed.

  (* def.rs, since fix 5b8c76f: the return type of `main` is compared with i64 *)
  Lemma main_ret_check_psound : forall d st st', ty_names_ok (fdret d) = true -> tables ts fs st -> pinv ts st ->
    main_ret_check d st = COk st' -> main_ret_ok d = true /\ pinv ts st' /\ same_templates st st' /\ grows st st'.
  Proof.
    intros d st st' Hm Tb I H. unfold main_ret_check in H. unfold main_ret_ok.
    destruct (String.eqb (fdname d) "main").
    - destruct (check_equality_sound ts fs W FI64 (fdret d) st st' eq_refl Hm Tb I H) as [E [_ [I' [S [G _]]]]].
      rewrite <- E. splits; auto.
    - inversion H; subst. splits; auto using same_templates_refl, grows_refl.
  Qed.

  Lemma def_check_gen_psound : forall eager d st d' st',
    ctx_names_ok (fdctx d) = true -> ty_names_ok (fdret d) = true -> term_names_ok (fdbody d) = true ->
    tables ts fs st -> pinv ts st -> def_check_gen eager d st = COk (d', st') ->
    def_ok ts fs d = true /\ pinv ts st' /\ same_templates st st' /\ grows st st' /\ def_closed (ikeys st') d' = true.
  Proof.
    intros eager d st d' st' Hmc Hmr Hmb Tb I H. unfold def_check_gen in H.
    apply cbind_ok in H. destruct H as [[] [Hnd H]].
    apply cbind_ok in H. destruct H as [st1 [H1 H]].
    apply cbind_ok in H. destruct H as [st2a [H2 H]].
    apply cbind_ok in H. destruct H as [st2 [H2m H]].
    apply cbind_ok in H. destruct H as [[body' st3] [H3 H]]. inversion H; subst.
    apply ctx_no_dups_go_ok in Hnd. destruct Hnd as [Hnd _].
    destruct (ctx_check_psound _ _ _ Hmc Tb I H1) as [Hwc [I1 [S1 [G1 C1]]]].
    destruct (ty_check_sound ts fs W _ _ _ Hmr (tables_same _ _ _ _ Tb S1) I1 H2) as [Hwr [I2a [S2a [G2a Hi2]]]].
    assert (S02a : same_templates st st2a) by eauto using same_templates_trans.
    destruct (main_ret_check_psound d st2a st2 Hmr (tables_same _ _ _ _ Tb S02a) I2a H2m) as [Hmain [I2 [S2 G2m]]].
    assert (S02 : same_templates st st2) by eauto using same_templates_trans.
    assert (G2 : grows st1 st2) by eauto using grows_trans.
    destruct (check_term_gen_psound ts fs W (fdbody d) eager st2 (fdctx d) (fdret d) body' st' Hmb Hmc Hmr (tables_same _ _ _ _ Tb S02) I2 H3)
      as [K [I3 [S3 [G3 C3]]]].
    unfold def_ok. unfold E in K. rewrite Hmain, Hnd, Hwc, Hwr, K. splits; eauto using same_templates_trans, grows_trans.
    unfold def_closed. simpl. rewrite C3, andb_true_r.
    rewrite (ctx_declared_mono _ _ _ (grows_names_le _ _ (grows_trans _ _ _ G2 G3)) C1).
    exact (ty_declared_mono _ _ _ (grows_names_le _ _ (grows_trans _ _ _ G2m G3)) (has_inst_declared _ _ Hi2)).
  Qed.

  Lemma check_defs_gen_psound : forall eager ds st ds' st',
    (forall d, In d ds -> ctx_names_ok (fdctx d) = true /\ ty_names_ok (fdret d) = true /\ term_names_ok (fdbody d) = true) ->
    tables ts fs st -> pinv ts st -> check_defs_gen eager ds st = COk (ds', st') ->
    forallb (def_ok ts fs) ds = true /\ pinv ts st' /\ same_templates st st' /\ grows st st'
    /\ forallb (def_closed (ikeys st')) ds' = true.
  Proof.
    intros eager ds. induction ds as [|d r IH]; intros st ds' st' Hm Tb I H.
    - simpl in H. inversion H; subst. simpl. auto 10 using same_templates_refl, grows_refl.
    - simpl in H. apply cbind_ok in H. destruct H as [[d' st1] [H1 H]].
      apply cbind_ok in H. destruct H as [[r' st2] [H2 H]]. inversion H; subst.
      destruct (Hm d (or_introl eq_refl)) as [Hc [Hr Hb]].
      destruct (def_check_gen_psound eager d st d' st1 Hc Hr Hb Tb I H1) as [Hd [I1 [S1 [G1 C1]]]].
      destruct (IH st1 r' st' (fun d0 Hd0 => Hm d0 (or_intror Hd0)) (tables_same _ _ _ _ Tb S1) I1 H2) as [Hr' [I2 [S2 [G2 C2]]]].
      simpl. rewrite Hd, Hr'. splits; eauto using same_templates_trans, grows_trans.
      rewrite C2, andb_true_r. exact (def_closed_mono _ _ _ (grows_names_le _ _ G2) C1).
  Qed.
End Defs.

(* ---------- the theorem ---------- *)
Theorem check_gen_sound_poly : forall eager p q,
  prog_names_ok p = true -> decl_types_wf (tdecls (fpdecls p)) = true ->
  check_gen eager p = COk q -> has_type_b p = true.
Proof.
  intros eager p q Hm Hwf H. unfold check_gen in H.
  apply cbind_ok in H. destruct H as [st [Hb H]].
  destruct (build_symbol_table_spec p st Hb) as [Tb [Hn [Ht [Hc [Hd Hps]]]]].
  pose proof (poly_world_of_prog p Hm Hn (fun td Hin => proj1 (Hps td Hin))) as W.
  unfold check_with_table_gen in H.
  apply cbind_ok in H. destruct H as [[] [Hdecls H]].
  apply cbind_ok in H. destruct H as [[defs st1] [Hdefs H]].
  unfold has_type_b. rewrite Hn. simpl.
  apply andb_true_iff. split.
  - unfold decls_ok. apply forallb_forall. intros td Hin. unfold tdecl_ok.
    destruct (Hps td Hin) as [Hp1 Hp2]. rewrite Hp1, Hp2. simpl.
    unfold decl_types_wf in Hwf. rewrite forallb_forall in Hwf. auto.
  - rewrite defs_of_fdefs in Hdefs.
    eapply (check_defs_gen_psound _ _ W); [|exact Tb|apply pinv_start; assumption|exact Hdefs].
    intros d Hin. destruct (PW_defs _ _ W d Hin). splits; auto. eapply names_def_body; eassumption.
Qed.
