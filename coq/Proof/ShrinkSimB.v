(* Proof/ShrinkSimB.v (C04, fragment 2) - cases of the simulation lemma: renaming cuts
   <mu a.s | b>, <x | mu~ y.s> (shrunk by substitution) and the critical pair at i64. *)
From Coq Require Import List ZArith NArith String Bool Lia.
From SCC Require Import Base.Sexp Lang.SynUtil Lang.CoreSyn Lang.AxSyn Sem.AxSem Sem.FsCheck Model.Shrink
     Proof.ShrinkProof Proof.ShrinkSem Proof.ShrinkRn Proof.ShrinkRel Proof.ShrinkArgs Proof.ShrinkSimBase Proof.ShrinkSimA.
From SCC Require Sem.CoreSem.
Import ListNotations.
Open Scope list_scope.

Ltac start :=
  unfold FLs; intros k lbl G rho th st t st' A e ae Hinv Hck Hub Hib Hnc Hsh Hpf Hlift He out r Hrun Hg;
  destruct k as [|k]; [discriminate Hsh|]; rewrite shrink_stmt_S in Hsh.
Ltac invsh Hsh := match goal with Hrun : _ = ?r, Hg : good ?r |- _ => revert Hrun Hg; inv Hsh; intros Hrun Hg end.
Ltac occ := cbn [occurs occ_term]; tauto.

Section CasesB.
Variable p : fsprog.
Variable q : prog.
Notation P := (CoreSem.fs2c_prog p).
Notation data := (fspdata p).
Notation codata := (fspcodata p).
Notation defs := (fspdefs p).
Notation m0 := (fspmax p).
Notation D := (data ++ [cont_int]).
Notation IHn := (IHn p q).

(* <mu a.s | b>  =  s[a := b] *)
Lemma fl_ren_mu : forall n, IHn n -> forall c1 a s' t1 ty c2 b t2,
  FLs p q n (FsCut (FsMu c1 a s' t1) ty (FsXVar c2 b t2)).
Proof.
  intros n IH c1 a s' t1 ty c2 b t2. start. cbn [rn_stmt rn_term shrink_step shrink_cut] in Hsh. unfold shrink_renaming in Hsh.
  rewrite subst_is_rn, rn_comp in Hsh.
  rewrite check_stmt_cut_eq in Hck. apply seq_none in Hck as [Hty Hck]. apply seq_none in Hck as [Hcp Hck].
  rewrite check_term_mu_eq in Hcp. apply seq_none in Hcp as [_ Hcp]. apply seq_none in Hcp as [_ Hcs]. cbn [opp] in Hcs.
  cbn [check_term] in Hck. apply seq_none in Hck as [_ Hck]. apply seq_none in Hck as [_ Hcb].
  rewrite ib_stmt_cut, ib_term_mu in Hib. apply andb_prop in Hib as [Hib _]. apply andb_prop in Hib as [Hia Hib].
  apply id_le_le in Hia.
  cbn [ub_stmt ub_term] in Hub. rewrite andb_true_r in Hub. apply andb_prop in Hub as [Hua Hub]. apply negb_mem_notin in Hua.
  cbn [CoreSem.fs2c_stmt CoreSem.fs2c_term] in Hrun. core_step Hrun Hg n. cbn [CoreSem.khead] in Hrun.
  destruct (CoreSem.clookup e b) as [cv|] eqn:Hl; [|exfalso; eapply cont_stuck; eauto].
  destruct (erel_clookup p q _ _ _ _ _ _ _ _ _ He (inv_nd _ _ _ _ _ Hinv) Hl) as (b0 & Hf0 & Hb0 & _).
  apply flookup_in in Hf0 as [Hin0 _].
  destruct (erel_var p q _ _ _ _ _ _ _ _ _ _ _ He (inv_nd _ _ _ _ _ Hinv) Hcb ltac:(occ) Hl) as (HinA & av & Hla & Hv).
  destruct (vrel_kind_bk _ _ _ _ _ _ Hv) as [kv ->].
  assert (Hrun' : CoreSem.crun n P (CoreSem.Run (CoreSem.fs2c_stmt s') ((a, BK kv) :: e)) out = r).
  { cbn [CoreSem.cut_with_k] in Hrun. rewrite is_codata_same in Hrun. destruct (is_codata codata ty) eqn:Eco.
    - destruct ty as [|T]; [discriminate Eco|].
      destruct (vrel_cns_codata_inv _ _ _ _ _ _ Hv Eco) as (d & K & sg & args & fs & tn & Ekv & _). injection Ekv as ->. exact Hrun.
    - exact Hrun. }
  clear Hrun.
  assert (Hids : forall i, In i (cids [mkcb a CCns ty]) -> ~ In i (cids G) /\ (i <= m0)%N).
  { intros i [<-|[]]. auto. }
  assert (Hinv' : inv p ([mkcb a CCns ty] ++ G) (fun x => subst_ident (combine (cids [mkcb a CCns ty]) [rho b]) (rho x)) th st).
  { apply inv_ext; auto.
    - repeat constructor. intros [].
    - intros z [<-|[]]. rewrite <- Hb0. apply (inv_rng _ _ _ _ _ Hinv). exact Hin0. }
  assert (Hra : subst_ident [(cid_id a, rho b)] (rho a) = rho b).
  { rewrite (inv_rho _ _ _ _ _ Hinv a Hua Hia). cbn [subst_ident]. now rewrite N.eqb_refl. }
  assert (He' : erel p q n (fun y => occurs y s') (fun y => th (subst_ident [(cid_id a, rho b)] (rho y))) A
                  ([mkcb a CCns ty] ++ G) ((a, BK kv) :: e) ae).
  { eapply erel_alias_list with (pi := fun y => th (rho y)) (vs := [BK kv]) (avs := [av]).
    - eapply erel_weaken; [exact He | lia | intros x Hx; exact Hx | apply incl_refl].
    - intros b1 Hb1 Hn. split; [occ|]. cbn beta.
      pose proof (inv_old p _ _ _ _ [cid_id a] [rho b] _ Hinv Hb1 Hids) as Ho. cbn [combine] in Ho. rewrite Ho. reflexivity.
    - constructor; [|constructor]. eapply vrel_le; [|exact Hv]. lia.
    - cbn [map lookups cbvar]. rewrite Hra. unfold lookup_id. rewrite Hla. reflexivity.
    - intros b1 [<-|[]]. cbn [cbvar]. rewrite Hra. exact HinA.
    - reflexivity. }
  destruct (IH n ltac:(lia) s' k lbl _ _ th st t st' A _ ae Hinv' Hcs Hub Hib (nc_cut_mu_l _ _ _ _ _ _ _ Hnc) Hsh Hpf Hlift He' _ _ Hrun' Hg) as [m Hm].
  exists m. exact Hm.
Qed.

(* <x | mu~ y.s>  =  s[y := x] *)
Lemma fl_ren_mut : forall n, IHn n -> forall c1 x t1 ty c2 y s' t2,
  FLs p q n (FsCut (FsXVar c1 x t1) ty (FsMu c2 y s' t2)).
Proof.
  intros n IH c1 x t1 ty c2 y s' t2. start. cbn [rn_stmt rn_term shrink_step shrink_cut] in Hsh. unfold shrink_renaming in Hsh.
  rewrite subst_is_rn, rn_comp in Hsh.
  rewrite check_stmt_cut_eq in Hck. apply seq_none in Hck as [Hty Hck]. apply seq_none in Hck as [Hcp Hck].
  rewrite check_term_mu_eq in Hck. apply seq_none in Hck as [_ Hck]. apply seq_none in Hck as [_ Hcs]. cbn [opp] in Hcs.
  cbn [check_term] in Hcp. apply seq_none in Hcp as [_ Hcp]. apply seq_none in Hcp as [_ Hcx].
  rewrite ib_stmt_cut, ib_term_mu in Hib. apply andb_prop in Hib as [_ Hib]. apply andb_prop in Hib as [Hiy Hib].
  apply id_le_le in Hiy.
  cbn [ub_stmt ub_term andb] in Hub. apply andb_prop in Hub as [Huy Hub]. apply negb_mem_notin in Huy.
  cbn [CoreSem.fs2c_stmt CoreSem.fs2c_term] in Hrun. core_step Hrun Hg n. cbn [CoreSem.khead CoreSem.cut_with_k] in Hrun.
  destruct (CoreSem.clookup e x) as [cv|] eqn:Hl; [|exfalso; eapply cont_stuck; eauto].
  destruct (erel_clookup p q _ _ _ _ _ _ _ _ _ He (inv_nd _ _ _ _ _ Hinv) Hl) as (b0 & Hf0 & Hb0 & _).
  apply flookup_in in Hf0 as [Hin0 _].
  destruct (erel_var p q _ _ _ _ _ _ _ _ _ _ _ He (inv_nd _ _ _ _ _ Hinv) Hcx ltac:(occ) Hl) as (HinA & av & Hla & Hv).
  destruct (vrel_kind_bp _ _ _ _ _ _ Hv) as [pv ->]. cbn [CoreSem.interact_val cont] in Hrun.
  assert (Hids : forall i, In i (cids [mkcb y CPrd ty]) -> ~ In i (cids G) /\ (i <= m0)%N).
  { intros i [<-|[]]. auto. }
  assert (Hinv' : inv p ([mkcb y CPrd ty] ++ G) (fun z => subst_ident (combine (cids [mkcb y CPrd ty]) [rho x]) (rho z)) th st).
  { apply inv_ext; auto.
    - repeat constructor. intros [].
    - intros z [<-|[]]. rewrite <- Hb0. apply (inv_rng _ _ _ _ _ Hinv). exact Hin0. }
  assert (Hra : subst_ident [(cid_id y, rho x)] (rho y) = rho x).
  { rewrite (inv_rho _ _ _ _ _ Hinv y Huy Hiy). cbn [subst_ident]. now rewrite N.eqb_refl. }
  assert (He' : erel p q n (fun z => occurs z s') (fun z => th (subst_ident [(cid_id y, rho x)] (rho z))) A
                  ([mkcb y CPrd ty] ++ G) ((y, BP pv) :: e) ae).
  { eapply erel_alias_list with (pi := fun z => th (rho z)) (vs := [BP pv]) (avs := [av]).
    - eapply erel_weaken; [exact He | lia | intros z Hz; exact Hz | apply incl_refl].
    - intros b1 Hb1 Hn. split; [occ|]. cbn beta.
      pose proof (inv_old p _ _ _ _ [cid_id y] [rho x] _ Hinv Hb1 Hids) as Ho. cbn [combine] in Ho. rewrite Ho. reflexivity.
    - constructor; [|constructor]. eapply vrel_le; [|exact Hv]. lia.
    - cbn [map lookups cbvar]. rewrite Hra. unfold lookup_id. rewrite Hla. reflexivity.
    - intros b1 [<-|[]]. cbn [cbvar]. rewrite Hra. exact HinA.
    - reflexivity. }
  destruct (IH n ltac:(lia) s' k lbl _ _ th st t st' A _ ae Hinv' Hcs Hub Hib (nc_cut_mu_r _ _ _ _ _ _ _ Hnc) Hsh Hpf Hlift He' _ _ Hrun Hg) as [m Hm].
  exists m. exact Hm.
Qed.

(* <mu a.sp | mu~ x.sc> at i64: create a = { Ret(x) => sc }; sp   (producer first) *)
Lemma fl_crit_i64 : forall n, IHn n -> forall c1 a sp t1 c2 x sc t2,
  FLs p q n (FsCut (FsMu c1 a sp t1) CI64 (FsMu c2 x sc t2)).
Proof.
  intros n IH c1 a sp t1 c2 x sc t2. start.
  cbn [rn_stmt rn_term shrink_step shrink_cut shrink_critical_pairs] in Hsh. unfold shrink_identifier in Hsh.
  destruct (shrink_stmt k _ (rn_stmt rho sc) st) as [[body st1]|] eqn:E1; [|discriminate Hsh]. cbn [sbind] in Hsh.
  destruct (shrink_stmt k _ (rn_stmt rho sp) st1) as [[next st2]|] eqn:E2; [|discriminate Hsh]. cbn [sbind] in Hsh. invsh Hsh.
  rewrite check_stmt_cut_eq in Hck. apply seq_none in Hck as [Hty Hck]. apply seq_none in Hck as [Hcp Hck].
  rewrite check_term_mu_eq in Hcp. apply seq_none in Hcp as [_ Hcp]. apply seq_none in Hcp as [_ Hcsp]. cbn [opp] in Hcsp.
  rewrite check_term_mu_eq in Hck. apply seq_none in Hck as [_ Hck]. apply seq_none in Hck as [_ Hcsc]. cbn [opp] in Hcsc.
  rewrite ib_stmt_cut, !ib_term_mu in Hib. apply andb_prop in Hib as [Hib1 Hib2].
  apply andb_prop in Hib1 as [Hia Hibp]. apply andb_prop in Hib2 as [Hix Hibc]. apply id_le_le in Hia. apply id_le_le in Hix.
  cbn [ub_stmt ub_term] in Hub. apply andb_prop in Hub as [Hub1 Hub2].
  apply andb_prop in Hub1 as [Hua Hubp]. apply andb_prop in Hub2 as [Hux Hubc].
  apply negb_mem_notin in Hua. apply negb_mem_notin in Hux.
  rewrite pfresh_create in Hpf. apply andb_prop in Hpf as [Hpf Hpn]. apply andb_prop in Hpf as [Hpc Hpa].
  apply negb_memN_notin in Hpa. unfold pfresh_cls in Hpc. cbn [forallb fst snd ids map bvar fresh_list rev_append] in Hpc.
  rewrite !andb_true_r in Hpc. apply andb_prop in Hpc as [Hpx Hpb]. apply negb_memN_notin in Hpx.
  destruct (shrink_mono p _ _ _ _ _ _ _ Hibc (inv_st _ _ _ _ _ Hinv) E1) as [Hm1 (nd1 & Hl1)].
  assert (Hinv1 : inv p G rho th st1) by (eapply inv_st_mono; eauto).
  destruct (shrink_mono p _ _ _ _ _ _ _ Hibp (inv_st _ _ _ _ _ Hinv1) E2) as [Hm2 (nd2 & Hl2)].
  assert (Hlift1 : lifted_in q st1) by (eapply lifted_in_mono; eauto).
  cbn [CoreSem.fs2c_stmt CoreSem.fs2c_term] in Hrun. core_step Hrun Hg n.
  cbn [CoreSem.khead CoreSem.cut_with_k CoreSem.is_codata CoreSem.interact_mu cont] in Hrun.
  set (kv := CoreSem.KMuT x (CoreSem.fs2c_stmt sc) e) in *.
  set (cls := [(ret_name, [mkb x Ext I64], arn th body)]).
  assert (Hclo : vrel p q n CCns CI64 (BK kv) (VClo cont_name cls ae)).
  { apply VR_clo. apply cloR_intro; [exact I|]. intros j Hj tag fs sr (z & -> & -> & ->).
    exists (ret_name, [mkb x Ext I64], arn th body), [(x, VInt z)]. split; [reflexivity|]. split; [reflexivity|].
    intros out' r' Hr' Hg'. unfold kv in Hr'. cbn [CoreSem.interact_val cont] in Hr'.
    assert (He' : erel p q j (fun y => occurs y sc) (fun y => th (rho y)) (idn x :: A) (mkcb x CPrd CI64 :: G)
                    ((x, BP (PInt z)) :: e) ((x, VInt z) :: ae)).
    { eapply erel_push with (pi := fun y => th (rho y)) (need := fun y => occurs y (FsCut (FsMu c1 a sp t1) CI64 (FsMu c2 x sc t2))).
      - eapply erel_weaken; [exact He | lia | auto | apply incl_refl].
      - exact Hpx.
      - intros b0 _ Hb. split; [occ | reflexivity].
      - rewrite (inv_self p _ _ _ _ _ Hinv Hux Hix). reflexivity.
      - constructor. }
    destruct (IH j ltac:(lia) sc k lbl _ rho th st body st1 _ _ _ (inv_push p _ _ _ _ _ CPrd CI64 Hinv Hux Hix) Hcsc Hubc Hibc (nc_cut_mu_r _ _ _ _ _ _ _ Hnc) E1 Hpb Hlift1 He' _ _ Hr' Hg') as [m Hm].
    exists m. exact Hm. }
  assert (He' : erel p q n (fun y => occurs y sp) (fun y => th (rho y)) (idn a :: A) (mkcb a CCns CI64 :: G)
                  ((a, BK kv) :: e) ((a, VClo cont_name cls ae) :: ae)).
  { eapply erel_push with (pi := fun y => th (rho y)) (need := fun y => occurs y (FsCut (FsMu c1 a sp t1) CI64 (FsMu c2 x sc t2))).
    - eapply erel_weaken; [exact He | lia | auto | apply incl_refl].
    - exact Hpa.
    - intros b0 _ Hb. split; [occ | reflexivity].
    - rewrite (inv_self p _ _ _ _ _ Hinv Hua Hia). reflexivity.
    - exact Hclo. }
  destruct (IH n ltac:(lia) sp k lbl _ rho th st1 next st' _ _ _ (inv_push p _ _ _ _ _ CCns CI64 Hinv1 Hua Hia) Hcsp Hubp Hibp (nc_cut_mu_l _ _ _ _ _ _ _ Hnc) E2 Hpn Hlift He' _ _ Hrun Hg) as [m Hm].
  exists (S m). rewrite arn_create. cbn [exec_named cont_ty ty_name shrink_identifier]. exact Hm.
Qed.
End CasesB.
