(* C15, program level, programs WITH type parameters and type arguments: a program with
   identifier-like names that satisfies the declarative typing rules is accepted by the checker
   (the code since fix d524b1f); collecting the instances cannot hit the internal panic. *)
From Coq Require Import List ZArith String Bool Permutation Lia.
From SCC Require Import Base.Sexp Lang.SynUtil Lang.FunSyn Model.Check Sem.FunTyping
  Proof.FunInd Proof.FunEq Proof.CheckAnn Proof.TypingReject Proof.CheckBuild Proof.CheckMono Proof.CheckMonoSound
  Proof.CheckMonoProg Proof.CheckMonoComplete Proof.CheckMonoProgC
  Proof.PrintInj Proof.CheckPoly Proof.CheckPolySound Proof.CheckPolyProg Proof.CheckPolyComplete Proof.CheckDecls.
Import ListNotations.
Open Scope list_scope.

Lemma pwf_world_of_prog : forall p, has_type_b p = true ->
  pwf_world (tdecls (fpdecls p)) (fdefs (fpdecls p)).
Proof.
  intros p H. unfold has_type_b in H. apply andb_true_iff in H. destruct H as [H Hd].
  apply andb_true_iff in H. destruct H as [_ Hdecl]. unfold decls_ok in Hdecl. rewrite forallb_forall in Hdecl, Hd.
  constructor.
  - intros td s Hin Hs. specialize (Hdecl td Hin). unfold tdecl_ok in Hdecl.
    apply andb_true_iff in Hdecl. destruct Hdecl as [_ Hx]. rewrite forallb_forall in Hx. specialize (Hx s Hs).
    unfold xsig_ok in Hx. apply andb_true_iff in Hx. destruct Hx as [Ha Hr].
    split; [exact Ha|]. intros r Er. rewrite Er in Hr. exact Hr.
  - intros d Hin. specialize (Hd d Hin). unfold def_ok in Hd.
    apply andb_true_iff in Hd. destruct Hd as [Hd _]. apply andb_true_iff in Hd. destruct Hd as [Hd Hr].
    apply andb_true_iff in Hd. destruct Hd as [_ Hc]. split; assumption.
Qed.

Section DefsPC.
  Variable ts : list tdecl.
  Variable fs : list fdef.
  Hypothesis W : poly_world ts fs.
  Hypothesis WF : pwf_world ts fs.

  Lemma ctx_check_pok : forall c st, ctx_wf ts c = true -> tables ts fs st -> pinv ts st ->
    exists st', ctx_check c st = COk st' /\ pinv ts st' /\ same_templates st st'.
  Proof.
    induction c as [|b r IH]; intros st Hw Tb I; simpl in *.
    - exists st. auto using same_templates_refl.
    - apply andb_true_iff in Hw. destruct Hw as [Hwb Hwr].
      destruct (ty_check_ok ts fs W _ st Hwb Tb I) as [st1 [H1 [I1 [S1 _]]]]. rewrite H1. simpl.
      destruct (IH st1 Hwr (tables_same _ _ _ _ Tb S1) I1) as [st2 [H2 [I2 S2]]].
      exists st2. splits; eauto using same_templates_trans.
  Qed.

  Lemma main_ret_check_pok : forall d st, main_ret_ok d = true -> tables ts fs st -> pinv ts st ->
    exists st', main_ret_check d st = COk st' /\ pinv ts st' /\ same_templates st st'.
  Proof.
    intros d st Hm Tb I. unfold main_ret_check. unfold main_ret_ok in Hm.
    destruct (String.eqb (fdname d) "main").
    - apply fty_eqb_eq in Hm. rewrite Hm.
      destruct (check_equality_ok ts fs W FI64 st eq_refl Tb I) as [st' [H [I' [S _]]]]. eauto.
    - exists st. auto using same_templates_refl.
  Qed.

  Lemma def_check_pok : forall d st, def_ok ts fs d = true -> term_names_ok (fdbody d) = true ->
    tables ts fs st -> pinv ts st ->
    exists d' st', def_check_gen true d st = COk (d', st') /\ pinv ts st' /\ same_templates st st'.
  Proof.
    intros d st Hok Hmb Tb I. unfold def_ok in Hok.
    apply andb_true_iff in Hok. destruct Hok as [Hok Hk]. apply andb_true_iff in Hok. destruct Hok as [Hok Hwr].
    apply andb_true_iff in Hok. destruct Hok as [Hnd Hwc]. apply andb_true_iff in Hnd. destruct Hnd as [Hmain Hnd].
    assert (Hrun : exists d' st', def_check_gen true d st = COk (d', st')).
    { unfold def_check_gen. unfold ctx_no_dups. rewrite nodup_ctx_no_dups_go; [|assumption|intros ? ? []]. simpl.
      destruct (ctx_check_pok _ st Hwc Tb I) as [st1 [H1 [I1 S1]]]. rewrite H1. simpl.
      destruct (ty_check_ok ts fs W _ st1 Hwr (tables_same _ _ _ _ Tb S1) I1) as [st2a [H2 [I2a [S2a _]]]].
      rewrite H2. simpl. assert (S02a : same_templates st st2a) by eauto using same_templates_trans.
      destruct (main_ret_check_pok d st2a Hmain (tables_same _ _ _ _ Tb S02a) I2a) as [st2 [H2m [I2 S2]]].
      rewrite H2m. simpl. assert (S02 : same_templates st st2) by eauto using same_templates_trans.
      destruct (check_term_pcomplete ts fs W WF (fdbody d) st2 (fdctx d) (fdret d) Hmb (tables_same _ _ _ _ Tb S02) I2 Hwc Hwr Hk)
        as [b' [st3 H3]].
      rewrite H3. simpl. eauto. }
    destruct Hrun as [d' [st' Hrun]]. exists d', st'. split; [assumption|].
    destruct (def_check_gen_psound ts fs W true d st d' st' (ctx_wf_names_ok ts fs W _ Hwc) (wf_ty_names_ok ts fs W _ Hwr) Hmb Tb I Hrun)
      as [_ [I' [S' _]]]. auto.
  Qed.

  Lemma check_defs_pok : forall ds st,
    (forall d, In d ds -> def_ok ts fs d = true /\ term_names_ok (fdbody d) = true) ->
    tables ts fs st -> pinv ts st ->
    exists ds' st', check_defs_gen true ds st = COk (ds', st') /\ pinv ts st'.
  Proof.
    induction ds as [|d r IH]; intros st H Tb I; simpl.
    - exists [], st. auto.
    - destruct (H d (or_introl eq_refl)) as [Hok Hb].
      destruct (def_check_pok d st Hok Hb Tb I) as [d' [st1 [H1 [I1 S1]]]]. rewrite H1. simpl.
      destruct (IH st1 (fun d0 Hd0 => H d0 (or_intror Hd0)) (tables_same _ _ _ _ Tb S1) I1) as [r' [st2 [H2 I2]]].
      rewrite H2. simpl. eauto.
  Qed.
End DefsPC.

(* ---------- collecting the instances cannot panic ---------- *)
Lemma collect_ctors_pok : forall st sfx xs, (forall x, In x xs -> ahas (st_ctors st) (x ++ sfx)%string = true) ->
  exists r, collect_ctors st sfx xs = COk r.
Proof.
  induction xs as [|x r IH]; intros H; simpl; [eauto|].
  destruct (ahas_true _ _ (H x (or_introl eq_refl))) as [sg ->].
  destruct (IH (fun y Hy => H y (or_intror Hy))) as [r' ->]. simpl. eauto.
Qed.
Lemma collect_dtors_pok : forall st sfx xs, (forall x, In x xs -> ahas (st_dtors st) (x ++ sfx)%string = true) ->
  exists r, collect_dtors st sfx xs = COk r.
Proof.
  induction xs as [|x r IH]; intros H; simpl; [eauto|].
  destruct (ahas_true _ _ (H x (or_introl eq_refl))) as [[sg rt] ->].
  destruct (IH (fun y Hy => H y (or_intror Hy))) as [r' ->]. simpl. eauto.
Qed.
Lemma collect_types_pok : forall ts st, pinv ts st -> forall l, (forall k v, In (k, v) l -> aget (st_types st) k = Some v) ->
  exists r, collect_types st l = COk r.
Proof.
  intros ts st I l. induction l as [|[name [[pol targs] xs]] r IH]; intros H; simpl; [eauto|].
  pose proof (H name _ (or_introl eq_refl)) as Hg.
  destruct (IH (fun k v Hin => H k v (or_intror Hin))) as [[das cos] Hr].
  destruct pol.
  - destruct (collect_ctors_pok st (print_targs targs) xs) as [cs Hc].
    { intros x Hx. exact (pi_xtors_of _ _ I _ _ _ _ x Hg Hx). }
    rewrite Hc. simpl. rewrite Hr. simpl. eauto.
  - destruct (collect_dtors_pok st (print_targs targs) xs) as [cs Hc].
    { intros x Hx. exact (pi_xtors_of _ _ I _ _ _ _ x Hg Hx). }
    rewrite Hc. simpl. rewrite Hr. simpl. eauto.
Qed.

(* ---------- the theorem ---------- *)
Theorem check_complete_poly : forall p,
  prog_names_ok p = true -> has_type_b p = true -> exists q, check p = COk q.
Proof.
  intros p Hm Ht. pose proof Ht as Ht0. unfold has_type_b in Ht.
  apply andb_true_iff in Ht. destruct Ht as [Ht Hdefs]. apply andb_true_iff in Ht. destruct Ht as [Hn Hdecls].
  assert (Hps : forall td, In td (tdecls (fpdecls p)) ->
            nodup (td_params td) = true /\ forallb (fun q => negb (is_some (find_type (tdecls (fpdecls p)) q))) (td_params td) = true
            /\ forallb (xsig_ok (tdecls (fpdecls p)) (td_params td)) (td_xtors td) = true).
  { intros td Hin. unfold decls_ok in Hdecls. rewrite forallb_forall in Hdecls. specialize (Hdecls td Hin).
    unfold tdecl_ok in Hdecls. apply andb_true_iff in Hdecls. destruct Hdecls as [Hd H3].
    apply andb_true_iff in Hd. destruct Hd as [H1 H2]. auto. }
  destruct (build_symbol_table_ok p Hn) as [st Hb]; [intros td Hin; destruct (Hps td Hin) as [? [? ?]]; auto|].
  destruct (build_symbol_table_spec p st Hb) as [Tb [_ [Hty [Hc [Hd _]]]]].
  pose proof (poly_world_of_prog p Hm Hn (fun td Hin => proj1 (Hps td Hin))) as W.
  pose proof (pwf_world_of_prog p Ht0) as WF.
  unfold check, check_gen. rewrite Hb. simpl. unfold check_with_table_gen.
  rewrite (check_type_decls_ok_conv _ _ st (fpdecls p) Tb); [|intros td Hin; destruct (Hps td Hin) as [? [? ?]]; auto|intros td Hin; destruct (Hps td Hin) as [? [? ?]]; auto]. simpl.
  rewrite defs_of_fdefs.
  destruct (check_defs_pok _ _ W WF (fdefs (fpdecls p)) st) as [ds' [st1 [H1 I1]]]; [|exact Tb|apply pinv_start; assumption|].
  { intros d Hin. rewrite forallb_forall in Hdefs. split; [auto|]. eapply names_def_body; eassumption. }
  rewrite H1. simpl.
  destruct (collect_types_pok _ st1 I1 (st_types st1)) as [[das cos] Hcol].
  { intros k v Hin. apply In_aget; [apply (pi_nodup _ _ I1)|assumption]. }
  rewrite Hcol. simpl. eauto.
Qed.

(* the internal panic of check_with_table ("Couldn't find constructor .. in symbol_table") is
   unreachable: once the definitions have been checked, every instance in the table has all its
   xtor instances, so collecting the instances succeeds (before and after fix d524b1f) *)
Theorem collect_cannot_panic : forall eager p st defs st1,
  prog_names_ok p = true -> build_symbol_table p = COk st ->
  check_defs_gen eager (defs_of (fpdecls p)) st = COk (defs, st1) ->
  exists das cos, collect_types st1 (st_types st1) = COk (das, cos).
Proof.
  intros eager p st defs st1 Hm Hb Hdefs.
  destruct (build_symbol_table_spec p st Hb) as [Tb [Hn [Hty [Hc [Hd Hps]]]]].
  pose proof (poly_world_of_prog p Hm Hn (fun td Hin => proj1 (Hps td Hin))) as W.
  rewrite defs_of_fdefs in Hdefs.
  assert (Hnm : forall d, In d (fdefs (fpdecls p)) ->
            ctx_names_ok (fdctx d) = true /\ ty_names_ok (fdret d) = true /\ term_names_ok (fdbody d) = true).
  { intros d Hin. destruct (PW_defs _ _ W d Hin). splits; auto. eapply names_def_body; eassumption. }
  destruct (check_defs_gen_psound _ _ W eager _ st defs st1 Hnm Tb (pinv_start _ st Hty Hc Hd) Hdefs) as [_ [I1 _]].
  destruct (collect_types_pok _ st1 I1 (st_types st1)) as [[das cos] Hcol].
  { intros k v Hin. apply In_aget; [apply (pi_nodup _ _ I1)|assumption]. }
  eauto.
Qed.
