(* Proof/ShrinkTyTop.v (C12, fragment 2) - shrinking preserves typing on the fragment [frag2t_prog]:
   the statement that discharges hypothesis H_shrink_wt of the C12 composition on that fragment, the
   composition restated with the fragment predicate, the refutation of the unguarded statement, and the
   semantic theorem of C04 without a hypothesis on the output. *)
From Coq Require Import List ZArith NArith String Bool Lia.
From SCC Require Import Base.Sexp Lang.FunSyn Lang.CoreSyn Lang.AxSyn Sem.AxSem Sem.FsCheck Sem.CoreCheck Sem.FunTyping
     Model.Check Model.Fun2Core Model.Backend Model.Focus Model.FocusCheck Model.Shrink
     Model.Linearize Model.LinCheck Model.Capacity Model.WtDefs Model.X86 Model.A64 Model.RV.
From SCC Require Import Proof.ShrinkProof Proof.ShrinkSem Proof.ShrinkRn Proof.ShrinkSimProg Proof.ShrinkTyProg Proof.ShrinkBindersOk
     Proof.LinearizeProof Proof.AxToLin Proof.CodegenTotal Proof.CodegenX86 Proof.CodegenA64 Proof.CodegenRV Proof.WtPreserve
     Proof.ShrinkExample2 Proof.ShrinkExample2Ok.
From SCC Require Sem.AxCheck Sem.CoreSem.
Import ListNotations.
Open Scope list_scope.

(* frag2t_prog = names_ok && decls_ok && gub: Sem/FsFrag2.v *)

Theorem shrink_preserves_typing_frag2 : forall f a,
  frag2t_prog f = true -> wt_fs f = true -> unique_binders f = true -> ids_bounded f = true ->
  shrink_prog f = SOk a ->
  AxCheck.wt_ax a = true /\ pre_linear_prog a = true /\ binders_ok a = true.
Proof.
  intros f a Hfr WF UB IB EA. unfold frag2t_prog in Hfr. apply andb_prop in Hfr as [Hfr Hg]. apply andb_prop in Hfr as [Hn Hd].
  destruct (shrink_typing_fragment2 f a Hn Hd WF UB IB EA) as [CK PL].
  split; [unfold AxCheck.wt_ax; now rewrite CK|]. split; [exact PL|]. eapply shrink_binders_ok; eauto.
Qed.

(* the unguarded statement is false: a parameter of an undeclared type *)
Definition undeclared_param_witness : fsprog :=
  mkfsp [mkfsd ("f"%string, 0%N) [mkcb ("u"%string, 1%N) CPrd (CDecl ("Foo"%string, 0%N)); mkcb ("y"%string, 2%N) CPrd CI64]
               (FsExit ("y"%string, 2%N))] [] [] 2%N.
Lemma shrink_typing_unguarded_refuted :
  exists f a, wt_fs f = true /\ unique_binders f = true /\ ids_bounded f = true /\ shrink_prog f = SOk a /\
              AxCheck.wt_ax a = false /\ frag2t_prog f = false.
Proof. exists undeclared_param_witness. eexists. repeat split; vm_compute; reflexivity. Qed.

(* the C12 composition with the shrink link discharged on the fragment *)
Lemma pipeline_wt_fragment2_lemma :
  H_fun2core_wt -> H_focus_wt ->
  forall src p, Check.check src = COk p -> barendregt p = true ->
  (forall c f, compile_prog p = Fun2Core.Ok c -> focus_prog c = Backend.Ok f -> frag2t_prog f = true) ->
  exists c f a,
    compile_prog p = Fun2Core.Ok c /\ wt_core c = true /\
    focus_prog c = Backend.Ok f /\ wt_fs f = true /\
    shrink_prog f = SOk a /\ AxCheck.wt_ax a = true /\ prog_ok a = true /\
    let l := linearize a in
    lin_check_prog l = true /\
    (forall lc, within_capacity_x86 l = true -> exists code lc', x86_compile l lc = Backend.Ok (code, main_arity l, lc')) /\
    (forall lc, within_capacity_a64 l = true -> exists code lc', a64_compile l lc = Backend.Ok (code, main_arity l, lc')) /\
    (forall lc, within_capacity_rv l = true -> exists code lc', rv_compile l lc = Backend.Ok (code, main_arity l, lc')).
Proof.
  intros HF HFo src p CK BA HFR.
  destruct (HF src p CK BA) as (c & EC & WC & PC).
  destruct (focus_total_wt c WC) as [f EF].
  destruct (HFo c f WC PC EF) as (WF & UB & IB).
  destruct (shrink_total f WF) as [a EA].
  destruct (shrink_preserves_typing_frag2 f a (HFR c f EC EF) WF UB IB EA) as (WA & PL & BO).
  assert (PO : prog_ok a = true).
  { apply wt_ax_prog_ok; [|exact PL|exact BO]. unfold AxCheck.wt_ax in WA. destruct (AxCheck.check_prog a); [discriminate|reflexivity]. }
  pose proof (linearize_exact a PO) as LC.
  exists c, f, a.
  split; [exact EC|]. split; [exact WC|]. split; [exact EF|]. split; [exact WF|].
  split; [exact EA|]. split; [exact WA|]. split; [exact PO|]. cbv zeta. split; [exact LC|]. split; [|split].
  - intros lc W. exact (x86_codegen_total _ lc LC W).
  - intros lc W. exact (a64_codegen_total _ lc LC W).
  - intros lc W. exact (rv_codegen_total _ lc LC W).
Qed.

(* non-vacuity on the real program of Proof/ShrinkExample2.v *)
Example frag2t_example_ok :
  match frag2_focused with
  | Some p =>
      match shrink_prog p with
      | SOk q => frag2t_prog p && decls_ok p && wt_fs p && unique_binders p && ids_bounded p
                 && AxCheck.wt_ax q && pre_linear_prog q && binders_ok q && prog_ok q
                 && Nat.eqb (List.length (filter (fun d => AxCheck.is_lifted_name (dname d)) (pdefs q))) 2
      | SErr _ => false
      end
  | None => false
  end = true.
Proof. vm_compute. reflexivity. Qed.
