(* ======================================================================================
   Proof/UqTyProg  -  `uniquify` preserves typing, part 2 (C12): the renaming produced by the loop over a
   context ([uqc_ren]), the induction on the fuel of the model ([ut_all]), definitions and programs:
     wt_core c = true -> ids of c <= max_id -> uniquify_prog c = Ok c1 -> wt_core c1 = true.
   ====================================================================================== *)
From Coq Require Import List ZArith NArith String Bool Lia.
From SCC Require Import Base.Sexp Lang.SynUtil Lang.CoreSyn Sem.FsCheck Sem.CoreCheck
     Model.Backend Model.Uniquify Model.FocusCheck
     Proof.CoreInd Proof.SubstProof Proof.CheckLemmas Proof.UniquifyProof Proof.FocusKont Proof.UqSubst Proof.UqAeq Proof.UqProof
     Proof.CoreTyRules Proof.UqTy.
Import ListNotations.
Open Scope list_scope.
Open Scope N_scope.

Lemma mem_le_cids_in : forall m G b, mem_le m (cids G) -> In b G -> cid_id (cbvar b) <= m.
Proof. intros m G b H Hb. apply H. unfold cids. apply (in_map (fun b => cid_id (cbvar b))). exact Hb. Qed.
Lemma clookup_le : forall m G x b, mem_le m (cids G) -> clookup G x = Some b -> cid_id x <= m.
Proof. intros m G x b H Hl. rewrite <- (clookup_var _ _ _ Hl). eapply mem_le_cids_in; [exact H | eapply clookup_In; exact Hl]. Qed.

(* ---------- the renaming of a context ---------- *)
Lemma uqc_ren : forall ctx m ctx' vs cs m1 G0,
  uqc ctx m = (ctx', vs, cs, m1) -> NoDup (cvars ctx) -> mem_le m (cids ctx) -> mem_le m (cids G0) ->
  m <= m1 /\ ctx_like ctx ctx' /\ mem_le m1 (cids ctx') /\ NoDup (cvars ctx') /\
  tgt_in m m1 vs /\ tgt_in m m1 cs /\
  (forall k t, In (k, t) vs \/ In (k, t) cs -> cid_id k = 0 /\ In k (cvars ctx)) /\
  (forall b', In b' ctx' -> In b' ctx \/ m < cid_id (cbvar b')) /\
  ren_ok (ctx ++ G0) (ctx' ++ G0) vs cs.
Proof.
  induction ctx as [|b0 r IH]; intros m ctx' vs cs m1 G0 H Hnd Hm HG; simpl in H.
  - inversion H; subst. split; [lia|]. split; [constructor|]. split; [intros i []|]. split; [constructor|].
    split; [intros k t []|]. split; [intros k t []|]. split; [intros k t [[]|[]]|]. split; [intros b' []|].
    split; [intros k t []|]. split; [intros k t []|]. intros x b Hx. simpl in Hx. unfold rho.
    assert (Hs : sel (cbchi b) [] [] = []) by (destruct (cbchi b); reflexivity). rewrite Hs. simpl.
    rewrite Hx. rewrite <- (clookup_var _ _ _ Hx). destruct b; reflexivity.
  - simpl in Hnd. inversion Hnd as [|? ? Hn0 Hndr]; subst.
    assert (Hmr : mem_le m (cids r)) by (intros i Hi; apply Hm; right; exact Hi).
    assert (Hb0 : cid_id (cbvar b0) <= m) by (apply Hm; left; reflexivity).
    destruct (N.eqb (cid_id (cbvar b0)) 0) eqn:Z.
    + (* renamed *)
      destruct (uqc r (m + 1)) as [[[c0 v0] k0] m0] eqn:U.
      destruct (IH (m + 1) c0 v0 k0 m0 G0 U Hndr) as (L & CL & ML & ND & TV & TC & KY & NEWB & [E1 [E2 HB]]).
      { eapply mem_le_mono; [exact Hmr | lia]. } { eapply mem_le_mono; [exact HG | lia]. }
      set (nv := (cid_name (cbvar b0), m + 1)) in *.
      set (nb := mkcb nv (cbchi b0) (cbty b0)) in *.
      set (e := (cbvar b0, CXVar (cbchi b0) nv (cbty b0))).
      assert (Hshape : ctx' = nb :: c0 /\ m1 = m0 /\
                ((cbchi b0 = CPrd /\ vs = e :: v0 /\ cs = k0) \/ (cbchi b0 = CCns /\ vs = v0 /\ cs = e :: k0))).
      { unfold e, nb, nv. destruct (cbchi b0); inversion H; subst; (split; [reflexivity|]; split; [reflexivity|]); [left | right]; auto. }
      destruct Hshape as [-> [-> Hsh]]. clear H.
      assert (Hnvc0 : ~ In nv (cvars c0)).
      { intros Hin. unfold cvars in Hin. apply in_map_iff in Hin. destruct Hin as [b' [Eb Hb']].
        destruct (NEWB b' Hb') as [Hr|Hgt].
        - pose proof (mem_le_cids_in _ _ _ Hmr Hr) as Hle. rewrite Eb in Hle. simpl in Hle. lia.
        - rewrite Eb in Hgt. simpl in Hgt. lia. }
      assert (Hkey : forall k t, In (k, t) v0 \/ In (k, t) k0 -> k <> cbvar b0).
      { intros k t Hk ->. destruct (KY _ _ Hk) as [_ Hin]. contradiction. }
      assert (Hsel : forall c, sel c vs cs = (if cchi_eqb (cbchi b0) c then [e] else []) ++ sel c v0 k0).
      { intros c. destruct Hsh as [[Hc [-> ->]]|[Hc [-> ->]]]; rewrite Hc; destruct c; reflexivity. }
      split; [lia|]. split; [constructor; [simpl; auto | exact CL]|].
      split; [apply mem_le_cons; split; [simpl; lia | exact ML]|].
      split; [simpl; constructor; assumption|].
      assert (Te : forall c n ty, snd e = CXVar c n ty -> m < cid_id n <= m0).
      { intros c n ty He. unfold e in He. simpl in He. injection He as _ <- _. simpl. lia. }
      split.
      { intros k t Hin c n ty ->. destruct Hsh as [[_ [-> _]]|[_ [-> _]]].
        - destruct Hin as [Hin|Hin]; [apply (Te c n ty); rewrite Hin; reflexivity|].
          destruct (TV _ _ Hin c n ty eq_refl). lia.
        - destruct (TV _ _ Hin c n ty eq_refl). lia. }
      split.
      { intros k t Hin c n ty ->. destruct Hsh as [[_ [_ ->]]|[_ [_ ->]]].
        - destruct (TC _ _ Hin c n ty eq_refl). lia.
        - destruct Hin as [Hin|Hin]; [apply (Te c n ty); rewrite Hin; reflexivity|].
          destruct (TC _ _ Hin c n ty eq_refl). lia. }
      split.
      { intros k t Hin. apply N.eqb_eq in Z.
        assert (Hcase : (k, t) = e \/ In (k, t) v0 \/ In (k, t) k0).
        { destruct Hsh as [[_ [-> ->]]|[_ [-> ->]]]; destruct Hin as [Hin|Hin]; simpl in Hin; intuition. }
        destruct Hcase as [He|Hk]; [injection He as -> _; split; [exact Z | left; reflexivity]|].
        destruct (KY _ _ Hk) as [K1 K2]. split; [exact K1 | right; exact K2]. }
      split.
      { intros b' [<-|Hb']; [right; simpl; lia|]. destruct (NEWB b' Hb') as [Hr|Hgt]; [left; right; exact Hr | right; lia]. }
      (* ren_ok *)
      assert (Hent : forall c s0 s, ent_ok (r ++ G0) c s0 -> (forall k t, In (k, t) s0 -> k <> cbvar b0) ->
                (s = s0 \/ (s = e :: s0 /\ cbchi b0 = c)) -> ent_ok ((b0 :: r) ++ G0) c s).
      { intros c s0 s H0 Hk Hs k t Hin.
        assert (Hcase : (In (k, t) s0) \/ ((k, t) = e /\ cbchi b0 = c)).
        { destruct Hs as [->|[-> Hc]]; [left; exact Hin | destruct Hin as [Hin|Hin]; [right; split; [symmetry; exact Hin | exact Hc] | left; exact Hin]]. }
        destruct Hcase as [Hin0|[He Hc]].
        - destruct (H0 _ _ Hin0) as [n [ty [-> Hl]]]. exists n, ty. split; [reflexivity|].
          simpl. assert (Hne : cident_eqb (cbvar b0) k = false) by (apply ceq_id_neq; intros Eq; apply (Hk _ _ Hin0); auto).
          rewrite Hne. exact Hl.
        - injection He as -> ->. exists nv, (cbty b0). rewrite Hc. split; [reflexivity|]. simpl. rewrite ceq_id_refl.
          rewrite <- Hc. destruct b0; reflexivity. }
      split.
      { apply (Hent CPrd v0 vs E1); [intros k t Hin; apply (Hkey k t); left; exact Hin|].
        destruct Hsh as [[Hc [-> _]]|[_ [-> _]]]; [right; auto | left; reflexivity]. }
      split.
      { apply (Hent CCns k0 cs E2); [intros k t Hin; apply (Hkey k t); right; exact Hin|].
        destruct Hsh as [[_ [_ ->]]|[Hc [_ ->]]]; [left; reflexivity | right; auto]. }
      intros x b Hx. simpl in Hx. unfold rho. rewrite Hsel.
      destruct (cident_eqb (cbvar b0) x) eqn:Ex.
      * injection Hx as <-. apply ceq_id in Ex. subst x. rewrite ceq_chi_refl. simpl. rewrite ceq_id_refl. simpl.
        rewrite ceq_id_refl. reflexivity.
      * assert (Hfind : subst_find x ((if cchi_eqb (cbchi b0) (cbchi b) then [e] else []) ++ sel (cbchi b) v0 k0) = subst_find x (sel (cbchi b) v0 k0)).
        { destruct (cchi_eqb (cbchi b0) (cbchi b)); [|reflexivity]. simpl. rewrite Ex. reflexivity. }
        rewrite Hfind. fold (rho v0 k0 (cbchi b) x). simpl.
        assert (Hne : cident_eqb nv (rho v0 k0 (cbchi b) x) = false).
        { apply ceq_id_neq. intros Eq.
          destruct (rho_cases v0 k0 (cbchi b) x) as [[_ Hr]|[t [Hf Hr]]]; rewrite Hr in Eq.
          - assert (Hle : cid_id x <= m + 1).
            { eapply (clookup_le (m + 1) (r ++ G0)); [|exact Hx]. unfold cids. rewrite map_app. apply mem_le_app.
              split; eapply mem_le_mono; try eassumption; lia. }
            assert (Hle' : cid_id x <= m).
            { eapply (clookup_le m (r ++ G0)); [|exact Hx]. unfold cids. rewrite map_app. apply mem_le_app. split; assumption. }
            rewrite <- Eq in Hle'. simpl in Hle'. lia.
          - apply subst_find_key in Hf. destruct Hf as [_ Hf].
            assert (Ht : exists c n ty, t = CXVar c n ty).
            { destruct (cbchi b); simpl in Hf; [destruct (E1 _ _ Hf) as [n [ty [-> _]]] | destruct (E2 _ _ Hf) as [n [ty [-> _]]]]; eauto. }
            destruct Ht as [c [n [ty ->]]]. simpl in Eq.
            assert (Hn : m + 1 < cid_id n <= m0) by (destruct (cbchi b); simpl in Hf; [exact (TV _ _ Hf _ _ _ eq_refl) | exact (TC _ _ Hf _ _ _ eq_refl)]).
            rewrite <- Eq in Hn. simpl in Hn. lia. }
        rewrite Hne. apply HB. exact Hx.
    + (* kept *)
      destruct (uqc r m) as [[[c0 v0] k0] m0] eqn:U. inversion H; subst. clear H.
      destruct (IH m c0 vs cs m1 G0 U Hndr Hmr HG) as (L & CL & ML & ND & TV & TC & KY & NEWB & [E1 [E2 HB]]).
      apply N.eqb_neq in Z.
      assert (Hb0c0 : ~ In (cbvar b0) (cvars c0)).
      { intros Hin. unfold cvars in Hin. apply in_map_iff in Hin. destruct Hin as [b' [Eb Hb']].
        destruct (NEWB b' Hb') as [Hr|Hgt].
        - apply Hn0. rewrite <- Eb. apply in_map. exact Hr.
        - rewrite Eb in Hgt. lia. }
      assert (Hkey : forall k t, In (k, t) vs \/ In (k, t) cs -> k <> cbvar b0).
      { intros k t Hk ->. destruct (KY _ _ Hk) as [K0 _]. contradiction. }
      split; [lia|]. split; [constructor; [auto | exact CL]|].
      split; [apply mem_le_cons; split; [lia | exact ML]|].
      split; [simpl; constructor; assumption|].
      split; [exact TV|]. split; [exact TC|].
      split; [intros k t Hk; destruct (KY _ _ Hk) as [K1 K2]; split; [exact K1 | right; exact K2]|].
      split; [intros b' [<-|Hb']; [left; left; reflexivity | destruct (NEWB b' Hb'); [left; right; assumption | right; assumption]]|].
      assert (Hent : forall c s, ent_ok (r ++ G0) c s -> (forall k t, In (k, t) s -> k <> cbvar b0) -> ent_ok ((b0 :: r) ++ G0) c s).
      { intros c s H0 Hk k t Hin. destruct (H0 _ _ Hin) as [n [ty [-> Hl]]]. exists n, ty. split; [reflexivity|].
        simpl. assert (Hne : cident_eqb (cbvar b0) k = false) by (apply ceq_id_neq; intros Eq; apply (Hk _ _ Hin); auto).
        rewrite Hne. exact Hl. }
      split; [apply Hent; [exact E1 | intros k t Hin; apply (Hkey k t); left; exact Hin]|].
      split; [apply Hent; [exact E2 | intros k t Hin; apply (Hkey k t); right; exact Hin]|].
      intros x b Hx. simpl in Hx. simpl.
      destruct (cident_eqb (cbvar b0) x) eqn:Ex.
      * injection Hx as <-. apply ceq_id in Ex. subst x.
        assert (Hr : rho vs cs (cbchi b0) (cbvar b0) = cbvar b0).
        { unfold rho. assert (Hf : subst_find (cbvar b0) (sel (cbchi b0) vs cs) = None); [|rewrite Hf; reflexivity].
          apply subst_find_none. intros Hin. unfold keys in Hin. apply in_map_iff in Hin. destruct Hin as [[k t] [Ek Hin]].
          simpl in Ek. subst k. apply (Hkey (cbvar b0) t); [|reflexivity]. destruct (cbchi b0); simpl in Hin; auto. }
        rewrite Hr, ceq_id_refl. destruct b0; reflexivity.
      * assert (Hne : cident_eqb (cbvar b0) (rho vs cs (cbchi b) x) = false).
        { apply ceq_id_neq. intros Eq.
          destruct (rho_cases vs cs (cbchi b) x) as [[_ Hr]|[t [Hf Hr]]]; rewrite Hr in Eq.
          - subst x. rewrite ceq_id_refl in Ex. discriminate.
          - apply subst_find_key in Hf. destruct Hf as [_ Hf].
            assert (Ht : exists c n ty, t = CXVar c n ty).
            { destruct (cbchi b); simpl in Hf; [destruct (E1 _ _ Hf) as [n [ty [-> _]]] | destruct (E2 _ _ Hf) as [n [ty [-> _]]]]; eauto. }
            destruct Ht as [c [n [ty ->]]]. simpl in Eq.
            assert (Hn : m < cid_id n <= m1) by (destruct (cbchi b); simpl in Hf; [exact (TV _ _ Hf _ _ _ eq_refl) | exact (TC _ _ Hf _ _ _ eq_refl)]).
            rewrite <- Eq in Hn. lia. }
        rewrite Hne. apply HB. exact Hx.
Qed.

Lemma uqc_nil : forall ctx m ctx' m1, uqc ctx m = (ctx', [], [], m1) -> ctx' = ctx /\ m1 = m.
Proof.
  induction ctx as [|b r IH]; intros m ctx' m1 H; simpl in H; [inversion H; auto|].
  destruct (N.eqb (cid_id (cbvar b)) 0).
  - destruct (uqc r (m + 1)) as [[[c0 v0] k0] m0]. destruct (cbchi b); inversion H.
  - destruct (uqc r m) as [[[c0 v0] k0] m0] eqn:U. inversion H; subst. destruct (IH _ _ _ U) as [-> ->]. auto.
Qed.

Lemma ctx_like_fparams : forall ctx ctx' sig, ctx_like ctx ctx' -> fparams_ok ctx sig = true -> fparams_ok ctx' sig = true.
Proof.
  intros ctx ctx' sig H. revert sig. induction H as [|b b' r r' [H1 H2] Hr IH]; intros sig Hp; [exact Hp|].
  destruct sig as [|s sr]; [discriminate|]. simpl in *. apply andb_true_iff in Hp. destruct Hp as [Hp1 Hp2].
  rewrite (IH _ Hp2), andb_true_r. unfold csame_sig in *. rewrite H1, H2. exact Hp1.
Qed.

Section Ut.
Variables (data codata : list ctydecl) (defs defs1 : list cdef).
Notation ct := (ccheck_term data codata defs).
Notation cs := (ccheck_stmt data codata defs).
Notation ct1 := (ccheck_term data codata defs1).
Notation cs1 := (ccheck_stmt data codata defs1).

(* the uniquified definitions: same names, parameters of the same kinds and types *)
Hypothesis Hdefs : forall f d, find (fun d => cident_eqb (cdname d) f) defs = Some d ->
  exists d1, find (fun d => cident_eqb (cdname d) f) defs1 = Some d1 /\ ctx_like (cdctx d) (cdctx d1).

Lemma args_typed_like : forall G args sig sig', args_typed data codata defs1 G args sig -> ctx_like sig sig' ->
  args_typed data codata defs1 G args sig'.
Proof.
  intros G args sig sig' H. revert sig'. induction H as [|a s ar sr Ha Hr IH]; intros sig' HL; inversion HL as [|? s' ? sr' [H1 H2] HL']; subst; constructor.
  - unfold arg_typed in *. rewrite H1, H2. exact Ha.
  - apply IH. exact HL'.
Qed.

Definition clause_hdr (cl cl' : cclause) : Prop :=
  match cl, cl' with CClause c x ctx _, CClause c' x' ctx' _ => c' = c /\ x' = x /\ ctx_like ctx ctx' /\ NoDup (cvars ctx') end.

Definition UTt (f : nat) : Prop := forall t c Gc ty m t' m',
  uq_term f t m = Ok (t', m') -> ct Gc c ty t = None -> ids_le_term m t = true -> mem_le m (cids Gc) ->
  ct1 Gc c ty t' = None /\ m <= m'.
Definition UTc (f : nat) : Prop := forall cl Gc m cl' m',
  uq_clause f cl m = Ok (cl', m') -> clause_typed data codata defs Gc cl ->
  match cl with CClause _ _ ctx _ => NoDup (cvars ctx) end -> ids_le_clause m cl = true -> mem_le m (cids Gc) ->
  clause_typed data codata defs1 Gc cl' /\ m <= m' /\ clause_hdr cl cl'.
Definition UTs (f : nat) : Prop := forall s Gc m s' m',
  uq_stmt f s m = Ok (s', m') -> cs Gc s = None -> ids_le_stmt m s = true -> mem_le m (cids Gc) ->
  cs1 Gc s' = None /\ m <= m'.

Lemma ut_args : forall f, UTt f -> forall args Gc sig m args' m',
  maprs (uq_arg_with (uq_term f)) args m = Ok (args', m') -> args_typed data codata defs Gc args sig ->
  forallb (ids_le_arg m) args = true -> mem_le m (cids Gc) ->
  args_typed data codata defs1 Gc args' sig /\ m <= m'.
Proof.
  intros f H. induction args as [|a r IH]; intros Gc sig m args' m' Hu Ht Hid HG; simpl in Hu.
  - okinv Hu. inversion Ht; subst. split; [constructor | lia].
  - apply rbind_ok in Hu. destruct Hu as ([a' m1] & Ea & Hu). apply rbind_ok in Hu. destruct Hu as ([r' m2] & Er & Hu). okinv Hu.
    inversion Ht as [|? s ? sr Hs Hrs]; subst. simpl in Hid. apply andb_true_iff in Hid. destruct Hid as [Hi1 Hi2].
    assert (Ha : arg_typed data codata defs1 Gc a' s /\ m <= m1).
    { unfold arg_typed in *. destruct a as [p|p]; simpl in Ea; apply rbind_ok in Ea; destruct Ea as ([p' mp] & Ep & Ea); okinv Ea;
        destruct (cbchi s); try contradiction; eapply H; eauto. }
    destruct Ha as [A1 A2].
    destruct (IH Gc sr m1 r' m' Er Hrs) as [R1 R2].
    { eapply forallb_impl; [|exact Hi2]. intros x _ Hx. eapply ids_le_arg_mono; [|exact Hx]. exact A2. }
    { eapply mem_le_mono; eauto. }
    split; [constructor; assumption | lia].
Qed.

Lemma cclauses_nodup : forall side n cls xs, cclauses_match side n cls xs = None ->
  Forall (fun cl => match cl with CClause _ _ ctx _ => NoDup (cvars ctx) end) cls.
Proof.
  intros side n. induction cls as [|[c x ctx b] cr IH]; intros xs H; [constructor|].
  destruct xs as [|sg xr]; [discriminate|]. cbn [cclauses_match] in H.
  apply seqn in H. destruct H as [_ H]. apply seqn in H. destruct H as [_ H]. apply seqn in H. destruct H as [_ H].
  apply seqn in H. destruct H as [H4 H]. apply fens in H4. apply nodup_by_NoDup in H4.
  constructor; [exact H4 | eapply IH; exact H].
Qed.
Lemma cclauses_match_hdr : forall side n cls cls' xs, Forall2 clause_hdr cls cls' ->
  cclauses_match side n cls xs = None -> cclauses_match side n cls' xs = None.
Proof.
  intros side n cls cls' xs H. revert xs. induction H as [|cl cl' r r' Hh Hr IH]; intros xs Hm; [exact Hm|].
  destruct cl as [c x ctx b], cl' as [c' x' ctx' b']. destruct Hh as [-> [-> [HL HN]]].
  destruct xs as [|sg xr]; [discriminate|]. cbn [cclauses_match] in *.
  apply seqn in Hm. destruct Hm as [H1 Hm]. apply seqn in Hm. destruct Hm as [H2 Hm]. apply seqn in Hm. destruct Hm as [H3 Hm].
  apply seqn in Hm. destruct Hm as [H4 Hm]. apply fens in H3.
  apply seqn. split; [exact H1|]. apply seqn. split; [exact H2|].
  apply seqn. split; [apply fens; eapply ctx_like_fparams; eauto|].
  apply seqn. split; [apply fens; apply nodup_by_NoDup; exact HN|]. apply IH. exact Hm.
Qed.

Lemma ut_clauses : forall f, UTc f -> forall cls Gc m cls' m',
  maprs (uq_clause f) cls m = Ok (cls', m') -> Forall (clause_typed data codata defs Gc) cls ->
  Forall (fun cl => match cl with CClause _ _ ctx _ => NoDup (cvars ctx) end) cls ->
  forallb (ids_le_clause m) cls = true -> mem_le m (cids Gc) ->
  Forall (clause_typed data codata defs1 Gc) cls' /\ m <= m' /\ Forall2 clause_hdr cls cls'.
Proof.
  intros f H. induction cls as [|a r IH]; intros Gc m cls' m' Hu Ht Hn Hid HG; simpl in Hu.
  - okinv Hu. repeat split; try constructor. lia.
  - apply rbind_ok in Hu. destruct Hu as ([a' m1] & Ea & Hu). apply rbind_ok in Hu. destruct Hu as ([r' m2] & Er & Hu). okinv Hu.
    inversion Ht as [|? ? Hs Hrs]; subst. inversion Hn as [|? ? Hn1 Hn2]; subst.
    simpl in Hid. apply andb_true_iff in Hid. destruct Hid as [Hi1 Hi2].
    destruct (H a Gc m a' m1 Ea Hs Hn1 Hi1 HG) as [A1 [A2 A3]].
    destruct (IH Gc m1 r' m' Er Hrs Hn2) as [R1 [R2 R3]].
    { eapply forallb_impl; [|exact Hi2]. intros x _ Hx. eapply ids_le_clause_mono; [|exact Hx]. exact A2. }
    { eapply mem_le_mono; eauto. }
    split; [constructor; assumption|]. split; [lia | constructor; assumption].
Qed.

(* a context with its renaming: the body after the pending substitution is typed under the new context *)
Lemma uq_ctx_body : forall ctx body Gc m ctx' vs cs0 m1 body1,
  uq_context ctx m [] [] [] = (ctx', vs, cs0, m1) ->
  (if is_nil vs && is_nil cs0 then Ok body else subst_stmt body vs cs0) = Ok body1 ->
  cs (ctx ++ Gc) body = None -> NoDup (cvars ctx) ->
  forallb (fun i => N.leb i m) (cids ctx) = true -> ids_le_stmt m body = true -> mem_le m (cids Gc) ->
  cs (ctx' ++ Gc) body1 = None /\ ids_le_stmt m1 body1 = true /\ m <= m1 /\ mem_le m1 (cids ctx') /\
  ctx_like ctx ctx' /\ NoDup (cvars ctx').
Proof.
  intros ctx body Gc m ctx' vs cs0 m1 body1 Hc Hb Ht Hnd Hic Hib HG.
  rewrite uq_context_uqc in Hc.
  assert (Hmc : mem_le m (cids ctx)).
  { intros i Hi. rewrite forallb_forall in Hic. specialize (Hic i Hi). apply N.leb_le in Hic. exact Hic. }
  destruct (uqc_ren ctx m ctx' vs cs0 m1 Gc Hc Hnd Hmc HG) as (L & CL & ML & ND & TV & TC & KY & NEWB & Hro).
  destruct (is_nil vs && is_nil cs0) eqn:En.
  - okinv Hb. apply andb_true_iff in En. destruct En as [En1 En2]. destruct vs; [|discriminate]. destruct cs0; [|discriminate].
    destruct (uqc_nil _ _ _ _ Hc) as [-> ->]. repeat split; auto.
  - destruct (rn_stmt data codata defs body vs cs0 (ctx ++ Gc) (ctx' ++ Gc) m m1 Ht Hro TV TC Hib L) as [b' [E1 [B1 B2]]].
    rewrite E1 in Hb. okinv Hb. repeat split; auto.
Qed.

Theorem ut_all : forall f, UTt f /\ UTc f /\ UTs f.
Proof.
  induction f as [|f [IHt [IHc IHs]]].
  - split; [|split]; intros until 1; discriminate.
  - split; [|split].
    + (* terms *)
      intros t c Gc ty m t' m' Hu Ht Hid HG. destruct t as [c0 v ty0 | n | a o b | c0 v s ty0 | c0 x args ty0 | c0 cls ty0]; simpl in Hu.
      * okinv Hu. apply ct_var in Ht. split; [apply ct_var; exact Ht | lia].
      * okinv Hu. apply ct_lit in Ht. split; [apply ct_lit; exact Ht | lia].
      * apply rbind_ok in Hu. destruct Hu as ([a' m1] & Ea & Hu). apply rbind_ok in Hu. destruct Hu as ([b' m2] & Eb & Hu). okinv Hu.
        apply ct_op in Ht. destruct Ht as [-> [-> [Ha Hb]]]. simpl in Hid. apply andb_true_iff in Hid. destruct Hid as [Hi1 Hi2].
        destruct (IHt a CPrd Gc CI64 m a' m1 Ea Ha Hi1 HG) as [A1 A2].
        destruct (IHt b CPrd Gc CI64 m1 b' m' Eb Hb) as [B1 B2].
        { eapply ids_le_term_mono; eauto. } { eapply mem_le_mono; eauto. }
        split; [apply ct_op; auto | lia].
      * apply ct_mu in Ht. destruct Ht as [-> [-> Hs]]. simpl in Hid. apply andb_true_iff in Hid. destruct Hid as [Hiv His].
        apply N.leb_le in Hiv.
        destruct (N.eqb (cid_id v) 0) eqn:Z.
        -- (* renamed binder *)
           unfold fresh_identifier in Hu.
           set (nv := (cid_name v, m + 1)) in *.
           apply rbind_ok in Hu. destruct Hu as (s1 & Es & Hu). apply rbind_ok in Hu. destruct Hu as ([s2 m2] & Eu & Hu). okinv Hu.
           set (vb := mkcb v (opp c) ty) in *. set (nvb := mkcb nv (opp c) ty).
           assert (Hro : forall ps cs0, ((c = CPrd /\ ps = [] /\ cs0 = [(v, CXVar CCns nv ty)]) \/ (c = CCns /\ ps = [(v, CXVar CPrd nv ty)] /\ cs0 = [])) ->
                     ren_ok (vb :: Gc) (nvb :: Gc) ps cs0 /\ tgt_in m (m + 1) ps /\ tgt_in m (m + 1) cs0).
           { intros ps cs0 Hsh.
             assert (Hsel : forall c1, sel c1 ps cs0 = if cchi_eqb c1 (opp c) then [(v, CXVar (opp c) nv ty)] else []).
             { intros c1. destruct Hsh as [[-> [-> ->]]|[-> [-> ->]]]; destruct c1; reflexivity. }
             split; [|split].
             - split; [|split].
               + intros k t Hin. destruct Hsh as [[-> [-> ->]]|[-> [-> ->]]]; [destruct Hin|].
                 destruct Hin as [Hin|[]]. injection Hin as <- <-. exists nv, ty. split; [reflexivity|]. simpl. rewrite ceq_id_refl. reflexivity.
               + intros k t Hin. destruct Hsh as [[-> [-> ->]]|[-> [-> ->]]]; [|destruct Hin].
                 destruct Hin as [Hin|[]]. injection Hin as <- <-. exists nv, ty. split; [reflexivity|]. simpl. rewrite ceq_id_refl. reflexivity.
               + intros x b Hx. unfold rho. rewrite Hsel. simpl in Hx.
                 destruct (cident_eqb v x) eqn:Ex.
                 * injection Hx as <-. apply ceq_id in Ex. subst x. cbn [cbchi cbty vb]. rewrite ceq_chi_refl. simpl.
                   rewrite ceq_id_refl. simpl. rewrite ceq_id_refl. reflexivity.
                 * assert (Hf : subst_find x (if cchi_eqb (cbchi b) (opp c) then [(v, CXVar (opp c) nv ty)] else []) = None).
                   { destruct (cchi_eqb (cbchi b) (opp c)); [|reflexivity]. simpl. rewrite Ex. reflexivity. }
                   rewrite Hf. simpl.
                   assert (Hne : cident_eqb nv x = false).
                   { apply ceq_id_neq. intros <-. pose proof (clookup_le _ _ _ _ HG Hx) as Hle. simpl in Hle. lia. }
                   rewrite Hne, Hx. rewrite <- (clookup_var _ _ _ Hx). destruct b; reflexivity.
             - intros k t Hin c1 n1 ty1 ->. destruct Hsh as [[_ [-> _]]|[_ [-> _]]]; [destruct Hin|].
               destruct Hin as [Hin|[]]. injection Hin as _ _ <- _. simpl. lia.
             - intros k t Hin c1 n1 ty1 ->. destruct Hsh as [[_ [_ ->]]|[_ [_ ->]]]; [|destruct Hin].
               destruct Hin as [Hin|[]]. injection Hin as _ _ <- _. simpl. lia. }
           assert (Hs1 : cs (nvb :: Gc) s1 = None /\ ids_le_stmt (m + 1) s1 = true).
           { destruct c.
             - destruct (Hro [] [(v, CXVar CCns nv ty)]) as [R1 [R2 R3]]; [left; auto|].
               destruct (rn_stmt data codata defs s [] [(v, CXVar CCns nv ty)] (vb :: Gc) (nvb :: Gc) m (m + 1) Hs R1 R2 R3 His) as [s1' [E1 [S1 S2]]]; [lia|].
               unfold subst_covar_stmt in Es. rewrite E1 in Es. okinv Es. auto.
             - destruct (Hro [(v, CXVar CPrd nv ty)] []) as [R1 [R2 R3]]; [right; auto|].
               destruct (rn_stmt data codata defs s [(v, CXVar CPrd nv ty)] [] (vb :: Gc) (nvb :: Gc) m (m + 1) Hs R1 R2 R3 His) as [s1' [E1 [S1 S2]]]; [lia|].
               unfold subst_var_stmt in Es. rewrite E1 in Es. okinv Es. auto. }
           destruct Hs1 as [S1 S2].
           destruct (IHs s1 (nvb :: Gc) (m + 1) s2 m' Eu S1 S2) as [U1 U2].
           { apply mem_le_cons. split; [simpl; lia | eapply mem_le_mono; [exact HG | lia]]. }
           split; [apply ct_mu; auto | lia].
        -- apply rbind_ok in Hu. destruct Hu as ([s2 m2] & Eu & Hu). okinv Hu.
           destruct (IHs s (mkcb v (opp c) ty :: Gc) m s2 m' Eu Hs His) as [U1 U2].
           { apply mem_le_cons. split; [simpl; lia | exact HG]. }
           split; [apply ct_mu; auto | exact U2].
      * apply rbind_ok in Hu. destruct Hu as ([args' m1] & Ea & Hu). okinv Hu.
        apply ct_xtor in Ht. destruct Ht as [-> [-> [n [d [sg [-> [Hd [Hsg Ha]]]]]]]]. simpl in Hid.
        destruct (ut_args f IHt args Gc _ m args' m' Ea Ha Hid HG) as [A1 A2].
        split; [|exact A2]. apply ct_xtor. repeat split. exists n, d, sg. auto.
      * apply rbind_ok in Hu. destruct Hu as ([cls' m1] & Ec & Hu). okinv Hu.
        apply ct_xcase in Ht. destruct Ht as [-> [-> [n [d [-> [Hd [Hm Hcl]]]]]]]. simpl in Hid.
        destruct (ut_clauses f IHc cls Gc m cls' m' Ec Hcl (cclauses_nodup _ _ _ _ Hm) Hid HG) as [C1 [C2 C3]].
        split; [|exact C2]. apply ct_xcase. repeat split. exists n, d. repeat split; auto. eapply cclauses_match_hdr; eauto.
    + (* clauses *)
      intros [c x ctx body] Gc m cl' m' Hu Ht Hn Hid HG. simpl in Hu. unfold clause_typed in Ht.
      simpl in Hid. apply andb_true_iff in Hid. destruct Hid as [Hic Hib].
      destruct (uq_context ctx m [] [] []) as [[[ctx' vs] cs0] m1] eqn:Ec.
      apply rbind_ok in Hu. destruct Hu as (body1 & Eb & Hu). apply rbind_ok in Hu. destruct Hu as ([body2 m2] & Eu & Hu). okinv Hu.
      destruct (uq_ctx_body ctx body Gc m ctx' vs cs0 m1 body1 Ec Eb Ht Hn Hic Hib HG) as (B1 & B2 & B3 & B4 & B5 & B6).
      destruct (IHs body1 (ctx' ++ Gc) m1 body2 m' Eu B1 B2) as [U1 U2].
      { unfold cids. rewrite map_app. apply mem_le_app. split; [exact B4 | eapply mem_le_mono; eauto]. }
      split; [exact U1|]. split; [lia|]. simpl. auto.
    + (* statements *)
      intros s Gc m s' m' Hu Ht Hid HG. destruct s as [p ty k | so a b t e | nl a next | g args ty | a ty]; simpl in Hu.
      * apply rbind_ok in Hu. destruct Hu as ([p' m1] & Ep & Hu). apply rbind_ok in Hu. destruct Hu as ([k' m2] & Ek & Hu). okinv Hu.
        apply cs_cut in Ht. destruct Ht as [Hty [Hp Hk]]. simpl in Hid. apply andb_true_iff in Hid. destruct Hid as [Hi1 Hi2].
        destruct (IHt p CPrd Gc ty m p' m1 Ep Hp Hi1 HG) as [P1 P2].
        destruct (IHt k CCns Gc ty m1 k' m' Ek Hk) as [K1 K2].
        { eapply ids_le_term_mono; eauto. } { eapply mem_le_mono; eauto. }
        split; [apply cs_cut; auto | lia].
      * apply rbind_ok in Hu. destruct Hu as ([a' m1] & Ea & Hu). apply rbind_ok in Hu. destruct Hu as ([b' m2] & Eb & Hu).
        apply rbind_ok in Hu. destruct Hu as ([t' m3] & Et & Hu). apply rbind_ok in Hu. destruct Hu as ([e' m4] & Ee & Hu). okinv Hu.
        apply cs_ifc in Ht. destruct Ht as [Ha [Hb [Htt Hte]]]. simpl in Hid.
        apply andb_true_iff in Hid. destruct Hid as [Hid Hie]. apply andb_true_iff in Hid. destruct Hid as [Hid Hit].
        apply andb_true_iff in Hid. destruct Hid as [Hia Hib].
        destruct (IHt a CPrd Gc CI64 m a' m1 Ea Ha Hia HG) as [A1 A2].
        assert (HB : match b' with Some b1 => ct1 Gc CPrd CI64 b1 = None | None => True end /\ m1 <= m2).
        { destruct b as [b0|].
          - apply rbind_ok in Eb. destruct Eb as ([b1 mb] & Eb & Eb'). okinv Eb'.
            eapply IHt; eauto; [eapply ids_le_term_mono; eauto | eapply mem_le_mono; eauto].
          - okinv Eb. split; [exact I | lia]. }
        destruct HB as [B1 B2].
        destruct (IHs t Gc m2 t' m3 Et Htt) as [T1 T2].
        { eapply ids_le_stmt_mono; [|exact Hit]. lia. } { eapply mem_le_mono; [exact HG | lia]. }
        destruct (IHs e Gc m3 e' m' Ee Hte) as [E1 E2].
        { eapply ids_le_stmt_mono; [|exact Hie]. lia. } { eapply mem_le_mono; [exact HG | lia]. }
        split; [apply cs_ifc; auto | lia].
      * apply rbind_ok in Hu. destruct Hu as ([a' m1] & Ea & Hu). apply rbind_ok in Hu. destruct Hu as ([n' m2] & En & Hu). okinv Hu.
        apply cs_print in Ht. destruct Ht as [Ha Hn]. simpl in Hid. apply andb_true_iff in Hid. destruct Hid as [Hi1 Hi2].
        destruct (IHt a CPrd Gc CI64 m a' m1 Ea Ha Hi1 HG) as [A1 A2].
        destruct (IHs next Gc m1 n' m' En Hn) as [N1 N2].
        { eapply ids_le_stmt_mono; eauto. } { eapply mem_le_mono; eauto. }
        split; [apply cs_print; auto | lia].
      * apply rbind_ok in Hu. destruct Hu as ([args' m1] & Ea & Hu). okinv Hu.
        apply cs_call in Ht. destruct Ht as [Hty [d [Hd Ha]]]. simpl in Hid.
        destruct (ut_args f IHt args Gc _ m args' m' Ea Ha Hid HG) as [A1 A2].
        destruct (Hdefs g d Hd) as [d1 [Hd1 HL]].
        split; [|exact A2]. apply cs_call. split; [exact Hty|]. exists d1. split; [exact Hd1|].
        eapply args_typed_like; eauto.
      * apply rbind_ok in Hu. destruct Hu as ([a' m1] & Ea & Hu). okinv Hu.
        apply cs_exit in Ht. destruct Ht as [Hty Ha]. simpl in Hid.
        destruct (IHt a CPrd Gc CI64 m a' m' Ea Ha Hid HG) as [A1 A2].
        split; [apply cs_exit; auto | exact A2].
Qed.
End Ut.
