(* C07, forward simulation, part 6: closures without captured variables (`create v : T = (){ clauses }`,
   `invoke v D`).  Such a closure needs no heap block: its first temporary is the null pointer and its
   second temporary the address (ADR) of the code the Create statement emitted after its continuation - a
   jump table (one `B` of 4 bytes per destructor) followed by the clause bodies, or the single clause.
   Invoke is `BR tmp` (one destructor) resp. `ADD tmp, tmp, #4k; BR tmp` (table entry k), through X2 when the
   closure lives in a spill slot.  This file: what `code_statement` emits for Create / Invoke, where the
   clause bodies sit in the image and how an indirect branch reaches them (`clo_ok`), and the two
   statement-level simulation theorems.  Port of Proof/X86SimClo.v. *)
From Coq Require Import List ZArith NArith String Bool Lia FMapPositive.
From SCC Require Import Base.Sexp Lang.AxSyn Sem.AxSem Model.ParMoves Model.Backend Model.A64 Sem.A64Sem
     Model.Linearize Model.LinCheck Generated.Constants Proof.LinBasics
     Proof.A64State Proof.A64ImmHw Proof.A64Imm Proof.A64Sel Proof.A64PM Proof.A64Exec
     Proof.A64MemSubst Proof.SubstGraph Proof.SubstBackends Proof.A64Subst Proof.A64Wf Proof.A64Print
     Proof.A64SimRel Proof.A64SimStmt Proof.A64SimAddr.
Import ListNotations.
Open Scope Z_scope.
Open Scope list_scope.

(* ---------- what code_statement emits ---------- *)
Section CC.
Variables (types : list tydecl) (env : ctx) (fresh : string).
Fixpoint clauses_code (l : list clause) (lc : N) {struct l} : res (list acode * N) :=
  match l with
  | [] => Ok ([], lc)
  | (x, cx, body) :: r =>
      dor ld <- a_load env cx lc;
      let '(cl, lc1) := ld in
      dor bd <- acs types body (cx ++ env) lc1;
      let '(cb, lc2) := bd in
      dor rs <- clauses_code r lc2;
      let '(cr, lc3) := rs in
      Ok ([LAB (fresh +++ "_" +++ show_ident x)] ++ cl ++ cb ++ cr, lc3)
  end.
End CC.

Definition table_or_nil (cls : list clause) (fresh : string) : list acode :=
  if Nat.leb (List.length cls) 1 then [] else code_table a64_backend cls fresh.

Lemma cs_create types v t env cls next c lc code lc' :
  acs types (Create v t (Some env) cls next) c lc = Ok (code, lc') ->
  exists rest cenv c1 lc1 tmpv c3 lc3 c5,
    Backend.split_last (List.length env) c = Ok (rest, cenv) /\
    a_store cenv rest lc = Ok (c1, lc1) /\
    avt (rest ++ [mkb v Cns t]) (idn v) = Ok tmpv /\
    acs types next (rest ++ [mkb v Cns t]) (lc1 + 1)%N = Ok (c3, lc3) /\
    clauses_code types cenv (type_label t (lc1 + 1)%N) cls lc3 = Ok (c5, lc') /\
    code = c1 ++ a_load_label tmpv (type_label t (lc1 + 1)%N) ++ c3 ++
           ([LAB (type_label t (lc1 + 1)%N)] ++ table_or_nil cls (type_label t (lc1 + 1)%N)) ++ c5.
Proof.
  intros H. cbn [code_statement] in H.
  destruct (Backend.split_last (List.length env) c) as [[rest cenv]|] eqn:SL; cbn [rbind] in H; [|discriminate].
  cbn [b_store a64_backend a64_backend_with] in H.
  destruct (a_store cenv rest lc) as [[c1 lc1]|] eqn:ST; cbn [rbind] in H; [|discriminate].
  destruct (avt (rest ++ [mkb v Cns t]) (idn v)) as [tmpv|] eqn:TV; cbn [rbind] in H; [|discriminate].
  destruct (acs types next (rest ++ [mkb v Cns t]) (lc1 + 1)%N) as [[c3 lc3]|] eqn:NX; cbn [rbind] in H; [|discriminate].
  match type of H with
  | context [rbind (?f cls lc3) _] => change (f cls lc3) with (clauses_code types cenv (type_label t (lc1 + 1)%N) cls lc3) in H
  end.
  destruct (clauses_code types cenv (type_label t (lc1 + 1)%N) cls lc3) as [[c5 lc5]|] eqn:CC; cbn [rbind] in H; [|discriminate].
  cbn [b_mark b_label b_load_label a64_backend a64_backend_with app fst snd] in H. inversion H; subst.
  exists rest, cenv, c1, lc1, tmpv, c3, lc3, c5. repeat split; auto.
Qed.

Lemma cs_invoke types v tag t args c lc code lc' :
  acs types (Invoke v tag t args) c lc = Ok (code, lc') ->
  exists tmpv d, avt c (idn v) = Ok tmpv /\ lookup_type types t = Ok d /\ lc' = lc /\
    if Nat.leb (List.length (txtors d)) 1 then code = a_jump tmpv
    else exists k, xtor_position (txtors d) tag 0 = Ok k /\ code = a_add_and_jump tmpv (jump_length k).
Proof.
  intros H. cbn [code_statement] in H.
  destruct (avt c (idn v)) as [tmpv|] eqn:TV; cbn [rbind] in H; [|discriminate].
  destruct (lookup_type types t) as [d|] eqn:LT; cbn [rbind] in H; [|discriminate].
  exists tmpv, d. split; [reflexivity|]. split; [reflexivity|].
  destruct (Nat.leb (List.length (txtors d)) 1).
  - cbn [rbind b_mark b_jump a64_backend a64_backend_with app fst snd] in H. inversion H; subst. auto.
  - destruct (xtor_position (txtors d) tag 0) as [k|] eqn:XP; cbn [rbind] in H; [|discriminate].
    cbn [rbind b_mark b_add_and_jump b_jump_length a64_backend a64_backend_with app fst snd] in H. inversion H; subst. eauto.
Qed.

(* ---------- the code of a statement of the fragment ends with an instruction of non-zero size ---------- *)
Definition ends_nz (cs : list acode) : Prop := exists pre c, cs = pre ++ [c] /\ 0 < isize c.
Lemma ends_nz_app a b : ends_nz b -> ends_nz (a ++ b).
Proof. intros (pre & c & -> & H). exists (a ++ pre), c. split; [now rewrite app_assoc|exact H]. Qed.
Lemma ends_nz_last a c : 0 < isize c -> ends_nz (a ++ [c]).
Proof. intros H. exists a, c. auto. Qed.

Lemma clauses_ends_nz types env fresh : forall cls lc c5 lc',
  Forall (fun c => forall ct lc code lc', stmt_cf (cl_body c) = true -> acs types (cl_body c) ct lc = Ok (code, lc') -> ends_nz code) cls ->
  cls <> [] -> clauses_cf cls = true ->
  clauses_code types env fresh cls lc = Ok (c5, lc') -> ends_nz c5.
Proof.
  induction cls as [|[[x cx] body] r IH]; intros lc c5 lc' FA NE CF H; [congruence|].
  cbn [clauses_code] in H.
  destruct (a_load env cx lc) as [[cl lc1]|] eqn:LD; cbn [rbind] in H; [|discriminate].
  destruct (acs types body (cx ++ env) lc1) as [[cb lc2]|] eqn:BD; cbn [rbind] in H; [|discriminate].
  destruct (clauses_code types env fresh r lc2) as [[cr lc3]|] eqn:RS; cbn [rbind] in H; [|discriminate].
  inversion H; subst c5 lc'. inversion FA as [|? ? P0 FA']; subst.
  cbn [clauses_cf forallb cl_ctx cl_body fst snd] in CF. apply andb_true_iff in CF as [CF0 CF']. apply andb_true_iff in CF0 as [_ SB].
  apply (ends_nz_app [_]), ends_nz_app. destruct r as [|c' r'].
  - cbn [clauses_code] in RS. inversion RS; subst. rewrite app_nil_r. exact (P0 _ _ _ _ SB BD).
  - apply ends_nz_app. eapply IH; eauto. discriminate.
Qed.

Lemma bcc_nz so l : 0 < isize (bcc so l). Proof. destruct so; cbn; lia. Qed.

Lemma cs_ends_nz types : forall s c lc code lc',
  stmt_cf s = true -> acs types s c lc = Ok (code, lc') -> ends_nz code.
Proof.
  intros s. induction s using stmt_ind2; intros c lc code lc' CF CS; cbn [stmt_cf] in CF; try discriminate.
  - apply andb_true_iff in CF as [_ CF].
    destruct (cs_substitute _ _ _ _ _ _ _ CS) as (c1 & lc1 & c2 & c3 & _ & _ & NX & ->). apply ends_nz_app, ends_nz_app. eauto.
  - destruct (cs_call _ _ _ _ _ _ _ CS) as (-> & _). apply (ends_nz_last []). cbn; lia.
  - destruct (stmt_cf_create v t env cls s CF) as (-> & NE & CFc & CFn).
    destruct (cs_create _ _ _ _ _ _ _ _ _ _ CS) as (rest & cenv & c1 & lc1 & tmpv & c3 & lc3 & c5 & _ & _ & _ & _ & CC & ->).
    apply ends_nz_app, ends_nz_app, ends_nz_app, ends_nz_app. eapply clauses_ends_nz; eauto.
  - destruct (cs_invoke _ _ _ _ _ _ _ _ _ CS) as (tmpv & d & _ & _ & _ & CD).
    destruct (Nat.leb (List.length (txtors d)) 1).
    + subst code. destruct tmpv; cbn [a_jump]; [apply (ends_nz_last [])|apply (ends_nz_last [_])]; cbn; lia.
    + destruct CD as (k & _ & ->). destruct tmpv; cbn [a_add_and_jump]; [apply ends_nz_last|apply ends_nz_app, ends_nz_last]; cbn; lia.
  - destruct (cs_literal _ _ _ _ _ _ _ _ CS) as (tv & c2 & _ & NX & ->). apply ends_nz_app. eauto.
  - destruct (cs_op _ _ _ _ _ _ _ _ _ _ CS) as (tv & ta & tb & c2 & _ & _ & _ & NX & ->). apply ends_nz_app. eauto.
  - destruct (cs_print _ _ _ _ _ _ _ _ CS) as (tv & c2 & _ & NX & ->). apply ends_nz_app. eauto.
  - apply andb_true_iff in CF as [CF1 CF2].
    destruct (cs_ifc _ _ _ _ _ _ _ _ _ _ CS) as (ta & c1 & c2 & lc2 & c3 & _ & _ & _ & TH & ->).
    apply ends_nz_app, ends_nz_app, ends_nz_app. eauto.
  - destruct (cs_exit _ _ _ _ _ _ CS) as (tv & _ & -> & _). apply ends_nz_last. cbn; lia.
Qed.

(* the labels and directives a piece of code starts with *)
Fixpoint lead (cs : list acode) : nat :=
  match cs with [] => O | c :: r => if isize c =? 0 then S (lead r) else O end.
Lemma lead_spec : forall cs, ends_nz cs ->
  exists c, nth_error cs (lead cs) = Some c /\ 0 < isize c /\ size_of (firstn (lead cs) cs) = 0.
Proof.
  induction cs as [|c0 r IH]; intros (pre & c & E & SZ); [destruct pre; discriminate|].
  cbn [lead]. destruct (Z.eqb_spec (isize c0) 0) as [Z0|NZ].
  - assert (ER : ends_nz r).
    { destruct pre as [|p0 pre]; cbn [app] in E; inversion E; subst; [lia|]. exists pre, c. auto. }
    destruct (IH ER) as (c1 & N1 & S1 & F1). exists c1. cbn [nth_error firstn size_of]. rewrite F1. repeat split; auto. lia.
  - exists c0. cbn [nth_error firstn size_of]. pose proof (isize_nonneg c0). repeat split; auto. lia.
Qed.

(* where clause k sits in the clause code *)
Lemma clauses_code_nth types env fresh : forall cls lc c5 lc' k x cx body,
  clauses_code types env fresh cls lc = Ok (c5, lc') -> nth_error cls k = Some (x, cx, body) ->
  exists pre lc0 cl lc1 cb lc2 post,
    c5 = pre ++ [LAB (fresh +++ "_" +++ show_ident x)] ++ cl ++ cb ++ post /\
    a_load env cx lc0 = Ok (cl, lc1) /\ acs types body (cx ++ env) lc1 = Ok (cb, lc2) /\ (k = O -> pre = []).
Proof.
  induction cls as [|[[x0 cx0] body0] r IH]; intros lc c5 lc' k x cx body H Hk; [destruct k; discriminate|].
  cbn [clauses_code] in H.
  destruct (a_load env cx0 lc) as [[cl lc1]|] eqn:LD; cbn [rbind] in H; [|discriminate].
  destruct (acs types body0 (cx0 ++ env) lc1) as [[cb lc2]|] eqn:BD; cbn [rbind] in H; [|discriminate].
  destruct (clauses_code types env fresh r lc2) as [[cr lc3]|] eqn:RS; cbn [rbind] in H; [|discriminate].
  inversion H; subst c5 lc'. destruct k as [|k]; cbn [nth_error] in Hk.
  - inversion Hk; subst. exists [], lc, cl, lc1, cb, lc2, cr. auto.
  - destruct (IH _ _ _ _ _ _ _ RS Hk) as (pre & lc0 & cl' & lc1' & cb' & lc2' & post & -> & L & B & _).
    exists ([LAB (fresh +++ "_" +++ show_ident x0)] ++ cl ++ cb ++ pre), lc0, cl', lc1', cb', lc2', post.
    split; [|split; [auto|split; [auto|discriminate]]]. rewrite <- !app_assoc. reflexivity.
Qed.

(* the jump table *)
Lemma code_table_nth cls fresh k c :
  nth_error cls k = Some c -> nth_error (code_table a64_backend cls fresh) k = Some (B (fresh +++ "_" +++ show_ident (cl_xtor c))).
Proof.
  unfold code_table. cbn [b_jump_label_fixed a64_backend a64_backend_with]. revert k.
  induction cls as [|c0 r IH]; intros k H; [destruct k; discriminate|]. cbn [flat_map app].
  destruct k as [|k]; cbn [nth_error] in *; [inversion H; reflexivity|auto].
Qed.
Lemma code_table_length cls fresh : List.length (code_table a64_backend cls fresh) = List.length cls.
Proof. unfold code_table. cbn [b_jump_label_fixed a64_backend a64_backend_with]. induction cls; cbn; auto. Qed.
Lemma code_table_size cls fresh : forall k, (k <= List.length cls)%nat -> size_of (firstn k (code_table a64_backend cls fresh)) = 4 * Z.of_nat k.
Proof.
  unfold code_table. cbn [b_jump_label_fixed a64_backend a64_backend_with].
  induction cls as [|c0 r IH]; intros k H; cbn [List.length] in H.
  - destruct k; [reflexivity|lia].
  - destruct k as [|k]; [reflexivity|]. cbn [flat_map app firstn size_of isize]. rewrite IH by lia. lia.
Qed.

Lemma size_of_app a b : size_of (a ++ b) = size_of a + size_of b.
Proof. induction a as [|c a IH]; cbn [app size_of]; [reflexivity|]. rewrite IH. lia. Qed.
Lemma a_load_nil cx lc : a_load [] cx lc = Ok ([], lc).
Proof. reflexivity. Qed.
Lemma a_store_nil c lc : a_store [] c lc = dor t <- a_fresh Fst c; Ok (a_load_immediate t 0, lc).
Proof. reflexivity. Qed.
Lemma wrap_small_range z : 0 <= z < 4611686018427387904 -> wrap z = z.
Proof. unfold wrap, two63, two64. intros H. rewrite Z.mod_small by lia. lia. Qed.

Section Clo.
Variable im : image.
Variable p : prog.
Hypothesis IMG : img_ok im.
Hypothesis SMALL : forall pc a, PM.find pc (addr_of im) = Some a -> a < 4611686018427387904.

(* the static facts the simulation needs about a clause *)
Definition clause_static (c : clause) : Prop :=
  lin_check (sigs_of p) (cl_ctx c) (cl_body c) = true /\ stmt_cf (cl_body c) = true /\ ctx_cf (cl_ctx c) = true /\
  stmt_lits (cl_body c) = true.

(* what the second temporary of a closure variable points to: clause k of a closure whose clauses are the
   declared destructors in declaration order is entered, by an indirect branch to a (one clause) or to
   a + 4k (jump table), at an index i from which every run continues like from the code generated for its body
   (i is the first real instruction of the body resp. the table entry `B clause_label`), with the state
   unchanged; the body is linearly well-typed in the clause context and belongs to the fragment *)
Definition clo_ok (a : Z) (tn : ident) (cls : list clause) : Prop :=
  cls_ok (sigs_of p) (Decl tn) cls = true /\ 0 <= a /\
  forall k c, nth_error cls k = Some c ->
    exists i pcb lcb cb lcb',
      a + (if Nat.leb (List.length cls) 1 then 0 else jump_length (N.of_nat k)) < 4611686018427387904 /\
      PM.find (key (a + (if Nat.leb (List.length cls) 1 then 0 else jump_length (N.of_nat k)))) (index_at im) = Some i /\
      (forall s o, finishes im pcb s o -> finishes im i s o) /\
      acs (ptypes p) (cl_body c) (cl_ctx c) lcb = Ok (cb, lcb') /\ code_at im pcb cb /\ labels_at_nh im pcb cb /\
      clause_static c.

(* the entries of a jump table *)
Lemma table_entry pcl fresh cls R a :
  code_at im pcl ([LAB fresh] ++ code_table a64_backend cls fresh ++ R) ->
  PM.find pcl (addr_of im) = Some a ->
  forall k, (k < List.length cls)%nat ->
    PM.find (padd pcl (1 + k)) (addr_of im) = Some (a + 4 * Z.of_nat k) /\
    PM.find (key (a + 4 * Z.of_nat k)) (index_at im) = Some (padd pcl (1 + k)).
Proof.
  intros CA A k Hk.
  set (tb := code_table a64_backend cls fresh) in *.
  assert (LT : List.length tb = List.length cls) by apply code_table_length.
  destruct (nth_error cls k) as [ck|] eqn:Ek; [|apply nth_error_None in Ek; lia].
  pose proof (code_table_nth cls fresh k ck Ek) as Et. fold tb in Et.
  assert (NTH : nth_error ([LAB fresh] ++ tb ++ R) (1 + k) = Some (B (fresh +++ "_" +++ show_ident (cl_xtor ck)))).
  { cbn [app Nat.add nth_error]. rewrite nth_error_app1; [exact Et|]. apply nth_error_Some. congruence. }
  assert (ADDR : PM.find (padd pcl (1 + k)) (addr_of im) = Some (a + 4 * Z.of_nat k)).
  { rewrite (addr_along im IMG _ pcl a CA A (1 + k) _ NTH).
    f_equal. cbn [app Nat.add firstn size_of isize]. rewrite firstn_app.
    replace (k - List.length tb)%nat with O by lia. cbn [firstn]. rewrite app_nil_r.
    unfold tb. rewrite code_table_size by lia. lia. }
  split; [exact ADDR|].
  apply (io_index im IMG _ (B (fresh +++ "_" +++ show_ident (cl_xtor ck)))); [apply CA; exact NTH|cbn; lia|exact ADDR].
Qed.

(* the closure code a Create statement emits establishes clo_ok for the address of its label *)
Lemma create_layout pc P fresh tn cls c5 lc3 lc5 :
  code_at im pc (P ++ ([LAB fresh] ++ table_or_nil cls fresh) ++ c5) ->
  labels_at_nh im pc (P ++ ([LAB fresh] ++ table_or_nil cls fresh) ++ c5) ->
  hash_name fresh = false ->
  clauses_code (ptypes p) [] fresh cls lc3 = Ok (c5, lc5) ->
  cls <> [] -> cls_ok (sigs_of p) (Decl tn) cls = true ->
  (forall c, In c cls -> clause_static c) ->
  exists a, label_addr im fresh = Some a /\ clo_ok a tn cls.
Proof.
  intros CA LA NH CC NE CO ST.
  (* the label and its address *)
  pose proof CA as CA'. apply code_at_app in CA' as [_ CAl]. set (pcl := padd pc (List.length P)) in *.
  rewrite <- app_assoc in CAl. pose proof CAl as CAl'. apply code_at_cons in CAl' as [CL _].
  destruct (io_addr im IMG pcl _ CL) as (a & AL & GE).
  assert (FL : find_label (labels im) fresh = Some pcl).
  { apply (LA (List.length P) fresh); [|exact NH]. apply nth_error_mid. }
  exists a. split; [exact (label_addr_at im fresh pcl a FL AL)|].
  split; [exact CO|]. split; [unfold CODE_BASE in GE; lia|].
  intros k c Hk.
  destruct c as [[x cx] body].
  destruct (clauses_code_nth _ _ _ _ _ _ _ k x cx body CC Hk) as (pre5 & lc0 & cl & lc1 & cb & lc2 & post5 & E5 & LD & BD & PRE0).
  rewrite a_load_nil in LD. inversion LD; subst cl lc1. rewrite app_nil_r in BD. cbn [app] in E5.
  pose proof (ST _ (nth_error_In _ _ Hk)) as STk. pose proof STk as (S1 & S2 & S3 & S4). cbn [cl_ctx cl_body fst snd] in *.
  assert (Lk : (k < List.length cls)%nat) by (apply nth_error_Some; congruence).
  (* position of the clause label and of the body *)
  set (tb := table_or_nil cls fresh) in *.
  set (lx := fresh +++ "_" +++ show_ident x) in *.
  assert (CODE : code_at im pcl ([LAB fresh] ++ tb ++ pre5 ++ [LAB lx] ++ cb ++ post5)).
  { rewrite E5 in CAl. exact CAl. }
  assert (LABS : labels_at_nh im pcl ([LAB fresh] ++ tb ++ pre5 ++ [LAB lx] ++ cb ++ post5)).
  { apply labels_at_nh_app in LA as [_ LA]. fold pcl in LA. rewrite <- app_assoc, E5 in LA. exact LA. }
  set (jl := (1 + List.length tb + List.length pre5)%nat).
  assert (NL : nth_error ([LAB fresh] ++ tb ++ pre5 ++ [LAB lx] ++ cb ++ post5) jl = Some (LAB lx)).
  { unfold jl. cbn [app Nat.add nth_error]. rewrite nth_error_app2 by lia. rewrite nth_error_app2 by lia.
    replace (_ - _ - _)%nat with O by lia. reflexivity. }
  pose proof (code_at_nth im pcl _ jl _ CODE NL) as CLx.
  pose proof (LABS jl _ NL (hash_name_sub fresh (show_ident x) NH)) as FLx.
  assert (CB : code_at im (padd pcl (S jl)) cb /\ labels_at_nh im (padd pcl (S jl)) cb).
  { pose proof CODE as CODE'. pose proof LABS as LABS'.
    replace ([LAB fresh] ++ tb ++ pre5 ++ [LAB lx] ++ cb ++ post5)
      with (([LAB fresh] ++ tb ++ pre5 ++ [LAB lx]) ++ cb ++ post5) in CODE', LABS'
      by (rewrite <- !app_assoc; reflexivity).
    apply code_at_app in CODE' as [_ CODE']. apply code_at_app in CODE' as [CODE' _].
    apply labels_at_nh_app in LABS' as [_ LABS']. apply labels_at_nh_app in LABS' as [LABS' _].
    replace (List.length ([LAB fresh] ++ tb ++ pre5 ++ [LAB lx])) with (S jl) in CODE', LABS'
      by (unfold jl; rewrite !app_length; cbn [List.length]; lia).
    auto. }
  destruct CB as [CB LB].
  destruct (Nat.leb (List.length cls) 1) eqn:LE.
  - (* a single clause, no table: the label of the closure is followed by the label of the clause, and
       BR lands on the first real instruction of the body *)
    assert (TB : tb = []) by (unfold tb, table_or_nil; now rewrite LE).
    assert (K0 : k = O) by (apply Nat.leb_le in LE; lia). subst k.
    assert (P5 : pre5 = []) by (apply PRE0; reflexivity).
    assert (J1 : jl = 1%nat) by (unfold jl; rewrite TB, P5; reflexivity).
    rewrite J1 in CB, LB. cbn [padd] in CB, LB.
    destruct (lead_spec cb (cs_ends_nz _ _ _ _ _ _ S2 BD)) as (c1 & N1 & SZ1 & F1).
    assert (L1 : (lead cb < List.length cb)%nat) by (apply nth_error_Some; congruence).
    exists (padd pcl (2 + lead cb)), (Pos.succ (Pos.succ pcl)), lc0, cb, lc2.
    rewrite Z.add_0_r. split; [exact (SMALL pcl a AL)|]. split.
    { rewrite TB, P5 in CODE. cbn [app] in CODE.
      apply (land im IMG _ pcl a (2 + lead cb) c1 CODE AL).
      - cbn [Nat.add firstn size_of isize]. rewrite firstn_app, size_of_app, F1.
        replace (lead cb - List.length cb)%nat with O by lia. cbn [firstn size_of]. lia.
      - cbn [Nat.add nth_error]. rewrite nth_error_app1 by exact L1. exact N1.
      - exact SZ1. }
    split; [|repeat split; auto].
    intros s o FIN.
    assert (CBp : code_at im (Pos.succ (Pos.succ pcl)) (firstn (lead cb) cb)).
    { rewrite <- (firstn_skipn (lead cb) cb) in CB. apply code_at_app in CB as [CB1 _]. exact CB1. }
    pose proof (finishes_skip im _ _ s o CBp F1 FIN) as FS.
    rewrite firstn_length_le in FS by lia. cbn [Nat.add padd]. exact FS.
  - (* the jump table *)
    assert (TB : tb = code_table a64_backend cls fresh) by (unfold tb, table_or_nil; now rewrite LE).
    rewrite TB in CODE.
    destruct (table_entry pcl fresh cls _ a CODE AL k Lk) as (ADk & IXk).
    exists (padd pcl (1 + k)), (padd pcl (S jl)), lc0, cb, lc2.
    unfold jump_length. rewrite nat_N_Z.
    split; [exact (SMALL _ _ ADk)|]. split; [exact IXk|]. split; [|repeat split; auto].
    intros s o FIN.
    assert (CJ : PM.find (padd pcl (1 + k)) (code im) = Some (B lx)).
    { apply CODE. cbn [app Nat.add nth_error]. rewrite nth_error_app1 by (rewrite code_table_length; lia).
      apply (code_table_nth cls fresh k (x, cx, body) Hk). }
    eapply exec_to_finishes; [|exact FIN].
    eapply exec_jump; [exact CJ|cbn [step]; unfold goto_label; rewrite FLx; reflexivity|].
    eapply exec_next; [exact CLx|reflexivity|]. rewrite <- padd_succ. apply exec_refl.
Qed.
End Clo.

Section Clo2.
Variable im : image.
Variable p : prog.
Hypothesis IMG : img_ok im.
Hypothesis SMALL : forall pc a, PM.find pc (addr_of im) = Some a -> a < 4611686018427387904.
Local Notation clo_ok := (clo_ok im p).
Local Notation rel := (rel clo_ok).

(* ---------- Create ---------- *)
Theorem sim_create c e s sp v tn cls next lc code lc' pc :
  rel c e s sp -> NoDup (ids (c ++ [mkb v Cns (Decl tn)])) ->
  acs (ptypes p) (Create v (Decl tn) (Some []) cls next) c lc = Ok (code, lc') ->
  code_at im pc code -> labels_at_nh im pc code ->
  hash_name (type_label (Decl tn) (lc + 1)%N) = false ->
  cls <> [] -> cls_ok (sigs_of p) (Decl tn) cls = true ->
  (forall cl, In cl cls -> clause_static p cl) ->
  exists c12 c3 lc3 rest s',
    code = c12 ++ c3 ++ rest /\
    acs (ptypes p) next (c ++ [mkb v Cns (Decl tn)]) (lc + 1)%N = Ok (c3, lc3) /\
    run_straight im c12 s = MOk s' /\
    rel (c ++ [mkb v Cns (Decl tn)]) (e ++ [(v, VClo tn cls [])]) s' sp /\ frame_eq s s' sp.
Proof.
  intros R ND CS CA LA NH NE CO ST.
  destruct (cs_create _ _ _ _ _ _ _ _ _ _ CS) as (rest & cenv & c1 & lc1 & tmpv & c3 & lc3 & c5 & SL & STO & TV & NX & CC & ->).
  cbn [List.length] in SL. rewrite split_last0 in SL. inversion SL; subst rest cenv. clear SL.
  rewrite a_store_nil in STO. destruct (a_fresh Fst c) as [t1|] eqn:T1; cbn [rbind] in STO; [|discriminate].
  inversion STO; subst c1 lc1. clear STO.
  assert (T1' : atpos Fst (List.length c) = Ok t1) by exact T1.
  assert (T2 : atpos Snd (List.length c) = Ok tmpv).
  { rewrite <- TV. symmetry. change (idn v) with (idn (bvar (mkb v Cns (Decl tn)))). apply vt_tpos; auto. apply nth_error_mid. }
  set (fresh := type_label (Decl tn) (lc + 1)%N) in *.
  (* the closure's code *)
  destruct (create_layout im p IMG SMALL pc (a_load_immediate t1 0 ++ a_load_label tmpv fresh ++ c3) fresh tn cls c5 lc3 lc') as (a & LAD & CLO); auto.
  { rewrite <- !app_assoc. exact CA. }
  { rewrite <- !app_assoc. exact LA. }
  (* the two instruction sequences *)
  pose proof (rel_frame R) as F.
  destruct (atpos_ok _ _ _ T1') as ((O1 & _) & NF1 & _). destruct (atpos_ok _ _ _ T2) as ((O2 & _) & NF2 & _).
  destruct (a64_load_immediate_ok im s sp t1 0 F O1 in64_0) as (s1 & E1 & V1 & P1).
  destruct P1 as (PR1 & _ & _ & _ & F1).
  destruct (a64_load_label_ok im s1 sp tmpv fresh a F1 O2 LAD) as (s2 & E2 & V2 & P2).
  destruct P2 as (PR2 & _ & _ & _ & F2).
  assert (NE12 : t1 <> tmpv).
  { intros E; subst. destruct (tpos_inj a64_backend a64_backend_ok _ _ _ _ _ T1' T2) as [X _]. discriminate. }
  exists (a_load_immediate t1 0 ++ a_load_label tmpv fresh), c3, lc3, (([LAB fresh] ++ table_or_nil cls fresh) ++ c5), s2.
  split; [rewrite <- !app_assoc; reflexivity|]. split; [exact NX|].
  split; [rewrite run_straight_app, E1; exact E2|].
  assert (KEEP : forall l, loc_ok l -> l <> AR TEMP -> l <> AR TEMP2 -> l <> t1 -> l <> tmpv -> lget s2 sp l = lget s sp l).
  { intros l Ll Nl Nl2 A1 A2. rewrite PR2 by auto. apply PR1; auto. }
  split.
  - pose proof (rel_length R) as LEN. destruct R as [F0 Ro Fr Ids ND0 Vals]. split; auto.
    + destruct Fr as (f & Fr). exists f. rewrite <- Fr. destruct free_operand as (A & B & C & _).
      apply (KEEP (AR FREE)); auto; congruence.
    + unfold env_ids, ids in *. rewrite !map_app, Ids. reflexivity.
    + intros i x w Hn. destruct (Nat.lt_ge_cases i (List.length e)) as [L|L].
      * rewrite nth_error_app1 in Hn by exact L. destruct (Vals i x w Hn) as (b & Hb & V).
        exists b. split; [rewrite nth_error_app1 by lia; exact Hb|].
        eapply vrep_keep; [|exact V]. intros n t0 _ T0.
        destruct (atpos_ok _ _ _ T0) as (((A & B & C) & _) & _). apply KEEP; auto.
        -- intros E; subst t0. destruct (tpos_inj a64_backend a64_backend_ok _ _ _ _ _ T0 T1') as [_ E]. lia.
        -- intros E; subst t0. destruct (tpos_inj a64_backend a64_backend_ok _ _ _ _ _ T0 T2) as [_ E]. lia.
      * rewrite nth_error_app2 in Hn by exact L. destruct (i - List.length e)%nat as [|k] eqn:K; cbn in Hn; [|destruct k; discriminate].
        inversion Hn; subst. exists (mkb x Cns (Decl tn)). split.
        -- rewrite nth_error_app2 by lia. replace (i - List.length c)%nat with O by lia. reflexivity.
        -- replace i with (List.length c) by lia.
           apply (vrep_clo clo_ok s2 sp (List.length c) (mkb x Cns (Decl tn)) tn cls a t1 tmpv); auto.
           destruct O1 as (A & B & C). rewrite PR2; auto.
  - assert (LC : local_code (a_load_immediate t1 0 ++ a_load_label tmpv fresh) = true).
    { rewrite local_code_app, local_load_immediate, local_load_label by (apply loc_ok_lok; first [apply O1|apply O2]). reflexivity. }
    eapply run_straight_local; [exact LC|exact F|]. rewrite run_straight_app, E1. exact E2.
Qed.

(* ---------- Invoke ---------- *)
Lemma rel_prefix c0 b e0 ev s sp : rel (c0 ++ [b]) (e0 ++ [ev]) s sp -> rel c0 e0 s sp.
Proof.
  intros R. pose proof (rel_length R) as LEN. rewrite !app_length in LEN. cbn [List.length] in LEN.
  destruct R as [F Ro Fr Ids ND Vals]. split; auto.
  - unfold env_ids, ids in *. rewrite !map_app in Ids. cbn [map] in Ids. apply app_inj_tail in Ids. tauto.
  - unfold ids in *. rewrite map_app in ND. eapply NoDup_app_head; eauto.
  - intros i x v Hi. assert (Li : (i < List.length e0)%nat) by (apply nth_error_Some; congruence).
    destruct (Vals i x v) as (b' & Hb' & V); [rewrite nth_error_app1 by exact Li; exact Hi|].
    exists b'. split; [|exact V]. rewrite nth_error_app1 in Hb' by lia. exact Hb'.
Qed.

Theorem sim_invoke c e s sp v tag t args code lc lc' pc e0 x tn cls ce cl e1 :
  rel c e s sp ->
  AxSem.split_last 1 e = Some (e0, [(x, VClo tn cls ce)]) -> N.eqb (idn x) (idn v) = true ->
  find_clause cls tag = Some cl -> bind (vars (cl_ctx cl)) (map snd e0) = Some e1 ->
  lin_check (sigs_of p) c (Invoke v tag t args) = true ->
  acs (ptypes p) (Invoke v tag t args) c lc = Ok (code, lc') -> code_at im pc code ->
  exists i pcb lcb cb lcb' s',
    exec_to im pc s i s' /\ (forall o, finishes im pcb s' o -> finishes im i s' o) /\
    acs (ptypes p) (cl_body cl) (cl_ctx cl) lcb = Ok (cb, lcb') /\ code_at im pcb cb /\ labels_at_nh im pcb cb /\
    clause_static p cl /\
    rel (cl_ctx cl) (e1 ++ ce) s' sp /\ frame_eq s s' sp.
Proof.
  intros R SL IDX FC BD LC CS CA.
  apply split_last1_inv in SL. subst e.
  pose proof (rel_length R) as LEN. rewrite app_length in LEN. cbn [List.length] in LEN.
  (* the typing side: the context ends with the closure variable *)
  cbn [lin_check] in LC. apply andb_true_iff in LC as [_ LC].
  destruct (split_lastn 1 c) as [[c0 [|b [|b' r]]]|] eqn:SLc; try discriminate.
  apply split_lastn_Some in SLc as [-> _].
  apply andb_true_iff in LC as [LC AO]. apply andb_true_iff in LC as [LC TY]. apply andb_true_iff in LC as [IDb CH].
  apply N.eqb_eq in IDb. apply ty_eqb_eq in TY. apply chi_eqb_eq in CH.
  assert (L0 : List.length e0 = List.length c0) by (rewrite app_length in LEN; cbn [List.length] in LEN; lia).
  (* the closure's representation *)
  destruct (rel_vals R (List.length e0) x (VClo tn cls ce)) as (b0 & Hb0 & V); [apply nth_error_mid|].
  rewrite L0, nth_error_mid in Hb0. inversion Hb0; subst b0. clear Hb0.
  inversion V as [|b1 tn1 cls1 a t1 t2 K1 K2 T1 T2 V1 V2 CLO]; subst. clear V.
  destruct CLO as (CO & AB & ENTRY).
  (* the temporary the generator jumps through *)
  destruct (cs_invoke _ _ _ _ _ _ _ _ _ CS) as (tmpv & d & TV & LT & _ & CODE).
  assert (TVeq : tmpv = t2).
  { rewrite <- IDb in TV. rewrite (vt_of_nth0 (c0 ++ [b]) (List.length c0) b (rel_nodup R) (nth_error_mid _ _ _)) in TV.
    rewrite L0 in T2. congruence. }
  subst tmpv.
  (* the declaration and the position of the clause *)
  rewrite K2 in *. unfold cls_ok, type_xtors in CO. cbn [sigs_of sg_types] in CO.
  unfold lookup_type in LT.
  destruct (find (fun d => ident_eqb (tname d) tn) (ptypes p)) as [d'|] eqn:FD; [|discriminate]. inversion LT; subst d'. clear LT.
  destruct (find_clause_pos cls (txtors d) tag cl 0%N CO FC) as (k & xk & Hk & Hxk & XP & FX & SMk).
  pose proof (cls_sig_length _ _ CO) as LCL.
  destruct (ENTRY k cl Hk) as (i & pcb & lcb & cb & lcb' & SM & IX & ARR & CSb & CAb & LAb & STA).
  (* the new environment *)
  pose proof (rel_frame R) as F.
  assert (T2' : atpos Snd (List.length c0) = Ok t2) by (rewrite <- L0; exact T2).
  destruct (atpos_ok _ _ _ T2') as (((Lt2 & Nt2 & Nt22) & _) & NFt2 & _).
  assert (R1 : forall s', frame_ok s' sp -> rget s' FREE = rget s FREE ->
             (forall l, loc_ok l -> l <> AR TEMP -> l <> AR TEMP2 -> l <> t2 -> lget s' sp l = lget s sp l) ->
             rel (cl_ctx cl) (e1 ++ []) s' sp).
  { intros s' F' FR' KEEP. rewrite app_nil_r.
    assert (R0 : rel c0 e0 s' sp).
    { apply (rel_keep clo_ok c0 e0 s s' sp (rel_prefix c0 b e0 _ s sp R) F' FR'). intros j bj n tj Hj AL Tj.
      destruct (atpos_ok _ _ _ Tj) as (((A & B & B2) & _) & _). apply KEEP; auto.
      intros E; subst tj. assert (Lj : (j < List.length c0)%nat) by (apply nth_error_Some; congruence).
      destruct (tpos_inj a64_backend a64_backend_ok _ _ _ _ _ Tj T2') as [_ E]. lia. }
    eapply (bind_rel clo_ok c0 e0 s' sp); eauto.
    - destruct STA as (S1 & _). eapply lin_nodup; eauto.
    - unfold args_ok, lookup_xtor, type_xtors in AO. cbn [sigs_of sg_types] in AO. rewrite FD, FX in AO.
      eapply sig_match_join; eauto. }
  (* the jump *)
  set (off := if Nat.leb (List.length cls) 1 then 0 else jump_length (N.of_nat k)) in *.
  assert (GO : forall rj s1, rget s1 rj = Some (a + off) -> step im (BR rj) s1 = Jump s1 i).
  { intros rj s1 RG. cbn [step]. unfold need. rewrite RG. unfold goto_addr. now rewrite IX. }
  exists i, pcb, lcb, cb, lcb'.
  assert (FIN : forall s', exec_to im pc s i s' -> rel (cl_ctx cl) (e1 ++ []) s' sp -> frame_eq s s' sp ->
           exists s'0, exec_to im pc s i s'0 /\ (forall o, finishes im pcb s'0 o -> finishes im i s'0 o) /\
             acs (ptypes p) (cl_body cl) (cl_ctx cl) lcb = Ok (cb, lcb') /\ code_at im pcb cb /\ labels_at_nh im pcb cb /\
             clause_static p cl /\ rel (cl_ctx cl) (e1 ++ []) s'0 sp /\ frame_eq s s'0 sp).
  { intros s' X RR FE. exists s'. split; [exact X|]. split; [intros o; apply ARR|]. split; [exact CSb|]. split; [exact CAb|].
    split; [exact LAb|]. split; [exact STA|]. split; [exact RR|exact FE]. }
  assert (TNE : AR TEMP <> AR FREE) by (change TEMP with (X 2); change FREE with (X 1); congruence).
  rewrite <- LCL in CODE. subst off. destruct (Nat.leb (List.length cls) 1) eqn:LE.
  - (* one destructor: branch through the temporary *)
    subst code. rewrite Z.add_0_r in GO. destruct t2 as [r|q]; cbn [a_jump lget loc_ok] in *.
    + apply code_at_cons in CA as [CJ _]. apply (FIN s).
      * eapply exec_jump; [exact CJ|apply (GO r s V2)|apply exec_refl].
      * apply R1; auto.
      * apply frame_eq_refl.
    + apply code_at_cons in CA as [C0 CA]. apply code_at_cons in CA as [CJ _].
      apply (FIN (rset s TEMP (Some a))).
      * eapply exec_next; [exact C0|rewrite (step_LDR_slot im s sp F) by exact Lt2; rewrite V2; reflexivity|].
        eapply exec_jump; [exact CJ|apply GO; rewrite TEMP_is; apply rget_rset_same; exact I|apply exec_refl].
      * apply R1; [apply frame_ok_rset; [rewrite TEMP_is; discriminate|exact F]|apply rget_rset_other; congruence|].
        intros l Ll Nl _ _. apply (lget_lset_other s sp (AR TEMP) l); [apply F|rewrite TEMP_is; exact I|exact Ll|congruence].
      * apply frame_eq_rset.
  - (* several destructors: add the table offset, then branch *)
    destruct CODE as (k' & XP' & ->). assert (k' = N.of_nat k) by (rewrite XP in XP'; inversion XP'; lia). subst k'.
    set (off := jump_length (N.of_nat k)) in *.
    assert (OFF : 0 <= off) by (unfold off, jump_length; lia).
    assert (W : wrap (a + off) = a + off) by (apply wrap_small_range; lia).
    assert (IV : add_imm_fits off = false -> in64 off) by (intros _; unfold in64, two63; lia).
    assert (KEEPX : forall sb s1 rn, gp (X rn) -> spv s1 = spv sb -> stack s1 = stack sb ->
              (forall m, m <> rn -> m <> 3%N -> xget s1 m = xget sb m) ->
              forall l, loc_ok l -> l <> AR (X rn) -> l <> AR TEMP2 -> lget s1 sp l = lget sb sp l).
    { intros sb s1 rn _ Hsp Hst KP l Ll N1 N2. destruct l as [[m| |]|ql]; cbn [loc_ok gp] in Ll; try tauto; cbn [lget rget].
      - apply KP; [congruence|]. intros ->. apply N2. rewrite TEMP2_is. reflexivity.
      - unfold sget. rewrite Hst. reflexivity. }
    destruct t2 as [r|q]; cbn [a_add_and_jump lget loc_ok] in *.
    + destruct r as [rn| |]; cbn [gp] in Lt2; try tauto.
      apply code_at_app in CA as [CA0 CJ]. apply code_at_cons in CJ as [CJ _].
      assert (N3 : rn <> 3%N) by (intros ->; apply Nt22; rewrite TEMP2_is; reflexivity).
      destruct (a64_add_offset_ok im s rn off a Lt2 N3 V2 IV) as (s1 & RS & V1' & KP & Hsp & Hh & Hst & Ho).
      rewrite W in V1'.
      assert (F1 : frame_ok s1 sp) by (split; [rewrite Hsp; apply F|apply F]).
      apply (FIN s1).
      * eapply exec_to_trans; [apply (run_straight_exec_to im _ pc s s1 CA0 RS)|].
        eapply exec_jump; [exact CJ|apply GO; exact V1'|apply exec_refl].
      * apply R1; [exact F1| |].
        -- change FREE with (X 1). cbn [rget]. apply KP; [|discriminate]. intros <-. apply NFt2. reflexivity.
        -- intros l Ll Nl N2' N3'. apply (KEEPX s s1 rn Lt2 Hsp Hst KP l Ll N3' N2').
      * split; [exact Hh|split; [exact Ho|intros kk _; rewrite Hst; reflexivity]].
    + apply code_at_cons in CA as [C0 CA]. apply code_at_app in CA as [CA0 CJ]. apply code_at_cons in CJ as [CJ _].
      set (s0 := rset s TEMP (Some a)).
      assert (F0 : frame_ok s0 sp) by (unfold s0; rewrite TEMP_is; apply frame_ok_rset; [discriminate|exact F]).
      assert (V0 : xget s0 2 = Some a) by (unfold s0; rewrite TEMP_is; cbn [rset]; apply xget_xset_same).
      rewrite TEMP_is in CA0.
      destruct (a64_add_offset_ok im s0 2 off a I ltac:(discriminate) V0 IV) as (s1 & RS & V1' & KP & Hsp & Hh & Hst & Ho).
      rewrite W in V1'.
      assert (F1 : frame_ok s1 sp) by (split; [rewrite Hsp; apply F0|apply F]).
      apply (FIN s1).
      * eapply exec_next; [exact C0|rewrite (step_LDR_slot im s sp F) by exact Lt2; rewrite V2; reflexivity|].
        eapply exec_to_trans; [apply (run_straight_exec_to im _ _ s0 s1 CA0 RS)|].
        eapply exec_jump; [exact CJ|apply GO; rewrite TEMP_is; exact V1'|apply exec_refl].
      * apply R1; [exact F1| |].
        -- change FREE with (X 1). cbn [rget]. rewrite (KP 1%N) by discriminate. unfold s0. rewrite TEMP_is. cbn [rset]. apply xget_xset_other. discriminate.
        -- intros l Ll Nl N2' _. rewrite TEMP_is in Nl.
           rewrite (KEEPX s0 s1 2%N I Hsp Hst KP l Ll Nl N2'). unfold s0.
           apply (lget_lset_other s sp (AR TEMP) l); [apply F|rewrite TEMP_is; exact I|exact Ll|rewrite TEMP_is; congruence].
      * split; [rewrite Hh; reflexivity|split; [rewrite Ho; reflexivity|intros kk _; rewrite Hst; reflexivity]].
Qed.

(* progress at Invoke: under the relation a linearly well-typed invoke finds its closure, its clause and
   its arguments *)
Lemma invoke_progress c e s sp v tag t args :
  rel c e s sp -> lin_check (sigs_of p) c (Invoke v tag t args) = true ->
  exists e0 x tn cls cl e1,
    AxSem.split_last 1 e = Some (e0, [(x, VClo tn cls [])]) /\ N.eqb (idn x) (idn v) = true /\
    find_clause cls tag = Some cl /\ bind (vars (cl_ctx cl)) (map snd e0) = Some e1.
Proof.
  intros R LC. pose proof (rel_length R) as LEN.
  cbn [lin_check] in LC. apply andb_true_iff in LC as [_ LC].
  destruct (split_lastn 1 c) as [[c0 [|b [|b' r]]]|] eqn:SLc; try discriminate.
  apply split_lastn_Some in SLc as [-> _].
  apply andb_true_iff in LC as [LC AO]. apply andb_true_iff in LC as [LC TY]. apply andb_true_iff in LC as [IDb CH].
  apply N.eqb_eq in IDb. apply ty_eqb_eq in TY. apply chi_eqb_eq in CH.
  rewrite app_length in LEN. cbn [List.length] in LEN.
  (* the environment ends with the closure *)
  destruct (exists_last (l := e)) as (e0 & [x val] & ->); [intros ->; cbn in LEN; lia|].
  rewrite app_length in LEN. cbn [List.length] in LEN.
  assert (L0 : List.length e0 = List.length c0) by lia.
  destruct (rel_vals R (List.length e0) x val) as (b0 & Hb0 & V); [apply nth_error_mid|].
  rewrite L0, nth_error_mid in Hb0. inversion Hb0; subst b0. clear Hb0.
  inversion V as [? z ? K1 ?|b1 tn cls a t1 t2 K1 K2 T1 T2 V1 V2 CLO]; subst; [congruence|]. clear V.
  destruct CLO as (CO & _ & ENTRY).
  assert (IDX : idn x = idn v).
  { pose proof (rel_ids R) as Ids. unfold env_ids, ids in Ids. rewrite !map_app in Ids. cbn [map fst] in Ids.
    apply app_inj_tail in Ids as [_ E]. congruence. }
  rewrite K2 in *. unfold cls_ok, type_xtors in CO. cbn [sigs_of sg_types] in CO.
  unfold args_ok, lookup_xtor, type_xtors in AO. cbn [sigs_of sg_types] in AO.
  destruct (find (fun d => ident_eqb (tname d) tn) (ptypes p)) as [d|] eqn:FD; [|discriminate].
  destruct (find (fun x => ident_eqb (xname x) tag) (txtors d)) as [xk|] eqn:FX; [|discriminate].
  destruct (find_clause_total cls (txtors d) tag xk CO FX) as (cl & FC).
  destruct (find_clause_pos cls (txtors d) tag cl 0%N CO FC) as (k & xk' & Hk & Hxk & XP & FX' & SMk).
  assert (xk' = xk) by congruence. subst xk'.
  destruct (bind_total (vars (cl_ctx cl)) (map snd e0)) as (e1 & BD).
  { apply sig_match_iff, same_kt_length in AO. apply sig_match_iff, same_kt_length in SMk. unfold vars. rewrite !map_length. lia. }
  exists e0, x, tn, cls, cl, e1. split; [apply split_last1_app|]. split; [apply N.eqb_eq; exact IDX|]. auto.
Qed.
End Clo2.
