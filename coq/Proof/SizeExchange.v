(* C19: the parallel-move code of one Substitute (`code_exchange`, Model/Backend.v) is linear in the two
   context lengths, for every back end whose temporaries are totally ordered and numbered injectively
   (backend_ok, Proof/SubstGraph.v), when the ids of the old and of the new context are pairwise
   distinct (what the linear discipline `lin_check` guarantees at every statement):
       #instructions <= Kp * (4 * |new context| + 2 * |old context|),
   Kp = cost of one move / save / restore.  Ingredients: the move graph has in-degree <= 1 and
   duplicate-free target sets (SubstGraph.transpose_connections_indeg1), its edges end in the at most
   2 * |new| temporaries of the new context, its keys are among the 2 * |old| temporaries of the old
   one, and the algorithm emits at most 2 * #edges + #keys pseudo-instructions (SizeParMoves). *)
From Coq Require Import List ZArith NArith String Bool Lia Sorted.
From SCC Require Import Base.Sexp Lang.AxSyn Lang.AxSize Model.ParMoves Model.Backend
     Proof.SubstGraph Proof.SizeLin Proof.SizeParMoves.
Import ListNotations.
Open Scope list_scope.

Section Exchange.
Context {Code Temp : Type} (B : backend Code Temp).
Hypothesis OKB : backend_ok B.
Variable Kp : N.
Hypothesis c_mov : forall a b, (len (b_mov B a b) <= Kp)%N.
Hypothesis c_save : forall t f, (len (b_store_temporary B t f) <= Kp)%N.
Hypothesis c_restore : forall t f, (len (b_restore_temporary B t f) <= Kp)%N.

Definition oks (r : res Temp) : list Temp := match r with Ok t => [t] | Err _ => [] end.
Definition univ (m : nat) : list Temp := flat_map (fun j => oks (tpos B Fst j) ++ oks (tpos B Snd j)) (seq 0 m).
Lemma univ_len_gen : forall m s,
  (List.length (flat_map (fun j => oks (tpos B Fst j) ++ oks (tpos B Snd j)) (seq s m)) <= 2 * m)%nat.
Proof.
  induction m as [|m IH]; intros s; [cbn; lia|].
  cbn [seq flat_map]. rewrite !app_length. specialize (IH (S s)).
  assert (List.length (oks (tpos B Fst s)) <= 1)%nat by (destruct (tpos B Fst s); cbn; lia).
  assert (List.length (oks (tpos B Snd s)) <= 1)%nat by (destruct (tpos B Snd s); cbn; lia).
  lia.
Qed.
Lemma univ_len : forall m, (List.length (univ m) <= 2 * m)%nat.
Proof. intros m. apply univ_len_gen. Qed.
Lemma univ_In : forall m n j t, (j < m)%nat -> tpos B n j = Ok t -> In t (univ m).
Proof.
  intros m n j t Hj Ht. unfold univ. apply in_flat_map. exists j. split; [apply in_seq; lia|].
  apply in_or_app. destruct n; [left|right]; rewrite Ht; left; reflexivity.
Qed.

Lemma emit_pinstr_len : forall f i, (len (emit_pinstr B f i) <= Kp)%N.
Proof. intros f [d s|t|t]; cbn [emit_pinstr]; auto. Qed.
Lemma emit_root_len : forall r, (len (emit_root B r) <= Kp * len (root_moves Temp r))%N.
Proof.
  intros r. unfold emit_root. generalize (b_contains_spill_edge B r). intros f.
  induction (root_moves Temp r) as [|i l IH]; [cbn; lia|].
  cbn [flat_map]. rewrite len_app, len_cons, N.mul_add_distr_l. pose proof (emit_pinstr_len f i). lia.
Qed.
Lemma emit_forest_len : forall rs,
  (len (flat_map (emit_root B) rs) <= Kp * len (flat_map (root_moves Temp) rs))%N.
Proof.
  induction rs as [|r rs IH]; [cbn; lia|]. cbn [flat_map]. rewrite !len_app, N.mul_add_distr_l.
  pose proof (emit_root_len r). lia.
Qed.

Theorem exchange_len : forall c re code,
  NoDup (ids c) -> NoDup (new_ids re) ->
  code_exchange B (transpose re c) c (map fst re) = Ok code ->
  (len code <= Kp * (4 * len re + 2 * len c))%N.
Proof.
  intros c re code ND1 ND2 H. unfold code_exchange in H.
  destruct (connections B (transpose re c) c (map fst re)) as [am|e] eqn:HC; [|discriminate]. cbn [rbind] in H.
  unfold parallel_moves_code in H.
  destruct (spanning_forest Temp (teqb B) (List.length (all_targets Temp am) + 2) am) as [forest|] eqn:HF; [|discriminate].
  inversion H; subst; clear H.
  destruct (transpose_connections_indeg1 B OKB c re am ND1 ND2 HC) as (ID & NT & SK & HK).
  pose proof (parallel_moves_len Temp (teqb B) (teqb_spec B OKB) _ am forest ID NT HF) as HL.
  assert (NK : NoDup (map fst am)) by (apply (sorted_nodup (b_tcompare B) (cmp_eq B OKB)); exact SK).
  (* edges end in temporaries of the new context *)
  assert (HT : (List.length (all_targets Temp am) <= 2 * List.length re)%nat).
  { eapply Nat.le_trans; [|apply univ_len].
    apply NoDup_incl_length.
    - apply (all_targets_nodup Temp (teqb B) (teqb_spec B OKB)); assumption.
    - intros b Hb. unfold all_targets in Hb. apply in_flat_map in Hb as ([a ts] & Hin & Hb). cbn [snd] in Hb.
      assert (E : edge Temp (teqb B) am a b).
      { exists ts. split; [|exact Hb]. apply (lookup_nodup_keys Temp (teqb B) (teqb_spec B OKB)); assumption. }
      apply (connections_edges B OKB c re am ND1 ND2 HC) in E.
      destruct E as (i & j & bi & pj & n & Hi & Hj & _ & _ & _ & Tj).
      apply (univ_In _ n j); [|exact Tj]. apply nth_error_Some. congruence. }
  (* keys are temporaries of the old context *)
  assert (HKL : (List.length am <= 2 * List.length c)%nat).
  { rewrite <- (map_length fst am). eapply Nat.le_trans; [|apply univ_len].
    apply NoDup_incl_length; [exact NK|]. intros a Ha. destruct (HK a Ha) as (i & bi & n & Hi & _ & Ti).
    apply (univ_In _ n i); [|exact Ti]. apply nth_error_Some. congruence. }
  pose proof (emit_forest_len forest) as HE.
  eapply N.le_trans; [exact HE|]. apply N.mul_le_mono_l. unfold len. lia.
Qed.
End Exchange.
