(* C08, heap statements: inversion of `code_statement` for Let / Switch, and where the clauses of a Switch /
   a Create sit in the image and how control reaches them (the counterpart of Proof/X86HLayout.v).
     fwd_ok             an indirect jump (`JALR`) to the address of ANY placed instruction lands on the
                        instruction of non-zero size placed at that address, i.e. BEHIND the labels placed
                        there; from the instruction itself control reaches the landing point through the
                        labels, the state unchanged (`mk_image_fwd`);
     rfin_star_inv      so a run from the instruction and a run from the landing point finish alike;
     gclauses           the code of the clauses, generically in the load code and the body context;
     dispatch_layout    `LAB fresh; jump table (for two or more clauses); clauses`: the address of the label
                        (+ 4k for table entry k) leads to the code `load ++ body` of clause k. *)
From Coq Require Import List ZArith NArith String Bool Lia FMapPositive.
From SCC Require Import Base.Sexp Lang.AxSyn Sem.AxSem Model.ParMoves Model.Backend Model.RV Sem.RVSem Sem.RVWf
     Model.Linearize Model.LinCheck Generated.Constants Proof.LinBasics
     Proof.RVSel Proof.SubstGraph Proof.SubstBackends Proof.RVSubst Proof.RVSimAddr Proof.BackendInv Proof.RVSimRel Proof.RVSimStmt
     Proof.RVSimClo.
Import ListNotations.
Open Scope Z_scope.
Open Scope list_scope.

(* ---------- zero-size instructions (labels) are no-ops ---------- *)
Lemma zero_size_step im a c s : isize c = 0 -> step im a c s = Next s.
Proof. destruct c; cbn [isize]; intros H; try lia; try reflexivity. destruct (fits12 c); [lia|]. destruct (fits32 c); lia. Qed.

Lemma size_zero_run (cs : list rcode) : forall d n, (n + d <= List.length cs)%nat ->
  (forall j c, (n <= j < n + d)%nat -> nth_error cs j = Some c -> isize c = 0) ->
  size_of (firstn (n + d) cs) = size_of (firstn n cs).
Proof.
  induction d as [|d IH]; intros n Hl Z; [now rewrite Nat.add_0_r|].
  destruct (nth_error cs (n + d)) as [c|] eqn:Hn; [|apply nth_error_None in Hn; lia].
  replace (n + S d)%nat with (S (n + d)) by lia.
  rewrite (firstn_S_size cs (n + d) c Hn), (Z (n + d)%nat c ltac:(lia) Hn), Z.add_0_r.
  apply IH; [lia|]. intros j cj Hj. apply Z. lia.
Qed.

(* the first instruction of non-zero size at or after position n *)
Lemma first_nz (cs : list rcode) : forall d0 n cd0, nth_error cs (n + d0) = Some cd0 -> isize cd0 <> 0 ->
  exists d cd, nth_error cs (n + d) = Some cd /\ isize cd <> 0 /\
    forall j cj, (n <= j < n + d)%nat -> nth_error cs j = Some cj -> isize cj = 0.
Proof.
  induction d0 as [|d0 IH]; intros n cd0 H NZ.
  - exists O, cd0. split; [exact H|]. split; [exact NZ|]. intros j cj Hj. lia.
  - destruct (nth_error cs n) as [c|] eqn:Hn.
    2:{ apply nth_error_None in Hn. assert (n + S d0 < List.length cs)%nat by (apply nth_error_Some; congruence). lia. }
    destruct (Z.eq_dec (isize c) 0) as [E|E].
    + replace (n + S d0)%nat with (S n + d0)%nat in H by lia.
      destruct (IH (S n) cd0 H NZ) as (d & cd & Hd & NZd & ZR).
      exists (S d), cd. replace (n + S d)%nat with (S n + d)%nat by lia. split; [exact Hd|]. split; [exact NZd|].
      intros j cj Hj Hcj. destruct (Nat.eq_dec j n) as [->|NE]; [congruence|]. apply (ZR j cj); [lia|exact Hcj].
    + exists O, c. rewrite Nat.add_0_r. split; [exact Hn|]. split; [exact E|]. intros j cj Hj. lia.
Qed.

(* the image built by mk_image: from any placed instruction, through labels, to the landing point of its address *)
Definition fwd_ok (im : image) : Prop :=
  forall pc c a, PM.find pc (code im) = Some c -> PM.find pc (addr_of im) = Some a ->
    (exists d cd, PM.find (padd pc d) (code im) = Some cd /\ isize cd <> 0) ->
    exists i0, PM.find (key a) (index_at im) = Some i0 /\ (exists c0, PM.find i0 (code im) = Some c0) /\ forall s, star im pc s i0 s.

Theorem mk_image_fwd cs : fwd_ok (mk_image cs).
Proof.
  intros pc c a Hc Ha (d0 & cd0 & Hd0 & NZ0).
  apply mk_image_code_inv in Hc as (n & -> & Hn).
  unfold mk_image in Ha. rewrite (build_addr_at cs _ _ _ n c Hn) in Ha.
  assert (Ea : a = CODE_BASE + size_of (firstn n cs)) by congruence. subst a. clear Ha.
  rewrite <- padd_add in Hd0. apply mk_image_code_inv in Hd0 as (m0 & E0 & Hm0). apply padd_inj in E0. subst m0.
  (* the first instruction of non-zero size at or after n *)
  assert (EX := first_nz cs d0 n cd0 Hm0 NZ0).
  destruct EX as (d & cd & Hd & NZ & ZR).
  exists (padd 1%positive (n + d)). split; [|split; [exists cd; apply (build_code_at cs 1%positive CODE_BASE _ (n + d) cd Hd)|]].
  - assert (Ld : (n + d < List.length cs)%nat) by (apply nth_error_Some; congruence).
    rewrite <- (size_zero_run cs d n ltac:(lia) ZR).
    apply (build_index_at cs 1%positive CODE_BASE _ (n + d) cd); [reflexivity|exact Hd|exact NZ].
  - intros s. assert (G : forall e, (e <= d)%nat -> star (mk_image cs) (padd 1%positive n) s (padd 1%positive (n + e)) s).
    { induction e as [|e IHe]; intros He; [rewrite Nat.add_0_r; apply star_refl|].
      eapply star_trans; [apply IHe; lia|].
      destruct (nth_error cs (n + e)) as [ce|] eqn:Hce; [|apply nth_error_None in Hce; assert (n + d < List.length cs)%nat by (apply nth_error_Some; congruence); lia].
      eapply star_step; [eapply one_next; [apply (build_code_at cs 1%positive CODE_BASE _ (n + e) ce Hce)|apply (build_addr_at cs 1%positive CODE_BASE _ (n + e) ce Hce)|apply zero_size_step; apply (ZR (n + e)%nat ce); [lia|exact Hce]]|].
      rewrite <- padd_succ. change (padd (Pos.succ 1) (n + e)) with (padd 1 (S (n + e))). replace (S (n + e)) with (n + S e)%nat by lia. apply star_refl. }
    apply (G d). lia.
Qed.

(* a run from an instruction and a run from a point reached from it finish alike *)
Lemma rfin_star_inv im stop :
  (exists l, PM.find stop (code im) = Some (LAB l)) -> PM.find (Pos.succ stop) (code im) = None ->
  forall pc s pc' s' o, star im pc s pc' s' -> (exists c, PM.find pc' (code im) = Some c) ->
  rfin im stop pc s o -> rfin im stop pc' s' o.
Proof.
  intros STOPC ENDC pc s pc' s' o ST. induction ST as [pc s|pc s pc1 s1 pc2 s2 O ST IH]; intros C' Fin; [exact Fin|].
  assert (C1 : exists c, PM.find pc1 (code im) = Some c).
  { inversion ST as [|? ? ? ? ? ? O1 _]; subst; [exact C'|]. inversion O1; subst; eauto. }
  pose proof (one_not_stop im stop STOPC ENDC _ _ _ _ O C1) as NE.
  apply IH; [exact C'|]. destruct Fin as (_ & n & sf & Hn). split; [exact C1|].
  destruct n as [|n]; [cbn in Hn; discriminate|]. rewrite (run_chunk_one im stop pc s pc1 s1 n O NE) in Hn. eauto.
Qed.

(* ---------- Let / Switch: what code_statement emits ---------- *)
Ltac ub H x E :=
  match type of H with
  | context [rbind ?r _] =>
      lazymatch r with
      | rbind _ _ => fail
      | _ => destruct r as [x|] eqn:E; cbn [rbind] in H; [|discriminate]
      end
  end.

Lemma cs_let types v t tag args next c lc code lc' :
  rcs types (Let v t tag args next) c lc = Ok (code, lc') ->
  exists d k rest arguments c1 lc1 tmpv c3,
    lookup_type types t = Ok d /\ xtor_position (txtors d) tag 0 = Ok k /\
    Backend.split_last (List.length args) c = Ok (rest, arguments) /\
    r_store arguments rest lc = Ok (c1, lc1) /\
    rvt (rest ++ [mkb v Prd t]) (idn v) = Ok tmpv /\
    rcs types next (rest ++ [mkb v Prd t]) lc1 = Ok (c3, lc') /\
    code = c1 ++ r_load_immediate tmpv (jump_length k) ++ c3.
Proof.
  intros H. cbn [code_statement] in H. ub H d LT. ub H k XP. ub H sp SL. destruct sp as [rest arguments].
  cbn [b_store rv_backend] in H. ub H st ST. destruct st as [c1 lc1]. ub H tmpv TV. ub H nx NX. destruct nx as [c3 lc3].
  cbn in H. inversion H; subst. exists d, k, rest, arguments, c1, lc1, tmpv, c3. repeat split; auto.
Qed.

(* the code of a list of clauses, generically in the load code and the body context *)
Section GC.
Variables (types : list tydecl) (ld : ctx -> N -> res (list rcode * N)) (bc : ctx -> ctx) (fresh : string).
Fixpoint gclauses (l : list clause) (lc : N) {struct l} : res (list rcode * N) :=
  match l with
  | [] => Ok ([], lc)
  | (x, cx, body) :: r =>
      dor ldc <- ld cx lc;
      let '(cl, lc1) := ldc in
      dor bd <- rcs types body (bc cx) lc1;
      let '(cb, lc2) := bd in
      dor rs <- gclauses r lc2;
      let '(cr, lc3) := rs in
      Ok ([LAB (fresh +++ "_" +++ show_ident x)] ++ cl ++ cb ++ cr, lc3)
  end.

Lemma gclauses_nth : forall cls lc c5 lc' k x cx body,
  gclauses cls lc = Ok (c5, lc') -> nth_error cls k = Some (x, cx, body) ->
  exists pre lc0 cl lc1 cb lc2 post,
    c5 = pre ++ [LAB (fresh +++ "_" +++ show_ident x)] ++ cl ++ cb ++ post /\
    ld cx lc0 = Ok (cl, lc1) /\ rcs types body (bc cx) lc1 = Ok (cb, lc2) /\ (k = O -> pre = []).
Proof.
  induction cls as [|[[x0 cx0] body0] r IH]; intros lc c5 lc' k x cx body H Hk; [destruct k; discriminate|].
  cbn [gclauses] in H.
  destruct (ld cx0 lc) as [[cl lc1]|] eqn:LD; cbn [rbind] in H; [|discriminate].
  destruct (rcs types body0 (bc cx0) lc1) as [[cb lc2]|] eqn:BD; cbn [rbind] in H; [|discriminate].
  destruct (gclauses r lc2) as [[cr lc3]|] eqn:RS; cbn [rbind] in H; [|discriminate].
  inversion H; subst c5 lc'. destruct k as [|k]; cbn [nth_error] in Hk.
  - inversion Hk; subst. exists [], lc, cl, lc1, cb, lc2, cr. auto.
  - destruct (IH _ _ _ _ _ _ _ RS Hk) as (pre & lc0 & cl' & lc1' & cb' & lc2' & post & -> & L & B & _).
    exists ([LAB (fresh +++ "_" +++ show_ident x0)] ++ cl ++ cb ++ pre), lc0, cl', lc1', cb', lc2', post.
    split; [|split; [auto|split; [auto|discriminate]]]. rewrite <- !app_assoc. reflexivity.
Qed.
End GC.

Definition switch_head (cls : list clause) (fresh : string) (tmpv : reg) : list rcode :=
  if Nat.leb (List.length cls) 1 then [] else [LA TEMP fresh; ADD TEMP TEMP tmpv; JALR ZERO TEMP 0].

Lemma cs_switch types v t cls c lc code lc' :
  rcs types (Switch v t cls) c lc = Ok (code, lc') ->
  exists c1 c3,
    (if Nat.leb (List.length cls) 1 then c1 = []
     else exists tmpv, rvt c (idn v) = Ok tmpv /\ c1 = switch_head cls (type_label t (lc + 1)%N) tmpv) /\
    gclauses types (fun cx lc0 => r_load cx (removelast c) lc0) (fun cx => removelast c ++ cx)
             (type_label t (lc + 1)%N) cls (lc + 1)%N = Ok (c3, lc') /\
    code = c1 ++ ([LAB (type_label t (lc + 1)%N)] ++ table_or_nil rv_backend cls (type_label t (lc + 1)%N)) ++ c3.
Proof.
  intros H. cbn [code_statement] in H. set (fresh := type_label t (lc + 1)%N) in *.
  assert (GC : forall l lc0,
    (fix go (l : list clause) (lc : N) {struct l} : res (list rcode * N) :=
       match l with
       | [] => Ok ([], lc)
       | (x, cx, body) :: r =>
           dor ld <- b_load rv_backend cx (removelast c) lc;
           (let '(cl, lc1) := ld in
            dor bd <- rcs types body (removelast c ++ cx) lc1;
            (let '(cb, lc2) := bd in
             dor rs <- go r lc2;
             (let '(cr, lc3) := rs in Ok ([b_label rv_backend (fresh +++ "_" +++ show_ident x)] ++ cl ++ cb ++ cr, lc3))))
       end) l lc0 = gclauses types (fun cx lc1 => r_load cx (removelast c) lc1) (fun cx => removelast c ++ cx) fresh l lc0).
  { induction l as [|[[x cx] body] r IH]; intros lc0; [reflexivity|]. cbn [gclauses b_load b_label rv_backend].
    destruct (r_load cx (removelast c) lc0) as [[cl lc1]|]; cbn [rbind]; [|reflexivity].
    destruct (rcs types body (removelast c ++ cx) lc1) as [[cb lc2]|]; cbn [rbind]; [|reflexivity].
    rewrite IH. reflexivity. }
  destruct (Nat.leb (List.length cls) 1) eqn:LE.
  - cbn [rbind] in H. rewrite GC in H.
    destruct (gclauses types _ _ fresh cls (lc + 1)%N) as [[c3 lc3]|] eqn:CC; cbn [rbind] in H; [|discriminate].
    cbn in H. assert (E : code = LAB fresh :: c3 /\ lc3 = lc') by (split; congruence). destruct E as [-> ->].
    exists [], c3. split; [reflexivity|]. split; [reflexivity|]. unfold table_or_nil. unfold clause in *. rewrite LE. reflexivity.
  - destruct (rvt c (idn v)) as [tmpv|] eqn:TV; cbn [rbind] in H; [|discriminate]. rewrite GC in H.
    destruct (gclauses types _ _ fresh cls (lc + 1)%N) as [[c3 lc3]|] eqn:CC; cbn [rbind] in H; [|discriminate].
    cbn [b_load_label b_arith b_jump b_temp b_label b_mark rv_backend fst snd r_load_label r_arith r_jump app] in H. inversion H; subst.
    exists (switch_head cls fresh tmpv), c3. unfold switch_head, table_or_nil. unfold clause in *. rewrite LE.
    split; [exists tmpv; auto|]. split; [reflexivity|]. reflexivity.
Qed.

Lemma clauses_code_gclauses types cenv fresh : forall cls lc,
  clauses_code rv_backend types cenv fresh cls lc = gclauses types (fun cx lc0 => r_load cenv cx lc0) (fun cx => cx ++ cenv) fresh cls lc.
Proof.
  induction cls as [|[[x cx] body] r IH]; intros lc; [reflexivity|]. cbn [clauses_code gclauses b_load rv_backend b_label].
  destruct (r_load cenv cx lc) as [[cl lc1]|]; cbn [rbind]; [|reflexivity].
  destruct (rcs types body (cx ++ cenv) lc1) as [[cb lc2]|]; cbn [rbind]; [|reflexivity].
  rewrite IH. reflexivity.
Qed.

Lemma bsplit_last_app (c rest args : ctx) n : Backend.split_last n c = Ok (rest, args) -> c = rest ++ args /\ List.length args = n.
Proof.
  unfold Backend.split_last. destruct (Nat.leb n (List.length c)) eqn:E; [|discriminate]. apply Nat.leb_le in E.
  intros H. inversion H; subst. split; [symmetry; apply firstn_skipn|]. rewrite skipn_length. lia.
Qed.
Lemma asplit_last_app {X} (l l0 l1 : list X) n : AxSem.split_last n l = Some (l0, l1) -> l = l0 ++ l1 /\ List.length l1 = n.
Proof.
  unfold AxSem.split_last. destruct (Nat.leb n (List.length l)) eqn:E; [|discriminate]. apply Nat.leb_le in E.
  intros H. inversion H; subst. split; [symmetry; apply firstn_skipn|]. rewrite skipn_length. lia.
Qed.

(* a piece of code that contains an instruction of non-zero size *)
Definition has_nz (cs : list rcode) : Prop := exists d cd, nth_error cs d = Some cd /\ isize cd <> 0.
Lemma has_nz_app_l a b : has_nz a -> has_nz (a ++ b).
Proof. intros (d & cd & H & N). exists d, cd. split; [|exact N]. rewrite nth_error_app1; [exact H|]. apply nth_error_Some. congruence. Qed.
Lemma has_nz_app_r a b : has_nz b -> has_nz (a ++ b).
Proof. intros (d & cd & H & N). exists (List.length a + d)%nat, cd. split; [|exact N]. rewrite nth_error_app2 by lia. now replace (List.length a + d - List.length a)%nat with d by lia. Qed.
Lemma starts_nz_has_nz cs : starts_nz cs -> has_nz cs.
Proof. intros (c & r & -> & N). exists O, c. auto. Qed.

Section Layout.
Variable im : image.
Variable stop : positive.
Hypothesis IMG : rimg_ok im.
Hypothesis FWD : fwd_ok im.
Hypothesis STOPC : exists l, PM.find stop (code im) = Some (LAB l).
Hypothesis ENDC : PM.find (Pos.succ stop) (code im) = None.

(* the address of table entry k *)
Lemma table_entry_k pcl fresh cls R a :
  at_code im pcl ([LAB fresh] ++ code_table rv_backend cls fresh ++ R) ->
  PM.find pcl (addr_of im) = Some a ->
  forall k, (k < List.length cls)%nat ->
    PM.find (key (a + 4 * Z.of_nat k)) (index_at im) = Some (padd pcl (1 + k)) /\
    PM.find (padd pcl (1 + k)) (addr_of im) = Some (a + 4 * Z.of_nat k).
Proof.
  intros CA A k Hk.
  set (tb := code_table rv_backend cls fresh) in *.
  assert (LT : List.length tb = List.length cls) by apply code_table_length.
  destruct (nth_error tb k) as [ck|] eqn:Ek; [|apply nth_error_None in Ek; lia].
  assert (NTH : nth_error ([LAB fresh] ++ tb ++ R) (1 + k) = Some ck).
  { cbn [app Nat.add nth_error]. rewrite nth_error_app1; [exact Ek|]. apply nth_error_Some. congruence. }
  assert (ADDR : PM.find (padd pcl (1 + k)) (addr_of im) = Some (a + 4 * Z.of_nat k)).
  { rewrite (addr_along im IMG _ pcl a CA A (1 + k) ck NTH).
    f_equal. cbn [app Nat.add firstn size_of isize]. rewrite firstn_app.
    replace (k - List.length tb)%nat with O by lia. cbn [firstn]. rewrite app_nil_r.
    unfold tb. rewrite code_table_size by lia. lia. }
  split; [|exact ADDR].
  assert (SZ : isize ck <> 0).
  { unfold tb, code_table in Ek. cbn [b_jump_label_fixed rv_backend] in Ek.
    clear -Ek. revert k Ek. induction cls as [|c0 r IH]; intros k Ek; [destruct k; discriminate|].
    cbn [flat_map app r_jump_label] in Ek. destruct k; cbn [nth_error] in Ek; [inversion Ek; cbn; lia|eauto]. }
  apply (io_index im IMG _ ck _ (proj1 (CA _ _ NTH)) SZ ADDR).
Qed.

(* the label, the table and the clauses: where clause k is, and how the address of the label leads there *)
Lemma dispatch_layout types ld bc pcl fresh cls c5 lc3 lc5 a :
  placed im pcl (([LAB fresh] ++ table_or_nil rv_backend cls fresh) ++ c5) ->
  gclauses types ld bc fresh cls lc3 = Ok (c5, lc5) ->
  PM.find pcl (addr_of im) = Some a ->
  (forall c lcl cl lcb cb lcb', In c cls -> ld (cl_ctx c) lcl = Ok (cl, lcb) ->
     rcs types (cl_body c) (bc (cl_ctx c)) lcb = Ok (cb, lcb') -> has_nz (cl ++ cb)) ->
  forall k c, nth_error cls k = Some c ->
    exists i pcc lcl cl lcb cb lcb',
      PM.find (key (a + (if Nat.leb (List.length cls) 1 then 0 else jump_length (N.of_nat k)))) (index_at im) = Some i /\
      (forall s o, rfin im stop pcc s o -> rfin im stop i s o) /\
      (Nat.leb (List.length cls) 1 = true -> forall s, star im pcl s pcc s) /\
      ld (cl_ctx c) lcl = Ok (cl, lcb) /\ rcs types (cl_body c) (bc (cl_ctx c)) lcb = Ok (cb, lcb') /\
      placed im pcc (cl ++ cb).
Proof.
  intros [CA LA] CC AL NZ k c Hk.
  rewrite <- !app_assoc in CA, LA.
  pose proof (nth_error_In _ _ Hk) as Hin.
  destruct c as [[x cx] body].
  destruct (gclauses_nth types ld bc fresh _ _ _ _ k x cx body CC Hk) as (pre5 & lc0 & cl & lc1 & cb & lc2 & post5 & E5 & LD & BD & PRE0).
  specialize (NZ (x, cx, body) lc0 cl lc1 cb lc2 Hin LD BD).
  cbn [cl_ctx cl_body fst snd] in *.
  assert (Lk : (k < List.length cls)%nat) by (apply nth_error_Some; congruence).
  set (tb := table_or_nil rv_backend cls fresh) in *.
  set (lx := fresh +++ "_" +++ show_ident x) in *.
  set (full := [LAB fresh] ++ tb ++ pre5 ++ [LAB lx] ++ (cl ++ cb) ++ post5).
  assert (CODE : at_code im pcl full).
  { unfold full. rewrite E5 in CA. repeat rewrite <- app_assoc in CA. repeat rewrite <- app_assoc. cbn [app] in *. exact CA. }
  assert (LABS : labels_ok im pcl full).
  { unfold full. rewrite E5 in LA. repeat rewrite <- app_assoc in LA. repeat rewrite <- app_assoc. cbn [app] in *. exact LA. }
  set (jl := (1 + List.length tb + List.length pre5)%nat).
  assert (NL : nth_error full jl = Some (LAB lx)).
  { unfold full, jl. cbn [app Nat.add nth_error]. rewrite nth_error_app2 by lia. rewrite nth_error_app2 by lia.
    replace (_ - _ - _)%nat with O by lia. reflexivity. }
  destruct (CODE jl _ NL) as (CLx & (alx & ALx)).
  pose proof (LABS jl _ NL) as FLx.
  assert (CB : placed im (padd pcl (S jl)) (cl ++ cb)).
  { assert (PLc : placed im pcl (([LAB fresh] ++ tb ++ pre5 ++ [LAB lx]) ++ (cl ++ cb) ++ post5)).
    { assert (EQ : ([LAB fresh] ++ tb ++ pre5 ++ [LAB lx]) ++ (cl ++ cb) ++ post5 = full) by (unfold full; cbn [app]; rewrite <- !app_assoc; reflexivity).
      rewrite EQ. split; [exact CODE|exact LABS]. }
    apply placed_app in PLc as [_ PLc]. apply placed_app in PLc as [PLc _].
    replace (List.length ([LAB fresh] ++ tb ++ pre5 ++ [LAB lx])) with (S jl) in PLc
      by (unfold jl; rewrite !app_length; cbn [List.length]; lia).
    exact PLc. }
  assert (INTO : forall s, star im (padd pcl jl) s (padd pcl (S jl)) s).
  { intros s. eapply star_step; [eapply one_next; [exact CLx|exact ALx|reflexivity]|]. rewrite <- padd_succ. apply star_refl. }
  destruct NZ as (dz & cz & Hz & NZz).
  assert (CS : exists c0, PM.find (padd pcl (S jl)) (code im) = Some c0).
  { destruct (cl ++ cb) as [|c0 r0] eqn:Ecb; [destruct dz; discriminate|]. exists c0. apply (proj1 (proj1 CB O c0 eq_refl)). }
  destruct (Nat.leb (List.length cls) 1) eqn:LE.
  - (* at most one clause: the label of the dispatch is followed by the label of the clause, then the clause code;
       the jump lands behind the labels at the head of the clause code *)
    assert (TB : tb = []) by (unfold tb, table_or_nil; now rewrite LE).
    assert (K0 : k = O) by (apply Nat.leb_le in LE; lia). subst k.
    assert (P5 : pre5 = []) by (apply PRE0; reflexivity).
    assert (J1 : jl = 1%nat) by (unfold jl; rewrite TB, P5; reflexivity).
    assert (DOWN : forall s, star im pcl s (padd pcl (S jl)) s).
    { intros s. destruct (CODE O (LAB fresh) eq_refl) as (C0 & (a0 & A0)).
      eapply star_step; [eapply one_next; [exact C0|exact A0|reflexivity]|].
      specialize (INTO s). rewrite J1 in INTO |- *. cbn [padd] in INTO |- *. exact INTO. }
    destruct CS as (c0 & CS).
    assert (N2 : nth_error full 2 = Some c0).
    { unfold full. rewrite TB, P5. cbn [app nth_error]. rewrite J1 in CS. cbn [padd] in CS.
      destruct (cl ++ cb) as [|c0' r0] eqn:Ecb; [destruct dz; discriminate|].
      pose proof (proj1 (proj1 CB O c0' eq_refl)) as X. rewrite J1 in X. cbn [padd] in X. cbn [app nth_error]. congruence. }
    pose proof (addr_along im IMG full pcl a CODE AL 2%nat c0 N2) as A2.
    assert (SZ2 : size_of (firstn 2 full) = 0) by (unfold full; rewrite TB, P5; reflexivity).
    rewrite SZ2, Z.add_0_r in A2. rewrite J1 in *. cbn [padd] in A2.
    destruct (FWD _ c0 a CS A2) as (i1 & IX1 & C1 & F1).
    { exists dz, cz. split; [|exact NZz]. rewrite <- padd_add. apply (proj1 (proj1 CB dz cz Hz)). }
    exists i1, (padd pcl 2), lc0, cl, lc1, cb, lc2.
    split; [rewrite Z.add_0_r; exact IX1|]. split; [intros s o Fin; exact (rfin_star_inv im stop STOPC ENDC _ _ _ _ o (F1 s) C1 Fin)|].
    split; [intros _; exact DOWN|]. split; [exact LD|]. split; [exact BD|exact CB].
  - (* the jump table: entry k is a 4-byte JAL to the label of clause k *)
    assert (TB : tb = code_table rv_backend cls fresh) by (unfold tb, table_or_nil; now rewrite LE).
    assert (CODE' : at_code im pcl ([LAB fresh] ++ code_table rv_backend cls fresh ++ (pre5 ++ [LAB lx] ++ (cl ++ cb) ++ post5))).
    { unfold full in CODE. rewrite TB in CODE. exact CODE. }
    destruct (table_entry_k pcl fresh cls _ a CODE' AL k Lk) as [TE1 TE2].
    assert (NJ : nth_error full (1 + k) = Some (JAL ZERO lx)).
    { unfold full. rewrite TB. cbn [app Nat.add nth_error]. rewrite nth_error_app1 by (rewrite code_table_length; lia).
      apply (code_table_nth cls fresh k (x, cx, body) Hk). }
    destruct (CODE _ _ NJ) as (CJ & (aj & AJ)).
    assert (FROM : forall s, star im (padd pcl (1 + k)) s (padd pcl (S jl)) s).
    { intros s. eapply star_step; [eapply one_jump; [exact CJ|exact AJ|]|apply INTO].
      cbn [step]. unfold goto_label. rewrite FLx. reflexivity. }
    exists (padd pcl (1 + k)), (padd pcl (S jl)), lc0, cl, lc1, cb, lc2.
    split; [unfold jump_length; rewrite nat_N_Z; exact TE1|].
    split; [intros s o Fin; exact (star_rfin im stop STOPC ENDC _ _ _ _ o (FROM s) Fin)|].
    split; [discriminate|]. split; [exact LD|]. split; [exact BD|exact CB].
Qed.
End Layout.
