(* Characterisation lemmas for the accessors of Sem/X86Sem.xstate, and a "location view":
   a temporary of the back end (register or spill slot relative to a fixed rsp) read and written as
   one kind of location.  All instruction-selection proofs go through these lemmas only. *)
From Coq Require Import List ZArith NArith String Bool Lia FMapPositive.
From SCC Require Import Base.Sexp Lang.AxSyn Sem.AxSem Model.Backend Model.X86 Sem.X86Sem Generated.Constants.
Import ListNotations.
Open Scope Z_scope.

Lemma succ_pos_inj a b : N.succ_pos a = N.succ_pos b -> a = b.
Proof. intros H. apply (f_equal Pos.pred_N) in H. now rewrite !N.pos_pred_succ in H. Qed.

Lemma rget_rset_same s r v : rget (rset s r v) r = v.
Proof. unfold rget, rset; destruct v; cbn; [apply PM.gss | apply PM.grs]. Qed.
Lemma rget_rset_other s r r' v : r <> r' -> rget (rset s r v) r' = rget s r'.
Proof.
  intros H. unfold rget, rset; destruct v; cbn; [apply PM.gso | apply PM.gro];
    intro E; apply succ_pos_inj in E; congruence.
Qed.
Lemma stack_rset s r v : stack (rset s r v) = stack s. Proof. reflexivity. Qed.
Lemma heap_rset s r v : heap (rset s r v) = heap s. Proof. reflexivity. Qed.
Lemma out_rset s r v : out (rset s r v) = out s. Proof. reflexivity. Qed.
Lemma flags_rset s r v : flags (rset s r v) = flags s. Proof. reflexivity. Qed.
Lemma rget_set_flags s f r : rget (set_flags s f) r = rget s r. Proof. reflexivity. Qed.
Lemma stack_set_flags s f : stack (set_flags s f) = stack s. Proof. reflexivity. Qed.
Lemma heap_set_flags s f : heap (set_flags s f) = heap s. Proof. reflexivity. Qed.
Lemma out_set_flags s f : out (set_flags s f) = out s. Proof. reflexivity. Qed.

Lemma key_inj a b : 0 <= a -> 0 <= b -> key a = key b -> a = b.
Proof. unfold key; intros Ha Hb H. apply (f_equal Z.pos) in H. rewrite !Z2Pos.id in H by lia. lia. Qed.

(* ---------- the spill frame ---------- *)
(* rsp = sp, 8-aligned, the whole spill area [sp, sp + SPILL_SPACE) inside the stack region *)
Definition sp_ok (sp : Z) : Prop := sp mod 8 = 0 /\ STACK_LIMIT <= sp /\ sp + SPILL_SPACE <= STACK_TOP.
Definition frame_ok (s : xstate) (sp : Z) : Prop := rget s 0%N = Some sp /\ sp_ok sp.
Definition slot_ok (p : N) : Prop := (p < SPILL_NUM)%N.
Definition slot_addr (sp : Z) (p : N) : Z := sp + stack_offset p.

Lemma spill_space_val : SPILL_SPACE = 8 * Z.of_N SPILL_NUM.
Proof. reflexivity. Qed.

Lemma slot_addr_facts sp p :
  sp_ok sp -> slot_ok p ->
  let a := slot_addr sp p in
  a mod 8 = 0 /\ STACK_LIMIT <= a /\ a + 8 <= STACK_TOP /\ sp <= a /\ 0 <= a.
Proof.
  intros (Hal & Hlo & Hhi) Hp. unfold slot_addr, stack_offset, slot_ok in *.
  rewrite spill_space_val in *. unfold STACK_LIMIT, STACK_TOP in *.
  assert (0 <= Z.of_N p < Z.of_N SPILL_NUM) by lia.
  repeat split; try lia.
  replace (sp + (8 * Z.of_N SPILL_NUM - 8 * (Z.of_N p + 1))) with (sp + (Z.of_N SPILL_NUM - Z.of_N p - 1) * 8) by lia.
  rewrite Z.mod_add by lia. exact Hal.
Qed.

Lemma slot_addr_inj sp p q : slot_addr sp p = slot_addr sp q -> p = q.
Proof. unfold slot_addr, stack_offset. intros H. lia. Qed.

Lemma in_stack_not_heap a : in_stack a = true -> in_heap a = false.
Proof.
  unfold in_stack, in_heap, STACK_LIMIT, STACK_TOP, HEAP_BASE, HEAP_SIZE.
  intros H. apply andb_true_iff in H as [H1 H2]. apply Z.leb_le in H1, H2.
  apply andb_false_iff. right. apply Z.leb_gt. lia.
Qed.

Definition sget (s : xstate) (sp : Z) (p : N) : option Z := PM.find (key (slot_addr sp p)) (stack s).
Definition sset (s : xstate) (sp : Z) (p : N) (v : option Z) : xstate :=
  {| regs := regs s; heap := heap s;
     stack := match v with Some z => PM.add (key (slot_addr sp p)) z (stack s) | None => PM.remove (key (slot_addr sp p)) (stack s) end;
     flags := flags s; out := out s; hw := hw s |}.

Lemma mload_slot s sp p : frame_ok s sp -> slot_ok p -> mload s (slot_addr sp p) = MOk (sget s sp p).
Proof.
  intros F P. destruct (slot_addr_facts sp p (proj2 F) P) as (A & L & H & _ & _).
  unfold mload, aligned. rewrite A. cbn [Z.eqb negb].
  assert (in_stack (slot_addr sp p) = true) as IS.
  { unfold in_stack. apply andb_true_iff; split; apply Z.leb_le; lia. }
  rewrite (in_stack_not_heap _ IS), IS. reflexivity.
Qed.
Lemma mstore_slot s sp p v : frame_ok s sp -> slot_ok p -> mstore s (slot_addr sp p) v = MOk (sset s sp p v).
Proof.
  intros F P. destruct (slot_addr_facts sp p (proj2 F) P) as (A & L & H & _ & _).
  unfold mstore, aligned. rewrite A. cbn [Z.eqb negb].
  assert (in_stack (slot_addr sp p) = true) as IS.
  { unfold in_stack. apply andb_true_iff; split; apply Z.leb_le; lia. }
  rewrite (in_stack_not_heap _ IS), IS. reflexivity.
Qed.

Lemma sget_sset_same s sp p v : sget (sset s sp p v) sp p = v.
Proof. unfold sget, sset; destruct v; cbn; [apply PM.gss | apply PM.grs]. Qed.
Lemma sget_sset_other s sp p q v :
  sp_ok sp -> slot_ok p -> slot_ok q -> p <> q -> sget (sset s sp p v) sp q = sget s sp q.
Proof.
  intros F P Q H. destruct (slot_addr_facts sp p F P) as (_ & _ & _ & _ & Ap).
  destruct (slot_addr_facts sp q F Q) as (_ & _ & _ & _ & Aq).
  unfold sget, sset; destruct v; cbn; [apply PM.gso | apply PM.gro];
    intro E; apply key_inj in E; auto; apply slot_addr_inj in E; congruence.
Qed.
Lemma rget_sset s sp p v r : rget (sset s sp p v) r = rget s r. Proof. reflexivity. Qed.
Lemma sget_rset s sp r v p : sget (rset s r v) sp p = sget s sp p. Proof. reflexivity. Qed.
Lemma sget_set_flags s sp f p : sget (set_flags s f) sp p = sget s sp p. Proof. reflexivity. Qed.
Lemma heap_sset s sp p v : heap (sset s sp p v) = heap s. Proof. reflexivity. Qed.
Lemma out_sset s sp p v : out (sset s sp p v) = out s. Proof. reflexivity. Qed.
Lemma flags_sset s sp p v : flags (sset s sp p v) = flags s. Proof. reflexivity. Qed.

Lemma frame_ok_rset s sp r v : r <> 0%N -> frame_ok s sp -> frame_ok (rset s r v) sp.
Proof. intros H (A & B). split; [rewrite rget_rset_other; auto | exact B]. Qed.
Lemma frame_ok_sset s sp p v : frame_ok s sp -> frame_ok (sset s sp p v) sp.
Proof. intros (A & B). split; [exact A | exact B]. Qed.
Lemma frame_ok_set_flags s sp f : frame_ok s sp -> frame_ok (set_flags s f) sp.
Proof. intros (A & B). split; [exact A | exact B]. Qed.

(* ---------- locations ---------- *)
Definition lget (s : xstate) (sp : Z) (t : xtemp) : option Z :=
  match t with XR r => rget s r | XS p => sget s sp p end.
Definition lset (s : xstate) (sp : Z) (t : xtemp) (v : option Z) : xstate :=
  match t with XR r => rset s r v | XS p => sset s sp p v end.
(* a location the generated code may name as a variable temporary or scratch: not rsp *)
Definition loc_ok (t : xtemp) : Prop :=
  match t with XR r => r <> 0%N | XS p => slot_ok p end.

Lemma lget_lset_same s sp t v : lget (lset s sp t v) sp t = v.
Proof. destruct t; cbn; [apply rget_rset_same | apply sget_sset_same]. Qed.
Lemma lget_lset_other s sp t u v :
  sp_ok sp -> loc_ok t -> loc_ok u -> t <> u -> lget (lset s sp t v) sp u = lget s sp u.
Proof.
  intros F T U H. destruct t as [r|p], u as [r'|q]; cbn in *.
  - apply rget_rset_other; congruence.
  - apply sget_rset.
  - apply rget_sset.
  - apply sget_sset_other; auto; congruence.
Qed.
Lemma frame_ok_lset s sp t v : loc_ok t -> frame_ok s sp -> frame_ok (lset s sp t v) sp.
Proof. destruct t; cbn; intros; [apply frame_ok_rset | apply frame_ok_sset]; auto. Qed.
Lemma heap_lset s sp t v : heap (lset s sp t v) = heap s. Proof. destruct t; reflexivity. Qed.
Lemma out_lset s sp t v : out (lset s sp t v) = out s. Proof. destruct t; reflexivity. Qed.
Lemma lget_set_flags s sp f t : lget (set_flags s f) sp t = lget s sp t. Proof. destruct t; reflexivity. Qed.

(* straight-line execution *)
Fixpoint exec_straight (im : image) (cs : list xcode) (s : xstate) : option xstate :=
  match cs with
  | [] => Some s
  | c :: r => match step im c s with Next s' => exec_straight im r s' | _ => None end
  end.
Lemma exec_straight_app im a b s :
  exec_straight im (a ++ b) s = match exec_straight im a s with Some s' => exec_straight im b s' | None => None end.
Proof. revert s; induction a as [|c a IH]; intros s; cbn; [reflexivity|]. destruct (step im c s); auto. Qed.
