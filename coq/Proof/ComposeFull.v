(* C01: the composition with EVERY link discharged by a proved stage theorem - no stage hypothesis is left:
     Fun -> Core        C02_fun2core_correct_fragment2            (guard: prog_guard, definition names distinct)
     Core -> focused    C03_uniquify_focus_preserves_static       (guards: pre_check, focus_wf, cs_prog, static_ok)
     focused -> AxCut   C04_shrink_correct_fragment2              (guards: frag2_prog, decls_ok, wt_fs, unique_binders, ids_bounded)
     AxCut -> linear    C05 linearize_preserves                   (guard: prog_ok)
     linear -> x86-64   C06 x86_codegen_correct_linearized        (all statement forms; guards below)
   The first four are the composition of Proof/ComposeAll.v (there inside a section whose hypothesis is the
   unguarded x86-64 link; the fifteen lines are repeated here with the proved, guarded link).  Guards of the
   x86-64 link, on the programs the statement names:
     entry_ext (linearize a)     the entry definition takes integers (the arguments of asm_main)
     plain_names / plain_types   no definition or type is named '#...' (true of every name the pipeline makes)
     asm_wf cs = None            labels of the emitted code unique (C14; checked on the real output on every run)
     code_small cs               the code is smaller than 2^62 - 2^30 bytes
     heap_fits (linearize a) args    NOT a boolean on the program: the run stays inside the 32 MiB heap region of
                                 the ISA model (the source semantics has no memory bound).  Decided along a
                                 terminating run by `fits_run` (Proof/X86HSimExample.v). *)
From Coq Require Import List ZArith NArith String Ascii Bool Lia.
From SCC Require Import Base.Sexp Lang.AxSyn Lang.FunSyn Lang.CoreSyn Sem.AxSem Sem.CoreSem Sem.FunSem Sem.X86Sem Sem.X86Wf Sem.FsCheck Sem.FsFrag2
     Model.Backend Model.Fun2Core Model.Fun2CoreGuard Model.Focus Model.FocusCheck Model.FocusGuard Model.Shrink Model.Linearize Model.LinCheck
     Model.X86 Model.Runtime Model.PipelineGuards
     Proof.RuntimeProof Proof.LinSim Proof.Compose Proof.ComposeFocus Proof.ComposeF2C Proof.Compose2
     Proof.Fun2CoreRel Proof.Fun2CoreProg Proof.FocusRun Proof.FocusFrag Proof.UqAeq Proof.UqCompose Proof.ShrinkSem Proof.ShrinkSimClosed
     Proof.X86SimAddr Proof.X86SimProg Proof.X86SimProgC Proof.X86HSimTop Proof.X86HSimCor Proof.X86HSimExample Proof.Fun2CoreExamples.
From SCC Require Proof.AxHeapTyping.
Import ListNotations.
Open Scope Z_scope.

Theorem compile_correct_full :
  forall (p : fcprog) (c : cprog) (f : fsprog) (a : prog) (cs : list xcode) (nargs : nat) (lc lc' : N)
         (args : list Z) (n : nat) (o : obs),
    (* source program: inside the guard of the Fun -> Core theorem *)
    NoDup (map fdname (fcpdefs p)) -> prog_guard p = true ->
    compile_prog p = Fun2Core.Ok c ->
    (* Core program: inside the guards of the uniquify + focus theorem *)
    pre_check c = true -> focus_wf c = true -> cs_prog c = true -> static_ok c = true ->
    focus_prog c = Backend.Ok f ->
    (* focused program: inside the guards of the shrink theorem *)
    frag2_prog f = true -> decls_ok f = true -> wt_fs f = true -> unique_binders f = true -> ids_bounded f = true ->
    shrink_prog f = SOk a ->
    (* AxCut program: the linearizer's precondition *)
    prog_ok a = true ->
    x86_compile (linearize a) lc = Backend.Ok (cs, nargs, lc') ->
    (* the x86-64 link: checks on the linearized program and on the emitted code; the run fits the heap region *)
    AxHeapTyping.entry_ext (linearize a) = true -> plain_names (linearize a) = true -> plain_types (linearize a) = true ->
    asm_wf cs = None -> code_small cs = true ->
    heap_fits (linearize a) args ->
    run_fun n p args = o -> out_ok o ->
    (exists outer inner, fst (run_x86 outer inner cs args) = o) /\
    (Forall (fun pz => in_i64 (snd pz)) (fst o) ->
     bytes_of_string (render_prints (fst o)) = flat_map runtime_bytes (fst o)).
Proof.
  intros p c f a cs nargs lc lc' args n o Hnd Hgd Hc Hpre Hwf Hcs ST Hf F1 F2 F3 F4 F5 Hs Hok Hx EE PN PT WF SM FIT Hrun (z & Hz).
  assert (D : defined o = true) by (unfold defined; now rewrite Hz).
  assert (G : (exists z, snd o = OExit z) \/ (exists w, snd o = OUndef w)) by (left; eauto).
  split; [|apply render_prints_is_runtime_output].
  destruct (fun2core_correct_fragment_lemma p c args n o Hc Hnd Hgd Hrun (defined_final o D)) as (m1 & R1).
  assert (GE : good_end (snd (run_core m1 c args))) by (rewrite R1, Hz; exact I).
  destruct (uniquify_focus_preserves_static c f args m1 Hpre Hwf Hcs ST Hf GE) as (m2 & R2).
  rewrite R1 in R2.
  assert (Gd : ShrinkSem.good o) by (unfold ShrinkSem.good; rewrite Hz; exact I).
  destruct (shrink_correct_fragment2_closed f a m2 args o F1 F2 F3 F4 F5 Hs R2 Gd) as (m3 & R3).
  destruct (linearize_preserves_stable a Hok args m3 o R3 G) as (m4 & R4).
  specialize (R4 0%nat). rewrite Nat.add_0_r in R4.
  exact (x86_codegen_correct_linearized a lc cs nargs lc' args m4 o Hok EE PN PT Hx WF SM FIT R4 D).
Qed.

(* ---------- non-vacuity: every guard, as one executable list ---------- *)
(* the guards of the x86-64 link on the model's stage outputs, with `heap_fits` decided by `fits_run fuel` *)
Definition x86_link_guards (p : fcprog) (args : list Z) (fuel : nat) : list bool :=
  match pipeline_stages p with
  | Some (_, _, a) =>
      let l := linearize a in
      match x86_compile l 0 with
      | Backend.Ok (cs, _, _) =>
          [AxHeapTyping.entry_ext l; plain_names l; plain_types l;
           match asm_wf cs with None => true | Some _ => false end; code_small cs; fits_run fuel l args]
      | Backend.Err _ => [false]
      end
  | None => [false]
  end.
Definition all_guards (p : fcprog) (args : list Z) (fuel : nat) : bool :=
  forallb (fun b => b) (pipeline_guards p) && forallb (fun b => b) (x86_link_guards p args fuel).

(* the five example programs of Proof/Fun2CoreExamples.v (mutual recursion; shared continuations; lists with case
   in tail and non-tail position; labels and goto; a corecursive stream) satisfy every guard *)
Lemma all_guards_examples :
  all_guards ex_calls [5] 5000 = true /\ all_guards ex_shared [5] 5000 = true /\ all_guards ex_data [6] 5000 = true /\
  all_guards ex_labels [5] 5000 = true /\ all_guards ex_codata [4] 5000 = true.
Proof. vm_compute. repeat split; reflexivity. Qed.

(* the executable guards imply the hypotheses of the theorem: the theorem, for guard-checked programs *)
Fixpoint nodup_b (l : list string) : bool :=
  match l with [] => true | x :: r => negb (existsb (String.eqb x) r) && nodup_b r end.
Lemma nodup_b_sound (l : list string) : nodup_b l = true -> NoDup l.
Proof.
  induction l as [|x r IH]; cbn; [constructor|]. intros H. apply andb_true_iff in H as [N R]. constructor; [|auto].
  intros IN. apply negb_true_iff in N. assert (E : existsb (String.eqb x) r = true); [|congruence].
  apply existsb_exists. exists x. split; [exact IN|apply String.eqb_refl].
Qed.

Theorem compile_correct_checked :
  forall (p : fcprog) (args : list Z) (fuel n : nat) (o : obs),
    NoDup (map fdname (fcpdefs p)) -> all_guards p args fuel = true ->
    run_fun n p args = o -> out_ok o ->
    exists c f a cs nargs lc',
      pipeline_stages p = Some (c, f, a) /\ x86_compile (linearize a) 0 = Backend.Ok (cs, nargs, lc') /\
      exists outer inner, fst (run_x86 outer inner cs args) = o.
Proof.
  intros p args fuel n o ND AG RUN OK. unfold all_guards in AG. apply andb_true_iff in AG as [PG XG].
  unfold pipeline_guards in PG. unfold x86_link_guards in XG.
  destruct (pipeline_stages p) as [[[c f] a]|] eqn:PS; [|discriminate].
  destruct (x86_compile (linearize a) 0) as [[[cs nargs] lc']|] eqn:XC; [|discriminate].
  exists c, f, a, cs, nargs, lc'. split; [reflexivity|]. split; [exact XC|].
  unfold pipeline_stages in PS.
  destruct (compile_prog p) as [c0|] eqn:CP; [|discriminate].
  destruct (focus_prog c0) as [f0|] eqn:FP; [|discriminate].
  destruct (shrink_prog f0) as [a0|] eqn:SP; try discriminate.
  inversion PS; subst c0 f0 a0; clear PS.
  cbn [forallb] in PG, XG. repeat (apply andb_true_iff in PG as [? PG]). repeat (apply andb_true_iff in XG as [? XG]).
  destruct (asm_wf cs) eqn:WF; [discriminate|].
  eapply (compile_correct_full p c f a cs nargs 0%N lc' args n o); eauto.
  eapply fits_run_sound; eauto.
Qed.

(* instance: the theorem applied to the list program; and what evaluation shows for both ends *)
Lemma compile_correct_full_instance :
  exists c f a cs nargs lc',
    pipeline_stages ex_data = Some (c, f, a) /\ x86_compile (linearize a) 0 = Backend.Ok (cs, nargs, lc') /\
    exists outer inner, fst (run_x86 outer inner cs [6]) = ([(true, 21); (true, 36)], OExit 0).
Proof.
  assert (R : run_fun 2000 ex_data [6] = ([(true, 21); (true, 36)], OExit 0)) by (vm_compute; reflexivity).
  eapply (compile_correct_checked ex_data [6] 5000 2000); [| |exact R|exists 0; reflexivity].
  - apply nodup_b_sound. vm_compute. reflexivity.
  - vm_compute. reflexivity.
Qed.
