(* C07, heap statements on AArch64: the one hypothesis of the AArch64 store refinement (Proof/A64MemStoreChain.v
   `a64_store_full`) that the shared bridge of Proof/X86HBridge.v (`alloc_object_bridge`: `alloc_object_pre`, the
   acquired blocks) does not deliver: the header of the block reserved before every `acquire_block` of the chain is a
   64-bit value (`alloc_object_hdr64`; AArch64 tests it with CMP #0 on the wrapped value).  From the allocator
   invariant InvA every header lies in [0, 2^32] (`hdr_bounds_x`, shared), along the whole chain of allocations;
   the induction is the one of `X86HBridge.chain_bridge`. *)
From Coq Require Import List ZArith NArith String Bool Lia Permutation.
From SCC Require Import Sem.AxSem.
From SCC Require Model.Heap Proof.HeapMore Proof.HeapTrace Proof.HeapRep Proof.HeapRepAlloc Proof.HeapBridge
     Proof.X86Mem Proof.X86MemFrame Proof.X86MemStoreChain Proof.X86HeapDefs Proof.X86HeapAcq Proof.X86HeapCongr Proof.X86HBridge.
From SCC Require Import Proof.A64MemStoreChain.
Import ListNotations.
Open Scope Z_scope.

Notation InvA := HeapMore.InvA.
Notation heq := X86HeapDefs.heq.
Notation P3 := X86HeapDefs.P3.
Notation LIMIT := X86HeapDefs.LIMIT.
Notation HB := X86Sem.HEAP_BASE.

Lemma hdr64_of_inv a s R hl fl cl :
  InvA HB s R hl fl cl -> heq a s -> P3 s -> Heap.frontier s <= LIMIT -> Z.of_nat (List.length R) <= 1048576 -> hdr64 a.
Proof.
  intros IA HQ HP HF HR. pose proof (proj1 IA) as I.
  destruct (HeapMore.heap_in_hl _ _ _ _ _ I) as (hl1 & Ehl).
  assert (Bh : X86Mem.is_blk (Heap.heap s)).
  { eapply X86HBridge.list_is_blk; [exact IA|exact HF|]. rewrite Ehl. now left. }
  destruct HQ as (E1 & _ & _ & EM). unfold hdr64. rewrite E1, (proj1 (EM _ Bh)).
  pose proof (X86HBridge.hdr_bounds_x s R hl fl cl IA HP HF HR _ Bh) as B.
  unfold X86HBridge.HB, min_int, max_int, two63 in *. lia.
Qed.

Lemma chain_hdr64_bridge : forall fuel rest link a s R0 hl fl cl,
  InvA HB s (link :: Heap.nz rest ++ R0) hl fl cl -> link <> 0 -> heq a s -> P3 s ->
  Z.of_nat (List.length (link :: Heap.nz rest ++ R0)) <= 1048576 ->
  Heap.frontier (snd (Heap.store_other fuel rest link s)) + 64 <= LIMIT ->
  chain_hdr64 fuel rest link a.
Proof.
  induction fuel as [|f IH]; intros rest link a s R0 hl fl cl IA Hl HQ HP HR HF; [exact I|].
  destruct rest as [|x r]; [exact I|].
  set (rest := x :: r) in *.
  set (sl := Heap.pad 2 (Heap.lastn 2 rest) ++ [link]).
  assert (Lsl : List.length sl = 3%nat).
  { unfold sl. rewrite app_length, HeapRepAlloc.length_pad; [reflexivity|]. rewrite HeapRepAlloc.length_lastn. lia. }
  pose proof (HeapBridge.stage_perm rest link R0 Hl ltac:(discriminate)) as HPm. fold sl in HPm.
  destruct (HeapBridge.alloc_stage HB s _ _ hl fl cl sl IA HPm)
    as (Ef & Hr0 & (hl' & fl' & cl' & IA') & Fm & Hnr & Hfwd).
  rewrite X86MemStoreChain.store_other_step in HF by discriminate. fold sl in HF. rewrite Ef in HF.
  pose proof (X86HBridge.store_other_frontier f (Heap.butlastn 2 rest) (Heap.heap s) _ R0 hl' fl' cl' IA' Hr0) as Fm2.
  assert (AOK : X86MemStoreChain.acq_ok a) by (apply (X86HBridge.acq_ok_of_inv a s _ hl fl cl IA HQ HP); [lia|exact HR]).
  destruct (X86HeapCongr.heq_alloc a s sl HQ HP AOK Lsl) as (Efa & HQ' & HP').
  assert (HR' : Z.of_nat (List.length (Heap.heap s :: Heap.nz (Heap.butlastn 2 rest) ++ R0)) <= 1048576).
  { pose proof (HeapBridge.stage_roots_len rest link R0) as L. cbn [List.length] in *. lia. }
  cbn [chain_hdr64]. fold rest. fold sl.
  change (match rest with [] => True | _ :: _ => hdr64 a /\ chain_hdr64 f (Heap.butlastn 2 rest) (fst (Heap.alloc sl a)) (snd (Heap.alloc sl a)) end)
    with (hdr64 a /\ chain_hdr64 f (Heap.butlastn 2 rest) (fst (Heap.alloc sl a)) (snd (Heap.alloc sl a))).
  split; [apply (hdr64_of_inv a s _ hl fl cl IA HQ HP); [lia|exact HR]|].
  rewrite Efa, Ef.
  apply (IH (Heap.butlastn 2 rest) (Heap.heap s) (snd (Heap.alloc sl a)) (snd (Heap.alloc sl s)) R0 hl' fl' cl' IA' Hr0 HQ' HP' HR' HF).
Qed.

Theorem alloc_object_hdr64_bridge fields a s R R0 hl fl cl :
  InvA HB s R hl fl cl -> heq a s -> P3 s -> Permutation R (Heap.nz fields ++ R0) -> fields <> [] ->
  Z.of_nat (List.length R) < 1048576 ->
  Heap.frontier (snd (Heap.alloc_object fields s)) + 64 <= LIMIT ->
  alloc_object_hdr64 fields a.
Proof.
  intros IA HQ HP HPm Hne HR HF.
  set (sl := Heap.pad 3 (Heap.lastn 3 fields)).
  assert (Lsl : List.length sl = 3%nat).
  { unfold sl. rewrite HeapRepAlloc.length_pad; [reflexivity|]. rewrite HeapRepAlloc.length_lastn. lia. }
  pose proof (HeapBridge.first_perm fields R R0 HPm) as HP1. fold sl in HP1.
  destruct (HeapBridge.alloc_stage HB s _ _ hl fl cl sl IA HP1)
    as (Ef & Hr0 & (hl' & fl' & cl' & IA') & Fm & Hnr & Hfwd).
  assert (ES : Heap.alloc_object fields s = Heap.store_other (List.length fields) (Heap.butlastn 3 fields) (fst (Heap.alloc sl s)) (snd (Heap.alloc sl s))).
  { unfold Heap.alloc_object. fold sl. destruct fields; [contradiction|]. destruct (Heap.alloc sl s). reflexivity. }
  rewrite ES, Ef in HF.
  pose proof (X86HBridge.store_other_frontier (List.length fields) (Heap.butlastn 3 fields) (Heap.heap s) _ R0 hl' fl' cl' IA' Hr0) as Fm2.
  assert (AOK : X86MemStoreChain.acq_ok a) by (apply (X86HBridge.acq_ok_of_inv a s _ hl fl cl IA HQ HP); [lia|lia]).
  destruct (X86HeapCongr.heq_alloc a s sl HQ HP AOK Lsl) as (Efa & HQ' & HP').
  assert (HR' : Z.of_nat (List.length (Heap.heap s :: Heap.nz (Heap.butlastn 3 fields) ++ R0)) <= 1048576).
  { apply Permutation_length in HP1. rewrite app_length in HP1. unfold sl in HP1. rewrite HeapMore.nz_pad in HP1.
    cbn [List.length]. rewrite app_length in *. lia. }
  unfold alloc_object_hdr64. fold sl. destruct fields as [|x0 f0]; [contradiction|].
  set (fields := x0 :: f0) in *.
  split; [apply (hdr64_of_inv a s _ hl fl cl IA HQ HP); [lia|lia]|].
  rewrite Efa, Ef.
  apply (chain_hdr64_bridge (List.length fields) (Heap.butlastn 3 fields) (Heap.heap s) (snd (Heap.alloc sl a)) (snd (Heap.alloc sl s)) R0 hl' fl' cl' IA' Hr0 HQ' HP' HR' HF).
Qed.
