(* C17: the label counter only renumbers generated labels.
   The Rust label counter is a process-global static: what was compiled before in the same process
   shifts every generated number.  [translate_shift]: started at counter b instead of a, `translate`
   returns the same code with every label renamed by rho, where rho maps the text of a generated label
   with number k > a to the text with number k - a + b and fixes definition labels and `cleanup`; the
   final counter is shifted likewise, errors are the same.  For every back end whose emitters commute
   with the renaming ([shift_ok]). *)
From Coq Require Import List NArith String Ascii Bool Lia.
From SCC Require Import Base.Sexp Lang.AxSyn Model.ParMoves Model.Backend Sem.LabelGuard
  Proof.LinBasics Proof.LabelStrings Proof.LabelGen.
Import ListNotations.
Local Open Scope string_scope.
Local Open Scope list_scope.

Section Shift.
Context {Code Temp : Type} (B : backend Code Temp).
Variables (cdefs crefs : Code -> list string).
Hypothesis LO : labels_ok B cdefs crefs.
Variable cmap : (string -> string) -> Code -> Code.      (* rename the labels of one instruction *)
Variable rho : string -> string.
Variables a b : N.
Definition sh (lc : N) : N := (lc - a + b)%N.
Notation rn := (map (cmap rho)).
Definition shp (p : list Code * N) : list Code * N := (rn (fst p), sh (snd p)).
Definition shr (r : res (list Code * N)) : res (list Code * N) :=
  match r with Ok p => Ok (shp p) | Err m => Err m end.

Record shift_ok : Prop := {
  so_label : forall l, cmap rho (b_label B l) = b_label B (rho l);
  so_mark : forall c, rn (b_mark B c) = b_mark B c;
  so_jump : forall t, rn (b_jump B t) = b_jump B t;
  so_jump_label : forall l, rn (b_jump_label B l) = b_jump_label B (rho l);
  so_jump_label_fixed : forall l, rn (b_jump_label_fixed B l) = b_jump_label_fixed B (rho l);
  so_jcc2 : forall s x y l, rn (b_jcc2 B s x y l) = b_jcc2 B s x y (rho l);
  so_jcc1 : forall s x l, rn (b_jcc1 B s x l) = b_jcc1 B s x (rho l);
  so_load_immediate : forall t i, rn (b_load_immediate B t i) = b_load_immediate B t i;
  so_load_label : forall t l, rn (b_load_label B t l) = b_load_label B t (rho l);
  so_add_and_jump : forall t i, rn (b_add_and_jump B t i) = b_add_and_jump B t i;
  so_arith : forall o t x y, rn (b_arith B o t x y) = b_arith B o t x y;
  so_mov : forall t s, rn (b_mov B t s) = b_mov B t s;
  so_print : forall nl t c, rn (b_print B nl t c) = b_print B nl t c;
  so_store_temporary : forall t f, rn (b_store_temporary B t f) = b_store_temporary B t f;
  so_restore_temporary : forall t f, rn (b_restore_temporary B t f) = b_restore_temporary B t f;
  so_erase : forall t lc, (a <= lc)%N -> b_erase B t (sh lc) = shp (b_erase B t lc);
  so_share_n : forall t n lc, (a <= lc)%N -> b_share_n B t n (sh lc) = shp (b_share_n B t n lc);
  so_store : forall x y lc, (a <= lc)%N -> b_store B x y (sh lc) = shr (b_store B x y lc);
  so_load : forall x y lc, (a <= lc)%N -> b_load B x y (sh lc) = shr (b_load B x y lc);
}.
Hypothesis SO : shift_ok.

Variables okS okX : string -> bool.
Hypothesis rho_gen : forall g, in_univ okS okX g -> is_gen g = true -> (a < key g)%N -> rho (pr g) = pr (with_key sh g).
Hypothesis rho_def : forall s, lower_first s = true -> rho (s ++ "_")%string = (s ++ "_")%string.
Hypothesis rho_cleanup : rho "cleanup" = "cleanup".

(* the guard: names as in the label theorems, and calls go to lower-case names *)
Definition shift_guard (s : stmt) : bool :=
  stmt_check (fun l => lower_first (show_ident l)) (sw_ok okS okX) s.
Lemma guard_names s : shift_guard s = true -> names_ok okS okX s = true.
Proof.
  unfold shift_guard, names_ok. induction s using stmt_ind2; cbn [stmt_check]; intros G; auto.
  - change (stmt_check (fun l => lower_first (show_ident l)) (sw_ok okS okX) (Switch v t cls) = true) in G.
    rewrite stmt_check_switch in G. change (stmt_check (fun _ => true) (sw_ok okS okX) (Switch v t cls) = true).
    rewrite stmt_check_switch. apply andb_true_iff in G as [G1 G2]. rewrite G1. cbn [andb].
    apply forallb_forall. intros c Hc. rewrite forallb_forall in G2. rewrite Forall_forall in H. apply (H c Hc), G2, Hc.
  - change (stmt_check (fun l => lower_first (show_ident l)) (sw_ok okS okX) (Create v t env cls s) = true) in G.
    rewrite stmt_check_create in G. change (stmt_check (fun _ => true) (sw_ok okS okX) (Create v t env cls s) = true).
    rewrite stmt_check_create. apply andb_true_iff in G as [G G3]. apply andb_true_iff in G as [G1 G2]. rewrite G1, (IHs G3). cbn [andb].
    rewrite andb_true_r. apply forallb_forall. intros c Hc. rewrite forallb_forall in G2. rewrite Forall_forall in H. apply (H c Hc), G2, Hc.
  - apply andb_true_iff in G as [G1 G2]. rewrite (IHs1 G1), (IHs2 G2). reflexivity.
Qed.

(* ---------- monadic plumbing ---------- *)
Lemma shr_bind (e e' : res (list Code * N)) (f f' : list Code * N -> res (list Code * N)) :
  e' = shr e -> (forall c l, e = Ok (c, l) -> f' (rn c, sh l) = shr (f (c, l))) -> rbind e' f' = shr (rbind e f).
Proof. intros -> H. destruct e as [[c l]|m]; cbn [shr rbind shp fst snd]; [apply H; reflexivity|reflexivity]. Qed.
Lemma same_bind {X} (e : res X) (f f' : X -> res (list Code * N)) :
  (forall x, e = Ok x -> f' x = shr (f x)) -> rbind e f' = shr (rbind e f).
Proof. intros H. destruct e as [x|m]; cbn [rbind shr]; [apply H; reflexivity|reflexivity]. Qed.
Lemma shr_ok c l : shr (Ok (c, l)) = Ok (rn c, sh l).
Proof. reflexivity. Qed.
Lemma sh_succ lc : (a <= lc)%N -> sh (lc + 1) = (sh lc + 1)%N.
Proof. unfold sh. lia. Qed.
Lemma sh_ge lc : (a <= lc)%N -> (b <= sh lc)%N.
Proof. unfold sh. lia. Qed.

Lemma rn_flat {X} (f : X -> list Code) l : (forall x, rn (f x) = f x) -> rn (flat_map f l) = flat_map f l.
Proof. intros H. induction l as [|x l IH]; [reflexivity|]. cbn [flat_map]. rewrite map_app, H, IH. reflexivity. Qed.
Lemma rn_exchange tm c1 c2 c : code_exchange B tm c1 c2 = Ok c -> rn c = c.
Proof.
  unfold code_exchange, parallel_moves_code. intros H. rinv H. destruct (spanning_forest _ _ _ _); [|discriminate]. inversion H; subst.
  apply rn_flat. intros r. unfold emit_root. apply rn_flat. intros i.
  destruct i; cbn [emit_pinstr]; [apply (so_mov SO)|apply (so_store_temporary SO)|apply (so_restore_temporary SO)].
Qed.

(* ---------- weakening / contraction ---------- *)
Lemma urc_shift v context n lc : (a <= lc)%N ->
  update_reference_count B v context n (sh lc) = shr (update_reference_count B v context n lc).
Proof.
  intros L. unfold update_reference_count. apply same_bind. intros t _. destruct n as [|[|n]].
  - rewrite (so_erase SO) by exact L. destruct (b_erase B t lc). reflexivity.
  - reflexivity.
  - rewrite (so_share_n SO) by exact L. destruct (b_share_n B t (N.of_nat (S n)) lc). reflexivity.
Qed.
Lemma cwc_shift tm context : forall lc, (a <= lc)%N ->
  code_weakening_contraction B tm context (sh lc) = shr (code_weakening_contraction B tm context lc).
Proof.
  induction tm as [|[bd targets] r IH]; intros lc L; cbn [code_weakening_contraction]; [reflexivity|].
  assert (K : forall c1 lc1, update_reference_count B (bvar bd) context (List.length targets) lc = Ok (c1, lc1) -> (a <= lc1)%N).
  { intros c1 lc1 E. destruct (urc_inv B cdefs crefs LO okS okX _ _ _ _ _ _ E) as [L1 _]. lia. }
  destruct (bchi bd); [| |apply IH; exact L].
  all: apply shr_bind; [apply urc_shift; exact L|]; intros c1 lc1 E; apply shr_bind; [apply IH; apply (K _ _ E)|];
    intros c2 lc2 _; rewrite shr_ok, map_app; reflexivity.
Qed.

(* ---------- statements ---------- *)
Definition IHsh (types : list tydecl) (s : stmt) : Prop :=
  shift_guard s = true -> forall context lc, (a <= lc)%N ->
  code_statement B types s context (sh lc) = shr (code_statement B types s context lc).

Lemma stmt_mono types s context lc c lc' :
  shift_guard s = true -> code_statement B types s context lc = Ok (c, lc') -> (lc <= lc')%N.
Proof. intros G H. destruct (code_statement_defs B cdefs crefs LO okS okX types s (guard_names s G) _ _ _ _ H) as [L _]. exact L. Qed.

(* the labels of a Switch / Create whose number is k > a *)
Lemma rho_type_label t k : okS (tyS t) = true -> lower_first (tyS t) = false -> (a < k)%N ->
  rho (type_label t k) = type_label t (sh k).
Proof. intros H1 H2 K. rewrite !type_label_pr. rewrite rho_gen; [reflexivity|split; assumption|reflexivity|exact K]. Qed.
Lemma rho_clause_label t k x : okS (tyS t) = true -> lower_first (tyS t) = false -> okX (show_ident x) = true -> (a < k)%N ->
  rho (type_label t k +++ "_" +++ show_ident x) = type_label t (sh k) +++ "_" +++ show_ident x.
Proof. intros H1 H2 H3 K. rewrite !clause_label_pr. rewrite rho_gen; [reflexivity|repeat split; assumption|reflexivity|exact K]. Qed.

Lemma table_shift cls fresh fresh' :
  (forall cl, In cl cls -> rho (fresh +++ "_" +++ show_ident (cl_xtor cl)) = fresh' +++ "_" +++ show_ident (cl_xtor cl)) ->
  rn (code_table B cls fresh) = code_table B cls fresh'.
Proof.
  unfold code_table. induction cls as [|cl r IH]; intros H; [reflexivity|]. cbn [flat_map]. rewrite map_app, (so_jump_label_fixed SO).
  rewrite H by (left; reflexivity). rewrite IH; [reflexivity|]. intros c Hc. apply H. right. exact Hc.
Qed.

Lemma loop_shift types fresh fresh' ldf ctxf :
  (forall cx lc, (a <= lc)%N -> ldf cx (sh lc) = shr (ldf cx lc)) ->
  (forall cx lc c lc', ldf cx lc = Ok (c, lc') -> (lc <= lc')%N) ->
  forall cls,
  Forall (fun cl => IHsh types (cl_body cl)) cls ->
  forallb (fun cl => shift_guard (cl_body cl)) cls = true ->
  (forall cl, In cl cls -> rho (fresh +++ "_" +++ show_ident (cl_xtor cl)) = fresh' +++ "_" +++ show_ident (cl_xtor cl)) ->
  forall lc, (a <= lc)%N ->
  cl_loop B types fresh' ldf ctxf cls (sh lc) = shr (cl_loop B types fresh ldf ctxf cls lc).
Proof.
  intros LD LM. induction cls as [|[[x cx] body] r IH]; intros F G R lc L; cbn [cl_loop]; [reflexivity|].
  inversion F as [|? ? Fb Fr]; subst. cbn [forallb cl_body snd] in G. apply andb_true_iff in G as [G1 G2].
  apply shr_bind; [apply LD; exact L|]. intros cl lc1 E1. pose proof (LM _ _ _ _ E1) as L1.
  apply shr_bind; [apply (Fb G1); lia|]. intros cb lc2 E2. pose proof (stmt_mono _ _ _ _ _ _ G1 E2) as L2.
  apply shr_bind; [apply (IH Fr G2); [intros c Hc; apply R; right; exact Hc|lia]|]. intros cr lc3 _.
  pose proof (R (x, cx, body) (or_introl eq_refl)) as Rx. cbn [cl_xtor fst] in Rx.
  rewrite shr_ok, !map_app. cbn [map]. rewrite (so_label SO), Rx. reflexivity.
Qed.

Lemma wrap_shift (e e' : res (list Code * N)) context :
  e' = shr e ->
  rbind e' (fun body => Ok (b_mark B context ++ fst body, snd body))
  = shr (rbind e (fun body => Ok (b_mark B context ++ fst body, snd body))).
Proof.
  intros ->. destruct e as [[c l]|m]; cbn [shr rbind shp fst snd]; [|reflexivity]. unfold shp; cbn [fst snd]. rewrite map_app, (so_mark SO). reflexivity.
Qed.

Definition shc (r : res (list Code)) : res (list Code) := match r with Ok c => Ok (rn c) | Err m => Err m end.
Lemma shc_bind (e e' : res (list Code)) (f f' : list Code -> res (list Code * N)) :
  e' = shc e -> (forall c, e = Ok c -> f' (rn c) = shr (f c)) -> rbind e' f' = shr (rbind e f).
Proof. intros -> H. destruct e as [c|m]; cbn [shc rbind shr]; [apply H; reflexivity|reflexivity]. Qed.
Lemma sw_head_shift (n : nat) context v fresh :
  (if Nat.leb n 1 then Ok []
   else dor tmpv <- variable_temporary B Snd context (idn v);
        Ok (b_load_label B (b_temp B) (rho fresh) ++ b_arith B Sum (b_temp B) (b_temp B) tmpv ++ b_jump B (b_temp B)))
  = shc (if Nat.leb n 1 then Ok []
         else dor tmpv <- variable_temporary B Snd context (idn v);
              Ok (b_load_label B (b_temp B) fresh ++ b_arith B Sum (b_temp B) (b_temp B) tmpv ++ b_jump B (b_temp B))).
Proof.
  destruct (Nat.leb n 1); [reflexivity|]. destruct (variable_temporary B Snd context (idn v)); [|reflexivity].
  cbn [rbind shc]. rewrite !map_app, (so_load_label SO), (so_arith SO), (so_jump SO). reflexivity.
Qed.
Lemma ifc_head_shift so x (b0 : option ident) context fresh :
  match b0 with
  | Some b1 => dor tb <- variable_temporary B Snd context (idn b1); Ok (b_jcc2 B so x tb (rho fresh))
  | None => Ok (b_jcc1 B so x (rho fresh))
  end
  = shc (match b0 with
         | Some b1 => dor tb <- variable_temporary B Snd context (idn b1); Ok (b_jcc2 B so x tb fresh)
         | None => Ok (b_jcc1 B so x fresh)
         end).
Proof.
  destruct b0 as [b1|]; [destruct (variable_temporary B Snd context (idn b1)); [|reflexivity]|]; cbn [rbind shc];
    rewrite ?(so_jcc2 SO), ?(so_jcc1 SO); reflexivity.
Qed.

Ltac sb := apply same_bind; intros.
Ltac fin := rewrite shr_ok; repeat rewrite map_app;
  rewrite ?(so_jump SO), ?(so_load_immediate SO), ?(so_add_and_jump SO), ?(so_arith SO), ?(so_mov SO), ?(so_print SO),
          ?(so_jump_label SO), ?(so_jcc1 SO), ?(so_jcc2 SO), ?(so_load_label SO).

Theorem code_statement_shift types : forall s, IHsh types s.
Proof.
  induction s using stmt_ind2; intros G context lc L;
    try match goal with F : Forall _ _ |- _ => rename F into FC end.
  - (* Substitute *)
    cbn [code_statement]. apply wrap_shift. cbn [shift_guard stmt_check] in G.
    apply shr_bind; [apply cwc_shift; exact L|]. intros c1 lc1 E1.
    destruct (cwc_inv B cdefs crefs LO okS okX _ _ _ _ _ E1) as [L1 _].
    sb. apply shr_bind; [apply (IHs G); lia|]. intros c3 lc3 _. fin. rewrite (rn_exchange _ _ _ _ H). reflexivity.
  - (* Call *)
    cbn [code_statement]. apply wrap_shift. fin. cbn [shift_guard stmt_check] in G. rewrite rho_def by exact G. reflexivity.
  - (* Let *)
    cbn [code_statement]. apply wrap_shift. cbn [shift_guard stmt_check] in G.
    sb. sb. sb. destruct x1 as [rest arguments].
    apply shr_bind; [apply (so_store SO); exact L|]. intros c1 lc1 E1. destruct (lo_store LO _ _ _ _ _ E1) as [L1 _].
    sb. apply shr_bind; [apply (IHs G); lia|]. intros c3 lc3 _. fin. reflexivity.
  - (* Switch *)
    rewrite !code_switch_eq. apply wrap_shift. cbv zeta.
    unfold shift_guard in G. rewrite stmt_check_switch in G. apply andb_true_iff in G as [SW G].
    unfold sw_ok in SW. apply andb_true_iff in SW as [SW ND]. apply andb_true_iff in SW as [SW OX]. apply andb_true_iff in SW as [OS LF].
    apply negb_true_iff in LF.
    assert (K : (a < lc + 1)%N) by lia. rewrite <- (sh_succ lc L).
    pose proof (rho_type_label t (lc + 1) OS LF K) as RT.
    assert (RC : forall cl, In cl cls -> rho (type_label t (lc + 1) +++ "_" +++ show_ident (cl_xtor cl))
                                     = type_label t (sh (lc + 1)) +++ "_" +++ show_ident (cl_xtor cl)).
    { intros cl Hc. apply rho_clause_label; try assumption. rewrite forallb_forall in OX. apply OX. apply in_map. exact Hc. }
    apply shc_bind; [rewrite <- RT; apply sw_head_shift|]. intros c1 _.
    apply shr_bind.
    { apply (loop_shift types _ _ _ _); try assumption.
      - intros cx l Hl. apply (so_load SO). exact Hl.
      - intros cx l c l' E. destruct (lo_load LO _ _ _ _ _ E) as [X _]. exact X.
      - lia. }
    intros c3 lc3 _. rewrite shr_ok, !map_app. cbn [map]. rewrite (so_label SO), RT.
    match goal with |- context [if ?bb then _ else _] => destruct bb end; [reflexivity|]. rewrite (table_shift _ _ _ RC). reflexivity.
  - (* Create *)
    destruct env as [env|]; [|reflexivity].
    rewrite !code_create_eq. apply wrap_shift. cbv zeta.
    unfold shift_guard in G. rewrite stmt_check_create in G. apply andb_true_iff in G as [G Gn]. apply andb_true_iff in G as [SW G].
    unfold sw_ok in SW. apply andb_true_iff in SW as [SW ND]. apply andb_true_iff in SW as [SW OX]. apply andb_true_iff in SW as [OS LF].
    apply negb_true_iff in LF.
    sb. destruct x as [rest cenv].
    apply shr_bind; [apply (so_store SO); exact L|]. intros c1 lc1 E1. destruct (lo_store LO _ _ _ _ _ E1) as [L1 _].
    assert (L1' : (a <= lc1)%N) by lia. rewrite <- (sh_succ lc1 L1').
    assert (K : (a < lc1 + 1)%N) by lia.
    pose proof (rho_type_label t (lc1 + 1) OS LF K) as RT.
    assert (RC : forall cl, In cl cls -> rho (type_label t (lc1 + 1) +++ "_" +++ show_ident (cl_xtor cl))
                                     = type_label t (sh (lc1 + 1)) +++ "_" +++ show_ident (cl_xtor cl)).
    { intros cl Hc. apply rho_clause_label; try assumption. rewrite forallb_forall in OX. apply OX. apply in_map. exact Hc. }
    sb. apply shr_bind; [apply (IHs Gn); lia|]. intros c3 lc3 E3. pose proof (stmt_mono _ _ _ _ _ _ Gn E3) as L3.
    apply shr_bind.
    { apply (loop_shift types _ _ _ _); try assumption.
      - intros cx l Hl. apply (so_load SO). exact Hl.
      - intros cx l c l' E. destruct (lo_load LO _ _ _ _ _ E) as [X _]. exact X.
      - lia. }
    intros c5 lc5 _. rewrite shr_ok, !map_app. cbn [map]. rewrite (so_label SO), (so_load_label SO), RT.
    match goal with |- context [if ?bb then _ else _] => destruct bb end; [reflexivity|]. rewrite (table_shift _ _ _ RC). reflexivity.
  - (* Invoke *)
    cbn [code_statement]. apply wrap_shift. sb. sb. destruct (Nat.leb (List.length (txtors x0)) 1); [fin; reflexivity|].
    sb. fin. reflexivity.
  - (* Literal *)
    cbn [code_statement]. apply wrap_shift. cbn [shift_guard stmt_check] in G. sb.
    apply shr_bind; [apply (IHs G); exact L|]. intros c2 lc2 _. fin. reflexivity.
  - (* Op *)
    cbn [code_statement]. apply wrap_shift. cbn [shift_guard stmt_check] in G. sb. sb. sb.
    apply shr_bind; [apply (IHs G); exact L|]. intros c2 lc2 _. fin. reflexivity.
  - (* PrintI64 *)
    cbn [code_statement]. apply wrap_shift. cbn [shift_guard stmt_check] in G. sb.
    apply shr_bind; [apply (IHs G); exact L|]. intros c2 lc2 _. fin. reflexivity.
  - (* IfC *)
    cbn [code_statement]. apply wrap_shift. cbn [shift_guard stmt_check] in G. apply andb_true_iff in G as [G1 G2].
    rewrite <- (sh_succ lc L).
    assert (RL : rho ("lab" +++ dec (lc + 1)) = "lab" +++ dec (sh (lc + 1))).
    { change ("lab" +++ dec (lc + 1)) with (pr (GLab (lc + 1))). rewrite rho_gen; [reflexivity|exact I|reflexivity|cbn [key]; lia]. }
    sb.
    apply shc_bind; [rewrite <- RL; apply ifc_head_shift|]. intros c1 _.
    apply shr_bind; [apply (IHs2 G2); lia|]. intros c2 lc2 E2. pose proof (stmt_mono _ _ _ _ _ _ G2 E2) as L2.
    apply shr_bind; [apply (IHs1 G1); lia|]. intros c3 lc3 _.
    rewrite shr_ok, !map_app. cbn [map]. rewrite (so_label SO), RL. reflexivity.
  - (* Exit *)
    cbn [code_statement]. apply wrap_shift. sb. fin. rewrite rho_cleanup. reflexivity.
Qed.

(* ---------- translate ---------- *)
Definition shift_guard_defs (ds : list def) : bool :=
  forallb (fun d => lower_first (show_ident (dname d)) && shift_guard (dbody d)) ds.
Theorem translate_shift_gen types : forall ds lc, shift_guard_defs ds = true -> (a <= lc)%N ->
  translate B types ds (sh lc) = shr (translate B types ds lc).
Proof.
  induction ds as [|d r IH]; intros lc G L; cbn [translate]; [reflexivity|].
  cbn [shift_guard_defs forallb] in G. apply andb_true_iff in G as [G1 G2]. apply andb_true_iff in G1 as [GL GS].
  apply shr_bind; [apply (code_statement_shift types _ GS); exact L|]. intros c1 lc1 E1. pose proof (stmt_mono _ _ _ _ _ _ GS E1) as L1.
  apply shr_bind; [apply (IH _ G2); lia|]. intros c2 lc2 _.
  rewrite shr_ok. cbn [app map]. rewrite (so_label SO), map_app, rho_def by exact GL. reflexivity.
Qed.
End Shift.
