(* C19: one Core measure with a parameter, so that the size theorems about passes that produce or
   rename Core (fun2core, uniquify) are proved once and read off for both measures in use:
     cz k = one per term / statement / clause node  +  k per entry of a clause context
     cz 0 = size_cterm / size_cstmt (Lang/CoreSyn.v),   cz 1 = c_wterm / c_wstmt (Lang/CoreSize.v). *)
From Coq Require Import List NArith Lia.
From SCC Require Import Base.Sexp Lang.SynUtil Lang.CoreSyn Lang.SynInd Lang.AxSize Lang.CoreSize.
Import ListNotations.
Open Scope N_scope.
Local Arguments N.add : simpl never.
Local Arguments N.mul : simpl never.
Local Arguments len : simpl never.

Fixpoint cz_term (k : N) (t : cterm) {struct t} : N :=
  match t with
  | CXVar _ _ _ => 1
  | CLit _ => 1
  | COp a _ b => 1 + cz_term k a + cz_term k b
  | CMu _ _ s _ => 1 + cz_stmt k s
  | CXtor _ _ args _ =>
      1 + (fix go (l : list carg) : N := match l with [] => 0 | y :: r => cz_arg k y + go r end) args
  | CXCase _ cls _ =>
      1 + (fix go (l : list cclause) : N := match l with [] => 0 | y :: r => cz_clause k y + go r end) cls
  end
with cz_arg (k : N) (a : carg) {struct a} : N :=
  match a with CProducer p => cz_term k p | CConsumer q => cz_term k q end
with cz_clause (k : N) (c : cclause) {struct c} : N :=
  match c with CClause _ _ cx body => 1 + k * len cx + cz_stmt k body end
with cz_stmt (k : N) (s : cstmt) {struct s} : N :=
  match s with
  | CCut p _ q => 1 + cz_term k p + cz_term k q
  | CIfC _ a b t e =>
      1 + cz_term k a + match b with Some b' => cz_term k b' | None => 0 end + cz_stmt k t + cz_stmt k e
  | CPrint _ a next => 1 + cz_term k a + cz_stmt k next
  | CCall _ args _ =>
      1 + (fix go (l : list carg) : N := match l with [] => 0 | y :: r => cz_arg k y + go r end) args
  | CExit a _ => 1 + cz_term k a
  end.

Section CZ.
  Variable k : N.
  Notation cz_term := (cz_term k).
  Notation cz_arg := (cz_arg k).
  Notation cz_clause := (cz_clause k).
  Notation cz_stmt := (cz_stmt k).
  Fixpoint cz_args (l : list carg) : N := match l with [] => 0 | y :: r => cz_arg y + cz_args r end.
  Fixpoint cz_clauses (l : list cclause) : N := match l with [] => 0 | y :: r => cz_clause y + cz_clauses r end.
  Definition cz_def (d : cdef) : N := 1 + k * len (cdctx d) + cz_stmt (cdbody d).
  Fixpoint cz_defs (ds : list cdef) : N := match ds with [] => 0 | d :: r => cz_def d + cz_defs r end.

  Lemma cz_term_xtor : forall c x args t, cz_term (CXtor c x args t) = 1 + cz_args args.
  Proof. intros; simpl; f_equal; induction args as [|y r IH]; simpl; auto; rewrite IH; auto. Qed.
  Lemma cz_term_xcase : forall c cls t, cz_term (CXCase c cls t) = 1 + cz_clauses cls.
  Proof. intros; simpl; f_equal; induction cls as [|y r IH]; simpl; auto; rewrite IH; auto. Qed.
  Lemma cz_stmt_call : forall f args t, cz_stmt (CCall f args t) = 1 + cz_args args.
  Proof. intros; simpl; f_equal; induction args as [|y r IH]; simpl; auto; rewrite IH; auto. Qed.
  Lemma cz_args_app : forall a b, cz_args (a ++ b) = cz_args a + cz_args b.
  Proof. induction a as [|y r IH]; intros b; simpl; [reflexivity | rewrite IH; lia]. Qed.
  Lemma cz_defs_app : forall a b, cz_defs (a ++ b) = cz_defs a + cz_defs b.
  Proof. induction a as [|y r IH]; intros b; simpl; [reflexivity | rewrite IH; lia]. Qed.
  Lemma cz_defs_rev_append : forall a b, cz_defs (rev_append a b) = cz_defs a + cz_defs b.
  Proof. induction a as [|y r IH]; intros b; cbn [rev_append cz_defs]; [lia | rewrite IH; cbn [cz_defs]; lia]. Qed.
  Lemma cz_term_pos : forall t, 1 <= cz_term t.
  Proof. destruct t; cbn [cz_term]; rewrite <- ?N.add_assoc; try apply N.le_add_r; lia. Qed.
  Lemma cz_stmt_pos : forall s, 1 <= cz_stmt s.
  Proof. destruct s; cbn [cz_stmt]; rewrite <- ?N.add_assoc; try apply N.le_add_r; lia. Qed.
End CZ.

Ltac sz := cbn [cz_term cz_arg cz_clause cz_stmt size_cterm size_carg size_cclause size_cstmt c_wterm c_warg c_wclause c_wstmt cz_defs c_wdefs].
(* the two instances *)
Lemma cz0_all :
  (forall t, cz_term 0 t = size_cterm t) /\ (forall a, cz_arg 0 a = size_carg a) /\
  (forall c, cz_clause 0 c = size_cclause c) /\ (forall s, cz_stmt 0 s = size_cstmt s).
Proof.
  apply cterm_mutind.
  - reflexivity.
  - reflexivity.
  - intros a o b Ha Hb. sz. rewrite Ha, Hb. reflexivity.
  - intros c v s t Hs. sz. rewrite Hs. reflexivity.
  - intros c x args t H. sz. f_equal. induction H as [|y r Hy Hr IH]; [reflexivity | rewrite Hy, IH; reflexivity].
  - intros c cls t H. sz. f_equal. induction H as [|y r Hy Hr IH]; [reflexivity | rewrite Hy, IH; reflexivity].
  - intros p Hp. exact Hp.
  - intros p Hp. exact Hp.
  - intros c x ctx body Hb. sz. rewrite Hb. reflexivity.
  - intros p t q Hp Hq. sz. rewrite Hp, Hq. reflexivity.
  - intros so a b t e Ha Hb Ht He. sz. rewrite Ha, Ht, He. destruct b as [b'|]; [rewrite (Hb b' eq_refl)|]; reflexivity.
  - intros nl a next Ha Hn. sz. rewrite Ha, Hn. reflexivity.
  - intros f args t H. sz. f_equal. induction H as [|y r Hy Hr IH]; [reflexivity | rewrite Hy, IH; reflexivity].
  - intros a t Ha. sz. rewrite Ha. reflexivity.
Qed.
Lemma cz1_all :
  (forall t, cz_term 1 t = c_wterm t) /\ (forall a, cz_arg 1 a = c_warg a) /\
  (forall c, cz_clause 1 c = c_wclause c) /\ (forall s, cz_stmt 1 s = c_wstmt s).
Proof.
  apply cterm_mutind.
  - reflexivity.
  - reflexivity.
  - intros a o b Ha Hb. sz. rewrite Ha, Hb. reflexivity.
  - intros c v s t Hs. sz. rewrite Hs. reflexivity.
  - intros c x args t H. sz. f_equal. induction H as [|y r Hy Hr IH]; [reflexivity | rewrite Hy, IH; reflexivity].
  - intros c cls t H. sz. f_equal. induction H as [|y r Hy Hr IH]; [reflexivity | rewrite Hy, IH; reflexivity].
  - intros p Hp. exact Hp.
  - intros p Hp. exact Hp.
  - intros c x ctx body Hb. sz. rewrite Hb. rewrite N.mul_1_l; reflexivity.
  - intros p t q Hp Hq. sz. rewrite Hp, Hq. reflexivity.
  - intros so a b t e Ha Hb Ht He. sz. rewrite Ha, Ht, He. destruct b as [b'|]; [rewrite (Hb b' eq_refl)|]; reflexivity.
  - intros nl a next Ha Hn. sz. rewrite Ha, Hn. reflexivity.
  - intros f args t H. sz. f_equal. induction H as [|y r Hy Hr IH]; [reflexivity | rewrite Hy, IH; reflexivity].
  - intros a t Ha. sz. rewrite Ha. reflexivity.
Qed.

Lemma sum_sizes_acc : forall {X} (f : X -> N) l a, fold_left (fun acc x => acc + f x) l a = a + sum_sizes f l.
Proof.
  intros X f l. unfold sum_sizes. induction l as [|x r IH]; intros a; cbn [fold_left]; [lia|].
  rewrite IH, (IH (0 + f x)). lia.
Qed.
Lemma sum_sizes_cons : forall {X} (f : X -> N) x l, sum_sizes f (x :: l) = f x + sum_sizes f l.
Proof. intros. unfold sum_sizes at 1. cbn [fold_left]. rewrite sum_sizes_acc. lia. Qed.

Lemma cz0_defs : forall ds, cz_defs 0 ds = sum_sizes size_cdef ds.
Proof.
  induction ds as [|d r IH]; [reflexivity|]. rewrite sum_sizes_cons. sz. rewrite IH. unfold cz_def, size_cdef.
  rewrite (proj2 (proj2 (proj2 cz0_all))). lia.
Qed.
Lemma cz1_defs : forall ds, cz_defs 1 ds = c_wdefs ds.
Proof.
  induction ds as [|d r IH]; [reflexivity|]. sz. rewrite IH. unfold cz_def, c_wdef.
  rewrite (proj2 (proj2 (proj2 cz1_all))). lia.
Qed.
Lemma cz0_prog : forall p, cz_defs 0 (cpdefs p) = size_cprog p.
Proof. intros p. apply cz0_defs. Qed.
Lemma cz1_prog : forall p, cz_defs 1 (cpdefs p) = c_wprog p.
Proof. intros p. apply cz1_defs. Qed.

(* the node count is below the weighted size *)
Lemma cz_mono_all : forall k,
  (forall t, cz_term 0 t <= cz_term k t) /\ (forall a, cz_arg 0 a <= cz_arg k a) /\
  (forall c, cz_clause 0 c <= cz_clause k c) /\ (forall s, cz_stmt 0 s <= cz_stmt k s).
Proof.
  intros k. apply cterm_mutind.
  - sz; lia.
  - sz; lia.
  - intros a o b Ha Hb. sz. lia.
  - intros c v s t Hs. sz. lia.
  - intros c x args t H. sz. apply N.add_le_mono_l. induction H as [|y r Hy Hr IH]; lia.
  - intros c cls t H. sz. apply N.add_le_mono_l. induction H as [|y r Hy Hr IH]; lia.
  - intros p Hp. exact Hp.
  - intros p Hp. exact Hp.
  - intros c x ctx body Hb. sz. rewrite N.mul_0_l. generalize (k * len ctx). intros z. lia.
  - intros p t q Hp Hq. sz. lia.
  - intros so a b t e Ha Hb Ht He. sz. destruct b as [b'|]; [pose proof (Hb b' eq_refl) as Hb'; cbv beta in Hb'|]; lia.
  - intros nl a next Ha Hn. sz. lia.
  - intros f args t H. sz. apply N.add_le_mono_l. induction H as [|y r Hy Hr IH]; lia.
  - intros a t Ha. sz. lia.
Qed.
Lemma size_le_cw_prog : forall p, size_cprog p <= c_wprog p.
Proof.
  intros p. rewrite <- cz0_prog, <- cz1_prog. induction (cpdefs p) as [|d r IH]; sz; [lia|].
  unfold cz_def. pose proof (proj2 (proj2 (proj2 (cz_mono_all 1))) (cdbody d)). lia.
Qed.
