(* C11 on AArch64: a whole `Substitute` on the ISA semantics, composed from
   (i)   Proof/A64PM.v          the parallel moves perform the assignment simultaneously,
   (ii)  Proof/SubstGraph.v     the move graph of a Substitute has in-degree <= 1 (+ its edges),
   (iii) Proof/SubstGraph.v + Proof/A64MemSubst.v   one erase / share per object variable and their meaning.
   Port of Proof/X86Subst.v.  Scratch state on this back end: X2 (TEMP), X3 (TEMP2), the flags. *)
From Coq Require Import List ZArith NArith String Bool Lia FMapPositive Permutation Sorted.
From SCC Require Import Base.Sexp Lang.AxSyn Sem.AxSem Model.ParMoves Model.Backend Model.A64 Sem.A64Sem
     Generated.Constants Proof.A64State Proof.A64ImmHw Proof.A64Imm Proof.A64Sel Proof.A64PM Proof.A64Exec Proof.A64MemSubst
     Proof.SubstGraph Proof.SubstBackends.
Import ListNotations.
Open Scope Z_scope.

Notation atpos := (tpos a64_backend).

(* every temporary the numbering hands out is a variable temporary: a register X4.. or a spill slot
   1.., never SP, XZR, X0 (HEAP), X1 (FREE), X2, X3 *)
Lemma tfp_operand_ok p t : temporary_from_position p = Ok t -> operand_ok t /\ t <> AR FREE /\ t <> AR HEAP.
Proof.
  unfold temporary_from_position. change RESERVED with 4%N. change REGISTER_NUM with 30%N. change RESERVED_SPILLS with 1%N.
  change SPILL_NUM with 256%N.
  destruct (N.ltb_spec (p + 4) 30) as [H|H].
  - intros E; inversion E; subst. unfold operand_ok; cbn [loc_ok gp]. change TEMP with (X 2). change TEMP2 with (X 3).
    change FREE with (X 1). change HEAP with (X 0).
    repeat split; try exact I; intro Q; inversion Q; lia.
  - destruct (N.ltb_spec (p + 4 - 30 + 1) 256) as [H2|H2]; [|discriminate].
    intros E; inversion E; subst. unfold operand_ok; cbn [loc_ok]. unfold slot_ok. change SPILL_NUM with 256%N.
    repeat split; try congruence; exact H2.
Qed.
Lemma atpos_operand_ok n i t : atpos n i = Ok t -> operand_ok t /\ t <> AR FREE /\ t <> AR HEAP.
Proof. apply tfp_operand_ok. Qed.

(* a variable location reads the same in two states that agree on the stack and on all registers
   but X2, X3 and FREE *)
Lemma lget_agree s s0 sp t :
  operand_ok t -> t <> AR FREE ->
  (forall r, r <> TEMP -> r <> TEMP2 -> r <> FREE -> rget s r = rget s0 r) -> stack s = stack s0 ->
  lget s sp t = lget s0 sp t.
Proof.
  intros (L & N1 & N2) NF R ST. destruct t as [r|p]; cbn [lget].
  - apply R; congruence.
  - unfold sget. now rewrite ST.
Qed.

(* ---------- the move code touches nothing but registers and spill slots ---------- *)
Definition pm_instr (c : acode) : Prop :=
  match c with
  | MOVR (X _) (X _) => True
  | LDR (X _) SP i | STR (X _) SP i => exists p, slot_ok p /\ i = stack_offset p
  | _ => False
  end.
Definition outside_same (s s' : astate) (sp : Z) : Prop :=
  (forall k, (forall p, slot_ok p -> k <> key (slot_addr sp p)) -> PM.find k (stack s') = PM.find k (stack s)) /\
  flags s' = flags s.
Lemma pm_frame im cs : forall s s' sp,
  Forall pm_instr cs -> frame_ok s sp -> run_straight im cs s = MOk s' -> outside_same s s' sp.
Proof.
  induction cs as [|c cs IH]; intros s s' sp FA F E.
  - cbn in E. inversion E; subst. split; auto.
  - inversion FA as [|? ? Pc FA']; subst. cbn [run_straight] in E.
    assert (ST : exists s1, step im c s = Next s1 /\ frame_ok s1 sp /\ outside_same s s1 sp).
    { destruct c; cbn [pm_instr] in Pc; try contradiction.
      - destruct d; try contradiction. destruct s0; try contradiction.
        eexists. split; [reflexivity|]. split; [apply frame_ok_rset; [discriminate|exact F]|]. split; reflexivity.
      - destruct d; try contradiction. destruct b; try contradiction. destruct Pc as (p & Pp & ->).
        eexists. split; [apply (step_LDR_slot im s sp F); exact Pp|].
        split; [apply frame_ok_rset; [discriminate|exact F]|]. split; reflexivity.
      - destruct s0; try contradiction. destruct b; try contradiction. destruct Pc as (p & Pp & ->).
        eexists. split; [apply (step_STR_slot im s sp F); exact Pp|].
        split; [apply frame_ok_sset; exact F|]. split; [|reflexivity].
        intros k Hk. unfold sset. cbn [stack]. destruct (rget s (X n)); [apply PM.gso|apply PM.gro]; apply Hk; exact Pp. }
    destruct ST as (s1 & St & F1 & (O1 & Fl1)). rewrite St in E.
    destruct (IH s1 s' sp FA' F1 E) as (O2 & Fl2). split; [|congruence].
    intros k Hk. rewrite O2 by exact Hk. apply O1; exact Hk.
Qed.

Lemma emit_pinstr_pm i : pinstr_ok atemp operand_ok i -> Forall pm_instr (emit_pinstr a64_backend false i).
Proof.
  destruct i as [d src|t|t]; cbn [pinstr_ok emit_pinstr b_mov b_store_temporary b_restore_temporary a64_backend a64_backend_with].
  - intros ((Ld & _ & _) & (Ls & _ & _)). unfold a_mov. change TEMP2 with (X 3).
    destruct src as [[sr| |]|sq], d as [[tr| |]|tq]; cbn [loc_ok gp] in *; try tauto;
      cbn [move_from_register move_to_register app]; repeat constructor; cbn [pm_instr]; eauto.
  - intros (Lt & _ & _). unfold a_store_temporary. change TEMP with (X 2).
    destruct t as [[r| |]|q]; cbn [loc_ok gp] in *; try tauto; repeat constructor; cbn [pm_instr]; eauto.
  - intros (Lt & _ & _). unfold a_restore_temporary. change TEMP with (X 2).
    destruct t as [[r| |]|q]; cbn [loc_ok gp] in *; try tauto; repeat constructor; cbn [pm_instr]; eauto.
Qed.

Lemma parallel_moves_code_pm am code :
  amap_ok atemp operand_ok am -> parallel_moves_code a64_backend am = Ok code -> Forall pm_instr code.
Proof.
  intros OK E. unfold parallel_moves_code in E. fold a64_teqb in E.
  destruct (spanning_forest atemp a64_teqb (List.length (all_targets atemp am) + 2) am) as [forest|] eqn:SF; [|discriminate].
  injection E as <-.
  assert (PM : parallel_moves atemp a64_teqb (List.length (all_targets atemp am) + 2) am = Some (flat_map (root_moves atemp) forest))
    by (unfold parallel_moves; now rewrite SF).
  assert (CODE : flat_map (emit_root a64_backend) forest = flat_map (emit_pinstr a64_backend false) (flat_map (root_moves atemp) forest)).
  { rewrite flat_map_flat_map. reflexivity. }
  rewrite CODE.
  pose proof (parallel_moves_mentions atemp a64_teqb a64_teqb_spec operand_ok _ am _ OK PM) as MEN.
  clear PM CODE. induction MEN as [|i is Hi _ IH]; cbn [flat_map]; [constructor|]. apply Forall_app; split; [apply emit_pinstr_pm; exact Hi|exact IH].
Qed.


(* the parallel-move theorem of Proof/A64PM.v together with the frame: besides the assignment, only
   X2, X3 and spill slots can change - heap, output, flags, SP and the stack outside the spill area do not *)
Theorem a64_parallel_moves_frame_ok im (am : amap atemp) (code : list acode) s sp :
  indeg1 atemp a64_teqb am -> nodup_targets atemp a64_teqb am -> amap_ok atemp operand_ok am ->
  parallel_moves_code a64_backend am = Ok code ->
  frame_ok s sp ->
  exists s', run_straight im code s = MOk s' /\
    (forall a b, edge atemp a64_teqb am a b -> lget s' sp b = lget s sp a) /\
    (forall u, operand_ok u -> (forall a, ~ edge atemp a64_teqb am a u) -> lget s' sp u = lget s sp u) /\
    frame_ok s' sp /\ heap s' = heap s /\ out s' = out s /\ flags s' = flags s /\
    (forall k, (forall p, slot_ok p -> k <> key (slot_addr sp p)) -> PM.find k (stack s') = PM.find k (stack s)).
Proof.
  intros ID NT OK E F.
  destruct (a64_parallel_moves_ok im am code s sp F ID NT OK E) as (s' & R & F' & H' & O' & P1 & P2).
  destruct (pm_frame im code s s' sp (parallel_moves_code_pm am code OK E) F R) as (OUT & FL).
  exists s'. repeat split; auto; apply F'.
Qed.
Theorem a64_parallel_moves_total (am : amap atemp) :
  indeg1 atemp a64_teqb am -> exists code, parallel_moves_code a64_backend am = Ok code.
Proof.
  intros ID. unfold parallel_moves_code. fold a64_teqb.
  pose proof (parallel_moves_terminates atemp a64_teqb a64_teqb_spec am ID) as H. unfold parallel_moves in H.
  destruct (spanning_forest atemp a64_teqb _ am); [eexists; reflexivity|]. exfalso. apply H. reflexivity.
Qed.

(* ---------- the reference-count phase ---------- *)
Definition ptr_of (s : astate) (sp : Z) (t : atemp) : Z := match lget s sp t with Some p => p | None => 0 end.
Definition rc_temp (o : @rc_op atemp) : atemp := match o with RcErase t => t | RcShare t _ => t end.
Definition rc_ok (s0 : astate) (sp : Z) (o : @rc_op atemp) : Prop :=
  operand_ok (rc_temp o) /\ rc_temp o <> AR FREE /\
  (exists p, lget s0 sp (rc_temp o) = Some p /\ (p = 0 \/ block_ok p)).
Definition rc_h (s0 : astate) (sp : Z) (o : @rc_op atemp) (hf : PM.t Z * Z) : PM.t Z * Z :=
  match o with
  | RcErase t => erase_h (ptr_of s0 sp t) hf
  | RcShare t n => share_h (ptr_of s0 sp t) (Z.of_N n) hf
  end.

Lemma a64_emit_rc_ok im s0 sp : forall ops pc lc s f,
  Forall (rc_ok s0 sp) ops ->
  (forall r, r <> TEMP -> r <> TEMP2 -> r <> FREE -> rget s r = rget s0 r) -> stack s = stack s0 ->
  code_at im pc (fst (emit_rc a64_backend ops lc)) -> labels_at im pc (fst (emit_rc a64_backend ops lc)) ->
  frame_ok s0 sp -> rget s FREE = Some f ->
  exists s' f', exec_to im pc s (padd pc (List.length (fst (emit_rc a64_backend ops lc)))) s' /\
    rget s' FREE = Some f' /\
    (heap s', f') = fold_left (fun hf o => rc_h s0 sp o hf) ops (heap s, f) /\
    (forall r, r <> TEMP -> r <> TEMP2 -> r <> FREE -> rget s' r = rget s0 r) /\ stack s' = stack s0 /\ out s' = out s.
Proof.
  induction ops as [|o ops IH]; intros pc lc s f OK R ST CA LA F0 FR.
  - exists s, f. cbn. repeat split; auto. constructor.
  - inversion OK as [|? ? Oo Or]; subst.
    cbn [emit_rc] in *. destruct (emit_rc_op a64_backend o lc) as [c1 lc1] eqn:E1.
    destruct (emit_rc a64_backend ops lc1) as [c2 lc2] eqn:E2. cbn [fst] in *.
    apply code_at_app in CA as [CA1 CA2]. apply labels_at_app in LA as [LA1 LA2].
    destruct Oo as (VT & NF & (p & Hp & Vp)).
    assert (F : frame_ok s sp).
    { destruct F0 as [A B]. split; [|exact B]. change (spv s) with (rget s SP). rewrite R; [exact A|discriminate|discriminate|discriminate]. }
    assert (Hp' : lget s sp (rc_temp o) = Some p) by (rewrite (lget_agree s s0 sp _ VT NF R ST); exact Hp).
    assert (PO : ptr_of s0 sp (rc_temp o) = p) by (unfold ptr_of; now rewrite Hp).
    assert (STEP : exists s1 f1, exec_to im pc s (padd pc (List.length c1)) s1 /\ rget s1 FREE = Some f1 /\
              (heap s1, f1) = rc_h s0 sp o (heap s, f) /\
              (forall r, r <> TEMP -> r <> TEMP2 -> r <> FREE -> rget s1 r = rget s r) /\ stack s1 = stack s /\ out s1 = out s).
    { destruct o as [t|t n]; cbn [emit_rc_op b_erase b_share_n a64_backend a64_backend_with rc_temp rc_h] in *.
      - replace c1 with (fst (a_erase_block t lc)) in * by (now rewrite E1).
        destruct (a64_erase_ok im pc s sp t lc p f CA1 LA1 F VT NF Hp' Vp FR) as (s1 & f1 & X1 & X2 & X3 & X4 & X5 & X6).
        exists s1, f1. rewrite PO. repeat split; auto.
      - replace c1 with (fst (a_share_block_n t n lc)) in * by (now rewrite E1).
        destruct (a64_share_ok im pc s sp t n lc p f CA1 LA1 F VT Hp' Vp) as (s1 & X1 & X3 & X4 & X5 & X6).
        exists s1, f. rewrite PO. repeat split; auto.
        rewrite X4; [exact FR|discriminate|discriminate]. }
    destruct STEP as (s1 & f1 & X1 & X2 & X3 & X4 & X5 & X6).
    destruct (IH (padd pc (List.length c1)) lc1 s1 f1 Or) as (s2 & f2 & Y1 & Y2 & Y3 & Y4 & Y5 & Y6); auto.
    { intros r A B C. rewrite X4; auto. }
    { congruence. }
    { now rewrite E2. }
    { now rewrite E2. }
    rewrite E2 in *. cbn [fst] in *.
    exists s2, f2. split; [|split; [exact Y2|split; [|split; [exact Y4|split; [exact Y5|congruence]]]]].
    + rewrite app_length, padd_add. eapply exec_to_trans; eauto.
    + cbn [fold_left]. rewrite <- X3. exact Y3.
Qed.

Lemma lookup_of_In (am : amap atemp) k ts :
  NoDup (map fst am) -> In (k, ts) am -> lookup atemp a64_teqb am k = Some ts.
Proof.
  induction am as [|[k1 t1] am IH]; cbn; intros ND Hin; [destruct Hin|].
  inversion ND as [|? ? Hn ND']; subst. destruct Hin as [E|Hin].
  - inversion E; subst. destruct (a64_teqb_spec k k); congruence.
  - destruct (a64_teqb_spec k k1) as [->|N]; [|auto]. exfalso. apply Hn. apply in_map_iff. exists (k1, ts); auto.
Qed.

(* ---------- the whole statement ---------- *)
Theorem a64_substitute_ok im pc types ctx re l args lc code lc' s sp f :
  NoDup (ids ctx) -> NoDup (new_ids re) ->
  code_statement a64_backend types (Substitute re (Call l args)) ctx lc = Ok (code, lc') ->
  code_at im pc code -> labels_at im pc code ->
  frame_ok s sp -> rget s FREE = Some f ->
  (* every object variable holds a null pointer or a pointer to a heap block *)
  (forall i b t, nth_error ctx i = Some b -> is_obj b = true -> atpos Fst i = Ok t ->
     exists p, lget s sp t = Some p /\ (p = 0 \/ block_ok p)) ->
  exists (s' : astate) (f' : Z) (order : list (nat * binding)) (ptr : nat -> Z),
    (* control arrives at the final branch to the callee *)
    exec_to im pc s (padd pc (List.length code - 1)) s' /\
    nth_error code (List.length code - 1) = Some (B (show_ident l +++ "_")) /\
    (* ONE simultaneous assignment: new variable j gets what its source i held *)
    (forall i j bi pj n a b, nth_error ctx i = Some bi -> nth_error re j = Some pj -> idn (snd pj) = idn (bvar bi) ->
       (n = Snd \/ bchi bi <> Ext) -> atpos n i = Ok a -> atpos n j = Ok b -> lget s' sp b = lget s sp a) /\
    (* reference counts: every object variable exactly once, k targets: erase / nothing / share (k-1) *)
    Permutation (map snd order) (filter is_obj ctx) /\
    (forall i b, In (i, b) order -> nth_error ctx i = Some b /\ exists t, atpos Fst i = Ok t /\ lget s sp t = Some (ptr i)) /\
    rget s' FREE = Some f' /\
    (heap s', f') = fold_left (fun hf ib => count_h (ptr (fst ib)) (count_targets re (snd ib)) hf) order (heap s, f) /\
    (* nothing else *)
    (forall u, operand_ok u -> u <> AR FREE -> (forall j n, atpos n j = Ok u -> (List.length re <= j)%nat) -> lget s' sp u = lget s sp u) /\
    rget s' HEAP = rget s HEAP /\ frame_ok s' sp /\ out s' = out s /\
    (forall k, (forall p, slot_ok p -> k <> key (slot_addr sp p)) -> PM.find k (stack s') = PM.find k (stack s)).
Proof.
  intros NDc NDn CS CA LA F FR PTR.
  cbn [code_statement] in CS.
  destruct (code_weakening_contraction a64_backend (transpose re ctx) ctx lc) as [[c1 lc1]|e] eqn:WC; [|discriminate].
  cbn [rbind] in CS. unfold code_exchange in CS.
  destruct (connections a64_backend (transpose re ctx) ctx (map fst re)) as [am|e] eqn:CN; [|discriminate].
  cbn [rbind] in CS. destruct (parallel_moves_code a64_backend am) as [c2|e] eqn:PMC; [|discriminate].
  cbn [rbind] in CS. inversion CS; subst code lc'; clear CS.
  cbn [b_jump_label b_mark a64_backend a64_backend_with app fst snd] in *.
  set (jmp := B (show_ident l +++ "_")) in *.
  (* split the code *)
  apply code_at_app in CA as [CA1 CA23]. apply code_at_app in CA23 as [CA2 CA3].
  apply labels_at_app in LA as [LA1 _].
  (* phase 1: reference counts *)
  destruct (weakening_contraction_counts a64_backend ctx re lc c1 lc1 NDc WC) as (order & PERM & _ & ORD & ops & F2 & EM).
  set (ptr := fun i : nat => match atpos Fst i with Ok t => ptr_of s sp t | Err _ => 0 end).
  assert (OBJ : forall i b, In (i, b) order -> is_obj b = true).
  { intros i b Hin. assert (In b (map snd order)) as Hb by (apply in_map_iff; exists (i, b); auto).
    eapply Permutation_in in Hb; [|exact PERM]. apply filter_In in Hb. tauto. }
  assert (RCOK : Forall (rc_ok s sp) (List.concat ops)).
  { apply Forall_concat. clear EM PERM. induction F2 as [|[i b] o order' ops' (t & Ht & ->) _ IHF]; constructor.
    - cbn [fst snd] in *. pose proof (ORD i b (or_introl eq_refl)) as Hnth.
      destruct (atpos_operand_ok Fst i t Ht) as (VT & NF & _).
      destruct (PTR i b t Hnth (OBJ i b (or_introl eq_refl)) Ht) as (p & Hp & Vp).
      destruct (count_targets re b) as [|[|k]]; cbn [rc_op_for].
      + constructor; [|constructor]. unfold rc_ok; cbn [rc_temp].
        split; [exact VT|split; [exact NF|exists p; auto]].
      + constructor.
      + constructor; [|constructor]. unfold rc_ok; cbn [rc_temp].
        split; [exact VT|split; [exact NF|exists p; auto]].
    - apply IHF; intros; [apply ORD|eapply OBJ]; right; eauto. }
  assert (EMc : c1 = fst (emit_rc a64_backend (List.concat ops) lc)) by (now rewrite <- EM).
  rewrite EMc in CA1, LA1.
  destruct (a64_emit_rc_ok im s sp (List.concat ops) pc lc s f RCOK (fun r _ _ _ => eq_refl) eq_refl CA1 LA1 F FR)
    as (s1 & f1 & X1 & X2 & X3 & X4 & X5 & X6).
  rewrite <- EMc in X1.
  assert (F1 : frame_ok s1 sp).
  { destruct F as [A B']. split; [|exact B']. change (spv s1) with (rget s1 SP). rewrite X4; [exact A|discriminate|discriminate|discriminate]. }
  assert (AG : forall t, operand_ok t -> t <> AR FREE -> lget s1 sp t = lget s sp t).
  { intros t VT NF. apply lget_agree; auto. }
  (* phase 2: the parallel moves *)
  destruct (transpose_connections_indeg1 a64_backend a64_backend_ok ctx re am NDc NDn CN) as (ID & NT & SRT & KEYS).
  pose proof (connections_edges a64_backend a64_backend_ok ctx re am NDc NDn CN) as EDG.
  assert (NDK : NoDup (map fst am)).
  { apply (sorted_nodup atemp_compare (cmp_eq a64_backend a64_backend_ok)). exact SRT. }
  assert (VTam : forall t, In t (map fst am) \/ In t (all_targets atemp am) -> operand_ok t /\ t <> AR FREE /\ t <> AR HEAP).
  { intros t [Hk|Ht].
    - destruct (KEYS t Hk) as (i & bi & n & _ & _ & Hp). apply (atpos_operand_ok n i t Hp).
    - unfold all_targets in Ht. apply in_flat_map in Ht as ([k ts] & Hin & Ht). cbn [snd] in Ht.
      assert (edge atemp a64_teqb am k t) as E.
      { exists ts. split; [|exact Ht]. apply lookup_of_In; auto. }
      apply EDG in E as (i & j & bi & pj & n & _ & _ & _ & _ & _ & Hb). apply (atpos_operand_ok n j t Hb). }
  assert (AMOK : amap_ok atemp operand_ok am).
  { intros k ts Hin. split.
    - apply VTam. left. apply in_map_iff. exists (k, ts). auto.
    - apply Forall_forall. intros t Ht. apply VTam. right. unfold all_targets. apply in_flat_map. exists (k, ts). auto. }
  destruct (a64_parallel_moves_ok im am c2 s1 sp F1 ID NT AMOK PMC) as (s2 & E2 & F2' & H2 & O2 & P1 & P2).
  destruct (pm_frame im c2 s1 s2 sp (parallel_moves_code_pm am c2 AMOK PMC) F1 E2) as (OUT & _).
  pose proof (run_straight_exec_to im c2 _ s1 s2 CA2 E2) as X2'.
  exists s2, f1, order, ptr.
  assert (LENc : (List.length (c1 ++ c2 ++ [jmp]) - 1 = List.length c1 + List.length c2)%nat).
  { rewrite !app_length. cbn [List.length]. lia. }
  assert (NOEDGE : forall u, (forall j n, atpos n j = Ok u -> False) -> forall a, ~ edge atemp a64_teqb am a u).
  { intros u NO a E. apply EDG in E as (i & j & bi & pj & n & _ & _ & _ & _ & _ & Hb). eapply NO; eauto. }
  split; [|split; [|split; [|split; [|split; [|split; [|split; [|split; [|split; [|split; [|split]]]]]]]]]].
  - rewrite LENc, padd_add. eapply exec_to_trans; eauto.
  - rewrite LENc. rewrite nth_error_app2 by lia. rewrite nth_error_app2 by lia.
    replace (List.length c1 + List.length c2 - List.length c1 - List.length c2)%nat with 0%nat by lia. reflexivity.
  - intros i j bi pj n a b Hi Hj Hid Hn Ha Hb.
    assert (edge atemp a64_teqb am a b) as E by (apply EDG; exists i, j, bi, pj, n; auto 10).
    rewrite (P1 a b E). destruct (atpos_operand_ok n i a Ha) as (VT & NF & _). apply AG; auto.
  - exact PERM.
  - intros i b Hin. split; [apply ORD; exact Hin|].
    assert (exists t, atpos Fst i = Ok t) as (t & Ht).
    { clear -F2 Hin. induction F2 as [|x o order' ops' (t & Ht & _) _ IHF]; [destruct Hin|].
      destruct Hin as [->|Hin]; [exists t; exact Ht|auto]. }
    exists t. split; [exact Ht|]. destruct (PTR i b t (ORD i b Hin) (OBJ i b Hin) Ht) as (p & Hp & _).
    unfold ptr, ptr_of. rewrite Ht, Hp. reflexivity.
  - rewrite <- X2. change (rget s2 FREE) with (lget s2 sp (AR FREE)). change (rget s1 FREE) with (lget s1 sp (AR FREE)).
    apply P2.
    + unfold operand_ok; cbn [loc_ok gp]. change FREE with (X 1). change TEMP with (X 2). change TEMP2 with (X 3).
      repeat split; try exact I; congruence.
    + apply NOEDGE. intros j n Hb. destruct (atpos_operand_ok n j _ Hb) as (_ & N & _). congruence.
  - rewrite H2, X3. clear -F2.
    (* the fold over the emitted operations = the fold over the variables *)
    generalize (heap s, f). induction F2 as [|[i b] o order' ops' (t & Ht & ->) _ IHF]; intros hf; [reflexivity|].
    cbn [List.concat fold_left fst snd]. rewrite fold_left_app, <- IHF. f_equal.
    cbn [fst] in Ht. unfold ptr. rewrite Ht. destruct (count_targets re b) as [|[|k]]; cbn [rc_op_for fold_left rc_h count_h]; auto.
  - intros u VT NF NEW. rewrite <- (AG u VT NF). apply P2; auto.
    intros a E. apply EDG in E as (i & j & bi & pj & n & _ & Hj & _ & _ & _ & Hb).
    specialize (NEW j n Hb). assert (j < List.length re)%nat by (apply nth_error_Some; congruence). lia.
  - change (rget s2 HEAP) with (lget s2 sp (AR HEAP)). change (rget s HEAP) with (lget s sp (AR HEAP)).
    assert (VH : operand_ok (AR HEAP)).
    { unfold operand_ok; cbn [loc_ok gp]. change HEAP with (X 0). change TEMP with (X 2). change TEMP2 with (X 3).
      repeat split; try exact I; congruence. }
    assert (NH : AR HEAP <> AR FREE) by (change HEAP with (X 0); change FREE with (X 1); congruence).
    rewrite <- (AG _ VH NH). apply P2; auto.
    apply NOEDGE. intros j n Hb. destruct (atpos_operand_ok n j _ Hb) as (_ & _ & N). congruence.
  - exact F2'.
  - congruence.
  - intros k Hk. rewrite (OUT k Hk). now rewrite X5.
Qed.

(* ---------- the hypotheses of a64_substitute_ok are satisfiable ----------
   context a (object), b (integer), c (object); new context b, a, a: the two variables swap places
   (a cycle through X5/X7 broken via X2), a is duplicated (header += 1) and c is dropped (erase).
   The code sits alone in an image; a points to a block, c is null. *)
Definition ex_T : ty := Decl ("T"%string, 0%N).
Definition ex_ctx : ctx := [mkb ("a"%string, 1%N) Prd ex_T; mkb ("b"%string, 2%N) Ext I64; mkb ("c"%string, 3%N) Prd ex_T].
Definition ex_re : list (binding * ident) :=
  [(mkb ("b"%string, 4%N) Ext I64, ("b"%string, 2%N)); (mkb ("a"%string, 5%N) Prd ex_T, ("a"%string, 1%N));
   (mkb ("a"%string, 6%N) Prd ex_T, ("a"%string, 1%N))].
Definition ex_code : list acode :=
  match code_statement a64_backend [] (Substitute ex_re (Call ("f"%string, 0%N) [])) ex_ctx 0 with Ok (c, _) => c | Err _ => [] end.
Definition ex_state : astate :=
  {| regs := PM.add (N.succ_pos 4) (HEAP_BASE + 64) (PM.add (N.succ_pos 8) 0 (PM.add (N.succ_pos 1) (HEAP_BASE + 128) (PM.empty Z)));
     spv := Some (STACK_TOP - 2144); heap := PM.empty Z; stack := PM.empty Z; flags := None; out := []; hw := HEAP_BASE - 8 |}.
Example a64_substitute_hyps_satisfiable :
  NoDup (ids ex_ctx) /\ NoDup (new_ids ex_re) /\
  code_statement a64_backend [] (Substitute ex_re (Call ("f"%string, 0%N) [])) ex_ctx 0 = Ok (ex_code, 4%N) /\
  List.length ex_code = 26%nat /\
  code_at (mk_image ex_code) 1 ex_code /\ labels_at (mk_image ex_code) 1 ex_code /\
  frame_ok ex_state (STACK_TOP - 2144) /\ rget ex_state FREE = Some (HEAP_BASE + 128) /\
  (forall i b t, nth_error ex_ctx i = Some b -> is_obj b = true -> atpos Fst i = Ok t ->
     exists p, lget ex_state (STACK_TOP - 2144) t = Some p /\ (p = 0 \/ block_ok p)).
Proof.
  split; [vm_compute; repeat constructor; cbn; intuition discriminate|].
  split; [vm_compute; repeat constructor; cbn; intuition discriminate|].
  split; [vm_compute; reflexivity|]. split; [vm_compute; reflexivity|].
  split.
  { intros j c H. do 26 (destruct j as [|j]; [vm_compute in H |- *; exact H|]). vm_compute in H. destruct j; discriminate. }
  split.
  { intros j l H. do 26 (destruct j as [|j]; [vm_compute in H; first [discriminate | inversion H; subst l; vm_compute; reflexivity]|]).
    vm_compute in H. destruct j; discriminate. }
  split.
  { split; [reflexivity|]. unfold sp_ok, STACK_LIMIT, STACK_TOP. change SPILL_SPACE with 2048. repeat split; try reflexivity; lia. }
  split; [reflexivity|].
  intros i b t Hi Ho Ht. destruct i as [|[|[|i]]]; cbn in Hi; try (destruct i; discriminate); inversion Hi; subst; try discriminate.
  - vm_compute in Ht. inversion Ht; subst t. exists (HEAP_BASE + 64). split; [reflexivity|]. right. split; reflexivity.
  - vm_compute in Ht. inversion Ht; subst t. exists 0. split; [reflexivity|]. left; reflexivity.
Qed.
