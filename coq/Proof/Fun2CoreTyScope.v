(* ======================================================================================
   Proof/Fun2CoreTyScope  -  two consequences of the typing guard [tg] used at the level of definitions:
   - [tg_fv_scope]: every free name of a guarded term is bound in the scope;
   - [tg_bnd_used]: every binder of a guarded term is in fun2core's `used_binders` (the clause
     parameters are recorded by their `context_names`, which the guard compares with the context).
   So a name that is fresh for `used_binders body (parameters)` is neither free nor bound in the body.
   ====================================================================================== *)
From Coq Require Import List ZArith NArith String Bool Lia.
From SCC Require Import Base.Sexp Lang.SynUtil Lang.FunSyn Lang.FunTy Lang.CoreSyn.
From SCC Require Import Sem.AxSem Sem.FunSem Sem.FsCheck Sem.CoreCheck Model.Fun2Core Model.Fun2CoreGuard Model.Fun2CoreTyGuard.
From SCC Require Import Proof.Fun2CoreProof Proof.Fun2CoreTfv Proof.Fun2CoreInv Proof.Fun2CoreProg Proof.CoreTyRules
     Proof.Fun2CoreTyBase.
Import ListNotations.
Open Scope string_scope.
Open Scope list_scope.

Arguments var_ok : simpl never.

Section Scope.
  Variable p : fcprog.
  Variables data codata : list ctydecl.
  Notation tg := (tg p data codata).
  Notation tg_arg := (tg_arg p data codata).
  Notation tg_args := (tg_args p data codata).
  Notation tg_clause := (tg_clause p data codata).
  Notation tg_clauses := (tg_clauses p data codata).
  Notation tg_coclause := (tg_coclause p data codata).
  Notation tg_coclauses := (tg_coclauses p data codata).

  Definition bound_in (G : cctx) (x : string) : Prop := clookup G (new_id x) <> None.
  Definition SC (t : fterm) : Prop := forall G, tg G t = true -> forall x, In x (fv_fterm t) -> bound_in G x.

  Lemma bound_cons_inv : forall b v G x, cbvar b = new_id v -> bound_in (b :: G) x -> x <> v -> bound_in G x.
  Proof.
    intros b v G x Hb H Hne. unfold bound_in in *. rewrite clookup_cons, Hb in H.
    assert (E : cident_eqb (new_id v) (new_id x) = false).
    { apply ceq_id_neq. intros E. apply new_id_inj in E. congruence. }
    rewrite E in H. exact H.
  Qed.
  Lemma bound_app_inv : forall ctx G x, bound_in (compile_ctx ctx ++ G) x -> ~ In x (fvars ctx) -> bound_in G x.
  Proof.
    intros ctx G x H Hn. unfold bound_in in *. rewrite clookup_app in H.
    destruct (clookup (compile_ctx ctx) (new_id x)) as [b|] eqn:E; [|exact H].
    exfalso. pose proof (clookup_var _ _ _ E) as Hv. apply clookup_In in E.
    unfold compile_ctx in E. apply in_map_iff in E. destruct E as [fb [Eb Hfb]]. subst b.
    unfold compile_binding in Hv. cbn [cbvar] in Hv. apply new_id_inj in Hv. apply Hn. subst x. apply in_map. exact Hfb.
  Qed.

  Lemma sc_args : forall args, Forall SC args -> forall G sig, tg_args G args sig = true ->
    forall x, In x (flat_map fv_fterm args) -> bound_in G x.
  Proof.
    intros args H G. induction H as [|y r Hy Hr IH]; intros sig Hg x Hx; [contradiction|].
    destruct sig as [|b sr]; [discriminate|]. rewrite tg_args_cons in Hg. apply andb_prop in Hg. destruct Hg as [Hg1 Hg2].
    simpl in Hx. apply in_app_or in Hx. destruct Hx as [Hx|Hx]; [|eapply IH; eassumption].
    unfold Fun2CoreTyGuard.tg_arg in Hg1. destruct (cbchi b).
    - apply andb_prop in Hg1. destruct Hg1 as [Hg1 _]. apply andb_prop in Hg1. destruct Hg1 as [Hg1 _].
      apply andb_prop in Hg1. destruct Hg1 as [_ Hg1]. exact (Hy G Hg1 x Hx).
    - destruct y; try discriminate. destruct chi as [[|]|]; try discriminate.
      apply andb_prop in Hg1. destruct Hg1 as [Hg1 _]. apply andb_prop in Hg1. destruct Hg1 as [Hv _].
      apply var_ok_look in Hv. destruct Hv as [ty0 [_ Hv]]. simpl in Hx. destruct Hx as [<-|[]].
      unfold bound_in. rewrite Hv. discriminate.
  Qed.
  Lemma sc_clauses : forall cls, Forall (fun c => SC (clause_body c)) cls -> forall G ty xs, tg_clauses G ty cls xs = true ->
    forall x, In x (flat_map fv_cl cls) -> bound_in G x.
  Proof.
    intros cls H G ty. induction H as [|c r Hc Hr IH]; intros xs Hg x Hx; [contradiction|].
    destruct xs as [|sg xr]; [discriminate|]. rewrite tg_clauses_cons in Hg. apply andb_prop in Hg. destruct Hg as [Hg1 Hg2].
    simpl in Hx. apply in_app_or in Hx. destruct Hx as [Hx|Hx]; [|eapply IH; eassumption].
    destruct c as [pl x0 names ctx body]. unfold Fun2CoreTyGuard.tg_clause in Hg1.
    apply andb_prop in Hg1. destruct Hg1 as [Hg1 _]. apply andb_prop in Hg1. destruct Hg1 as [_ Hgb].
    unfold fv_cl in Hx. apply remove_all_In in Hx. destruct Hx as [Hx Hn]. simpl in Hc.
    eapply bound_app_inv; [exact (Hc _ Hgb x Hx) | exact Hn].
  Qed.
  Lemma sc_coclauses : forall cls, Forall (fun c => SC (clause_body c)) cls -> forall G xs, tg_coclauses G cls xs = true ->
    forall x, In x (flat_map fv_cl cls) -> bound_in G x.
  Proof.
    intros cls H G. induction H as [|c r Hc Hr IH]; intros xs Hg x Hx; [contradiction|].
    destruct xs as [|sg xr]; [discriminate|]. rewrite tg_coclauses_cons in Hg. apply andb_prop in Hg. destruct Hg as [Hg1 Hg2].
    simpl in Hx. apply in_app_or in Hx. destruct Hx as [Hx|Hx]; [|eapply IH; eassumption].
    destruct c as [pl x0 names ctx body]. unfold Fun2CoreTyGuard.tg_coclause in Hg1.
    apply andb_prop in Hg1. destruct Hg1 as [_ Hgb].
    unfold fv_cl in Hx. apply remove_all_In in Hx. destruct Hx as [Hx Hn]. simpl in Hc.
    eapply bound_app_inv; [exact (Hc _ Hgb x Hx) | exact Hn].
  Qed.

  Theorem tg_fv_scope : forall t, SC t.
  Proof.
    induction t using fterm_ind'; intros G Hg z Hz.
    - rewrite tg_var in Hg. pose proof Hg as Hv. apply var_ok_look in Hv.
      destruct Hv as [ty0 [_ Hv]]. simpl in Hz. destruct Hz as [<-|[]]. unfold bound_in. rewrite Hv. discriminate.
    - contradiction.
    - rewrite tg_op in Hg. apply andb_prop in Hg. destruct Hg as [Hg _]. apply andb_prop in Hg. destruct Hg as [Hg _].
      apply andb_prop in Hg. destruct Hg as [H1 H2]. simpl in Hz. apply in_app_or in Hz.
      destruct Hz as [Hz|Hz]; [eapply IHt1 | eapply IHt2]; eassumption.
    - rewrite tg_ifc in Hg.
      apply andb_prop in Hg. destruct Hg as [Hg _]. apply andb_prop in Hg. destruct Hg as [Hg _].
      apply andb_prop in Hg. destruct Hg as [Hg Hg3].
      apply andb_prop in Hg. destruct Hg as [Hg Hg2]. apply andb_prop in Hg. destruct Hg as [Hg Hgb].
      apply andb_prop in Hg. destruct Hg as [Hg1 _].
      simpl in Hz. apply in_app_or in Hz. destruct Hz as [Hz|Hz]; [eapply IHt1; eassumption|].
      apply in_app_or in Hz. destruct Hz as [Hz|Hz].
      { destruct b as [b'|]; [|contradiction]. apply andb_prop in Hgb. destruct Hgb as [Hgb _]. simpl in H. eapply H; eassumption. }
      apply in_app_or in Hz. destruct Hz as [Hz|Hz]; [eapply IHt2 | eapply IHt3]; eassumption.
    - rewrite tg_print in Hg. apply andb_prop in Hg. destruct Hg as [Hg _]. apply andb_prop in Hg. destruct Hg as [Hg H2].
      apply andb_prop in Hg. destruct Hg as [H1 _]. simpl in Hz. apply in_app_or in Hz.
      destruct Hz as [Hz|Hz]; [eapply IHt1 | eapply IHt2]; eassumption.
    - rewrite tg_let in Hg. apply andb_prop in Hg. destruct Hg as [Hg _]. apply andb_prop in Hg. destruct Hg as [Hg H2].
      apply andb_prop in Hg. destruct Hg as [Hg _]. apply andb_prop in Hg. destruct Hg as [H1 _].
      simpl in Hz. apply in_app_or in Hz. destruct Hz as [Hz|Hz]; [eapply IHt1; eassumption|].
      apply remove_all_In in Hz. destruct Hz as [Hz Hn].
      apply (bound_cons_inv (mkcb (new_id v) CPrd (compile_ty vty)) v G z eq_refl (IHt2 _ H2 z Hz)). intros ->. apply Hn. left. reflexivity.
    - rewrite tg_call in Hg. apply andb_prop in Hg. destruct Hg as [_ Hg].
      destruct (ffind_def p f) as [d|]; [|discriminate]. destruct ret as [r|]; [|discriminate].
      apply andb_prop in Hg. destruct Hg as [Hg _]. apply andb_prop in Hg. destruct Hg as [Hg _].
      rewrite fv_call in Hz. eapply sc_args; eassumption.
    - rewrite tg_ctor in Hg. destruct (tyo (FCtor x args ty)) as [[|n]|]; try discriminate.
      destruct (find_decl data n) as [d|]; [|discriminate]. destruct (find_cxtor d (new_id x)) as [sg|]; [|discriminate].
      rewrite fv_ctor in Hz. eapply sc_args; eassumption.
    - rewrite tg_dtor in Hg. apply andb_prop in Hg. destruct Hg as [Hgs Hg].
      rewrite fv_dtor in Hz. apply in_app_or in Hz. destruct Hz as [Hz|Hz]; [eapply IHt; eassumption|].
      destruct (tyo t) as [[|n]|]; try discriminate.
      destruct (find_decl codata n) as [d|]; [|discriminate]. destruct (find_cxtor d (new_id x)) as [sg|]; [|discriminate].
      destruct (split_last (cxargs sg)) as [[pre last]|]; [|discriminate].
      apply andb_prop in Hg. destruct Hg as [Hg _]. apply andb_prop in Hg. destruct Hg as [Hg _].
      eapply sc_args; eassumption.
    - rewrite tg_case in Hg. apply andb_prop in Hg. destruct Hg as [Hgs Hg].
      rewrite fv_case in Hz. apply in_app_or in Hz. destruct Hz as [Hz|Hz]; [eapply IHt; eassumption|].
      destruct (tyo t) as [[|n]|]; try discriminate. destruct (find_decl data n) as [d|]; [|discriminate].
      eapply sc_clauses; eassumption.
    - rewrite tg_new in Hg. destruct (tyo (FNew cls ty)) as [[|n]|]; try discriminate.
      destruct (find_decl codata n) as [d|]; [|discriminate]. rewrite fv_new in Hz. eapply sc_coclauses; eassumption.
    - rewrite tg_label in Hg. destruct ty as [ty0|]; [|discriminate].
      apply andb_prop in Hg. destruct Hg as [Hg _]. apply andb_prop in Hg. destruct Hg as [_ Hg].
      simpl in Hz. apply remove_all_In in Hz. destruct Hz as [Hz Hn].
      apply (bound_cons_inv (mkcb (new_id l) CCns (compile_ty ty0)) l G z eq_refl (IHt _ Hg z Hz)). intros ->. apply Hn. left. reflexivity.
    - rewrite tg_goto in Hg. apply andb_prop in Hg. destruct Hg as [Hg Hgt]. apply andb_prop in Hg. destruct Hg as [Hv _].
      simpl in Hz. destruct Hz as [<-|Hz]; [|eapply IHt; eassumption].
      apply var_ok_look in Hv. destruct Hv as [ty0 [_ Hv]]. unfold bound_in. rewrite Hv. discriminate.
    - rewrite tg_exit in Hg. apply andb_prop in Hg. destruct Hg as [Hg _]. apply andb_prop in Hg. destruct Hg as [Hg _].
      eapply IHt; eassumption.
    - rewrite tg_paren in Hg. eapply IHt; eassumption.
  Qed.

  (* ---------- binders are recorded by used_binders ---------- *)
  Definition BU (t : fterm) : Prop := forall G acc, tg G t = true -> forall x, In x (bnd t) -> In x (used_binders t acc).

  Lemma bu_args : forall args, Forall BU args -> forall G sig, tg_args G args sig = true ->
    forall acc x, In x (flat_map bnd args) -> In x (ub_terms args acc).
  Proof.
    intros args H G. induction H as [|y r Hy Hr IH]; intros sig Hg acc x Hx; [contradiction|].
    destruct sig as [|b sr]; [discriminate|]. rewrite tg_args_cons in Hg. apply andb_prop in Hg. destruct Hg as [Hg1 Hg2].
    unfold ub_terms. simpl. fold (ub_terms r (used_binders y acc)).
    simpl in Hx. apply in_app_or in Hx. destruct Hx as [Hx|Hx]; [|eapply IH; eassumption].
    apply ub_terms_mono. unfold Fun2CoreTyGuard.tg_arg in Hg1. destruct (cbchi b).
    - apply andb_prop in Hg1. destruct Hg1 as [Hg1 _]. apply andb_prop in Hg1. destruct Hg1 as [Hg1 _].
      apply andb_prop in Hg1. destruct Hg1 as [_ Hg1]. exact (Hy G acc Hg1 x Hx).
    - destruct y; try discriminate. simpl in Hx. contradiction.
  Qed.
  Lemma bu_clause_head : forall names ctx body acc x, list_eqb String.eqb names (fvars ctx) = true ->
    In x (fvars ctx) -> In x (used_binders body (rev_append names acc)).
  Proof.
    intros names ctx body acc x Hn Hx. apply str_list_eqb_eq in Hn. subst names.
    apply used_binders_mono. rewrite rev_append_rev. apply in_or_app. left. apply in_rev in Hx. exact Hx.
  Qed.
  Lemma bu_clauses : forall cls, Forall (fun c => BU (clause_body c)) cls -> forall G ty xs, tg_clauses G ty cls xs = true ->
    forall acc x, In x (flat_map cl_bnd cls) -> In x (ub_cls cls acc).
  Proof.
    intros cls H G ty. induction H as [|c r Hc Hr IH]; intros xs Hg acc x Hx; [contradiction|].
    destruct xs as [|sg xr]; [discriminate|]. rewrite tg_clauses_cons in Hg. apply andb_prop in Hg. destruct Hg as [Hg1 Hg2].
    destruct c as [pl x0 names ctx body]. unfold ub_cls. simpl.
    fold (ub_cls r (used_binders body (rev_append names acc))).
    simpl in Hx. apply in_app_or in Hx. destruct Hx as [Hx|Hx]; [|eapply IH; eassumption].
    apply ub_cls_mono. unfold Fun2CoreTyGuard.tg_clause in Hg1.
    apply andb_prop in Hg1. destruct Hg1 as [Hg1 _]. apply andb_prop in Hg1. destruct Hg1 as [Hg1 Hgb].
    apply andb_prop in Hg1. destruct Hg1 as [Hg1 _]. apply andb_prop in Hg1. destruct Hg1 as [Hg1 _].
    apply andb_prop in Hg1. destruct Hg1 as [Hnames _].
    apply in_app_or in Hx. destruct Hx as [Hx|Hx]; [apply (bu_clause_head names ctx); assumption|].
    simpl in Hc. exact (Hc _ _ Hgb x Hx).
  Qed.
  Lemma bu_coclauses : forall cls, Forall (fun c => BU (clause_body c)) cls -> forall G xs, tg_coclauses G cls xs = true ->
    forall acc x, In x (flat_map cl_bnd cls) -> In x (ub_cls cls acc).
  Proof.
    intros cls H G. induction H as [|c r Hc Hr IH]; intros xs Hg acc x Hx; [contradiction|].
    destruct xs as [|sg xr]; [discriminate|]. rewrite tg_coclauses_cons in Hg. apply andb_prop in Hg. destruct Hg as [Hg1 Hg2].
    destruct c as [pl x0 names ctx body]. unfold ub_cls. simpl.
    fold (ub_cls r (used_binders body (rev_append names acc))).
    simpl in Hx. apply in_app_or in Hx. destruct Hx as [Hx|Hx]; [|eapply IH; eassumption].
    apply ub_cls_mono. unfold Fun2CoreTyGuard.tg_coclause in Hg1.
    apply andb_prop in Hg1. destruct Hg1 as [Hg1 Hgb]. apply andb_prop in Hg1. destruct Hg1 as [Hg1 _].
    apply andb_prop in Hg1. destruct Hg1 as [Hg1 _]. apply andb_prop in Hg1. destruct Hg1 as [Hnames _].
    apply in_app_or in Hx. destruct Hx as [Hx|Hx]; [apply (bu_clause_head names ctx); assumption|].
    simpl in Hc. exact (Hc _ _ Hgb x Hx).
  Qed.

  Theorem tg_bnd_used : forall t, BU t.
  Proof.
    induction t using fterm_ind'; intros G acc Hg z Hz; try (simpl in Hz; contradiction).
    - rewrite tg_op in Hg. apply andb_prop in Hg. destruct Hg as [Hg _]. apply andb_prop in Hg. destruct Hg as [Hg _].
      apply andb_prop in Hg. destruct Hg as [H1 H2]. simpl in Hz. simpl. apply in_app_or in Hz. destruct Hz as [Hz|Hz].
      + apply used_binders_mono. eapply IHt1; eassumption.
      + eapply IHt2; eassumption.
    - rewrite tg_ifc in Hg.
      apply andb_prop in Hg. destruct Hg as [Hg _]. apply andb_prop in Hg. destruct Hg as [Hg _].
      apply andb_prop in Hg. destruct Hg as [Hg Hg3].
      apply andb_prop in Hg. destruct Hg as [Hg Hg2]. apply andb_prop in Hg. destruct Hg as [Hg Hgb].
      apply andb_prop in Hg. destruct Hg as [Hg1 _].
      simpl in Hz. simpl. apply in_app_or in Hz. destruct Hz as [Hz|Hz].
      { apply used_binders_mono. apply used_binders_mono. destruct b as [b'|]; [apply used_binders_mono|]; eapply IHt1; eassumption. }
      apply in_app_or in Hz. destruct Hz as [Hz|Hz].
      { apply used_binders_mono. apply used_binders_mono. destruct b as [b'|]; [|contradiction].
        apply andb_prop in Hgb. destruct Hgb as [Hgb _]. simpl in H. eapply H; eassumption. }
      apply in_app_or in Hz. destruct Hz as [Hz|Hz].
      { apply used_binders_mono. eapply IHt2; eassumption. }
      eapply IHt3; eassumption.
    - rewrite tg_print in Hg. apply andb_prop in Hg. destruct Hg as [Hg _]. apply andb_prop in Hg. destruct Hg as [Hg H2].
      apply andb_prop in Hg. destruct Hg as [H1 _]. simpl in Hz. simpl. apply in_app_or in Hz. destruct Hz as [Hz|Hz].
      + apply used_binders_mono. eapply IHt1; eassumption.
      + eapply IHt2; eassumption.
    - rewrite tg_let in Hg. apply andb_prop in Hg. destruct Hg as [Hg _]. apply andb_prop in Hg. destruct Hg as [Hg H2].
      apply andb_prop in Hg. destruct Hg as [Hg _]. apply andb_prop in Hg. destruct Hg as [H1 _].
      simpl in Hz. simpl. destruct Hz as [Hz|Hz].
      + subst z. apply used_binders_mono. apply used_binders_mono. left. reflexivity.
      + apply in_app_or in Hz. destruct Hz as [Hz|Hz].
        * apply used_binders_mono. eapply IHt1; eassumption.
        * eapply IHt2; eassumption.
    - rewrite tg_call in Hg. apply andb_prop in Hg. destruct Hg as [_ Hg].
      destruct (ffind_def p f) as [d|]; [|discriminate]. destruct ret as [r|]; [|discriminate].
      apply andb_prop in Hg. destruct Hg as [Hg _]. apply andb_prop in Hg. destruct Hg as [Hg _].
      simpl in Hz. rewrite used_binders_call. eapply bu_args; eassumption.
    - rewrite tg_ctor in Hg. destruct (tyo (FCtor x args ty)) as [[|n]|]; try discriminate.
      destruct (find_decl data n) as [d|]; [|discriminate]. destruct (find_cxtor d (new_id x)) as [sg|]; [|discriminate].
      simpl in Hz. rewrite used_binders_ctor. eapply bu_args; eassumption.
    - rewrite tg_dtor in Hg. apply andb_prop in Hg. destruct Hg as [Hgs Hg].
      simpl in Hz. rewrite used_binders_dtor. apply in_app_or in Hz. destruct Hz as [Hz|Hz].
      { apply ub_terms_mono. eapply IHt; eassumption. }
      destruct (tyo t) as [[|n]|]; try discriminate.
      destruct (find_decl codata n) as [d|]; [|discriminate]. destruct (find_cxtor d (new_id x)) as [sg|]; [|discriminate].
      destruct (split_last (cxargs sg)) as [[pre last]|]; [|discriminate].
      apply andb_prop in Hg. destruct Hg as [Hg _]. apply andb_prop in Hg. destruct Hg as [Hg _].
      eapply bu_args; eassumption.
    - rewrite tg_case in Hg. apply andb_prop in Hg. destruct Hg as [Hgs Hg].
      simpl in Hz. fold (flat_map cl_bnd cls) in Hz. rewrite used_binders_case. apply in_app_or in Hz. destruct Hz as [Hz|Hz].
      { apply ub_cls_mono. eapply IHt; eassumption. }
      destruct (tyo t) as [[|n]|]; try discriminate. destruct (find_decl data n) as [d|]; [|discriminate].
      eapply bu_clauses; eassumption.
    - rewrite tg_new in Hg. destruct (tyo (FNew cls ty)) as [[|n]|]; try discriminate.
      destruct (find_decl codata n) as [d|]; [|discriminate].
      simpl in Hz. fold (flat_map cl_bnd cls) in Hz. rewrite used_binders_new. eapply bu_coclauses; eassumption.
    - rewrite tg_label in Hg. destruct ty as [ty0|]; [|discriminate].
      apply andb_prop in Hg. destruct Hg as [Hg _]. apply andb_prop in Hg. destruct Hg as [_ Hg].
      simpl in Hz. simpl. destruct Hz as [Hz|Hz].
      + subst z. apply used_binders_mono. left. reflexivity.
      + eapply IHt; eassumption.
    - rewrite tg_goto in Hg. apply andb_prop in Hg. destruct Hg as [_ Hgt]. simpl in Hz. simpl. eapply IHt; eassumption.
    - rewrite tg_exit in Hg. apply andb_prop in Hg. destruct Hg as [Hg _]. apply andb_prop in Hg. destruct Hg as [Hg _].
      simpl in Hz. simpl. eapply IHt; eassumption.
    - rewrite tg_paren in Hg. simpl in Hz. simpl. eapply IHt; eassumption.
  Qed.
End Scope.
