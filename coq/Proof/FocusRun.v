(* C03, semantic preservation, part 6: whole runs and whole programs.

   [sim_crun]: related configurations, a source run that meets no kind clash and ends defined (exit
   value or undefined arithmetic) => the focused program reaches the same observation (prints in
   order included).
   [focus_preserves_uniquified]: the same for `focus` applied to every definition of a program whose
   identifiers are all <= max_id (what `uniquify` guarantees), both started on the entry definition. *)
From Coq Require Import List ZArith NArith String Bool Lia.
From SCC Require Import Base.Sexp Lang.CoreSyn Sem.AxSem Sem.CoreSem Model.Backend Model.Uniquify Model.Focus
     Model.FocusCheck Proof.FocusKont Proof.FocusRel Proof.FocusMono Proof.FocusSim Proof.FocusStep Proof.FocusMain.
From SCC Require Import Model.FocusGuard.
Import ListNotations.
Open Scope list_scope.
Open Scope N_scope.

Definition good_end (o : outcome) : Prop := match o with OExit _ | OUndef _ => True | _ => False end.

Section Run.
Variables (ps qt : cprog) (M0 : N).
Hypothesis Hcod : forall ty, is_codata qt ty = is_codata ps ty.
Hypothesis Hdefs : forall f d, cfind_def ps f = Some d ->
  exists b' mc m2, focus_stmt (cdbody d) mc = Ok (b', m2) /\ M0 <= mc /\ ids_le_stmt M0 (cdbody d) = true /\
                   cfind_def qt f = Some (mkcd (cdname d) (cdctx d) (fs2c_stmt b')).

Theorem sim_crun : forall fuel c c' out,
  crel ps M0 c c' -> clash_free ps fuel c = true -> good_end (snd (crun fuel ps c out)) ->
  exists fuel', crun fuel' qt c' out = crun fuel ps c out.
Proof.
  induction fuel as [|f IH]; intros c c' out R CF G.
  - simpl in G. contradiction.
  - simpl in CF. apply andb_true_iff in CF. destruct CF as [CL CF]. apply negb_true_iff in CL.
    pose proof (sim_step ps qt M0 Hcod Hdefs c c' R CL) as S.
    simpl in G |- *. destruct (cstep ps c) as [c2|nl z c2|o] eqn:ST; simpl in S.
    + destruct S as (c2' & (n & Hn) & R2).
      destruct (IH c2 c2' out R2 CF G) as (f2 & E2).
      exists (n + f2)%nat. rewrite Hn. exact E2.
    + destruct S as (c2' & (n & Hn) & R2).
      destruct (IH c2 c2' ((nl, z) :: out) R2 CF G) as (f2 & E2).
      exists (n + f2)%nat. rewrite Hn. exact E2.
    + simpl in G. destruct o; try contradiction; destruct S as (n & Hn); exists (S n + 0)%nat; apply Hn.
Qed.
End Run.

(* ---------- programs ---------- *)
Lemma focus_defs_find : forall M0 f ds mc ds' m2 d,
  maprs focus_def ds mc = Ok (ds', m2) -> M0 <= mc -> forallb (ids_le_def M0) ds = true ->
  find (fun d => cident_eqb (cdname d) f) ds = Some d ->
  exists b' mcd m2d, focus_stmt (cdbody d) mcd = Ok (b', m2d) /\ M0 <= mcd /\ ids_le_stmt M0 (cdbody d) = true /\
    find (fun d => cident_eqb (cdname d) f) (map fs2c_def ds') = Some (mkcd (cdname d) (cdctx d) (fs2c_stmt b')).
Proof.
  induction ds as [|d0 ds IH]; intros mc ds' m2 d F L IA FD; simpl in FD; [discriminate|].
  simpl in F. rinvn F d0' m1 F0. rinvn F r' m3 F1. okinv F.
  unfold focus_def in F0. rinvn F0 b0 m4 FB. okinv F0.
  simpl in IA. apply andb_true_iff in IA. destruct IA as [I0 IA].
  simpl. unfold fs2c_def at 1. simpl.
  destruct (cident_eqb (cdname d0) f) eqn:Q.
  - okinv FD. exists b0, mc, m1. repeat split; auto.
    unfold ids_le_def in I0. apply andb_true_iff in I0. tauto.
  - apply (IH m1 r' m2 d F1); auto. apply focus_stmt_mono in FB. lia.
Qed.

Lemma Vs_ints : forall ps M0 (zs : list Z), Vs ps M0 (map (fun z => BP (PInt z)) zs) (map (fun z => BP (PInt z)) zs).
Proof. induction zs; simpl; constructor; auto. constructor. Qed.

Theorem focus_preserves_uniquified : forall p1 ds m args fuel,
  maprs focus_def (cpdefs p1) (cpmax p1) = Ok (ds, m) ->
  forallb (ids_le_def (cpmax p1)) (cpdefs p1) = true ->
  clash_free_prog fuel p1 args = true ->
  good_end (snd (run_core fuel p1 args)) ->
  exists fuel', run_fs fuel' (mkfsp ds (cpdata p1) (cpcodata p1) m) args = run_core fuel p1 args.
Proof.
  intros p1 ds m args fuel F IA CF G.
  set (q := mkfsp ds (cpdata p1) (cpcodata p1) m).
  assert (Hcod : forall ty, is_codata (fs2c_prog q) ty = is_codata p1 ty) by reflexivity.
  assert (Hdefs : forall f d, cfind_def p1 f = Some d ->
            exists b' mc m2, focus_stmt (cdbody d) mc = Ok (b', m2) /\ cpmax p1 <= mc /\
              ids_le_stmt (cpmax p1) (cdbody d) = true /\
              cfind_def (fs2c_prog q) f = Some (mkcd (cdname d) (cdctx d) (fs2c_stmt b'))).
  { intros f d FD. unfold cfind_def in *. simpl. eapply focus_defs_find; eauto. lia. }
  unfold run_fs, run_core, clash_free_prog in *.
  destruct (cpdefs p1) as [|d0 dr] eqn:DP; [simpl in G; contradiction|].
  simpl in F. rinvn F d0' m1 F0. rinvn F r' m3 F1. okinv F.
  unfold focus_def in F0. rinvn F0 b0 m4 FB. okinv F0.
  simpl. unfold centry_env in *. simpl.
  destruct (forallb (fun b => match cbchi b with CPrd => true | CCns => false end) (cdctx d0)); [|simpl in G; contradiction].
  destruct (cbind (cvars (cdctx d0)) (map (fun z => BP (PInt z)) args) []) as [e|] eqn:B; [|simpl in G; contradiction].
  simpl in IA. apply andb_true_iff in IA. destruct IA as [I0 IA].
  unfold ids_le_def in I0. apply andb_true_iff in I0. destruct I0 as [_ I0].
  destruct (cbind_rel p1 (cpmax p1) _ _ _ _ _ _ (Vs_ints p1 (cpmax p1) args) (ER_nil p1 (cpmax p1)) B) as (e1' & B' & RE).
  rewrite B in B'. okinv B'.
  eapply (sim_crun p1 (fs2c_prog q) (cpmax p1) Hcod Hdefs); eauto.
  eapply CR_run; eauto. lia.
Qed.
