(* C01: the composition of the stage theorems with the Fun -> Core link DISCHARGED for the fragment of
   C02_fun2core_correct_fragment2 (no call of main, well-scoped; no capture guard since fix d5d4151): the
   remaining hypotheses are the focusing, shrinking and x86-64 code generation links. *)
From Coq Require Import List ZArith NArith String Ascii Bool Lia.
From SCC Require Import Base.Sexp Lang.AxSyn Lang.FunSyn Lang.CoreSyn Sem.AxSem Sem.CoreSem Sem.FunSem Sem.X86Sem
     Model.Backend Model.Fun2Core Model.Fun2CoreGuard Model.Focus Model.FocusCheck Model.Shrink Model.Linearize Model.LinCheck
     Model.X86 Model.Runtime Proof.RuntimeProof Proof.LinSim Proof.Compose Proof.Fun2CoreRel Proof.Fun2CoreProg.
Import ListNotations.
Open Scope Z_scope.

Theorem compile_correct_fun2core_discharged :
  (* focusing, shrinking, x86-64 code generation: the links that are not (fully) proved *)
  (forall p q args fuel, pre_check p = true -> focus_wf p = true -> focus_prog p = Backend.Ok q ->
     let o := run_core fuel p args in
     ((exists z, snd o = OExit z) \/ (exists w, snd o = OUndef w)) ->
     exists fuel', run_fs fuel' q args = o) ->
  (forall (p : fsprog) (q : prog) (n : nat) (args : list Z) (o : obs),
     shrink_prog p = SOk q -> run_fs n p args = o ->
     ((exists z, snd o = OExit z) \/ (exists w, snd o = OUndef w)) ->
     exists m, run_named m q args = o) ->
  (forall (p : prog) (lc : N) (cs : list xcode) (n : nat) (lc' : N) (args : list Z) (fuel : nat) (o : obs),
     x86_compile p lc = Backend.Ok (cs, n, lc') ->
     run_linear fuel p args = o -> defined o = true ->
     exists outer inner, fst (run_x86 outer inner cs args) = o) ->
  forall (p : fcprog) (c : cprog) (f : fsprog) (a : prog) (cs : list xcode) (nargs : nat) (lc lc' : N)
         (args : list Z) (n : nat) (o : obs),
    NoDup (map fdname (fcpdefs p)) -> prog_guard p = true ->
    compile_prog p = Fun2Core.Ok c -> pre_check c = true -> focus_wf c = true ->
    focus_prog c = Backend.Ok f -> shrink_prog f = SOk a -> prog_ok a = true ->
    x86_compile (linearize a) lc = Backend.Ok (cs, nargs, lc') ->
    run_fun n p args = o -> out_ok o ->
    (exists outer inner, fst (run_x86 outer inner cs args) = o) /\
    (Forall (fun pz => in_i64 (snd pz)) (fst o) ->
     bytes_of_string (render_prints (fst o)) = flat_map runtime_bytes (fst o)).
Proof.
  intros focus_preserves shrink_correct x86_codegen_correct
         p c f a cs nargs lc lc' args n o Hnd Hgd Hc Hpre Hwf Hf Hs Hok Hx Hrun (z & Hz).
  assert (D : defined o = true) by (unfold defined; now rewrite Hz).
  assert (G : (exists z, snd o = OExit z) \/ (exists w, snd o = OUndef w)) by (left; eauto).
  split; [|apply render_prints_is_runtime_output].
  destruct (fun2core_correct_fragment_lemma p c args n o Hc Hnd Hgd Hrun (defined_final o D)) as (m1 & R1).
  pose proof (focus_preserves c f args m1 Hpre Hwf Hf) as FP. cbv zeta in FP. rewrite R1 in FP.
  destruct (FP G) as (m2 & R2).
  destruct (shrink_correct f a m2 args o Hs R2 G) as (m3 & R3).
  destruct (linearize_preserves_stable a Hok args m3 o R3 G) as (m4 & R4).
  specialize (R4 0%nat). rewrite Nat.add_0_r in R4.
  exact (x86_codegen_correct (linearize a) lc cs nargs lc' args m4 o Hx R4 D).
Qed.
