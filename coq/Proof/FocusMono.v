(* C03, semantic preservation: the identifier counter never decreases through focus/bind
   (no assumption on the program; continuations must be monotone themselves). *)
From Coq Require Import List ZArith NArith String Bool Lia.
From SCC Require Import Base.Sexp Lang.CoreSyn Model.Backend Model.Uniquify Model.Focus Model.FocusCheck
     Proof.CoreInd Proof.FocusKont.
Import ListNotations.
Open Scope list_scope.
Open Scope N_scope.

Definition kmono (k : kont) : Prop := forall b m s m', k b m = Ok (s, m') -> m <= m'.
Definition kvmono (k : kontv) : Prop := forall bs m s m', k bs m = Ok (s, m') -> m <= m'.

Definition MB1 (t : cterm) : Prop := forall c k m s m', kmono k -> bind_term c t k m = Ok (s, m') -> m <= m'.
Definition MBa (a : carg) : Prop := forall k m s m', kmono k -> bind_arg a k m = Ok (s, m') -> m <= m'.
Definition msub (t : cterm) : Prop :=
  match t with
  | CXtor _ _ args _ => Forall MBa args
  | COp a _ b => MB1 a /\ MB1 b
  | _ => True
  end.
Definition MBt (t : cterm) : Prop :=
  MB1 t /\ (forall c m t' m', focus_term c t m = Ok (t', m') -> m <= m') /\ msub t.
Definition MFc (cl : cclause) : Prop := forall m cl' m', focus_clause cl m = Ok (cl', m') -> m <= m'.
Definition MFs (s : cstmt) : Prop := forall m s' m', focus_stmt s m = Ok (s', m') -> m <= m'.

Lemma bind_many_mono : forall args, Forall MBa args -> forall kv m s m',
  kvmono kv -> bind_many args kv m = Ok (s, m') -> m <= m'.
Proof.
  induction 1 as [|a r Ha Hr IH]; intros kv m s m' K H.
  - rewrite bind_many_nil in H. eapply K; eauto.
  - rewrite bind_many_cons in H. eapply Ha; [|exact H].
    intros b m1 s1 m1' H1. unfold many_k in H1. eapply IH; [|exact H1].
    intros bs m2 s2 m2' H2. unfold cons_kv in H2. eapply K; eauto.
Qed.

Lemma focus_clauses_mono : forall cls, Forall MFc cls -> forall m cls' m',
  maprs focus_clause cls m = Ok (cls', m') -> m <= m'.
Proof.
  induction 1 as [|cl r Hc Hr IH]; intros m cls' m' H; simpl in H.
  - okinv H. lia.
  - rinv H. rinv H. okinv H. apply Hc in E. apply IH in E0. lia.
Qed.

Lemma focus_mono_all :
  (forall t, MBt t) /\ (forall a, MBa a) /\ (forall c, MFc c) /\ (forall s, MFs s).
Proof.
  apply core_mutind.
  - (* XVar *) intros c v t. split; [|split; [|exact I]].
    + intros c0 k m s m' K H. rewrite bind_xvar in H. eapply K; eauto.
    + intros c0 m t' m' H. rewrite focus_term_xvar in H. okinv H. lia.
  - (* Lit *) intros n. split; [|split; [|exact I]].
    + intros c k m s m' K H. destruct c; [|discriminate]. rewrite bind_lit in H.
      rinv H. okinv H. apply K in E. lia.
    + intros c m t' m' H. destruct c; simpl in H; [okinv H; lia | discriminate].
  - (* Op *) intros a o b (Ba & _ & _) (Bb & _ & _). split; [|split; [|split; assumption]].
    + intros c k m s m' K H. destruct c; [|discriminate]. rewrite bind_op in H.
      eapply Ba; [|exact H]. intros b1 ma s1 m1 H1. unfold opL_k in H1.
      eapply Bb; [|exact H1]. intros b2 mb s2 m2 H2. unfold opR_k in H2. simpl in H2.
      rinv H2. okinv H2. apply K in E. lia.
    + intros c m t' m' H. destruct c; discriminate.
  - (* Mu *) intros c v s t Fs. split; [|split; [|exact I]].
    + intros c0 k m s0 m' K H. destruct c0.
      * rewrite bind_mu_prd in H. rinv H. rinv H. okinv H. apply Fs in E. apply K in E0. lia.
      * rewrite bind_mu_cns in H. rinv H. rinv H. okinv H. apply Fs in E0. apply K in E. lia.
    + intros c0 m t' m' H. rewrite focus_term_mu in H. rinv H. okinv H. apply Fs in E. exact E.
  - (* Xtor *) intros c x args t FA. split; [|split; [|exact FA]].
    + intros c0 k m s m' K H. destruct c0.
      * rewrite bind_xtor_prd in H. eapply bind_many_mono; [exact FA| |exact H].
        intros bs mb s1 m1 H1. unfold xtorP_kv in H1. simpl in H1. rinv H1. okinv H1. apply K in E. lia.
      * rewrite bind_xtor_cns in H. eapply bind_many_mono; [exact FA| |exact H].
        intros bs mb s1 m1 H1. unfold xtorK_kv in H1. simpl in H1. rinv H1. okinv H1. apply K in E. lia.
    + intros c0 m t' m' H. discriminate.
  - (* XCase *) intros c cls t FC. split; [|split; [|exact I]].
    + intros c0 k m s m' K H. destruct c0.
      * rewrite bind_xcase_prd in H. rinv H. rinv H. okinv H. apply K in E.
        apply (focus_clauses_mono _ FC) in E0. lia.
      * rewrite bind_xcase_cns in H. rinv H. rinv H. okinv H. apply K in E.
        apply (focus_clauses_mono _ FC) in E0. lia.
    + intros c0 m t' m' H. rewrite focus_term_xcase in H. rinv H. okinv H.
      apply (focus_clauses_mono _ FC) in E. exact E.
  - (* Producer *) intros p (Bp & _) k m s m' K H. rewrite bind_arg_prd in H. eapply Bp; eauto.
  - (* Consumer *) intros p (Bp & _) k m s m' K H. rewrite bind_arg_cns in H. eapply Bp; eauto.
  - (* Clause *) intros c x ctx b Fb m cl' m' H. rewrite focus_clause_eq in H. rinv H. okinv H. apply Fb in E. exact E.
  - (* Cut *) intros p t k (Bp & Fp & Sp) (Bk & Fk & Sk) m s' m' H.
    assert (XP : forall pc px pargs pt, p = CXtor pc px pargs pt -> m <= m').
    { intros pc px pargs pt ->. rewrite focus_cut_xtorP in H. simpl in Sp.
      eapply bind_many_mono; [exact Sp| |exact H].
      intros bs mb s1 m1 H1. unfold cutP_kv in H1. rinv H1. okinv H1. apply Fk in E. exact E. }
    assert (XK : forall qc qx qargs qt, not_xtor p -> k = CXtor qc qx qargs qt -> m <= m').
    { intros qc qx qargs qt NP ->. rewrite focus_cut_xtorK in H by exact NP. simpl in Sk.
      eapply bind_many_mono; [exact Sk| |exact H].
      intros bs mb s1 m1 H1. unfold cutK_kv in H1. rinv H1. okinv H1. apply Fp in E. exact E. }
    assert (XO : forall a o b, not_xtor k -> p = COp a o b -> m <= m').
    { intros a o b NK ->. rewrite focus_cut_op in H by exact NK. simpl in Sp. destruct Sp as [Ba Bb].
      eapply Ba; [|exact H]. intros b1 ma s1 m1 H1. unfold cutopL_k in H1.
      eapply Bb; [|exact H1]. intros b2 mb s2 m2 H2. unfold cutopR_k in H2.
      rinv H2. okinv H2. apply Fk in E. exact E. }
    destruct p; try (eapply XP; reflexivity);
      destruct k; try (eapply XK; [exact I|reflexivity]); try (eapply XO; [exact I|reflexivity]);
      (rewrite focus_cut_heads in H by exact I; rinv H; rinv H; okinv H; apply Fp in E; apply Fk in E0; lia).
  - (* IfC *) intros so a b t e (Ba & _) Hb Ft Fe m s' m' H. rewrite focus_ifc in H.
    eapply Ba; [|exact H]. intros b1 ma s1 m1 H1. unfold if1_k in H1.
    destruct b as [b0|].
    + destruct Hb as (Bb & _). eapply Bb; [|exact H1]. intros b2 mb s2 m2 H2. unfold if2_k in H2.
      rinv H2. rinv H2. okinv H2. apply Ft in E. apply Fe in E0. lia.
    + rinv H1. rinv H1. okinv H1. apply Ft in E. apply Fe in E0. lia.
  - (* Print *) intros nl a next (Ba & _) Fn m s' m' H. rewrite focus_print in H.
    eapply Ba; [|exact H]. intros b1 ma s1 m1 H1. unfold print_k in H1. rinv H1. okinv H1. apply Fn in E. exact E.
  - (* Call *) intros f args t FA m s' m' H. rewrite focus_call in H.
    eapply bind_many_mono; [exact FA| |exact H]. intros bs mb s1 m1 H1. unfold call_kv in H1. okinv H1. lia.
  - (* Exit *) intros a t (Ba & _) m s' m' H. rewrite focus_exit in H.
    eapply Ba; [|exact H]. intros b1 ma s1 m1 H1. unfold exit_k in H1. okinv H1. lia.
Qed.

Lemma focus_stmt_mono : forall s m s' m', focus_stmt s m = Ok (s', m') -> m <= m'.
Proof. intros s. exact (proj2 (proj2 (proj2 focus_mono_all)) s). Qed.
Lemma focus_term_mono : forall c t m t' m', focus_term c t m = Ok (t', m') -> m <= m'.
Proof. intros c t. intros. eapply (proj1 (proj2 (proj1 focus_mono_all t))); eauto. Qed.
Lemma focus_clauses_mono' : forall cls m cls' m', maprs focus_clause cls m = Ok (cls', m') -> m <= m'.
Proof.
  intros cls. apply focus_clauses_mono. apply Forall_forall. intros cl _.
  exact (proj1 (proj2 (proj2 focus_mono_all)) cl).
Qed.
Lemma bind_term_mono : forall c t k m s m', kmono k -> bind_term c t k m = Ok (s, m') -> m <= m'.
Proof. intros c t. intros. eapply (proj1 (proj1 focus_mono_all t)); eauto. Qed.
Lemma bind_arg_mono : forall a k m s m', kmono k -> bind_arg a k m = Ok (s, m') -> m <= m'.
Proof. intros a. exact (proj1 (proj2 focus_mono_all) a). Qed.
Lemma bind_many_mono' : forall args kv m s m', kvmono kv -> bind_many args kv m = Ok (s, m') -> m <= m'.
Proof.
  intros args. apply bind_many_mono. apply Forall_forall. intros a _. exact (proj1 (proj2 focus_mono_all) a).
Qed.

(* ---------- the named continuations are monotone ---------- *)
Lemma kmono_opR : forall b1 o k, kmono k -> kmono (opR_k b1 o k).
Proof. intros b1 o k K b2 mb s m' H. unfold opR_k in H. simpl in H. rinv H. okinv H. apply K in E. lia. Qed.
Lemma kmono_opL : forall t o k, kmono k -> kmono (opL_k t o k).
Proof. intros t o k K b1 ma s m' H. unfold opL_k in H. eapply bind_term_mono; [|exact H]. apply kmono_opR; exact K. Qed.
Lemma kmono_cutopR : forall b1 o ty q, kmono (cutopR_k b1 o ty q).
Proof. intros b1 o ty q b2 mb s m' H. unfold cutopR_k in H. rinv H. okinv H. eapply focus_term_mono; eauto. Qed.
Lemma kmono_cutopL : forall t o ty q, kmono (cutopL_k t o ty q).
Proof. intros t o ty q b1 ma s m' H. unfold cutopL_k in H. eapply bind_term_mono; [|exact H]. apply kmono_cutopR. Qed.
Lemma kmono_if2 : forall so b1 t e, kmono (if2_k so b1 t e).
Proof.
  intros so b1 t e b2 mb s m' H. unfold if2_k in H. rinv H. rinv H. okinv H.
  apply focus_stmt_mono in E. apply focus_stmt_mono in E0. lia.
Qed.
Lemma kmono_if1 : forall so b t e, kmono (if1_k so b t e).
Proof.
  intros so b t e b1 ma s m' H. unfold if1_k in H. destruct b as [b0|].
  - eapply bind_term_mono; [|exact H]. apply kmono_if2.
  - rinv H. rinv H. okinv H. apply focus_stmt_mono in E. apply focus_stmt_mono in E0. lia.
Qed.
Lemma kmono_print : forall nl next, kmono (print_k nl next).
Proof. intros nl next b1 ma s m' H. unfold print_k in H. rinv H. okinv H. eapply focus_stmt_mono; eauto. Qed.
Lemma kmono_exit : kmono exit_k.
Proof. intros b1 ma s m' H. unfold exit_k in H. okinv H. lia. Qed.
Lemma kvmono_cons : forall b kv, kvmono kv -> kvmono (cons_kv b kv).
Proof. intros b kv K bs m s m' H. unfold cons_kv in H. eapply K; eauto. Qed.
Lemma kmono_many : forall r kv, kvmono kv -> kmono (many_k r kv).
Proof. intros r kv K b m s m' H. unfold many_k in H. eapply bind_many_mono'; [|exact H]. apply kvmono_cons; exact K. Qed.
Lemma kvmono_xtorP : forall c' x ty k, kmono k -> kvmono (xtorP_kv c' x ty k).
Proof. intros c' x ty k K bs m s m' H. unfold xtorP_kv in H. simpl in H. rinv H. okinv H. apply K in E. lia. Qed.
Lemma kvmono_xtorK : forall c' x ty k, kmono k -> kvmono (xtorK_kv c' x ty k).
Proof. intros c' x ty k K bs m s m' H. unfold xtorK_kv in H. simpl in H. rinv H. okinv H. apply K in E. lia. Qed.
Lemma kvmono_cutP : forall pc px ty q, kvmono (cutP_kv pc px ty q).
Proof. intros pc px ty q bs m s m' H. unfold cutP_kv in H. rinv H. okinv H. eapply focus_term_mono; eauto. Qed.
Lemma kvmono_cutK : forall qc qx ty p, kvmono (cutK_kv qc qx ty p).
Proof. intros qc qx ty p bs m s m' H. unfold cutK_kv in H. rinv H. okinv H. eapply focus_term_mono; eauto. Qed.
Lemma kvmono_call : forall f, kvmono (call_kv f).
Proof. intros f bs m s m' H. unfold call_kv in H. okinv H. lia. Qed.
