(* `x_store` of any number of variables (objects chained over several blocks, memory.rs store_fields)
   refines `Heap.alloc_object`:
     acq_ok                 what `acquire_block` needs of the allocator state, on the abstract state
                            (it follows from the heap invariant, room in the heap region and counts that
                            do not overflow; it is invariant under the block-wise equality);
     alloc_object_pre       acq_ok at every allocation of the chain (the abstract states in between are
                            determined by `Heap.alloc`);
     x86_store_block_ok     one round of store_fields: (link,) values, acquire = one `Heap.alloc`;
     x86_store_ok           x_store to_store remaining = Heap.alloc_object (fsts ...) for every length. *)
From Coq Require Import List ZArith NArith String Bool Lia FMapPositive.
From SCC Require Import Base.Sexp Lang.AxSyn Sem.AxSem Model.Backend Model.X86 Sem.X86Sem Generated.Constants
  Proof.X86State Proof.X86Sel Proof.X86Mem Proof.X86MemFrame Proof.X86MemStore.
From SCC Require Model.Heap.
Import ListNotations.
Open Scope list_scope.
Open Scope Z_scope.

(* ---------- the precondition of acquire, abstractly ---------- *)
Definition acq_ok (a : Heap.st) : Prop :=
  is_blk (Heap.heap a) /\ Heap.free a <> 0 /\
  (Heap.hdr (Heap.m a (Heap.heap a)) = 0 -> is_blk (Heap.free a)) /\
  (Heap.hdr (Heap.m a (Heap.heap a)) = 0 -> Heap.hdr (Heap.m a (Heap.free a)) <> 0 ->
     Forall (fun c => c = 0 \/ is_blk c) (Heap.ps (Heap.m a (Heap.free a))) /\
     (forall x, is_blk x -> min_int + 3 <= Heap.hdr (Heap.m a x) <= max_int) /\
     min_int + 3 <= Heap.hdr (Heap.m a (Heap.free a)) <= max_int).

Lemma acq_ok_eqB a b : st_eqB a b -> acq_ok a -> acq_ok b.
Proof.
  intros (E1 & E2 & E3 & E4) (A1 & A2 & A3 & A4). unfold acq_ok. rewrite <- E1, <- E2, <- (E4 _ A1).
  split; [exact A1|]. split; [exact A2|]. split; [exact A3|].
  intros H0. specialize (A3 H0). rewrite <- (E4 _ A3). intros Hn0. destruct (A4 H0 Hn0) as (K & B1 & B2).
  split; [exact K|]. split; [|exact B2]. intros x Hx. rewrite <- (E4 x Hx). now apply B1.
Qed.

Lemma acq_ok_machine F s :
  acq_ok (abs_heap F s) ->
  exists rv h2, rget s HEAP = Some rv /\ is_blk rv /\ rget s FREE = Some h2 /\
    (hword s rv = 0 -> is_blk h2) /\
    (hword s rv = 0 -> hword s h2 <> 0 ->
       (forall off, off = 16 \/ off = 32 \/ off = 48 -> hword s (h2 + off) = 0 \/ is_blk (hword s (h2 + off))) /\
       bounded 3 s (hword s h2)).
Proof.
  intros (A1 & A2 & A3 & A4). cbn [abs_heap Heap.heap Heap.free Heap.m] in *.
  unfold reg_or0 in *.
  destruct (rget s HEAP) as [rv|] eqn:RH; [|apply is_blk_pos in A1; lia].
  destruct (rget s FREE) as [h2|] eqn:RF; [|contradiction].
  exists rv, h2. split; [reflexivity|]. split; [exact A1|]. split; [reflexivity|]. split; [exact A3|].
  intros H0 Hn0. destruct (A4 H0 Hn0) as (K & B1 & B2). cbn [abs_mem Heap.ps Heap.hdr] in *. split; [|split; [exact B1|exact B2]].
  inversion K as [|? ? K1 K']; subst. inversion K' as [|? ? K2 K'']; subst. inversion K'' as [|? ? K3 _]; subst.
  intros off [->|[->| ->]]; assumption.
Qed.

(* allocation from two states that agree on the blocks except for the pointer slots of the block
   about to be filled *)
Lemma alloc_congr_ps a b P :
  Heap.heap a = Heap.heap b -> Heap.free a = Heap.free b -> Heap.frontier a = Heap.frontier b ->
  (forall x, is_blk x -> Heap.hdr (Heap.m a x) = Heap.hdr (Heap.m b x)) ->
  (forall x, is_blk x -> x <> Heap.heap a -> Heap.m a x = Heap.m b x) ->
  acq_ok a ->
  fst (Heap.alloc P a) = fst (Heap.alloc P b) /\ st_eqB (snd (Heap.alloc P a)) (snd (Heap.alloc P b)).
Proof.
  intros E1 E2 E3 Eh Em (A1 & A2 & A3 & A4). unfold Heap.alloc.
  set (A := {| Heap.m := Heap.set_ps (Heap.m a) (Heap.heap a) P; Heap.heap := Heap.heap a; Heap.free := Heap.free a; Heap.frontier := Heap.frontier a |}).
  set (B := {| Heap.m := Heap.set_ps (Heap.m b) (Heap.heap b) P; Heap.heap := Heap.heap b; Heap.free := Heap.free b; Heap.frontier := Heap.frontier b |}).
  assert (EAB : st_eqB A B).
  { split; [exact E1|]. split; [exact E2|]. split; [exact E3|]. intros x Hx. unfold A, B. cbn [Heap.m]. rewrite <- E1.
    unfold Heap.set_ps, Heap.upd. destruct (Z.eqb_spec x (Heap.heap a)) as [->|Hne]; [now rewrite Eh|now apply Em]. }
  assert (HA : Heap.hdr (Heap.m A (Heap.heap A)) = Heap.hdr (Heap.m a (Heap.heap a))).
  { unfold A. cbn [Heap.m Heap.heap]. unfold Heap.set_ps. now rewrite Heap.upd_same. }
  apply (acquire_st_eqB A B EAB).
  - exact A1.
  - rewrite HA. exact A3.
  - rewrite HA. intros H0. specialize (A3 H0). unfold A. cbn [Heap.m Heap.free Heap.heap].
    unfold Heap.set_ps, Heap.upd. destruct (Z.eqb_spec (Heap.free a) (Heap.heap a)) as [e|Hne].
    + cbn [Heap.hdr]. rewrite <- e at 1. rewrite e, H0. intros X; contradiction.
    + intros Hn0. now destruct (A4 H0 Hn0).
Qed.
Lemma alloc_congr a b P :
  st_eqB a b -> acq_ok a ->
  fst (Heap.alloc P a) = fst (Heap.alloc P b) /\ st_eqB (snd (Heap.alloc P a)) (snd (Heap.alloc P b)).
Proof.
  intros (E1 & E2 & E3 & E4) A. apply alloc_congr_ps; auto.
  - intros x Hx. now rewrite E4.
Qed.
Lemma alloc_fst P a : fst (Heap.alloc P a) = Heap.heap a.
Proof.
  unfold Heap.alloc, Heap.acquire. cbn [Heap.heap Heap.m Heap.free].
  destruct (negb _); [reflexivity|]. destruct (_ =? 0); reflexivity.
Qed.

(* ---------- acq_ok along the chain ---------- *)
Fixpoint chain_pre (fuel : nat) (rest : list Z) (link : Z) (a : Heap.st) : Prop :=
  match fuel with
  | O => True
  | S f =>
      match rest with
      | [] => True
      | _ => acq_ok a /\
             chain_pre f (Heap.butlastn 2 rest) (fst (Heap.alloc (Heap.pad 2 (Heap.lastn 2 rest) ++ [link]) a))
                       (snd (Heap.alloc (Heap.pad 2 (Heap.lastn 2 rest) ++ [link]) a))
      end
  end.
Definition alloc_object_pre (fields : list Z) (a : Heap.st) : Prop :=
  match fields with
  | [] => True
  | _ => acq_ok a /\
         chain_pre (List.length fields) (Heap.butlastn 3 fields) (fst (Heap.alloc (Heap.pad 3 (Heap.lastn 3 fields)) a))
                   (snd (Heap.alloc (Heap.pad 3 (Heap.lastn 3 fields)) a))
  end.

Lemma store_other_step f rest link a :
  rest <> [] ->
  Heap.store_other (S f) rest link a =
  Heap.store_other f (Heap.butlastn 2 rest) (fst (Heap.alloc (Heap.pad 2 (Heap.lastn 2 rest) ++ [link]) a))
                   (snd (Heap.alloc (Heap.pad 2 (Heap.lastn 2 rest) ++ [link]) a)).
Proof.
  intros H. cbn [Heap.store_other]. destruct rest; [contradiction|].
  destruct (Heap.alloc _ a) as [b a1]. reflexivity.
Qed.

Lemma store_other_congr : forall f rest link a b,
  st_eqB a b -> chain_pre f rest link a ->
  chain_pre f rest link b /\
  fst (Heap.store_other f rest link a) = fst (Heap.store_other f rest link b) /\
  st_eqB (snd (Heap.store_other f rest link a)) (snd (Heap.store_other f rest link b)).
Proof.
  induction f as [|f IH]; intros rest link a b E Pre.
  - cbn. auto.
  - destruct rest as [|x r]; [cbn; auto|].
    rewrite !store_other_step by discriminate. cbn [chain_pre] in *. destruct Pre as [A Pre].
    destruct (alloc_congr a b (Heap.pad 2 (Heap.lastn 2 (x :: r)) ++ [link]) E A) as [Ef Es].
    destruct (IH _ _ _ _ Es Pre) as (P' & F' & S'). rewrite <- Ef.
    split; [split; [eapply acq_ok_eqB; eauto|exact P']|]. split; [exact F'|exact S'].
Qed.

(* ---------- slots of sub-contexts ---------- *)
Lemma fsts_skipn val : forall k l E, (k <= List.length l)%nat -> fsts val (E + k) (skipn k l) = skipn k (fsts val E l).
Proof.
  induction k as [|k IH]; intros l E Hk; cbn [skipn]; [now rewrite Nat.add_0_r|].
  destruct l as [|b l]; [cbn in Hk; lia|]. cbn [fsts skipn List.length] in *.
  replace (E + S k)%nat with (S E + k)%nat by lia. apply IH. lia.
Qed.
Lemma fsts_firstn val : forall k l E, fsts val E (firstn k l) = firstn k (fsts val E l).
Proof.
  induction k as [|k IH]; intros l E; cbn [firstn]; [reflexivity|].
  destruct l as [|b l]; [reflexivity|]. cbn [fsts firstn]. now rewrite IH.
Qed.

(* the number of variables left for further blocks, as computed by store_fields *)
Definition rest_len (n : nat) (cap : N) : nat :=
  N.to_nat (if N.leb (N.of_nat n) cap then 0%N else (N.of_nat n - cap)%N).
Lemma rest_len_val n cap : rest_len n cap = (n - N.to_nat cap)%nat.
Proof. unfold rest_len. destruct (N.leb_spec (N.of_nat n) cap); lia. Qed.

Section Chain.
Variable im : image.

(* ---------- one round of store_fields ---------- *)
Definition link_code (bp : block_position) (remaining to_store : ctx) : res (list xcode) :=
  match bp with Other => store_field Fst (remaining ++ to_store) HEAP (FIELDS_PER_BLOCK - 1) | Last => Ok [] end.

Lemma store_fields_unfold fuel to_store remaining bp lc cs lc' :
  to_store <> [] -> store_fields (S fuel) to_store remaining bp lc = Ok (cs, lc') ->
  let rl := rest_len (List.length to_store) (3 - bp_n bp) in
  let k := (2 * N.of_nat (List.length (remaining ++ firstn rl to_store)))%N in
  exists c0 sv c3,
    link_code bp remaining to_store = Ok c0 /\
    store_values (rev (skipn rl to_store)) (remaining ++ firstn rl to_store) HEAP (3 - bp_n bp) = Ok sv /\
    (k < MAXPOS)%N /\
    store_fields fuel (firstn rl to_store) remaining Other (snd (acquire_block (tpos k) lc)) = Ok (c3, lc') /\
    cs = c0 ++ sv ++ fst (acquire_block (tpos k) lc) ++ c3.
Proof.
  intros Hne H rl k. cbn [store_fields] in H. destruct to_store as [|x r]; [contradiction|].
  change (FIELDS_PER_BLOCK - bp_n bp)%N with (3 - bp_n bp)%N in H.
  fold (rest_len (List.length (x :: r)) (3 - bp_n bp)) in H. fold rl in H.
  fold (link_code bp remaining (x :: r)) in H.
  destruct (link_code bp remaining (x :: r)) as [c0|] eqn:E0; [|discriminate]. cbn [rbind] in H.
  destruct (store_values (rev (skipn rl (x :: r))) (remaining ++ firstn rl (x :: r)) HEAP (3 - bp_n bp)) as [sv|] eqn:Esv; [|discriminate].
  cbn [rbind] in H.
  destruct (x_fresh Fst (remaining ++ firstn rl (x :: r))) as [t|] eqn:Et; [|discriminate]. cbn [rbind] in H.
  apply x_fresh_tpos in Et as [-> Hk]. cbn [tnum_n] in *. rewrite N.add_0_r in *. fold k in H, Hk.
  destruct (acquire_block (tpos k) lc) as [c2 lc2] eqn:EA.
  destruct (store_fields fuel (firstn rl (x :: r)) remaining Other lc2) as [[c3 lc3]|] eqn:E3; [|discriminate]. cbn [rbind] in H.
  inversion H; subst. exists c0, sv, c3. cbn [fst snd]. auto.
Qed.

Lemma x86_store_block_ok pos bp to_store remaining lc c0 sv s sp F val link :
  let E := List.length remaining in
  let n := List.length to_store in
  let cap := (3 - bp_n bp)%N in
  let rl := rest_len n cap in
  let k := (2 * N.of_nat (E + rl))%N in
  let acq := fst (acquire_block (tpos k) lc) in
  to_store <> [] ->
  link_code bp remaining to_store = Ok c0 ->
  store_values (rev (skipn rl to_store)) (remaining ++ firstn rl to_store) HEAP cap = Ok sv ->
  (k < MAXPOS)%N ->
  code_at im pos (c0 ++ sv ++ acq) -> labels_at im pos (c0 ++ sv ++ acq) ->
  frame_ok s sp -> vals_ok s sp val E to_store ->
  (bp = Other -> lget s sp (tpos (2 * N.of_nat (E + n))) = Some link) ->
  acq_ok (abs_heap F s) ->
  let P := Heap.pad (N.to_nat cap) (Heap.lastn (N.to_nat cap) (fsts val E to_store)) ++ (match bp with Other => [link] | Last => [] end) in
  let res := Heap.alloc P (abs_heap F s) in
  exists s', steps im pos s (pnth pos (List.length (c0 ++ sv ++ acq))) s' /\
    st_eqB (abs_heap (Heap.frontier (snd res)) s') (snd res) /\
    lget s' sp (tpos k) = Some (fst res) /\ is_blk (fst res) /\
    (forall k', (k' < MAXPOS)%N -> k' <> k -> lget s' sp (tpos k') = lget s sp (tpos k')) /\
    out s' = out s /\ frame_ok s' sp.
Proof.
  intros E n cap rl k acq Hne Hc0 Hsv Hk HC HL FR V Hlink AOK P res.
  destruct (acq_ok_machine F s AOK) as (rv & h2 & R & Hb & Rf & Hb2 & Hch).
  assert (Hcap : (cap = 3 \/ cap = 2)%N) by (unfold cap; destruct bp; cbn; auto).
  assert (Hrl : rl = (n - N.to_nat cap)%nat) by apply rest_len_val.
  assert (Hrln : (rl <= n)%nat) by lia.
  assert (Lfirst : List.length (firstn rl to_store) = rl) by (rewrite firstn_length; fold n; lia).
  assert (Lnext : List.length (skipn rl to_store) = (n - rl)%nat) by (rewrite skipn_length; reflexivity).
  assert (Lrr : List.length (remaining ++ firstn rl to_store) = (E + rl)%nat) by (rewrite app_length, Lfirst; reflexivity).
  apply code_at_app2 in HC as [HC0 HC]. apply labels_at_app2 in HL as [_ HL].
  apply code_at_app2 in HC as [HC1 HC2]. apply labels_at_app2 in HL as [_ HL2].
  (* the link *)
  assert (S0 : exists s0, steps im pos s (pnth pos (List.length c0)) s0 /\ same_but_temp s s0 /\
            (forall a, hword s0 a = if (match bp with Other => true | Last => false end) && (a =? rv + 48) then link else hword s a)).
  { destruct bp; cbn [link_code] in Hc0.
    - inversion Hc0; subst c0. exists s. split; [apply steps_refl|]. split; [apply same_but_temp_refl|]. reflexivity.
    - change (FIELDS_PER_BLOCK - 1)%N with 2%N in Hc0. apply store_field_shape in Hc0 as [K0 ->].
      rewrite app_length in *. cbn [tnum_n] in *. rewrite N.add_0_r in *. fold E n in K0, HC0 |- *.
      destruct (x86_store_field_code_ok im pos _ HEAP _ s sp link rv HC0 FR (tpos_loc_ok _ K0) (Hlink eq_refl) ltac:(discriminate) R)
        as (s0 & ST0 & SB0 & W0).
      { apply field_addr; auto. lia. }
      exists s0. split; [exact ST0|]. split; [exact SB0|]. intros a. rewrite W0. rewrite fo_F2. reflexivity. }
  destruct S0 as (s0 & ST0 & SB0 & W0).
  assert (FR0 : frame_ok s0 sp) by (eapply same_but_temp_frame; eauto).
  assert (R0 : rget s0 HEAP = Some rv) by (destruct SB0 as (A & _); rewrite A by discriminate; exact R).
  assert (W0' : forall a, a <> rv + 48 -> hword s0 a = hword s a).
  { intros a Ha. rewrite W0. destruct (Z.eqb_spec a (rv + 48)); [contradiction|]. now rewrite andb_false_r. }
  (* the values *)
  assert (V0 : vals_ok s0 sp val (E + rl) (skipn rl to_store)).
  { eapply vals_ok_same; [exact SB0|]. rewrite <- Lfirst at 1. apply (vals_ok_app_r s sp val E (firstn rl to_store)).
    now rewrite firstn_skipn. }
  rewrite <- Lrr in V0.
  destruct (x86_store_values_ok im _ (skipn rl to_store) (remaining ++ firstn rl to_store) cap sv s0 sp rv F val Hsv Hcap
              ltac:(rewrite Lnext; lia) HC1 FR0 R0 Hb V0) as (s1 & ST1 & SB1 & St & EQ1).
  rewrite Lrr in St, EQ1.
  assert (Hff : (cap <= 3)%N) by (destruct Hcap as [-> | ->]; lia).
  assert (SB01 : same_but_temp s s1) by (eapply same_but_temp_trans; eassumption).
  assert (FR1 : frame_ok s1 sp) by (eapply same_but_temp_frame; eauto).
  assert (R1 : rget s1 HEAP = Some rv) by (destruct SB01 as (A & _); rewrite A by discriminate; exact R).
  assert (Rf1 : rget s1 FREE = Some h2) by (destruct SB01 as (A & _); rewrite A by discriminate; exact Rf).
  assert (Hdr : forall x, is_blk x -> hword s1 x = hword s x).
  { intros x Hx. rewrite (stored_blk_hdr _ _ _ _ _ _ _ x St Hff Hb Hx). apply W0'.
    destruct (Z.eq_dec x rv) as [->|Hne']; [lia|]. destruct (is_blk_apart x rv Hx Hb Hne'); lia. }
  assert (Hoth : forall x i, is_blk x -> x <> rv -> 0 <= i < 64 -> hword s1 (x + i) = hword s (x + i)).
  { intros x i Hx Hne' Hi. rewrite (stored_other_blk _ _ _ _ _ _ _ x i St Hff Hb Hx Hne' Hi). apply W0'.
    destruct (is_blk_apart x rv Hx Hb Hne'); lia. }
  assert (Hb21 : hword s1 rv = 0 -> is_blk h2) by (rewrite Hdr by auto; exact Hb2).
  assert (Hch1 : hword s1 rv = 0 -> hword s1 h2 <> 0 ->
     (forall off, off = 16 \/ off = 32 \/ off = 48 -> hword s1 (h2 + off) = 0 \/ is_blk (hword s1 (h2 + off))) /\
     bounded 3 s1 (hword s1 h2)).
  { intros H0 Hn0. pose proof (Hb21 H0) as Hbh2.
    assert (Hne' : h2 <> rv) by (intros ->; contradiction).
    rewrite Hdr in H0, Hn0 by auto. destruct (Hch H0 Hn0) as [Kids [B1 B2]]. split.
    - intros off Hoff. rewrite Hoth by (auto; lia). now apply Kids.
    - rewrite Hdr by auto. split; [|exact B2]. intros x Hx. rewrite Hdr by auto. now apply B1. }
  fold k in HC2, HL2.
  destruct (x86_acquire_block_tpos_ok im _ k lc s1 sp rv h2 F Hk HC2 HL2 FR1 R1 Hb Rf1 Hb21 Hch1)
    as (s2 & ST2 & EQ2 & Rr & Ef & Oth & Out & FR2 & NB).
  (* the abstract side *)
  assert (RH : reg_or0 s HEAP = rv) by (unfold reg_or0; now rewrite R).
  assert (RF : reg_or0 s FREE = h2) by (unfold reg_or0; now rewrite Rf).
  assert (RH0 : reg_or0 s0 HEAP = rv) by (unfold reg_or0; now rewrite R0).
  assert (RF0 : reg_or0 s0 FREE = h2) by (unfold reg_or0; destruct SB0 as (A & _); rewrite A by discriminate; now rewrite Rf).
  assert (EP : Heap.pad (N.to_nat cap) (fsts val (E + rl) (skipn rl to_store)) ++ link_slot cap (hword s0) rv = P).
  { unfold P. f_equal.
    - f_equal. rewrite fsts_skipn by (fold n; lia). unfold Heap.lastn. rewrite fsts_length. fold n. now rewrite Hrl.
    - unfold link_slot, cap. destruct bp; cbn [bp_n N.sub N.eqb Pos.eqb]; [reflexivity|].
      rewrite W0, Z.eqb_refl. reflexivity. }
  rewrite EP, RH0, RF0 in EQ1.
  set (A := {| Heap.m := Heap.set_ps (abs_mem s) rv P; Heap.heap := rv; Heap.free := h2; Heap.frontier := F |}).
  assert (Eres : res = Heap.acquire A).
  { unfold res, Heap.alloc, A. cbn [abs_heap Heap.m Heap.heap Heap.free Heap.frontier]. now rewrite RH, RF. }
  assert (EQ1' : st_eqB (abs_heap F s1) A).
  { eapply st_eqB_trans; [exact EQ1|]. split; [reflexivity|]. split; [reflexivity|]. split; [reflexivity|].
    intros x Hx. unfold A. cbn [Heap.m]. unfold Heap.set_ps, Heap.upd.
    destruct (Z.eqb_spec x rv) as [->|Hne'].
    - unfold abs_mem. cbn [Heap.hdr]. rewrite W0' by lia. reflexivity.
    - unfold abs_mem. destruct (is_blk_apart x rv Hx Hb Hne'); rewrite !W0' by lia; reflexivity. }
  destruct (acquire_st_eqB (abs_heap F s1) A EQ1') as [Efst Esnd].
  { cbn [abs_heap Heap.heap]. unfold reg_or0. now rewrite R1. }
  { cbn [abs_heap Heap.heap Heap.free Heap.m]. unfold reg_or0. rewrite R1, Rf1. exact Hb21. }
  { cbn [abs_heap Heap.heap Heap.free Heap.m]. unfold reg_or0. rewrite R1, Rf1. intros H0 Hn0.
    destruct (Hch1 H0 Hn0) as [Kids _]. cbn [abs_mem Heap.ps]. repeat (apply Forall_cons; [apply Kids; auto|]). apply Forall_nil. }
  assert (EFr : Heap.frontier (snd (Heap.acquire (abs_heap F s1))) = Heap.frontier (snd (Heap.acquire A)))
    by (destruct Esnd as (_ & _ & X & _); exact X).
  clearbody res. subst res.
  exists s2. split; [|split; [|split; [|split; [|split; [|split]]]]].
  - rewrite !app_length, <- !pnth_add. eapply steps_trans; [exact ST0|]. eapply steps_trans; [exact ST1|]. exact ST2.
  - rewrite <- EFr. eapply st_eqB_trans; eassumption.
  - rewrite <- Efst, Ef. exact Rr.
  - rewrite <- Efst, Ef. exact Hb.
  - intros k' Hk' Hne'. rewrite Oth.
    + apply same_but_temp_lget; [exact SB01|apply tpos_not_temp].
    + now apply tpos_loc_ok.
    + intro Eq. apply tpos_inj in Eq. contradiction.
    + apply tpos_not_reserved.
    + apply tpos_not_reserved.
    + apply tpos_not_reserved.
  - rewrite Out. destruct SB01 as (_ & _ & X). exact X.
  - exact FR2.
Qed.

(* ---------- the continuation blocks (BlockPosition::Other) ---------- *)
Lemma x86_store_fields_other_ok : forall fuel to_store remaining lc cs lc' pos s sp F val link fa,
  store_fields fuel to_store remaining Other lc = Ok (cs, lc') ->
  (List.length to_store < fuel)%nat -> (List.length to_store <= fa)%nat ->
  code_at im pos cs -> labels_at im pos cs -> frame_ok s sp ->
  vals_ok s sp val (List.length remaining) to_store ->
  lget s sp (tpos (2 * N.of_nat (List.length remaining + List.length to_store))) = Some link ->
  chain_pre fa (fsts val (List.length remaining) to_store) link (abs_heap F s) ->
  let res := Heap.store_other fa (fsts val (List.length remaining) to_store) link (abs_heap F s) in
  exists s', steps im pos s (pnth pos (List.length cs)) s' /\
    st_eqB (abs_heap (Heap.frontier (snd res)) s') (snd res) /\
    lget s' sp (tpos (2 * N.of_nat (List.length remaining))) = Some (fst res) /\
    (forall k, (k < 2 * N.of_nat (List.length remaining))%N -> lget s' sp (tpos k) = lget s sp (tpos k)) /\
    out s' = out s /\ frame_ok s' sp.
Proof.
  induction fuel as [|fuel IH]; intros to_store remaining lc cs lc' pos s sp F val link fa Hsf Hfuel Hfa HC HL FR V Hlink Pre res; [lia|].
  set (E := List.length remaining) in *.
  destruct to_store as [|x r].
  - cbn [store_fields] in Hsf. inversion Hsf; subst cs lc'. cbn [List.length] in Hlink. rewrite Nat.add_0_r in Hlink.
    assert (Hres : res = (link, abs_heap F s)) by (unfold res; destruct fa; reflexivity).
    rewrite Hres. cbn [fst snd abs_heap Heap.frontier List.length pnth].
    exists s. split; [apply steps_refl|]. split; [apply st_eqB_refl|]. auto.
  - set (to_store := x :: r) in *. set (n := List.length to_store) in *.
    destruct (store_fields_unfold fuel to_store remaining Other lc cs lc' ltac:(discriminate) Hsf) as (c0 & sv & c3 & Hc0 & Hsv & Hk & Hsf3 & ->).
    change (3 - bp_n Other)%N with 2%N in *. fold n in Hk, Hsv, Hsf3, HC, HL |- *.
    set (rl := rest_len n 2) in *.
    assert (Hrl : rl = (n - 2)%nat) by apply rest_len_val.
    assert (Lfirst : List.length (firstn rl to_store) = rl) by (rewrite firstn_length; fold n; lia).
    assert (Lrr : List.length (remaining ++ firstn rl to_store) = (E + rl)%nat) by (rewrite app_length, Lfirst; reflexivity).
    rewrite Lrr in *.
    destruct fa as [|fa]; [unfold n, to_store in Hfa; cbn [List.length] in Hfa; lia|].
    set (fields := fsts val E to_store) in *.
    assert (Hfne : fields <> []) by (unfold fields, to_store; cbn [fsts]; discriminate).
    assert (Lfields : List.length fields = n) by apply fsts_length.
    set (P := Heap.pad 2 (Heap.lastn 2 fields) ++ [link]) in *.
    assert (Pre' : acq_ok (abs_heap F s) /\ chain_pre fa (Heap.butlastn 2 fields) (fst (Heap.alloc P (abs_heap F s))) (snd (Heap.alloc P (abs_heap F s)))).
    { cbn [chain_pre] in Pre. destruct fields; [contradiction|]. exact Pre. }
    destruct Pre' as [AOK Pre'].
    assert (Hres : res = Heap.store_other fa (Heap.butlastn 2 fields) (fst (Heap.alloc P (abs_heap F s))) (snd (Heap.alloc P (abs_heap F s))))
      by (unfold res; now rewrite store_other_step).
    rewrite Hres. clear Hres res.
    rewrite !app_assoc in HC, HL. apply code_at_app2 in HC as [HC1 HC3]. apply labels_at_app2 in HL as [HL1 HL3].
    rewrite <- !app_assoc in HC1, HL1. rewrite <- (app_assoc c0 sv) in HC3, HL3.
    destruct (x86_store_block_ok pos Other to_store remaining lc c0 sv s sp F val link ltac:(discriminate) Hc0 Hsv Hk HC1 HL1 FR V (fun _ => Hlink) AOK)
      as (s2 & ST2 & EQ2 & Rr & Bb & Oth & Out & FR2).
    change (N.to_nat (3 - bp_n Other)) with 2%nat in *. change (3 - bp_n Other)%N with 2%N in *. fold E n rl fields P in ST2, EQ2, Rr, Bb, Oth.
    set (b := fst (Heap.alloc P (abs_heap F s))) in *. set (a1 := snd (Heap.alloc P (abs_heap F s))) in *.
    assert (Hbut : Heap.butlastn 2 fields = fsts val E (firstn rl to_store)).
    { unfold Heap.butlastn. rewrite Lfields, fsts_firstn, Hrl. reflexivity. }
    rewrite Hbut in *.
    assert (V2 : vals_ok s2 sp val E (firstn rl to_store)).
    { intros i bb Hi. assert (Hi' : (i < rl)%nat) by (rewrite <- Lfirst; apply nth_error_Some; congruence).
      assert (Hin : nth_error to_store i = Some bb).
      { rewrite <- (firstn_skipn rl to_store). rewrite nth_error_app1 by (rewrite Lfirst; exact Hi'). exact Hi. }
      assert (Kmax : (2 * N.of_nat (E + i) + 1 < MAXPOS)%N) by lia.
      destruct (V i bb Hin) as [A B]. split.
      - rewrite Oth by lia. exact A.
      - intros Hx. rewrite Oth by lia. auto. }
    destruct (store_other_congr fa _ b a1 (abs_heap (Heap.frontier a1) s2) (st_eqB_sym _ _ EQ2) Pre') as (Pre2 & Ef & Es).
    rewrite (app_assoc sv), (app_assoc c0).
    destruct (IH (firstn rl to_store) remaining _ c3 lc' _ s2 sp (Heap.frontier a1) val b fa Hsf3 ltac:(rewrite Lfirst; unfold n, to_store in *; cbn [List.length] in *; lia)
                ltac:(rewrite Lfirst; unfold n, to_store in *; cbn [List.length] in *; lia) HC3 HL3 FR2 V2)
      as (s3 & ST3 & EQ3 & R3 & Oth3 & Out3 & FR3).
    { rewrite Lfirst. exact Rr. }
    { exact Pre2. }
    fold E in EQ3, R3, Oth3.
    exists s3. split; [|split; [|split; [|split; [|split]]]].
    + eapply steps_app_len; eassumption.
    + destruct Es as (X1 & X2 & X3 & X4). rewrite X3.
      eapply st_eqB_trans; [exact EQ3|]. apply st_eqB_sym. split; [exact X1|]. split; [exact X2|]. split; [exact X3|exact X4].
    + rewrite Ef. exact R3.
    + intros k Hk'. rewrite Oth3 by exact Hk'. apply Oth; lia.
    + congruence.
    + exact FR3.
Qed.

(* ---------- 4a. x_store of any number of variables = Heap.alloc_object ---------- *)
Theorem x86_store_ok pos to_store remaining lc cs lc' s sp F val :
  x_store to_store remaining lc = Ok (cs, lc') -> to_store <> [] ->
  code_at im pos cs -> labels_at im pos cs -> frame_ok s sp ->
  vals_ok s sp val (List.length remaining) to_store ->
  alloc_object_pre (fsts val (List.length remaining) to_store) (abs_heap F s) ->
  let res := Heap.alloc_object (fsts val (List.length remaining) to_store) (abs_heap F s) in
  exists s', steps im pos s (pnth pos (List.length cs)) s' /\
    st_eqB (abs_heap (Heap.frontier (snd res)) s') (snd res) /\
    lget s' sp (tpos (2 * N.of_nat (List.length remaining))) = Some (fst res) /\
    (forall k, (k < 2 * N.of_nat (List.length remaining))%N -> lget s' sp (tpos k) = lget s sp (tpos k)) /\
    out s' = out s /\ frame_ok s' sp.
Proof.
  intros Hx Hne HC HL FR V Pre res. unfold x_store in Hx.
  set (E := List.length remaining) in *. set (n := List.length to_store) in *.
  destruct (store_fields_unfold n to_store remaining Last lc cs lc' Hne Hx) as (c0 & sv & c3 & Hc0 & Hsv & Hk & Hsf3 & ->).
  change (3 - bp_n Last)%N with 3%N in *. fold n in Hk, Hsv, Hsf3, HC, HL |- *.
  set (rl := rest_len n 3) in *.
  assert (Hrl : rl = (n - 3)%nat) by apply rest_len_val.
  assert (Lfirst : List.length (firstn rl to_store) = rl) by (rewrite firstn_length; fold n; lia).
  assert (Hn : (1 <= n)%nat) by (unfold n; destruct to_store; [contradiction|cbn; lia]).
  assert (Lrr : List.length (remaining ++ firstn rl to_store) = (E + rl)%nat) by (rewrite app_length, Lfirst; reflexivity).
  rewrite Lrr in *.
  set (fields := fsts val E to_store) in *.
  assert (Lfields : List.length fields = n) by apply fsts_length.
  assert (Hfne : fields <> []) by (intros Hf; rewrite Hf in Lfields; cbn in Lfields; lia).
  set (P := Heap.pad 3 (Heap.lastn 3 fields)) in *.
  assert (Pre' : acq_ok (abs_heap F s) /\ chain_pre n (Heap.butlastn 3 fields) (fst (Heap.alloc P (abs_heap F s))) (snd (Heap.alloc P (abs_heap F s)))).
  { unfold alloc_object_pre in Pre. rewrite Lfields in Pre. destruct fields; [contradiction|]. exact Pre. }
  destruct Pre' as [AOK Pre'].
  assert (Hres : res = Heap.store_other n (Heap.butlastn 3 fields) (fst (Heap.alloc P (abs_heap F s))) (snd (Heap.alloc P (abs_heap F s)))).
  { unfold res, Heap.alloc_object. rewrite Lfields. fold P. destruct fields; [contradiction|]. destruct (Heap.alloc P (abs_heap F s)). reflexivity. }
  rewrite Hres. clear Hres res.
  rewrite !app_assoc in HC, HL. apply code_at_app2 in HC as [HC1 HC3]. apply labels_at_app2 in HL as [HL1 HL3].
  rewrite <- !app_assoc in HC1, HL1. rewrite <- (app_assoc c0 sv) in HC3, HL3.
  destruct (x86_store_block_ok pos Last to_store remaining lc c0 sv s sp F val 0 Hne Hc0 Hsv Hk HC1 HL1 FR V ltac:(discriminate) AOK)
    as (s2 & ST2 & EQ2 & Rr & Bb & Oth & Out & FR2).
  change (N.to_nat (3 - bp_n Last)) with 3%nat in *. change (3 - bp_n Last)%N with 3%N in *. rewrite app_nil_r in *. fold E n rl fields P in ST2, EQ2, Rr, Bb, Oth.
  set (b := fst (Heap.alloc P (abs_heap F s))) in *. set (a1 := snd (Heap.alloc P (abs_heap F s))) in *.
  assert (Hbut : Heap.butlastn 3 fields = fsts val E (firstn rl to_store)).
  { unfold Heap.butlastn. rewrite Lfields, fsts_firstn, Hrl. reflexivity. }
  rewrite Hbut in *.
  assert (V2 : vals_ok s2 sp val E (firstn rl to_store)).
  { intros i bb Hi. assert (Hi' : (i < rl)%nat) by (rewrite <- Lfirst; apply nth_error_Some; congruence).
    assert (Hin : nth_error to_store i = Some bb).
    { rewrite <- (firstn_skipn rl to_store). rewrite nth_error_app1 by (rewrite Lfirst; exact Hi'). exact Hi. }
    assert (Kmax : (2 * N.of_nat (E + i) + 1 < MAXPOS)%N) by lia.
    destruct (V i bb Hin) as [A B]. split.
    - rewrite Oth by lia. exact A.
    - intros Hx'. rewrite Oth by lia. auto. }
  destruct (store_other_congr n _ b a1 (abs_heap (Heap.frontier a1) s2) (st_eqB_sym _ _ EQ2) Pre') as (Pre2 & Ef & Es).
  rewrite (app_assoc sv), (app_assoc c0).
  destruct (x86_store_fields_other_ok n (firstn rl to_store) remaining _ c3 lc' _ s2 sp (Heap.frontier a1) val b n Hsf3
              ltac:(rewrite Lfirst; lia) ltac:(rewrite Lfirst; lia) HC3 HL3 FR2 V2)
    as (s3 & ST3 & EQ3 & R3 & Oth3 & Out3 & FR3).
  { rewrite Lfirst. exact Rr. }
  { exact Pre2. }
  fold E in EQ3, R3, Oth3.
  exists s3. split; [|split; [|split; [|split; [|split]]]].
  + eapply steps_app_len; eassumption.
  + destruct Es as (X1 & X2 & X3 & X4). rewrite X3.
    eapply st_eqB_trans; [exact EQ3|]. apply st_eqB_sym. split; [exact X1|]. split; [exact X2|]. split; [exact X3|exact X4].
  + rewrite Ef. exact R3.
  + intros k Hk'. rewrite Oth3 by exact Hk'. apply Oth; lia.
  + congruence.
  + exact FR3.
Qed.
End Chain.

Print Assumptions x86_store_ok.

(* ---------- the hypotheses are satisfiable: five variables (two blocks) into a fresh heap ---------- *)
Definition ex5_val (k : N) : Z := 100 + Z.of_N k.
Definition ex5_state : xstate :=
  fold_left (fun s k => rset s (k + 4)%N (Some (ex5_val k)))
            [0; 1; 2; 3; 4; 5; 6; 7; 8; 9]%N
            (rset (rset (rset (init_state []) 0 (Some ex_sp)) HEAP (Some HEAP_BASE)) FREE (Some (HEAP_BASE + 64))).
Definition ex5_store : ctx :=
  [mkb ("a"%string, 0%N) Ext I64; mkb ("b"%string, 1%N) Prd (Decl ("T"%string, 0%N)); mkb ("c"%string, 2%N) Ext I64;
   mkb ("d"%string, 3%N) Cns (Decl ("T"%string, 0%N)); mkb ("e"%string, 4%N) Ext I64].
Definition ex5_code : list xcode := match x_store ex5_store [] 0 with Ok (cs, _) => cs | Err _ => [] end.

Example x86_store_example :
  let a := abs_heap (HEAP_BASE + 64) ex5_state in
  let res := Heap.alloc_object (fsts ex5_val 0 ex5_store) a in
  exists lc', x_store ex5_store [] 0 = Ok (ex5_code, lc') /\
  fsts ex5_val 0 ex5_store = [0; 102; 0; 106; 0] /\
  fst res = HEAP_BASE + 64 /\ Heap.frontier (snd res) = HEAP_BASE + 192 /\
  exists s', steps (mk_image ex5_code) 1 ex5_state (pnth 1 (List.length ex5_code)) s' /\
     st_eqB (abs_heap (HEAP_BASE + 192) s') (snd res) /\ rget s' 4%N = Some (HEAP_BASE + 64).
Proof.
  intros a res.
  assert (Hx : exists lc', x_store ex5_store [] 0 = Ok (ex5_code, lc')) by (eexists; vm_compute; reflexivity).
  destruct Hx as [lc' Hx]. exists lc'. split; [exact Hx|]. split; [reflexivity|].
  assert (Ef : fst res = HEAP_BASE + 64) by (vm_compute; reflexivity).
  assert (EF : Heap.frontier (snd res) = HEAP_BASE + 192) by (vm_compute; reflexivity).
  split; [exact Ef|]. split; [exact EF|].
  destruct (mk_image_code_labels ex5_code) as [HC HL]; [apply nodupb_sound; vm_compute; reflexivity|].
  assert (Bk : forall k, 0 <= k <= 3 -> is_blk (HEAP_BASE + 64 * k)).
  { intros k Hk. exists k. split; [lia|]. split; [reflexivity|]. unfold HEAP_BASE, HEAP_SIZE. lia. }
  destruct (x86_store_ok (mk_image ex5_code) 1 ex5_store [] 0 ex5_code lc' ex5_state ex_sp (HEAP_BASE + 64) ex5_val Hx ltac:(discriminate) HC HL)
    as (s' & ST & EQ & Rr & _).
  - split; [vm_compute; reflexivity|]. repeat split; vm_compute; easy.
  - intros i b Hi. destruct i as [|[|[|[|[|i]]]]]; cbn in Hi; try (destruct i; discriminate); inversion Hi; subst b;
      (split; [vm_compute; reflexivity|intros _; vm_compute; reflexivity]).
  - change (fsts ex5_val (List.length (@nil binding)) ex5_store) with [0; 102; 0; 106; 0].
    unfold alloc_object_pre. split.
    + split; [exact (Bk 0 ltac:(lia))|]. split; [vm_compute; discriminate|]. split.
      * intros _. exact (Bk 1 ltac:(lia)).
      * intros _ H. exfalso. apply H. vm_compute. reflexivity.
    + cbn [List.length chain_pre]. unfold Heap.butlastn at 1. cbn [List.length Nat.sub firstn]. split.
      * split; [|split; [|split]].
        -- replace (Heap.heap _) with (HEAP_BASE + 64 * 1) by (vm_compute; reflexivity). apply Bk. lia.
        -- vm_compute. discriminate.
        -- intros _. replace (Heap.free _) with (HEAP_BASE + 64 * 2) by (vm_compute; reflexivity). apply Bk. lia.
        -- intros _ H. exfalso. apply H. vm_compute. reflexivity.
      * unfold Heap.butlastn. cbn [List.length Nat.sub firstn chain_pre]. exact I.
  - exists s'. change (st_eqB (abs_heap (Heap.frontier (snd res)) s') (snd res)) in EQ.
    change (lget s' ex_sp (tpos 0) = Some (fst res)) in Rr. rewrite EF in EQ. rewrite Ef in Rr. auto.
Qed.
Print Assumptions x86_store_example.
