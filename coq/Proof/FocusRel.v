(* C03, semantic preservation, part 2: the simulation relation between the Core machine running
   an (unfocused) program [ps] and the same machine running the embedding of its focused form.

   Values ([V]): integers and constructor/destructor values are related component-wise; a closure
   (cocase, case, mu~, by-name thunk) over source code [s] in environment [e] is related to the
   closure over [focus s] (any counter >= M0) in a related environment.  The two machine-internal
   values have no homomorphic image, because focusing turns the machine continuation they hold into
   code:
     KRet m    (the continuation waiting for the value of a by-value mu-argument)  ~  KMuT x sk e'
     PDelay m  (the by-name delayed rest of a statement)                           ~  PThunk a sk e'
   where [sk] is what the meta-level continuation [k] of `bind` returned for the fresh name, and
   [k] "is" the machine continuation [m] ([mk_rel]: frame by frame, [k] is one of the named
   closures of Proof/FocusKont.v).

   Environments ([env_rel]): the target environment is the source environment with the fresh
   bindings (id > M0) interleaved.  M0 bounds every identifier of the source program; every
   counter handed to focus/bind is >= M0.

   [mk_rel c m k e']: [k] may be called with any counter >= c, and the relation survives pushing
   bindings with id > c onto e'. *)
From Coq Require Import List ZArith NArith String Bool Lia.
From SCC Require Import Base.Sexp Lang.CoreSyn Sem.AxSem Sem.CoreSem Model.Backend Model.Uniquify Model.Focus
     Model.FocusCheck Proof.FocusKont.
Import ListNotations.
Open Scope list_scope.
Open Scope N_scope.

Definition bkind (v : bval) : cchi := match v with BP _ => CPrd | BK _ => CCns end.

Section Rel.
Variable ps : cprog.     (* the source program (for is_codata) *)
Variable M0 : N.         (* bound of the source identifiers *)

Inductive V : bval -> bval -> Prop :=
| V_int : forall z, V (BP (PInt z)) (BP (PInt z))
| V_ctor : forall tag args args', Vs args args' -> V (BP (PCtor tag args)) (BP (PCtor tag args'))
| V_cocase : forall cls e cls' e' mc m2,
    maprs focus_clause cls mc = Ok (cls', m2) -> M0 <= mc -> forallb (ids_le_clause M0) cls = true ->
    env_rel e e' -> V (BP (PCocase cls e)) (BP (PCocase (map fs2c_clause cls') e'))
| V_thunk : forall a s e s' e' mc m2,
    focus_stmt s mc = Ok (s', m2) -> M0 <= mc -> ids_le_stmt M0 s = true -> env_rel e e' ->
    V (BP (PThunk a s e)) (BP (PThunk a (fs2c_stmt s') e'))
| V_delay : forall m k b c mc sk m2 e',
    k b mc = Ok (sk, m2) -> cbchi b = CCns -> c < cid_id (cbvar b) <= mc -> M0 <= c -> mk_rel c m k e' ->
    V (BP (PDelay m)) (BP (PThunk (cbvar b) (fs2c_stmt sk) e'))
| V_mut : forall x s e s' e' mc m2,
    focus_stmt s mc = Ok (s', m2) -> M0 <= mc -> ids_le_stmt M0 s = true -> env_rel e e' ->
    V (BK (KMuT x s e)) (BK (KMuT x (fs2c_stmt s') e'))
| V_case : forall cls e cls' e' mc m2,
    maprs focus_clause cls mc = Ok (cls', m2) -> M0 <= mc -> forallb (ids_le_clause M0) cls = true ->
    env_rel e e' -> V (BK (KCase cls e)) (BK (KCase (map fs2c_clause cls') e'))
| V_dtor : forall tag args args', Vs args args' -> V (BK (KDtor tag args)) (BK (KDtor tag args'))
| V_ret : forall m k b c mc sk m2 e',
    k b mc = Ok (sk, m2) -> cbchi b = CPrd -> c < cid_id (cbvar b) <= mc -> M0 <= c -> mk_rel c m k e' ->
    V (BK (KRet m)) (BK (KMuT (cbvar b) (fs2c_stmt sk) e'))
with Vs : list bval -> list bval -> Prop :=
| Vs_nil : Vs [] []
| Vs_cons : forall v v' l l', V v v' -> Vs l l' -> Vs (v :: l) (v' :: l')
with env_rel : cenv -> cenv -> Prop :=
| ER_nil : env_rel [] []
| ER_both : forall x v v' e e', V v v' -> env_rel e e' -> env_rel ((x, v) :: e) ((x, v') :: e')
| ER_fresh : forall y w e e', M0 < cid_id y -> env_rel e e' -> env_rel e ((y, w) :: e')
with mk_rel : N -> mk -> kont -> cenv -> Prop :=
| MR_opL : forall c o t e m k e',
    env_rel e e' -> ids_le_term M0 t = true -> mk_rel c m k e' ->
    mk_rel c (MOpL o t e m) (opL_k t o k) e'
| MR_opR : forall c o x m k b1 e',
    clookup e' (cbvar b1) = Some (BP (PInt x)) -> cid_id (cbvar b1) <= c -> mk_rel c m k e' ->
    mk_rel c (MOpR o x m) (opR_k b1 o k) e'
| MR_cutopL : forall c o t e q e2 ty e',
    env_rel e e' -> env_rel e2 e' -> ids_le_term M0 t = true -> ids_le_term M0 q = true ->
    mk_rel c (MOpL o t e (MCutK q e2)) (cutopL_k t o ty q) e'
| MR_cutopR : forall c o x q e2 ty b1 e',
    clookup e' (cbvar b1) = Some (BP (PInt x)) -> cid_id (cbvar b1) <= c ->
    env_rel e2 e' -> ids_le_term M0 q = true ->
    mk_rel c (MOpR o x (MCutK q e2)) (cutopR_k b1 o ty q) e'
| MR_if1 : forall c so b t el e e',
    env_rel e e' -> match b with Some b0 => ids_le_term M0 b0 | None => true end = true ->
    ids_le_stmt M0 t = true -> ids_le_stmt M0 el = true ->
    mk_rel c (MIf1 so b t el e) (if1_k so b t el) e'
| MR_if2 : forall c so x t el e b1 e',
    clookup e' (cbvar b1) = Some (BP (PInt x)) -> cid_id (cbvar b1) <= c ->
    env_rel e e' -> ids_le_stmt M0 t = true -> ids_le_stmt M0 el = true ->
    mk_rel c (MIf2 so x t el e) (if2_k so b1 t el) e'
| MR_print : forall c nl next e e',
    env_rel e e' -> ids_le_stmt M0 next = true -> mk_rel c (MPrint nl next e) (print_k nl next) e'
| MR_exit : forall c e', mk_rel c MExit exit_k e'
| MR_args : forall c done rest e f kv e',
    env_rel e e' -> forallb (ids_le_arg M0) rest = true -> kv_rel c done f kv e' ->
    mk_rel c (MArgs done rest e f) (many_k rest kv) e'
with kv_rel : N -> list bval -> fin -> kontv -> cenv -> Prop :=
| KV_cons : forall c v v' done f b kv e',
    clookup e' (cbvar b) = Some v' -> V v v' -> bkind v = cbchi b -> cid_id (cbvar b) <= c ->
    kv_rel c done f kv e' -> kv_rel c (v :: done) f (cons_kv b kv) e'
| KV_xtorP : forall c tag m c' ty k e', mk_rel c m k e' -> kv_rel c [] (FinXtorP tag m) (xtorP_kv c' tag ty k) e'
| KV_xtorK : forall c tag m c' ty k e', mk_rel c m k e' -> kv_rel c [] (FinXtorK tag m) (xtorK_kv c' tag ty k) e'
| KV_cutP : forall c tag q e pc ty e',
    env_rel e e' -> ids_le_term M0 q = true ->
    kv_rel c [] (FinXtorP tag (MCutK q e)) (cutP_kv pc tag ty q) e'
| KV_cutK : forall c tag p e qc ty e',
    env_rel e e' -> ids_le_term M0 p = true ->
    kv_rel c [] (FinXtorK tag (MCutP (is_codata ps ty) p e)) (cutK_kv qc tag ty p) e'
| KV_call : forall c f e', kv_rel c [] (FinCall f) (call_kv f) e'.

Scheme mk_rel_mind := Minimality for mk_rel Sort Prop
  with kv_rel_mind := Minimality for kv_rel Sort Prop.

(* ---------- configurations ---------- *)
Inductive crel : config -> config -> Prop :=
| CR_run : forall s e s' e' mc m2,
    focus_stmt s mc = Ok (s', m2) -> M0 <= mc -> ids_le_stmt M0 s = true -> env_rel e e' ->
    crel (Run s e) (Run (fs2c_stmt s') e')
| CR_arg : forall a e m k c mc s' m2 e',
    bind_arg a k mc = Ok (s', m2) -> M0 <= c -> c <= mc -> ids_le_arg M0 a = true -> env_rel e e' ->
    mk_rel c m k e' -> crel (Arg a e m) (Run (fs2c_stmt s') e')
| CR_app : forall m v k b c mc sk m2 e' v',
    k b mc = Ok (sk, m2) -> M0 <= c -> c <= mc -> cid_id (cbvar b) <= mc ->
    clookup e' (cbvar b) = Some v' -> V v v' -> bkind v = cbchi b -> mk_rel c m k e' ->
    crel (App m v) (Run (fs2c_stmt sk) e')
| CR_cutK : forall q e q' e' mc m2 pv pv',
    focus_term CCns q mc = Ok (q', m2) -> M0 <= mc -> ids_le_term M0 q = true -> env_rel e e' ->
    V (BP pv) (BP pv') -> crel (App (MCutK q e) (BP pv)) (App (MCutK (fs2c_term q') e') (BP pv'))
| CR_cutP : forall cd p e p' e' mc m2 kv kv',
    focus_term CPrd p mc = Ok (p', m2) -> M0 <= mc -> ids_le_term M0 p = true -> env_rel e e' ->
    V (BK kv) (BK kv') -> crel (App (MCutP cd p e) (BK kv)) (App (MCutP cd (fs2c_term p') e') (BK kv')).

(* ---------- basic properties ---------- *)
Lemma cident_eqb_id_ne : forall x y : cident, cid_id x <> cid_id y -> cident_eqb x y = false.
Proof.
  intros [a i] [b j] H. unfold cident_eqb; simpl in *. apply andb_false_iff. right. apply N.eqb_neq. exact H.
Qed.

Lemma V_kind : forall v v', V v v' -> bkind v' = bkind v.
Proof. intros v v' H; inversion H; reflexivity. Qed.

Lemma env_lookup : forall e e', env_rel e e' -> forall x, cid_id x <= M0 ->
  match clookup e x, clookup e' x with
  | Some v, Some v' => V v v'
  | None, None => True
  | _, _ => False
  end.
Proof.
  induction 1 as [|y v v' e e' HV HE IH|y w e e' Hy HE IH]; intros x Hx; simpl.
  - exact I.
  - destruct (cident_eqb y x); [exact HV | apply IH; exact Hx].
  - rewrite cident_eqb_id_ne by lia. apply IH; exact Hx.
Qed.

Lemma env_lookup_some : forall e e' x v, env_rel e e' -> cid_id x <= M0 -> clookup e x = Some v ->
  exists v', clookup e' x = Some v' /\ V v v'.
Proof.
  intros e e' x v HE Hx L. pose proof (env_lookup e e' HE x Hx) as Q. rewrite L in Q.
  destruct (clookup e' x) as [v'|]; [eauto | contradiction].
Qed.

Lemma mk_rel_mono_gen :
  (forall c m k e', mk_rel c m k e' -> forall c2, c <= c2 -> mk_rel c2 m k e') /\
  (forall c d f kv e', kv_rel c d f kv e' -> forall c2, c <= c2 -> kv_rel c2 d f kv e').
Proof.
  split.
  - apply (mk_rel_mind (fun c m k e' => forall c2, c <= c2 -> mk_rel c2 m k e')
                       (fun c d f kv e' => forall c2, c <= c2 -> kv_rel c2 d f kv e'));
      intros; try (econstructor; eauto; lia).
  - apply (kv_rel_mind (fun c m k e' => forall c2, c <= c2 -> mk_rel c2 m k e')
                       (fun c d f kv e' => forall c2, c <= c2 -> kv_rel c2 d f kv e'));
      intros; try (econstructor; eauto; lia).
Qed.
Lemma mk_rel_mono : forall c c2 m k e', mk_rel c m k e' -> c <= c2 -> mk_rel c2 m k e'.
Proof. intros. eapply (proj1 mk_rel_mono_gen); eauto. Qed.
Lemma kv_rel_mono : forall c c2 d f kv e', kv_rel c d f kv e' -> c <= c2 -> kv_rel c2 d f kv e'.
Proof. intros. eapply (proj2 mk_rel_mono_gen); eauto. Qed.

Lemma clookup_push_ne : forall (e' : cenv) y w x, cid_id y <> cid_id x -> clookup ((y, w) :: e') x = clookup e' x.
Proof. intros. simpl. rewrite cident_eqb_id_ne by assumption. reflexivity. Qed.

Lemma mk_rel_push_gen : forall y w,
  (forall c m k e', mk_rel c m k e' -> M0 <= c -> c < cid_id y -> mk_rel c m k ((y, w) :: e')) /\
  (forall c d f kv e', kv_rel c d f kv e' -> M0 <= c -> c < cid_id y -> kv_rel c d f kv ((y, w) :: e')).
Proof.
  intros y w.
  pose (P := fun c m k e' => M0 <= c -> c < cid_id y -> mk_rel c m k ((y, w) :: e')).
  pose (Q := fun c d f kv e' => M0 <= c -> c < cid_id y -> kv_rel c d f kv ((y, w) :: e')).
  assert (EF : forall e e' c, env_rel e e' -> M0 <= c -> c < cid_id y -> env_rel e ((y, w) :: e')).
  { intros. apply ER_fresh; [lia | assumption]. }
  split.
  - apply (mk_rel_mind P Q); unfold P, Q; intros;
      try (econstructor; eauto; try (rewrite clookup_push_ne by lia; assumption)).
  - apply (kv_rel_mind P Q); unfold P, Q; intros;
      try (econstructor; eauto; try (rewrite clookup_push_ne by lia; assumption)).
Qed.
Lemma mk_rel_push : forall c m k e' y w,
  mk_rel c m k e' -> M0 <= c -> c < cid_id y -> mk_rel c m k ((y, w) :: e').
Proof. intros. eapply (proj1 (mk_rel_push_gen y w)); eauto. Qed.

Lemma Vs_length : forall l l', Vs l l' -> List.length l = List.length l'.
Proof. induction 1; simpl; congruence. Qed.
Lemma Vs_app : forall a a' b b', Vs a a' -> Vs b b' -> Vs (a ++ b) (a' ++ b').
Proof. induction 1; simpl; intros; auto. constructor; auto. Qed.

(* positional binding of related value lists *)
Lemma cbind_rel : forall xs vs vs' e e' e1,
  Vs vs vs' -> env_rel e e' -> cbind xs vs e = Some e1 ->
  exists e1', cbind xs vs' e' = Some e1' /\ env_rel e1 e1'.
Proof.
  induction xs as [|x xs IH]; intros vs vs' e e' e1 HV HE HB.
  - inversion HV; subst; simpl in *; try discriminate. inversion HB; subst. eauto.
  - inversion HV as [|v v' l l' Hv Hl]; subst; simpl in HB; try discriminate.
    destruct (cbind xs l e) as [e2|] eqn:E2; [|discriminate]. inversion HB; subst.
    destruct (IH _ _ _ _ _ Hl HE E2) as (e2' & E2' & R2). simpl. rewrite E2'.
    eexists; split; [reflexivity|]. apply ER_both; assumption.
Qed.

End Rel.
