(* C08 without the two hypotheses that were only CHECKED on the emitted code (`asm_wf cs = None`,
   `code_small cs = true`): both are theorems now (Proof/RVWfAll.v) under boolean guards on the PROGRAM handed to the
   code generator (Sem/LabelGuard.v, Sem/WfGuard64.v, Sem/WfGuard.v):
     labels_guard    the label texts are unambiguous (known finding label-collision-name-digits outside it)
     imm_guard_rv    literals are 64-bit values (`LI`), a type declares fewer than 2^61 xtors (the table dispatch
                     `ADDI X1, Xt, 4k` was unencodable beyond 511 xtors: a finding, repaired - a larger offset goes
                     through `LI`)
     size_guard      cg_bound_defs <= 2^40 (the code fits the image)
   `calls_guard` follows from the linear discipline (Proof/X86WfCor.lin_check_calls_guard). *)
From Coq Require Import List ZArith NArith String Bool Lia.
From SCC Require Import Base.Sexp Lang.AxSyn Sem.AxSem Sem.AxHeap Model.Backend Model.RV Sem.RVSem Sem.RVWf
     Model.Linearize Model.LinCheck Model.Capacity Proof.LinearizeProof Proof.RVSimAddr Proof.RVSimRel Proof.RVSimTop
     Proof.RVHFrag Proof.X86HAnn Proof.X86HAnnLin Proof.RVHSimTop Proof.RVHSimCor Proof.RVHSimExample
     Sem.LabelGuard Sem.WfGuard Sem.WfGuard64 Proof.RVWfAll Proof.Fun2CoreExamples.
From SCC Require Model.Heap Proof.X86SimProg Proof.X86WfCor.
Import ListNotations.
Local Open Scope list_scope.
Open Scope Z_scope.

Theorem rv_codegen_simulates_wf p lc cs n lc' args fuel o :
  h_frag p = true -> XTC.entry_int p = true -> lin_check_prog p = true -> ann_check_prog p = true ->
  labels_guard p = true -> imm_guard_rv p = true -> size_guard p = true ->
  rv_compile p lc = Ok (cs, n, lc') ->
  Nat.leb (main_arity p) 14 = true -> List.length args = n -> heap_fits p args ->
  run_linear fuel p args = o -> snd o <> OOutOfFuel ->
  exists outer inner, fst (run_rv outer inner cs args) = o.
Proof.
  intros FR EI LIN ANN LG IG SG XC.
  apply (rv_codegen_simulates p lc cs n lc' args fuel o FR EI LIN ANN XC).
  - exact (rv_compile_asm_wf p lc cs n lc' LG LIN IG XC).
  - exact (rv_compile_code_small p lc cs n lc' LIN SG XC).
Qed.

Corollary rv_codegen_correct_linearized_wf a lc cs n lc' args fuel o :
  prog_ok a = true ->
  h_frag (linearize a) = true -> XTC.entry_int (linearize a) = true ->
  labels_guard (linearize a) = true -> imm_guard_rv (linearize a) = true -> size_guard (linearize a) = true ->
  rv_compile (linearize a) lc = Ok (cs, n, lc') ->
  Nat.leb (main_arity (linearize a)) 14 = true -> heap_fits (linearize a) args ->
  run_linear fuel (linearize a) args = o -> XPg.good o ->
  exists outer inner, fst (run_rv outer inner cs args) = o.
Proof.
  intros OK FR EI LG IG SG XC. pose proof (linearize_exact a OK) as LIN.
  apply (rv_codegen_correct_linearized a lc cs n lc' args fuel o OK FR EI XC).
  - exact (rv_compile_asm_wf _ lc cs n lc' LG LIN IG XC).
  - exact (rv_compile_code_small _ lc cs n lc' LIN SG XC).
Qed.

(* the hypotheses are satisfiable: the heap example of C08 and the linearized stage outputs of the example programs
   of C01 pass every guard (those with print statements are then rejected by rv_compile itself) *)
Lemma rh_lin_guards_rv : labels_guard rh_lin = true /\ imm_guard_rv rh_lin = true /\ size_guard rh_lin = true.
Proof. vm_compute. repeat split; reflexivity. Qed.
Lemma wf_guard_rv_examples :
  wf_guard_rv rh_lin = true /\
  wf_guard_rv (X86WfCor.lin_of ex_calls) = true /\ wf_guard_rv (X86WfCor.lin_of ex_shared) = true /\
  wf_guard_rv (X86WfCor.lin_of ex_data) = true /\ wf_guard_rv (X86WfCor.lin_of ex_labels) = true /\
  wf_guard_rv (X86WfCor.lin_of ex_codata) = true.
Proof. vm_compute. repeat split; reflexivity. Qed.

Lemma rh_simulated_wf : exists outer inner, fst (run_rv outer inner rh_code [3; 100]) = run_linear 2000 rh_lin [3; 100].
Proof.
  destruct rh_hypotheses as (H1 & H2 & H3 & H4 & (lc' & H5) & H6 & H7 & H8 & H9).
  destruct rh_lin_guards_rv as (G1 & G2 & G3).
  eapply (rv_codegen_simulates_wf rh_lin 0 rh_code 2 lc' [3; 100] 2000); eauto.
  - now apply fits_run_sound with (fuel := 2000%nat).
  - vm_compute. discriminate.
Qed.

(* ---------- regression: the table dispatch beyond 511 xtors ----------
   A type with 514 destructors, invoke of the last one (the stage-level form of the finding "tag dispatch immediate",
   docs/C14.md).  The code generator BEFORE the repair (old_r_add_and_jump) emits `ADDI X1, X5, 2052` and fails asm_wf
   although the program satisfies every hypothesis of the theorem; the repaired one emits `LI X1, 2052; ADD X1, X5, X1`. *)
Definition old_rv_backend : backend rcode rtemp := {|
  b_label := b_label rv_backend; b_mark := b_mark rv_backend; b_jump := b_jump rv_backend;
  b_jump_label := b_jump_label rv_backend; b_jump_label_fixed := b_jump_label_fixed rv_backend;
  b_jcc2 := b_jcc2 rv_backend; b_jcc1 := b_jcc1 rv_backend;
  b_load_immediate := b_load_immediate rv_backend; b_load_label := b_load_label rv_backend;
  b_add_and_jump := old_r_add_and_jump;
  b_arith := b_arith rv_backend; b_mov := b_mov rv_backend; b_print := b_print rv_backend;
  b_erase := b_erase rv_backend; b_share_n := b_share_n rv_backend; b_store := b_store rv_backend; b_load := b_load rv_backend;
  b_contains_spill_edge := b_contains_spill_edge rv_backend;
  b_store_temporary := b_store_temporary rv_backend; b_restore_temporary := b_restore_temporary rv_backend;
  b_temp := b_temp rv_backend; b_return1 := b_return1 rv_backend; b_jump_length := b_jump_length rv_backend;
  b_temporary_from_position := b_temporary_from_position rv_backend; b_tcompare := b_tcompare rv_backend |}.
Definition old_rv_compile (p : prog) (lc : N) : Backend.res (list rcode * nat * N) :=
  if prog_has_print p then Backend.Err "not implemented in RISC-V backend"%string else compile old_rv_backend p lc.
Definition many_xtors (n : nat) : list xtorsig := map (fun k => mkx ("d"%string, N.of_nat k) []) (seq 0 n).
Definition wide_type_prog (n : nat) : prog :=
  let big : ident := ("Big"%string, 0%N) in
  let o : ident := ("o"%string, 1%N) in
  mkp [mkd ("use"%string, 0%N) [mkb o Cns (Decl big)] (Invoke o ("d"%string, N.of_nat (n - 1)) (Decl big) [])]
      [mkt big (many_xtors n)] 1%N.
Lemma asm_wf_xtors_regression :
  let p := wide_type_prog 514 in
  wf_guard_rv p = true /\ old_imm_guard_rv p = false /\
  (exists cs n lc', old_rv_compile p 0 = Backend.Ok (cs, n, lc') /\
     asm_wf cs = Some "operand not encodable in its instruction form"%string /\
     In (ADDI TEMP 5%N 2052) cs) /\
  (exists cs n lc', rv_compile p 0 = Backend.Ok (cs, n, lc') /\ asm_wf cs = None /\
     In (LI TEMP 2052) cs /\ In (ADD TEMP 5%N TEMP) cs).
Proof.
  cbv zeta. split; [vm_compute; reflexivity|]. split; [vm_compute; reflexivity|]. split.
  - eexists _, _, _. split; [vm_compute; reflexivity|]. split; [vm_compute; reflexivity|].
    vm_compute. repeat (first [left; reflexivity|right]).
  - eexists _, _, _. split; [vm_compute; reflexivity|]. split; [vm_compute; reflexivity|].
    split; vm_compute; repeat (first [left; reflexivity|right]).
Qed.
