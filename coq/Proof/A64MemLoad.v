(* C09 on AArch64, loads: the code of `a_load` (memory.rs load / load_register / load_fields / load_values /
   load_value / load_field, Switch and Invoke of AxCut) on the AArch64 ISA semantics, leaf lemmas:
     a64_load_field_code_ok   one field into a register or (through TEMP = X2) into a spill slot;
     a64_load_value_ok        one variable: integer slot, pointer slot, in Share mode `share_block_n` of the loaded
                              pointer (count updated through TEMP2 = X3, so Share-mode code clobbers X3);
     a64_load_values_rev_ok   the loads of one block against `lv_abs`;
     a64_load_block_ok        one block of load_fields: (release_block,) (link load,) loads, pointer in register R.
   Every lemma states the exact frame: locations, heap words that are not block headers (`nonblk_same`), the
   stack outside the spill area (`stack_frame`), the output.

   SHARED WITH x86-64 (nothing is copied): the abstract side - `share_on`, `lv_abs`, `lv_kids`, `blk_abs` and their
   pure lemmas - are the objects of Proof/X86MemLoad.v / X86MemLoadChain.v, used under their qualified names through
   the notations below; the two enumerations `load_mode` / `block_position` of Model/A64.v are mapped to the ones of
   Model/X86.v by `xm` / `xbp`; `X86.field_offset` is convertible to A64's (`fo`). *)
From Coq Require Import List ZArith NArith String Bool Lia FMapPositive.
From SCC Require Import Base.Sexp Lang.AxSyn Sem.AxSem Model.Backend Model.A64 Sem.A64Sem Generated.Constants
     Proof.A64State Proof.A64ImmHw Proof.A64Imm Proof.A64Sel Proof.A64Exec Proof.A64MemSubst Proof.A64Mem Proof.A64MemOps.
From SCC Require Model.Heap Model.X86 Sem.X86Sem Proof.X86Mem Proof.X86MemFrame Proof.X86MemStore Proof.X86MemLoad
     Proof.X86MemLoadChain.
Import ListNotations.
Open Scope list_scope.
Open Scope Z_scope.

Notation share_on := X86MemLoad.share_on.
Notation lv_abs := X86MemLoad.lv_abs.
Notation lv_kids := X86MemLoad.lv_kids.
Notation blk_abs := X86MemLoadChain.blk_abs.
Notation st_eqB_refl := X86Mem.st_eqB_refl.
Notation st_eqB_trans := X86Mem.st_eqB_trans.

(* the two enumerations of Model/A64.v as the ones of Model/X86.v *)
Definition xm (m : load_mode) : X86.load_mode := match m with Release => X86.Release | Share => X86.Share end.
Definition xbp (b : block_position) : X86.block_position := match b with Last => X86.Last | Other => X86.Other end.
Lemma xm_share m : xm m = X86.Share -> m = Share. Proof. destruct m; [discriminate|reflexivity]. Qed.
Lemma bp_n_x bp : X86.bp_n (xbp bp) = bp_n bp. Proof. destruct bp; reflexivity. Qed.
(* the field offsets of the two back ends are convertible *)
Ltac fo := change X86.field_offset with field_offset in *.

Lemma share_h_snd p n h f : share_h p n (h, f) = (fst (share_h p n (h, 0)), f).
Proof. unfold share_h. cbn [fst snd]. destruct (p =? 0); reflexivity. Qed.

Definition load_field_code (t : atemp) (blk : areg) (off : Z) : list acode :=
  match t with AR r => [LDR r blk off] | AS p => [LDR TEMP blk off; STR TEMP SP (stack_offset p)] end.
(* the register that holds the loaded word afterwards *)
Definition held_in (t : atemp) : areg := match t with AR r => r | AS _ => TEMP end.
Lemma held_in_X k : exists r, held_in (tpos k) = X r /\ r <> 3%N.
Proof.
  unfold tpos, held_in. destruct (N.ltb_spec (k + 4) 30); [exists (k + 4)%N; split; [reflexivity|lia]|exists 2%N; split; [reflexivity|discriminate]].
Qed.

Section Load.
Variable im : image.

Ltac nxt HC k := eapply exec_next; [apply (HC k); reflexivity| |].

(* ---------- share_block_n, the pointer in register X r (r <> 3): abstract effect and exact words ---------- *)
Lemma a64_share_reg_frame pos r n lc s p F :
  let cs := fst (a_share_block_n (AR (X r)) n lc) in
  code_at im pos cs -> labels_at im pos cs -> r <> 3%N ->
  rget s (X r) = Some p -> (p = 0 \/ is_blk p) ->
  (p <> 0 -> wrap (hword s p + Z.of_N n) = hword s p + Z.of_N n) ->
  exists s', exec_to im pos s (padd pos (List.length cs)) s' /\
     st_eqB (abs_heap F s') (Heap.share p (Z.of_N n) (abs_heap F s)) /\
     (forall r', r' <> TEMP2 -> rget s' r' = rget s r') /\ stack s' = stack s /\ out s' = out s /\ spv s' = spv s /\
     (forall a, hword s' a = if negb (p =? 0) && (a =? p) then hword s p + Z.of_N n else hword s a).
Proof.
  intros cs HC HL N3 P Hp Hw. unfold cs in *. clear cs. cbn [a_share_block_n] in *.
  destruct (a64_share_reg im pos s r n lc p HC HL N3 P (blk0_block_ok p Hp)) as (s' & EX & EH & Rs & ST & OUT & SPV).
  destruct (share_h_abs F s s' p (Z.of_N n) 0 Hp Hw ltac:(apply Rs; discriminate) ltac:(apply Rs; discriminate)) as [EQ W].
  { rewrite share_h_snd. now rewrite EH. }
  exists s'. auto 10.
Qed.

(* ---------- load_field ---------- *)

Lemma load_field_shape n c blk j cs :
  load_field n c blk j = Ok cs ->
  (2 * N.of_nat (List.length c) + tnum_n n < MAXPOS)%N /\
  cs = load_field_code (tpos (2 * N.of_nat (List.length c) + tnum_n n)) blk (field_offset n j).
Proof.
  unfold load_field. destruct (a_fresh n c) as [t|] eqn:Et; [|discriminate]. cbn [rbind].
  apply a_fresh_tpos in Et as [-> Hk]. intros H. inversion H. split; [exact Hk|]. reflexivity.
Qed.

Lemma a64_load_field_code_ok pos t blk off s sp p :
  code_at im pos (load_field_code t blk off) ->
  frame_ok s sp -> loc_ok t -> gp blk ->
  rget s blk = Some p -> heap_addr (p + off) ->
  exists s', exec_to im pos s (padd pos (List.length (load_field_code t blk off))) s' /\
    lget s' sp t = Some (hword s (p + off)) /\ rget s' (held_in t) = Some (hword s (p + off)) /\
    (forall l, loc_ok l -> l <> t -> l <> AR TEMP -> lget s' sp l = lget s sp l) /\
    (forall a, hword s' a = hword s a) /\ out s' = out s /\ frame_ok s' sp /\ stack_frame s s' sp.
Proof.
  intros HC FR T G R Ha. assert (SPk : sp_ok sp) by apply FR.
  destruct t as [r|q]; cbn [load_field_code List.length lget loc_ok held_in] in *.
  - exists (rset s r (Some (hword s (p + off)))). split; [|split; [|split; [|split; [|split; [|split; [|split]]]]]].
    + nxt HC 0%nat. { apply (step_LDR_h im s r blk off p G R Ha). } apply exec_refl.
    + now apply rget_rset_same.
    + now apply rget_rset_same.
    + intros l L N1 N2. destruct l as [r'|q']; cbn [lget]; [apply rget_rset_other; congruence|apply sget_rset].
    + intros a. apply hword_rset.
    + apply out_rset.
    + apply frame_ok_rset; [now apply gp_not_sp|exact FR].
    + apply stack_frame_eq, stack_rset.
  - set (s1 := rset s TEMP (Some (hword s (p + off)))).
    assert (F1 : frame_ok s1 sp) by (apply frame_ok_rset; [discriminate|exact FR]).
    exists (sset s1 sp q (Some (hword s (p + off)))). split; [|split; [|split; [|split; [|split; [|split; [|split]]]]]].
    + nxt HC 0%nat. { apply (step_LDR_h im s TEMP blk off p G R Ha). }
      nxt HC 1%nat. { rewrite (step_STR_slot im s1 sp F1) by exact T. unfold s1 at 2. rewrite rget_rset_same by exact I. reflexivity. }
      apply exec_refl.
    + apply sget_sset_same.
    + rewrite rget_sset. apply rget_rset_same. exact I.
    + intros l L N1 N2. destruct l as [r'|q']; cbn [lget loc_ok] in *.
      * rewrite rget_sset. apply rget_rset_other; congruence.
      * rewrite sget_sset_other by (auto; congruence). apply sget_rset.
    + intros a. rewrite hword_sset. apply hword_rset.
    + rewrite out_sset. apply out_rset.
    + now apply frame_ok_sset.
    + apply (stack_frame_trans s s1); [apply stack_frame_eq, stack_rset|apply stack_frame_sset; exact T].
Qed.

(* ---------- load_value: integer slot, pointer slot, share ---------- *)
Lemma load_value_shape b c blk j m lc cs lc' :
  load_value b c blk j m lc = Ok (cs, lc') ->
  let kF := (2 * N.of_nat (List.length c))%N in
  let cS := load_field_code (tpos (kF + 1)) blk (field_offset Snd j) in
  let cF := load_field_code (tpos kF) blk (field_offset Fst j) in
  let sh := a_share_block_n (AR (held_in (tpos kF))) 1 lc in
  (kF + 1 < MAXPOS)%N /\
  ((bchi b = Ext /\ cs = cS /\ lc' = lc) \/
   (bchi b <> Ext /\ m = Release /\ cs = cS ++ cF /\ lc' = lc) \/
   (bchi b <> Ext /\ m = Share /\ cs = cS ++ cF ++ fst sh /\ lc' = snd sh)).
Proof.
  intros H kF cS cF sh. unfold load_value in H.
  destruct (load_field Snd c blk j) as [c1|] eqn:E1; [|discriminate]. cbn [rbind] in H.
  apply load_field_shape in E1 as [K1 ->]. cbn [tnum_n] in *. fold kF in K1 |- *. split; [exact K1|].
  destruct (bchi b) eqn:Echi.
  3:{ inversion H. left. auto. }
  all: right;
    destruct (load_field Fst c blk j) as [c2|] eqn:E2; [|discriminate]; cbn [rbind] in H;
    apply load_field_shape in E2 as [K2 ->]; cbn [tnum_n] in *; rewrite N.add_0_r in *;
    destruct (a_fresh Fst c) as [t|] eqn:Et; [|discriminate]; cbn [rbind] in H;
    apply a_fresh_tpos in Et as [-> _]; cbn [tnum_n] in *; rewrite N.add_0_r in *; fold kF in H |- *;
    destruct m;
    [ left; inversion H; repeat split; auto; discriminate
    | right; change (match tpos kF with AR r => r | AS _ => TEMP end) with (held_in (tpos kF)) in H; fold sh in H;
      destruct sh as [c3 lc1]; inversion H; repeat split; auto; discriminate ].
Qed.

Lemma a64_load_value_ok pos b c blk j m lc cs lc' s sp p F :
  load_value b c blk j m lc = Ok (cs, lc') ->
  code_at im pos cs -> labels_at im pos cs -> (j < 3)%N ->
  frame_ok s sp -> gp blk -> rget s blk = Some p -> is_blk p -> blk <> TEMP ->
  let kF := (2 * N.of_nat (List.length c))%N in
  AR blk <> tpos (kF + 1) ->
  let wS := hword s (p + field_offset Snd j) in
  let wF := hword s (p + field_offset Fst j) in
  (share_on (xm m) b = true -> wF = 0 \/ is_blk wF) ->
  (share_on (xm m) b = true -> wF <> 0 -> wrap (hword s wF + 1) = hword s wF + 1) ->
  exists s', exec_to im pos s (padd pos (List.length cs)) s' /\
    st_eqB (abs_heap F s') (if share_on (xm m) b then Heap.share wF 1 (abs_heap F s) else abs_heap F s) /\
    lget s' sp (tpos (kF + 1)) = Some wS /\
    (bchi b <> Ext -> lget s' sp (tpos kF) = Some wF) /\
    (forall l, loc_ok l -> l <> tpos kF -> l <> tpos (kF + 1) -> l <> AR TEMP -> l <> AR TEMP2 -> lget s' sp l = lget s sp l) /\
    (forall a, hword s' a = if share_on (xm m) b && negb (wF =? 0) && (a =? wF) then hword s wF + 1 else hword s a) /\
    out s' = out s /\ frame_ok s' sp /\ stack_frame s s' sp.
Proof.
  intros Hlv HC HL Hj FR G R Hb NB kF NS wS wF Hkid Hwrap.
  destruct (load_value_shape _ _ _ _ _ _ _ _ Hlv) as (K1 & Hshape). fold kF in K1, Hshape.
  assert (HaS : heap_addr (p + field_offset Snd j)) by (now apply field_addr).
  assert (HaF : heap_addr (p + field_offset Fst j)) by (now apply field_addr).
  assert (K0 : (kF < MAXPOS)%N) by lia.
  (* the integer slot *)
  assert (Snd_step : forall cs', code_at im pos (load_field_code (tpos (kF + 1)) blk (field_offset Snd j) ++ cs') ->
     exists s1, exec_to im pos s (padd pos (List.length (load_field_code (tpos (kF + 1)) blk (field_offset Snd j)))) s1 /\
       lget s1 sp (tpos (kF + 1)) = Some wS /\ rget s1 blk = Some p /\
       (forall l, loc_ok l -> l <> tpos (kF + 1) -> l <> AR TEMP -> lget s1 sp l = lget s sp l) /\
       (forall a, hword s1 a = hword s a) /\ out s1 = out s /\ frame_ok s1 sp /\ stack_frame s s1 sp).
  { intros cs' HC'. apply code_at_app2 in HC' as [HC1 _].
    destruct (a64_load_field_code_ok pos _ blk _ s sp p HC1 FR (tpos_loc_ok _ K1) G R HaS) as (s1 & ST1 & V1 & _ & Oth1 & W1 & O1 & FR1 & SF1).
    exists s1. split; [exact ST1|]. split; [exact V1|]. split; [|auto 10].
    change (rget s1 blk) with (lget s1 sp (AR blk)). rewrite Oth1; [exact R|exact G|exact NS|congruence]. }
  assert (HF : forall s' : astate, (forall l, loc_ok l -> l <> tpos kF -> l <> tpos (kF + 1) -> l <> AR TEMP -> l <> AR TEMP2 -> lget s' sp l = lget s sp l) ->
               rget s' HEAP = rget s HEAP /\ rget s' FREE = rget s FREE).
  { intros s' O. split.
    - change (lget s' sp (AR HEAP) = lget s sp (AR HEAP)). apply O; [exact I|apply not_eq_sym, tpos_not_reserved|apply not_eq_sym, tpos_not_reserved|discriminate|discriminate].
    - change (lget s' sp (AR FREE) = lget s sp (AR FREE)). apply O; [exact I|apply not_eq_sym, tpos_not_reserved|apply not_eq_sym, tpos_not_reserved|discriminate|discriminate]. }
  destruct Hshape as [(Hext & -> & ->)|[(Hnext & -> & -> & ->)|(Hnext & -> & -> & ->)]].
  - (* integer variable *)
    rewrite (X86MemLoad.share_on_ext (xm m) b Hext). cbn [andb].
    destruct (Snd_step [] ltac:(rewrite app_nil_r; exact HC)) as (s1 & ST1 & V1 & R1 & Oth1 & W1 & O1 & FR1 & SF1).
    assert (Oth : forall l, loc_ok l -> l <> tpos kF -> l <> tpos (kF + 1) -> l <> AR TEMP -> l <> AR TEMP2 -> lget s1 sp l = lget s sp l).
    { intros l L N1 N2 N3 N4. now apply Oth1. }
    exists s1. split; [exact ST1|]. split; [|split; [exact V1|split; [intros; contradiction|split; [exact Oth|split; [exact W1|auto]]]]].
    destruct (HF s1 Oth). apply abs_heap_eqB; auto.
  - (* pointer, the block is released: no sharing *)
    change (xm Release) with X86.Release. rewrite X86MemLoad.share_on_release. cbn [andb].
    destruct (Snd_step _ HC) as (s1 & ST1 & V1 & R1 & Oth1 & W1 & O1 & FR1 & SF1).
    apply code_at_app2 in HC as [_ HC2].
    destruct (a64_load_field_code_ok _ _ blk _ s1 sp p HC2 FR1 (tpos_loc_ok _ K0) G R1 HaF) as (s2 & ST2 & V2 & _ & Oth2 & W2 & O2 & FR2 & SF2).
    rewrite W1 in V2. fold wF in V2.
    assert (Oth : forall l, loc_ok l -> l <> tpos kF -> l <> tpos (kF + 1) -> l <> AR TEMP -> l <> AR TEMP2 -> lget s2 sp l = lget s sp l).
    { intros l L N1 N2 N3 N4. rewrite Oth2, Oth1; auto. }
    exists s2. split; [eapply exec_app_len; eassumption|].
    split; [|split; [|split; [intros _; exact V2|split; [exact Oth|split; [intros a; now rewrite W2, W1|split; [congruence|split; [exact FR2|exact (stack_frame_trans _ _ _ _ SF1 SF2)]]]]]]].
    + destruct (HF s2 Oth). apply abs_heap_eqB; auto. intros a. now rewrite W2, W1.
    + rewrite Oth2; [exact V1|now apply tpos_loc_ok| |apply tpos_not_temp]. apply tpos_neq. lia.
  - (* pointer, shared *)
    change (xm Share) with X86.Share in *. rewrite (X86MemLoad.share_on_share b Hnext) in *. cbn [andb].
    destruct (Snd_step _ HC) as (s1 & ST1 & V1 & R1 & Oth1 & W1 & O1 & FR1 & SF1).
    apply code_at_app2 in HC as [_ HC2]. apply code_at_app2 in HC2 as [HC2 HC3].
    apply labels_at_app2 in HL as [_ HL2]. apply labels_at_app2 in HL2 as [_ HL3].
    destruct (a64_load_field_code_ok _ _ blk _ s1 sp p HC2 FR1 (tpos_loc_ok _ K0) G R1 HaF) as (s2 & ST2 & V2 & H2 & Oth2 & W2 & O2 & FR2 & SF2).
    rewrite W1 in V2, H2. fold wF in V2, H2.
    assert (Oth : forall l, loc_ok l -> l <> tpos kF -> l <> tpos (kF + 1) -> l <> AR TEMP -> l <> AR TEMP2 -> lget s2 sp l = lget s sp l).
    { intros l L N1 N2 N3 N4. rewrite Oth2, Oth1; auto. }
    assert (W12 : forall a, hword s2 a = hword s a) by (intros a; now rewrite W2, W1).
    destruct (held_in_X kF) as (rh & Erh & Nrh). rewrite Erh in *.
    destruct (a64_share_reg_frame _ rh 1 lc s2 wF F HC3 HL3 Nrh H2 (Hkid eq_refl)) as (s3 & ST3 & EQ3 & Rs3 & Stk3 & O3 & SP3 & W3).
    { intros Hn. rewrite W12. change (Z.of_N 1) with 1. now apply Hwrap. }
    assert (L3 : forall l, l <> AR TEMP2 -> lget s3 sp l = lget s2 sp l).
    { intros [r|q] Hl; cbn [lget]; [apply Rs3; congruence|unfold sget; now rewrite Stk3]. }
    exists s3. split; [|split; [|split; [|split; [|split; [|split; [|split; [|split]]]]]]].
    + rewrite app_assoc. eapply exec_app_len; [eapply exec_app_len; eassumption|].
      rewrite app_length, padd_add. exact ST3.
    + eapply st_eqB_trans; [exact EQ3|]. change (Z.of_N 1) with 1. apply X86MemFrame.share_st_eqB; [|exact (Hkid eq_refl)].
      destruct (HF s2 Oth). apply abs_heap_eqB; auto.
    + rewrite L3 by apply tpos_not_temp2. rewrite Oth2; [exact V1|now apply tpos_loc_ok| |apply tpos_not_temp]. apply tpos_neq. lia.
    + intros _. rewrite L3 by apply tpos_not_temp2. exact V2.
    + intros l L N1 N2 N3 N4. rewrite L3 by exact N4. now apply Oth.
    + intros a. rewrite W3, !W12. change (Z.of_N 1) with 1. reflexivity.
    + congruence.
    + destruct FR2 as (A & B). split; [rewrite SP3; exact A|exact B].
    + apply (stack_frame_trans s s2); [exact (stack_frame_trans _ _ _ _ SF1 SF2)|apply stack_frame_eq; exact Stk3].
Qed.

(* ---------- load_values ---------- *)
Lemma a64_load_values_rev_ok : forall bsrev existing blk ff m lc cs lc' pos s sp p F,
  load_values bsrev existing blk ff m lc = Ok (cs, lc') ->
  (N.of_nat (List.length bsrev) <= ff)%N -> (ff <= 3)%N ->
  code_at im pos cs -> labels_at im pos cs ->
  frame_ok s sp -> gp blk -> (bsrev <> [] -> rget s blk = Some p) -> is_blk p -> blk <> TEMP -> blk <> TEMP2 ->
  (forall k, (2 * N.of_nat (List.length existing) < k)%N -> AR blk <> tpos k) ->
  lv_kids (xm m) (hword s) bsrev p ff ->
  (m = Share -> forall x, is_blk x -> min_int <= hword s x /\ hword s x + Z.of_nat (List.length bsrev) <= max_int) ->
  exists s', exec_to im pos s (padd pos (List.length cs)) s' /\
    st_eqB (abs_heap F s') (lv_abs (xm m) (hword s) bsrev p ff (abs_heap F s)) /\
    (forall i b, nth_error (rev bsrev) i = Some b ->
       lget s' sp (tpos (2 * N.of_nat (List.length existing + i) + 1)) =
         Some (hword s (p + field_offset Snd (ff - N.of_nat (List.length bsrev) + N.of_nat i))) /\
       (bchi b <> Ext -> lget s' sp (tpos (2 * N.of_nat (List.length existing + i))) =
         Some (hword s (p + field_offset Fst (ff - N.of_nat (List.length bsrev) + N.of_nat i))))) /\
    (forall l, loc_ok l -> l <> AR TEMP -> l <> AR TEMP2 ->
       (forall k, (2 * N.of_nat (List.length existing) <= k < 2 * N.of_nat (List.length existing + List.length bsrev))%N -> l <> tpos k) ->
       lget s' sp l = lget s sp l) /\
    nonblk_same s s' /\
    (forall x, is_blk x -> hword s x <= hword s' x <= hword s x + Z.of_nat (List.length bsrev)) /\
    out s' = out s /\ frame_ok s' sp /\ stack_frame s s' sp.
Proof.
  induction bsrev as [|b rest IH]; intros existing blk ff m lc cs lc' pos s sp p F Hlv Hlen Hff HC HL FR G R Hb NB NB2 NK Kids Room.
  - cbn [load_values] in Hlv. inversion Hlv; subst cs lc'. exists s. cbn [List.length lv_abs padd rev].
    split; [apply exec_refl|]. split; [apply st_eqB_refl|]. split; [intros i b Hi; destruct i; discriminate|].
    split; [auto|]. split; [apply nonblk_same_refl|]. split; [intros; lia|]. split; [reflexivity|]. split; [exact FR|apply stack_frame_refl].
  - cbn [load_values] in Hlv. cbn [List.length] in Hlen.
    destruct (load_value b (existing ++ rev rest) blk (ff - 1) m lc) as [[c1 lc1]|] eqn:E1; [|discriminate]. cbn [rbind] in Hlv.
    destruct (load_values rest existing blk (ff - 1) m lc1) as [[c2 lc2]|] eqn:E2; [|discriminate]. cbn [rbind] in Hlv.
    inversion Hlv; subst cs lc'. clear Hlv.
    set (E := List.length existing) in *. set (n := List.length rest) in *.
    assert (HL' : List.length (existing ++ rev rest) = (E + n)%nat) by (rewrite app_length, rev_length; reflexivity).
    apply code_at_app2 in HC as [HC1 HC2]. apply labels_at_app2 in HL as [HL1 HL2].
    cbn [lv_kids] in Kids. fo. destruct Kids as [Kid1 Kids2].
    specialize (R ltac:(discriminate)).
    set (wF := hword s (p + field_offset Fst (ff - 1))) in *.
    destruct (a64_load_value_ok pos b (existing ++ rev rest) blk (ff - 1) m lc c1 lc1 s sp p F E1 HC1 HL1 ltac:(lia) FR G R Hb NB)
      as (s1 & ST1 & EQ1 & VS & VF & Oth1 & W1 & O1 & FR1 & SF1).
    { rewrite HL'. apply NK. lia. }
    { exact Kid1. }
    { intros Hsh Hn0. fold wF in Hn0 |- *. apply wrap_in64. destruct (Kid1 Hsh) as [|Kb]; [contradiction|].
      destruct (Room (xm_share _ (X86MemLoad.share_on_true _ _ Hsh)) wF Kb). cbn [List.length] in *. lia. }
    rewrite HL' in VS, VF, Oth1. fold wF in EQ1, VF, W1.
    assert (NB1 : nonblk_same s s1).
    { intros a Ha. rewrite W1. destruct (share_on (xm m) b); cbn [andb]; [|reflexivity].
      destruct (Z.eqb_spec wF 0); cbn [negb andb]; [reflexivity|]. destruct (Z.eqb_spec a wF) as [->|]; [|reflexivity].
      destruct (Kid1 eq_refl); contradiction. }
    assert (Hd1 : forall x, is_blk x -> hword s x <= hword s1 x <= hword s x + 1).
    { intros x Hx. rewrite W1. destruct (share_on (xm m) b && negb (wF =? 0) && (x =? wF)) eqn:Eb; [|lia].
      apply andb_true_iff in Eb as [_ Eb]. apply Z.eqb_eq in Eb. subst x. lia. }
    assert (Hfld : forall t j, (j < 3)%N -> hword s1 (p + field_offset t j) = hword s (p + field_offset t j)).
    { intros t j Hj. apply NB1. now apply field_not_blk. }
    assert (R1 : rest <> [] -> rget s1 blk = Some p).
    { intros Hne. change (lget s1 sp (AR blk) = Some p). rewrite Oth1; [exact R|exact G| | |congruence|congruence].
      - apply NK. destruct rest; [contradiction|]. unfold n. cbn [List.length]. lia.
      - apply NK. lia. }
    destruct (IH existing blk (ff - 1)%N m lc1 c2 lc2 _ s1 sp p F E2 ltac:(lia) ltac:(lia) HC2 HL2 FR1 G R1 Hb NB NB2 NK)
      as (s2 & ST2 & EQ2 & V2 & Oth2 & NB2' & Hd2 & O2 & FR2 & SF2).
    { eapply X86MemLoad.lv_kids_congr; [|lia|exact Kids2]. intros j Hj. symmetry. apply Hfld. lia. }
    { intros Hm x Hx. destruct (Room Hm x Hx), (Hd1 x Hx). cbn [List.length] in *. fold n. lia. }
    fold E n in V2, Oth2, Hd2.
    exists s2. split; [eapply exec_app_len; eassumption|]. split; [|split; [|split; [|split; [|split; [|split; [|split]]]]]].
    + cbn [lv_abs]. fo. fold wF. eapply st_eqB_trans; [exact EQ2|]. apply X86MemLoad.lv_abs_congr; auto; [|lia|].
      * intros j Hj. apply Hfld. lia.
      * eapply X86MemLoad.lv_kids_congr; [|lia|exact Kids2]. intros j Hj. symmetry. apply Hfld. lia.
    + cbn [rev List.length]. fold n. intros i b' Hi. destruct (Nat.lt_ge_cases i n) as [Hlt|Hge].
      * rewrite nth_error_app1 in Hi by (rewrite rev_length; exact Hlt).
        destruct (V2 i b' Hi) as [A B]. rewrite !Hfld in A, B by lia.
        replace (ff - N.of_nat (S n) + N.of_nat i)%N with (ff - 1 - N.of_nat n + N.of_nat i)%N by lia. auto.
      * assert (i = n).
        { assert (i < List.length (rev rest ++ [b]))%nat by (apply nth_error_Some; congruence).
          rewrite app_length, rev_length in H. cbn [List.length] in H. fold n in H. lia. }
        subst i. rewrite nth_error_app2, rev_length, Nat.sub_diag in Hi by (rewrite rev_length; apply Nat.le_refl).
        inversion Hi; subst b'.
        replace (ff - N.of_nat (S n) + N.of_nat n)%N with (ff - 1)%N by lia.
        assert (K1 : (2 * N.of_nat (E + n) + 1 < MAXPOS)%N).
        { destruct (load_value_shape _ _ _ _ _ _ _ _ E1) as (K & _). rewrite HL' in K. exact K. }
        split; [|intros Hne].
        -- rewrite Oth2; [exact VS|apply tpos_loc_ok; lia|apply tpos_not_temp|apply tpos_not_temp2|]. intros k Hk. apply tpos_neq. lia.
        -- rewrite Oth2; [exact (VF Hne)|apply tpos_loc_ok; lia|apply tpos_not_temp|apply tpos_not_temp2|]. intros k Hk. apply tpos_neq. lia.
    + intros l L NT NT2 Hl. cbn [List.length] in Hl. fold n in Hl. rewrite Oth2, Oth1; auto.
      * apply Hl. lia.
      * apply Hl. lia.
      * intros k Hk. apply Hl. lia.
    + eapply nonblk_same_trans; eassumption.
    + intros x Hx. destruct (Hd1 x Hx), (Hd2 x Hx). cbn [List.length]. fold n. lia.
    + congruence.
    + exact FR2.
    + exact (stack_frame_trans _ _ _ _ SF1 SF2).
Qed.

(* ---------- one block of load_fields, the block pointer in register R ---------- *)
Definition rel_code (m : load_mode) (r : areg) : list acode := match m with Release => release_block r | Share => [] end.
Definition link_load_code (bp : block_position) (klink : N) (R : areg) : list acode :=
  match bp with Other => load_field_code (tpos klink) R (field_offset Fst 2) | Last => [] end.

Lemma a64_load_block_ok pos bp next epr m lc lv lc' R klink s sp p h F :
  load_values (rev next) epr R (3 - bp_n bp) m lc = Ok (lv, lc') ->
  next <> [] -> (N.of_nat (List.length next) <= 3 - bp_n bp)%N ->
  klink = (2 * N.of_nat (List.length epr + List.length next))%N -> (bp = Other -> (klink < MAXPOS)%N) ->
  code_at im pos (rel_code m R ++ link_load_code bp klink R ++ lv) ->
  labels_at im pos (rel_code m R ++ link_load_code bp klink R ++ lv) -> frame_ok s sp ->
  gp R -> rget s R = Some p -> is_blk p -> rget s HEAP = Some h -> R <> TEMP -> R <> TEMP2 -> R <> HEAP ->
  (forall k, (2 * N.of_nat (List.length epr) < k)%N -> AR R <> tpos k) ->
  lv_kids (xm m) (hword s) (rev next) p (3 - bp_n bp) ->
  (m = Share -> forall x, is_blk x -> min_int <= hword s x /\ hword s x + Z.of_nat (List.length next) <= max_int) ->
  exists s', exec_to im pos s (padd pos (List.length (rel_code m R ++ link_load_code bp klink R ++ lv))) s' /\
    st_eqB (abs_heap F s') (blk_abs (xm m) (hword s) next p (3 - bp_n bp) (abs_heap F s)) /\
    (bp = Other -> lget s' sp (tpos klink) = Some (hword s (p + 48))) /\
    (forall i b, nth_error next i = Some b ->
       lget s' sp (tpos (2 * N.of_nat (List.length epr + i) + 1)) =
         Some (hword s (p + field_offset Snd (3 - bp_n bp - N.of_nat (List.length next) + N.of_nat i))) /\
       (bchi b <> Ext -> lget s' sp (tpos (2 * N.of_nat (List.length epr + i))) =
         Some (hword s (p + field_offset Fst (3 - bp_n bp - N.of_nat (List.length next) + N.of_nat i))))) /\
    (forall l, loc_ok l -> l <> AR TEMP -> l <> AR TEMP2 -> l <> AR HEAP ->
       (forall k, (2 * N.of_nat (List.length epr) <= k <= klink)%N -> l <> tpos k) ->
       lget s' sp l = lget s sp l) /\
    nonblk_same s s' /\
    (m = Share -> forall x, is_blk x -> hword s x <= hword s' x <= hword s x + Z.of_nat (List.length next)) /\
    (exists h', rget s' HEAP = Some h') /\
    out s' = out s /\ frame_ok s' sp /\ stack_frame s s' sp.
Proof.
  intros Hlv Hne Hlen Hkl Hklm HC HL FR G R0 Hb Hh NT NT2 NH NK Kids Room.
  set (cap := (3 - bp_n bp)%N) in *. set (Eb := List.length epr) in *.
  assert (Hcap : (cap <= 3)%N) by (unfold cap; destruct bp; cbn; lia).
  assert (Hn1 : (1 <= List.length next)%nat) by (destruct next; [contradiction|cbn; lia]).
  fold Eb in Hkl.
  apply code_at_app2 in HC as [HC1 HC2]. apply labels_at_app2 in HL as [HL1 HL2].
  apply code_at_app2 in HC2 as [HC2 HC3]. apply labels_at_app2 in HL2 as [_ HL3].
  (* release *)
  assert (S1 : exists s1, exec_to im pos s (padd pos (List.length (rel_code m R))) s1 /\
     st_eqB (abs_heap F s1) (match m with Release => Heap.release p (abs_heap F s) | Share => abs_heap F s end) /\
     (forall r', r' <> HEAP -> rget s1 r' = rget s r') /\ (exists h', rget s1 HEAP = Some h') /\ stack s1 = stack s /\ out s1 = out s /\
     (forall a, hword s1 a = if (match m with Release => true | Share => false end) && (a =? p) then h else hword s a)).
  { destruct m; cbn [rel_code].
    - destruct (a64_release_block_ok im pos R s p h F HC1 G R0 Hh Hb) as (s1 & ST1 & EQ1 & Oth1 & H1 & Stk1 & O1 & W1).
      exists s1. split; [exact ST1|]. split; [exact EQ1|]. split; [exact Oth1|]. split; [eauto|]. split; [exact Stk1|]. split; [exact O1|exact W1].
    - exists s. split; [apply exec_refl|]. split; [apply st_eqB_refl|]. split; [auto|]. split; [eauto|]. auto. }
  destruct S1 as (s1 & ST1 & EQ1 & Oth1 & (h1 & H1) & Stk1 & O1 & W1).
  assert (FR1 : frame_ok s1 sp).
  { destruct FR as (A & B). split; [|exact B]. change (spv s1) with (rget s1 SP). rewrite Oth1 by discriminate. exact A. }
  assert (R1 : rget s1 R = Some p) by (rewrite Oth1 by exact NH; exact R0).
  assert (L1 : forall l, l <> AR HEAP -> lget s1 sp l = lget s sp l).
  { intros [r|q] Hl; cbn [lget]; [apply Oth1; congruence|unfold sget; now rewrite Stk1]. }
  assert (Hoff : forall i, 0 < i < 64 -> hword s1 (p + i) = hword s (p + i)).
  { intros i Hi. rewrite W1. destruct (Z.eqb_spec (p + i) p); [lia|]. now rewrite andb_false_r. }
  assert (Hfld : forall t j, (j < 3)%N -> hword s1 (p + field_offset t j) = hword s (p + field_offset t j)).
  { intros t j Hj. apply Hoff. rewrite field_offset_val. destruct t; cbn [tnum_n]; lia. }
  assert (NB1 : nonblk_same s s1).
  { intros a Ha. rewrite W1. destruct (Z.eqb_spec a p) as [->|]; [contradiction|]. now rewrite andb_false_r. }
  (* the link *)
  assert (S2 : exists s2, exec_to im (padd pos (List.length (rel_code m R))) s1
                            (padd (padd pos (List.length (rel_code m R))) (List.length (link_load_code bp klink R))) s2 /\
     (bp = Other -> lget s2 sp (tpos klink) = Some (hword s (p + 48))) /\
     (forall l, loc_ok l -> l <> tpos klink -> l <> AR TEMP -> lget s2 sp l = lget s1 sp l) /\
     (forall a, hword s2 a = hword s1 a) /\ out s2 = out s1 /\ frame_ok s2 sp /\ stack_frame s1 s2 sp).
  { destruct bp; cbn [link_load_code] in *.
    - exists s1. split; [apply exec_refl|]. split; [discriminate|]. split; [auto|]. split; [auto|]. split; [auto|]. split; [exact FR1|apply stack_frame_refl].
    - assert (Ha : heap_addr (p + field_offset Fst 2)) by (apply field_addr; auto; lia).
      destruct (a64_load_field_code_ok _ (tpos klink) R _ s1 sp p HC2 FR1 (tpos_loc_ok _ (Hklm eq_refl)) G R1 Ha) as (s2 & ST2 & V2 & _ & Oth2 & W2 & O2 & FR2 & SF2).
      exists s2. split; [exact ST2|]. split; [|auto 10]. intros _. rewrite V2. rewrite fo_F2. now rewrite Hoff by lia. }
  destruct S2 as (s2 & ST2 & Vl & Oth2 & W2 & O2 & FR2 & SF2).
  assert (NKl : AR R <> tpos klink) by (apply NK; lia).
  assert (R2 : rget s2 R = Some p).
  { change (lget s2 sp (AR R) = Some p). rewrite Oth2; [exact R1|exact G|exact NKl|congruence]. }
  assert (W12 : forall a, hword s2 a = hword s1 a) by exact W2.
  (* the values *)
  destruct (a64_load_values_rev_ok (rev next) epr R cap m lc lv lc' _ s2 sp p F Hlv ltac:(rewrite rev_length; exact Hlen) Hcap HC3 HL3 FR2 G)
    as (s3 & ST3 & EQ3 & V3 & Oth3 & NB3 & Hd3 & O3 & FR3 & SF3); auto.
  { eapply X86MemLoad.lv_kids_congr; [|rewrite rev_length; exact Hlen|exact Kids]. intros j Hj. rewrite W12. symmetry. apply Hfld. lia. }
  { intros Hm x Hx. subst m. rewrite W12, W1. cbn [andb]. rewrite rev_length. now apply Room. }
  rewrite rev_length, rev_involutive in *.
  exists s3. split; [|split; [|split; [|split; [|split; [|split; [|split; [|split; [|split; [|split]]]]]]]]].
  - rewrite !app_length, !padd_add. eapply exec_to_trans; [exact ST1|]. eapply exec_to_trans; [exact ST2|]. exact ST3.
  - unfold X86MemLoadChain.blk_abs. eapply st_eqB_trans; [exact EQ3|]. apply X86MemLoad.lv_abs_congr.
    + eapply st_eqB_trans; [|destruct m; exact EQ1]. apply abs_heap_eqB; [exact W12| |].
      * change (lget s2 sp (AR HEAP) = lget s1 sp (AR HEAP)). apply Oth2; [exact I|apply not_eq_sym, tpos_not_reserved|discriminate].
      * change (lget s2 sp (AR FREE) = lget s1 sp (AR FREE)). apply Oth2; [exact I|apply not_eq_sym, tpos_not_reserved|discriminate].
    + intros j Hj. rewrite W12. apply Hfld. lia.
    + rewrite rev_length. exact Hlen.
    + eapply X86MemLoad.lv_kids_congr; [|rewrite rev_length; exact Hlen|exact Kids]. intros j Hj. rewrite W12. symmetry. apply Hfld. lia.
  - intros Ho. rewrite Oth3; [exact (Vl Ho)|apply tpos_loc_ok; auto|apply tpos_not_temp|apply tpos_not_temp2|]. intros k Hk. apply tpos_neq. lia.
  - intros i b Hi. destruct (V3 i b Hi) as [A B].
    assert (Hi' : (i < List.length next)%nat) by (apply nth_error_Some; congruence).
    rewrite !W12, !Hfld in A, B by lia. auto.
  - intros l L N1 N1' N2 N3. rewrite Oth3; [|exact L|exact N1|exact N1'|intros k Hk; apply N3; lia].
    rewrite Oth2; [apply L1; exact N2|exact L|apply N3; lia|exact N1].
  - eapply nonblk_same_trans; [exact NB1|]. intros a Ha. rewrite NB3 by exact Ha. apply W12.
  - intros Hm x Hx. subst m. specialize (Hd3 x Hx). rewrite W12, W1 in Hd3. cbn [andb] in Hd3. exact Hd3.
  - assert (LH : lget s3 sp (AR HEAP) = lget s1 sp (AR HEAP)).
    { rewrite Oth3; [apply Oth2|exact I|discriminate|discriminate|]; [exact I|apply not_eq_sym, tpos_not_reserved|discriminate|].
      intros k _. apply not_eq_sym, tpos_not_reserved. }
    cbn [lget] in LH. exists h1. now rewrite LH.
  - congruence.
  - exact FR3.
  - apply (stack_frame_trans s s2); [apply (stack_frame_trans s s1); [apply stack_frame_eq; exact Stk1|exact SF2]|exact SF3].
Qed.
End Load.

Print Assumptions a64_load_values_rev_ok.
Print Assumptions a64_load_block_ok.
