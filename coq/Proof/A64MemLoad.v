(* stub *)
