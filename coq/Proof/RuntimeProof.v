(* C20: proofs about Model/Runtime.v *)
From Coq Require Import List ZArith NArith String Ascii Bool Lia DecimalString DecimalZ Decimal.
From SCC Require Import Generated.Constants Model.Runtime.
Import ListNotations.
Open Scope Z_scope.

(* ------------------------------------------------------------------ *)
(* lists                                                               *)
(* ------------------------------------------------------------------ *)
Lemma upd_length : forall l i c, List.length (upd l i c) = List.length l.
Proof. induction l as [|x l IH]; intros [|i] c; simpl; auto. Qed.

Lemma upd_spec : forall l i c, (i < List.length l)%nat ->
  upd l i c = firstn i l ++ c :: skipn (S i) l.
Proof.
  induction l as [|x l IH]; intros [|i] c Hi; simpl in *; try lia; auto.
  f_equal. apply IH. lia.
Qed.

(* ------------------------------------------------------------------ *)
(* digits of a number, most significant first (proof-side only)        *)
(* ------------------------------------------------------------------ *)
Fixpoint digs (f : nat) (m : Z) : list Z :=
  match f with
  | O => []
  | S f' => if m / 10 =? 0 then [m mod 10] else digs f' (m / 10) ++ [m mod 10]
  end.

Definition horner (l : list Z) (acc : Z) : Z := fold_left (fun a d => 10 * a + d) l acc.

Lemma horner_app : forall l1 l2 acc, horner (l1 ++ l2) acc = horner l2 (horner l1 acc).
Proof. intros. unfold horner. apply fold_left_app. Qed.

Lemma horner_single : forall d a, horner [d] a = 10 * a + d.
Proof. reflexivity. Qed.

Lemma pow10_S : forall f, 10 ^ Z.of_nat (S f) = 10 * 10 ^ Z.of_nat f.
Proof. intros. rewrite Nat2Z.inj_succ, Z.pow_succ_r by lia. reflexivity. Qed.

Lemma digs_horner : forall f m, 0 <= m < 10 ^ Z.of_nat f -> horner (digs f m) 0 = m.
Proof.
  induction f as [|f IH]; intros m Hm.
  - change (10 ^ Z.of_nat 0) with 1 in Hm. cbn. lia.
  - rewrite pow10_S in Hm. cbn [digs].
    destruct (m / 10 =? 0) eqn:E.
    + apply Z.eqb_eq in E. rewrite horner_single. pose proof (Z.div_mod m 10 ltac:(lia)). lia.
    + apply Z.eqb_neq in E. rewrite horner_app, IH.
      * rewrite horner_single. pose proof (Z.div_mod m 10 ltac:(lia)). lia.
      * split; [apply Z.div_pos; lia|]. apply Z.div_lt_upper_bound; lia.
Qed.

Lemma digs_range : forall f m, Forall (fun d => 0 <= d < 10) (digs f m).
Proof.
  induction f as [|f IH]; intros m; cbn [digs]; [constructor|].
  pose proof (Z.mod_pos_bound m 10 ltac:(lia)).
  destruct (m / 10 =? 0).
  - constructor; [lia|constructor].
  - apply Forall_app. split; [apply IH|]. constructor; [lia|constructor].
Qed.

Lemma digs_length_pos : forall f m, (1 <= List.length (digs (S f) m))%nat.
Proof.
  intros. cbn [digs]. destruct (m / 10 =? 0); [simpl; lia|]. rewrite app_length. simpl. lia.
Qed.

(* a number below 10^g has at most g digits *)
Lemma digs_length_le : forall f g m, 0 <= m < 10 ^ Z.of_nat (S g) ->
  (List.length (digs f m) <= S g)%nat.
Proof.
  induction f as [|f IH]; intros g m Hm; cbn [digs]; [simpl; lia|].
  destruct (m / 10 =? 0) eqn:E; [simpl; lia|].
  apply Z.eqb_neq in E. rewrite app_length. simpl.
  destruct g as [|g].
  - exfalso. apply E. apply Z.div_small. change (10 ^ Z.of_nat 1) with 10 in Hm. lia.
  - rewrite pow10_S in Hm.
    assert (List.length (digs f (m / 10)) <= S g)%nat; [|lia].
    apply IH. split; [apply Z.div_pos; lia|]. apply Z.div_lt_upper_bound; lia.
Qed.

(* the first digit of a positive number is not 0 *)
Lemma digs_head : forall f m, 0 < m < 10 ^ Z.of_nat f ->
  exists d r, digs f m = d :: r /\ 0 < d < 10.
Proof.
  induction f as [|f IH]; intros m Hm.
  - change (10 ^ Z.of_nat 0) with 1 in Hm. lia.
  - rewrite pow10_S in Hm. cbn [digs]. destruct (m / 10 =? 0) eqn:E.
    + apply Z.eqb_eq in E. exists (m mod 10), []. split; auto.
      pose proof (Z.div_mod m 10 ltac:(lia)). pose proof (Z.mod_pos_bound m 10 ltac:(lia)). lia.
    + apply Z.eqb_neq in E.
      destruct (IH (m / 10)) as (d & r & Hd & Hr).
      * assert (0 <= m / 10) by (apply Z.div_pos; lia).
        split; [lia|]. apply Z.div_lt_upper_bound; lia.
      * rewrite Hd. exists d, (r ++ [m mod 10]). auto.
Qed.

Lemma digs_zero : forall f, digs (S f) 0 = [0].
Proof. reflexivity. Qed.

(* ------------------------------------------------------------------ *)
(* bridge to Coq's decimal numbers (Decimal.uint, Z.to_int)            *)
(* ------------------------------------------------------------------ *)
Definition dcons (d : Z) (u : uint) : uint :=
  match d with
  | 0 => D0 u | 1 => D1 u | 2 => D2 u | 3 => D3 u | 4 => D4 u
  | 5 => D5 u | 6 => D6 u | 7 => D7 u | 8 => D8 u | _ => D9 u
  end.
Fixpoint uint_of (l : list Z) : uint :=
  match l with [] => Nil | d :: r => dcons d (uint_of r) end.

Definition isdigit (d : Z) : Prop := 0 <= d < 10.

Lemma digit_cases : forall d, isdigit d ->
  d = 0 \/ d = 1 \/ d = 2 \/ d = 3 \/ d = 4 \/ d = 5 \/ d = 6 \/ d = 7 \/ d = 8 \/ d = 9.
Proof. unfold isdigit. intros. lia. Qed.

Ltac digit_split H :=
  apply digit_cases in H;
  destruct H as [H|[H|[H|[H|[H|[H|[H|[H|[H|H]]]]]]]]]; subst.

Lemma horner_cons : forall d l acc, horner (d :: l) acc = horner l (10 * acc + d).
Proof. reflexivity. Qed.

Lemma of_uint_acc_horner : forall l acc, Forall isdigit l ->
  Z.pos (Pos.of_uint_acc (uint_of l) acc) = horner l (Z.pos acc).
Proof.
  induction l as [|d l IH]; intros acc H; [reflexivity|].
  inversion H as [|? ? Hd Hl]; subst.
  rewrite horner_cons.
  digit_split Hd; cbn [uint_of dcons Pos.of_uint_acc]; rewrite IH by assumption; f_equal; lia.
Qed.

Lemma of_uint_horner : forall l, Forall isdigit l ->
  Z.of_N (Pos.of_uint (uint_of l)) = horner l 0.
Proof.
  induction l as [|d l IH]; intros H; [reflexivity|].
  inversion H as [|? ? Hd Hl]; subst.
  rewrite horner_cons.
  digit_split Hd; cbn [uint_of dcons Pos.of_uint]; [apply IH; assumption| ..];
    cbn [Z.of_N]; rewrite of_uint_acc_horner by assumption; reflexivity.
Qed.

Lemma string_of_uint_of : forall l, Forall isdigit l ->
  bytes_of_string (NilEmpty.string_of_uint (uint_of l)) = map (fun d => 48 + d) l.
Proof.
  induction l as [|d l IH]; intros H; [reflexivity|].
  inversion H as [|? ? Hd Hl]; subst.
  digit_split Hd; cbn [uint_of dcons NilEmpty.string_of_uint bytes_of_string map]; rewrite IH by assumption; reflexivity.
Qed.

Lemma nilzero_uint_of : forall d l, isdigit d ->
  NilZero.string_of_uint (uint_of (d :: l)) = NilEmpty.string_of_uint (uint_of (d :: l)).
Proof. intros d l Hd. digit_split Hd; reflexivity. Qed.

Lemma unorm_uint_of : forall d l, 0 < d < 10 -> unorm (uint_of (d :: l)) = uint_of (d :: l).
Proof. intros d l Hd. assert (H : isdigit d) by (unfold isdigit; lia). digit_split H; try lia; reflexivity. Qed.

Lemma norm_neg_uint_of : forall d l, 0 < d < 10 -> norm (Neg (uint_of (d :: l))) = Neg (uint_of (d :: l)).
Proof. intros d l Hd. assert (H : isdigit d) by (unfold isdigit; lia). digit_split H; try lia; reflexivity. Qed.

Definition sign_bytes (v : Z) : list Z := if v <? 0 then [45] else [].
Definition digit_bytes (f : nat) (m : Z) : list Z := map (fun d => 48 + d) (digs f m).

(* Coq's decimal string of v is: optional '-', then the digits of |v| *)
Lemma decimal_digs : forall f v, Z.abs v < 10 ^ Z.of_nat (S f) ->
  decimal v = sign_bytes v ++ digit_bytes (S f) (Z.abs v).
Proof.
  intros f v Hv. unfold decimal, sign_bytes, digit_bytes.
  destruct (Z.ltb_spec v 0) as [Hneg|Hpos].
  - (* negative *)
    assert (Hm : 0 < Z.abs v < 10 ^ Z.of_nat (S f)) by lia.
    destruct (digs_head _ _ Hm) as (d & r & Hd & Hr).
    pose proof (digs_range (S f) (Z.abs v)) as Hrange.
    pose proof (digs_horner (S f) (Z.abs v) ltac:(lia)) as Hh.
    rewrite Hd in *.
    assert (Hto : Z.to_int v = Neg (uint_of (d :: r))).
    { rewrite <- (norm_neg_uint_of d r Hr). rewrite <- DecimalZ.to_of. f_equal.
      unfold Z.of_int, Z.of_uint. rewrite of_uint_horner by exact Hrange. lia. }
    rewrite Hto. unfold NilZero.string_of_int.
    inversion Hrange; subst.
    rewrite nilzero_uint_of by assumption.
    cbn [bytes_of_string]. rewrite string_of_uint_of by exact Hrange. reflexivity.
  - destruct (Z.eq_dec v 0) as [->|Hnz]; [reflexivity|].
    assert (Hm : 0 < Z.abs v < 10 ^ Z.of_nat (S f)) by lia.
    destruct (digs_head _ _ Hm) as (d & r & Hd & Hr).
    pose proof (digs_range (S f) (Z.abs v)) as Hrange.
    pose proof (digs_horner (S f) (Z.abs v) ltac:(lia)) as Hh.
    rewrite Hd in *.
    assert (Hto : Z.to_int v = Pos (uint_of (d :: r))).
    { rewrite <- (unorm_uint_of d r Hr) at 1. change (Pos (unorm (uint_of (d :: r)))) with (norm (Pos (uint_of (d :: r)))).
      rewrite <- DecimalZ.to_of. f_equal.
      unfold Z.of_int, Z.of_uint. rewrite of_uint_horner by exact Hrange. lia. }
    rewrite Hto. unfold NilZero.string_of_int.
    inversion Hrange; subst.
    rewrite nilzero_uint_of by assumption.
    rewrite string_of_uint_of by exact Hrange. reflexivity.
Qed.

(* ------------------------------------------------------------------ *)
(* the digit loop of io.c                                              *)
(* ------------------------------------------------------------------ *)
Lemma char_digit : forall m, 0 <= m < 2 ^ 64 ->
  char_of (u64 (48 + u64 (m - u64 (m / 10 * 10)))) = 48 + m mod 10.
Proof.
  intros m Hm. unfold char_of, u64.
  pose proof (Z.div_mod m 10 ltac:(lia)) as Hdm.
  pose proof (Z.mod_pos_bound m 10 ltac:(lia)) as Hmod.
  assert (H2 : 2 ^ 64 = 18446744073709551616) by reflexivity.
  rewrite (Z.mod_small (m / 10 * 10)) by lia.
  replace (m - m / 10 * 10) with (m mod 10) by lia.
  rewrite (Z.mod_small (m mod 10)) by lia.
  rewrite (Z.mod_small (48 + m mod 10)) by lia.
  apply Z.mod_small. lia.
Qed.

Lemma digit_loop_S : forall f m b start,
  digit_loop (S f) m b start =
  let b1 := store b (start - 1) (char_of (u64 (48 + u64 (m - u64 (m / 10 * 10))))) in
  if m / 10 =? 0 then Some (b1, start - 1) else digit_loop f (m / 10) b1 (start - 1).
Proof. reflexivity. Qed.

Lemma digs_S : forall f m,
  digs (S f) m = if m / 10 =? 0 then [m mod 10] else digs f (m / 10) ++ [m mod 10].
Proof. reflexivity. Qed.

Lemma store_in : forall b s c, (1 <= s <= List.length (data b))%nat ->
  store b (Z.of_nat s - 1) c =
  {| data := firstn (s - 1) (data b) ++ c :: skipn s (data b); oob := oob b |}.
Proof.
  intros b s c Hs. unfold store.
  replace (Z.of_nat s - 1) with (Z.of_nat (s - 1)) by lia.
  destruct (Z.leb_spec 0 (Z.of_nat (s - 1))); [|lia].
  destruct (Z.ltb_spec (Z.of_nat (s - 1)) (Z.of_nat (List.length (data b)))); [|lia].
  cbn [andb]. rewrite Nat2Z.id. rewrite upd_spec by lia.
  replace (S (s - 1)) with s by lia. reflexivity.
Qed.

Lemma digit_loop_spec : forall f m b s,
  0 <= m < 10 ^ Z.of_nat (S f) -> m < 2 ^ 64 ->
  (List.length (digs (S f) m) <= s <= List.length (data b))%nat ->
  exists b',
    digit_loop (S f) m b (Z.of_nat s) = Some (b', Z.of_nat (s - List.length (digs (S f) m))) /\
    oob b' = oob b /\
    data b' = firstn (s - List.length (digs (S f) m)) (data b) ++ digit_bytes (S f) m ++ skipn s (data b).
Proof.
  induction f as [|f IH]; intros m b s Hm H64 Hs;
    (pose proof (digs_length_pos (S f) m) as Hk1 || pose proof (digs_length_pos 0 m) as Hk1).
  - (* one digit *)
    change (10 ^ Z.of_nat 1) with 10 in Hm.
    assert (E : m / 10 = 0) by (apply Z.div_small; lia).
    rewrite digit_loop_S. cbv zeta. rewrite char_digit by lia. rewrite store_in by lia.
    unfold digit_bytes. rewrite digs_S in *. rewrite E in *. cbn [Z.eqb] in *.
    cbn [List.length] in *.
    replace (Z.of_nat s - 1) with (Z.of_nat (s - 1)) by lia.
    eexists. split; [|split]; [reflexivity|reflexivity|].
    cbn [data map app]. reflexivity.
  - rewrite digit_loop_S. cbv zeta. rewrite char_digit by lia. rewrite store_in by lia.
    unfold digit_bytes. rewrite (digs_S (S f) m) in *.
    destruct (m / 10 =? 0) eqn:E.
    + cbn [List.length] in *.
      replace (Z.of_nat s - 1) with (Z.of_nat (s - 1)) by lia.
    eexists. split; [|split]; [reflexivity|reflexivity|].
      cbn [data map app]. reflexivity.
    + apply Z.eqb_neq in E. rewrite app_length in *. cbn [List.length] in *.
      rewrite pow10_S in Hm.
      assert (Hm' : 0 <= m / 10 < 10 ^ Z.of_nat (S f)).
      { split; [apply Z.div_pos; lia|]. apply Z.div_lt_upper_bound; lia. }
      assert (H64' : m / 10 < 2 ^ 64).
      { apply Z.div_lt_upper_bound; lia. }
      set (c := 48 + m mod 10).
      set (b1 := {| data := firstn (s - 1) (data b) ++ c :: skipn s (data b); oob := oob b |}).
      assert (Hlen1 : List.length (firstn (s - 1) (data b)) = (s - 1)%nat) by (apply firstn_length_le; lia).
      assert (Hlenb1 : List.length (data b1) = List.length (data b)).
      { unfold b1. cbn [data]. rewrite app_length, Hlen1. cbn [List.length]. rewrite skipn_length. lia. }
      replace (Z.of_nat s - 1) with (Z.of_nat (s - 1)) by lia.
      destruct (IH (m / 10) b1 (s - 1)%nat Hm' H64' ltac:(lia)) as (b' & Hrun & Hoob & Hdata).
      exists b'. split; [|split].
      * rewrite Hrun. f_equal. f_equal. lia.
      * rewrite Hoob. reflexivity.
      * rewrite Hdata. unfold digit_bytes, b1. cbn [data].
        set (k' := List.length (digs (S f) (m / 10))) in *.
        rewrite firstn_app, Hlen1.
        replace (s - 1 - k' - (s - 1))%nat with 0%nat by lia. cbn [firstn]. rewrite app_nil_r.
        rewrite firstn_firstn. replace (Nat.min (s - 1 - k') (s - 1)) with (s - (k' + 1))%nat by lia.
        rewrite skipn_app, Hlen1. replace (s - 1 - (s - 1))%nat with 0%nat by lia. cbn [skipn].
        rewrite (skipn_all2 (firstn (s - 1) (data b))) by lia.
        rewrite map_app. cbn [map app]. rewrite <- !app_assoc. reflexivity.
Qed.

(* ------------------------------------------------------------------ *)
(* print_i64 / println_i64                                             *)
(* ------------------------------------------------------------------ *)
Lemma max_digits_ok : 20 <= MAX_DIGITS_INT.
Proof. unfold MAX_DIGITS_INT. lia. Qed.

Lemma pow_facts :
  2 ^ 63 = 9223372036854775808 /\ 2 ^ 64 = 18446744073709551616 /\
  10 ^ Z.of_nat 19 = 10000000000000000000 /\ 10 ^ Z.of_nat 20 = 100000000000000000000.
Proof. repeat split; reflexivity. Qed.

(* the unsigned magnitude computed by io.c is |v|, for every int64 including the minimum *)
Lemma magnitude_abs : forall v, in_i64 v ->
  (if v <? 0 then u64 (0 - u64 v) else u64 v) = Z.abs v.
Proof.
  unfold in_i64, u64. intros v Hv. destruct pow_facts as (H63 & H64 & _).
  destruct (Z.ltb_spec v 0).
  - rewrite <- (Z.mod_unique v (2 ^ 64) (-1) (v + 2 ^ 64)) by lia.
    symmetry. apply Z.mod_unique with (q := -1); lia.
  - rewrite Z.mod_small by lia. lia.
Qed.

(* a 64-bit magnitude has at most 20 digits; the magnitude of an int64 at most 19 *)
Lemma digits_u64 : forall m, 0 <= m < 2 ^ 64 -> (List.length (digs 20 m) <= 20)%nat.
Proof. intros m Hm. destruct pow_facts as (_ & H64 & _ & H20). apply digs_length_le. lia. Qed.

Lemma digits_i64 : forall v, in_i64 v -> (List.length (digs 20 (Z.abs v)) <= 19)%nat.
Proof. unfold in_i64. intros v Hv. destruct pow_facts as (H63 & _ & H19 & _). apply digs_length_le. lia. Qed.

Lemma write_slice : forall b pre mid post a c,
  data b = pre ++ mid ++ post -> List.length pre = a -> Z.to_nat c = List.length mid ->
  write_bytes b (Z.of_nat a) c = mid.
Proof.
  intros b pre mid post a c Hd Ha Hc. unfold write_bytes. rewrite Hd, Nat2Z.id, Hc.
  rewrite skipn_app, skipn_all2 by lia. replace (a - List.length pre)%nat with 0%nat by lia.
  cbn [skipn]. rewrite app_nil_l, firstn_app, firstn_all, Nat.sub_diag. cbn [firstn]. apply app_nil_r.
Qed.

Definition line_tail (line : bool) : list Z := if line then [10] else [].

Lemma print_gen_spec : forall line init v,
  in_i64 v -> List.length init = Z.to_nat (buf_size line) ->
  let r := print_gen line init v in
  bytes r = decimal v ++ line_tail line /\
  overrun r = false /\ fuel_ok r = true /\
  final_start r = MAX_DIGITS_INT - Z.of_nat (List.length (decimal v)) /\
  0 <= final_start r.
Proof.
  intros line init v Hv Hinit.
  pose proof max_digits_ok as HM.
  destruct pow_facts as (H63 & H64 & H19 & H20).
  unfold print_gen, buf_size in *. cbv zeta.
  set (N := Z.to_nat MAX_DIGITS_INT).
  assert (HN : MAX_DIGITS_INT = Z.of_nat N) by (unfold N; lia).
  assert (HN20 : (20 <= N)%nat) by lia.
  rewrite HN in Hinit |- *. clearbody N. clear HN HM.
  rewrite magnitude_abs by assumption.
  (* the buffer before the loop *)
  set (b := if line then store {| data := init; oob := false |} (Z.of_nat N) 10 else {| data := init; oob := false |}).
  assert (Hb : exists pre, data b = pre ++ line_tail line /\ List.length pre = N /\ oob b = false).
  { unfold b. destruct line.
    - replace (Z.of_nat N) with (Z.of_nat (N + 1) - 1) by lia.
      rewrite store_in by (cbn [data]; lia). cbn [data oob].
      exists (firstn (N + 1 - 1) init). rewrite skipn_all2 by lia.
      split; [reflexivity|]. split; [rewrite firstn_length_le; lia|reflexivity].
    - exists init. cbn [data oob line_tail]. rewrite app_nil_r. split; [reflexivity|]. split; [lia|reflexivity]. }
  destruct Hb as (pre & Hdata & Hpre & Hoob). clearbody b.
  assert (Hlt : List.length (line_tail line) = Z.to_nat (if line then 1 else 0)) by (destruct line; reflexivity).
  (* the loop *)
  pose proof (digits_i64 v Hv) as Hk19.
  pose proof (digs_length_pos 19 (Z.abs v)) as Hk1.
  assert (Hlenb : List.length (data b) = (N + List.length (line_tail line))%nat) by (rewrite Hdata, app_length; lia).
  destruct (digit_loop_spec 19 (Z.abs v) b N ltac:(unfold in_i64 in Hv; lia) ltac:(unfold in_i64 in Hv; lia) ltac:(lia))
    as (b' & Hrun & Hoob' & Hdata').
  unfold print_fuel. rewrite Hrun.
  set (k := List.length (digs 20 (Z.abs v))) in *.
  assert (Hskip : skipn N (data b) = line_tail line).
  { rewrite Hdata, skipn_app, skipn_all2 by lia. replace (N - List.length pre)%nat with 0%nat by lia. reflexivity. }
  rewrite Hskip in Hdata'.
  assert (Hpre' : List.length (firstn (N - k) (data b)) = (N - k)%nat) by (apply firstn_length_le; lia).
  rewrite (decimal_digs 19 v) by (unfold in_i64 in Hv; lia).
  assert (Hdl : List.length (digit_bytes 20 (Z.abs v)) = k) by (unfold digit_bytes; rewrite map_length; reflexivity).
  unfold sign_bytes.
  destruct (Z.ltb_spec v 0) as [Hneg|Hpos].
  - (* negative: one more byte for the sign *)
    pose proof (store_in b' (N - k) 45 ltac:(rewrite Hdata', !app_length, Hpre', Hdl; lia)) as Hst.
    replace (Z.of_nat (N - k) - 1) with (Z.of_nat (N - k - 1)) in * by lia.
    rewrite Hst. clear Hst.
    cbn [oob bytes overrun fuel_ok final_start].
    assert (Hskip' : skipn (N - k) (data b') = digit_bytes 20 (Z.abs v) ++ line_tail line).
    { rewrite Hdata', skipn_app, skipn_all2 by lia. replace (N - k - List.length (firstn (N - k) (data b)))%nat with 0%nat by lia. reflexivity. }
    rewrite Hskip'.
    split; [|split; [congruence|split; [reflexivity|split]]].
    + erewrite write_slice with (pre := firstn (N - k - 1) (data b')) (post := []) (mid := 45 :: digit_bytes 20 (Z.abs v) ++ line_tail line).
      * cbn [app]. reflexivity.
      * cbn [data]. rewrite app_nil_r. reflexivity.
      * apply firstn_length_le. rewrite Hdata', !app_length, Hpre', Hdl. lia.
      * cbn [List.length]. rewrite app_length, Hdl, Hlt. destruct line; lia.
    + rewrite app_length, Hdl. cbn [List.length]. lia.
    + lia.
  - cbn [oob bytes overrun fuel_ok final_start app].
    split; [|split; [congruence|split; [reflexivity|split]]].
    + erewrite write_slice with (pre := firstn (N - k) (data b)) (post := []) (mid := digit_bytes 20 (Z.abs v) ++ line_tail line).
      * reflexivity.
      * rewrite app_nil_r. exact Hdata'.
      * exact Hpre'.
      * rewrite app_length, Hdl, Hlt. destruct line; lia.
    + rewrite app_nil_l, Hdl. lia.
    + lia.
Qed.

(* fuel: 20 iterations are enough for every 64-bit magnitude, whatever the buffer *)
Lemma digit_loop_terminates : forall f m b start,
  0 <= m < 10 ^ Z.of_nat (S f) -> digit_loop (S f) m b start <> None.
Proof.
  induction f as [|f IH]; intros m b start Hm; rewrite digit_loop_S; cbv zeta.
  - change (10 ^ Z.of_nat 1) with 10 in Hm.
    rewrite (Z.div_small m 10) by lia. cbn [Z.eqb]. discriminate.
  - destruct (m / 10 =? 0); [discriminate|]. apply IH. rewrite pow10_S in Hm.
    split; [apply Z.div_pos; lia|]. apply Z.div_lt_upper_bound; lia.
Qed.

Lemma print_fuel_suffices : forall m b start, 0 <= m < 2 ^ 64 -> digit_loop print_fuel m b start <> None.
Proof.
  intros m b start Hm. destruct pow_facts as (_ & H64 & _ & H20).
  apply digit_loop_terminates. lia.
Qed.

Lemma zero_buf_length : forall line, List.length (zero_buf line) = Z.to_nat (buf_size line).
Proof. intros. unfold zero_buf. apply repeat_length. Qed.

Lemma print_i64_digits_gen : forall init v, in_i64 v -> List.length init = Z.to_nat (buf_size false) ->
  bytes (print_gen false init v) = decimal v.
Proof.
  intros init v Hv Hi. destruct (print_gen_spec false init v Hv Hi) as (H & _).
  rewrite H. apply app_nil_r.
Qed.

Lemma println_i64_digits_gen : forall init v, in_i64 v -> List.length init = Z.to_nat (buf_size true) ->
  bytes (print_gen true init v) = decimal v ++ [10].
Proof. intros init v Hv Hi. destruct (print_gen_spec true init v Hv Hi) as (H & _). exact H. Qed.

Lemma print_i64_digits : forall v, - 2 ^ 63 <= v < 2 ^ 63 -> bytes (print_i64 v) = decimal v.
Proof. intros v Hv. apply print_i64_digits_gen; [exact Hv|apply zero_buf_length]. Qed.

Lemma println_i64_digits : forall v, - 2 ^ 63 <= v < 2 ^ 63 -> bytes (println_i64 v) = decimal v ++ [10].
Proof. intros v Hv. apply println_i64_digits_gen; [exact Hv|apply zero_buf_length]. Qed.

Lemma print_never_overruns : forall line init v,
  - 2 ^ 63 <= v < 2 ^ 63 -> List.length init = Z.to_nat (buf_size line) ->
  let r := print_gen line init v in
  overrun r = false /\ fuel_ok r = true /\ 0 <= final_start r /\
  Z.of_nat (List.length (bytes r)) = buf_size line - final_start r.
Proof.
  intros line init v Hv Hi. destruct (print_gen_spec line init v Hv Hi) as (Hb & Ho & Hf & Hs & H0).
  cbv zeta. repeat split; try assumption.
  rewrite Hb, Hs, app_length. unfold buf_size. destruct line; cbn [line_tail List.length]; lia.
Qed.

(* ------------------------------------------------------------------ *)
(* decimal: sanity (it parses back) and atoll                          *)
(* ------------------------------------------------------------------ *)
Lemma string_bytes_roundtrip : forall s, string_of_bytes (bytes_of_string s) = s.
Proof.
  induction s as [|a s IH]; [reflexivity|]. cbn [bytes_of_string string_of_bytes]. rewrite IH. f_equal.
  unfold ascii_of_byte, byte_of_ascii. rewrite N2Z.id. apply ascii_N_embedding.
Qed.

Lemma decimal_parses_back : forall v,
  NilZero.int_of_string (string_of_bytes (decimal v)) = Some (Z.to_int v) /\ Z.of_int (Z.to_int v) = v.
Proof.
  intros v. unfold decimal. rewrite string_bytes_roundtrip. split; [|apply DecimalZ.of_to].
  apply NilZero.isi; destruct v; cbn [Z.to_int]; try discriminate;
    intro H; injection H as H; revert H; apply DecimalPos.Unsigned.to_uint_nonnil.
Qed.

Lemma atoll_digits_horner : forall l acc, Forall isdigit l ->
  atoll_digits (map (fun d => 48 + d) l) acc = horner l acc.
Proof.
  induction l as [|d l IH]; intros acc H; [reflexivity|].
  inversion H as [|? ? Hd Hl]; subst. cbn [map atoll_digits]. rewrite horner_cons.
  unfold isdigit in Hd.
  destruct (Z.leb_spec 48 (48 + d)); [|lia]. destruct (Z.leb_spec (48 + d) 57); [|lia]. cbn [andb].
  rewrite IH by assumption. f_equal. lia.
Qed.

Lemma atoll_unsigned_form : forall d r, isdigit d ->
  atoll ((48 + d) :: r) = clamp_i64 (atoll_digits ((48 + d) :: r) 0).
Proof. intros d r Hd. digit_split Hd; reflexivity. Qed.

Lemma atoll_decimal : forall v, - 2 ^ 63 <= v < 2 ^ 63 -> atoll (decimal v) = v.
Proof.
  intros v Hv. destruct pow_facts as (H63 & H64 & H19 & H20).
  rewrite (decimal_digs 19 v) by lia.
  pose proof (digs_range 20 (Z.abs v)) as Hr.
  pose proof (digs_horner 20 (Z.abs v) ltac:(lia)) as Hh.
  unfold sign_bytes, digit_bytes.
  destruct (Z.ltb_spec v 0) as [Hneg|Hpos].
  - change (atoll ([45] ++ map (fun d => 48 + d) (digs 20 (Z.abs v))))
      with (clamp_i64 (- atoll_digits (map (fun d => 48 + d) (digs 20 (Z.abs v))) 0)).
    rewrite atoll_digits_horner, Hh by assumption. unfold clamp_i64. lia.
  - rewrite app_nil_l.
    pose proof (digs_length_pos 19 (Z.abs v)) as Hl.
    destruct (digs 20 (Z.abs v)) as [|d r] eqn:E; [simpl in Hl; lia|].
    inversion Hr; subst. cbn [map]. rewrite atoll_unsigned_form by assumption.
    change ((48 + d) :: map (fun d => 48 + d) r) with (map (fun d => 48 + d) (d :: r)).
    rewrite atoll_digits_horner, Hh by assumption. unfold clamp_i64. lia.
Qed.

(* ------------------------------------------------------------------ *)
(* the driver                                                          *)
(* ------------------------------------------------------------------ *)
Lemma i32_low8 : forall x, i32_of_bits x mod 256 = x mod 256.
Proof.
  intros x. unfold i32_of_bits.
  assert (H31 : 2 ^ 31 = 2147483648) by reflexivity. assert (H32 : 2 ^ 32 = 4294967296) by reflexivity.
  rewrite H31, H32.
  pose proof (Z.div_mod (x + 2147483648) 4294967296 ltac:(lia)) as Hdm.
  replace ((x + 2147483648) mod 4294967296 - 2147483648)
    with (x + (- 16777216 * ((x + 2147483648) / 4294967296)) * 256) by lia.
  apply Z_mod_plus_full.
Qed.

Lemma argc_ok : forall n (argv : list (list Z)), List.length argv = S n ->
  negb (Z.of_nat (List.length argv) =? 1 + Z.of_nat n) = false.
Proof. intros n argv H. rewrite H. destruct (Z.eqb_spec (Z.of_nat (S n)) (1 + Z.of_nat n)); [reflexivity|lia]. Qed.

Lemma exit_status_low8 : forall n asm_main argv out rax,
  List.length argv = S n ->
  asm_main (map atoll (firstn n (tl argv))) = (out, rax) ->
  let r := driver n asm_main argv in
  d_status r = rax mod 256 /\ d_main_returns r = i32_of_bits rax /\ d_output r = out /\ 0 <= d_status r < 256.
Proof.
  intros n asm_main argv out rax Hlen Hcall. unfold driver. rewrite argc_ok by assumption.
  rewrite Hcall. cbn [d_status d_main_returns d_output]. rewrite i32_low8.
  repeat split; try reflexivity; apply Z.mod_pos_bound; lia.
Qed.

Lemma wrong_argc_reports : forall n asm_main argv,
  List.length argv <> S n ->
  let r := driver n asm_main argv in
  d_output r = error_arguments /\ d_calls r = [] /\ d_status r = 1.
Proof.
  intros n asm_main argv Hlen. unfold driver.
  destruct (Z.eqb_spec (Z.of_nat (List.length argv)) (1 + Z.of_nat n)) as [E|E]; [lia|].
  cbn [negb d_output d_calls d_status]. repeat split.
Qed.

Lemma arguments_reach_main : forall n asm_main prog vs,
  List.length vs = n -> Forall in_i64 vs ->
  d_calls (driver n asm_main (prog :: map decimal vs)) = [vs].
Proof.
  intros n asm_main prog vs Hlen Hvs. unfold driver.
  rewrite argc_ok by (cbn [List.length]; rewrite map_length; lia).
  cbn [tl]. replace n with (List.length (map decimal vs)) by (rewrite map_length; assumption).
  rewrite firstn_all.
  destruct (asm_main (map atoll (map decimal vs))) as [out rax]. cbn [d_calls]. f_equal.
  rewrite map_map. clear Hlen. induction Hvs as [|v vs Hv Hvs IH]; [reflexivity|].
  cbn [map]. rewrite IH. f_equal. apply atoll_decimal. exact Hv.
Qed.

(* ------------------------------------------------------------------ *)
(* move_arguments / setup                                              *)
(* ------------------------------------------------------------------ *)
Fixpoint seq_nat (k : nat) : list nat := match k with O => [] | S j => seq_nat j ++ [j] end.

(* the transliterated functions produce exactly the instruction lists of the compiled crates *)
Lemma x86_move_arguments_is_code :
  map x86_move_arguments (seq_nat 6) = map Some X86RT.move_arguments /\
  x86_move_arguments 6 = None /\ X86RT.max_main_args = 5 /\
  X86RT.nargs_passed_through = [0; 1; 2; 3; 4; 5].
Proof. repeat split; reflexivity. Qed.

Lemma a64_move_arguments_is_code :
  map a64_move_arguments (seq_nat 8) = map Some A64RT.move_arguments /\
  a64_move_arguments 8 = None /\ A64RT.max_main_args = 7 /\
  A64RT.nargs_passed_through = [0; 1; 2; 3; 4; 5; 6; 7].
Proof. repeat split; reflexivity. Qed.

(* registers: the integer half of environment position i, and the calling conventions *)
Lemma param_regs_are_code :
  map x86_param_reg (seq_nat 6) = X86RT.param_int_regs /\
  map a64_param_reg (seq_nat 8) = A64RT.param_int_regs.
Proof. split; reflexivity. Qed.

Lemma arg_regs_follow_abi :
  map (fun r => nth (Z.to_nat r) X86RT.reg_names ""%string) X86C.arg_regs = sysv_arg_names /\
  map (fun r => nth r A64RT.reg_names ""%string) (seq_nat 8) = aapcs64_arg_names /\
  A64C.HEAP = 0.
Proof. repeat split; reflexivity. Qed.

Ltac small_nat i H :=
  destruct i as [|[|[|[|[|[|[|[|i]]]]]]]]; try (exfalso; clear - H; lia).

Lemma move_arguments_x86_ok : forall n moves, (n <= 5)%nat ->
  nth_error X86RT.move_arguments n = Some moves ->
  forall (rf : regfile) i, (i < n)%nat ->
    exec_moves moves rf (x86_param_reg i) = rf (x86_arg (S i)).
Proof.
  intros n moves Hn Hm rf i Hi.
  small_nat n Hn; cbn in Hm; injection Hm as <-; small_nat i Hi; reflexivity.
Qed.

Lemma move_arguments_a64_ok : forall n moves, (n <= 7)%nat ->
  nth_error A64RT.move_arguments n = Some moves ->
  forall (rf : regfile) i, (i < n)%nat ->
    exec_moves moves rf (a64_param_reg i) = rf (Z.of_nat (S i)).
Proof.
  intros n moves Hn Hm rf i Hi.
  small_nat n Hn; cbn in Hm; injection Hm as <-; small_nat i Hi; reflexivity.
Qed.

(* the same for the transliterated functions *)
Lemma move_arguments_x86_model_ok : forall n moves, x86_move_arguments n = Some moves ->
  forall (rf : regfile) i, (i < n)%nat -> exec_moves moves rf (x86_param_reg i) = rf (x86_arg (S i)).
Proof.
  intros n moves Hm rf i Hi.
  assert (Hn : (n <= 5)%nat).
  { destruct n as [|[|[|[|[|[|n]]]]]]; try lia. exfalso.
    cbn [x86_move_arguments] in Hm. discriminate Hm. }
  small_nat n Hn; cbn in Hm; injection Hm as <-; small_nat i Hi; reflexivity.
Qed.

(* the whole prologue, every instruction between the entry label and the program's code:
   parameters arrive, and so does the heap pointer, whatever the other instructions write *)
Lemma setup_x86_ok : forall n effects, (n <= 5)%nat ->
  nth_error X86RT.setup_effects n = Some effects ->
  forall (rf : regfile) (havoc : nat -> Z),
    let rf' := exec_effects effects havoc 0 rf in
    (forall i, (i < n)%nat -> rf' (x86_param_reg i) = rf (x86_arg (S i))) /\
    rf' X86C.HEAP = rf (x86_arg 0).
Proof.
  intros n effects Hn Hm rf havoc.
  small_nat n Hn; cbn in Hm; injection Hm as <-; (split; [intros i Hi; small_nat i Hi; reflexivity|reflexivity]).
Qed.

Lemma setup_a64_ok : forall n effects, (n <= 7)%nat ->
  nth_error A64RT.setup_effects n = Some effects ->
  forall (rf : regfile) (havoc : nat -> Z),
    let rf' := exec_effects effects havoc 0 rf in
    (forall i, (i < n)%nat -> rf' (a64_param_reg i) = rf (Z.of_nat (S i))) /\
    rf' A64C.HEAP = rf 0.
Proof.
  intros n effects Hn Hm rf havoc.
  small_nat n Hn; cbn in Hm; injection Hm as <-; (split; [intros i Hi; small_nat i Hi; reflexivity|reflexivity]).
Qed.

(* ------------------------------------------------------------------ *)
(* command line -> parameter registers, end to end                     *)
(* ------------------------------------------------------------------ *)
(* what the calling convention promises at the entry of asm_main(heap, a1, .., an) (trusted, not proved) *)
Definition entry_regs (argreg : nat -> Z) (heap : Z) (args : list Z) (rf : regfile) : Prop :=
  rf (argreg O) = heap /\ forall i, (i < List.length args)%nat -> rf (argreg (S i)) = nth i args 0.

Lemma x86_arguments_end_to_end : forall n vs asm_main prog effects heap (rf : regfile) havoc,
  (n <= 5)%nat -> List.length vs = n -> Forall in_i64 vs ->
  nth_error X86RT.setup_effects n = Some effects ->
  (forall args, In args (d_calls (driver n asm_main (prog :: map decimal vs))) -> entry_regs x86_arg heap args rf) ->
  let rf' := exec_effects effects havoc 0 rf in
  (forall i, (i < n)%nat -> rf' (x86_param_reg i) = nth i vs 0) /\ rf' X86C.HEAP = heap.
Proof.
  intros n vs asm_main prog effects heap rf havoc Hn Hlen Hvs Heff Hentry.
  rewrite (arguments_reach_main n asm_main prog vs Hlen Hvs) in Hentry.
  destruct (Hentry vs (or_introl eq_refl)) as (Hheap & Hargs).
  destruct (setup_x86_ok n effects Hn Heff rf havoc) as (Hp & Hh).
  split.
  - intros i Hi. rewrite (Hp i Hi). apply Hargs. lia.
  - rewrite Hh. exact Hheap.
Qed.

Lemma a64_arguments_end_to_end : forall n vs asm_main prog effects heap (rf : regfile) havoc,
  (n <= 7)%nat -> List.length vs = n -> Forall in_i64 vs ->
  nth_error A64RT.setup_effects n = Some effects ->
  (forall args, In args (d_calls (driver n asm_main (prog :: map decimal vs))) -> entry_regs Z.of_nat heap args rf) ->
  let rf' := exec_effects effects havoc 0 rf in
  (forall i, (i < n)%nat -> rf' (a64_param_reg i) = nth i vs 0) /\ rf' A64C.HEAP = heap.
Proof.
  intros n vs asm_main prog effects heap rf havoc Hn Hlen Hvs Heff Hentry.
  rewrite (arguments_reach_main n asm_main prog vs Hlen Hvs) in Hentry.
  destruct (Hentry vs (or_introl eq_refl)) as (Hheap & Hargs).
  destruct (setup_a64_ok n effects Hn Heff rf havoc) as (Hp & Hh).
  split.
  - intros i Hi. rewrite (Hp i Hi). apply Hargs. lia.
  - rewrite Hh. exact Hheap.
Qed.
