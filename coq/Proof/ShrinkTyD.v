(* Proof/ShrinkTyD.v (C12, fragment 2) - cases of the typing lemma: exit, print, ifc, call, literal and
   operation (against mu~ and against a covariable), renaming cuts, the critical pair at i64. *)
From Coq Require Import List ZArith NArith String Bool Lia.
From SCC Require Import Base.Sexp Lang.SynUtil Lang.CoreSyn Lang.AxSyn Sem.FsCheck Model.Shrink Model.LinCheck Model.WtDefs
     Proof.ShrinkProof Proof.ShrinkRn Proof.ShrinkSimBase Proof.ShrinkSimData Proof.ShrinkSimEta Proof.ShrinkTfv
     Proof.ShrinkTyA Proof.ShrinkTyB Proof.ShrinkTyC.
From SCC Require Sem.AxCheck.
Import ListNotations.
Open Scope list_scope.

Ltac tstart :=
  unfold TLs; intros lbl G rho th st t st' Ga Hinv Hck Hub Hib Hnc Hdecl Hsh Hg Hgi Hlin Hlw; rewrite shrink_stmt_S in Hsh.
Ltac occ := cbn [occurs occ_term]; tauto.
Lemma negb_mem_notin' : forall x l, negb (mem_id x l) = true -> ~ In x l.
Proof. intros x l H Hin. apply mem_id_in in Hin. rewrite Hin in H. discriminate. Qed.
Lemma id_le_le' : forall m x, id_le m x = true -> (cid_id x <= m)%N.
Proof. intros m x H. now apply N.leb_le. Qed.

Section TyD.
Variable p : fsprog.
Variable ds' : list def.
Notation data := (fspdata p).
Notation codata := (fspcodata p).
Notation defs := (fspdefs p).
Notation m0 := (fspmax p).
Notation D := (data ++ [cont_int]).
Notation ts := (ts_of p).
Notation TLs := (TLs p ds').
Notation TLn := (TLn p ds').
Hypothesis Hdisj : forall n, find_decl data n <> None -> find_decl codata n = None.
Hypothesis Hcont : find_decl data cont_name = None /\ find_decl codata cont_name = None.
Hypothesis Hds_find : forall d, In d ds' -> find (fun d' => ident_eqb (dname d') (dname d)) ds' = Some d.
Hypothesis Hds_defs : forall d, In d defs -> exists t, In (mkd (fsdname d) (shrink_context codata (fsdctx d)) t) ds'.

Lemma bound_skip : forall Ga y c t v c' t', AxCheck.bound Ga y c t = None -> ~ In (idn v) (ids Ga) ->
  AxCheck.bound (mkb v c' t' :: Ga) y c t = None.
Proof.
  intros Ga y c t v c' t' H Hv. unfold AxCheck.bound in *. cbn [AxCheck.lookup_b bvar].
  destruct (AxCheck.lookup_b Ga (idn y)) as [b|] eqn:E; [|discriminate].
  destruct (N.eqb (idn v) (idn y)) eqn:Q; [|exact H]. apply N.eqb_eq in Q. exfalso. apply Hv. rewrite Q. eapply lookup_b_in; eauto.
Qed.
Lemma decl_push : forall G x c t, decl_ok p G -> ty_ok data codata t = true -> decl_ok p (mkcb x c t :: G).
Proof. intros G x c t H Ht b [<-|Hb]; [exact Ht | now apply H]. Qed.
Lemma lifted_in'_mono : forall st st' nd, lifted_in' ds' st' -> s_lifted st' = nd ++ s_lifted st -> lifted_in' ds' st.
Proof. intros st st' nd H E d Hd. apply H. rewrite E. apply in_or_app. now right. Qed.
Lemma ginv_app_G : forall Ga G ctx st st', ginv p Ga G st st' -> ginv p Ga (ctx ++ G) st st'.
Proof.
  intros Ga G ctx st st' H i Hi. destruct (H i Hi) as [[A|A] Bn]; (split; [|exact Bn]); [left; rewrite cids_app; apply in_or_app; now right | now right].
Qed.

Lemma tl_exit : forall k v, TLs (S k) (FsExit v).
Proof.
  intros k v. tstart. cbn [rn_stmt shrink_step] in Hsh. unfold shrink_identifier in Hsh. inv Hsh.
  cbn [check_stmt] in Hck. cbn [nc_stmt] in Hnc. split; [|split; [reflexivity | exact Hlw]].
  cbn [arn]. apply ck_exit. apply (occ_bound p _ _ _ _ v CPrd CI64 Hg Hck Hnc eq_refl).
Qed.

Lemma tl_print : forall k, TLn k -> forall nl a nx, TLs (S k) (FsPrint nl a nx).
Proof.
  intros k IH nl a nx. tstart. cbn [rn_stmt shrink_step] in Hsh. unfold shrink_identifier in Hsh.
  destruct (shrink_stmt k _ (rn_stmt rho nx) st) as [[t1 st1]|] eqn:E1; [|discriminate Hsh]. cbn [sbind] in Hsh. inv Hsh.
  rewrite check_stmt_print_eq in Hck. apply seq_none in Hck as [Hca Hck].
  rewrite ib_stmt_print in Hib. apply andb_prop in Hib as [_ Hib]. cbn [ub_stmt] in Hub.
  cbn [nc_stmt] in Hnc. apply andb_prop in Hnc as [Hna Hncn].
  destruct (IH nx lbl G rho th st t1 st' Ga Hinv Hck Hub Hib Hncn Hdecl E1) as (T1 & T2 & T3); auto.
  { eapply grel_weaken; [exact Hg | intros x Hx; occ]. }
  split; [|split; [exact T2 | exact T3]]. cbn [arn]. apply ck_print; [|exact T1].
  apply (occ_bound p _ _ _ _ a CPrd CI64 Hg Hca Hna (or_introl eq_refl)).
Qed.

Lemma tl_ifc : forall k, TLn k -> forall so a b s1 s2, TLs (S k) (FsIfC so a b s1 s2).
Proof.
  intros k IH so a b s1 s2. tstart. cbn [rn_stmt shrink_step] in Hsh. unfold shrink_identifier in Hsh.
  destruct (shrink_stmt k _ (rn_stmt rho s1) st) as [[u1 st1]|] eqn:E1; [|discriminate Hsh]. cbn [sbind] in Hsh.
  destruct (shrink_stmt k _ (rn_stmt rho s2) st1) as [[u2 st2]|] eqn:E2; [|discriminate Hsh]. cbn [sbind] in Hsh. inv Hsh.
  rewrite check_stmt_ifc_eq in Hck. apply seq_none in Hck as [Hca Hck]. apply seq_none in Hck as [Hcb Hck]. apply seq_none in Hck as [Hc1 Hc2].
  rewrite ib_stmt_ifc in Hib. apply andb_prop in Hib as [Hib Hib2]. apply andb_prop in Hib as [_ Hib1].
  cbn [ub_stmt] in Hub. apply andb_prop in Hub as [Hub1 Hub2].
  cbn [nc_stmt] in Hnc. apply andb_prop in Hnc as [Hnc Hnc2]. apply andb_prop in Hnc as [Hnc Hnc1]. apply andb_prop in Hnc as [Hna Hnb].
  destruct (shrink_mono p _ _ _ _ _ _ _ Hib1 (inv_st _ _ _ _ _ Hinv) E1) as [Hm1 (nd1 & Hl1)].
  assert (Hinv1 : inv p G rho th st1) by (eapply inv_st_mono; eauto).
  destruct (shrink_mono p _ _ _ _ _ _ _ Hib2 (inv_st _ _ _ _ _ Hinv1) E2) as [Hm2 (nd2 & Hl2)].
  destruct (IH s1 lbl G rho th st u1 st1 Ga Hinv Hc1 Hub1 Hib1 Hnc1 Hdecl E1) as (T1 & T2 & T3); auto.
  { eapply grel_weaken; [exact Hg | intros x Hx; occ]. }
  { eapply ginv_sub; eauto; lia. }
  { eapply lifted_in'_mono; eauto. }
  destruct (IH s2 lbl G rho th st1 u2 st' Ga Hinv1 Hc2 Hub2 Hib2 Hnc2 Hdecl E2) as (U1 & U2 & U3); auto.
  { eapply grel_weaken; [exact Hg | intros x Hx; occ]. }
  { eapply ginv_sub; eauto; lia. }
  split; [|split; [cbn [pre_linear]; now rewrite T2, U2 | exact U3]].
  cbn [arn]. apply ck_ifc; auto.
  - apply (occ_bound p _ _ _ _ a CPrd CI64 Hg Hca Hna (or_introl eq_refl)).
  - destruct b as [b|]; [|reflexivity]. cbn [option_map]. apply (occ_bound p _ _ _ _ b CPrd CI64 Hg Hcb Hnb). cbn [occurs]. auto.
Qed.

Lemma tl_call : forall k f args, TLs (S k) (FsCall f args).
Proof.
  intros k f args. tstart. cbn [rn_stmt shrink_step] in Hsh. unfold shrink_identifier in Hsh. inv Hsh.
  cbn [check_stmt] in Hck. destruct (find (fun d => cident_eqb (fsdname d) f) defs) as [d|] eqn:Hfd; [|discriminate Hck].
  pose proof (find_some _ _ Hfd) as [Hd Hname]. apply cident_eqb_eq in Hname. cbn [nc_stmt] in Hnc.
  split; [|split; [reflexivity | exact Hlw]]. cbn [arn].
  destruct (Hds_defs d Hd) as [td Htd]. pose proof (Hds_find _ Htd) as Hf. cbn [dname] in Hf. rewrite Hname in Hf.
  eapply ck_call; [exact Hf|]. cbn [dctx]. intros what.
  eapply args_ok_shrink; [exact Hg | | eapply fargs_sig; eauto].
  intros a Ha. split; [eapply args_in_G; eauto | cbn [occurs]; unfold occ_ctx, cvars; now apply in_map].
Qed.

(* pushing an old Core binder that keeps its name *)
Lemma push_old : forall (need need' : cident -> Prop) Ga G rho th st st' x c t,
  inv p G rho th st -> grel p need (fun y => th (rho y)) Ga G -> ginv p Ga G st st' ->
  ~ In (cid_id x) (cids G) -> (cid_id x <= m0)%N -> (forall y, need' y -> need y) ->
  AxCheck.fresh_for Ga x = None /\
  grel p need' (fun y => th (rho y)) (mkb x (bchi (shrink_binding codata (mkcb x c t))) (bty (shrink_binding codata (mkcb x c t))) :: Ga) (mkcb x c t :: G) /\
  ginv p (mkb x (bchi (shrink_binding codata (mkcb x c t))) (bty (shrink_binding codata (mkcb x c t))) :: Ga) (mkcb x c t :: G) st st'.
Proof.
  intros need need' Ga G rho th st st' x c t Hinv Hg Hgi Hx Hxm Hn.
  assert (Hni : ~ In (idn x) (ids Ga)) by (eapply ginv_old; eauto).
  split; [now apply fresh_for_intro|]. split.
  - eapply grel_push with (pi := fun y => th (rho y)) (need := need); [exact Hg | exact Hni | |].
    + intros b Hb Hb'. split; [now apply Hn | reflexivity].
    + now rewrite (inv_self p _ _ _ _ _ Hinv Hx Hxm).
  - apply ginv_push_old; auto. apply (inv_st _ _ _ _ _ Hinv).
Qed.

Lemma tl_lit_mu : forall k, TLn k -> forall z ty c x s' t', TLs (S k) (FsCut (FsLit z) ty (FsMu c x s' t')).
Proof.
  intros k IH z ty c x s' t'. tstart. cbn [rn_stmt rn_term shrink_step shrink_cut] in Hsh. unfold shrink_identifier in Hsh.
  destruct (shrink_stmt k _ (rn_stmt rho s') st) as [[t1 st1]|] eqn:E1; [|discriminate Hsh]. cbn [sbind] in Hsh. inv Hsh.
  rewrite check_stmt_cut_eq in Hck. apply seq_none in Hck as [Hty Hck]. apply seq_none in Hck as [Hcp Hck].
  cbn [check_term] in Hcp. apply seq_none in Hcp as [_ Hcp]. apply fensure_none in Hcp. apply cty_eqb_eq_i64 in Hcp. subst ty.
  rewrite check_term_mu_eq in Hck. apply seq_none in Hck as [_ Hck]. apply seq_none in Hck as [_ Hck]. cbn [opp] in Hck.
  rewrite ib_stmt_cut, ib_term_mu in Hib. apply andb_prop in Hib as [_ Hib]. apply andb_prop in Hib as [Hix Hib]. apply id_le_le' in Hix.
  cbn [ub_stmt ub_term andb] in Hub. apply andb_prop in Hub as [Hux Hub]. apply negb_mem_notin' in Hux.
  pose proof (nc_cut_mu_r _ _ _ _ _ _ _ Hnc) as Hncs.
  destruct (push_old _ (fun y => occurs y s') _ _ _ _ _ _ x CPrd CI64 Hinv Hg Hgi Hux Hix ltac:(intros y Hy; occ)) as (Hf & Hg' & Hgi').
  destruct (IH s' lbl _ rho th st t1 st' _ (inv_push p _ _ _ _ x CPrd CI64 Hinv Hux Hix) Hck Hub Hib Hncs (decl_push _ x CPrd CI64 Hdecl eq_refl) E1 Hg' Hgi' Hlin Hlw) as (T1 & T2 & T3).
  split; [|split; [exact T2 | exact T3]]. cbn [arn]. apply ck_literal; [exact Hf | exact T1].
Qed.

Lemma tl_op_mu : forall k, TLn k -> forall a o b ty c x s' t', TLs (S k) (FsCut (FsOp a o b) ty (FsMu c x s' t')).
Proof.
  intros k IH a o b ty c x s' t'. tstart. cbn [rn_stmt rn_term shrink_step shrink_cut] in Hsh. unfold shrink_identifier in Hsh.
  destruct (shrink_stmt k _ (rn_stmt rho s') st) as [[t1 st1]|] eqn:E1; [|discriminate Hsh]. cbn [sbind] in Hsh. inv Hsh.
  rewrite check_stmt_cut_eq in Hck. apply seq_none in Hck as [Hty Hck]. apply seq_none in Hck as [Hcp Hck].
  cbn [check_term] in Hcp. apply seq_none in Hcp as [_ Hcp]. apply seq_none in Hcp as [Hi Hcp].
  apply fensure_none in Hi. apply cty_eqb_eq_i64 in Hi. subst ty. apply seq_none in Hcp as [Hca Hcb].
  rewrite check_term_mu_eq in Hck. apply seq_none in Hck as [_ Hck]. apply seq_none in Hck as [_ Hck]. cbn [opp] in Hck.
  rewrite ib_stmt_cut, ib_term_mu in Hib. apply andb_prop in Hib as [_ Hib]. apply andb_prop in Hib as [Hix Hib]. apply id_le_le' in Hix.
  cbn [ub_stmt ub_term andb] in Hub. apply andb_prop in Hub as [Hux Hub]. apply negb_mem_notin' in Hux.
  pose proof (nc_cut_mu_r _ _ _ _ _ _ _ Hnc) as Hncs. apply nc_cut in Hnc as [Hnco _]. cbn [nc_term] in Hnco. apply andb_prop in Hnco as [Hna Hnb].
  destruct (push_old _ (fun y => occurs y s') _ _ _ _ _ _ x CPrd CI64 Hinv Hg Hgi Hux Hix ltac:(intros y Hy; occ)) as (Hf & Hg' & Hgi').
  destruct (IH s' lbl _ rho th st t1 st' _ (inv_push p _ _ _ _ x CPrd CI64 Hinv Hux Hix) Hck Hub Hib Hncs (decl_push _ x CPrd CI64 Hdecl eq_refl) E1 Hg' Hgi' Hlin Hlw) as (T1 & T2 & T3).
  split; [|split; [exact T2 | exact T3]]. cbn [arn]. apply ck_op; [| | exact Hf | exact T1].
  - apply (occ_bound p _ _ _ _ a CPrd CI64 Hg Hca Hna). occ.
  - apply (occ_bound p _ _ _ _ b CPrd CI64 Hg Hcb Hnb). occ.
Qed.

(* the invocation of an integer continuation *)
Lemma ck_invoke_ret : forall Ga k x', AxCheck.bound Ga k Cns (Decl cont_name) = None -> ~ In (idn x') (ids Ga) ->
  acheck ts ds' (mkb x' Ext I64 :: Ga) (Invoke k ret_name cont_ty [mkb x' Ext I64]) = None.
Proof.
  intros Ga k x' Hk Hx. unfold cont_ty, shrink_identifier.
  eapply ck_invoke; [apply (find_type_cont p Hcont) | apply find_xtor_shrink; reflexivity | now apply bound_skip |].
  intros what. cbn. unfold AxCheck.bound. cbn [AxCheck.lookup_b bvar]. rewrite N.eqb_refl. reflexivity.
Qed.

Lemma tl_lit_var : forall k z ty c b t', TLs (S k) (FsCut (FsLit z) ty (FsXVar c b t')).
Proof.
  intros k z ty c b t'. tstart. cbn [rn_stmt rn_term shrink_step shrink_cut] in Hsh. unfold shrink_identifier, fresh_var, fresh_identifier in Hsh. inv Hsh.
  rewrite check_stmt_cut_eq in Hck. apply seq_none in Hck as [Hty Hck]. apply seq_none in Hck as [Hcp Hck].
  cbn [check_term] in Hcp. apply seq_none in Hcp as [_ Hcp]. apply fensure_none in Hcp. apply cty_eqb_eq_i64 in Hcp. subst ty.
  cbn [check_term] in Hck. apply seq_none in Hck as [_ Hck]. apply seq_none in Hck as [_ Hck].
  apply nc_cut in Hnc as [_ Hncb]. cbn [nc_term] in Hncb.
  set (x' := ("x"%string, N.succ (s_max st))) in *.
  assert (Hx' : th x' = x').
  { apply (inv_th _ _ _ _ _ Hinv). intros Hin'. apply (inv_le _ _ _ _ _ Hinv) in Hin'. pose proof (inv_st _ _ _ _ _ Hinv). cbn [cid_id snd x'] in Hin'. lia. }
  assert (Hni : ~ In (idn x') (ids Ga)) by (eapply ginv_fresh; [exact Hgi | cbn [s_max idn snd x']; lia]).
  split; [|split; [reflexivity | exact Hlw]].
  cbn [arn invoke_ret]. unfold arn_ctx, arn_binding, shrink_identifier. cbn [map bvar bchi bty]. rewrite Hx'.
  apply ck_literal; [now apply fresh_for_intro|]. apply ck_invoke_ret; [|exact Hni].
  apply (occ_bound p _ _ _ _ b CCns CI64 Hg Hck Hncb). occ.
Qed.

Lemma tl_op_var : forall k a o b ty c v t', TLs (S k) (FsCut (FsOp a o b) ty (FsXVar c v t')).
Proof.
  intros k a o b ty c v t'. tstart. cbn [rn_stmt rn_term shrink_step shrink_cut] in Hsh. unfold shrink_identifier, fresh_var, fresh_identifier in Hsh. inv Hsh.
  rewrite check_stmt_cut_eq in Hck. apply seq_none in Hck as [Hty Hck]. apply seq_none in Hck as [Hcp Hck].
  cbn [check_term] in Hcp. apply seq_none in Hcp as [_ Hcp]. apply seq_none in Hcp as [Hi Hcp].
  apply fensure_none in Hi. apply cty_eqb_eq_i64 in Hi. subst ty. apply seq_none in Hcp as [Hca Hcb].
  cbn [check_term] in Hck. apply seq_none in Hck as [_ Hck]. apply seq_none in Hck as [_ Hck].
  apply nc_cut in Hnc as [Hnco Hncv]. cbn [nc_term] in Hnco, Hncv. apply andb_prop in Hnco as [Hna Hnb].
  set (x' := ("x"%string, N.succ (s_max st))) in *.
  assert (Hx' : th x' = x').
  { apply (inv_th _ _ _ _ _ Hinv). intros Hin'. apply (inv_le _ _ _ _ _ Hinv) in Hin'. pose proof (inv_st _ _ _ _ _ Hinv). cbn [cid_id snd x'] in Hin'. lia. }
  assert (Hni : ~ In (idn x') (ids Ga)) by (eapply ginv_fresh; [exact Hgi | cbn [s_max idn snd x']; lia]).
  split; [|split; [reflexivity | exact Hlw]].
  cbn [arn invoke_ret]. unfold arn_ctx, arn_binding, shrink_identifier. cbn [map bvar bchi bty]. rewrite Hx'.
  apply ck_op; [| | now apply fresh_for_intro |].
  - apply (occ_bound p _ _ _ _ a CPrd CI64 Hg Hca Hna). occ.
  - apply (occ_bound p _ _ _ _ b CPrd CI64 Hg Hcb Hnb). occ.
  - apply ck_invoke_ret; [|exact Hni]. apply (occ_bound p _ _ _ _ v CCns CI64 Hg Hck Hncv). occ.
Qed.
End TyD.
