(* C09 on AArch64: the two seeded defects of memory.rs, put into the model, REFUTE the refinement statements on concrete
   states (by evaluation of the ISA model): the theorems C09_a64_acquire_block_spill and C09_a64_load are statements that
   cannot be proved for those variants.
     defect 1  `acquire_block` into a spill slot initialises the header of the wrong block (`STR XZR, [HEAP]` instead of
               `STR XZR, [TEMP]` in the branch that takes the next block of the reuse list);
     defect 2  `register_freed` is not reset between the Release and the Share call of `load_fields` in `load_register`.
   Both leave every result of a program right for a long time (a leaked block; a clobbered X10 only when the shared
   object is loaded behind 13 or more variables): they were found by the heap-invariant runs, not by C07's result check. *)
From Coq Require Import List ZArith NArith String Bool Lia FMapPositive.
From SCC Require Import Base.Sexp Lang.AxSyn Sem.AxSem Model.Backend Model.A64 Sem.A64Sem Generated.Constants
     Proof.A64State Proof.A64Exec Proof.A64Mem Proof.A64MemOps Proof.A64MemLoad Proof.A64MemLoadChain.
From SCC Require Model.Heap Proof.X86MemStoreChain.
Import ListNotations.
Open Scope list_scope.
Open Scope Z_scope.

(* the state in which a piece of code placed at index 1 stops (it runs off its end) *)
Definition final_state (cs : list acode) (s : astate) : option astate :=
  match run_chunk 2000 (mk_image cs) 1%positive s with Finished _ s' => Some s' | More _ _ => None end.

(* ---------- defect 1 ---------- *)
Definition acquire_block_bad (new_block : atemp) (lc : N) : list acode * N :=
  let c0 := match new_block with
            | AR r => [MOVR r HEAP]
            | AS p => [MOVR TEMP HEAP; STR HEAP SP (stack_offset p)]
            end ++ [LDR HEAP HEAP NEXT_ELEMENT_OFFSET] in
  let then_branch_free := [ADDI FREE HEAP (field_offset Fst FIELDS_PER_BLOCK)] in
  let '(ef, lc1) := erase_fields HEAP lc in
  let else_branch_free := [STR XZR HEAP NEXT_ELEMENT_OFFSET] ++ ef in
  let '(inner, lc2) := if_zero_then_else FREE then_branch_free else_branch_free lc1 in
  let then_branch := [MOVR HEAP FREE; LDR FREE FREE NEXT_ELEMENT_OFFSET] ++ inner in
  let else_branch := match new_block with
                     | AR r => [STR XZR r REFERENCE_COUNT_OFFSET]
                     | AS _ => [STR XZR HEAP REFERENCE_COUNT_OFFSET]      (* <- the seeded defect *)
                     end in
  let '(outer, lc3) := if_zero_then_else HEAP then_branch else_branch lc2 in
  (c0 ++ outer, lc3).

(* the reuse list holds two blocks: HEAP -> B0 -> B1 -> 0; the deferred list is empty *)
Definition d1_sp : Z := STACK_TOP - 4096.
Definition d1_state : astate :=
  let r := rset (rset (rset (init_state []) SP (Some d1_sp)) HEAP (Some HEAP_BASE)) FREE (Some (HEAP_BASE + 128)) in
  hset r HEAP_BASE (HEAP_BASE + 64).

(* the good code refines Heap.acquire: the header of the acquired block B0 is cleared, the link of B1 stays;
   the defective code leaves the free-list link in the acquired block (a count of 2^28 + 64) and cuts the reuse list
   behind B1's predecessor: the abstraction of the final state is NOT Heap.acquire of the abstraction of the first *)
Example defect1_refutes_acquire_spill :
  let a := abs_heap (HEAP_BASE + 128) d1_state in
  fst (Heap.acquire a) = HEAP_BASE /\ Heap.hdr (Heap.m (snd (Heap.acquire a)) HEAP_BASE) = 0 /\
  (exists s', final_state (fst (acquire_block (AS 1) 0)) d1_state = Some s' /\
              sget s' d1_sp 1 = Some HEAP_BASE /\ hword s' HEAP_BASE = 0 /\ rget s' HEAP = Some (HEAP_BASE + 64)) /\
  (exists s', final_state (fst (acquire_block_bad (AS 1) 0)) d1_state = Some s' /\
              sget s' d1_sp 1 = Some HEAP_BASE /\ hword s' HEAP_BASE = HEAP_BASE + 64 /\
              ~ st_eqB (abs_heap (HEAP_BASE + 128) s') (snd (Heap.acquire a))).
Proof.
  cbv zeta. split; [vm_compute; reflexivity|]. split; [vm_compute; reflexivity|]. split.
  - eexists. split; [vm_compute; reflexivity|]. split; [vm_compute; reflexivity|]. split; vm_compute; reflexivity.
  - eexists. split; [vm_compute; reflexivity|]. split; [vm_compute; reflexivity|]. split; [vm_compute; reflexivity|].
    intros (_ & _ & _ & E).
    assert (B : is_blk HEAP_BASE) by (exists 0; split; [lia|]; split; [reflexivity|]; unfb; lia).
    specialize (E HEAP_BASE B). apply (f_equal Heap.hdr) in E. vm_compute in E. discriminate.
Qed.

(* ---------- defect 2 ---------- *)
Definition load_register_bad (block : areg) (to_load existing : ctx) (lc : N) : res (list acode * N) :=
  dor r1 <- load_fields (S (List.length to_load)) to_load existing Last Release false lc;
  let '(then_branch, freed1, lc1) := r1 in
  dor r2 <- load_fields (S (List.length to_load)) to_load existing Last Share freed1 lc1;   (* <- flag not reset *)
  let '(else_body, _, lc2) := r2 in
  let else_branch := [SUBI TEMP2 TEMP2 1; STR TEMP2 block REFERENCE_COUNT_OFFSET] ++ else_body in
  Ok (if_zero_then_else TEMP2 then_branch else_branch lc2).
Definition a_load_bad (to_load existing : ctx) (lc : N) : res (list acode * N) :=
  match to_load with
  | [] => Ok ([], lc)
  | _ =>
      dor memory_block <- a_fresh Fst existing;
      match memory_block with
      | AR r =>
          dor c <- load_register_bad r to_load existing lc;
          Ok ([LDR TEMP2 r REFERENCE_COUNT_OFFSET] ++ fst c, snd c)
      | AS p =>
          dor c <- load_register_bad TEMP to_load existing lc;
          Ok ([LDR TEMP SP (stack_offset p); LDR TEMP2 TEMP REFERENCE_COUNT_OFFSET] ++ fst c, snd c)
      end
  end.
Definition ex13_code_bad : list acode :=
  match a_load_bad X86MemStoreChain.ex5_store ex13_existing 0 with Ok (cs, _) => cs | Err _ => [] end.

(* the shared two-block object of Proof/A64MemLoadChain.v `a64_load_example` behind 13 variables (X10 = 777 is the first
   temporary of variable 3 = `tpos 6`): the good code restores X10, the defective code does not (the Share branch reloads
   it from slot 0, which holds nothing) - the conjunct "the temporaries of the existing variables are unchanged" of
   C09_a64_load is false for it *)
Example defect2_refutes_load :
  lget ex13_state A64MemLoadChain.ex_sp (tpos 6) = Some 777 /\ (6 < 2 * N.of_nat (List.length ex13_existing))%N /\
  (exists s', final_state ex13_code ex13_state = Some s' /\ lget s' A64MemLoadChain.ex_sp (tpos 6) = Some 777) /\
  (exists s', final_state ex13_code_bad ex13_state = Some s' /\ lget s' A64MemLoadChain.ex_sp (tpos 6) <> Some 777).
Proof.
  split; [vm_compute; reflexivity|]. split; [vm_compute; reflexivity|]. split.
  - eexists. split; vm_compute; reflexivity.
  - eexists. split; [vm_compute; reflexivity|]. vm_compute. discriminate.
Qed.
Print Assumptions defect1_refutes_acquire_spill.
Print Assumptions defect2_refutes_load.
