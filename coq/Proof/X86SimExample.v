(* C06: a concrete program of the integer fragment on which every hypothesis of
   x86_codegen_simulates_int is evaluated, and both sides of its conclusion are computed:
   literals, all kinds of operators (incl. a division by zero), both forms of the conditional, an explicit
   substitution followed by a call, prints with and without newline, two definitions. *)
From Coq Require Import List ZArith NArith String Bool.
From SCC Require Import Base.Sexp Lang.AxSyn Sem.AxSem Model.Backend Model.X86 Sem.X86Sem Sem.X86Wf
     Model.Linearize Model.LinCheck Proof.X86SimRel Proof.X86SimProg Proof.X86SimTop.
Import ListNotations.
Open Scope string_scope.
Open Scope Z_scope.

Definition id_ (s : string) (n : N) : ident := (s, n).
Definition ib (s : string) (n : N) : binding := mkb (id_ s n) Ext I64.

Definition ex_main : def :=
  mkd (id_ "main" 0) [ib "x" 1]
    (Literal 10 (id_ "y" 2)
    (Op (id_ "x" 1) Sum (id_ "y" 2) (id_ "z" 3)
    (PrintI64 true (id_ "z" 3)
    (IfC Lt (id_ "x" 1) (Some (id_ "y" 2))
       (Substitute [(ib "a" 4, id_ "z" 3); (ib "b" 5, id_ "x" 1); (ib "c" 6, id_ "z" 3)] (Call (id_ "f" 0) []))
       (Literal 10 (id_ "k" 4)
       (Op (id_ "x" 1) Sub (id_ "k" 4) (id_ "m" 5)
       (Op (id_ "z" 3) Div (id_ "m" 5) (id_ "w" 6)
       (Op (id_ "w" 6) Rem (id_ "y" 2) (id_ "r" 7)
       (PrintI64 false (id_ "r" 7)
       (Exit (id_ "w" 6))))))))))).
Definition ex_f : def :=
  mkd (id_ "f" 0) [ib "a" 1; ib "b" 2; ib "c" 3]
    (Literal (-7) (id_ "d" 4)
    (Op (id_ "a" 1) Prod (id_ "d" 4) (id_ "e" 5)
    (PrintI64 false (id_ "e" 5)
    (IfC Eq (id_ "b" 2) None
       (Exit (id_ "c" 3))
       (Substitute [(ib "x" 1, id_ "b" 2)] (Call (id_ "main" 0) [])))))).
Definition ex_prog : prog := mkp [ex_main; ex_f] [] 10.

Definition ex_code : list xcode :=
  match x86_compile ex_prog 0 with Ok (cs, _, _) => cs | Err _ => [] end.

Lemma ex_hypotheses :
  int_frag ex_prog = true /\ plain_names ex_prog = true /\ lin_check_prog ex_prog = true /\
  (exists n lc', x86_compile ex_prog 0 = Ok (ex_code, n, lc')) /\ asm_wf ex_code = None.
Proof. repeat split; try (vm_compute; reflexivity). eexists _, _. vm_compute. reflexivity. Qed.

(* x = 3: main prints 13, calls f(13, 3, 13), which prints -91 and calls main(3) ... the loop never ends
   (fuel); x = 0: f exits with 10; x = 12: the else branch divides 22 by 2; x = 10: division by zero *)
Lemma ex_runs :
  run_linear 50 ex_prog [0] = ([(true, 10); (false, -70)], OExit 10) /\
  fst (run_x86 10 1000 ex_code [0]) = ([(true, 10); (false, -70)], OExit 10) /\
  run_linear 50 ex_prog [12] = ([(true, 22); (false, 1)], OExit 11) /\
  fst (run_x86 10 1000 ex_code [12]) = ([(true, 22); (false, 1)], OExit 11) /\
  run_linear 50 ex_prog [10] = ([(true, 20)], OUndef "div0") /\
  fst (run_x86 10 1000 ex_code [10]) = ([(true, 20)], OUndef "div0").
Proof. repeat split; vm_compute; reflexivity. Qed.

(* an AxCut program BEFORE linearization (the shape `shrink` produces for a `main` that calls nothing:
   variables are used several times, nothing is dropped explicitly); the model of the linearizer inserts
   the explicit substitutions, and its output meets every x86-side hypothesis of
   C01_compile_correct_int_partial *)
Definition ex_named : prog :=
  mkp [mkd (id_ "main" 0) [ib "x" 1; ib "u" 2]
        (Literal 1 (id_ "one" 3)
        (Op (id_ "x" 1) Sum (id_ "one" 3) (id_ "y" 4)
        (PrintI64 true (id_ "y" 4)
        (IfC Le (id_ "y" 4) None
           (Exit (id_ "x" 1))
           (Op (id_ "y" 4) Prod (id_ "y" 4) (id_ "q" 5)
           (PrintI64 false (id_ "q" 5)
           (Exit (id_ "y" 4))))))))] [] 5.
Definition ex_named_code : list xcode :=
  match x86_compile (linearize ex_named) 0 with Ok (cs, _, _) => cs | Err _ => [] end.
Lemma ex_named_hypotheses :
  prog_ok ex_named = true /\ int_frag (linearize ex_named) = true /\ plain_names (linearize ex_named) = true /\
  (exists n lc', x86_compile (linearize ex_named) 0 = Ok (ex_named_code, n, lc')) /\ asm_wf ex_named_code = None /\
  run_named 50 ex_named [6; 0] = ([(true, 7); (false, 49)], OExit 7) /\
  fst (run_x86 10 1000 ex_named_code [6; 0]) = ([(true, 7); (false, 49)], OExit 7).
Proof. repeat split; try (vm_compute; reflexivity). eexists _, _. vm_compute. reflexivity. Qed.

(* without the arity hypothesis the statement is false: ex_prog (one parameter) called with six arguments:
   the linear machine refuses to start ("entry-args"), the ISA entry convention has no sixth integer
   argument register for asm_main ("too-many-arguments"), whatever the fuel *)
Lemma ex_arity_needed :
  ~ (forall (p : prog) (lc : N) (cs : list xcode) (n : nat) (lc' : N) (args : list Z) (fuel : nat) (o : obs),
      int_frag p = true -> plain_names p = true -> lin_check_prog p = true ->
      x86_compile p lc = Ok (cs, n, lc') -> asm_wf cs = None ->
      run_linear fuel p args = o -> snd o <> OOutOfFuel ->
      exists outer inner, fst (run_x86 outer inner cs args) = o).
Proof.
  intros H. destruct ex_hypotheses as (A & B & C & (n & lc' & D) & E).
  destruct (H ex_prog 0%N ex_code n lc' [1; 2; 3; 4; 5; 6] 5%nat _ A B C D E eq_refl) as (outer & inner & R).
  { vm_compute. discriminate. }
  unfold run_x86 in R. change (find_label (labels (mk_image ex_code)) "asm_main") with (Some 6%positive) in R.
  cbv iota beta zeta in R. change (Nat.ltb 5 (List.length [1; 2; 3; 4; 5; 6])) with true in R. cbv iota in R.
  vm_compute in R. discriminate.
Qed.
