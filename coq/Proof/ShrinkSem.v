(* Proof/ShrinkSem.v - semantic preservation of shrinking for the FIRST-ORDER INTEGER FRAGMENT:
   statements built from   <n | mu~ x.s>   <a op b | mu~ x.s>   ifc   print   exit   f(x1..xn)
   with integer producer arguments only (no covariables, no data/codata, hence no continuation
   closures).  For these programs: the Core machine of Sem/CoreSem.v on the focused program and the
   AxCut named machine of Sem/AxSem.v on the shrunk program produce the same prints and the same
   outcome whenever the Core run ends with `exit` or with undefined arithmetic.
   GAP (not proved, only checked by the correspondence runs): everything that involves consumers -
   integer continuations (_Cont/Ret), renaming cuts, data and codata values, known cuts, eta
   expansion of unknown cuts and critical pairs, lifted statements. *)
From Coq Require Import List ZArith NArith String Bool Lia Wf_nat.
From SCC Require Import Base.Sexp Lang.SynUtil Lang.CoreSyn Lang.AxSyn Sem.AxSem Sem.FsCheck Model.Shrink Proof.ShrinkProof.
From SCC Require Sem.CoreSem.
Import ListNotations.
Open Scope list_scope.

Definition int_binding (b : cbinding) : bool := cchi_eqb (cbchi b) CPrd && cty_eqb (cbty b) CI64.
Fixpoint frag (s : fsstmt) : bool :=
  match s with
  | FsCut (FsLit _) _ (FsMu _ _ s' _) => frag s'
  | FsCut (FsOp _ _ _) _ (FsMu _ _ s' _) => frag s'
  | FsIfC _ _ _ t e => frag t && frag e
  | FsPrint _ _ n => frag n
  | FsCall _ args => forallb int_binding args
  | FsExit _ => true
  | _ => false
  end.
Definition frag_def (d : fsdef) : bool := forallb int_binding (fsdctx d) && frag (fsdbody d).
Definition frag_prog (p : fsprog) : bool := forallb frag_def (fspdefs p).

(* on the fragment shrinking is a homomorphism and does not touch the state *)
Fixpoint shf (codata : list ctydecl) (s : fsstmt) : stmt :=
  match s with
  | FsCut (FsLit n) _ (FsMu _ x s' _) => Literal n x (shf codata s')
  | FsCut (FsOp a o b) _ (FsMu _ x s' _) => Op a (shrink_binop o) b x (shf codata s')
  | FsIfC so a b t e => IfC (shrink_ifsort so) a b (shf codata t) (shf codata e)
  | FsPrint nl a n => PrintI64 nl a (shf codata n)
  | FsCall f args => Call f (shrink_context codata args)
  | FsExit v => Exit v
  | _ => Exit (EmptyString, 0%N)
  end.

Lemma shrink_frag : forall E fuel s st,
  frag s = true -> fsz s <= fuel -> shrink_stmt fuel E s st = SOk (shf (e_codata E) s, st).
Proof.
  intros E fuel. induction fuel as [|fuel IH]; intros s st Hf Hsz; [pose proof (fsz_pos s); lia|].
  destruct s as [p ty k|so a b t e|nl a nx|f args|v]; simpl in Hf.
  - destruct p; try discriminate Hf; destruct k; try discriminate Hf; simpl in Hsz; simpl.
    + rewrite IH; [reflexivity | auto | lia].
    + rewrite IH; [reflexivity | auto | lia].
  - apply andb_prop in Hf as [Ht He]. simpl in Hsz. simpl.
    rewrite IH; [|auto|lia]. simpl. rewrite IH; [|auto|lia]. simpl. destruct b; reflexivity.
  - simpl in Hsz. simpl. rewrite IH; [reflexivity | auto | lia].
  - reflexivity.
  - reflexivity.
Qed.

(* ---------- integer environments, seen by both machines ---------- *)
Definition ienv := list (cident * Z).
Definition cenv_of (ie : ienv) : CoreSem.cenv := map (fun p => (fst p, CoreSem.BP (CoreSem.PInt (snd p)))) ie.
Definition aenv_of (ie : ienv) : env := map (fun p => (fst p, VInt (snd p))) ie.
Fixpoint ilookup (ie : ienv) (x : cident) : option Z :=
  match ie with
  | [] => None
  | (y, z) :: r => if cident_eqb y x then Some z else ilookup r x
  end.
(* identifiers with the same id have the same name *)
Definition consistent (l : list cident) : Prop := forall x y, In x l -> In y l -> snd x = snd y -> x = y.

Lemma clookup_cenv : forall ie x,
  CoreSem.clookup (cenv_of ie) x = option_map (fun z => CoreSem.BP (CoreSem.PInt z)) (ilookup ie x).
Proof.
  induction ie as [|[y z] r IH]; intros x; simpl; [reflexivity|].
  destruct (cident_eqb y x); [reflexivity | apply IH].
Qed.
Lemma lookup_id_aenv : forall ie x L, consistent L -> incl (map fst ie) L -> In x L ->
  lookup_id (aenv_of ie) x = option_map VInt (ilookup ie x).
Proof.
  unfold lookup_id. induction ie as [|[y z] r IH]; intros x L HL Hi Hx; simpl; [reflexivity|].
  assert (Hy : In y L) by (apply Hi; now left).
  destruct (cident_eqb y x) eqn:He.
  - apply cident_eqb_eq in He. subst. unfold idn. now rewrite N.eqb_refl.
  - destruct (N.eqb (idn y) (idn x)) eqn:Hn.
    + apply N.eqb_eq in Hn. unfold idn in Hn. apply (HL y x Hy Hx) in Hn. subst. rewrite cident_eqb_refl in He. discriminate.
    + eapply IH; eauto. intros w Hw. apply Hi. now right.
Qed.
Lemma lookup_aenv : forall ie x L, consistent L -> incl (map fst ie) L -> In x L ->
  lookup_int (aenv_of ie) x = ilookup ie x.
Proof.
  intros. unfold lookup_int. rewrite (lookup_id_aenv ie x L); auto. destruct (ilookup ie x); reflexivity.
Qed.

Fixpoint idents (s : fsstmt) : list cident :=
  match s with
  | FsCut (FsLit _) _ (FsMu _ x s' _) => x :: idents s'
  | FsCut (FsOp a _ b) _ (FsMu _ x s' _) => a :: b :: x :: idents s'
  | FsIfC _ a b t e => a :: (match b with Some b' => [b'] | None => [] end) ++ idents t ++ idents e
  | FsPrint _ a n => a :: idents n
  | FsCall _ args => cvars args
  | FsExit v => [v]
  | _ => []
  end.

Definition good (r : obs) : Prop := match snd r with OExit _ | OUndef _ => True | _ => False end.
Lemma not_good_finish_stuck : forall out w, ~ good (finish out (OStuck w)).
Proof. intros out w H. exact H. Qed.
Lemma not_good_finish_fuel : forall out, ~ good (finish out OOutOfFuel).
Proof. intros out H. exact H. Qed.

Lemma crun_S : forall n P c out,
  CoreSem.crun (S n) P c out =
  match CoreSem.cstep P c with
  | CoreSem.SNext c' => CoreSem.crun n P c' out
  | CoreSem.SPrint nl z c' => CoreSem.crun n P c' ((nl, z) :: out)
  | CoreSem.SHalt o => finish out o
  end.
Proof. reflexivity. Qed.

Lemma ax_binop_shrink : forall o, CoreSem.ax_binop o = shrink_binop o.
Proof. destruct o; reflexivity. Qed.
Lemma ax_ifsort_shrink : forall s, CoreSem.ax_ifsort s = shrink_ifsort s.
Proof. destruct s; reflexivity. Qed.

Lemma find_map_gen : forall {A B} (g : A -> B) (fa : A -> bool) (fb : B -> bool) l,
  (forall a, fb (g a) = fa a) -> find fb (map g l) = option_map g (find fa l).
Proof.
  intros A B g fa fb l H. induction l as [|a r IH]; simpl; [reflexivity|]. rewrite H. destruct (fa a); [reflexivity | exact IH].
Qed.

Section Sim.
Variable p : fsprog.
Variable q : prog.
Notation P := (CoreSem.fs2c_prog p).
Notation codata := (fspcodata p).
Definition shf_def (cd : list ctydecl) (d : fsdef) : def := mkd (fsdname d) (shrink_context cd (fsdctx d)) (shf cd (fsdbody d)).
Hypothesis Hq : pdefs q = map (shf_def codata) (fspdefs p).
Hypothesis Hfrag : frag_prog p = true.
Hypothesis Hcons : forall d, In d (fspdefs p) -> consistent (cvars (fsdctx d) ++ idents (fsdbody d)).

(* one more unit of fuel never hurts the AxCut machine when the run ended *)
Ltac out_of_fuel H Hg := simpl in H; subst; exfalso; exact Hg.
Ltac core_step H Hg n :=
  destruct n as [|n]; [out_of_fuel H Hg | rewrite crun_S in H; cbn [CoreSem.cstep CoreSem.as_int] in H].
Ltac core_lookup H Hg ie x z Hx :=
  rewrite clookup_cenv in H; destruct (ilookup ie x) as [z|] eqn:Hx; cbn [option_map] in H;
  [| unfold CoreSem.stuck in H; subst; exfalso; exact Hg].

(* ---------- calls ---------- *)
Definition conv (z : Z) : CoreSem.bval := CoreSem.BP (CoreSem.PInt z).
Lemma cbind_ints : forall xs zs,
  CoreSem.cbind xs (map conv zs) [] =
  if Nat.eqb (List.length xs) (List.length zs) then Some (cenv_of (combine xs zs)) else None.
Proof.
  induction xs as [|x r IH]; intros [|z zr]; simpl; try reflexivity.
  rewrite IH. destruct (Nat.eqb _ _); reflexivity.
Qed.
Lemma bind_ints : forall (xs : list cident) zs,
  bind xs (map VInt zs) =
  if Nat.eqb (List.length xs) (List.length zs) then Some (aenv_of (combine xs zs)) else None.
Proof.
  induction xs as [|x r IH]; intros [|z zr]; simpl; try reflexivity.
  rewrite IH. destruct (Nat.eqb _ _); reflexivity.
Qed.
Lemma combine_keys : forall (xs : list cident) (zs : list Z), incl (map fst (combine xs zs)) xs.
Proof.
  induction xs as [|x r IH]; intros [|z zr]; simpl; intros w0 Hw0; try contradiction.
  destruct Hw0 as [<-|Hw]; [now left | right; eapply IH; eauto].
Qed.
Definition find_fsdef (f : cident) : option fsdef := find (fun d => cident_eqb (fsdname d) f) (fspdefs p).
Lemma cfind_def_P : forall f, CoreSem.cfind_def P f = option_map CoreSem.fs2c_def (find_fsdef f).
Proof. intros f. unfold CoreSem.cfind_def, find_fsdef. simpl. apply find_map_gen. reflexivity. Qed.
Lemma find_def_q : forall f, find_def q f = option_map (shf_def codata) (find_fsdef f).
Proof. intros f. unfold find_def, find_fsdef. rewrite Hq. apply find_map_gen. reflexivity. Qed.
Lemma vars_shrink_context : forall cd c, vars (shrink_context cd c) = cvars c.
Proof. intros. unfold vars, shrink_context, cvars. rewrite map_map. apply map_ext. intros b. apply shrink_binding_var. Qed.

Lemma lookups_aenv : forall ie xs zs L, consistent L -> incl (map fst ie) L -> incl xs L ->
  omap (ilookup ie) xs = Some zs -> lookups (aenv_of ie) xs = Some (map VInt zs).
Proof.
  induction xs as [|x r IH]; intros zs L HL Hi Hx Ho; simpl in *.
  - inv Ho. reflexivity.
  - destruct (ilookup ie x) as [z|] eqn:Hz; [|discriminate]. simpl in Ho.
    destruct (omap (ilookup ie) r) as [zr|] eqn:Hr; [|discriminate]. inv Ho.
    rewrite (lookup_id_aenv ie x L), Hz; auto; [|apply Hx; now left]. simpl.
    erewrite IH; eauto. intros w Hw. apply Hx. now right.
Qed.

Lemma fs_arg_int : forall b, int_binding b = true -> CoreSem.fs_arg b = CProducer (CXVar CPrd (cbvar b) (cbty b)).
Proof.
  intros [v c t] H. unfold int_binding in H. simpl in H. apply andb_prop in H as [Hc _].
  destruct c; [reflexivity | discriminate].
Qed.
Lemma rev_append_cons_app : forall {X} (x : X) done l, rev_append (x :: done) [] ++ l = rev_append done [] ++ x :: l.
Proof. intros. rewrite !rev_append_rev, !app_nil_r. simpl. now rewrite <- app_assoc. Qed.

(* evaluating the (variable) arguments of a call: one lookup per argument, then finish_args *)
Lemma args_loop : forall rest b done n ie out r f L,
  forallb int_binding (b :: rest) = true -> consistent L -> incl (map fst ie) L -> incl (cvars (b :: rest)) L ->
  CoreSem.crun n P (CoreSem.Arg (CoreSem.fs_arg b) (cenv_of ie)
                      (CoreSem.MArgs done (map CoreSem.fs_arg rest) (cenv_of ie) (CoreSem.FinCall f))) out = r ->
  good r ->
  exists n' zs, n' < n /\ omap (ilookup ie) (cvars (b :: rest)) = Some zs /\
    match CoreSem.finish_args P (CoreSem.FinCall f) (rev_append done [] ++ map conv zs) with
    | CoreSem.SNext c' => CoreSem.crun n' P c' out
    | CoreSem.SPrint nl z c' => CoreSem.crun n' P c' ((nl, z) :: out)
    | CoreSem.SHalt o => finish out o
    end = r.
Proof.
  induction rest as [|b' rest IH]; intros b done n ie out r f L Hf HL Hie Hx H Hg.
  - simpl in Hf. apply andb_prop in Hf as [Hb _]. rewrite (fs_arg_int b Hb) in H.
    core_step H Hg n. core_lookup H Hg ie (cbvar b) z Hz. core_step H Hg n.
    exists n, [z]. split; [lia|]. split; [simpl; now rewrite Hz|].
    cbn [map]. rewrite <- rev_append_cons_app. rewrite app_nil_r. exact H.
  - cbn [forallb] in Hf. apply andb_prop in Hf as [Hb Hr]. rewrite (fs_arg_int b Hb) in H.
    core_step H Hg n. core_lookup H Hg ie (cbvar b) z Hz. core_step H Hg n. cbn [map] in H.
    eapply IH in H; eauto.
    + destruct H as [n' [zs [Hlt [Hzs Hres]]]]. exists n', (z :: zs). split; [lia|]. split.
      * change (cvars (b :: b' :: rest)) with (cbvar b :: cvars (b' :: rest)). cbn [omap]. rewrite Hz. cbn [obind]. rewrite Hzs. reflexivity.
      * cbn [map]. rewrite <- rev_append_cons_app. exact Hres.
    + intros w Hw. apply Hx. now right.
Qed.

Lemma exec_named_S_literal : forall m z x s ae out,
  exec_named (S m) q ae (Literal z x s) out = exec_named m q ((x, VInt z) :: ae) s out.
Proof. reflexivity. Qed.

Lemma sim : forall n s ie out L r,
  frag s = true -> consistent L -> incl (map fst ie) L -> incl (idents s) L ->
  CoreSem.crun n P (CoreSem.Run (CoreSem.fs2c_stmt s) (cenv_of ie)) out = r -> good r ->
  exists m, exec_named m q (aenv_of ie) (shf codata s) out = r.
Proof.
  induction n as [n IH] using lt_wf_ind. intros s ie out L r Hf HL Hie Hs H Hg.
  destruct s as [pr ty k|so a b t e|nl a nx|f args|v]; simpl in Hf.
  - destruct pr as [| z | a o b | | |]; try discriminate Hf; destruct k as [| | | c x s' t | |]; try discriminate Hf.
    + (* literal *)
      cbn [CoreSem.fs2c_stmt CoreSem.fs2c_term] in H. core_step H Hg n.
      destruct (IH n (Nat.lt_succ_diag_r n) s' ((x, z) :: ie) out L r) as [m Hm]; auto.
      * intros w [<-|Hw]; [apply Hs; now left | now apply Hie].
      * intros w Hw. apply Hs. now right.
      * exists (S m). exact Hm.
    + (* operation *)
      cbn [CoreSem.fs2c_stmt CoreSem.fs2c_term] in H. unfold CoreSem.fs_var in H.
      core_step H Hg n. core_step H Hg n. core_lookup H Hg ie a za Ha.
      core_step H Hg n. core_step H Hg n. core_lookup H Hg ie b zb Hb.
      core_step H Hg n. rewrite ax_binop_shrink in H.
      assert (Hla : lookup_int (aenv_of ie) a = Some za).
      { rewrite (lookup_aenv ie a L); auto. apply Hs. simpl. auto. }
      assert (Hlb : lookup_int (aenv_of ie) b = Some zb).
      { rewrite (lookup_aenv ie b L); auto. apply Hs. simpl. auto. }
      destruct (eval_op (shrink_binop o) za zb) as [z|why] eqn:Hop.
      * core_step H Hg n.
        destruct (IH n ltac:(lia) s' ((x, z) :: ie) out L r) as [m Hm]; auto.
        -- intros w [<-|Hw]; [apply Hs; simpl; auto | now apply Hie].
        -- intros w Hw. apply Hs. simpl. auto.
        -- exists (S m). cbn [shf exec_named]. rewrite Hla, Hlb, Hop. exact Hm.
      * exists 1. cbn [shf exec_named]. rewrite Hla, Hlb, Hop. exact H.
  - (* ifc *)
    apply andb_prop in Hf as [Hft Hfe].
    cbn [CoreSem.fs2c_stmt] in H. unfold CoreSem.fs_var in H.
    core_step H Hg n. core_step H Hg n. core_lookup H Hg ie a za Ha.
    assert (Hla : lookup_int (aenv_of ie) a = Some za).
    { rewrite (lookup_aenv ie a L); auto. apply Hs. simpl. auto. }
    core_step H Hg n. destruct b as [b|]; cbn [option_map] in H.
    + core_step H Hg n. core_lookup H Hg ie b zb Hb.
      assert (Hlb : lookup_int (aenv_of ie) b = Some zb).
      { rewrite (lookup_aenv ie b L); auto. apply Hs. simpl. auto. }
      core_step H Hg n. rewrite ax_ifsort_shrink in H.
      destruct (IH n ltac:(lia) (if eval_cmp (shrink_ifsort so) za zb then t else e) ie out L r) as [m Hm]; auto.
      * destruct (eval_cmp _ _ _); auto.
      * intros w Hw. apply Hs. simpl. right. right. apply in_or_app. destruct (eval_cmp _ _ _); auto.
      * destruct (eval_cmp _ _ _); exact H.
      * exists (S m). cbn [shf exec_named]. rewrite Hla, Hlb. destruct (eval_cmp _ _ _); exact Hm.
    + rewrite ax_ifsort_shrink in H.
      destruct (IH n ltac:(lia) (if eval_cmp (shrink_ifsort so) za 0 then t else e) ie out L r) as [m Hm]; auto.
      * destruct (eval_cmp _ _ _); auto.
      * intros w Hw. apply Hs. simpl. right. apply in_or_app. destruct (eval_cmp _ _ _); auto.
      * destruct (eval_cmp _ _ _); exact H.
      * exists (S m). cbn [shf exec_named]. rewrite Hla. destruct (eval_cmp _ _ _); exact Hm.
  - (* print *)
    cbn [CoreSem.fs2c_stmt] in H. unfold CoreSem.fs_var in H.
    core_step H Hg n. core_step H Hg n. core_lookup H Hg ie a za Ha.
    assert (Hla : lookup_int (aenv_of ie) a = Some za).
    { rewrite (lookup_aenv ie a L); auto. apply Hs. simpl. auto. }
    core_step H Hg n.
    destruct (IH n ltac:(lia) nx ie ((nl, za) :: out) L r) as [m Hm]; auto.
    + intros w Hw. apply Hs. simpl. auto.
    + exists (S m). cbn [shf exec_named]. rewrite Hla. exact Hm.
  - (* call *)
    cbn [CoreSem.fs2c_stmt] in H. core_step H Hg n.
    assert (Hloop : exists n' zs, n' <= n /\ omap (ilookup ie) (cvars args) = Some zs /\
      match CoreSem.finish_args P (CoreSem.FinCall f) (map conv zs) with
      | CoreSem.SNext c' => CoreSem.crun n' P c' out
      | CoreSem.SPrint nl z c' => CoreSem.crun n' P c' ((nl, z) :: out)
      | CoreSem.SHalt o => finish out o
      end = r).
    { destruct args as [|b rest]; cbn [map CoreSem.start_args] in H.
      - exists n, []. split; [lia|]. split; [reflexivity | exact H].
      - eapply args_loop in H; eauto. destruct H as [n' [zs [Hlt [Hzs Hres]]]].
        exists n', zs. split; [lia|]. split; auto. }
    clear H. destruct Hloop as [n' [zs [Hle [Hzs Hres]]]].
    unfold CoreSem.finish_args in Hres. rewrite cfind_def_P in Hres.
    destruct (find_fsdef f) as [d|] eqn:Hfd; cbn [option_map] in Hres;
      [| unfold CoreSem.stuck in Hres; subst; exfalso; exact Hg].
    cbn [CoreSem.fs2c_def cdctx cdbody] in Hres. rewrite cbind_ints in Hres.
    destruct (Nat.eqb (List.length (cvars (fsdctx d))) (List.length zs)) eqn:Hlen;
      [| unfold CoreSem.stuck in Hres; subst; exfalso; exact Hg].
    assert (Hd : In d (fspdefs p)) by (unfold find_fsdef in Hfd; now apply find_some in Hfd as [? _]).
    assert (Hfd' : frag_def d = true).
    { unfold frag_prog in Hfrag. rewrite forallb_forall in Hfrag. now apply Hfrag. }
    unfold frag_def in Hfd'. apply andb_prop in Hfd' as [_ Hfb].
    destruct (IH n' ltac:(lia) (fsdbody d) (combine (cvars (fsdctx d)) zs) out
                 (cvars (fsdctx d) ++ idents (fsdbody d)) r) as [m Hm]; auto.
    + intros w Hw. apply in_or_app. left. eapply combine_keys; eauto.
    + intros w Hw. apply in_or_app. now right.
    + exists (S m). cbn [shf exec_named]. rewrite find_def_q, Hfd. cbn [option_map].
      rewrite vars_shrink_context. erewrite lookups_aenv; eauto.
      unfold shf_def. cbn [dctx dbody]. rewrite vars_shrink_context. rewrite bind_ints. rewrite Hlen. exact Hm.
  - (* exit *)
    cbn [CoreSem.fs2c_stmt] in H. unfold CoreSem.fs_var in H.
    core_step H Hg n. core_step H Hg n. core_lookup H Hg ie v zv Hv.
    assert (Hlv : lookup_int (aenv_of ie) v = Some zv).
    { rewrite (lookup_aenv ie v L); auto. apply Hs. simpl. auto. }
    core_step H Hg n. exists 1. cbn [shf exec_named]. rewrite Hlv. exact H.
Qed.
End Sim.

(* on the fragment shrink_prog is the homomorphism, definition by definition *)
Lemma shrink_defs_frag : forall data cd ds used m acc,
  forallb frag_def ds = true ->
  shrink_defs ds data cd used m acc = SOk (frev acc ++ map (shf_def cd) ds, m).
Proof.
  induction ds as [|d r IH]; intros used m acc Hf; simpl.
  - now rewrite app_nil_r.
  - simpl in Hf. apply andb_prop in Hf as [Hd Hr]. unfold frag_def in Hd. apply andb_prop in Hd as [_ Hb].
    unfold shrink_def. rewrite shrink_frag; auto. cbn [sbind s_lifted s_used s_max e_codata].
    rewrite IH; auto. f_equal. f_equal. unfold frev. cbn [rev_append].
    rewrite !rev_append_rev, !app_nil_r. cbn [rev]. rewrite <- !app_assoc. reflexivity.
Qed.

(* shrink_correct for the first-order integer fragment (see the header for the gap) *)
Theorem shrink_correct_partial : forall p q n args o,
  frag_prog p = true ->
  (forall d, In d (fspdefs p) -> consistent (cvars (fsdctx d) ++ idents (fsdbody d))) ->
  shrink_prog p = SOk q ->
  CoreSem.run_fs n p args = o -> good o ->
  exists m, run_named m q args = o.
Proof.
  intros p q n args o Hfrag Hcons Hsh Hrun Hg.
  unfold shrink_prog in Hsh. destruct (_ || _); [discriminate|].
  rewrite shrink_defs_frag in Hsh; auto. cbn [sbind] in Hsh. inv Hsh.
  unfold CoreSem.run_fs, CoreSem.run_core in Hg |- *. unfold run_named. cbn [pdefs frev rev_append app].
  cbn [CoreSem.fs2c_prog cpdefs] in *.
  destruct (fspdefs p) as [|d0 ds] eqn:Hdefs; [exfalso; exact Hg|]. cbn [map] in *.
  unfold CoreSem.centry_env in *. cbn [CoreSem.fs2c_def cdctx cdbody] in *.
  destruct (forallb _ (fsdctx d0)); [|exfalso; exact Hg].
  change (map (fun z : Z => CoreSem.BP (CoreSem.PInt z)) args) with (map conv args) in *.
  rewrite cbind_ints in *. unfold entry_env, shf_def. cbn [dctx dbody]. rewrite vars_shrink_context, bind_ints.
  destruct (Nat.eqb _ _); [|exfalso; exact Hg].
  match goal with |- exists m, exec_named m ?Q _ _ _ = _ => eapply (sim p Q) with (L := cvars (fsdctx d0) ++ idents (fsdbody d0)) end.
  - cbn [pdefs]. rewrite Hdefs. reflexivity.
  - exact Hfrag.
  - rewrite Hdefs. exact Hcons.
  - assert (Hd : frag_def d0 = true).
    { unfold frag_prog in Hfrag. rewrite forallb_forall in Hfrag. apply Hfrag. rewrite Hdefs. now left. }
    unfold frag_def in Hd. apply andb_prop in Hd as [_ Hd]. exact Hd.
  - apply Hcons. now left.
  - intros w Hw. apply in_or_app. left. eapply combine_keys; eauto.
  - intros w Hw. apply in_or_app. now right.
  - reflexivity.
  - exact Hg.
Qed.

(* ---------- the hypotheses are satisfiable: a small program of the fragment ---------- *)
Open Scope string_scope.
Definition ex_main : fsdef := mkfsd ("main", 0%N) [mkcb ("n", 1%N) CPrd CI64]
  (FsCut (FsOp ("n", 1%N) CSum ("n", 1%N)) CI64
     (FsMu CCns ("x", 2%N) (FsPrint true ("x", 2%N) (FsCall ("f", 0%N) [mkcb ("x", 2%N) CPrd CI64])) CI64)).
Definition ex_f : fsdef := mkfsd ("f", 0%N) [mkcb ("y", 3%N) CPrd CI64]
  (FsIfC CEq ("y", 3%N) None (FsExit ("y", 3%N))
     (FsCut (FsLit 7) CI64 (FsMu CCns ("z", 4%N) (FsExit ("z", 4%N)) CI64))).
Definition ex_prog : fsprog := mkfsp [ex_main; ex_f] [] [] 4%N.
Example ex_in_fragment : frag_prog ex_prog = true /\ wt_fs ex_prog = true /\ unique_binders ex_prog = true.
Proof. vm_compute. auto. Qed.
Example ex_consistent : forall d, In d (fspdefs ex_prog) -> consistent (cvars (fsdctx d) ++ idents (fsdbody d)).
Proof.
  intros d [<-|[<-|[]]]; intros x y Hx Hy Hxy; simpl in Hx, Hy;
    repeat (destruct Hx as [<-|Hx]; [|]); try contradiction;
    repeat (destruct Hy as [<-|Hy]; [|]); try contradiction; try reflexivity; discriminate Hxy.
Qed.
Example ex_runs : exists q, shrink_prog ex_prog = SOk q /\
  CoreSem.run_fs 100 ex_prog [5%Z] = ([(true, 10%Z)], OExit 7) /\ run_named 100 q [5%Z] = ([(true, 10%Z)], OExit 7).
Proof. eexists. split; [vm_compute; reflexivity|]. split; vm_compute; reflexivity. Qed.
