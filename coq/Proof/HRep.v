(* Heap statements, shared by the back ends: how a value of the heap-instrumented linear machine (Sem/AxHeap.v) is
   represented in heap WORDS (a function Z -> Z: the ISA states enter only through `hword s`).  This is the
   representation relation of Proof/X86HSimRel.v and its frame lemma of Proof/X86HFrame.v, with the two places where
   the back ends differ made parameters:
     JL   the jump-table offset of entry k (x86-64: 5k, AArch64: 4k, `b_jump_length`), the data word of an object;
     INT  what the relation records about integers (AArch64: 64-bit values, because MOVZ/MOVK synthesis, SDIV/MSUB and
          the NZCV conditions are exact on 64-bit values only; x86-64 records nothing).
   Everything else is literally shared with x86-64: `is_blk`, `wblocks`, `waddrs` (Proof/X86HeapDefs.v), `slots_agree`,
   `P03`, `wblocks_reach`, `waddr_slot`, `obj_fields_words` (Proof/X86HFrame.v) are used under their qualified names. *)
From Coq Require Import List ZArith NArith String Bool Lia Permutation.
From SCC Require Import Base.Sexp Lang.AxSyn Sem.AxSem Sem.AxHeap Model.Backend.
From SCC Require Model.Heap Proof.HeapMore Proof.HeapTrace Proof.HeapRep Proof.X86Mem Proof.X86MemFrame Proof.X86MemStoreFull
     Proof.X86HeapDefs Proof.X86HFrame.
Import ListNotations.
Open Scope Z_scope.
Open Scope list_scope.

Notation is_blk := X86Mem.is_blk.
Notation wblocks := X86HeapDefs.wblocks.
Notation waddrs := X86HeapDefs.waddrs.
Notation slots_agree := X86HFrame.slots_agree.
Notation reach := HeapTrace.reach.
Notation wchain_congr := X86MemStoreFull.wchain_congr.

(* the typing context a captured environment stands for (names of the annotation, kinds and types of the values) *)
Definition ctx_of_env (ce : list (ident * value)) : ctx :=
  map (fun xv : ident * value => mkb (fst xv) (chi_of (snd xv)) (ty_of (snd xv))) ce.

Section HRep.
Variable types : list tydecl.
(* what the data word of a closure points to: (address, type name, clauses, captured context) *)
Variable CLO : Z -> ident -> list clause -> ctx -> Prop.
(* the jump-table offset of the k-th entry (`b_jump_length` of the back end) *)
Variable JL : N -> Z.
(* what is known of every integer (x86-64: nothing; AArch64: it is a 64-bit value) *)
Variable INT : Z -> Prop.

(* the fields of an object have the kinds and types its constructor declares *)
Definition same_kinds (fs : list value) (sg : ctx) : Prop :=
  Forall2 (fun f b => chi_of f = bchi b /\ ty_of f = bty b) fs sg.
Definition tag_word (tn tag : ident) (fs : list value) (a : Z) : Prop :=
  exists d k x, find (fun d => ident_eqb (tname d) tn) types = Some d /\
              xtor_position (txtors d) tag 0 = Ok k /\ a = JL k /\
              find (fun x => ident_eqb (xname x) tag) (txtors d) = Some x /\ same_kinds fs (xargs x).

Inductive xrep (w : Z -> Z) : value -> Z -> Z -> Prop :=
| xr_int z : INT z -> xrep w (VInt z) 0 z
| xr_obj tn tag fs q a : tag_word tn tag fs a -> xflds w fs q -> xrep w (VObj tn tag fs) q a
| xr_clo tn cls ce q a : CLO a tn cls (ctx_of_env ce) -> xflds w (map snd ce) q -> xrep w (VClo tn cls ce) q a
with xflds (w : Z -> Z) : list value -> Z -> Prop :=
| xf_nil : xflds w [] 0
| xf_cons fs q :
    fs <> [] ->
    Forall is_blk (wblocks (Heap.nlinks (List.length fs)) w q) ->
    (forall j, (j < List.length (waddrs (Heap.nlinks (List.length fs)) w q) - List.length fs)%nat ->
       w (nth j (waddrs (Heap.nlinks (List.length fs)) w q) 0) = 0) ->
    xreps w fs (skipn (List.length (waddrs (Heap.nlinks (List.length fs)) w q) - List.length fs)
                      (waddrs (Heap.nlinks (List.length fs)) w q)) ->
    xflds w fs q
with xreps (w : Z -> Z) : list value -> list Z -> Prop :=
| xs_nil : xreps w [] []
| xs_cons v vs a al : xrep w v (w a) (w (a + 8)) -> xreps w vs al -> xreps w (v :: vs) (a :: al).

Scheme xrep_ind3 := Induction for xrep Sort Prop
  with xflds_ind3 := Induction for xflds Sort Prop
  with xreps_ind3 := Induction for xreps Sort Prop.
Combined Scheme xrep_mutind from xrep_ind3, xflds_ind3, xreps_ind3.

Lemma xreps_length w vs al : xreps w vs al -> List.length al = List.length vs.
Proof. induction 1; cbn; auto. Qed.
Lemma xreps_nth w vs al : xreps w vs al -> forall i v, nth_error vs i = Some v ->
  exists a, nth_error al i = Some a /\ xrep w v (w a) (w (a + 8)).
Proof.
  induction 1 as [|v0 vs a al H0 H IH]; intros i v Hi; [destruct i; discriminate|].
  destruct i as [|i]; cbn [nth_error] in *; [inversion Hi; subst; eauto|eauto].
Qed.
Lemma xreps_intro w : forall vs al, List.length al = List.length vs ->
  (forall i v a, nth_error vs i = Some v -> nth_error al i = Some a -> xrep w v (w a) (w (a + 8))) -> xreps w vs al.
Proof.
  induction vs as [|v vs IH]; intros [|a al] L H; cbn in L; try discriminate; constructor.
  - apply (H O); reflexivity.
  - apply IH; [lia|]. intros i v' a' Hv Ha. apply (H (S i)); assumption.
Qed.

(* ---------- the chain functions read non-header words of blocks only ---------- *)
Lemma wchain_ext w w' : (forall a, ~ is_blk a -> w' a = w a) ->
  forall k q, Forall is_blk (wblocks k w q) -> wblocks k w' q = wblocks k w q /\ waddrs k w' q = waddrs k w q.
Proof.
  intros E. induction k as [|k IH]; intros q FB; cbn [wblocks waddrs]; [auto|].
  cbn [wblocks] in FB. inversion FB as [|? ? Hq FB']; subst.
  rewrite (E (q + 48)) by (apply X86MemFrame.not_blk_off; [exact Hq|lia]).
  destruct (IH _ FB') as [A B]. now rewrite A, B.
Qed.
(* every slot address of a chain is a field slot of one of its blocks *)
Lemma waddrs_in w : forall k q a, In a (waddrs k w q) ->
  exists b, In b (wblocks k w q) /\ (a = b + 16 \/ a = b + 32 \/ a = b + 48).
Proof.
  induction k as [|k IH]; intros q a Ha; cbn [waddrs wblocks app In] in *.
  - exists q. split; [now left|]. destruct Ha as [<-|[<-|[<-|[]]]]; auto.
  - destruct Ha as [<-|[<-|Ha]]; [exists q; split; [now left|auto]|exists q; split; [now left|auto]|].
    destruct (IH _ _ Ha) as (b & Hb & Hab). exists b. split; [now right|exact Hab].
Qed.
Lemma in_skipn_in {X} (l : list X) : forall n x, In x (skipn n l) -> In x l.
Proof. induction l as [|y l IH]; intros [|n] x H; cbn in *; auto. right. eauto. Qed.
Lemma waddrs_not_blk w k q a : Forall is_blk (wblocks k w q) -> In a (waddrs k w q) -> ~ is_blk a /\ ~ is_blk (a + 8).
Proof.
  intros FB Ha. destruct (waddrs_in w k q a Ha) as (b & Hb & Hab). rewrite Forall_forall in FB. specialize (FB b Hb).
  destruct Hab as [->|[->| ->]]; split; try (apply X86MemFrame.not_blk_off; [exact FB|lia]);
    rewrite <- Z.add_assoc; apply X86MemFrame.not_blk_off; try exact FB; lia.
Qed.

(* a representation survives every change of block headers *)
Lemma xrep_ext_mut w w' : (forall a, ~ is_blk a -> w' a = w a) ->
  (forall v q a, xrep w v q a -> xrep w' v q a) /\
  (forall fs q, xflds w fs q -> xflds w' fs q) /\
  (forall vs al, xreps w vs al -> (forall a, In a al -> ~ is_blk a /\ ~ is_blk (a + 8)) -> xreps w' vs al).
Proof.
  intros E. apply xrep_mutind.
  - intros z Hz. now constructor.
  - intros tn tag fs q a T _ IH. now constructor.
  - intros tn cls ce q a C _ IH. now constructor.
  - constructor.
  - intros fs q NE FB Z0 XS IH.
    destruct (wchain_ext w w' E _ _ FB) as [EB EA].
    apply xf_cons; rewrite ?EB, ?EA; auto.
    + intros j Hj. rewrite E; [now apply Z0|].
      apply (waddrs_not_blk w (Heap.nlinks (List.length fs)) q); [exact FB|]. apply nth_In. lia.
    + apply IH. intros a Ha. apply (waddrs_not_blk w (Heap.nlinks (List.length fs)) q); [exact FB|].
      eapply in_skipn_in; eauto.
  - intros _. constructor.
  - intros v vs a al X IH1 XS IH2 NB. constructor.
    + destruct (NB a (or_introl eq_refl)) as [N1 N2]. rewrite (E a N1), (E (a + 8) N2). exact IH1.
    + apply IH2. intros a' Ha'. apply NB. now right.
Qed.
Lemma xrep_ext w w' v q a : (forall a, ~ is_blk a -> w' a = w a) -> xrep w v q a -> xrep w' v q a.
Proof. intros E. apply (proj1 (xrep_ext_mut w w' E)). Qed.
Lemma xflds_ext w w' fs q : (forall a, ~ is_blk a -> w' a = w a) -> xflds w fs q -> xflds w' fs q.
Proof. intros E. apply (proj1 (proj2 (xrep_ext_mut w w' E))). Qed.

(* the pointer word of a represented value is null or a block of the heap region *)
Lemma xflds_ptr w fs q : xflds w fs q -> q = 0 \/ is_blk q.
Proof.
  destruct 1 as [|fs q NE FB _ _]; [now left|right].
  destruct (Heap.nlinks (List.length fs)); cbn [wblocks] in FB; inversion FB; assumption.
Qed.
Lemma xrep_ptr w v q a : xrep w v q a -> q = 0 \/ is_blk q.
Proof. destruct 1; [now left|eapply xflds_ptr; eauto|eapply xflds_ptr; eauto]. Qed.
Lemma xflds_nil_inv w q : xflds w [] q -> q = 0.
Proof. inversion 1; [reflexivity|congruence]. Qed.
Lemma xflds_cons_inv w fs q : xflds w fs q -> fs <> [] ->
  is_blk q /\ Forall is_blk (wblocks (Heap.nlinks (List.length fs)) w q) /\
  (forall j, (j < List.length (waddrs (Heap.nlinks (List.length fs)) w q) - List.length fs)%nat ->
     w (nth j (waddrs (Heap.nlinks (List.length fs)) w q) 0) = 0) /\
  xreps w fs (skipn (List.length (waddrs (Heap.nlinks (List.length fs)) w q) - List.length fs)
                    (waddrs (Heap.nlinks (List.length fs)) w q)).
Proof.
  intros H NE. destruct H as [|fs q _ FB Z0 XS]; [congruence|]. split; [|auto].
  destruct (Heap.nlinks (List.length fs)); cbn [wblocks] in FB; inversion FB; assumption.
Qed.


(* ---------- the frame of xrep ---------- *)
Section Frame.
Variable hs : Heap.st.
Variables w w' : Z -> Z.
Hypothesis AG : slots_agree (Heap.m hs) w.

Definition kept (q : Z) : Prop := forall b, reach (Heap.m hs) [q] b -> forall i, 0 < i < 64 -> w' (b + i) = w (b + i).

Lemma xrep_frame_mut :
  (forall v q a, xrep w v q a -> kept q -> xrep w' v q a) /\
  (forall fs q, xflds w fs q -> kept q -> xflds w' fs q) /\
  (forall vs al, xreps w vs al ->
     (forall a, In a al -> w' a = w a /\ w' (a + 8) = w (a + 8) /\ kept (w a)) -> xreps w' vs al).
Proof.
  apply xrep_mutind.
  - intros z Hz _. now constructor.
  - intros tn tag fs q a T _ IH H. constructor; auto.
  - intros tn cls ce q a C _ IH H. constructor; auto.
  - intros _. constructor.
  - intros fs q NE FB Z0 XS IH KP.
    set (k := Heap.nlinks (List.length fs)) in *.
    assert (RB : forall b, In b (wblocks k w q) -> reach (Heap.m hs) [q] b) by (apply (X86HFrame.wblocks_reach hs w AG); exact FB).
    assert (EW : forall b, In b (wblocks k w q) -> forall i, 0 < i < 64 -> w' (b + i) = w (b + i)).
    { intros b Hb i Hi. apply KP; [apply RB; exact Hb|exact Hi]. }
    destruct (wchain_congr w w' k q) as [EB EA].
    { intros b Hb. apply EW; [exact Hb|lia]. }
    assert (EAD : forall a, In a (waddrs k w q) -> w' a = w a /\ w' (a + 8) = w (a + 8)).
    { intros a Ha. destruct (waddrs_in w k q a Ha) as (b & Hb & Hab).
      destruct Hab as [->|[->| ->]]; rewrite <- ?Z.add_assoc; split; apply EW; try exact Hb; lia. }
    apply xf_cons; fold k; rewrite ?EB, ?EA; auto.
    + intros j Hj. assert (Hj' : (j < List.length (waddrs k w q))%nat) by lia.
      rewrite (proj1 (EAD _ (nth_In _ 0 Hj'))). now apply Z0.
    + apply IH. intros a Ha. pose proof (in_skipn_in _ _ _ Ha) as Ha'.
      destruct (EAD a Ha') as [E1 E2]. split; [exact E1|]. split; [exact E2|].
      intros b Hb. apply KP.
      assert (Hw0 : w a <> 0).
      { intros E0. rewrite E0 in Hb. clear -Hb. remember [0] as src eqn:Es. induction Hb as [b Hb Hb0|x b Hx IH Hin Hb0]; subst.
        - destruct Hb as [<-|[]]. congruence.
        - auto. }
      destruct (X86HFrame.waddr_slot hs w AG k q a FB Ha' Hw0) as (b0 & Hb0 & Hin).
      eapply HeapRep.reach_trans; [|exact Hb]. intros r [<-|[]] _.
      eapply HeapTrace.reach_slot; [apply RB; exact Hb0|exact Hin|exact Hw0].
  - intros _. constructor.
  - intros v vs a al X IH1 XS IH2 H. destruct (H a (or_introl eq_refl)) as (E1 & E2 & KP).
    constructor.
    + rewrite E1, E2. apply IH1. exact KP.
    + apply IH2. intros a' Ha'. apply H. now right.
Qed.
Lemma xrep_frame v q a : xrep w v q a -> kept q -> xrep w' v q a.
Proof. apply (proj1 xrep_frame_mut). Qed.
End Frame.
End HRep.

