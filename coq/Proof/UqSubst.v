(* C03, uniquify preserves behaviour, part 1: two successive variable-for-variable substitutions are
   one ([subst_compose]).  `uniquify` substitutes at every renamed binder into a body that already
   went through the substitutions of the enclosing binders; this lemma lets the proof talk about a
   single pending substitution of the ORIGINAL body. *)
From Coq Require Import List ZArith NArith String Bool Lia.
From SCC Require Import Base.Sexp Lang.CoreSyn Model.Backend Model.Uniquify Model.FocusCheck Proof.CoreInd
     Proof.SubstProof Proof.FocusKont.
Import ListNotations.
Open Scope list_scope.

Definition keys (s : csubst) : list cident := map fst s.

(* every replacement term is a variable whose name is not in [avoid] *)
Definition rvar (s : csubst) (avoid : list cident) : Prop :=
  forall k t, In (k, t) s -> exists ch n ty, t = CXVar ch n ty /\ ~ In n avoid.

Definition compat (P C P2 C2 : csubst) : Prop :=
  rvar P (keys P2 ++ keys C2) /\ rvar C (keys P2 ++ keys C2) /\
  (forall k, In k (keys P2 ++ keys C2) -> ~ In k (keys P ++ keys C)).

Lemma subst_find_none : forall x s, subst_find x s = None <-> ~ In x (keys s).
Proof.
  induction s as [|[k t] s IH]; simpl.
  - split; auto.
  - destruct (cident_eqb k x) eqn:E.
    + apply cident_eqb_eq in E. subst. split; [discriminate | intros H; exfalso; apply H; auto].
    + rewrite IH. split.
      * intros H [F|F]; [subst; rewrite cident_eqb_refl in E; discriminate | auto].
      * intros H F; apply H; auto.
Qed.
Lemma subst_find_app : forall x a b,
  subst_find x (a ++ b) = match subst_find x a with Some t => Some t | None => subst_find x b end.
Proof.
  induction a as [|[k t] a IH]; simpl; intros b; [reflexivity|].
  destruct (cident_eqb k x); [reflexivity | apply IH].
Qed.
Lemma subst_find_key : forall x s t, subst_find x s = Some t -> In x (keys s) /\ In (x, t) s.
Proof.
  induction s as [|[k u] s IH]; simpl; intros t H; [discriminate|].
  destruct (cident_eqb k x) eqn:E.
  - apply cident_eqb_eq in E. subst. inversion H; subst. auto.
  - destruct (IH _ H); auto.
Qed.

Lemma keys_filter_in : forall f s k, In k (keys (filter f s)) -> In k (keys s).
Proof.
  unfold keys. intros f s k H. apply in_map_iff in H. destruct H as ([k' t] & <- & H).
  apply filter_In in H. apply in_map_iff. exists (k', t). tauto.
Qed.
Lemma rvar_filter : forall f s a a', rvar s a -> (forall n, In n a' -> In n a) -> rvar (filter f s) a'.
Proof.
  intros f s a a' H I k t Hk. apply filter_In in Hk. destruct (H k t (proj1 Hk)) as (ch & n & ty & E & N).
  exists ch, n, ty. split; auto.
Qed.

(* the same key-filter on all four lists keeps them compatible *)
Lemma compat_filter : forall (g : cident -> bool) P C P2 C2,
  compat P C P2 C2 ->
  compat (filter (fun p => g (fst p)) P) (filter (fun p => g (fst p)) C)
         (filter (fun p => g (fst p)) P2) (filter (fun p => g (fst p)) C2).
Proof.
  intros g P C P2 C2 (RP & RC & D).
  assert (I : forall n, In n (keys (filter (fun p => g (fst p)) P2) ++ keys (filter (fun p => g (fst p)) C2)) ->
                        In n (keys P2 ++ keys C2)).
  { intros n H. apply in_app_or in H. apply in_or_app. destruct H as [H|H]; apply keys_filter_in in H; auto. }
  split; [|split].
  - eapply rvar_filter; eauto.
  - eapply rvar_filter; eauto.
  - intros k Hk F. apply (D k (I k Hk)). apply in_app_or in F. apply in_or_app.
    destruct F as [F|F]; apply keys_filter_in in F; auto.
Qed.

Lemma filter_app' : forall (X : Type) (f : X -> bool) a b, filter f (a ++ b) = filter f a ++ filter f b.
Proof. induction a as [|x a IH]; simpl; intros b; [reflexivity|]. destruct (f x); simpl; rewrite IH; reflexivity. Qed.

Lemma mapr_compose : forall (X : Type) (f g h : X -> res X) (l l1 l2 : list X),
  Forall (fun a => forall a1 a2, f a = Ok a1 -> g a1 = Ok a2 -> h a = Ok a2) l ->
  mapr f l = Ok l1 -> mapr g l1 = Ok l2 -> mapr h l = Ok l2.
Proof.
  induction l as [|a l IH]; intros l1 l2 HF F G; simpl in F.
  - okinv F. simpl in G. okinv G. reflexivity.
  - inversion HF as [|? ? Ha Hl]; subst.
    apply rbind_ok in F. destruct F as (a1 & Fa & F). apply rbind_ok in F. destruct F as (r1 & Fr & F). okinv F.
    simpl in G. apply rbind_ok in G. destruct G as (a2 & Ga & G). apply rbind_ok in G. destruct G as (r2 & Gr & G). okinv G.
    simpl. rewrite (Ha _ _ Fa Ga). simpl. rewrite (IH _ _ Hl Fr Gr). reflexivity.
Qed.

Definition CPt (t : cterm) : Prop := forall c P C P2 C2 t1 t2,
  compat P C P2 C2 -> subst_term c t P C = Ok t1 -> subst_term c t1 P2 C2 = Ok t2 ->
  subst_term c t (P2 ++ P) (C2 ++ C) = Ok t2.
Definition CPa (a : carg) : Prop := forall P C P2 C2 a1 a2,
  compat P C P2 C2 -> subst_arg a P C = Ok a1 -> subst_arg a1 P2 C2 = Ok a2 ->
  subst_arg a (P2 ++ P) (C2 ++ C) = Ok a2.
Definition CPc (cl : cclause) : Prop := forall P C P2 C2 a1 a2,
  compat P C P2 C2 -> subst_clause cl P C = Ok a1 -> subst_clause a1 P2 C2 = Ok a2 ->
  subst_clause cl (P2 ++ P) (C2 ++ C) = Ok a2.
Definition CPs (s : cstmt) : Prop := forall P C P2 C2 s1 s2,
  compat P C P2 C2 -> subst_stmt s P C = Ok s1 -> subst_stmt s1 P2 C2 = Ok s2 ->
  subst_stmt s (P2 ++ P) (C2 ++ C) = Ok s2.

Ltac rb H x E := apply rbind_ok in H; destruct H as (x & E & H).

Lemma subst_compose_all : (forall t, CPt t) /\ (forall a, CPa a) /\ (forall c, CPc c) /\ (forall s, CPs s).
Proof.
  apply core_mutind.
  - (* XVar *)
    intros c' v ty c P C P2 C2 t1 t2 (RP & RC & D) H1 H2. simpl in H1.
    assert (G : forall S S2, rvar S (keys P2 ++ keys C2) -> (forall k, In k (keys S2) -> In k (keys P2 ++ keys C2)) ->
                (forall k, In k (keys S) -> In k (keys P ++ keys C)) ->
                match subst_find v S with None => Ok (CXVar c' v ty) | Some p => Ok p end = Ok t1 ->
                (forall ch n ty0, t1 = CXVar ch n ty0 ->
                   match subst_find n S2 with None => Ok t1 | Some p => Ok p end = Ok t2) ->
                match subst_find v (S2 ++ S) with None => Ok (CXVar c' v ty) | Some p => Ok p end = Ok t2).
    { intros S S2 RS I2 I1 E1 E2. rewrite subst_find_app.
      destruct (subst_find v S) as [p|] eqn:F.
      - okinv E1. destruct (subst_find_key _ _ _ F) as [Kv Iv].
        destruct (RS _ _ Iv) as (ch & n & ty0 & -> & Nn).
        assert (F2 : subst_find v S2 = None).
        { apply subst_find_none. intros Q. apply (D v (I2 _ Q)). apply I1. exact Kv. }
        rewrite F2.
        assert (F3 : subst_find n S2 = None) by (apply subst_find_none; intros Q; apply Nn; apply I2; exact Q).
        specialize (E2 _ _ _ eq_refl). rewrite F3 in E2. exact E2.
      - okinv E1. specialize (E2 _ _ _ eq_refl). destruct (subst_find v S2); exact E2. }
    destruct c; simpl.
    + apply (G P P2 RP); auto.
      * intros k Hk. apply in_or_app; auto.
      * intros k Hk. apply in_or_app; auto.
      * intros ch n ty0 ->. simpl in H2. exact H2.
    + apply (G C C2 RC); auto.
      * intros k Hk. apply in_or_app; auto.
      * intros k Hk. apply in_or_app; auto.
      * intros ch n ty0 ->. simpl in H2. exact H2.
  - (* Lit *)
    intros n c P C P2 C2 t1 t2 _ H1 H2. destruct c; simpl in *; [|discriminate]. okinv H1. simpl in H2. exact H2.
  - (* Op *)
    intros a o b Ha Hb c P C P2 C2 t1 t2 K H1 H2. destruct c; simpl in *; [|discriminate].
    rb H1 a1 E1. rb H1 b1 E2. okinv H1. simpl in H2. rb H2 a2 E3. rb H2 b2 E4. okinv H2.
    rewrite (Ha _ _ _ _ _ _ _ K E1 E3). simpl. rewrite (Hb _ _ _ _ _ _ _ K E2 E4). reflexivity.
  - (* Mu *)
    intros c' v s ty Hs c P C P2 C2 t1 t2 K H1 H2. simpl in *.
    rb H1 s1 E1. okinv H1. simpl in H2. rb H2 s2 E2. okinv H2.
    unfold subst_remove in *. rewrite !filter_app'.
    rewrite (Hs _ _ _ _ _ _ (compat_filter (fun k => negb (cident_eqb k v)) _ _ _ _ K) E1 E2). reflexivity.
  - (* Xtor *)
    intros c' x args ty HA c P C P2 C2 t1 t2 K H1 H2. simpl in *.
    rb H1 l1 E1. okinv H1. simpl in H2. rb H2 l2 E2. okinv H2.
    rewrite (mapr_compose _ (fun a => subst_arg a P C) (fun a => subst_arg a P2 C2) (fun a => subst_arg a (P2 ++ P) (C2 ++ C)) args l1 l2); auto.
    eapply Forall_impl; [|exact HA]. intros a Ha a1 a2 F1 F2. eapply Ha; eauto.
  - (* XCase *)
    intros c' cls ty HC c P C P2 C2 t1 t2 K H1 H2. simpl in *.
    rb H1 l1 E1. okinv H1. simpl in H2. rb H2 l2 E2. okinv H2.
    rewrite (mapr_compose _ (fun a => subst_clause a P C) (fun a => subst_clause a P2 C2) (fun a => subst_clause a (P2 ++ P) (C2 ++ C)) cls l1 l2); auto.
    eapply Forall_impl; [|exact HC]. intros a Ha a1 a2 F1 F2. eapply Ha; eauto.
  - (* Producer *)
    intros p Hp P C P2 C2 a1 a2 K H1 H2. simpl in *. rb H1 p1 E1. okinv H1. simpl in H2. rb H2 p2 E2. okinv H2.
    rewrite (Hp _ _ _ _ _ _ _ K E1 E2). reflexivity.
  - (* Consumer *)
    intros p Hp P C P2 C2 a1 a2 K H1 H2. simpl in *. rb H1 p1 E1. okinv H1. simpl in H2. rb H2 p2 E2. okinv H2.
    rewrite (Hp _ _ _ _ _ _ _ K E1 E2). reflexivity.
  - (* Clause *)
    intros c' x ctx b Hb P C P2 C2 a1 a2 K H1 H2. simpl in *.
    rb H1 b1 E1. okinv H1. simpl in H2. rb H2 b2 E2. okinv H2.
    unfold subst_remove_ctx in *. rewrite !filter_app'.
    rewrite (Hb _ _ _ _ _ _ (compat_filter (fun k => negb (existsb (cident_eqb k) (cvars ctx))) _ _ _ _ K) E1 E2). reflexivity.
  - (* Cut *)
    intros p ty k Hp Hk P C P2 C2 s1 s2 K H1 H2. simpl in *.
    rb H1 p1 E1. rb H1 k1 E2. okinv H1. simpl in H2. rb H2 p2 E3. rb H2 k2 E4. okinv H2.
    rewrite (Hp _ _ _ _ _ _ _ K E1 E3). simpl. rewrite (Hk _ _ _ _ _ _ _ K E2 E4). reflexivity.
  - (* IfC *)
    intros so a b t e Ha Hb Ht He P C P2 C2 s1 s2 K H1 H2. simpl in *.
    rb H1 a1 E1. rb H1 b1 E2. rb H1 t1 E3. rb H1 e1 E4. okinv H1. simpl in H2.
    rb H2 a2 F1. rb H2 b2 F2. rb H2 t2 F3. rb H2 e2 F4. okinv H2.
    rewrite (Ha _ _ _ _ _ _ _ K E1 F1). simpl.
    assert (EB : match b with None => Ok None | Some b0 => dor b3 <- subst_term CPrd b0 (P2 ++ P) (C2 ++ C); Ok (Some b3) end = Ok b2).
    { destruct b as [b0|].
      - rb E2 b01 E5. okinv E2. rb F2 b02 F5. okinv F2. simpl in Hb. rewrite (Hb _ _ _ _ _ _ _ K E5 F5). reflexivity.
      - okinv E2. okinv F2. reflexivity. }
    rewrite EB. simpl. rewrite (Ht _ _ _ _ _ _ K E3 F3). simpl. rewrite (He _ _ _ _ _ _ K E4 F4). reflexivity.
  - (* Print *)
    intros nl a next Ha Hn P C P2 C2 s1 s2 K H1 H2. simpl in *.
    rb H1 a1 E1. rb H1 n1 E2. okinv H1. simpl in H2. rb H2 a2 E3. rb H2 n2 E4. okinv H2.
    rewrite (Ha _ _ _ _ _ _ _ K E1 E3). simpl. rewrite (Hn _ _ _ _ _ _ K E2 E4). reflexivity.
  - (* Call *)
    intros f args ty HA P C P2 C2 s1 s2 K H1 H2. simpl in *.
    rb H1 l1 E1. okinv H1. simpl in H2. rb H2 l2 E2. okinv H2.
    rewrite (mapr_compose _ (fun a => subst_arg a P C) (fun a => subst_arg a P2 C2) (fun a => subst_arg a (P2 ++ P) (C2 ++ C)) args l1 l2); auto.
    eapply Forall_impl; [|exact HA]. intros a Ha a1 a2 F1 F2. eapply Ha; eauto.
  - (* Exit *)
    intros a ty Ha P C P2 C2 s1 s2 K H1 H2. simpl in *.
    rb H1 a1 E1. okinv H1. simpl in H2. rb H2 a2 E2. okinv H2.
    rewrite (Ha _ _ _ _ _ _ _ K E1 E2). reflexivity.
Qed.

Lemma subst_compose : forall s P C P2 C2 s1 s2,
  compat P C P2 C2 -> subst_stmt s P C = Ok s1 -> subst_stmt s1 P2 C2 = Ok s2 ->
  subst_stmt s (P2 ++ P) (C2 ++ C) = Ok s2.
Proof. intros s. exact (proj2 (proj2 (proj2 subst_compose_all)) s). Qed.
