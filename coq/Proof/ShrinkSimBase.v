(* Proof/ShrinkSimBase.v (C04, fragment 2) - the statement of the simulation lemma [FLn] and the
   helper lemmas its cases share (extending related environments, integer operands, freshness). *)
From Coq Require Import List ZArith NArith String Bool Lia.
From SCC Require Import Base.Sexp Lang.SynUtil Lang.CoreSyn Lang.AxSyn Sem.AxSem Sem.FsCheck Model.Shrink
     Proof.ShrinkProof Proof.ShrinkSem Proof.ShrinkRn Proof.ShrinkRel Proof.ShrinkArgs.
From SCC Require Sem.CoreSem.
Import ListNotations.
Open Scope list_scope.

(* ---------- freshness lists ---------- *)
Lemma fresh_list_spec : forall xs A, fresh_list A xs = true -> NoDup xs /\ (forall x, In x xs -> ~ In x A).
Proof.
  induction xs as [|x r IH]; intros A H; simpl in H.
  - split; [constructor | intros x []].
  - apply andb_prop in H as [H1 H2]. apply negb_true_iff in H1. apply memN_false in H1.
    destruct (IH _ H2) as [Hnd Hni]. split.
    + constructor; [|exact Hnd]. intros Hin. apply (Hni x Hin). now left.
    + intros y [<-|Hy]; [exact H1|]. intros HA. apply (Hni y Hy). now right.
Qed.

Lemma Forall2_impl_in : forall {X Y} (R R' : X -> Y -> Prop) l1 l2,
  Forall2 R l1 l2 -> (forall a b, In a l1 -> R a b -> R' a b) -> Forall2 R' l1 l2.
Proof.
  intros X Y R R' l1 l2 H. induction H as [|a b l1 l2 Hab _ IH]; intros Himp; constructor.
  - apply Himp; [now left | exact Hab].
  - apply IH. intros a' b' Hin. apply Himp. now right.
Qed.

Section Base.
Variable p : fsprog.
Variable q : prog.
Notation P := (CoreSem.fs2c_prog p).
Notation data := (fspdata p).
Notation codata := (fspcodata p).
Notation defs := (fspdefs p).
Notation m0 := (fspmax p).
Notation D := (data ++ [cont_int]).

(* ---------- pushing bindings ---------- *)
Lemma erel_push : forall n (need need' : cident -> Prop) pi pi' A G e ae x c t cv x' av,
  erel p q n need pi A G e ae -> ~ In (idn x') A ->
  (forall b, In b G -> need' (cbvar b) -> need (cbvar b) /\ idn (pi' (cbvar b)) = idn (pi (cbvar b))) ->
  idn (pi' x) = idn x' -> vrel p q n c t cv av ->
  erel p q n need' pi' (idn x' :: A) (mkcb x c t :: G) ((x, cv) :: e) ((x', av) :: ae).
Proof.
  intros n need need' pi pi' A G e ae x c t cv x' av He Hni Hpi Hx Hv. unfold erel in *. constructor.
  - split; [reflexivity|]. intros _. cbn [cbvar cbchi cbty fst snd]. split; [left; auto|].
    exists av. split; [|exact Hv]. cbn [lookup]. rewrite Hx, N.eqb_refl. reflexivity.
  - eapply Forall2_impl_in; [exact He|]. intros b ev Hb [H1 H2].
    split; [exact H1|]. intros Hn. destruct (Hpi b Hb Hn) as [Hn' Hid].
    destruct (H2 Hn') as (Hin & av' & Hl & Hr). rewrite Hid. split; [right; exact Hin|].
    exists av'. split; [|exact Hr]. cbn [lookup].
    destruct (N.eqb (idn x') (idn (pi (cbvar b)))) eqn:E; [|exact Hl].
    apply N.eqb_eq in E. exfalso. apply Hni. rewrite E. exact Hin.
Qed.

(* pushing the parameters of a clause: Core parameters ctx bound to vs, AxCut parameters xs' bound to avs *)
Lemma lookup_app_bind : forall xs avs e1 ae x, bind xs avs = Some e1 -> ~ In x (map idn xs) -> lookup (e1 ++ ae) x = lookup ae x.
Proof.
  induction xs as [|y r IH]; intros [|av avr] e1 ae x Hb Hn; simpl in Hb; try discriminate.
  - inv Hb. reflexivity.
  - destruct (bind r avr) as [e2|] eqn:E; [|discriminate]. inv Hb. simpl.
    destruct (N.eqb (idn y) x) eqn:E2; [apply N.eqb_eq in E2; exfalso; apply Hn; left; exact E2|].
    eapply IH; eauto. intros Hx. apply Hn. now right.
Qed.

Lemma erel_push_list : forall n (need need' : cident -> Prop) pi pi' A G e ae,
  erel p q n need pi A G e ae ->
  (forall b, In b G -> need' (cbvar b) -> need (cbvar b) /\ idn (pi' (cbvar b)) = idn (pi (cbvar b))) ->
  forall ctx vs xs' avs e' e1,
  NoDup (map idn xs') -> (forall x, In x (map idn xs') -> ~ In x A) ->
  map (fun b => idn (pi' (cbvar b))) ctx = map idn xs' ->
  vrels p q n ctx vs avs ->
  CoreSem.cbind (cvars ctx) vs e = Some e' -> bind xs' avs = Some e1 ->
  erel p q n need' pi' (rev_append (map idn xs') A) (ctx ++ G) e' (e1 ++ ae).
Proof.
  intros n need need' pi pi' A G e ae He Hpi.
  induction ctx as [|b ctx IH]; intros vs xs' avs e' e1 Hnd Hdis Hids Hv Hcb Hb.
  - destruct xs' as [|? ?]; [|discriminate]. inversion Hv; subst. simpl in Hcb, Hb. inv Hcb. inv Hb. simpl.
    unfold erel in *. eapply Forall2_impl_in; [exact He|]. intros b ev Hb [H1 H2].
    split; [exact H1|]. intros Hn. destruct (Hpi b Hb Hn) as [Hn' Hid]. rewrite Hid. apply H2. exact Hn'.
  - destruct xs' as [|x' xs']; [discriminate|]. inversion Hv as [|? ? cv cvs av avs' Hv1 Hvr]; subst.
    cbn [cvars map CoreSem.cbind] in Hcb. fold (cvars ctx) in Hcb.
    destruct (CoreSem.cbind (cvars ctx) cvs e) as [e2|] eqn:Ecb; [|discriminate]. inv Hcb.
    cbn [bind] in Hb. destruct (bind xs' avs') as [e3|] eqn:Eb; [|discriminate]. inv Hb.
    cbn [map] in Hids, Hnd, Hdis. inversion Hids as [[Hid1 Hidr]]. inversion Hnd as [|? ? Hni Hnd']; subst.
    specialize (IH cvs xs' avs' e2 e3 Hnd' (fun x Hx => Hdis x (or_intror Hx)) Hidr Hvr Ecb Eb).
    cbn [app]. unfold erel. constructor.
    + split; [reflexivity|]. intros _. cbn [fst snd]. rewrite Hid1. split.
      * apply in_rev_append. left. now left.
      * exists av. split; [|exact Hv1]. cbn [app lookup]. rewrite N.eqb_refl. reflexivity.
    + assert (Hsub : forall y, In y (rev_append (map idn xs') A) -> In y (rev_append (map idn (x' :: xs')) A)).
      { intros y Hy. apply in_rev_append in Hy. apply in_rev_append. cbn [map]. destruct Hy; [left; now right | now right]. }
      unfold erel in IH. eapply Forall2_impl_in; [exact IH|]. intros b1 ev _ [H1 H2].
      split; [exact H1|]. intros Hn. destruct (H2 Hn) as (Hin & av' & Hl & Hr). split; [apply Hsub; exact Hin|].
      exists av'. split; [|exact Hr]. cbn [app lookup].
      destruct (N.eqb (idn x') (idn (pi' (cbvar b1)))) eqn:E; [|exact Hl].
      apply N.eqb_eq in E. exfalso. apply in_rev_append in Hin. destruct Hin as [Hin|Hin].
      * apply Hni. rewrite E. exact Hin.
      * apply (Hdis (idn x')); [now left | rewrite E; exact Hin].
Qed.

(* ---------- integer operands ---------- *)
Lemma arg_int_step : forall n a e m out r,
  CoreSem.crun n P (CoreSem.Arg (CProducer (CoreSem.fs_var a)) e m) out = r -> good r ->
  exists n' pv, n = S n' /\ CoreSem.clookup e a = Some (BP pv) /\ CoreSem.crun n' P (CoreSem.App m (BP pv)) out = r.
Proof.
  intros n a e m out r H Hg. destruct n as [|n]; [exfalso; eapply crun_0; eauto|].
  rewrite crun_S in H. unfold CoreSem.fs_var in H. cbn [CoreSem.cstep] in H.
  destruct (CoreSem.clookup e a) as [[pv|kv]|]; try (unfold CoreSem.stuck in H; subst; exfalso; exact Hg); eauto.
Qed.
Lemma erel_int : forall n (need : cident -> Prop) pi A G e ae x cv,
  erel p q n need pi A G e ae -> NoDup (cids G) -> fbound G x CPrd CI64 = None -> need x ->
  CoreSem.clookup e x = Some cv ->
  exists z, cv = BP (PInt z) /\ lookup_int ae (pi x) = Some z.
Proof.
  intros n need pi A G e ae x cv He Hnd Hb Hn Hl.
  destruct (erel_var p q _ _ _ _ _ _ _ _ _ _ _ He Hnd Hb Hn Hl) as (_ & av & Hla & Hv).
  apply vrel_int_inv in Hv as (z & -> & ->). exists z. split; [reflexivity|].
  unfold lookup_int, lookup_id. now rewrite Hla.
Qed.

(* ---------- the invariant of the renamings and the state ---------- *)
Record inv (G : cctx) (rho th : cident -> cident) (st : sst) : Prop := mkinv {
  inv_nd : NoDup (cids G);
  inv_le : forall i, In i (cids G) -> (i <= m0)%N;
  inv_st : (m0 <= s_max st)%N;
  inv_rho : forall x, ~ In (cid_id x) (cids G) -> (cid_id x <= m0)%N -> rho x = x;
  inv_th : forall x, ~ In (cid_id x) (cids G) -> th x = x;
  inv_rng : forall b, In b G -> In (cid_id (rho (cbvar b))) (cids G) \/ (m0 < cid_id (rho (cbvar b)))%N;
  inv_P : forall x y, cid_id x = cid_id y -> idn (th x) = idn (th y)
}.

Definition lifted_in (st : sst) : Prop := forall d, In d (s_lifted st) -> In d (pdefs q).

Definition FLs (n : nat) (s : fsstmt) : Prop :=
  forall k lbl G rho th st t st' A e ae,
    inv G rho th st ->
    check_stmt data codata defs G s = None -> ub_stmt (cids G) s = true -> ib_stmt m0 s = true ->
    nc_stmt (cvars G) s = true ->
    shrink_stmt k (mksenv D codata lbl) (rn_stmt rho s) st = SOk (t, st') ->
    pfresh A t = true -> lifted_in st' ->
    erel p q n (fun x => occurs x s) (fun x => th (rho x)) A G e ae ->
    forall out r, CoreSem.crun n P (CoreSem.Run (CoreSem.fs2c_stmt s) e) out = r -> good r ->
    exists m, exec_named m q ae (arn th t) out = r.
Definition FLn (n : nat) : Prop := forall s, FLs n s.

Lemma shrink_stmt_S : forall k E s st, shrink_stmt (S k) E s st = shrink_step (shrink_stmt k E) E s st.
Proof. reflexivity. Qed.

(* monotonicity of the state: from the freshness lemmas of ShrinkProof *)
Lemma shrink_mono : forall k E rho s st t st',
  ib_stmt m0 s = true -> (m0 <= s_max st)%N -> shrink_stmt k E (rn_stmt rho s) st = SOk (t, st') ->
  (s_max st <= s_max st')%N /\ exists nd, s_lifted st' = nd ++ s_lifted st.
Proof.
  intros k E rho s st t st' Hib Hm H.
  destruct (shrink_stmt_fr m0 E k _ st t st' H) as [Ha (nd & Hb & _)].
  - split; [rewrite cbinders_rn; now apply old_only_cbinders | exact Hm].
  - split; [exact Ha | eauto].
Qed.
Lemma lifted_in_mono : forall st st' nd, lifted_in st' -> s_lifted st' = nd ++ s_lifted st -> lifted_in st.
Proof. intros st st' nd H E d Hd. apply H. rewrite E. apply in_or_app. now right. Qed.
Lemma inv_st_mono : forall G rho th st st1, inv G rho th st -> (s_max st <= s_max st1)%N -> inv G rho th st1.
Proof. intros G rho th st st1 [] Hle. constructor; auto. lia. Qed.
Lemma inv_push : forall G rho th st x c t, inv G rho th st -> ~ In (cid_id x) (cids G) -> (cid_id x <= m0)%N ->
  inv (mkcb x c t :: G) rho th st.
Proof.
  intros G rho th st x c t [] Hni Hle. constructor; auto.
  - cbn [cids map cbvar]. constructor; auto.
  - intros i [<-|Hi]; auto.
  - intros y Hy Hym. apply inv_rho0; [|exact Hym]. intros Hin. apply Hy. now right.
  - intros y Hy. apply inv_th0. intros Hin. apply Hy. now right.
  - intros b [<-|Hb].
    + left. cbn [cbvar]. rewrite inv_rho0; auto. now left.
    + destruct (inv_rng0 b Hb) as [H|H]; [left; now right | now right].
Qed.
Lemma inv_self : forall G rho th st x, inv G rho th st -> ~ In (cid_id x) (cids G) -> (cid_id x <= m0)%N -> th (rho x) = x.
Proof. intros G rho th st x [] Hni Hle. rewrite inv_rho0; auto. Qed.
(* ---------- aliasing: Core parameters that become names of existing AxCut variables ---------- *)
Lemma subst_ident_notin : forall sub y, ~ In (cid_id y) (map fst sub) -> subst_ident sub y = y.
Proof.
  induction sub as [|[o nw] r IH]; intros y H; [reflexivity|]. simpl in *.
  destruct (N.eqb o (cid_id y)) eqn:E; [apply N.eqb_eq in E; exfalso; apply H; now left|]. apply IH. tauto.
Qed.
Lemma subst_ident_range : forall sub y, subst_ident sub y = y \/ In (subst_ident sub y) (map snd sub).
Proof.
  induction sub as [|[o nw] r IH]; intros y; [now left|]. simpl.
  destruct (N.eqb o (cid_id y)); [right; now left|]. destruct (IH y); [now left | right; now right].
Qed.
Lemma map_fst_combine_incl : forall {X Y} (a : list X) (b : list Y) x, In x (map fst (combine a b)) -> In x a.
Proof. intros X Y a b x H. apply in_map_iff in H as ([u v] & <- & H). eapply in_combine_l; eauto. Qed.
Lemma map_snd_combine_incl : forall {X Y} (a : list X) (b : list Y) x, In x (map snd (combine a b)) -> In x b.
Proof. intros X Y a b x H. apply in_map_iff in H as ([u v] & <- & H). eapply in_combine_r; eauto. Qed.
Lemma cids_app : forall a b, cids (a ++ b) = cids a ++ cids b.
Proof. intros. unfold cids. apply map_app. Qed.
Lemma subst_combine_map : forall ctx zs, NoDup (cids ctx) -> List.length zs = List.length ctx ->
  map (fun b => subst_ident (combine (cids ctx) zs) (cbvar b)) ctx = zs.
Proof.
  induction ctx as [|b ctx IH]; intros [|z zs] Hnd Hlen; try discriminate; [reflexivity|].
  cbn [cids map] in Hnd. inversion Hnd as [|? ? Hni Hnd']; subst. cbn [cids map combine subst_ident].
  rewrite N.eqb_refl. f_equal.
  transitivity (map (fun b0 => subst_ident (combine (cids ctx) zs) (cbvar b0)) ctx); [|apply IH; [exact Hnd' | simpl in Hlen; lia]].
  apply map_ext_in. intros b' Hb'. destruct (N.eqb (cid_id (cbvar b)) (cid_id (cbvar b'))) eqn:E; [|reflexivity].
  apply N.eqb_eq in E. exfalso. apply Hni. rewrite E. unfold cids. apply in_map_iff. eauto.
Qed.

Lemma inv_old : forall G rho th st ids zs b, inv G rho th st -> In b G ->
  (forall i, In i ids -> ~ In i (cids G) /\ (i <= m0)%N) ->
  subst_ident (combine ids zs) (rho (cbvar b)) = rho (cbvar b).
Proof.
  intros G rho th st ids zs b Hinv Hb Hids. apply subst_ident_notin. intros Hin. apply map_fst_combine_incl in Hin.
  destruct (Hids _ Hin) as [H1 H2]. destruct (inv_rng _ _ _ _ Hinv b Hb) as [H|H]; [contradiction | lia].
Qed.

Lemma inv_ext : forall G rho th st ctx zs, inv G rho th st -> NoDup (cids ctx) ->
  (forall i, In i (cids ctx) -> ~ In i (cids G) /\ (i <= m0)%N) ->
  (forall z, In z zs -> In (cid_id z) (cids G) \/ (m0 < cid_id z)%N) ->
  inv (ctx ++ G) (fun x => subst_ident (combine (cids ctx) zs) (rho x)) th st.
Proof.
  intros G rho th st ctx zs Hinv Hnd Hids Hzs. pose proof Hinv as []. constructor; auto.
  - rewrite cids_app. apply NoDup_app_intro; auto. intros x H1 H2. apply (proj1 (Hids x H1)). exact H2.
  - intros i Hi. rewrite cids_app in Hi. apply in_app_or in Hi as [Hi|Hi]; [apply Hids; exact Hi | auto].
  - intros y Hy Hym. rewrite cids_app in Hy. rewrite inv_rho0; [|intros H; apply Hy; apply in_or_app; now right | exact Hym].
    apply subst_ident_notin. intros Hin. apply map_fst_combine_incl in Hin. apply Hy. apply in_or_app. now left.
  - intros y Hy. apply inv_th0. intros H. apply Hy. rewrite cids_app. apply in_or_app. now right.
  - intros b Hb. rewrite cids_app. apply in_app_or in Hb as [Hb|Hb].
    + assert (Hbi : In (cid_id (cbvar b)) (cids ctx)) by (unfold cids; apply in_map_iff; eauto).
      destruct (Hids _ Hbi) as [H1 H2]. rewrite inv_rho0; auto.
      destruct (subst_ident_range (combine (cids ctx) zs) (cbvar b)) as [E|E].
      * rewrite E. left. apply in_or_app. now left.
      * apply map_snd_combine_incl in E. destruct (Hzs _ E) as [H|H]; [left; apply in_or_app; now right | now right].
    + rewrite (inv_old _ _ _ _ _ _ _ Hinv Hb Hids). destruct (inv_rng0 b Hb) as [H|H]; [left; apply in_or_app; now right | now right].
Qed.

Lemma erel_alias_list : forall n (need need' : cident -> Prop) pi pi' A G e ae,
  erel p q n need pi A G e ae ->
  (forall b, In b G -> need' (cbvar b) -> need (cbvar b) /\ idn (pi' (cbvar b)) = idn (pi (cbvar b))) ->
  forall ctx vs avs e',
  vrels p q n ctx vs avs ->
  lookups ae (map (fun b => pi' (cbvar b)) ctx) = Some avs ->
  (forall b, In b ctx -> In (idn (pi' (cbvar b))) A) ->
  CoreSem.cbind (cvars ctx) vs e = Some e' ->
  erel p q n need' pi' A (ctx ++ G) e' ae.
Proof.
  intros n need need' pi pi' A G e ae He Hpi.
  induction ctx as [|b ctx IH]; intros vs avs e' Hv Hl HA Hcb.
  - inversion Hv; subst. simpl in Hcb. inv Hcb. simpl.
    unfold erel in *. eapply Forall2_impl_in; [exact He|]. intros b ev Hb [H1 H2].
    split; [exact H1|]. intros Hn. destruct (Hpi b Hb Hn) as [Hn' Hid]. rewrite Hid. apply H2. exact Hn'.
  - inversion Hv as [|? ? cv cvs av avs' Hv1 Hvr]; subst.
    cbn [cvars map CoreSem.cbind] in Hcb. fold (cvars ctx) in Hcb.
    destruct (CoreSem.cbind (cvars ctx) cvs e) as [e2|] eqn:Ecb; [|discriminate]. inv Hcb.
    cbn [map lookups] in Hl. destruct (lookup_id ae (pi' (cbvar b))) as [av0|] eqn:El; [|discriminate].
    destruct (lookups ae (map (fun b0 => pi' (cbvar b0)) ctx)) as [avr|] eqn:Elr; [|discriminate]. inv Hl.
    cbn [app]. unfold erel. constructor.
    + split; [reflexivity|]. intros _. cbn [fst snd]. split; [apply HA; now left|]. exists av. split; [exact El | exact Hv1].
    + apply (IH cvs avs' e2 Hvr eq_refl (fun b0 Hb0 => HA b0 (or_intror Hb0)) Ecb).
Qed.

Lemma vrels_sig : forall n ctx sg vs avs, fparams_ok ctx sg = true -> vrels p q n sg vs avs -> vrels p q n ctx vs avs.
Proof.
  intros n. induction ctx as [|b ctx IH]; intros [|s sg] vs avs Hp Hv; simpl in Hp; try discriminate.
  - exact Hv.
  - apply andb_prop in Hp as [H1 H2]. apply csame_sig_eq in H1 as [Hc Ht].
    inversion Hv; subst. constructor; [rewrite Hc, Ht; assumption | eapply IH; eauto].
Qed.

Lemma is_codata_same : forall ty, CoreSem.is_codata P ty = is_codata codata ty.
Proof. destruct ty; reflexivity. Qed.
End Base.

Ltac crun0 H Hg := exfalso; eapply crun_0; [exact H | exact Hg].
Ltac core_step H Hg n :=
  destruct n as [|n]; [crun0 H Hg | rewrite crun_S in H; cbn [CoreSem.cstep CoreSem.as_int] in H].
