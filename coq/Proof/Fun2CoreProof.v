(* Proofs about the model of fun2core (Model/Fun2Core.v).
   Part 1: fresh names (fresh_name finds an unused name; the whole translation only ever adds
           pairwise distinct names that were unused before).
   Part 2: structural lemmas about the translation (all 15 term forms, by induction).
   Part 3: the capture witness. *)
From Coq Require Import List ZArith NArith String Bool Ascii Lia DecimalString DecimalN DecimalPos.
From SCC Require Import Base.Sexp Lang.SynUtil Lang.FunSyn Lang.FunTy Lang.CoreSyn Model.Fun2Core.
Import ListNotations.
Open Scope string_scope.
Open Scope list_scope.

(* ====================================================================================
   Part 1a: fresh_name
   ==================================================================================== *)

Lemma mem_In : forall x l, mem x l = true <-> In x l.
Proof.
  intros x l. unfold mem. rewrite existsb_exists. split.
  - intros [y [Hin Heq]]. apply String.eqb_eq in Heq. subst. exact Hin.
  - intros Hin. exists x. split; [exact Hin | apply String.eqb_refl].
Qed.
Lemma mem_false_not_In : forall x l, mem x l = false <-> ~ In x l.
Proof.
  intros x l. rewrite <- mem_In. destruct (mem x l); split; intros H; congruence.
Qed.

Lemma n_to_string_inj : forall a b, n_to_string a = n_to_string b -> a = b.
Proof.
  intros a b H. unfold n_to_string in H.
  assert (Hnn : forall n, N.to_uint n <> Decimal.Nil).
  { intros [|p]; simpl; [discriminate | apply Unsigned.to_uint_nonnil]. }
  assert (Hu : N.to_uint a = N.to_uint b).
  { pose proof (NilZero.usu _ (Hnn a)) as Ha. pose proof (NilZero.usu _ (Hnn b)) as Hb.
    rewrite H in Ha. rewrite Ha in Hb. congruence. }
  rewrite <- (DecimalN.Unsigned.of_to a), <- (DecimalN.Unsigned.of_to b), Hu. reflexivity.
Qed.

Lemma append_inj_l : forall (s a b : string), (s ++ a = s ++ b)%string -> a = b.
Proof.
  induction s as [|c s IH]; simpl; intros a b H; [exact H|].
  injection H as H. apply IH. exact H.
Qed.

Lemma cand_inj : forall base a b, cand base a = cand base b -> a = b.
Proof.
  intros base a b H. unfold cand in H. apply append_inj_l in H. apply n_to_string_inj. exact H.
Qed.

(* candidates n, n+1, .., n+k-1 *)
Fixpoint cands (base : string) (n : N) (k : nat) : list string :=
  match k with O => [] | S k' => cand base n :: cands base (N.succ n) k' end.
Lemma cands_In : forall base k n x, In x (cands base n k) -> exists m, (n <= m)%N /\ x = cand base m.
Proof.
  induction k as [|k IH]; simpl; intros n x H; [contradiction|].
  destruct H as [H|H].
  - exists n. split; [lia | symmetry; exact H].
  - destruct (IH _ _ H) as [m [Hle Hx]]. exists m. split; [lia | exact Hx].
Qed.
Lemma cands_NoDup : forall base k n, NoDup (cands base n k).
Proof.
  induction k as [|k IH]; simpl; intros n; constructor.
  - intros Hin. destruct (cands_In _ _ _ _ Hin) as [m [Hle Heq]].
    apply cand_inj in Heq. lia.
  - apply IH.
Qed.
Lemma cands_length : forall base k n, List.length (cands base n k) = k.
Proof. induction k; simpl; intros; [reflexivity | rewrite IHk; reflexivity]. Qed.

(* the search either stops at an unused candidate, or it used up its fuel on used candidates *)
Lemma fresh_idx_spec : forall fuel used base n,
  mem (cand base (fresh_idx fuel used base n)) used = false \/
  incl (cands base n (S fuel)) used.
Proof.
  induction fuel as [|fuel IH]; intros used base n; simpl.
  - destruct (mem (cand base n) used) eqn:Hm; [right | left; reflexivity].
    intros x [Hx|[]]. subst. apply mem_In. exact Hm.
  - destruct (mem (cand base n) used) eqn:Hm; [| left; exact Hm].
    destruct (IH used base (N.succ n)) as [Hf|Hincl]; [left; exact Hf|].
    right. intros x [Hx|Hx].
    + subst. apply mem_In. exact Hm.
    + apply Hincl. exact Hx.
Qed.

(* fresh_name: the name returned is not in `used`, and `used` grows by exactly that name.
   (The fuel |used| always suffices: |used|+1 distinct candidates cannot all be used.) *)
Theorem fresh_name_fresh : forall used base,
  ~ In (fst (fresh_name used base)) used /\
  snd (fresh_name used base) = fst (fresh_name used base) :: used.
Proof.
  intros used base. unfold fresh_name. simpl. split; [|reflexivity].
  destruct (fresh_idx_spec (List.length used) used base 0%N) as [Hf|Hincl].
  - apply mem_false_not_In. exact Hf.
  - exfalso.
    pose proof (NoDup_incl_length (cands_NoDup base (S (List.length used)) 0%N) Hincl) as Hlen.
    rewrite cands_length in Hlen. lia.
Qed.

(* the name has the requested base: it is  base ++ decimal n  *)
Lemma fresh_name_shape : forall used base, exists n, fst (fresh_name used base) = cand base n.
Proof. intros. unfold fresh_name. simpl. eexists. reflexivity. Qed.

(* minimality: every smaller index is used (this is what fixes the numbering x0, x1, ..) *)
Lemma fresh_idx_minimal : forall fuel used base n k,
  (n <= k)%N -> (k < fresh_idx fuel used base n)%N -> In (cand base k) used.
Proof.
  induction fuel as [|fuel IH]; simpl; intros used base n k Hle Hlt; [lia|].
  destruct (mem (cand base n) used) eqn:Hm; [|lia].
  destruct (N.eq_dec k n) as [->|Hne]; [apply mem_In; exact Hm|].
  apply (IH used base (N.succ n) k); [lia | exact Hlt].
Qed.

(* ====================================================================================
   Part 1b: the translation only ever ADDS names, each unused at the moment it is generated:
   after any run of wc / cmp / share the sets used_vars and used_labels are the old ones
   extended by pairwise distinct names that were not in them.  Since used_vars starts with the
   parameters and all binders of the definition, and used_labels with all definition names,
   generated (co)variables and labels never coincide with user-chosen ones or with each other.
   ==================================================================================== *)

Definition fresh_list (g base : list string) : Prop :=
  NoDup g /\ forall x, In x g -> ~ In x base.

Lemma fresh_list_nil : forall base, fresh_list [] base.
Proof. intros. split; [constructor | intros x []]. Qed.

Lemma fresh_list_app : forall g2 g1 base,
  fresh_list g1 base -> fresh_list g2 (g1 ++ base) -> fresh_list (g2 ++ g1) base.
Proof.
  intros g2 g1 base [Hnd1 Hf1] [Hnd2 Hf2]. split.
  - induction g2 as [|x g2 IH]; simpl; [exact Hnd1|].
    inversion Hnd2 as [|? ? Hnotin Hnd2']; subst. constructor.
    + intros Hin. apply in_app_or in Hin. destruct Hin as [Hin|Hin]; [contradiction|].
      apply (Hf2 x); [left; reflexivity | apply in_or_app; left; exact Hin].
    + apply IH; [exact Hnd2'|]. intros y Hy. apply Hf2. right. exact Hy.
  - intros x Hin Hbase. apply in_app_or in Hin. destruct Hin as [Hin|Hin].
    + apply (Hf2 x Hin). apply in_or_app. right. exact Hbase.
    + apply (Hf1 x Hin Hbase).
Qed.

Record grows (st st' : cstate) : Prop := mkgrows {
  gr_vars : exists g, st_used_vars st' = g ++ st_used_vars st /\ fresh_list g (st_used_vars st);
  (* labels and lifted definitions grow together: one lifted definition per generated label, named by it *)
  gr_labels : exists g l, st_used_labels st' = g ++ st_used_labels st /\ fresh_list g (st_used_labels st) /\
                          st_lifted st' = l ++ st_lifted st /\ map cdname l = map new_id g }.

Lemma grows_refl : forall st, grows st st.
Proof.
  intros st. constructor.
  - exists []. split; [reflexivity | apply fresh_list_nil].
  - exists [], []. repeat split; try reflexivity; try constructor. intros x [].
Qed.

Lemma grows_trans : forall a b c, grows a b -> grows b c -> grows a c.
Proof.
  intros a b c [[g1 [E1 F1]] [h1 [l1 [L1 [G1 [M1 N1]]]]]] [[g2 [E2 F2]] [h2 [l2 [L2 [G2 [M2 N2]]]]]]. constructor.
  - exists (g2 ++ g1). split; [rewrite E2, E1, app_assoc; reflexivity|].
    apply fresh_list_app; [exact F1 | rewrite <- E1; exact F2].
  - exists (h2 ++ h1), (l2 ++ l1). split; [rewrite L2, L1, app_assoc; reflexivity|].
    split; [apply fresh_list_app; [exact G1 | rewrite <- L1; exact G2]|].
    split; [rewrite M2, M1, app_assoc; reflexivity|].
    rewrite !map_app, N1, N2. reflexivity.
Qed.

Definition mgrows {X} (m : M X) : Prop := forall st x st', m st = Ok (x, st') -> grows st st'.

Lemma mgrows_ret : forall X (x : X), mgrows (mret x).
Proof. intros X x st y st' H. unfold mret in H. injection H as _ H. subst. apply grows_refl. Qed.
Lemma mgrows_fail : forall X e, mgrows (@mfail X e).
Proof. intros X e st y st' H. discriminate H. Qed.
Lemma mgrows_lift : forall X (r : res X), mgrows (mlift r).
Proof.
  intros X r st y st' H. unfold mlift in H. destruct r; [|discriminate].
  injection H as _ H. subst. apply grows_refl.
Qed.
Lemma mgrows_bind : forall X Y (m : M X) (f : X -> M Y),
  mgrows m -> (forall x, mgrows (f x)) -> mgrows (mbind m f).
Proof.
  intros X Y m f Hm Hf st y st' H. unfold mbind in H.
  destruct (m st) as [[x st1]|e] eqn:E; [|discriminate].
  eapply grows_trans; [eapply Hm; exact E | eapply Hf; exact H].
Qed.

Lemma mgrows_fresh_in_vars : forall base, mgrows (fresh_in_vars base).
Proof.
  intros base st x st' H. unfold fresh_in_vars in H.
  destruct (fresh_name (st_used_vars st) base) as [nm used'] eqn:E.
  injection H as Hx Hst. subst.
  pose proof (fresh_name_fresh (st_used_vars st) base) as [Hfresh Hsnd]. rewrite E in *. simpl in *.
  constructor; simpl.
  - exists [x]. split; [exact Hsnd|]. split; [repeat constructor; intros []|].
    intros y [Hy|[]]. subst. exact Hfresh.
  - exists [], []. repeat split; try reflexivity; try constructor. intros y [].
Qed.
Lemma mgrows_fresh_var : mgrows fresh_var.
Proof. apply mgrows_fresh_in_vars. Qed.
Lemma mgrows_fresh_covar : mgrows fresh_covar.
Proof. apply mgrows_fresh_in_vars. Qed.
Ltac mg0 :=
  repeat first
    [ assumption
    | apply mgrows_ret | apply mgrows_fail | apply mgrows_lift
    | apply mgrows_fresh_var | apply mgrows_fresh_covar
    | apply mgrows_bind; [| intros ?]
    | match goal with
      | |- mgrows (if ?c then _ else _) => destruct c
      | |- mgrows (match ?x with _ => _ end) => destruct x
      | |- mgrows (let '(_, _) := ?x in _) => destruct x
      | H : forall c, mgrows (?f c) |- mgrows (?f _) => apply H
      end ].

(* share generates its label and pushes the lifted definition named by it in one go *)
Lemma mgrows_label_push : forall base ctx body,
  mgrows (dom name <- fresh_label base; dom _ <- push_lifted (mkcd (new_id name) ctx body); mret name).
Proof.
  intros base ctx body st x st' H. unfold mbind, fresh_label, push_lifted, mret in H.
  destruct (fresh_name (st_used_labels st) base) as [nm used'] eqn:E.
  injection H as Hx Hst. subst.
  pose proof (fresh_name_fresh (st_used_labels st) base) as [Hfresh Hsnd]. rewrite E in *. simpl in *.
  constructor; simpl.
  - exists []. split; [reflexivity | apply fresh_list_nil].
  - exists [x], [mkcd (new_id x) ctx body]. split; [exact Hsnd|].
    split; [split; [repeat constructor; intros [] | intros y [Hy|[]]; subst; exact Hfresh]|].
    split; reflexivity.
Qed.
Lemma mgrows_share : forall cur cont, mgrows (share cur cont).
Proof.
  intros cur cont. unfold share. apply mgrows_bind; [mg0|]. intros [[var ty] body].
  assert (Heq : forall (k : string -> M cterm) base ctx b st,
            (dom name <- fresh_label base; dom _ <- push_lifted (mkcd (new_id name) ctx b); k name) st =
            (dom name <- (dom name <- fresh_label base; dom _ <- push_lifted (mkcd (new_id name) ctx b); mret name); k name) st).
  { intros k base ctx b st. unfold mbind, fresh_label, push_lifted, mret.
    destruct (fresh_name (st_used_labels st) base). reflexivity. }
  intros st x st' H. rewrite Heq in H. revert st x st' H.
  apply mgrows_bind; [apply mgrows_label_push | intros name; mg0].
Qed.

Ltac mg :=
  repeat first
    [ assumption
    | apply mgrows_share
    | apply mgrows_ret | apply mgrows_fail | apply mgrows_lift
    | apply mgrows_fresh_var | apply mgrows_fresh_covar
    | apply mgrows_bind; [| intros ?]
    | match goal with
      | |- mgrows (if ?c then _ else _) => destruct c
      | |- mgrows (match ?x with _ => _ end) => destruct x
      | |- mgrows (let '(_, _) := ?x in _) => destruct x
      | H : forall c, mgrows (?f c) |- mgrows (?f _) => apply H
      end ].


Lemma mgrows_default_compile : forall wcf ty,
  (forall c, mgrows (wcf c)) -> mgrows (default_compile wcf ty).
Proof. intros. unfold default_compile. mg. Qed.

Ltac mg2 := repeat first [ progress mg | apply mgrows_share | progress cbv beta
                          | match goal with H : _ |- mgrows _ => solve [apply H] end ].

(* ---------- induction principle for fterm (nested lists of terms and clauses) ---------- *)
Definition clause_body (c : fclause) : fterm := match c with FClause _ _ _ _ b => b end.
Section FtermInd.
  Variable P : fterm -> Prop.
  Definition opt_P (b : option fterm) : Prop := match b with Some b' => P b' | None => True end.
  Hypothesis H_var : forall v ty chi, P (FVar v ty chi).
  Hypothesis H_lit : forall n, P (FLit n).
  Hypothesis H_op : forall a o b, P a -> P b -> P (FOp a o b).
  Hypothesis H_ifc : forall s a b t1 t2 ty,
    P a -> opt_P b -> P t1 -> P t2 -> P (FIfC s a b t1 t2 ty).
  Hypothesis H_print : forall nl a next ty, P a -> P next -> P (FPrint nl a next ty).
  Hypothesis H_let : forall v vty bound body ty, P bound -> P body -> P (FLet v vty bound body ty).
  Hypothesis H_call : forall f args ret, Forall P args -> P (FCall f args ret).
  Hypothesis H_ctor : forall x args ty, Forall P args -> P (FCtor x args ty).
  Hypothesis H_dtor : forall scrut x targs args ty, P scrut -> Forall P args -> P (FDtor scrut x targs args ty).
  Hypothesis H_case : forall scrut targs cls ty,
    P scrut -> Forall (fun c => P (clause_body c)) cls -> P (FCase scrut targs cls ty).
  Hypothesis H_new : forall cls ty, Forall (fun c => P (clause_body c)) cls -> P (FNew cls ty).
  Hypothesis H_label : forall l t ty, P t -> P (FLabel l t ty).
  Hypothesis H_goto : forall l t ty, P t -> P (FGoto l t ty).
  Hypothesis H_exit : forall a ty, P a -> P (FExit a ty).
  Hypothesis H_paren : forall t, P t -> P (FParen t).

  Fixpoint fterm_ind' (t : fterm) : P t :=
    let go_terms := fix go (l : list fterm) : Forall P l :=
      match l with [] => Forall_nil _ | y :: r => Forall_cons _ (fterm_ind' y) (go r) end in
    let go_cls := fix go (l : list fclause) : Forall (fun c => P (clause_body c)) l :=
      match l with
      | [] => Forall_nil _
      | c :: r =>
          Forall_cons _ (match c return P (clause_body c) with FClause _ _ _ _ b => fterm_ind' b end) (go r)
      end in
    match t with
    | FVar v ty chi => H_var v ty chi
    | FLit n => H_lit n
    | FOp a o b => H_op a o b (fterm_ind' a) (fterm_ind' b)
    | FIfC s a b t1 t2 ty =>
        H_ifc s a b t1 t2 ty (fterm_ind' a)
          (match b as b1 return opt_P b1 with
           | Some b0 => fterm_ind' b0
           | None => I
           end)
          (fterm_ind' t1) (fterm_ind' t2)
    | FPrint nl a next ty => H_print nl a next ty (fterm_ind' a) (fterm_ind' next)
    | FLet v vty bound body ty => H_let v vty bound body ty (fterm_ind' bound) (fterm_ind' body)
    | FCall f args ret => H_call f args ret (go_terms args)
    | FCtor x args ty => H_ctor x args ty (go_terms args)
    | FDtor scrut x targs args ty => H_dtor scrut x targs args ty (fterm_ind' scrut) (go_terms args)
    | FCase scrut targs cls ty => H_case scrut targs cls ty (fterm_ind' scrut) (go_cls cls)
    | FNew cls ty => H_new cls ty (go_cls cls)
    | FLabel l t' ty => H_label l t' ty (fterm_ind' t')
    | FGoto l t' ty => H_goto l t' ty (fterm_ind' t')
    | FExit a ty => H_exit a ty (fterm_ind' a)
    | FParen t' => H_paren t' (fterm_ind' t')
    end.
End FtermInd.

(* ---------- unfolding equations of the two mutually recursive translation functions ---------- *)
Section Unfold.
  Variable codata : list ctydecl.
  Variable cur : string.
  Variable lg : bool.
  Let wc' := wc codata cur lg.
  Let cmp' := cmp codata cur lg.
  Lemma wc_unfold : forall t cont,
    wc codata cur lg t cont =
    match t with
    | FVar v ty _ => wc_var v ty cont
    | FLit n => wc_lit n cont
    | FOp a o b => wc_op (cmp' a CI64) o (cmp' b CI64) cont
    | FIfC s a b t1 t2 _ =>
        wc_ifc cur s (cmp' a CI64) (match b with Some b' => Some (cmp' b' CI64) | None => None end) (wc' t1) (wc' t2) cont
    | FPrint nl a next _ => wc_print nl (cmp' a CI64) (wc' next) cont
    | FLet v vty bound body lty =>
        guard_capture lg [v] (wc_let codata v vty (cmp' bound) (wc' bound) (wc' body)) lty cont
    | FCall f args ret => wc_call f (subst_with (fun y => cmp' y) args) ret cont
    | FCtor x args ty => wc_ctor x (subst_with (fun y => cmp' y) args) ty cont
    | FDtor scrut x _ args _ => wc_dtor (wc' scrut) (fterm_type scrut) x (subst_with (fun y => cmp' y) args) cont
    | FCase scrut _ cls cty' =>
        guard_capture lg (flat_map (fun c => match c with FClause _ _ _ ctx _ => fvars ctx end) cls)
          (wc_case cur (wc' scrut) (fterm_type scrut) (List.length cls) (fun cont' => clauses_with (fun b => wc' b) cont' cls))
          cty' cont
    | FNew cls ty => wc_new (coclauses_with (fun b => wc' b) cls) ty cont
    | FLabel l t' ty => wc_label l (wc' t') ty cont
    | FGoto l t' ty => wc_goto lg l (wc' t') ty (fterm_type t')
    | FExit a ty => wc_exit (cmp' a CI64) ty
    | FParen t' => wc' t' cont
    end.
  Proof. destruct t; reflexivity. Qed.

  Lemma cmp_unfold : forall t ty,
    cmp codata cur lg t ty =
    match t with
    | FVar v vty _ => cmp_var v vty
    | FLit n => cmp_lit n
    | FOp a o b => cmp_op (cmp' a CI64) o (cmp' b CI64)
    | FIfC s a b t1 t2 _ =>
        default_compile
          (wc_ifc cur s (cmp' a CI64) (match b with Some b' => Some (cmp' b' CI64) | None => None end) (wc' t1) (wc' t2)) ty
    | FPrint nl a next _ => default_compile (wc_print nl (cmp' a CI64) (wc' next)) ty
    | FLet v vty bound body lty =>
        default_compile (guard_capture lg [v] (wc_let codata v vty (cmp' bound) (wc' bound) (wc' body)) lty) ty
    | FCall f args ret => default_compile (wc_call f (subst_with (fun y => cmp' y) args) ret) ty
    | FCtor x args cty' => cmp_ctor x (subst_with (fun y => cmp' y) args) cty'
    | FDtor scrut x _ args _ =>
        default_compile (wc_dtor (wc' scrut) (fterm_type scrut) x (subst_with (fun y => cmp' y) args)) ty
    | FCase scrut _ cls cty' =>
        default_compile
          (guard_capture lg (flat_map (fun c => match c with FClause _ _ _ ctx _ => fvars ctx end) cls)
             (wc_case cur (wc' scrut) (fterm_type scrut) (List.length cls) (fun cont' => clauses_with (fun b => wc' b) cont' cls))
             cty') ty
    | FNew cls nty => cmp_new (coclauses_with (fun b => wc' b) cls) nty
    | FLabel l t' lty => cmp_label l (wc' t') lty
    | FGoto l t' gty => default_compile (fun _ => wc_goto lg l (wc' t') gty (fterm_type t')) ty
    | FExit a ety => default_compile (fun _ => wc_exit (cmp' a CI64) ety) ty
    | FParen t' => cmp' t' ty
    end.
  Proof. destruct t; reflexivity. Qed.
End Unfold.

(* ---------- every combinator grows the state ---------- *)
Lemma mgrows_compile_arg : forall t f, (forall ty, mgrows (f ty)) -> mgrows (compile_arg t f).
Proof. intros t f H. unfold compile_arg. mg. Qed.

Lemma mgrows_subst_with : forall (f : fterm -> cty -> M cterm) args,
  Forall (fun t => forall ty, mgrows (f t ty)) args -> mgrows (subst_with f args).
Proof.
  intros f args H. induction H as [|t r Ht Hr IH]; simpl; mg.
  apply mgrows_compile_arg. exact Ht.
Qed.
Lemma mgrows_clauses_with : forall (w : fterm -> cterm -> M cstmt) cont cls,
  Forall (fun c => forall k, mgrows (w (clause_body c) k)) cls -> mgrows (clauses_with w cont cls).
Proof.
  intros w cont cls H. induction H as [|c r Hc Hr IH]; simpl; [mg|].
  destruct c as [p x names ctx body]. simpl in Hc. unfold compile_clause. mg.
Qed.
Lemma mgrows_coclauses_with : forall (w : fterm -> cterm -> M cstmt) cls,
  Forall (fun c => forall k, mgrows (w (clause_body c) k)) cls -> mgrows (coclauses_with w cls).
Proof.
  intros w cls H. induction H as [|c r Hc Hr IH]; simpl; [mg|].
  destruct c as [p x names ctx body]. simpl in Hc. unfold compile_coclause. mg.
Qed.

Lemma mgrows_guard_capture : forall lg binders w ty cont,
  (forall c, mgrows (w c)) -> mgrows (guard_capture lg binders w ty cont).
Proof. intros lg binders w ty cont H. unfold guard_capture. mg. Qed.

(* the invariant for the whole translation: all 15 term forms, both methods *)
Lemma wc_cmp_grows : forall codata cur lg t,
  (forall cont, mgrows (wc codata cur lg t cont)) /\ (forall ty, mgrows (cmp codata cur lg t ty)).
Proof.
  intros codata cur lg t. induction t using fterm_ind'.
  - split; intros; [rewrite wc_unfold; unfold wc_var | rewrite cmp_unfold; unfold cmp_var]; mg.
  - split; intros; [rewrite wc_unfold; unfold wc_lit | rewrite cmp_unfold; unfold cmp_lit]; mg.
  - destruct IHt1 as [W1 C1], IHt2 as [W2 C2].
    split; intros; [rewrite wc_unfold; unfold wc_op, cmp_op | rewrite cmp_unfold; unfold cmp_op]; mg.
  - destruct IHt1 as [W1 C1], IHt2 as [W2 C2], IHt3 as [W3 C3].
    assert (Hifc : forall cont, mgrows (wc_ifc cur s (cmp codata cur lg t1 CI64)
               (match b with Some b' => Some (cmp codata cur lg b' CI64) | None => None end)
               (wc codata cur lg t2) (wc codata cur lg t3) cont)).
    { intros cont. unfold wc_ifc. destruct b as [b'|]; simpl in H.
      - destruct H as [Wb Cb]. mg2.
      - mg2. }
    split; intros; [rewrite wc_unfold | rewrite cmp_unfold; apply mgrows_default_compile]; apply Hifc.
  - destruct IHt1 as [W1 C1], IHt2 as [W2 C2].
    assert (Hp : forall cont, mgrows (wc_print nl (cmp codata cur lg t1 CI64) (wc codata cur lg t2) cont)).
    { intros. unfold wc_print. mg. }
    split; intros; [rewrite wc_unfold | rewrite cmp_unfold; apply mgrows_default_compile]; apply Hp.
  - destruct IHt1 as [W1 C1], IHt2 as [W2 C2].
    assert (Hl : forall cont, mgrows (wc_let codata v vty (cmp codata cur lg t1) (wc codata cur lg t1) (wc codata cur lg t2) cont)).
    { intros. unfold wc_let. mg. }
    split; intros; [rewrite wc_unfold | rewrite cmp_unfold; apply mgrows_default_compile; intros];
      apply mgrows_guard_capture; apply Hl.
  - assert (Hs : mgrows (subst_with (fun y => cmp codata cur lg y) args)).
    { apply mgrows_subst_with. eapply Forall_impl; [|exact H]. intros a [_ Ca]. exact Ca. }
    assert (Hc : forall cont, mgrows (wc_call f (subst_with (fun y => cmp codata cur lg y) args) ret cont)).
    { intros. unfold wc_call. mg. }
    split; intros; [rewrite wc_unfold | rewrite cmp_unfold; apply mgrows_default_compile]; apply Hc.
  - assert (Hs : mgrows (subst_with (fun y => cmp codata cur lg y) args)).
    { apply mgrows_subst_with. eapply Forall_impl; [|exact H]. intros a [_ Ca]. exact Ca. }
    split; intros; [rewrite wc_unfold; unfold wc_ctor, cmp_ctor | rewrite cmp_unfold; unfold cmp_ctor]; mg.
  - destruct IHt as [W C].
    assert (Hs : mgrows (subst_with (fun y => cmp codata cur lg y) args)).
    { apply mgrows_subst_with. eapply Forall_impl; [|exact H]. intros a [_ Ca]. exact Ca. }
    assert (Hd : forall cont, mgrows (wc_dtor (wc codata cur lg t) (fterm_type t) x (subst_with (fun y => cmp codata cur lg y) args) cont)).
    { intros. unfold wc_dtor. mg. }
    split; intros; [rewrite wc_unfold | rewrite cmp_unfold; apply mgrows_default_compile]; apply Hd.
  - destruct IHt as [W C].
    assert (Hcl : forall k, mgrows (clauses_with (fun b => wc codata cur lg b) k cls)).
    { intros k. apply mgrows_clauses_with. eapply Forall_impl; [|exact H]. intros c [Wc _]. exact Wc. }
    assert (Hc : forall cont, mgrows (wc_case cur (wc codata cur lg t) (fterm_type t) (List.length cls)
                                        (fun cont' => clauses_with (fun b => wc codata cur lg b) cont' cls) cont)).
    { intros. unfold wc_case. mg2. }
    split; intros; [rewrite wc_unfold | rewrite cmp_unfold; apply mgrows_default_compile; intros];
      apply mgrows_guard_capture; apply Hc.
  - assert (Hcl : mgrows (coclauses_with (fun b => wc codata cur lg b) cls)).
    { apply mgrows_coclauses_with. eapply Forall_impl; [|exact H]. intros c [Wc _]. exact Wc. }
    split; intros; [rewrite wc_unfold; unfold wc_new, cmp_new | rewrite cmp_unfold; unfold cmp_new]; mg.
  - destruct IHt as [W C].
    split; intros; [rewrite wc_unfold; unfold wc_label, cmp_label | rewrite cmp_unfold; unfold cmp_label]; mg.
  - destruct IHt as [W C].
    assert (Hg : mgrows (wc_goto lg l (wc codata cur lg t) ty (fterm_type t))). { unfold wc_goto. mg. }
    split; intros; [rewrite wc_unfold | rewrite cmp_unfold; apply mgrows_default_compile; intros _]; apply Hg.
  - destruct IHt as [W C].
    assert (He : mgrows (wc_exit (cmp codata cur lg t CI64) ty)). { unfold wc_exit. mg. }
    split; intros; [rewrite wc_unfold | rewrite cmp_unfold; apply mgrows_default_compile; intros _]; apply He.
  - destruct IHt as [W C].
    split; intros; [rewrite wc_unfold; apply W | rewrite cmp_unfold; apply C].
Qed.

(* the whole-translation form of "generated names are fresh": a run of compile_with_cont / compile
   from state st extends used_vars and used_labels by pairwise distinct names, none of which was
   in the respective set before *)
Theorem translation_names_fresh : forall codata cur lg t cont st s st',
  wc codata cur lg t cont st = Ok (s, st') ->
  (exists gv, st_used_vars st' = gv ++ st_used_vars st /\ NoDup gv /\ forall x, In x gv -> ~ In x (st_used_vars st)) /\
  (exists gl, st_used_labels st' = gl ++ st_used_labels st /\ NoDup gl /\ forall x, In x gl -> ~ In x (st_used_labels st)).
Proof.
  intros codata cur lg t cont st s st' H.
  destruct (proj1 (wc_cmp_grows codata cur lg t) cont st s st' H) as [[gv [Ev [Nv Fv]]] [gl [l [El [[Nl Fl] _]]]]].
  split; [exists gv | exists gl]; auto.
Qed.

(* share: the label of the lifted definition is new, has the form share_<def>_<n>, and the lifted
   definition is put in front *)
Theorem share_label_fresh : forall cur cont st k st',
  share cur cont st = Ok (k, st') ->
  exists name ctx body n,
    name = cand ("share_" ++ cur ++ "_")%string n /\
    ~ In name (st_used_labels st) /\
    st_used_labels st' = name :: st_used_labels st /\
    st_lifted st' = mkcd (new_id name) ctx body :: st_lifted st.
Proof.
  intros cur cont st k st' H. unfold share in H. unfold mbind at 1 in H.
  destruct (match cont with CMu _ v s ty => mret (v, ty, s) | _ => _ end st) as [[[[var ty] body] st1]|e] eqn:E1;
    [|discriminate].
  assert (Hl1 : st_used_labels st1 = st_used_labels st /\ st_lifted st1 = st_lifted st).
  { destruct cont; try (unfold mret in E1; injection E1 as _ _ _ E1; subst; split; reflexivity);
      (unfold mbind, fresh_var, fresh_in_vars in E1;
       destruct (fresh_name (st_used_vars st) "x") as [nm used'];
       unfold mret in E1; injection E1 as _ _ _ E1; subst; split; reflexivity). }
  destruct Hl1 as [Hl1 Hlift1].
  unfold mbind, fresh_label in H.
  destruct (fresh_name (st_used_labels st1) ("share_" ++ cur ++ "_")) as [nm used'] eqn:E2.
  unfold push_lifted, mret in H. injection H as _ H. subst st'. simpl.
  pose proof (fresh_name_fresh (st_used_labels st1) ("share_" ++ cur ++ "_")%string) as [Hf Hs].
  pose proof (fresh_name_shape (st_used_labels st1) ("share_" ++ cur ++ "_")%string) as [n Hn].
  rewrite E2 in *. simpl in *.
  exists nm, (tfv_stmt body []), body, n. rewrite <- Hl1, <- Hlift1. auto.
Qed.

(* ---------- program level: definition names of the output are pairwise distinct ----------
   (user definitions keep their names, every lifted definition is named by a generated label, and
   generated labels avoid all user definition names and each other - across definitions too, since
   used_labels is threaded through the whole program) *)
From Coq Require Import Permutation FinFun.

Lemma new_id_inj : forall a b, new_id a = new_id b -> a = b.
Proof. intros a b H. unfold new_id in H. injection H as H. exact H. Qed.

Lemma NoDup_app_intro : forall (X : Type) (a b : list X),
  NoDup a -> NoDup b -> (forall x, In x a -> ~ In x b) -> NoDup (a ++ b).
Proof.
  intros X a b Ha Hb Hd. induction Ha as [|x a Hx Ha IH]; simpl; [exact Hb|].
  constructor.
  - intros Hc. apply in_app_or in Hc. destruct Hc as [Hc|Hc]; [contradiction|].
    apply (Hd x); [left; reflexivity | exact Hc].
  - apply IH. intros y Hy. apply Hd. right. exact Hy.
Qed.

Lemma run_def_body_names : forall X codata d ul (k : cty -> M X) x st,
  (forall ty, mgrows (k ty)) ->
  run_def_body codata d ul k = Ok (x, st) ->
  exists gl, st_used_labels st = gl ++ ul /\ fresh_list gl ul /\ map cdname (st_lifted st) = map new_id gl.
Proof.
  intros X codata d ul k x st Hk H. unfold run_def_body in H.
  destruct (fterm_type (fdbody d)) as [bty|]; [|discriminate].
  destruct (Hk _ _ _ _ H) as [_ [gl [l [El [Fl [Ll Nl]]]]]]. simpl in *.
  exists gl. rewrite app_nil_r in Ll. subst l. auto.
Qed.

Lemma compile_def_names : forall lg d codata ul g ul',
  compile_def lg d codata ul = Ok (g, ul') ->
  exists gl, ul' = gl ++ ul /\ fresh_list gl ul /\ map cdname g = map new_id (fdname d :: gl).
Proof.
  intros lg d codata ul g ul' H. unfold compile_def in H.
  match type of H with context [run_def_body ?c ?dd ?u ?k] => destruct (run_def_body c dd u k) as [[[a body] st]|e] eqn:E end;
    simpl in H; [|discriminate].
  injection H as Hg Hul. subst.
  apply run_def_body_names in E.
  - destruct E as [gl [El [Fl Nl]]]. exists gl. simpl. rewrite Nl. auto.
  - intros ty. mg. apply (proj1 (wc_cmp_grows codata (fdname d) lg (fdbody d))).
Qed.
Lemma compile_main_names : forall lg d codata ul g ul',
  compile_main lg d codata ul = Ok (g, ul') ->
  exists gl, ul' = gl ++ ul /\ fresh_list gl ul /\ map cdname g = map new_id (fdname d :: gl).
Proof.
  intros lg d codata ul g ul' H. unfold compile_main in H.
  match type of H with context [run_def_body ?c ?dd ?u ?k] => destruct (run_def_body c dd u k) as [[body st]|e] eqn:E end;
    simpl in H; [|discriminate].
  injection H as Hg Hul. subst.
  apply run_def_body_names in E.
  - destruct E as [gl [El [Fl Nl]]]. exists gl. simpl. rewrite Nl. auto.
  - intros ty. mg. apply (proj1 (wc_cmp_grows codata (fdname d) lg (fdbody d))).
Qed.

(* the definitions that come first (fix f929eb7: when main is called, the entry point under a fresh label
   and main compiled like any other definition): their names are main and generated labels, in some order *)
Lemma compile_main_group_names : forall lg called d codata ul g ul',
  compile_main_group lg called d codata ul = Ok (g, ul') ->
  exists gl, ul' = gl ++ ul /\ fresh_list gl ul /\ Permutation (map cdname g) (map new_id (fdname d :: gl)).
Proof.
  intros lg called d codata ul g ul' H. unfold compile_main_group in H.
  destruct (called && negb lg).
  - pose proof (fresh_name_fresh ul "main") as [Hfr Hsnd].
    destruct (fresh_name ul "main") as [nm ul1] eqn:Efn. simpl in Hfr, Hsnd. subst ul1.
    destruct (compile_main lg (entry_fdef d nm) codata (nm :: ul)) as [[e ule]|?] eqn:Ee; simpl in H; [|discriminate].
    destruct (compile_def lg d codata ule) as [[m ulm]|?] eqn:Em; simpl in H; [|discriminate].
    injection H as Hg Hul. subst g ul'.
    destruct (compile_main_names _ _ _ _ _ _ Ee) as [gle [Hule [[Hnde Hfe] Hne]]]. subst ule.
    destruct (compile_def_names _ _ _ _ _ _ Em) as [glm [Hulm [[Hndm Hfm] Hnm]]]. subst ulm.
    exists (glm ++ gle ++ [nm]). split; [rewrite <- !app_assoc; reflexivity|]. split.
    + split.
      * apply NoDup_app_intro; [exact Hndm | |].
        -- apply NoDup_app_intro; [exact Hnde | repeat constructor; intros [] |].
           intros x Hx [Hc|[]]. subst x. apply (Hfe nm Hx). left. reflexivity.
        -- intros x Hx Hc. apply (Hfm x Hx). apply in_app_or in Hc. apply in_or_app.
           destruct Hc as [Hc|[Hc|[]]]; [left; exact Hc | right; left; exact Hc].
      * intros x Hx Hc. apply in_app_or in Hx. destruct Hx as [Hx|Hx].
        -- apply (Hfm x Hx). apply in_or_app. right. right. exact Hc.
        -- apply in_app_or in Hx. destruct Hx as [Hx|[Hx|[]]].
           ++ apply (Hfe x Hx). right. exact Hc.
           ++ subst x. exact (Hfr Hc).
    + rewrite map_app, Hne, Hnm. simpl. rewrite !map_app. simpl.
      change (new_id nm :: map new_id gle ++ new_id (fdname d) :: map new_id glm)
        with ((new_id nm :: map new_id gle) ++ new_id (fdname d) :: map new_id glm).
      eapply Permutation_trans; [apply Permutation_app_comm|]. simpl. apply perm_skip.
      apply Permutation_app_head. change (new_id nm :: map new_id gle) with ([new_id nm] ++ map new_id gle).
      apply Permutation_app_comm.
  - destruct (compile_main_names _ _ _ _ _ _ H) as [gl [H1 [H2 H3]]]. exists gl. rewrite H3. auto.
Qed.

Definition names_ok (ul : list string) (rest : list fdef) (ns : list cident) : Prop :=
  forall n, In n ns -> exists x, n = new_id x /\ In x ul /\ ~ In x (map fdname rest).

Lemma group_step : forall d r ul gl gn old,
  NoDup (map fdname (d :: r)) ->
  (forall d', In d' (d :: r) -> In (fdname d') ul) ->
  fresh_list gl ul ->
  gn = map new_id (fdname d :: gl) ->
  NoDup old -> names_ok ul (d :: r) old ->
  NoDup (gn ++ old) /\ names_ok (gl ++ ul) r (gn ++ old) /\
  (forall d', In d' r -> In (fdname d') (gl ++ ul)).
Proof.
  intros d r ul gl gn old Hnd Hin [Hndgl Hfgl] Hg Hold Hok. subst gn.
  simpl in Hnd. inversion Hnd as [|? ? Hdr Hndr]; subst.
  assert (Hd_ul : In (fdname d) ul) by (apply Hin; left; reflexivity).
  assert (Hr_ul : forall y, In y (map fdname r) -> In y ul).
  { intros y Hy. apply in_map_iff in Hy. destruct Hy as [d' [Hy Hd']]. subst y. apply Hin. right. exact Hd'. }
  split; [|split].
  - apply NoDup_app_intro; [|exact Hold|].
    + apply Injective_map_NoDup; [intros a b; apply new_id_inj|].
      constructor; [|exact Hndgl]. intros Hc. exact (Hfgl _ Hc Hd_ul).
    + intros n Hn Hc. apply in_map_iff in Hn. destruct Hn as [y [Hy Hyin]]. subst n.
      destruct (Hok _ Hc) as [x [Hx [Hxul Hnot]]]. apply new_id_inj in Hx. subst x.
      destruct Hyin as [Hy|Hy].
      * subst y. apply Hnot. left. reflexivity.
      * exact (Hfgl _ Hy Hxul).
  - intros n Hn. apply in_app_or in Hn. destruct Hn as [Hn|Hn].
    + apply in_map_iff in Hn. destruct Hn as [y [Hy Hyin]]. subst n. exists y. split; [reflexivity|].
      destruct Hyin as [Hy|Hy].
      * subst y. split; [apply in_or_app; right; exact Hd_ul | exact Hdr].
      * split; [apply in_or_app; left; exact Hy|]. intros Hc. exact (Hfgl _ Hy (Hr_ul _ Hc)).
    + destruct (Hok _ Hn) as [x [Hx [Hxul Hnot]]]. exists x. split; [exact Hx|].
      split; [apply in_or_app; right; exact Hxul|]. intros Hc. apply Hnot. right. exact Hc.
  - intros d' Hd'. apply in_or_app. right. apply Hin. right. exact Hd'.
Qed.

Lemma compile_defs_names : forall lg called defs codata ul front back res,
  compile_defs lg called defs codata ul front back = Ok res ->
  NoDup (map fdname defs) ->
  (forall d, In d defs -> In (fdname d) ul) ->
  NoDup (map cdname front ++ map cdname back) ->
  names_ok ul defs (map cdname front ++ map cdname back) ->
  NoDup (map cdname res).
Proof.
  intros lg called. induction defs as [|d r IH]; intros codata ul front back res H Hnd Hin Hacc Hok; simpl in H.
  - injection H as H. subst res. rewrite rev_append_rev, app_nil_r, map_app, map_rev.
    eapply Permutation_NoDup; [|exact Hacc].
    apply Permutation_app_head. apply Permutation_rev.
  - destruct (String.eqb (fdname d) "main").
    + destruct (compile_main_group lg called d codata ul) as [[g ul']|e] eqn:E; simpl in H; [|discriminate].
      destruct (compile_main_group_names _ _ _ _ _ _ _ E) as [gl [Hul [Hf Hg]]]. subst ul'.
      destruct (group_step d r ul gl _ _ Hnd Hin Hf eq_refl Hacc Hok) as [H1 [H2 H3]].
      inversion Hnd; subst.
      assert (Hp : Permutation (map new_id (fdname d :: gl) ++ map cdname front ++ map cdname back)
                               (map cdname g ++ map cdname front ++ map cdname back)).
      { apply Permutation_app_tail. apply Permutation_sym. exact Hg. }
      eapply IH; [exact H | assumption | exact H3 | |]; rewrite map_app, <- app_assoc.
      * eapply Permutation_NoDup; [exact Hp | exact H1].
      * intros n Hn. apply H2. eapply Permutation_in; [apply Permutation_sym; exact Hp | exact Hn].
    + destruct (compile_def lg d codata ul) as [[g ul']|e] eqn:E; simpl in H; [|discriminate].
      destruct (compile_def_names _ _ _ _ _ _ E) as [gl [Hul [Hf Hg]]]. subst ul'.
      destruct (group_step d r ul gl (map cdname g) _ Hnd Hin Hf Hg Hacc Hok) as [H1 [H2 H3]].
      inversion Hnd; subst.
      assert (Hperm : Permutation (map cdname g ++ map cdname front ++ map cdname back)
                                  (map cdname front ++ map cdname (rev_append g back))).
      { rewrite rev_append_rev, map_app, map_rev.
        rewrite app_assoc. rewrite (app_assoc (map cdname front)).
        apply Permutation_app_tail.
        eapply Permutation_trans; [apply Permutation_app_comm|].
        apply Permutation_app_head. apply Permutation_rev. }
      eapply IH; [exact H | assumption | exact H3 | |].
      * eapply Permutation_NoDup; [exact Hperm | exact H1].
      * intros n Hn. apply H2. eapply Permutation_in; [apply Permutation_sym; exact Hperm | exact Hn].
Qed.

(* Definition names of the translated program are pairwise distinct whenever the source's are:
   user names are kept, lifted definitions carry generated labels, and generated labels never
   coincide with a user definition name or with another generated label (of any definition). *)
Theorem compile_prog_gen_def_names_distinct : forall lg p c,
  compile_prog_gen lg p = Ok c ->
  NoDup (map fdname (fcpdefs p)) ->
  NoDup (map cdname (cpdefs c)).
Proof.
  intros lg p c H Hnd. unfold compile_prog_gen in H.
  destruct (compile_defs lg _ (fcpdefs p) _ _ [] []) as [defs|e] eqn:E; simpl in H; [|discriminate].
  injection H as H. subst c. simpl.
  eapply compile_defs_names; [exact E | exact Hnd | | constructor | intros n []].
  intros d Hd. apply in_map. exact Hd.
Qed.
Theorem compile_prog_def_names_distinct : forall p c,
  compile_prog p = Ok c ->
  NoDup (map fdname (fcpdefs p)) ->
  NoDup (map cdname (cpdefs c)).
Proof. intros p c. apply compile_prog_gen_def_names_distinct. Qed.

(* ====================================================================================
   Part 3: the capture witness (DESIGN 7.1; corpus/fun/capture1.sc as the type checker
   annotates it - modelrun compares this value with the real CheckedProgram on every run)
   ==================================================================================== *)
From SCC Require Import Sem.AxSem Sem.CoreSem Sem.FunSem.

Definition compiled_or_empty (p : fcprog) : cprog :=
  match compile_prog p with Ok c => c | Err _ => mkcp [] [] [] 0 end.

Definition compiled_before_fix_or_empty (p : fcprog) : cprog :=
  match compile_prog_before_fix p with Ok c => c | Err _ => mkcp [] [] [] 0 end.

(* REGRESSION STATEMENTS about the translation as it was before fix commit d5d4151 of /repo
   ([compile_prog_before_fix]: the continuation was placed under let / pattern binders of names it
   mentions).  Source semantics: prints 12; the OLD translation's Core program: prints 14 *)
Lemma capture_witness_fun : run_fun 200 capture_witness [] = ([(true, 12%Z)], OExit 0%Z).
Proof. vm_compute. reflexivity. Qed.
Lemma capture_witness_core_before_fix :
  run_core 200 (compiled_before_fix_or_empty capture_witness) [] = ([(true, 14%Z)], OExit 0%Z).
Proof. vm_compute. reflexivity. Qed.
(* ... and the CURRENT translation of the witness behaves like the source *)
Lemma capture_witness_core :
  run_core 200 (compiled_or_empty capture_witness) [] = ([(true, 12%Z)], OExit 0%Z).
Proof. vm_compute. reflexivity. Qed.

(* the witness is inside the property's precondition, and the syntactic detector fires on it *)
Lemma capture_witness_guards :
  annotated_fcprog capture_witness = true /\ effect_sequenced capture_witness = true /\
  shadowing_risk_prog capture_witness = true /\ barendregt capture_witness = false.
Proof. vm_compute. repeat split; reflexivity. Qed.

Theorem fun2core_capture_before_fix_lemma :
  exists (p : fcprog) (args : list Z) (c : cprog) (n : nat),
    annotated_fcprog p = true /\ effect_sequenced p = true /\
    compile_prog_before_fix p = Ok c /\
    defined (run_fun n p args) = true /\
    run_fun n p args <> run_core n c args.
Proof.
  exists capture_witness, [], (compiled_before_fix_or_empty capture_witness), 200%nat.
  split; [vm_compute; reflexivity|]. split; [vm_compute; reflexivity|].
  split; [vm_compute; reflexivity|]. split; [vm_compute; reflexivity|].
  rewrite capture_witness_fun, capture_witness_core_before_fix. intros H. discriminate H.
Qed.
Lemma capture_witness_fixed_lemma :
  compile_prog capture_witness = Ok (compiled_or_empty capture_witness) /\
  run_core 200 (compiled_or_empty capture_witness) [] = run_fun 200 capture_witness [] /\
  run_fun 200 capture_witness [] = ([(true, 12%Z)], OExit 0%Z).
Proof. vm_compute. repeat split; reflexivity. Qed.

(* ====================================================================================
   Part 4: the witness of the REPAIRED defect class (mistyped goto target, fixed in /repo by commit
   126604b): before the fix the translated program was not closed - a lifted definition was called
   with a covariable that is not in scope; regression statements
   ==================================================================================== *)
(* name-level closedness of a Core program: every free identifier of a definition body is a parameter *)
Definition cdef_closed (d : cdef) : bool :=
  forallb (fun b => existsb (cident_eqb (cbvar b)) (cvars (cdctx d))) (tfv_stmt (cdbody d) []).
Definition cprog_closed (c : cprog) : bool := forallb cdef_closed (cpdefs c).


Lemma goto_witness_fun : run_fun 200 goto_witness [] = ([(true, 4%Z)], OExit 0%Z).
Proof. vm_compute. reflexivity. Qed.
Lemma goto_witness_core_before_fix :
  run_core 200 (compiled_before_fix_or_empty goto_witness) [] = ([], OStuck "covar-unbound").
Proof. vm_compute. reflexivity. Qed.

(* REGRESSION STATEMENT about the translation as it was before fix commit 126604b of /repo
   ([compile_prog_before_fix]: goto target typed with the goto expression's annotation): the
   translated witness is not closed and its Core run is stuck on the unbound covariable. *)
Theorem fun2core_goto_unbound_before_fix_lemma :
  exists (p : fcprog) (args : list Z) (c : cprog) (n : nat),
    annotated_fcprog p = true /\ effect_sequenced p = true /\ shadowing_risk_prog p = false /\
    goto_type_mismatch_prog p = true /\
    compile_prog_before_fix p = Ok c /\
    cprog_closed c = false /\
    defined (run_fun n p args) = true /\
    run_fun n p args <> run_core n c args.
Proof.
  exists goto_witness, [], (compiled_before_fix_or_empty goto_witness), 200%nat.
  do 7 (split; [vm_compute; reflexivity|]).
  rewrite goto_witness_fun, goto_witness_core_before_fix. intros H. discriminate H.
Qed.

(* ... and the CURRENT translation of the same witness is closed and behaves like the source *)
Lemma goto_witness_fixed_lemma :
  compile_prog goto_witness = Ok (compiled_or_empty goto_witness) /\
  cprog_closed (compiled_or_empty goto_witness) = true /\
  run_core 200 (compiled_or_empty goto_witness) [] = run_fun 200 goto_witness [] /\
  run_fun 200 goto_witness [] = ([(true, 4%Z)], OExit 0%Z).
Proof. vm_compute. repeat split; reflexivity. Qed.

(* sanity: the capture witness's translation IS closed (that defect is a capture, not an escape) *)
Lemma capture_witness_closed : cprog_closed (compiled_or_empty capture_witness) = true.
Proof. vm_compute. reflexivity. Qed.

(* ====================================================================================
   Part 5 (for property C19, output size): a continuation that is not a leaf is never duplicated
   by `if` / `case`: it is lifted ONCE by `share`, and the branches are translated with a
   call-continuation whose size does not depend on the size of the original continuation.
   ==================================================================================== *)
Open Scope N_scope.
Lemma size_args_of_bindings : forall bs,
  (fix go (l : list carg) : N := match l with [] => 0 | y :: r => size_carg y + go r end) (map arg_of_binding bs)
  = N.of_nat (List.length bs).
Proof.
  induction bs as [|b r IH]; [reflexivity|].
  change (size_carg (arg_of_binding b) +
          (fix go (l : list carg) : N := match l with [] => 0 | y :: r => size_carg y + go r end) (map arg_of_binding r)
          = N.of_nat (S (List.length r))).
  rewrite IH, Nat2N.inj_succ. unfold arg_of_binding. destruct (cbchi b); cbn [size_carg size_cterm]; lia.
Qed.

Lemma size_mu_call : forall c v n args ty ty',
  size_cterm (CMu c v (CCall n args ty) ty') =
  1 + (1 + (fix go (l : list carg) : N := match l with [] => 0 | y :: r => size_carg y + go r end) args).
Proof. reflexivity. Qed.

Lemma share_size : forall cur cont st k st',
  share cur cont st = Ok (k, st') ->
  exists d, st_lifted st' = d :: st_lifted st /\
            size_cstmt (cdbody d) <= size_cterm cont + 2 /\
            size_cterm k = 2 + N.of_nat (List.length (cdctx d)).
Proof.
  intros cur cont st k st' H. unfold share in H. unfold mbind at 1 in H.
  destruct (match cont with CMu _ v s ty => mret (v, ty, s) | _ => _ end st) as [[[[var ty] body] st1]|e] eqn:E1;
    [|discriminate].
  assert (Hb : size_cstmt body <= size_cterm cont + 2 /\ st_lifted st1 = st_lifted st).
  { destruct cont; try (unfold mbind, fresh_var, fresh_in_vars in E1;
      destruct (fresh_name (st_used_vars st) "x") as [nm used'];
      unfold mret in E1; injection E1 as _ _ Hbody E1; subst; split; [cbn [size_cstmt size_cterm]; lia | reflexivity]). }
  destruct Hb as [Hsz Hl].
  unfold mbind, fresh_label in H.
  destruct (fresh_name (st_used_labels st1) _) as [nm used'].
  unfold push_lifted, mret in H. injection H as Hk Hst. subst k st'.
  cbn [st_lifted]. eexists. split; [rewrite Hl; reflexivity|]. cbn [cdbody cdctx]. split; [exact Hsz|].
  rewrite size_mu_call, size_args_of_bindings. lia.
Qed.

(* `if`: with a non-leaf continuation, both branches receive the SAME small continuation k (a mu~
   whose body is one call with variable arguments) and the original continuation occurs once, in
   the lifted definition d *)
Theorem fun2core_ifc_shares_continuation : forall cur s ca cb wt we cont st r st',
  cont_is_small cont = false ->
  wc_ifc cur s ca cb wt we cont st = Ok (r, st') ->
  exists k st1 d a b t e st2 st3,
    share cur cont st = Ok (k, st1) /\
    st_lifted st1 = d :: st_lifted st /\
    size_cstmt (cdbody d) <= size_cterm cont + 2 /\
    size_cterm k = 2 + N.of_nat (List.length (cdctx d)) /\
    wt k st2 = Ok (t, st3) /\ we k st3 = Ok (e, st') /\
    r = CIfC (sort_of s) a b t e /\
    size_cstmt r = 1 + size_cterm a + match b with Some b' => size_cterm b' | None => 0 end
                   + size_cstmt t + size_cstmt e.
Proof.
  intros cur s ca cb wt we cont st r st' Hns H. unfold wc_ifc in H. rewrite Hns in H.
  unfold mbind at 1 in H. destruct (share cur cont st) as [[k st1]|?] eqn:Es; [|discriminate].
  destruct (share_size _ _ _ _ _ Es) as [d [Hl [Hsz Hk]]].
  unfold mbind at 1 in H. destruct (ca st1) as [[a sta]|?]; [|discriminate].
  unfold mbind at 1 in H.
  destruct (match cb with Some cb0 => _ | None => mret None end sta) as [[b stb]|?]; [|discriminate].
  unfold mbind at 1 in H. destruct (wt k stb) as [[t stt]|?] eqn:Et; [|discriminate].
  unfold mbind at 1 in H. destruct (we k stt) as [[e ste]|?] eqn:Ee; [|discriminate].
  unfold mret in H. injection H as Hr Hst. subst.
  exists k, st1, d, a, b, t, e, stb, stt. repeat split; auto.
Qed.

(* `case` with at least two clauses: likewise *)
Theorem fun2core_case_shares_continuation : forall cur wscrut sty n ccls cont st r st',
  cont_is_small cont = false -> (2 <= n)%nat ->
  wc_case cur wscrut sty n ccls cont st = Ok (r, st') ->
  exists k st1 d,
    share cur cont st = Ok (k, st1) /\
    st_lifted st1 = d :: st_lifted st /\
    size_cstmt (cdbody d) <= size_cterm cont + 2 /\
    size_cterm k = 2 + N.of_nat (List.length (cdctx d)) /\
    exists cls st2 ty, ccls k st1 = Ok (cls, st2) /\ wscrut (CXCase CCns cls ty) st2 = Ok (r, st').
Proof.
  intros cur wscrut sty n ccls cont st r st' Hns Hn H. unfold wc_case in H.
  assert (Hleb : Nat.leb n 1 = false) by (apply Nat.leb_gt; lia).
  rewrite Hleb, Hns in H. simpl in H.
  unfold mbind at 1 in H. destruct (share cur cont st) as [[k st1]|?] eqn:Es; [|discriminate].
  destruct (share_size _ _ _ _ _ Es) as [d [Hl [Hsz Hk]]].
  unfold mbind at 1 in H. destruct (ccls k st1) as [[cls st2]|?] eqn:Ec; [|discriminate].
  unfold mbind at 1 in H. unfold mlift in H. destruct (expect_ty sty) as [ty|?]; [|discriminate].
  exists k, st1, d. repeat split; auto. exists cls, st2, (compile_ty ty). split; [exact Ec | exact H].
Qed.
Close Scope N_scope.
