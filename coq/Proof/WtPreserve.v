(* Proof/WtPreserve.v (property C12): typing links between the stages.
   1. wt_core c -> focus_wf c            (a well-typed Core program has none of the shapes on which
                                           focusing panics; with C03's focus_total: focusing is total
                                           on well-typed programs)
   2. check_prog a = None -> ... -> prog_ok a   (AxCheck, the checker run on the output of shrinking,
                                           against LinCheck.prog_ok, the hypothesis of the linearization
                                           theorem: what each demands that the other does not)
   3. witnesses and examples computed inside Coq. *)
From Coq Require Import List ZArith NArith String Bool Lia.
From SCC Require Import Base.Sexp Lang.SynUtil Lang.SynInd Lang.CoreSyn Sem.FsCheck Sem.CoreCheck Model.FocusCheck.
Import ListNotations.
Open Scope list_scope.

Lemma seq_none {X} (a b : option X) : match a with None => b | Some e => Some e end = None -> a = None /\ b = None.
Proof. destruct a; [discriminate|auto]. Qed.
Lemma fensure_none b m : fensure b m = None -> b = true.
Proof. destruct b; [reflexivity|discriminate]. Qed.
Ltac seqs H :=
  repeat match type of H with
         | match ?a with None => _ | Some e => Some e end = None =>
             let H1 := fresh "E" in apply seq_none in H; destruct H as [H1 H];
             try (apply fensure_none in H1)
         end.

Section FocusWf.
Variable data codata : list ctydecl.
Variable defs : list cdef.
(* type names are pairwise distinct over data AND codata *)
Hypothesis Hdisj : forall n d, find_decl data n = Some d -> find_decl codata n = None.

Let Pt (t : cterm) : Prop :=
  forall G side ty, ccheck_term data codata defs G side ty t = None -> wf_term side t = true.
Let Pa (a : carg) : Prop :=
  forall G ty, match a with
               | CProducer p => ccheck_term data codata defs G CPrd ty p
               | CConsumer k => ccheck_term data codata defs G CCns ty k
               end = None -> wf_arg a = true.
Let Pc (cl : cclause) : Prop :=
  forall G, match cl with CClause _ _ _ body => ccheck_stmt data codata defs G body end = None -> wf_clause cl = true.
Let Ps (s : cstmt) : Prop :=
  forall G, ccheck_stmt data codata defs G s = None -> wf_stmt s = true.

Lemma typed_wf : (forall t, Pt t) /\ (forall a, Pa a) /\ (forall c, Pc c) /\ (forall s, Ps s).
Proof.
  apply cterm_mutind; unfold Pt, Pa, Pc, Ps.
  - (* XVar *) reflexivity.
  - (* Lit *) intros n G side ty H. cbn [ccheck_term] in H. seqs H. cbn [wf_term]. exact E.
  - (* Op *)
    intros a o b IHa IHb G side ty H. cbn [ccheck_term] in H. seqs H. cbn [wf_term].
    rewrite E, (IHa _ _ _ E1), (IHb _ _ _ H). reflexivity.
  - (* Mu *) intros c v s t IHs G side ty H. cbn [ccheck_term] in H. seqs H. cbn [wf_term]. eapply IHs; exact H.
  - (* Xtor *)
    intros c x args t F G side ty H. cbn [ccheck_term] in H. seqs H. cbn [wf_term].
    destruct ty as [|n]; [discriminate|].
    destruct (find_decl _ n) as [d|]; [|discriminate].
    destruct (find_cxtor d x) as [sg|]; [|discriminate].
    revert H. generalize (cxargs sg). induction F as [|a ar Fa Fr IH]; intros sig H; [reflexivity|].
    destruct sig as [|s sr]; [discriminate|]. seqs H. cbn [forallb].
    rewrite (IH _ H), andb_true_r.
    destruct a as [p|k]; destruct (cbchi s); try discriminate; apply (Fa G (cbty s)); exact E1.
  - (* XCase *)
    intros c cls t F G side ty H. cbn [ccheck_term] in H. seqs H. cbn [wf_term].
    destruct ty as [|n]; [discriminate|].
    destruct (find_decl _ n) as [d|]; [|discriminate]. seqs H. clear E1.
    induction F as [|cl cr Fc Fr IH]; [reflexivity|]. destruct cl as [c' x' ctx body]. seqs H.
    cbn [forallb]. rewrite (IH H), andb_true_r. apply (Fc (ctx ++ G)). exact E1.
  - (* Producer *) intros p IH G ty H. cbn [wf_arg]. eapply IH; exact H.
  - (* Consumer *) intros k IH G ty H. cbn [wf_arg]. eapply IH; exact H.
  - (* Clause *) intros c x ctx body IH G H. cbn [wf_clause]. eapply IH; exact H.
  - (* Cut *)
    intros p t k IHp IHk G H. cbn [ccheck_stmt] in H. seqs H. cbn [wf_stmt].
    rewrite (IHp _ _ _ E0), (IHk _ _ _ H). cbn [andb].
    destruct k; cbn [is_xtor]; try (rewrite !andb_false_r; reflexivity). rewrite !andb_true_r.
    cbn [ccheck_term] in H. seqs H.
    destruct p; cbn [is_xtor is_op]; try reflexivity.
    + (* op against xtor: i64 vs declared type *)
      exfalso. cbn [ccheck_term] in E0. seqs E0. destruct t; [discriminate|]. destruct t0; discriminate.
    + (* xtor against xtor: data vs codata *)
      exfalso. cbn [ccheck_term] in E0. seqs E0. destruct t as [|n]; [discriminate|].
      destruct (find_decl data n) as [d|] eqn:D; [|discriminate].
      rewrite (Hdisj _ _ D) in H. discriminate.
  - (* IfC *)
    intros s a b t e IHa IHb IHt IHe G H. cbn [ccheck_stmt] in H. seqs H. cbn [wf_stmt].
    rewrite (IHa _ _ _ E), (IHt _ E1), (IHe _ H).
    destruct b as [b'|]; [|reflexivity]. rewrite (IHb b' eq_refl _ _ _ E0). reflexivity.
  - (* Print *)
    intros nl a next IHa IHn G H. cbn [ccheck_stmt] in H. seqs H. cbn [wf_stmt].
    rewrite (IHa _ _ _ E), (IHn _ H). reflexivity.
  - (* Call *)
    intros f args t F G H. cbn [ccheck_stmt] in H. seqs H. cbn [wf_stmt].
    destruct (find _ defs) as [d|]; [|discriminate].
    revert H. generalize (cdctx d). induction F as [|a ar Fa Fr IH]; intros sig H; [reflexivity|].
    destruct sig as [|s sr]; [discriminate|]. seqs H. cbn [forallb].
    rewrite (IH _ H), andb_true_r.
    destruct a as [p|k]; destruct (cbchi s); try discriminate; apply (Fa G (cbty s)); exact E0.
  - (* Exit *) intros a t IHa G H. cbn [ccheck_stmt] in H. seqs H. cbn [wf_stmt]. eapply IHa; exact H.
Qed.
End FocusWf.

From SCC Require Import Model.Backend Model.Focus Proof.ShrinkProof Proof.FocusExtra.

Lemma ccheck_defs_in p : forall l d, ccheck_defs p l = None -> In d l ->
  ccheck_stmt (cpdata p) (cpcodata p) (cpdefs p) (cdctx d) (cdbody d) = None.
Proof.
  induction l as [|a r IH]; intros d H Hin; [contradiction|]. cbn [ccheck_defs] in H. seqs H.
  destruct (ccheck_stmt _ _ _ (cdctx a) (cdbody a)) eqn:Ha; [discriminate|].
  destruct Hin as [->|Hin]; [exact Ha|apply IH; assumption].
Qed.

(* 1. a well-typed Core program has none of the shapes on which focusing panics *)
Theorem wt_core_focus_wf : forall c, wt_core c = true -> focus_wf c = true.
Proof.
  intros c H. unfold wt_core in H. destruct (check_core c) eqn:Hc; [discriminate|]. clear H.
  unfold check_core in Hc. seqs Hc.
  unfold focus_wf. apply forallb_forall. intros d Hd.
  pose proof (ccheck_defs_in c _ d Hc Hd) as Hs.
  refine (proj2 (proj2 (proj2 (typed_wf (cpdata c) (cpcodata c) (cpdefs c) _))) (cdbody d) (cdctx d) Hs).
  intros n d0 Hn. apply (nodup_types_disjoint _ _ E0). rewrite Hn. discriminate.
Qed.

(* ... hence focusing (uniquify included) is total on well-typed programs: none of its panics
   ("Cannot happen", "Constructors and destructors should always be focused in cuts directly",
   "Arithmetic operators should always be focused in cuts directly", subst_sim's "cannot happen")
   is reachable *)
Theorem focus_total_wt : forall c, wt_core c = true -> exists f, focus_prog c = Ok f.
Proof. intros c H. apply focus_total_thm. apply wt_core_focus_wf. exact H. Qed.

(* ---------- 3. the capture defect at the level of typing ---------- *)
From SCC Require Import Lang.FunSyn Model.Check Sem.FunTyping Model.Fun2Core Model.WtDefs.

(* REGRESSION (fixed in /repo by d5d4151).  An accepted program - accepted by the model of the checker AND
   well-typed according to the declarative specification Sem/FunTyping.v - whose translation BEFORE THE FIX
   ([compile_prog_before_fix]) is an ILL-TYPED Core program.  The annotated form is the real checker's output
   for corpus/fun/c12_capture_illtyped.sc (compared by modelrun `wt-stages` on every run). *)
Lemma fun2core_typing_refuted_before_fix_lemma :
  exists (src : fprog) (p : fcprog) (c : cprog),
    has_type_b src = true /\ Check.check src = COk p /\ annotated_fcprog p = true /\
    compile_prog_before_fix p = Fun2Core.Ok c /\ wt_core c = false /\
    shadowing_risk_prog p = true /\ barendregt p = false.
Proof.
  exists capture_typing_source, capture_typing_witness.
  destruct (compile_prog_before_fix capture_typing_witness) as [c|m] eqn:E; [|vm_compute in E; discriminate].
  exists c. repeat split; try (vm_compute; reflexivity).
  revert E. vm_compute. intros E. inversion E. reflexivity.
Qed.
(* ... the repaired translation of the same program is well-typed *)
Lemma capture_typing_witness_fixed_lemma :
  exists c, compile_prog capture_typing_witness = Fun2Core.Ok c /\ wt_core c = true /\
            shadowing_risk_prog capture_typing_witness = true.
Proof.
  destruct (compile_prog capture_typing_witness) as [c|m] eqn:E; [|vm_compute in E; discriminate].
  exists c. split; [reflexivity|]. split; [|vm_compute; reflexivity].
  revert E. vm_compute. intros E. inversion E. reflexivity.
Qed.

(* ---------- 4. the composition ----------
   The links that are NOT proved are hypotheses; everything else is discharged by proved theorems:
     focusing total on typed programs          wt_core_focus_wf + C03 focus_total_thm
     shrinking total on typed programs         C04 shrink_total
     wt_ax (+ pre_linear, binders_ok) -> prog_ok                 Proof/AxToLin.v wt_ax_prog_ok
     prog_ok -> lin_check_prog (linearize)     C05 linearize_exact (Proof/LinearizeProof.v)
     lin_check_prog + within capacity -> code generation Ok      Proof/Codegen{Total,X86,A64,RV}.v *)
From SCC Require Import Lang.AxSyn Model.Shrink Model.Linearize Model.LinCheck Model.Capacity Model.X86 Model.A64 Model.RV.
From SCC Require Sem.AxCheck.
From SCC Require Import Proof.LinearizeProof Proof.AxToLin Proof.CodegenTotal Proof.CodegenX86 Proof.CodegenA64 Proof.CodegenRV.

Definition H_fun2core_wt : Prop :=
  forall src p, Check.check src = COk p -> barendregt p = true ->
  exists c, compile_prog p = Fun2Core.Ok c /\ wt_core c = true /\ pre_check c = true.
Definition H_focus_wt : Prop :=
  forall c f, wt_core c = true -> pre_check c = true -> focus_prog c = Backend.Ok f ->
  wt_fs f = true /\ unique_binders f = true /\ ids_bounded f = true.
Definition H_shrink_wt : Prop :=
  forall f a, wt_fs f = true -> unique_binders f = true -> ids_bounded f = true -> shrink_prog f = SOk a ->
  AxCheck.wt_ax a = true /\ pre_linear_prog a = true /\ binders_ok a = true.

Lemma pipeline_wt_partial_lemma :
  H_fun2core_wt -> H_focus_wt -> H_shrink_wt ->
  forall src p, Check.check src = COk p -> barendregt p = true ->
  exists c f a,
    compile_prog p = Fun2Core.Ok c /\ wt_core c = true /\
    focus_prog c = Backend.Ok f /\ wt_fs f = true /\
    shrink_prog f = SOk a /\ AxCheck.wt_ax a = true /\ prog_ok a = true /\
    let l := linearize a in
    lin_check_prog l = true /\
    (forall lc, within_capacity_x86 l = true -> exists code lc', x86_compile l lc = Backend.Ok (code, main_arity l, lc')) /\
    (forall lc, within_capacity_a64 l = true -> exists code lc', a64_compile l lc = Backend.Ok (code, main_arity l, lc')) /\
    (forall lc, within_capacity_rv l = true -> exists code lc', rv_compile l lc = Backend.Ok (code, main_arity l, lc')).
Proof.
  intros HF HFo HS src p CK BA.
  destruct (HF src p CK BA) as (c & EC & WC & PC).
  destruct (focus_total_wt c WC) as [f EF].
  destruct (HFo c f WC PC EF) as (WF & UB & IB).
  destruct (shrink_total f WF) as [a EA].
  destruct (HS f a WF UB IB EA) as (WA & PL & BO).
  assert (PO : prog_ok a = true).
  { apply wt_ax_prog_ok; [|exact PL|exact BO]. unfold AxCheck.wt_ax in WA. destruct (AxCheck.check_prog a); [discriminate|reflexivity]. }
  pose proof (linearize_exact a PO) as LC.
  exists c, f, a.
  split; [exact EC|]. split; [exact WC|]. split; [exact EF|]. split; [exact WF|].
  split; [exact EA|]. split; [exact WA|]. split; [exact PO|]. cbv zeta. split; [exact LC|]. split; [|split].
  - intros lc W. exact (x86_codegen_total _ lc LC W).
  - intros lc W. exact (a64_codegen_total _ lc LC W).
  - intros lc W. exact (rv_codegen_total _ lc LC W).
Qed.
Print Assumptions pipeline_wt_partial_lemma.

Lemma hypotheses_are_statements :
  (H_fun2core_wt <-> (forall src p, Check.check src = COk p -> barendregt p = true ->
                      exists c, compile_prog p = Fun2Core.Ok c /\ wt_core c = true /\ pre_check c = true)) /\
  ((forall c, wt_core c = true -> pre_check c = true ->
    exists f, focus_prog c = Backend.Ok f /\ wt_fs f = true /\ unique_binders f = true /\ ids_bounded f = true) -> H_focus_wt) /\
  ((forall f, wt_fs f = true -> unique_binders f = true -> ids_bounded f = true ->
    exists a, shrink_prog f = SOk a /\ AxCheck.wt_ax a = true /\ pre_linear_prog a = true /\ binders_ok a = true) -> H_shrink_wt).
Proof.
  split; [split; intros H; exact H|]. split.
  - intros H c f WC PC EF. destruct (H c WC PC) as (f' & EF' & R). rewrite EF in EF'. inversion EF'; subst. exact R.
  - intros H f a WF UB IB EA. destruct (H f WF UB IB) as (a' & EA' & R). rewrite EA in EA'. inversion EA'; subst. exact R.
Qed.
