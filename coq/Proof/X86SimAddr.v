(* C06, forward simulation, part 6: byte addresses in the code image.  `mk_image` gives every
   instruction an address (sizes: 5 for `jmp near`, 16 otherwise, 0 for labels and directives), and
   `index_at` maps an address back to the FIRST instruction placed there.  What the closure and jump-table
   code needs: consecutive instructions have consecutive addresses, the address of a label is the
   address of the instruction index it names, and an indirect jump to the address of an instruction that
   follows an instruction of non-zero size enters exactly there. *)
From Coq Require Import List ZArith NArith String Bool Lia FMapPositive.
From SCC Require Import Base.Sexp Lang.AxSyn Sem.AxSem Model.Backend Model.X86 Sem.X86Sem
     Proof.X86State Proof.X86Exec Proof.X86SimRel.
Import ListNotations.
Open Scope Z_scope.
Open Scope list_scope.

Lemma isize_nonneg c : 0 <= isize c.
Proof. destruct c; cbn; lia. Qed.

Record img_ok (im : image) : Prop := {
  io_addr : forall pc c, PM.find pc (code im) = Some c -> exists a, PM.find pc (addr_of im) = Some a /\ CODE_BASE <= a;
  io_next : forall pc c c' a, PM.find pc (code im) = Some c -> PM.find (Pos.succ pc) (code im) = Some c' ->
            PM.find pc (addr_of im) = Some a -> PM.find (Pos.succ pc) (addr_of im) = Some (a + isize c);
  io_index : forall pc c c' a, PM.find pc (code im) = Some c -> PM.find (Pos.succ pc) (code im) = Some c' ->
             0 < isize c -> PM.find pc (addr_of im) = Some a ->
             PM.find (key (a + isize c)) (index_at im) = Some (Pos.succ pc)
}.

Fixpoint size_of (cs : list xcode) : Z := match cs with [] => 0 | c :: r => isize c + size_of r end.
Lemma size_of_nonneg cs : 0 <= size_of cs.
Proof. induction cs as [|c r IH]; cbn; [lia|]. pose proof (isize_nonneg c). lia. Qed.

Lemma build_code_lt : forall cs i a im j, (j < i)%positive -> PM.find j (code (build cs i a im)) = PM.find j (code im).
Proof.
  induction cs as [|c r IH]; cbn [build]; intros i a im j Hj; [reflexivity|].
  rewrite IH by lia. cbn. apply PM.gso. lia.
Qed.
Lemma build_addr_lt : forall cs i a im j, (j < i)%positive -> PM.find j (addr_of (build cs i a im)) = PM.find j (addr_of im).
Proof.
  induction cs as [|c r IH]; cbn [build]; intros i a im j Hj; [reflexivity|].
  rewrite IH by lia. cbn. apply PM.gso. lia.
Qed.
Lemma padd_ge : forall n i, (i <= padd i n)%positive.
Proof. induction n; cbn; intros; [lia|]. specialize (IHn (Pos.succ i)). lia. Qed.
Lemma build_code_nth : forall cs i a im n c,
  nth_error cs n = Some c -> PM.find (padd i n) (code (build cs i a im)) = Some c.
Proof.
  induction cs as [|c0 r IH]; intros i a im n c Hn; [destruct n; discriminate|].
  destruct n; cbn [nth_error padd build] in *.
  - injection Hn as ->. rewrite build_code_lt by lia. cbn. apply PM.gss.
  - now apply IH.
Qed.
Lemma build_code_inv : forall cs i a im j c,
  PM.find j (code (build cs i a im)) = Some c ->
  PM.find j (code im) = Some c \/ exists n, j = padd i n /\ nth_error cs n = Some c.
Proof.
  induction cs as [|c0 r IH]; intros i a im j c H; cbn [build] in H; [now left|].
  apply IH in H as [H|(n & -> & Hn)].
  - cbn [code] in H. destruct (Pos.eq_dec j i) as [->|NE].
    + rewrite PM.gss in H. inversion H; subst. right. exists O. auto.
    + rewrite PM.gso in H by exact NE. now left.
  - right. exists (S n). auto.
Qed.
Lemma build_addr_nth : forall cs i a im n c,
  nth_error cs n = Some c -> PM.find (padd i n) (addr_of (build cs i a im)) = Some (a + size_of (firstn n cs)).
Proof.
  induction cs as [|c0 r IH]; intros i a im n c Hn; [destruct n; discriminate|].
  destruct n; cbn [nth_error padd build firstn size_of] in *.
  - rewrite build_addr_lt by lia. cbn. rewrite PM.gss. f_equal. lia.
  - erewrite IH by eassumption. f_equal. lia.
Qed.
Lemma build_index_keep : forall cs i a im k v,
  PM.find k (index_at im) = Some v -> PM.find k (index_at (build cs i a im)) = Some v.
Proof.
  induction cs as [|c0 r IH]; intros i a im k v H; cbn [build]; [exact H|].
  apply IH. cbn [index_at]. destruct (PM.find (key a) (index_at im)) eqn:E; [exact H|].
  rewrite PM.gso; [exact H|]. intros ->. congruence.
Qed.
Lemma size_firstn_pos : forall cs n m c, nth_error cs m = Some c -> 0 < isize c -> (m < n)%nat -> 0 < size_of (firstn n cs).
Proof.
  induction cs as [|c0 r IH]; intros n m c Hm Hc L; [destruct m; discriminate|].
  destruct n as [|n]; [lia|]. cbn [firstn size_of]. pose proof (isize_nonneg c0). pose proof (size_of_nonneg (firstn n r)).
  destruct m as [|m]; cbn [nth_error] in Hm.
  - inversion Hm; subst. lia.
  - specialize (IH n m c Hm Hc). lia.
Qed.
Lemma build_index_first : forall cs i a im n c,
  0 < a -> nth_error cs n = Some c ->
  (forall b, a + size_of (firstn n cs) <= b -> PM.find (key b) (index_at im) = None) ->
  (n = O \/ exists c0, nth_error cs (n - 1) = Some c0 /\ 0 < isize c0) ->
  PM.find (key (a + size_of (firstn n cs))) (index_at (build cs i a im)) = Some (padd i n).
Proof.
  induction cs as [|c0 r IH]; intros i a im n c Ha Hn NONE PREV; [destruct n; discriminate|].
  destruct n as [|n]; cbn [nth_error padd build firstn size_of] in *.
  - rewrite Z.add_0_r in *. apply build_index_keep. cbn [index_at]. rewrite (NONE a) by lia. apply PM.gss.
  - pose proof (isize_nonneg c0) as S0. pose proof (size_of_nonneg (firstn n r)) as S1.
    assert (POS : 0 < isize c0 + size_of (firstn n r)).
    { destruct PREV as [E|(cp & Hp & Sp)]; [discriminate|]. cbn [Nat.sub] in Hp. rewrite Nat.sub_0_r in Hp.
      destruct n as [|n]; cbn [nth_error] in Hp.
      - inversion Hp; subst. lia.
      - assert (0 < size_of (firstn (S n) r)) by (eapply (size_firstn_pos r (S n) n); eauto). lia. }
    rewrite Z.add_assoc. apply (IH (Pos.succ i) (a + isize c0) _ n c); [lia|exact Hn| |].
    + intros b Hb. cbn [index_at]. destruct (PM.find (key a) (index_at im)) eqn:E.
      * apply NONE. lia.
      * rewrite PM.gso; [apply NONE; lia|]. intros K. apply key_inj in K; lia.
    + destruct PREV as [E|(cp & Hp & Sp)]; [discriminate|]. cbn [Nat.sub] in Hp. rewrite Nat.sub_0_r in Hp.
      destruct n as [|n]; [now left|]. right. cbn [nth_error] in Hp. cbn [Nat.sub]. rewrite Nat.sub_0_r. eauto.
Qed.

Lemma firstn_S_size cs : forall n c, nth_error cs n = Some c -> size_of (firstn (S n) cs) = size_of (firstn n cs) + isize c.
Proof.
  induction cs as [|c0 r IH]; intros n c H; [destruct n; discriminate|].
  destruct n as [|n]; cbn [nth_error] in H.
  - inversion H; subst. cbn. lia.
  - change (firstn (S (S n)) (c0 :: r)) with (c0 :: firstn (S n) r). change (firstn (S n) (c0 :: r)) with (c0 :: firstn n r).
    cbn [size_of]. rewrite (IH n c H). lia.
Qed.

Theorem mk_image_ok cs : img_ok (mk_image cs).
Proof.
  set (im0 := {| code := PM.empty xcode; addr_of := PM.empty Z; index_at := PM.empty positive; labels := []; len := 1%positive |}).
  assert (INV : forall j c, PM.find j (code (mk_image cs)) = Some c -> exists n, j = padd 1%positive n /\ nth_error cs n = Some c).
  { intros j c H. apply build_code_inv in H as [H|H]; [|exact H]. cbn in H. rewrite PM.gempty in H. discriminate. }
  split.
  - intros pc c H. destruct (INV pc c H) as (n & -> & Hn). eexists. split; [apply (build_addr_nth cs _ _ _ n c Hn)|].
    pose proof (size_of_nonneg (firstn n cs)). lia.
  - intros pc c c' a H H' A. destruct (INV pc c H) as (n & -> & Hn). destruct (INV _ c' H') as (n' & E & Hn').
    rewrite <- padd_succ in E. apply padd_inj in E. subst n'.
    unfold mk_image in *. rewrite (build_addr_nth cs _ _ _ n c Hn) in A. assert (EA : a = CODE_BASE + size_of (firstn n cs)) by congruence. subst a. clear A.
    rewrite <- padd_succ. rewrite (build_addr_nth cs _ _ _ (S n) c' Hn'). f_equal. rewrite (firstn_S_size cs n c Hn). lia.
  - intros pc c c' a H H' SZ A. destruct (INV pc c H) as (n & -> & Hn). destruct (INV _ c' H') as (n' & E & Hn').
    rewrite <- padd_succ in E. apply padd_inj in E. subst n'.
    unfold mk_image in *. rewrite (build_addr_nth cs _ _ _ n c Hn) in A. assert (EA : a = CODE_BASE + size_of (firstn n cs)) by congruence. subst a. clear A.
    rewrite <- padd_succ. rewrite <- Z.add_assoc, <- (firstn_S_size cs n c Hn).
    apply (build_index_first cs _ CODE_BASE _ (S n) c'); [reflexivity|exact Hn'| |].
    + intros b _. cbn. apply PM.gempty.
    + right. exists c. cbn [Nat.sub]. rewrite Nat.sub_0_r. auto.
Qed.

(* the address of a label is the address of the instruction index it resolves to *)
Lemma label_addr_at im l i a :
  find_label (labels im) l = Some i -> PM.find i (addr_of im) = Some a -> label_addr im l = Some a.
Proof. intros H A. unfold label_addr. now rewrite H. Qed.

(* addresses along placed code *)
Lemma addr_along im (IO : img_ok im) : forall cs pc a,
  code_at im pc cs -> PM.find pc (addr_of im) = Some a ->
  forall n c, nth_error cs n = Some c -> PM.find (padd pc n) (addr_of im) = Some (a + size_of (firstn n cs)).
Proof.
  induction cs as [|c0 r IH]; intros pc a CA A n c Hn; [destruct n; discriminate|].
  apply code_at_cons in CA as [C0 CA].
  destruct n as [|n]; cbn [nth_error padd firstn size_of] in *; [rewrite A; f_equal; lia|].
  destruct r as [|c1 r']; [destruct n; discriminate|].
  pose proof CA as CA'. apply code_at_cons in CA' as [C1 _].
  pose proof (io_next im IO pc c0 c1 a C0 C1 A) as A1.
  rewrite (IH (Pos.succ pc) (a + isize c0) CA A1 n c Hn). f_equal. lia.
Qed.

(* every address in the image is the base plus the size of a prefix of the code *)
Lemma build_addr_inv : forall cs i a im j x,
  PM.find j (addr_of (build cs i a im)) = Some x ->
  PM.find j (addr_of im) = Some x \/ exists n c, j = padd i n /\ nth_error cs n = Some c /\ x = a + size_of (firstn n cs).
Proof.
  induction cs as [|c0 r IH]; intros i a im j x H; cbn [build] in H; [now left|].
  apply IH in H as [H|(n & c & -> & Hn & ->)].
  - cbn [addr_of] in H. destruct (Pos.eq_dec j i) as [->|NE].
    + rewrite PM.gss in H. inversion H; subst. right. exists O, c0. cbn. repeat split; auto. lia.
    + rewrite PM.gso in H by exact NE. now left.
  - right. exists (S n), c. cbn [padd nth_error firstn size_of]. repeat split; auto. lia.
Qed.
Lemma size_firstn_le : forall cs n, size_of (firstn n cs) <= size_of cs.
Proof.
  induction cs as [|c r IH]; intros n; destruct n; cbn [firstn size_of]; try lia.
  - pose proof (isize_nonneg c). pose proof (size_of_nonneg r). lia.
  - specialize (IH n). lia.
Qed.
Definition code_small (cs : list xcode) : bool := size_of cs <? 4611686018427387904 - CODE_BASE.
Lemma mk_image_small cs : code_small cs = true ->
  forall pc a, PM.find pc (addr_of (mk_image cs)) = Some a -> a < 4611686018427387904.
Proof.
  unfold code_small. rewrite Z.ltb_lt. intros H pc a A. unfold mk_image in A.
  apply build_addr_inv in A as [A|(n & c & _ & _ & ->)]; [cbn in A; rewrite PM.gempty in A; discriminate|].
  pose proof (size_firstn_le cs n). lia.
Qed.
Lemma mk_image_code_in cs pc c : PM.find pc (code (mk_image cs)) = Some c -> In c cs.
Proof.
  intros H. apply build_code_inv in H as [H|(n & _ & Hn)]; [cbn in H; rewrite PM.gempty in H; discriminate|].
  eapply nth_error_In; eauto.
Qed.
