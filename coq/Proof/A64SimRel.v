(* C07, forward simulation of the AArch64 code generator, part 1: the state relation between a
   configuration of the linear AxCut machine and a state of Sem/A64Sem.v, the footprint of straight-line
   code (what code that never writes SP, stores only into the spill area and neither calls nor returns
   leaves alone), and execution inside an image up to a final observation.  Port of Proof/X86SimRel.v.

   AArch64 specifics: position i owns X(2i+4), X(2i+5) for i < 13 - so the 13th variable's value lives in
   internal register 29 = X30, the LINK register - and spill slots 2i-25, 2i-24 from position 13 on (slot 0
   is the scratch slot of `rem`); the scratch registers are X2, X3 (and X10 evacuated to slot 0); SP must be
   0 mod 16 at every sp-relative access, so the body runs with sp = 0 (mod 16); literals are synthesised
   from half-words, remainders by SDIV+MSUB and conditions from the NZCV flags, all of which are exact on
   64-bit values only: the relation carries `in64 z` for every integer. *)
From Coq Require Import List ZArith NArith String Bool Lia FMapPositive.
From SCC Require Import Base.Sexp Lang.AxSyn Sem.AxSem Model.ParMoves Model.Backend Model.A64 Sem.A64Sem
     Generated.Constants Proof.A64State Proof.A64ImmHw Proof.A64Imm Proof.A64Sel Proof.A64PM Proof.A64Exec
     Proof.A64MemSubst Proof.SubstGraph Proof.SubstBackends Proof.A64Subst Proof.A64Wf Proof.A64Print.
From SCC Require Export Proof.SimFrag.
Import ListNotations.
Open Scope Z_scope.
Open Scope list_scope.

(* ---------- what straight-line code leaves alone ---------- *)
(* everything but registers, flags and spill slots: heap, output, the stack outside the spill
   area (in particular the words above it, where the prologue saved X19-X30) *)
Definition frame_eq (s s' : astate) (sp : Z) : Prop :=
  heap s' = heap s /\ out s' = out s /\
  (forall k, (forall p, slot_ok p -> k <> key (slot_addr sp p)) -> PM.find k (stack s') = PM.find k (stack s)).
Lemma frame_eq_refl s sp : frame_eq s s sp.
Proof. repeat split; auto. Qed.
Lemma frame_eq_trans s1 s2 s3 sp : frame_eq s1 s2 sp -> frame_eq s2 s3 sp -> frame_eq s1 s3 sp.
Proof.
  intros (A1 & C1 & E1) (A2 & C2 & E2). repeat split; try congruence.
  intros k Hk. rewrite E2, E1; auto.
Qed.
Lemma frame_eq_rset s sp r v : frame_eq s (rset s r v) sp.
Proof. destruct r; repeat split; auto. Qed.
Lemma frame_eq_set_flags s sp f : frame_eq s (set_flags s f) sp.
Proof. repeat split; auto. Qed.
Lemma frame_eq_sset s sp p v : slot_ok p -> frame_eq s (sset s sp p v) sp.
Proof.
  intros P. repeat split; auto. intros k Hk. unfold sset. cbn [stack].
  destruct v; [apply PM.gso|apply PM.gro]; apply Hk; exact P.
Qed.

(* an offset from sp that addresses a spill slot *)
Definition slot_off (i : Z) : bool := (0 <=? i) && (i <? SPILL_SPACE) && (i mod 8 =? 0).
Lemma slot_off_inv i : slot_off i = true -> exists p, slot_ok p /\ i = stack_offset p.
Proof.
  unfold slot_off. rewrite !andb_true_iff, Z.leb_le, Z.ltb_lt, Z.eqb_eq. intros [[A B] C].
  change SPILL_SPACE with 2048 in *.
  exists (Z.to_N ((2048 - i) / 8 - 1)). unfold slot_ok, stack_offset. change SPILL_NUM with 256%N. change SPILL_SPACE with 2048.
  assert (E : i = 8 * (i / 8)) by (rewrite (Z.div_mod i 8) at 1 by lia; lia).
  assert (Q : (2048 - i) / 8 = 256 - i / 8).
  { rewrite E at 1. replace (2048 - 8 * (i / 8)) with ((256 - i / 8) * 8) by lia. apply Z.div_mul. lia. }
  rewrite Q. assert (0 <= i / 8 < 256) by (split; [apply Z.div_pos; lia|apply Z.div_lt_upper_bound; lia]).
  split; [lia|]. rewrite Z2N.id by lia. lia.
Qed.
Lemma slot_off_stack_offset p : slot_ok p -> slot_off (stack_offset p) = true.
Proof.
  unfold slot_ok, slot_off, stack_offset. change SPILL_NUM with 256%N. change SPILL_SPACE with 2048. intros P.
  rewrite !andb_true_iff, Z.leb_le, Z.ltb_lt, Z.eqb_eq. repeat split; try lia.
  replace (2048 - 8 * (Z.of_N p + 1)) with ((255 - Z.of_N p) * 8) by lia. apply Z.mod_mul. lia.
Qed.

(* instructions that do not write SP, store only into the spill area and neither call, return, push nor pop *)
Definition nsp (r : areg) : bool := match r with SP => false | _ => true end.
Definition local_instr (c : acode) : bool :=
  match c with
  | ADD d _ _ | SUB d _ _ | MUL d _ _ | SDIV d _ _ | MSUB d _ _ _ | ADDI d _ _ | SUBI d _ _
  | MOVR d _ | MOVZ d _ _ | MOVN d _ _ | MOVK d _ _ | ADR d _ | LDR d _ _ => nsp d
  | STR _ b i => match b with SP => slot_off i | _ => false end
  | BL _ | RET | STP_PRE_INDEX _ _ _ _ | LDP_POST_INDEX _ _ _ _ => false
  | _ => true
  end.
Definition local_code (cs : list acode) : bool := forallb local_instr cs.
Lemma local_code_app a b : local_code (a ++ b) = local_code a && local_code b.
Proof. apply forallb_app. Qed.

Definition sres (r : step_res) : option astate :=
  match r with Next s | Jump s _ | Undefd _ s => Some s | _ => None end.

Lemma nsp_ne r : nsp r = true -> r <> SP.
Proof. destruct r; cbn; congruence. Qed.

Ltac crunch :=
  repeat match goal with
         | |- sres (match ?x with _ => _ end) = _ -> _ => destruct x eqn:?; cbn [sres]; try discriminate
         | |- sres (if ?x then _ else _) = _ -> _ => destruct x eqn:?; cbn [sres]; try discriminate
         end.
Ltac fin F :=
  let E := fresh "E" in
  cbn [sres]; intros E; inversion E; subst;
  (split; [first [exact F | apply frame_ok_set_flags; exact F | apply frame_ok_sset; exact F
                 | apply frame_ok_rset; [apply nsp_ne; assumption|exact F] ]
          | first [ apply frame_eq_refl | apply frame_eq_rset | apply frame_eq_set_flags | (apply frame_eq_sset; assumption) ] ]).

Lemma step_local im c s sp s' :
  local_instr c = true -> frame_ok s sp -> sres (step im c s) = Some s' -> frame_ok s' sp /\ frame_eq s s' sp.
Proof.
  intros L F.
  destruct c; cbn [local_instr] in L; try discriminate; cbn [step];
    unfold arith3, arith_imm, need, withm, cond_jump, goto_addr; unfold goto_label.
  all: try (crunch; fin F; fail).
  - (* LDR *) unfold ea, need. crunch. all: unfold withm; crunch; fin F.
  - (* STR into a spill slot *)
    destruct b; try discriminate. destruct (slot_off_inv i L) as (p & P & ->).
    rewrite (ea_sp s sp) by exact F. unfold withm. rewrite mstore_slot by (auto; apply F). fin F.
Qed.

Lemma run_straight_local im cs : forall s sp s',
  local_code cs = true -> frame_ok s sp -> run_straight im cs s = MOk s' -> frame_ok s' sp /\ frame_eq s s' sp.
Proof.
  induction cs as [|c cs IH]; intros s sp s' L F E; cbn in *.
  - inversion E; subst. split; [exact F|apply frame_eq_refl].
  - apply andb_true_iff in L as [L0 L1]. destruct (step im c s) as [s1| | | |] eqn:St; try discriminate.
    destruct (step_local im c s sp s1 L0 F) as [F1 E1]; [now rewrite St|].
    destruct (IH s1 sp s' L1 F1 E) as [F2 E2]. split; [exact F2|eapply frame_eq_trans; eauto].
Qed.

(* ---------- execution inside an image up to the final observation ---------- *)
Definition finishes (im : image) (pc : positive) (s : astate) (o : obs) : Prop :=
  exists n sf, run_chunk n im pc s = Finished o sf.

Lemma exec_to_finishes im pc s pc' s' o : exec_to im pc s pc' s' -> finishes im pc' s' o -> finishes im pc s o.
Proof.
  induction 1 as [pc s|pc c s s1 pc' s' Hc Hs _ IH|pc c s s1 i pc' s' Hc Hs _ IH]; intros Fin; auto.
  - destruct (IH Fin) as (n & sf & Hn). exists (S n), sf. cbn [run_chunk]. now rewrite Hc, Hs.
  - destruct (IH Fin) as (n & sf & Hn). exists (S n), sf. cbn [run_chunk]. now rewrite Hc, Hs.
Qed.
Lemma finishes_run im pc s o : finishes im pc s o -> exists outer inner, fst (run outer inner im pc s) = o.
Proof. intros (n & sf & Hn). exists 1%nat, n. cbn [run]. now rewrite Hn. Qed.
Lemma finishes_undef im pc c s w s' :
  PM.find pc (code im) = Some c -> step im c s = Undefd w s' -> finishes im pc s (finish (out s') (OUndef w)).
Proof. intros Hc Hs. exists 1%nat, s'. cbn [run_chunk]. now rewrite Hc, Hs. Qed.
Lemma finishes_done im pc c s s' :
  PM.find pc (code im) = Some c -> step im c s = Done s' -> finishes im pc s (finish (out s') (final_check s')).
Proof. intros Hc Hs. exists 1%nat, s'. cbn [run_chunk]. now rewrite Hc, Hs. Qed.

(* jumping to a label that sits in placed code.  Only labels that do not start with '#' are required
   to resolve to their own position: these are the labels whose uniqueness the assembler-level check
   `asm_wf` (Sem/A64Wf.v) establishes on the real output (`hash_name` is its `is_hash_label`). *)
Definition labels_at_nh (im : image) (pc : positive) (cs : list acode) : Prop :=
  forall j l, nth_error cs j = Some (LAB l) -> hash_name l = false -> find_label (labels im) l = Some (padd pc j).
Lemma labels_at_nh_app im pc a b :
  labels_at_nh im pc (a ++ b) <-> labels_at_nh im pc a /\ labels_at_nh im (padd pc (List.length a)) b.
Proof.
  unfold labels_at_nh. split.
  - intros H. split.
    + intros j c Hj. apply H. rewrite nth_error_app1; auto. apply nth_error_Some. congruence.
    + intros j c Hj. rewrite <- padd_add. apply H. rewrite nth_error_app2 by lia.
      replace (List.length a + j - List.length a)%nat with j by lia. exact Hj.
  - intros [Ha Hb] j c Hj. destruct (Nat.lt_ge_cases j (List.length a)) as [L|L].
    + apply Ha. now rewrite nth_error_app1 in Hj.
    + rewrite nth_error_app2 in Hj by lia. intros NH. apply Hb in Hj; [|exact NH]. rewrite <- padd_add in Hj.
      now replace (List.length a + (j - List.length a))%nat with j in Hj by lia.
Qed.
Lemma labels_at_weaken im pc cs : labels_at im pc cs -> labels_at_nh im pc cs.
Proof. intros H j l Hj _. exact (H j l Hj). Qed.
Lemma goto_label_at im pc cs j l s :
  labels_at_nh im pc cs -> nth_error cs j = Some (LAB l) -> hash_name l = false -> goto_label im s l = Jump s (padd pc j).
Proof. intros LA H NH. unfold goto_label. now rewrite (LA j l H NH). Qed.
Lemma code_at_nth im pc cs j c : code_at im pc cs -> nth_error cs j = Some c -> PM.find (padd pc j) (code im) = Some c.
Proof. intros CA H. exact (CA j c H). Qed.

(* labels that are not marks resolve: from labels_at_nh to labels_at for code whose labels are `lab<n>` *)
Definition nh_labels (cs : list acode) : Prop :=
  Forall (fun c => match c with LAB l => hash_name l = false | _ => True end) cs.
Lemma nh_labels_app a b : nh_labels a -> nh_labels b -> nh_labels (a ++ b).
Proof. intros A B. apply Forall_app. split; assumption. Qed.
Lemma labels_at_of_nh im pc cs : nh_labels cs -> labels_at_nh im pc cs -> labels_at im pc cs.
Proof.
  intros NH LA j l Hj. apply LA; auto. unfold nh_labels in NH. rewrite Forall_forall in NH.
  exact (NH _ (nth_error_In _ _ Hj)).
Qed.

(* ---------- the temporaries of the positions ---------- *)
Notation avt := (variable_temporary a64_backend Snd).
Notation acs := (code_statement a64_backend).

(* a variable temporary is usable by every selection lemma: not SP/XZR, not X0..X3, not the scratch slot *)
Lemma atpos_ok n i t :
  atpos n i = Ok t -> rem_operand_ok t /\ t <> AR FREE /\ t <> AR HEAP.
Proof.
  intros H. destruct (atpos_operand_ok n i t H) as (O & NF & NH). split; [|auto]. split; [exact O|].
  unfold tpos in H. cbn [b_temporary_from_position a64_backend a64_backend_with] in H.
  destruct (tfp_cases _ _ H) as [(r & -> & _)|(q & -> & _)]; [discriminate|].
  unfold temporary_from_position in H. change RESERVED with 4%N in H. change REGISTER_NUM with 30%N in H.
  change RESERVED_SPILLS with 1%N in H. change SPILL_NUM with 256%N in H. change SPILL_TEMP with 0%N.
  destruct (N.ltb _ 30); [discriminate|]. destruct (N.ltb _ 256); [|discriminate]. intros E. inversion H. inversion E. lia.
Qed.
Lemma atpos_shape n i t :
  atpos n i = Ok t ->
  ((i < 13)%nat /\ t = AR (X (2 * N.of_nat i + tnum_n n + 4))) \/ ((13 <= i)%nat /\ exists q, t = AS q /\ slot_ok q /\ q <> 0%N).
Proof.
  intros H. pose proof (atpos_ok n i t H) as (((L & _) & N0) & _).
  unfold tpos in H. cbn [b_temporary_from_position a64_backend a64_backend_with] in H.
  unfold temporary_from_position in H. change RESERVED with 4%N in H. change REGISTER_NUM with 30%N in H.
  assert (TN : (tnum_n n <= 1)%N) by (destruct n; cbn; lia).
  destruct (N.ltb_spec (2 * N.of_nat i + tnum_n n + 4) 30).
  - left. inversion H; subst. split; [lia|reflexivity].
  - right. destruct (N.ltb _ _); [|discriminate]. inversion H; subst. split; [lia|]. eexists; split; [reflexivity|].
    split; [exact L|]. intros E. apply N0. rewrite E. reflexivity.
Qed.
Lemma vt_of_nth c c' i b :
  NoDup (ids (c ++ c')) -> nth_error c i = Some b ->
  variable_temporary a64_backend Snd (c ++ c') (idn (bvar b)) = atpos Snd i.
Proof.
  intros ND H. apply vt_tpos; auto. rewrite nth_error_app1; auto. apply nth_error_Some. congruence.
Qed.
Lemma vt_of_nth0 c i b :
  NoDup (ids c) -> nth_error c i = Some b -> variable_temporary a64_backend Snd c (idn (bvar b)) = atpos Snd i.
Proof. intros ND H. now apply vt_tpos. Qed.

(* 64-bit values stay 64-bit values *)
Lemma in64_wrap z : in64 (wrap z).
Proof. unfold in64, wrap, two63, two64. Z.div_mod_to_equations. lia. Qed.
Lemma in64_quot a b : in64 a -> b <> 0 -> ~ (a = min_int /\ b = -1) -> in64 (Z.quot a b).
Proof.
  unfold in64, min_int, two63. intros A NZ NO. Z.to_euclidean_division_equations. nia.
Qed.
Lemma in64_rem a b : in64 a -> b <> 0 -> in64 (Z.rem a b).
Proof.
  unfold in64. intros A NZ. destruct (rem_between a b NZ) as [P N]. unfold two63 in *.
  destruct (Z_le_gt_dec 0 a); [specialize (P ltac:(lia))|specialize (N ltac:(lia))]; lia.
Qed.
Lemma in64_eval_op o a b v : in64 a -> eval_op o a b = OpVal v -> in64 v.
Proof.
  intros A E. destruct o; cbn [eval_op] in E.
  - destruct (Z.eqb_spec b 0); [discriminate|]. destruct ((a =? min_int) && (b =? -1)) eqn:O; [discriminate|].
    inversion E; subst. apply in64_quot; auto. intros (-> & ->). cbn in O. discriminate.
  - inversion E; subst. apply in64_wrap.
  - destruct (Z.eqb_spec b 0); [discriminate|]. destruct ((a =? min_int) && (b =? -1)); [discriminate|].
    inversion E; subst. apply in64_rem; auto.
  - inversion E; subst. apply in64_wrap.
  - inversion E; subst. apply in64_wrap.
Qed.
Lemma lit_i64_in64 z : lit_i64 z = true <-> in64 z.
Proof. unfold lit_i64, in64, min_int, max_int. rewrite andb_true_iff, !Z.leb_le. lia. Qed.

Lemma preserved_weaken s s' sp t : preserved s s' sp t -> preserved_rem s s' sp t.
Proof. intros (P & R). split; [|exact R]. intros; apply P; auto. Qed.

(* ---------- the state relation ---------- *)
Section Rel.
(* what a closure's code pointer points to: (address, type name, clauses); fixed by the program-level
   development (Proof/A64SimClo.v); the statement-level lemmas never look inside *)
Variable CL : Z -> ident -> list clause -> Prop.

(* how the value of position i is represented:
   - an integer (binding `ext i64`): the SECOND temporary of the position holds it (X(2i+5) for i < 13 - the
     link register X30 for i = 12 - spill slot 2i-24 after), and it is a 64-bit value;
   - a closure without captured variables (binding `cns T`): the first temporary holds the null block
     pointer, the second one the address of the closure's jump table / single clause *)
Inductive vrep (s : astate) (sp : Z) (i : nat) : binding -> value -> Prop :=
| vrep_int b z t :
    bchi b = Ext -> bty b = I64 -> atpos Snd i = Ok t -> lget s sp t = Some z -> in64 z -> vrep s sp i b (VInt z)
| vrep_clo b tn cls a t1 t2 :
    bchi b = Cns -> bty b = Decl tn ->
    atpos Fst i = Ok t1 -> atpos Snd i = Ok t2 -> lget s sp t1 = Some 0 -> lget s sp t2 = Some a ->
    CL a tn cls -> vrep s sp i b (VClo tn cls []).

Record rel (c : ctx) (e : env) (s : astate) (sp : Z) : Prop := mk_rel {
  rel_frame : frame_ok s sp;                 (* SP = sp, 0 mod 16, the spill area inside the stack region *)
  rel_room : STACK_LIMIT + 144 <= sp;        (* room for the pushes around a print call *)
  rel_free : exists f, rget s FREE = Some f; (* the deferred-free list register is defined *)
  rel_ids : env_ids e = ids c;
  rel_nodup : NoDup (ids c);
  rel_vals : forall i x v, nth_error e i = Some (x, v) -> exists b, nth_error c i = Some b /\ vrep s sp i b v
}.

Lemma rel_length c e s sp : rel c e s sp -> List.length e = List.length c.
Proof.
  intros R. pose proof (rel_ids _ _ _ _ R) as H. apply (f_equal (@List.length N)) in H.
  unfold env_ids, ids in H. now rewrite !map_length in H.
Qed.

Lemma vrep_keep s s' sp i b v :
  (forall n t, allowed n b -> atpos n i = Ok t -> lget s' sp t = lget s sp t) -> vrep s sp i b v -> vrep s' sp i b v.
Proof.
  intros K V. destruct V as [b z t A B T L I|b tn cls a t1 t2 A B T1 T2 L1 L2 C].
  - eapply vrep_int; eauto. rewrite (K Snd _ (or_introl eq_refl) T). exact L.
  - assert (AL : forall n, allowed n b) by (intros n; right; congruence).
    eapply vrep_clo; eauto; [now rewrite (K _ _ (AL Fst) T1)|now rewrite (K _ _ (AL Snd) T2)].
Qed.

(* reading an operand: the machine's lookup and the generator's variable_temporary meet *)
Lemma rel_lookup c e s sp a x :
  rel c e s sp -> lookup_int e a = Some x ->
  exists i b t, nth_error c i = Some b /\ idn (bvar b) = idn a /\ atpos Snd i = Ok t /\ lget s sp t = Some x /\ in64 x.
Proof.
  intros R H. unfold lookup_int, lookup_id in H. destruct (AxSem.lookup e (idn a)) as [[z| |]|] eqn:L; try discriminate.
  inversion H; subst z. destruct (lookup_nth e (idn a) (VInt x) L) as (i & y & Hn & Hy).
  destruct (env_ctx_nth c e i y _ (rel_ids _ _ _ _ R) Hn) as (b & Hb & Eb).
  destruct (rel_vals _ _ _ _ R i y _ Hn) as (b' & Hb' & V). assert (b' = b) by congruence. subst b'.
  inversion V; subst. exists i, b, t. split; [auto|split; [congruence|split; [auto|split; auto]]].
Qed.

(* a state change that keeps every live variable location (and FREE) keeps the relation; the first
   temporary of an integer variable is not live *)
Lemma rel_keep c e s s' sp :
  rel c e s sp -> frame_ok s' sp -> rget s' FREE = rget s FREE ->
  (forall i b n t, nth_error c i = Some b -> allowed n b -> atpos n i = Ok t -> lget s' sp t = lget s sp t) ->
  rel c e s' sp.
Proof.
  intros R F FR K. destruct R as [F0 Ro Fr Ids ND Vals]. split; auto.
  - now rewrite FR.
  - intros i x v Hn. destruct (Vals i x v Hn) as (b & Hb & V). exists b. split; [exact Hb|].
    eapply vrep_keep; [|exact V]. intros n t AL T. apply (K i b n t); auto.
Qed.

Lemma free_operand : loc_ok (AR FREE) /\ AR FREE <> AR TEMP /\ AR FREE <> AR TEMP2 /\ AR FREE <> AS SPILL_TEMP.
Proof. change FREE with (X 1). change TEMP with (X 2). change TEMP2 with (X 3). repeat split; try exact I; congruence. Qed.

(* extending the environment by a new last integer variable whose temporary has been written *)
Lemma rel_push c e s s' sp v z t :
  rel c e s sp -> NoDup (ids (c ++ [mkb v Ext I64])) ->
  atpos Snd (List.length c) = Ok t -> lget s' sp t = Some z -> in64 z -> preserved_rem s s' sp t ->
  rel (c ++ [mkb v Ext I64]) (e ++ [(v, VInt z)]) s' sp.
Proof.
  intros R ND Ht Hv IZ (PR & _ & _ & _ & F').
  pose proof (rel_length _ _ _ _ R) as LEN. destruct R as [F0 Ro Fr Ids ND0 Vals]. split; auto.
  - destruct Fr as (f & Fr). exists f. rewrite <- Fr. destruct free_operand as (A & B & C & D).
    apply (PR (AR FREE)); auto.
    intros E; subst t. destruct (atpos_ok _ _ _ Ht) as (_ & N & _). congruence.
  - unfold env_ids, ids in *. rewrite !map_app, Ids. reflexivity.
  - intros i x w Hn. destruct (Nat.lt_ge_cases i (List.length e)) as [L|L].
    + rewrite nth_error_app1 in Hn by exact L. destruct (Vals i x w Hn) as (b & Hb & V).
      exists b. split; [rewrite nth_error_app1 by lia; exact Hb|].
      eapply vrep_keep; [|exact V]. intros n t0 _ T0.
      destruct (atpos_ok _ _ _ T0) as (((A & B & C) & D) & _). apply PR; auto.
      intros E; subst t0. destruct (tpos_inj a64_backend a64_backend_ok _ _ _ _ _ T0 Ht) as [_ E]. lia.
    + rewrite nth_error_app2 in Hn by exact L. destruct (i - List.length e)%nat as [|k] eqn:K; cbn in Hn; [|destruct k; discriminate].
      inversion Hn; subst. exists (mkb x Ext I64). split.
      * rewrite nth_error_app2 by lia. replace (i - List.length c)%nat with O by lia. reflexivity.
      * eapply vrep_int; eauto. replace i with (List.length c) by lia. exact Ht.
Qed.
End Rel.
Arguments rel_frame {CL c e s sp}.
Arguments rel_room {CL c e s sp}.
Arguments rel_free {CL c e s sp}.
Arguments rel_ids {CL c e s sp}.
Arguments rel_nodup {CL c e s sp}.
Arguments rel_vals {CL c e s sp}.
Arguments rel_length {CL c e s sp}.
