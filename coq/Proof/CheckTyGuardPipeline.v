(* C15 -> C12: the composition of all stages for a program whose only hypothesis is acceptance by the checker
   (plus identifier-like names, no type named `_Cont`, and the field-type closure guard). *)
From Coq Require Import List ZArith NArith String Bool.
From SCC Require Import Base.Sexp Lang.FunSyn Lang.CoreSyn Lang.AxSyn.
From SCC Require Import Sem.FunTyping Sem.FunNames Sem.FsCheck Sem.CoreCheck.
From SCC Require Sem.AxCheck.
From SCC Require Import Model.Check Model.Fun2Core Model.Backend Model.Focus Model.FocusCheck Model.Shrink
     Model.Linearize Model.LinCheck Model.Capacity Model.WtDefs Model.X86 Model.A64 Model.RV.
From SCC Require Import Model.Fun2CoreTyGuard Proof.WtPipeline Proof.CheckTyGuardProg.
Import ListNotations.

Theorem pipeline_wt_of_check_lemma : forall src p,
  prog_names_ok src = true -> no_cont_decl src = true -> Check.check src = COk p -> xtor_tys_guard p = true ->
  exists c f a,
    compile_prog p = Fun2Core.Ok c /\ wt_core c = true /\
    focus_prog c = Backend.Ok f /\ wt_fs f = true /\
    shrink_prog f = SOk a /\ AxCheck.wt_ax a = true /\ prog_ok a = true /\
    let l := linearize a in
    lin_check_prog l = true /\
    (forall lc, within_capacity_x86 l = true -> exists code lc', x86_compile l lc = Backend.Ok (code, main_arity l, lc')) /\
    (forall lc, within_capacity_a64 l = true -> exists code lc', a64_compile l lc = Backend.Ok (code, main_arity l, lc')) /\
    (forall lc, within_capacity_rv l = true -> exists code lc', rv_compile l lc = Backend.Ok (code, main_arity l, lc')).
Proof.
  intros src p Hm Hnc H X. exact (pipeline_wt_source_lemma p (check_tyguard src p Hm Hnc H X) X).
Qed.
