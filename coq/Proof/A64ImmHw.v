(* AArch64 immediate synthesis, half-word level (DESIGN.md Appendix G): registers as four
   half-words; the MOVZ/MOVN/MOVK selection of axcut2aarch64::code::load_immediate leaves exactly
   the four half-words of the value, for every value. *)
From Coq Require Import List ZArith NArith Lia Bool.
Import ListNotations.
Open Scope Z_scope.

Definition B16 := 65536.            (* 2^16 *)
Definition M16 := 65535.            (* 0xFFFF *)

Definition hw4 := (Z * Z * Z * Z)%type.
Definition join (t : hw4) : Z := let '(a, b, c, d) := t in a + b * B16 + c * (B16 * B16) + d * (B16 * B16 * B16).
Definition inr16 (x : Z) := 0 <= x < B16.
Definition wf (t : hw4) := let '(a, b, c, d) := t in inr16 a /\ inr16 b /\ inr16 c /\ inr16 d.

Definition getn (t : hw4) (i : N) : Z :=
  let '(a, b, c, d) := t in match i with 0%N => a | 1%N => b | 2%N => c | _ => d end.
Definition setn (t : hw4) (i : N) (v : Z) : hw4 :=
  let '(a, b, c, d) := t in match i with 0%N => (v, b, c, d) | 1%N => (a, v, c, d) | 2%N => (a, b, v, d) | _ => (a, b, c, v) end.

Inductive ins := IMOVZ (imm : Z) (i : N) | IMOVN (imm : Z) (i : N) | IMOVK (imm : Z) (i : N).
Definition hstep (t : hw4) (x : ins) : hw4 :=
  match x with
  | IMOVZ imm i => setn (0, 0, 0, 0) i imm
  | IMOVN imm i => setn (M16, M16, M16, M16) i (M16 - imm)
  | IMOVK imm i => setn t i imm
  end.
Definition hexec (l : list ins) (t : hw4) : hw4 := fold_left hstep l t.

Definition bn (b : bool) : nat := if b then 1%nat else 0%nat.
Definition zeros (t : hw4) : nat :=
  let '(a, b, c, d) := t in
  (bn (Z.eqb a 0) + bn (Z.eqb b 0) + bn (Z.eqb c 0) + bn (Z.eqb d 0))%nat.
Definition ones (t : hw4) : nat :=
  let '(a, b, c, d) := t in
  (bn (Z.eqb a M16) + bn (Z.eqb b M16) + bn (Z.eqb c M16) + bn (Z.eqb d M16))%nat.

Fixpoint pieces (t : hw4) (invert : bool) (ignored : Z) (first_done : bool) (is : list N) : list ins :=
  match is with
  | [] => []
  | i :: r =>
      let h := getn t i in
      if h =? ignored then pieces t invert ignored first_done r
      else if first_done then IMOVK h i :: pieces t invert ignored true r
           else (if invert then IMOVN (M16 - h) i else IMOVZ h i) :: pieces t invert ignored true r
  end.

Definition hw_load_immediate (t : hw4) : list ins :=
  if (zeros t =? 4)%nat then [IMOVZ 0 0]
  else if (ones t =? 4)%nat then [IMOVN 0 0]
  else let invert := (zeros t <? ones t)%nat in
       pieces t invert (if invert then M16 else 0) false [0; 1; 2; 3]%N.

Theorem hw_load_immediate_ok (t t0 : hw4) : wf t -> hexec (hw_load_immediate t) t0 = t.
Proof.
  destruct t as [[[a b] c] d]. intros (Ha & Hb & Hc & Hd). unfold inr16, B16 in *.
  unfold hw_load_immediate, zeros, ones, bn, M16.
  destruct (Z.eqb_spec a 0), (Z.eqb_spec b 0), (Z.eqb_spec c 0), (Z.eqb_spec d 0);
  destruct (Z.eqb_spec a 65535), (Z.eqb_spec b 65535), (Z.eqb_spec c 65535), (Z.eqb_spec d 65535);
    subst; try lia; cbn -[Z.sub];
    repeat match goal with
           | |- context [?x =? ?y] => destruct (Z.eqb_spec x y); try lia; cbn -[Z.sub]
           end;
    unfold M16; repeat f_equal; lia.
Qed.

