(* C07, forward simulation, part 5: byte addresses in the code image.  `mk_image` gives every
   instruction an address (4 bytes per instruction, 0 for labels and directives), and `index_at` maps the
   address of an instruction of non-zero size back to it (labels in front of it share its address and are
   skipped by an indirect branch).  What the closure and jump-table code needs: consecutive instructions have
   consecutive addresses, the address of a label is the address of the instruction index it names, and `BR`
   to the address of an index lands on the first real instruction at or after it.
   Port of Proof/X86SimAddr.v (there `index_at` keeps the FIRST index placed at an address). *)
From Coq Require Import List ZArith NArith String Bool Lia FMapPositive.
From SCC Require Import Base.Sexp Lang.AxSyn Sem.AxSem Model.Backend Model.A64 Sem.A64Sem
     Proof.A64State Proof.A64Exec Proof.A64SimRel.
Import ListNotations.
Open Scope Z_scope.
Open Scope list_scope.

Lemma isize_nonneg c : 0 <= isize c.
Proof. destruct c; cbn; lia. Qed.
Lemma padd_inj pc a b : padd pc a = padd pc b -> a = b.
Proof.
  assert (E : forall j p, Zpos (padd p j) = Zpos p + Z.of_nat j).
  { induction j as [|j IH]; intros p; cbn [padd]; [lia|]. rewrite IH. lia. }
  intros H. apply (f_equal Zpos) in H. rewrite !E in H. lia.
Qed.

Record img_ok (im : image) : Prop := {
  io_addr : forall pc c, PM.find pc (code im) = Some c -> exists a, PM.find pc (addr_of im) = Some a /\ CODE_BASE <= a;
  io_next : forall pc c c' a, PM.find pc (code im) = Some c -> PM.find (Pos.succ pc) (code im) = Some c' ->
            PM.find pc (addr_of im) = Some a -> PM.find (Pos.succ pc) (addr_of im) = Some (a + isize c);
  io_index : forall pc c a, PM.find pc (code im) = Some c -> 0 < isize c -> PM.find pc (addr_of im) = Some a ->
             PM.find (key a) (index_at im) = Some pc
}.

Fixpoint size_of (cs : list acode) : Z := match cs with [] => 0 | c :: r => isize c + size_of r end.
Lemma size_of_nonneg cs : 0 <= size_of cs.
Proof. induction cs as [|c r IH]; cbn; [lia|]. pose proof (isize_nonneg c). lia. Qed.

Lemma build_code_lt : forall cs i a im j, (j < i)%positive -> PM.find j (code (build cs i a im)) = PM.find j (code im).
Proof.
  induction cs as [|c r IH]; cbn [build]; intros i a im j Hj; [reflexivity|].
  rewrite IH by lia. cbn. apply PM.gso. lia.
Qed.
Lemma build_addr_lt : forall cs i a im j, (j < i)%positive -> PM.find j (addr_of (build cs i a im)) = PM.find j (addr_of im).
Proof.
  induction cs as [|c r IH]; cbn [build]; intros i a im j Hj; [reflexivity|].
  rewrite IH by lia. cbn. apply PM.gso. lia.
Qed.
Lemma build_code_nth : forall cs i a im n c,
  nth_error cs n = Some c -> PM.find (padd i n) (code (build cs i a im)) = Some c.
Proof.
  induction cs as [|c0 r IH]; intros i a im n c Hn; [destruct n; discriminate|].
  destruct n; cbn [nth_error padd build] in *.
  - injection Hn as ->. rewrite build_code_lt by lia. cbn. apply PM.gss.
  - now apply IH.
Qed.
Lemma build_code_inv : forall cs i a im j c,
  PM.find j (code (build cs i a im)) = Some c ->
  PM.find j (code im) = Some c \/ exists n, j = padd i n /\ nth_error cs n = Some c.
Proof.
  induction cs as [|c0 r IH]; intros i a im j c H; cbn [build] in H; [now left|].
  apply IH in H as [H|(n & -> & Hn)].
  - cbn [code] in H. destruct (Pos.eq_dec j i) as [->|NE].
    + rewrite PM.gss in H. inversion H; subst. right. exists O. auto.
    + rewrite PM.gso in H by exact NE. now left.
  - right. exists (S n). auto.
Qed.
Lemma build_addr_nth : forall cs i a im n c,
  nth_error cs n = Some c -> PM.find (padd i n) (addr_of (build cs i a im)) = Some (a + size_of (firstn n cs)).
Proof.
  induction cs as [|c0 r IH]; intros i a im n c Hn; [destruct n; discriminate|].
  destruct n; cbn [nth_error padd build firstn size_of] in *.
  - rewrite build_addr_lt by lia. cbn. rewrite PM.gss. f_equal. lia.
  - erewrite IH by eassumption. f_equal. lia.
Qed.
(* an entry of index_at survives the placement of instructions at greater addresses *)
Lemma build_index_keep : forall cs i a im a0 v,
  0 <= a0 < a -> PM.find (key a0) (index_at im) = Some v -> PM.find (key a0) (index_at (build cs i a im)) = Some v.
Proof.
  induction cs as [|c0 r IH]; intros i a im a0 v H0 H; cbn [build]; [exact H|].
  pose proof (isize_nonneg c0). apply IH; [lia|]. cbn [index_at]. destruct (isize c0 =? 0); [exact H|].
  rewrite PM.gso; [exact H|]. intros K. apply key_inj in K; lia.
Qed.
Lemma build_index_nth : forall cs i a im n c,
  0 <= a -> nth_error cs n = Some c -> 0 < isize c ->
  PM.find (key (a + size_of (firstn n cs))) (index_at (build cs i a im)) = Some (padd i n).
Proof.
  induction cs as [|c0 r IH]; intros i a im n c Ha Hn Hc; [destruct n; discriminate|].
  destruct n as [|n]; cbn [nth_error padd build firstn size_of] in *.
  - inversion Hn; subst c0. rewrite Z.add_0_r. apply build_index_keep; [lia|]. cbn [index_at].
    destruct (Z.eqb_spec (isize c) 0); [lia|]. apply PM.gss.
  - pose proof (isize_nonneg c0). rewrite Z.add_assoc. apply (IH (Pos.succ i) (a + isize c0) _ n c); auto. lia.
Qed.

Lemma firstn_S_size cs : forall n c, nth_error cs n = Some c -> size_of (firstn (S n) cs) = size_of (firstn n cs) + isize c.
Proof.
  induction cs as [|c0 r IH]; intros n c H; [destruct n; discriminate|].
  destruct n as [|n]; cbn [nth_error] in H.
  - inversion H; subst. cbn. lia.
  - change (firstn (S (S n)) (c0 :: r)) with (c0 :: firstn (S n) r). change (firstn (S n) (c0 :: r)) with (c0 :: firstn n r).
    cbn [size_of]. rewrite (IH n c H). lia.
Qed.

Theorem mk_image_ok cs : img_ok (mk_image cs).
Proof.
  assert (INV : forall j c, PM.find j (code (mk_image cs)) = Some c -> exists n, j = padd 1%positive n /\ nth_error cs n = Some c).
  { intros j c H. apply build_code_inv in H as [H|H]; [|exact H]. cbn in H. rewrite PM.gempty in H. discriminate. }
  split.
  - intros pc c H. destruct (INV pc c H) as (n & -> & Hn). eexists. split; [apply (build_addr_nth cs _ _ _ n c Hn)|].
    pose proof (size_of_nonneg (firstn n cs)). lia.
  - intros pc c c' a H H' A. destruct (INV pc c H) as (n & -> & Hn). destruct (INV _ c' H') as (n' & E & Hn').
    rewrite <- padd_succ in E. apply padd_inj in E. subst n'.
    unfold mk_image in *. rewrite (build_addr_nth cs _ _ _ n c Hn) in A. assert (EA : a = CODE_BASE + size_of (firstn n cs)) by congruence. subst a. clear A.
    rewrite <- padd_succ. rewrite (build_addr_nth cs _ _ _ (S n) c' Hn'). f_equal. rewrite (firstn_S_size cs n c Hn). lia.
  - intros pc c a H SZ A. destruct (INV pc c H) as (n & -> & Hn).
    unfold mk_image in *. rewrite (build_addr_nth cs _ _ _ n c Hn) in A. assert (EA : a = CODE_BASE + size_of (firstn n cs)) by congruence. subst a. clear A.
    apply (build_index_nth cs _ CODE_BASE _ n c); [unfold CODE_BASE; lia|exact Hn|exact SZ].
Qed.

(* the address of a label is the address of the instruction index it resolves to *)
Lemma label_addr_at im l i a :
  find_label (labels im) l = Some i -> PM.find i (addr_of im) = Some a -> label_addr im l = Some a.
Proof. intros H A. unfold label_addr. now rewrite H. Qed.

(* addresses along placed code *)
Lemma addr_along im (IO : img_ok im) : forall cs pc a,
  code_at im pc cs -> PM.find pc (addr_of im) = Some a ->
  forall n c, nth_error cs n = Some c -> PM.find (padd pc n) (addr_of im) = Some (a + size_of (firstn n cs)).
Proof.
  induction cs as [|c0 r IH]; intros pc a CA A n c Hn; [destruct n; discriminate|].
  apply code_at_cons in CA as [C0 CA].
  destruct n as [|n]; cbn [nth_error padd firstn size_of] in *; [rewrite A; f_equal; lia|].
  destruct r as [|c1 r']; [destruct n; discriminate|].
  pose proof CA as CA'. apply code_at_cons in CA' as [C1 _].
  pose proof (io_next im IO pc c0 c1 a C0 C1 A) as A1.
  rewrite (IH (Pos.succ pc) (a + isize c0) CA A1 n c Hn). f_equal. lia.
Qed.

(* BR to the address of index pc lands on the first instruction of non-zero size at or after pc: the j
   labels / directives in front of it are skipped *)
Lemma land im (IO : img_ok im) cs pc a j c :
  code_at im pc cs -> PM.find pc (addr_of im) = Some a ->
  size_of (firstn j cs) = 0 -> nth_error cs j = Some c -> 0 < isize c ->
  PM.find (key a) (index_at im) = Some (padd pc j).
Proof.
  intros CA A Z0 Hj SZ.
  pose proof (addr_along im IO cs pc a CA A j c Hj) as AJ. rewrite Z0, Z.add_0_r in AJ.
  exact (io_index im IO _ c a (CA j c Hj) SZ AJ).
Qed.
(* running over labels and directives changes nothing: a run that ends from their start ends from their end *)
Lemma finishes_skip im : forall cs pc s o,
  code_at im pc cs -> size_of cs = 0 -> finishes im pc s o -> finishes im (padd pc (List.length cs)) s o.
Proof.
  induction cs as [|c r IH]; intros pc s o CA Z0 FIN; [exact FIN|].
  apply code_at_cons in CA as [C0 CA]. cbn [size_of] in Z0. pose proof (isize_nonneg c). pose proof (size_of_nonneg r).
  cbn [List.length padd]. apply IH; [exact CA|lia|].
  destruct FIN as (n & sf & Hn). destruct n as [|n]; [discriminate|]. cbn [run_chunk] in Hn. rewrite C0 in Hn.
  assert (ST : step im c s = Next s) by (destruct c; cbn [isize] in Z0; try lia; reflexivity).
  rewrite ST in Hn. exists n, sf. exact Hn.
Qed.

(* every address in the image is the base plus the size of a prefix of the code *)
Lemma build_addr_inv : forall cs i a im j x,
  PM.find j (addr_of (build cs i a im)) = Some x ->
  PM.find j (addr_of im) = Some x \/ exists n c, j = padd i n /\ nth_error cs n = Some c /\ x = a + size_of (firstn n cs).
Proof.
  induction cs as [|c0 r IH]; intros i a im j x H; cbn [build] in H; [now left|].
  apply IH in H as [H|(n & c & -> & Hn & ->)].
  - cbn [addr_of] in H. destruct (Pos.eq_dec j i) as [->|NE].
    + rewrite PM.gss in H. inversion H; subst. right. exists O, c0. cbn. repeat split; auto. lia.
    + rewrite PM.gso in H by exact NE. now left.
  - right. exists (S n), c. cbn [padd nth_error firstn size_of]. repeat split; auto. lia.
Qed.
Lemma size_firstn_le : forall cs n, size_of (firstn n cs) <= size_of cs.
Proof.
  induction cs as [|c r IH]; intros n; destruct n; cbn [firstn size_of]; try lia.
  - pose proof (isize_nonneg c). pose proof (size_of_nonneg r). lia.
  - specialize (IH n). lia.
Qed.
Definition code_small (cs : list acode) : bool := size_of cs <? 4611686018427387904 - CODE_BASE.
Lemma mk_image_small cs : code_small cs = true ->
  forall pc a, PM.find pc (addr_of (mk_image cs)) = Some a -> a < 4611686018427387904.
Proof.
  unfold code_small. rewrite Z.ltb_lt. intros H pc a A. unfold mk_image in A.
  apply build_addr_inv in A as [A|(n & c & _ & _ & ->)]; [cbn in A; rewrite PM.gempty in A; discriminate|].
  pose proof (size_firstn_le cs n). lia.
Qed.
