(* Proof/ShrinkProof.v - lemmas about the model of shrinking (Model/Shrink.v) for property C04.
   The theorems are re-stated in Props/C04.v. *)
From Coq Require Import List ZArith NArith String Bool Lia.
From SCC Require Import Base.Sexp Lang.SynUtil Lang.CoreSyn Lang.AxSyn Sem.FsCheck Model.Shrink.
Import ListNotations.
Open Scope list_scope.

(* ====================================================================================== *)
(* induction principle for the nested mutual syntax                                         *)
(* ====================================================================================== *)
Section FsInd.
Variables (P : fsterm -> Prop) (Q : fsclause -> Prop) (R : fsstmt -> Prop).
Hypothesis HXVar : forall c v t, P (FsXVar c v t).
Hypothesis HLit : forall n, P (FsLit n).
Hypothesis HOp : forall a o b, P (FsOp a o b).
Hypothesis HMu : forall c v s t, R s -> P (FsMu c v s t).
Hypothesis HXtor : forall c x args t, P (FsXtor c x args t).
Hypothesis HXCase : forall c cls t, Forall Q cls -> P (FsXCase c cls t).
Hypothesis HClause : forall c x ctx b, R b -> Q (FsClause c x ctx b).
Hypothesis HCut : forall p t k, P p -> P k -> R (FsCut p t k).
Hypothesis HIfC : forall so a b t e, R t -> R e -> R (FsIfC so a b t e).
Hypothesis HPrint : forall nl a n, R n -> R (FsPrint nl a n).
Hypothesis HCall : forall f args, R (FsCall f args).
Hypothesis HExit : forall v, R (FsExit v).

Fixpoint fsterm_ind' (t : fsterm) : P t :=
  match t with
  | FsXVar c v ty => HXVar c v ty
  | FsLit n => HLit n
  | FsOp a o b => HOp a o b
  | FsMu c v s ty => HMu c v s ty (fsstmt_ind' s)
  | FsXtor c x args ty => HXtor c x args ty
  | FsXCase c cls ty =>
      HXCase c cls ty
        ((fix go (l : list fsclause) : Forall Q l :=
            match l with
            | [] => Forall_nil Q
            | y :: r => Forall_cons y (fsclause_ind' y) (go r)
            end) cls)
  end
with fsclause_ind' (c : fsclause) : Q c :=
  match c with FsClause ch x ctx b => HClause ch x ctx b (fsstmt_ind' b) end
with fsstmt_ind' (s : fsstmt) : R s :=
  match s with
  | FsCut p ty k => HCut p ty k (fsterm_ind' p) (fsterm_ind' k)
  | FsIfC so a b t e => HIfC so a b t e (fsstmt_ind' t) (fsstmt_ind' e)
  | FsPrint nl a n => HPrint nl a n (fsstmt_ind' n)
  | FsCall f args => HCall f args
  | FsExit v => HExit v
  end.
Lemma fs_mutind : (forall t, P t) /\ (forall c, Q c) /\ (forall s, R s).
Proof. repeat split; [apply fsterm_ind' | apply fsclause_ind' | apply fsstmt_ind']. Qed.
End FsInd.

(* ====================================================================================== *)
(* the measure: substitution preserves it, sub-statements are smaller                       *)
(* ====================================================================================== *)
Definition fsz_clauses (cls : list fsclause) : nat :=
  (fix go (l : list fsclause) : nat := match l with [] => 0 | y :: r => fsz_clause y + go r end) cls.
Lemma fsz_term_xcase : forall c cls t, fsz_term (FsXCase c cls t) = S (fsz_clauses cls).
Proof. reflexivity. Qed.
Lemma fsz_clauses_cons : forall y r, fsz_clauses (y :: r) = fsz_clause y + fsz_clauses r.
Proof. reflexivity. Qed.

Lemma fsz_subst_all : forall sub,
  (forall t, fsz_term (subst_term sub t) = fsz_term t) /\
  (forall c, fsz_clause (subst_clause sub c) = fsz_clause c) /\
  (forall s, fsz (subst_stmt sub s) = fsz s).
Proof.
  intro sub. apply fs_mutind; intros; simpl; try reflexivity; try congruence.
  - (* XCase *) f_equal. induction H as [|y r Hy Hr IH]; simpl; [reflexivity|]. rewrite Hy. f_equal. exact IH.
Qed.
Lemma fsz_subst : forall sub s, fsz (subst_stmt sub s) = fsz s.
Proof. intros. apply (fsz_subst_all sub). Qed.

Lemma fsz_pos : forall s, 1 <= fsz s.
Proof. destruct s; simpl; lia. Qed.
Lemma fsz_clause_in : forall cl cls, In cl cls -> fsz_clause cl <= fsz_clauses cls.
Proof.
  induction cls as [|y r IH]; intros Hin; [contradiction|].
  rewrite fsz_clauses_cons. destruct Hin as [->|Hin]; [lia|]. specialize (IH Hin). lia.
Qed.

(* ====================================================================================== *)
(* shrink_total: the panics are unreachable on well-typed input                            *)
(* ====================================================================================== *)
(* [shape_*]: the context-free part of typing that decides which arm of FsCut::shrink is taken;
   invariant under variable-for-variable substitution *)
Definition is_some {X} (o : option X) : bool := match o with Some _ => true | None => false end.
Definition decl_found (D C : list ctydecl) (ty : cty) : bool :=
  match ty with
  | CI64 => true
  | CDecl n => is_some (lookup_type_declaration n (if is_codata C ty then C else D))
  end.
Definition cut_shape (D C : list ctydecl) (p : fsterm) (ty : cty) (k : fsterm) : bool :=
  match p, k with
  | FsMu _ _ _ _, FsXVar _ _ _ | FsXVar _ _ _, FsMu _ _ _ _ => true
  | FsXtor _ x _ _, FsXCase _ cls _ | FsXCase _ cls _, FsXtor _ x _ _ =>
      existsb (fun c => cident_eqb (clause_xtor c) x) cls
  | FsXVar _ _ _, FsXVar _ _ _ | FsMu _ _ _ _, FsMu _ _ _ _ => decl_found D C ty
  | FsLit _, FsMu _ _ _ _ | FsLit _, FsXVar _ _ _ | FsOp _ _ _, FsMu _ _ _ _ | FsOp _ _ _, FsXVar _ _ _ => true
  | FsXtor _ _ _ _, FsMu _ _ _ _ | FsMu _ _ _ _, FsXtor _ _ _ _ => true
  | FsXtor _ _ _ _, FsXVar _ _ _ | FsXVar _ _ _, FsXtor _ _ _ _ => true
  | FsXVar _ _ _, FsXCase _ _ _ | FsXCase _ _ _, FsXVar _ _ _ => true
  | FsMu _ _ _ _, FsXCase _ _ _ | FsXCase _ _ _, FsMu _ _ _ _ => true
  | _, _ => false
  end.
Section Shape.
Variables D C : list ctydecl.
Fixpoint shape_term (t : fsterm) : bool :=
  match t with
  | FsMu _ _ s _ => shape_stmt s
  | FsXCase _ cls _ =>
      (fix go (l : list fsclause) : bool := match l with [] => true | y :: r => shape_clause y && go r end) cls
  | _ => true
  end
with shape_clause (c : fsclause) : bool :=
  match c with FsClause _ _ _ b => shape_stmt b end
with shape_stmt (s : fsstmt) : bool :=
  match s with
  | FsCut p ty k => cut_shape D C p ty k && shape_term p && shape_term k
  | FsIfC _ _ _ t e => shape_stmt t && shape_stmt e
  | FsPrint _ _ n => shape_stmt n
  | FsCall _ _ | FsExit _ => true
  end.
Definition shape_clauses (cls : list fsclause) : bool := forallb shape_clause cls.
Lemma shape_term_xcase : forall c cls t, shape_term (FsXCase c cls t) = shape_clauses cls.
Proof. intros. simpl. induction cls; simpl; [reflexivity|]. now rewrite IHcls. Qed.

Lemma subst_clauses_names : forall sub cls x,
  existsb (fun c => cident_eqb (clause_xtor c) x) (subst_clauses sub cls)
  = existsb (fun c => cident_eqb (clause_xtor c) x) cls.
Proof. induction cls as [|[c y ctx b] r IH]; intros; simpl; [reflexivity|]. now rewrite IH. Qed.
Lemma subst_term_xcase : forall sub c cls t,
  subst_term sub (FsXCase c cls t) = FsXCase c (subst_clauses sub cls) t.
Proof. intros. reflexivity. Qed.

Lemma cut_shape_subst : forall sub p ty k,
  cut_shape D C (subst_term sub p) ty (subst_term sub k) = cut_shape D C p ty k.
Proof.
  intros sub p ty k.
  destruct p, k; try reflexivity;
    rewrite ?subst_term_xcase; simpl; try reflexivity; try apply subst_clauses_names.
Qed.

Lemma shape_subst_all : forall sub,
  (forall t, shape_term (subst_term sub t) = shape_term t) /\
  (forall c, shape_clause (subst_clause sub c) = shape_clause c) /\
  (forall s, shape_stmt (subst_stmt sub s) = shape_stmt s).
Proof.
  intro sub. apply fs_mutind; intros; try reflexivity.
  - simpl. exact H.
  - rewrite subst_term_xcase, !shape_term_xcase. unfold shape_clauses, subst_clauses.
    induction H as [|y r Hy Hr IH]; simpl; [reflexivity|]. now rewrite Hy, IH.
  - simpl. exact H.
  - change (shape_stmt (subst_stmt sub (FsCut p t k)))
      with (cut_shape D C (subst_term sub p) t (subst_term sub k) && shape_term (subst_term sub p) && shape_term (subst_term sub k)).
    now rewrite cut_shape_subst, H, H0.
  - simpl. now rewrite H, H0.
  - simpl. exact H.
Qed.
Lemma shape_subst : forall sub s, shape_stmt (subst_stmt sub s) = shape_stmt s.
Proof. intros. apply (shape_subst_all sub). Qed.
End Shape.

Ltac inv H := inversion H; subst; clear H.

Section TotalStep.
Variable rec : fsstmt -> sst -> shres (stmt * sst).
Variable E : senv.
Variable n : nat.
Notation shapeS := (shape_stmt (e_data E) (e_codata E)).
Hypothesis Hrec : forall s st, fsz s <= n -> shapeS s = true -> exists r, rec s st = SOk r.

Lemma shrink_clauses_total : forall cls st,
  fsz_clauses cls <= n -> shape_clauses (e_data E) (e_codata E) cls = true ->
  exists r, shrink_clauses rec E cls st = SOk r.
Proof.
  induction cls as [|[c x ctx b] r IH]; intros st Hsz Hsh; simpl.
  - eexists; reflexivity.
  - rewrite fsz_clauses_cons in Hsz. simpl in Hsz, Hsh. apply andb_prop in Hsh as [Hb Hr].
    destruct (Hrec b st) as [[b' st1] Hb']; [lia | exact Hb |]. rewrite Hb'. simpl.
    destruct (IH st1) as [[r' st2] Hr']; [lia | exact Hr |]. rewrite Hr'. simpl. eexists; reflexivity.
Qed.

Lemma lift_total : forall s st, fsz s <= n -> shapeS s = true -> exists r, lift rec E s st = SOk r.
Proof.
  intros s st Hsz Hsh. unfold lift.
  destruct (lift_params (typed_free_vars s) st) as [[cx sub] st1].
  destruct (fresh_identifier st1 _) as [label st2].
  destruct (Hrec (subst_stmt sub s) st2) as [[b st3] Hb].
  - now rewrite fsz_subst.
  - now rewrite shape_subst.
  - rewrite Hb. simpl. eexists; reflexivity.
Qed.

Lemma xtors_of_found : forall ty name, ty = CDecl name ->
  decl_found (e_data E) (e_codata E) ty = true -> exists xs, xtors_of E ty name = SOk xs.
Proof.
  intros ty name -> H. unfold decl_found in H. unfold xtors_of.
  destruct (lookup_type_declaration name _); [eexists; reflexivity | discriminate].
Qed.

Lemma critical_total : forall vp sp vc sc ty st,
  fsz sp <= n -> fsz sc <= n -> shapeS sp = true -> shapeS sc = true ->
  decl_found (e_data E) (e_codata E) ty = true ->
  exists r, shrink_critical_pairs rec E vp sp vc sc ty st = SOk r.
Proof.
  intros vp sp vc sc ty st Hp Hc Sp Sc Hd. unfold shrink_critical_pairs. destruct ty as [|name].
  - destruct (Hrec sc st) as [[b st1] Hb]; auto. rewrite Hb. simpl.
    destruct (Hrec sp st1) as [[b2 st2] Hb2]; auto. rewrite Hb2. simpl. eexists; reflexivity.
  - destruct (xtors_of_found (CDecl name) name eq_refl Hd) as [xs Hxs].
    remember (is_codata (e_codata E) (CDecl name)) as cd. rewrite Hxs. cbn [sbind].
    destruct cd; cbv beta iota.
    + assert (Hexp : exists r, (if Nat.leb (List.length xs) 1 || is_leaf_statement sp then rec sp st else lift rec E sp st) = SOk r).
      { destruct (Nat.leb (List.length xs) 1 || is_leaf_statement sp); [apply Hrec | apply lift_total]; auto. }
      destruct Hexp as [[se st1] He]. rewrite He. simpl.
      destruct (critical_clauses _ _ _ _ _ _) as [cls st2].
      destruct (Hrec sc st2) as [[b st3] Hb]; auto. rewrite Hb. simpl. eexists; reflexivity.
    + assert (Hexp : exists r, (if Nat.leb (List.length xs) 1 || is_leaf_statement sc then rec sc st else lift rec E sc st) = SOk r).
      { destruct (Nat.leb (List.length xs) 1 || is_leaf_statement sc); [apply Hrec | apply lift_total]; auto. }
      destruct Hexp as [[se st1] He]. rewrite He. simpl.
      destruct (critical_clauses _ _ _ _ _ _) as [cls st2].
      destruct (Hrec sp st2) as [[b st3] Hb]; auto. rewrite Hb. simpl. eexists; reflexivity.
Qed.

Lemma unknown_total : forall vp vc ty st,
  decl_found (e_data E) (e_codata E) ty = true -> exists r, shrink_unknown_cuts E vp vc ty st = SOk r.
Proof.
  intros vp vc ty st Hd. unfold shrink_unknown_cuts. destruct ty as [|name]; [eexists; reflexivity|].
  destruct (xtors_of_found (CDecl name) name eq_refl Hd) as [xs Hxs].
  remember (is_codata (e_codata E) (CDecl name)) as cd. rewrite Hxs. cbn [sbind].
  destruct cd; cbv beta iota; destruct (unknown_clauses _ _ _ _ _); eexists; reflexivity.
Qed.

Lemma known_total : forall x args cls st,
  fsz_clauses cls <= n -> shape_clauses (e_data E) (e_codata E) cls = true ->
  existsb (fun c => cident_eqb (clause_xtor c) x) cls = true ->
  exists r, shrink_known_cuts rec x args cls st = SOk r.
Proof.
  intros x args cls st Hsz Hsh Hex. unfold shrink_known_cuts.
  destruct (find (fun c => cident_eqb (clause_xtor c) x) cls) as [cl|] eqn:Hf.
  - apply find_some in Hf as [Hin _].
    assert (Hcl : fsz_clause cl <= fsz_clauses cls) by now apply fsz_clause_in.
    unfold shape_clauses in Hsh. rewrite forallb_forall in Hsh. specialize (Hsh cl Hin).
    destruct cl as [c y ctx b]. simpl in *. apply Hrec; [rewrite fsz_subst; lia | now rewrite shape_subst].
  - exfalso. apply existsb_exists in Hex as [c [Hin Hc]].
    eapply find_none in Hf; [|exact Hin]. simpl in Hf. congruence.
Qed.

Lemma shrink_step_total : forall s st, fsz s <= S n -> shapeS s = true -> exists r, shrink_step rec E s st = SOk r.
Proof.
  intros s st Hsz Hsh. destruct s as [p ty k|so a b t e|nl a nx|f args|v]; simpl in Hsz.
  - (* cut *)
    change (shapeS (FsCut p ty k)) with (cut_shape (e_data E) (e_codata E) p ty k && shape_term (e_data E) (e_codata E) p && shape_term (e_data E) (e_codata E) k) in Hsh.
    apply andb_prop in Hsh as [Hsh Hk]. apply andb_prop in Hsh as [Hcut Hp].
    simpl. unfold shrink_cut.
    destruct p as [c1 v1 t1|l1|a1 o1 b1|c1 v1 s1 t1|c1 x1 args1 t1|c1 cls1 t1];
    destruct k as [c2 v2 t2|l2|a2 o2 b2|c2 v2 s2 t2|c2 x2 args2 t2|c2 cls2 t2];
      try discriminate Hcut;
      rewrite ?fsz_term_xcase in Hsz; rewrite ?shape_term_xcase in Hp, Hk; simpl in Hsz, Hp, Hk.
    + (* XVar, XVar *) now apply unknown_total.
    + (* XVar, Mu *) unfold shrink_renaming. apply Hrec; [rewrite fsz_subst; lia | now rewrite shape_subst].
    + (* XVar, Xtor *) eexists; reflexivity.
    + (* XVar, XCase *)
      destruct (shrink_clauses_total cls2 st) as [[cls' st1] Hc]; [lia | exact Hk |]. rewrite Hc. simpl. eexists; reflexivity.
    + (* Lit, XVar *) destruct (fresh_var st). eexists; reflexivity.
    + (* Lit, Mu *) destruct (Hrec s2 st) as [[b st1] Hb]; [lia | exact Hk |]. rewrite Hb. simpl. eexists; reflexivity.
    + (* Op, XVar *) destruct (fresh_var st). eexists; reflexivity.
    + (* Op, Mu *) destruct (Hrec s2 st) as [[b st1] Hb]; [lia | exact Hk |]. rewrite Hb. simpl. eexists; reflexivity.
    + (* Mu, XVar *) unfold shrink_renaming. apply Hrec; [rewrite fsz_subst; lia | now rewrite shape_subst].
    + (* Mu, Mu *) apply critical_total; auto; lia.
    + (* Mu, Xtor *) destruct (Hrec s1 st) as [[b st1] Hb]; [lia | exact Hp |]. rewrite Hb. simpl. eexists; reflexivity.
    + (* Mu, XCase *)
      destruct (shrink_clauses_total cls2 st) as [[cls' st1] Hc]; [lia | exact Hk |]. rewrite Hc. simpl.
      destruct (Hrec s1 st1) as [[b st2] Hb]; [lia | exact Hp |]. rewrite Hb. simpl. eexists; reflexivity.
    + (* Xtor, XVar *) eexists; reflexivity.
    + (* Xtor, Mu *) destruct (Hrec s2 st) as [[b st1] Hb]; [lia | exact Hk |]. rewrite Hb. simpl. eexists; reflexivity.
    + (* Xtor, XCase *) apply known_total; auto; lia.
    + (* XCase, XVar *)
      destruct (shrink_clauses_total cls1 st) as [[cls' st1] Hc]; [lia | exact Hp |]. rewrite Hc. simpl. eexists; reflexivity.
    + (* XCase, Mu *)
      destruct (shrink_clauses_total cls1 st) as [[cls' st1] Hc]; [lia | exact Hp |]. rewrite Hc. simpl.
      destruct (Hrec s2 st1) as [[b st2] Hb]; [lia | exact Hk |]. rewrite Hb. simpl. eexists; reflexivity.
    + (* XCase, Xtor *) apply known_total; auto; lia.
  - simpl in Hsh. apply andb_prop in Hsh as [Ht He]. simpl.
    destruct (Hrec t st) as [[t' st1] H1]; [lia | exact Ht |]. rewrite H1. simpl.
    destruct (Hrec e st1) as [[e' st2] H2]; [lia | exact He |]. rewrite H2. simpl. eexists; reflexivity.
  - simpl in Hsh. simpl. destruct (Hrec nx st) as [[t' st1] H1]; [lia | exact Hsh |]. rewrite H1. simpl. eexists; reflexivity.
  - eexists; reflexivity.
  - eexists; reflexivity.
Qed.
End TotalStep.

Lemma shrink_stmt_total : forall E fuel s st,
  fsz s <= fuel -> shape_stmt (e_data E) (e_codata E) s = true -> exists r, shrink_stmt fuel E s st = SOk r.
Proof.
  intros E fuel. induction fuel as [|fuel IH]; intros s st Hsz Hsh.
  - pose proof (fsz_pos s). lia.
  - simpl. apply shrink_step_total with (n := fuel); auto.
Qed.

(* ---------- typing implies the shape ---------- *)
Lemma cident_eqb_eq : forall a b, cident_eqb a b = true <-> a = b.
Proof.
  intros [a1 a2] [b1 b2]. unfold cident_eqb. simpl. rewrite andb_true_iff, String.eqb_eq, N.eqb_eq.
  split; [intros [-> ->]; reflexivity | intros H; inversion H; auto].
Qed.
Lemma cident_eqb_refl : forall a, cident_eqb a a = true.
Proof. intro. now apply cident_eqb_eq. Qed.

Lemma cty_eqb_eq_i64 : forall t, cty_eqb t CI64 = true -> t = CI64.
Proof. destruct t; simpl; [reflexivity | discriminate]. Qed.
Lemma seq_none : forall (a b : option string),
  (match a with None => b | Some e => Some e end) = None -> a = None /\ b = None.
Proof. intros [e|] b H; [discriminate | auto]. Qed.
Lemma fensure_none : forall b m, fensure b m = None -> b = true.
Proof. intros [|] m H; [reflexivity | discriminate]. Qed.
Ltac break_checks :=
  repeat match goal with
         | H : (match ?a with None => _ | Some _ => Some _ end) = None |- _ =>
             let H1 := fresh H in apply seq_none in H as [H1 H]
         | H : fensure _ _ = None |- _ => apply fensure_none in H
         end.

Ltac subst_i64 := match goal with H : cty_eqb ?t CI64 = true |- _ => apply cty_eqb_eq_i64 in H; subst t end.

Lemma is_codata_find : forall C n,
  is_codata C (CDecl n) = is_some (find_decl C n).
Proof.
  intros C n. unfold is_codata, find_decl. induction C as [|d r IH]; simpl; [reflexivity|].
  destruct (cident_eqb (ctname d) n); simpl; auto.
Qed.
Lemma find_app_l : forall {X} (f : X -> bool) l1 l2 x, find f l1 = Some x -> find f (l1 ++ l2) = Some x.
Proof. induction l1; simpl; intros; [discriminate|]. destruct (f a); auto. Qed.

Lemma clauses_match_exists : forall side n cls xs x sg,
  clauses_match side n cls xs = None -> find (fun s => cident_eqb (cxname s) x) xs = Some sg ->
  existsb (fun c => cident_eqb (clause_xtor c) x) cls = true.
Proof.
  induction cls as [|[c y ctx b] r IH]; intros xs x sg Hm Hf; destruct xs as [|s xr]; simpl in *; try discriminate.
  break_checks. apply cident_eqb_eq in Hm1. subst y.
  destruct (cident_eqb (cxname s) x) eqn:Hx; simpl; [reflexivity|]. eapply IH; eauto.
Qed.

Ltac refold_find n :=
  repeat match goal with
  | H : context [find (fun d : ctydecl => cident_eqb (ctname d) n) ?l] |- _ =>
      change (find (fun d : ctydecl => cident_eqb (ctname d) n) l) with (find_decl l n) in H
  end.

Section TypingShape.
Variables data codata : list ctydecl.
Variable defs : list fsdef.
Hypothesis Hdisj : forall n, find_decl data n <> None -> find_decl codata n = None.
Notation D := (data ++ [cont_int]).

Lemma ty_ok_found : forall ty, ty_ok data codata ty = true -> decl_found D codata ty = true.
Proof.
  intros [|n] H; [reflexivity|]. unfold decl_found. rewrite is_codata_find. unfold ty_ok in H.
  destruct (find_decl codata n) eqn:Hc; simpl.
  - unfold lookup_type_declaration. unfold find_decl in Hc. now rewrite Hc.
  - destruct (find_decl data n) eqn:Hd; [|discriminate].
    unfold lookup_type_declaration. unfold find_decl in Hd. now rewrite (find_app_l _ _ _ _ Hd).
Qed.

Lemma cut_shape_typed : forall G p ty k,
  ty_ok data codata ty = true ->
  check_term data codata defs G CPrd ty p = None -> check_term data codata defs G CCns ty k = None ->
  cut_shape D codata p ty k = true.
Proof.
  intros G p ty k Hty Hp Hk.
  destruct p as [c1 v1 t1|l1|a1 o1 b1|c1 v1 s1 t1|c1 x1 args1 t1|c1 cls1 t1];
  destruct k as [c2 v2 t2|l2|a2 o2 b2|c2 v2 s2 t2|c2 x2 args2 t2|c2 cls2 t2];
    cbn in Hp, Hk; break_checks; try discriminate; try reflexivity;
    try (now apply ty_ok_found).
  - (* Lit, Xtor *) subst_i64. discriminate.
  - (* Lit, XCase *) subst_i64. discriminate.
  - (* Op, Xtor *) subst_i64. discriminate.
  - (* Op, XCase *) subst_i64. discriminate.
  - (* Xtor, Xtor *) destruct ty as [|n]; [discriminate|]. refold_find n.
    destruct (find_decl data n) eqn:Hd; [|discriminate].
    rewrite Hdisj in Hk; [discriminate | congruence].
  - (* Xtor, XCase *) destruct ty as [|n]; [discriminate|]. refold_find n.
    destruct (find_decl data n) as [d|] eqn:Hd; [|discriminate].
    destruct (find_cxtor d x1) as [sg|] eqn:Hx; [|discriminate]. break_checks.
    simpl. eapply clauses_match_exists; eauto.
  - (* XCase, Xtor *) destruct ty as [|n]; [discriminate|]. refold_find n.
    destruct (find_decl codata n) as [d|] eqn:Hd; [|discriminate].
    destruct (find_cxtor d x2) as [sg|] eqn:Hx; [|discriminate]. break_checks.
    simpl. eapply clauses_match_exists; eauto.
  - (* XCase, XCase *) destruct ty as [|n]; [discriminate|]. refold_find n.
    destruct (find_decl data n) eqn:Hd; [|discriminate].
    rewrite Hdisj in Hp; [discriminate | congruence].
Qed.
End TypingShape.

Section TypingShape2.
Variables data codata : list ctydecl.
Variable defs : list fsdef.
Hypothesis Hdisj : forall n, find_decl data n <> None -> find_decl codata n = None.
Notation D := (data ++ [cont_int]).

Definition check_bodies (G : cctx) (cls : list fsclause) : option string :=
  (fix go (cls : list fsclause) {struct cls} : option string :=
     match cls with
     | [] => None
     | FsClause _ _ ctx body :: cr =>
         match check_stmt data codata defs (app ctx G) body with None => go cr | Some e => Some e end
     end) cls.
Lemma check_bodies_cons : forall G c x ctx body cr,
  check_bodies G (FsClause c x ctx body :: cr) =
  match check_stmt data codata defs (app ctx G) body with None => check_bodies G cr | Some e => Some e end.
Proof. reflexivity. Qed.
Lemma check_term_xcase_eq : forall G side ty c cls t',
  check_term data codata defs G side ty (FsXCase c cls t') =
  match fensure (cchi_eqb c side) "xcase with the wrong prdcns field" with
  | Some e => Some e
  | None =>
  match fensure (cty_eqb t' ty) ("xcase annotated " ++ show_cty t' ++ " in a cut at " ++ show_cty ty)%string with
  | Some e => Some e
  | None =>
      match ty with
      | CI64 => Some "xcase at type i64"%string
      | CDecl n =>
          match find_decl (match side with CPrd => codata | CCns => data end) n with
          | None => Some ("xcase: " ++ show_cident n ++ " is no " ++
                          (match side with CPrd => "codata" | CCns => "data" end) ++ " type")%string
          | Some d =>
              match clauses_match side n cls (ctxtors d) with
              | Some e => Some e
              | None => check_bodies G cls
              end
          end
      end
  end end.
Proof. reflexivity. Qed.
Lemma check_term_mu_eq : forall G side ty c v s t',
  check_term data codata defs G side ty (FsMu c v s t') =
  match fensure (cchi_eqb c side) "mu with the wrong prdcns field" with
  | Some e => Some e
  | None =>
  match fensure (cty_eqb t' ty) ("mu " ++ show_cident v ++ " annotated " ++ show_cty t' ++ " in a cut at " ++ show_cty ty)%string with
  | Some e => Some e
  | None => check_stmt data codata defs (mkcb v (opp side) ty :: G) s
  end end.
Proof. reflexivity. Qed.
Lemma check_stmt_cut_eq : forall G p ty k,
  check_stmt data codata defs G (FsCut p ty k) =
  match fensure (ty_ok data codata ty) ("cut at undeclared type " ++ show_cty ty)%string with
  | Some e => Some e
  | None =>
  match check_term data codata defs G CPrd ty p with
  | Some e => Some e
  | None => check_term data codata defs G CCns ty k
  end end.
Proof. reflexivity. Qed.
Lemma check_stmt_ifc_eq : forall G so a b t e,
  check_stmt data codata defs G (FsIfC so a b t e) =
  match fbound G a CPrd CI64 with
  | Some e => Some e
  | None =>
  match (match b with Some b' => fbound G b' CPrd CI64 | None => None end) with
  | Some e => Some e
  | None =>
  match check_stmt data codata defs G t with
  | Some e => Some e
  | None => check_stmt data codata defs G e
  end end end.
Proof. reflexivity. Qed.
Lemma check_stmt_print_eq : forall G nl a next,
  check_stmt data codata defs G (FsPrint nl a next) =
  match fbound G a CPrd CI64 with Some e => Some e | None => check_stmt data codata defs G next end.
Proof. reflexivity. Qed.

Lemma check_shape_all :
  (forall t G side ty, check_term data codata defs G side ty t = None -> shape_term D codata t = true) /\
  (forall cl G, check_stmt data codata defs G (clause_body cl) = None -> shape_clause D codata cl = true) /\
  (forall s G, check_stmt data codata defs G s = None -> shape_stmt D codata s = true).
Proof.
  apply fs_mutind; intros; try reflexivity.
  - (* Mu *) rewrite check_term_mu_eq in H0. break_checks. simpl. eapply H; eauto.
  - (* XCase *) rewrite shape_term_xcase. rewrite check_term_xcase_eq in H0. break_checks.
    destruct ty as [|n]; [discriminate|].
    destruct (find_decl _ _) as [d|]; [|discriminate]. break_checks. clear H3.
    unfold shape_clauses. induction H as [|cl r Hcl Hr IH]; simpl; [reflexivity|].
    destruct cl as [c' x ctx body]. rewrite check_bodies_cons in H0. break_checks.
    apply andb_true_intro; split; [eapply Hcl; eauto | apply IH; exact H0].
  - (* Clause *) simpl in *. eapply H; eauto.
  - (* Cut *) rewrite check_stmt_cut_eq in H1. break_checks.
    change (shape_stmt D codata (FsCut p t k)) with (cut_shape D codata p t k && shape_term D codata p && shape_term D codata k).
    repeat (apply andb_true_intro; split); [eapply cut_shape_typed | eapply H | eapply H0]; eauto.
  - (* IfC *) rewrite check_stmt_ifc_eq in H1. break_checks. simpl. apply andb_true_intro; split; [eapply H | eapply H0]; eauto.
  - (* Print *) rewrite check_stmt_print_eq in H0. break_checks. simpl. eapply H; eauto.
Qed.
Lemma check_stmt_shape : forall s G, check_stmt data codata defs G s = None -> shape_stmt D codata s = true.
Proof. apply check_shape_all. Qed.
End TypingShape2.

(* ---------- program level ---------- *)
Lemma nodup_by_app_disjoint : forall (l1 l2 : list cident) x,
  nodup_by cident_eqb (l1 ++ l2) = true -> In x l1 -> In x l2 -> False.
Proof.
  induction l1 as [|a r IH]; intros l2 x Hn H1 H2; [contradiction|].
  simpl in Hn. apply andb_prop in Hn as [Ha Hr]. destruct H1 as [->|H1].
  - apply negb_true_iff in Ha. assert (existsb (cident_eqb x) (r ++ l2) = true).
    { apply existsb_exists. exists x. split; [apply in_or_app; now right | apply cident_eqb_refl]. }
    congruence.
  - eapply IH; eauto.
Qed.
Lemma find_decl_some_in : forall ts n d, find_decl ts n = Some d -> In n (map ctname ts).
Proof.
  intros ts n d H. unfold find_decl in H. apply find_some in H as [Hin Heq].
  apply cident_eqb_eq in Heq. subst n. now apply in_map.
Qed.
Lemma nodup_types_disjoint : forall data codata,
  nodup_by cident_eqb (map ctname (data ++ codata)) = true ->
  forall n, find_decl data n <> None -> find_decl codata n = None.
Proof.
  intros data codata Hn n Hd. rewrite map_app in Hn.
  destruct (find_decl data n) as [d|] eqn:H1; [|congruence].
  destruct (find_decl codata n) as [d'|] eqn:H2; [|reflexivity].
  exfalso. eapply nodup_by_app_disjoint; eauto using find_decl_some_in.
Qed.

Lemma check_defs_in : forall p l d, check_defs p l = None -> In d l ->
  check_stmt (fspdata p) (fspcodata p) (fspdefs p) (fsdctx d) (fsdbody d) = None.
Proof.
  induction l as [|a r IH]; intros d Hc Hin; [contradiction|]. simpl in Hc. break_checks.
  destruct (check_stmt _ _ _ (fsdctx a) (fsdbody a)) eqn:Ha; [discriminate|].
  destruct Hin as [->|Hin]; [exact Ha | now apply IH].
Qed.

Lemma shrink_defs_total : forall data codata ds m acc,
  (forall d, In d ds -> shape_stmt data codata (fsdbody d) = true) ->
  exists r, shrink_defs ds data codata m acc = SOk r.
Proof.
  induction ds as [|d r IH]; intros m acc Hsh; simpl; [eexists; reflexivity|].
  unfold shrink_def.
  destruct (shrink_stmt_total (mksenv data codata (fst (fsdname d))) (fsz (fsdbody d)) (fsdbody d) (mksst m []))
    as [[b st] Hb]; [lia | apply Hsh; now left |].
  rewrite Hb. simpl. apply IH. intros d' Hin. apply Hsh. now right.
Qed.

Lemma existsb_app_false : forall {X} (f : X -> bool) l1 l2, existsb f (l1 ++ l2) = false -> existsb f l1 = false /\ existsb f l2 = false.
Proof. intros. rewrite existsb_app in H. now apply orb_false_iff in H. Qed.

Theorem shrink_total : forall p, wt_fs p = true -> exists q, shrink_prog p = SOk q.
Proof.
  intros p Hwt. unfold wt_fs in Hwt. destruct (check_fs p) eqn:Hc; [discriminate|]. clear Hwt.
  unfold check_fs in Hc. break_checks.
  apply negb_true_iff in Hc2. apply existsb_app_false in Hc2 as [Hd Hcd].
  unfold shrink_prog. unfold cont_name_fs in *. unfold cont_name. rewrite Hd, Hcd. simpl.
  destruct (shrink_defs_total (fspdata p ++ [cont_int]) (fspcodata p) (fspdefs p) (fspmax p) []) as [[defs m] Hs].
  - intros d Hin. eapply check_stmt_shape.
    + apply nodup_types_disjoint. exact Hc1.
    + eapply check_defs_in; eauto.
  - rewrite Hs. simpl. eexists; reflexivity.
Qed.

(* ====================================================================================== *)
(* shrink_binding_chirality: the collapse table                                            *)
(* ====================================================================================== *)
(* i64: producers stay integers (ext), consumers become continuations (cns _Cont);
   data: chirality kept; codata: chirality flipped (so data producers and codata consumers are
   prd, data consumers and codata producers are cns). *)
Theorem shrink_binding_chirality : forall codata v n,
  shrink_binding codata (mkcb v CPrd CI64) = mkb v Ext I64 /\
  shrink_binding codata (mkcb v CCns CI64) = mkb v Cns (Decl cont_name) /\
  (is_codata codata (CDecl n) = false ->
     shrink_binding codata (mkcb v CPrd (CDecl n)) = mkb v Prd (Decl n) /\
     shrink_binding codata (mkcb v CCns (CDecl n)) = mkb v Cns (Decl n)) /\
  (is_codata codata (CDecl n) = true ->
     shrink_binding codata (mkcb v CPrd (CDecl n)) = mkb v Cns (Decl n) /\
     shrink_binding codata (mkcb v CCns (CDecl n)) = mkb v Prd (Decl n)).
Proof.
  intros. unfold shrink_binding. simpl. split; [reflexivity|]. split; [reflexivity|]. split; intros Hc; rewrite Hc; split; reflexivity.
Qed.

(* ====================================================================================== *)
(* critical_pair_order                                                                      *)
(* ====================================================================================== *)
(* For <mu a.sp | ty | mu~ x.sc> the result is `create v = {clauses}; next`:
   - i64:    v = a (the producer's covariable, a continuation), the single clause Ret(x) holds the
             shrunk CONSUMER body, and `next` - what runs first - is the shrunk PRODUCER body;
   - data:   v = a, next = the shrunk PRODUCER body (the consumer is suspended in the clauses);
   - codata: v = x, next = the shrunk CONSUMER body (the producer is suspended in the clauses).
   In the two declared-type cases every clause re-binds the expanded variable with `let` and
   continues with the shrunk expanded side (in place, or a call to its lifted definition). *)
Definition all_let_clauses (cls : list clause) : Prop :=
  Forall (fun c => exists v t tag next, cl_body c = Let v t tag (cl_ctx c) next /\ tag = cl_xtor c) cls.
Lemma critical_clauses_lets : forall codata ve tty se xs st cls st',
  critical_clauses codata ve tty se xs st = (cls, st') -> all_let_clauses cls.
Proof.
  induction xs as [|[xt args] r IH]; intros st cls st' H; simpl in H.
  - inv H. constructor.
  - destruct (fresh_env _ _) as [env sta].
    destruct (critical_clauses _ _ _ _ r _) as [r' stc] eqn:Hr. inv H.
    constructor; [|eapply IH; eauto]. simpl. repeat eexists.
Qed.

Theorem critical_pair_order : forall rec E vp sp vc sc ty st s st',
  shrink_critical_pairs rec E vp sp vc sc ty st = SOk (s, st') ->
  match ty with
  | CI64 =>
      exists body next st1,
        rec sc st = SOk (body, st1) /\ rec sp st1 = SOk (next, st') /\
        s = Create vp (Decl cont_name) None [(ret_name, [mkb vc Ext I64], body)] next
  | CDecl n =>
      exists cls next st2,
        all_let_clauses cls /\
        if is_codata (e_codata E) ty
        then rec sc st2 = SOk (next, st') /\ s = Create vc (Decl n) None cls next     (* consumer first *)
        else rec sp st2 = SOk (next, st') /\ s = Create vp (Decl n) None cls next     (* producer first *)
  end.
Proof.
  intros rec E vp sp vc sc ty st s st' H. unfold shrink_critical_pairs in H. destruct ty as [|n].
  - destruct (rec sc st) as [[body st1]|] eqn:H1; [|discriminate]. cbn [sbind] in H.
    destruct (rec sp st1) as [[next st2]|] eqn:H2; [|discriminate]. cbn [sbind] in H. inv H.
    repeat eexists; eauto.
  - destruct (xtors_of E (CDecl n) n) as [xs|]; [|discriminate]. cbn [sbind] in H.
    destruct (is_codata (e_codata E) (CDecl n)); cbv beta iota in H.
    + destruct (if (_ || _)%bool then _ else _) as [[se st1]|]; [|discriminate]. cbn [sbind] in H.
      destruct (critical_clauses _ _ _ _ _ _) as [cls st2] eqn:Hc.
      destruct (rec sc st2) as [[next st3]|] eqn:H2; [|discriminate]. cbn [sbind] in H. inv H.
      exists cls, next, st2. split; [eapply critical_clauses_lets; eauto | split; auto].
    + destruct (if (_ || _)%bool then _ else _) as [[se st1]|]; [|discriminate]. cbn [sbind] in H.
      destruct (critical_clauses _ _ _ _ _ _) as [cls st2] eqn:Hc.
      destruct (rec sp st2) as [[next st3]|] eqn:H2; [|discriminate]. cbn [sbind] in H. inv H.
      exists cls, next, st2. split; [eapply critical_clauses_lets; eauto | split; auto].
Qed.

(* ====================================================================================== *)
(* known_cut_selects                                                                        *)
(* ====================================================================================== *)
Lemma clauses_match_find : forall side n cls xs x sg,
  clauses_match side n cls xs = None -> find (fun s => cident_eqb (cxname s) x) xs = Some sg ->
  exists cl, find (fun c => cident_eqb (clause_xtor c) x) cls = Some cl /\
             clause_xtor cl = x /\ fparams_ok (clause_ctx cl) (cxargs sg) = true.
Proof.
  induction cls as [|[c y ctx b] r IH]; intros xs x sg Hm Hf; destruct xs as [|s xr]; simpl in *; try discriminate.
  break_checks. apply cident_eqb_eq in Hm1. subst y.
  destruct (cident_eqb (cxname s) x) eqn:Hx.
  - inv Hf. eexists; repeat split; eauto. now apply cident_eqb_eq.
  - eapply IH; eauto.
Qed.
Lemma fparams_ok_length : forall ps sg, fparams_ok ps sg = true -> List.length ps = List.length sg.
Proof.
  induction ps as [|a r IH]; destruct sg as [|s sr]; simpl; intros H; try discriminate; [reflexivity|].
  apply andb_prop in H as [_ H]. f_equal. now apply IH.
Qed.
Lemma fargs_ok_length : forall what G args sg, fargs_ok what G args sg = None -> List.length args = List.length sg.
Proof.
  induction args as [|a r IH]; destruct sg as [|s sr]; simpl; intros H; try discriminate; [reflexivity|].
  break_checks. f_equal. now apply IH.
Qed.

(* A cut of a known constructor against a case continues with the body of the FIRST clause for
   that constructor, its parameters replaced by the arguments, zipped in order; by typing the
   clause exists and has as many parameters as there are arguments. *)
Theorem known_cut_selects_ctor : forall data codata defs G rec E c1 x args t1 ty c2 cls t2 st,
  check_term data codata defs G CPrd ty (FsXtor c1 x args t1) = None ->
  check_term data codata defs G CCns ty (FsXCase c2 cls t2) = None ->
  exists cl,
    find (fun c => cident_eqb (clause_xtor c) x) cls = Some cl /\ clause_xtor cl = x /\
    List.length (clause_ctx cl) = List.length args /\
    shrink_cut rec E (FsXtor c1 x args t1) ty (FsXCase c2 cls t2) st
    = rec (subst_stmt (combine (cids (clause_ctx cl)) (cvars args)) (clause_body cl)) st.
Proof.
  intros data codata defs G rec E c1 x args t1 ty c2 cls t2 st Hp Hk.
  rewrite check_term_xcase_eq in Hk. cbn in Hp. break_checks.
  destruct ty as [|n]; [discriminate|]. refold_find n.
  destruct (find_decl data n) as [d|] eqn:Hd; [|discriminate].
  destruct (find_cxtor d x) as [sg|] eqn:Hx; [|discriminate]. break_checks.
  edestruct clauses_match_find as [cl [Hf [Hn Hps]]]; [eassumption | exact Hx |].
  exists cl. repeat split; auto.
  - rewrite (fparams_ok_length _ _ Hps). symmetry. eapply fargs_ok_length; eauto.
  - simpl. unfold shrink_known_cuts. now rewrite Hf.
Qed.
(* ... and dually a cocase against a known destructor *)
Theorem known_cut_selects_dtor : forall data codata defs G rec E c1 cls t1 ty c2 x args t2 st,
  check_term data codata defs G CPrd ty (FsXCase c1 cls t1) = None ->
  check_term data codata defs G CCns ty (FsXtor c2 x args t2) = None ->
  exists cl,
    find (fun c => cident_eqb (clause_xtor c) x) cls = Some cl /\ clause_xtor cl = x /\
    List.length (clause_ctx cl) = List.length args /\
    shrink_cut rec E (FsXCase c1 cls t1) ty (FsXtor c2 x args t2) st
    = rec (subst_stmt (combine (cids (clause_ctx cl)) (cvars args)) (clause_body cl)) st.
Proof.
  intros data codata defs G rec E c1 cls t1 ty c2 x args t2 st Hp Hk.
  rewrite check_term_xcase_eq in Hp. cbn in Hk. break_checks.
  destruct ty as [|n]; [discriminate|]. refold_find n.
  destruct (find_decl codata n) as [d|] eqn:Hd; [|discriminate].
  destruct (find_cxtor d x) as [sg|] eqn:Hx; [|discriminate]. break_checks.
  edestruct clauses_match_find as [cl [Hf [Hn Hps]]]; [eassumption | exact Hx |].
  exists cl. repeat split; auto.
  - rewrite (fparams_ok_length _ _ Hps). symmetry. eapply fargs_ok_length; eauto.
  - simpl. unfold shrink_known_cuts. now rewrite Hf.
Qed.

(* what the zipped substitution does: the i-th parameter becomes the i-th argument *)
Lemma subst_combine_nth : forall ids args i nm d,
  NoDup ids -> List.length ids = List.length args -> i < List.length ids ->
  subst_ident (combine ids args) (nm, nth i ids 0%N) = nth i args d.
Proof.
  induction ids as [|a r IH]; intros args i nm d Hnd Hlen Hi; simpl in Hi; [lia|].
  destruct args as [|b br]; [discriminate|]. inv Hnd. simpl in Hlen.
  destruct i as [|i]; simpl.
  - unfold cid_id. simpl. now rewrite N.eqb_refl.
  - unfold cid_id. simpl. destruct (N.eqb a (nth i r 0%N)) eqn:He.
    + apply N.eqb_eq in He. exfalso. apply H1. rewrite He. apply nth_In. lia.
    + apply IH; auto; lia.
Qed.

(* ====================================================================================== *)
(* the BTreeSet model: sorted duplicate-free lists                                          *)
(* ====================================================================================== *)
Section SortedSet.
Variable X : Type.
Variable cmp : X -> X -> comparison.
Hypothesis cmp_eq : forall a b, cmp a b = Datatypes.Eq -> a = b.
Hypothesis cmp_refl : forall a, cmp a a = Datatypes.Eq.
Hypothesis cmp_antisym : forall a b, cmp a b = CompOpp (cmp b a).
Hypothesis cmp_trans : forall a b c, cmp a b = Datatypes.Lt -> cmp b c = Datatypes.Lt -> cmp a c = Datatypes.Lt.

Definition lt (a b : X) : Prop := cmp a b = Datatypes.Lt.
Fixpoint ins (b : X) (l : list X) : list X :=
  match l with
  | [] => [b]
  | x :: r => match cmp b x with Datatypes.Lt => b :: l | Datatypes.Eq => l | Datatypes.Gt => x :: ins b r end
  end.
Fixpoint rem (b : X) (l : list X) : list X :=
  match l with
  | [] => []
  | x :: r => match cmp b x with Datatypes.Lt => l | Datatypes.Eq => r | Datatypes.Gt => x :: rem b r end
  end.
(* strictly increasing *)
Inductive ssorted : list X -> Prop :=
| ss_nil : ssorted []
| ss_cons : forall a l, ssorted l -> Forall (lt a) l -> ssorted (a :: l).

Lemma gt_lt : forall a b, cmp a b = Datatypes.Gt -> lt b a.
Proof. intros a b H. unfold lt. rewrite cmp_antisym, H. reflexivity. Qed.
Lemma lt_irrefl : forall a, ~ lt a a.
Proof. intros a H. unfold lt in H. rewrite cmp_refl in H. discriminate. Qed.

Lemma ins_forall : forall a b l, lt a b -> Forall (lt a) l -> Forall (lt a) (ins b l).
Proof.
  induction l as [|x r IH]; intros Hab Hl; simpl; [constructor; auto|].
  inversion Hl; subst. destruct (cmp b x); auto.
Qed.
Lemma ins_sorted : forall b l, ssorted l -> ssorted (ins b l).
Proof.
  induction l as [|x r IH]; intros Hs; simpl.
  - constructor; constructor.
  - inversion Hs; subst. destruct (cmp b x) eqn:Hc.
    + exact Hs.
    + constructor; [exact Hs|]. constructor; [exact Hc|].
      eapply Forall_impl; [|exact H2]. intros y Hy. eapply cmp_trans; eauto.
    + constructor; [apply IH; auto|]. apply ins_forall; auto. now apply gt_lt.
Qed.
Lemma rem_forall : forall a b l, Forall (lt a) l -> Forall (lt a) (rem b l).
Proof.
  induction l as [|x r IH]; intros Hl; simpl; [constructor|].
  inversion Hl; subst. destruct (cmp b x); auto.
Qed.
Lemma rem_sorted : forall b l, ssorted l -> ssorted (rem b l).
Proof.
  induction l as [|x r IH]; intros Hs; simpl; [constructor|].
  inversion Hs; subst. destruct (cmp b x); auto.
  constructor; [apply IH; auto | apply rem_forall; auto].
Qed.
Lemma ssorted_nodup : forall l, ssorted l -> NoDup l.
Proof.
  induction 1; constructor; auto.
  intro Hin. rewrite Forall_forall in H0. apply (lt_irrefl a). now apply H0.
Qed.
End SortedSet.
Arguments ssorted {X} cmp l.

(* ---------- the derived Ord of ContextBinding is a strict total order ---------- *)
Lemma ascii_compare_trans : forall a b c,
  Ascii.compare a b = Datatypes.Lt -> Ascii.compare b c = Datatypes.Lt -> Ascii.compare a c = Datatypes.Lt.
Proof.
  intros a b c. unfold Ascii.compare. rewrite !N.compare_lt_iff. apply N.lt_trans.
Qed.
Lemma ascii_compare_refl : forall a, Ascii.compare a a = Datatypes.Eq.
Proof. intro. unfold Ascii.compare. apply N.compare_refl. Qed.
Lemma string_compare_refl : forall s, String.compare s s = Datatypes.Eq.
Proof. induction s; simpl; [reflexivity|]. now rewrite ascii_compare_refl. Qed.
Lemma string_compare_trans : forall a b c,
  String.compare a b = Datatypes.Lt -> String.compare b c = Datatypes.Lt -> String.compare a c = Datatypes.Lt.
Proof.
  induction a as [|x a IH]; intros [|y b] [|z c] H1 H2; simpl in *; try discriminate; try reflexivity.
  destruct (Ascii.compare x y) eqn:Hxy; try discriminate;
  destruct (Ascii.compare y z) eqn:Hyz; try discriminate.
  - apply Ascii.compare_eq_iff in Hxy, Hyz. subst. rewrite ascii_compare_refl. eapply IH; eauto.
  - apply Ascii.compare_eq_iff in Hxy. subst. now rewrite Hyz.
  - apply Ascii.compare_eq_iff in Hyz. subst. now rewrite Hxy.
  - now rewrite (ascii_compare_trans _ _ _ Hxy Hyz).
Qed.

(* lexicographic combination *)
Section Lex.
Variables (A B : Type) (ca : A -> A -> comparison) (cb : B -> B -> comparison).
Hypothesis a_eq : forall a b, ca a b = Datatypes.Eq -> a = b.
Hypothesis a_refl : forall a, ca a a = Datatypes.Eq.
Hypothesis a_anti : forall a b, ca a b = CompOpp (ca b a).
Hypothesis a_trans : forall a b c, ca a b = Datatypes.Lt -> ca b c = Datatypes.Lt -> ca a c = Datatypes.Lt.
Hypothesis b_eq : forall a b, cb a b = Datatypes.Eq -> a = b.
Hypothesis b_refl : forall a, cb a a = Datatypes.Eq.
Hypothesis b_anti : forall a b, cb a b = CompOpp (cb b a).
Hypothesis b_trans : forall a b c, cb a b = Datatypes.Lt -> cb b c = Datatypes.Lt -> cb a c = Datatypes.Lt.
Definition lex (x y : A * B) : comparison :=
  match ca (fst x) (fst y) with Datatypes.Eq => cb (snd x) (snd y) | c => c end.
Lemma lex_eq : forall x y, lex x y = Datatypes.Eq -> x = y.
Proof.
  intros [a b] [a' b']. unfold lex. simpl. destruct (ca a a') eqn:H; try discriminate.
  intros H2. apply a_eq in H. apply b_eq in H2. now subst.
Qed.
Lemma lex_refl : forall x, lex x x = Datatypes.Eq.
Proof. intros [a b]. unfold lex. simpl. now rewrite a_refl, b_refl. Qed.
Lemma lex_anti : forall x y, lex x y = CompOpp (lex y x).
Proof.
  intros [a b] [a' b']. unfold lex. simpl. rewrite (a_anti a a'). destruct (ca a' a); simpl; auto.
Qed.
Lemma lex_trans : forall x y z, lex x y = Datatypes.Lt -> lex y z = Datatypes.Lt -> lex x z = Datatypes.Lt.
Proof.
  intros [a b] [a' b'] [a'' b'']. unfold lex. simpl.
  destruct (ca a a') eqn:H1; try discriminate; destruct (ca a' a'') eqn:H2; try discriminate; intros H3 H4.
  - apply a_eq in H1, H2. subst. rewrite a_refl. eauto.
  - apply a_eq in H1. subst. now rewrite H2.
  - apply a_eq in H2. subst. now rewrite H1.
  - now rewrite (a_trans _ _ _ H1 H2).
Qed.
End Lex.

Lemma n_compare_trans : forall a b c, N.compare a b = Datatypes.Lt -> N.compare b c = Datatypes.Lt -> N.compare a c = Datatypes.Lt.
Proof. intros a b c. rewrite !N.compare_lt_iff. apply N.lt_trans. Qed.

Lemma cident_compare_lex : forall a b, cident_compare a b = lex _ _ String.compare N.compare a b.
Proof. reflexivity. Qed.
Lemma cident_compare_eq : forall a b, cident_compare a b = Datatypes.Eq -> a = b.
Proof. intros a b. rewrite cident_compare_lex. apply lex_eq; [apply String.compare_eq_iff | apply N.compare_eq]. Qed.
Lemma cident_compare_refl : forall a, cident_compare a a = Datatypes.Eq.
Proof. intros a. rewrite cident_compare_lex. apply lex_refl; [apply string_compare_refl | apply N.compare_refl]. Qed.
Lemma cident_compare_anti : forall a b, cident_compare a b = CompOpp (cident_compare b a).
Proof. intros a b. rewrite !cident_compare_lex. apply lex_anti; [apply String.compare_antisym | intros; apply N.compare_antisym]. Qed.
Lemma cident_compare_trans : forall a b c,
  cident_compare a b = Datatypes.Lt -> cident_compare b c = Datatypes.Lt -> cident_compare a c = Datatypes.Lt.
Proof.
  intros a b c. rewrite !cident_compare_lex.
  apply lex_trans; [apply String.compare_eq_iff | apply string_compare_refl | apply string_compare_trans | apply n_compare_trans].
Qed.

Lemma cchi_compare_eq : forall a b, cchi_compare a b = Datatypes.Eq -> a = b.
Proof. intros [|] [|]; simpl; congruence. Qed.
Lemma cchi_compare_refl : forall a, cchi_compare a a = Datatypes.Eq.
Proof. intros [|]; reflexivity. Qed.
Lemma cchi_compare_anti : forall a b, cchi_compare a b = CompOpp (cchi_compare b a).
Proof. intros [|] [|]; reflexivity. Qed.
Lemma cchi_compare_trans : forall a b c,
  cchi_compare a b = Datatypes.Lt -> cchi_compare b c = Datatypes.Lt -> cchi_compare a c = Datatypes.Lt.
Proof. intros [|] [|] [|]; simpl; congruence. Qed.

Lemma cty_compare_eq : forall a b, cty_compare a b = Datatypes.Eq -> a = b.
Proof. intros [|x] [|y]; simpl; try congruence. intros H. apply cident_compare_eq in H. now subst. Qed.
Lemma cty_compare_refl : forall a, cty_compare a a = Datatypes.Eq.
Proof. intros [|x]; simpl; [reflexivity | apply cident_compare_refl]. Qed.
Lemma cty_compare_anti : forall a b, cty_compare a b = CompOpp (cty_compare b a).
Proof. intros [|x] [|y]; simpl; try reflexivity. apply cident_compare_anti. Qed.
Lemma cty_compare_trans : forall a b c,
  cty_compare a b = Datatypes.Lt -> cty_compare b c = Datatypes.Lt -> cty_compare a c = Datatypes.Lt.
Proof. intros [|x] [|y] [|z]; simpl; try congruence. apply cident_compare_trans. Qed.

Definition cb_tuple (b : cbinding) : cident * (cchi * cty) := (cbvar b, (cbchi b, cbty b)).
Lemma cbinding_compare_lex : forall a b,
  cbinding_compare a b = lex _ _ cident_compare (lex _ _ cchi_compare cty_compare) (cb_tuple a) (cb_tuple b).
Proof. reflexivity. Qed.
Lemma cb_tuple_inj : forall a b, cb_tuple a = cb_tuple b -> a = b.
Proof. intros [v c t] [v' c' t'] H. inversion H. reflexivity. Qed.
Lemma cbinding_compare_eq : forall a b, cbinding_compare a b = Datatypes.Eq -> a = b.
Proof.
  intros a b. rewrite cbinding_compare_lex. intros H. apply cb_tuple_inj. revert H.
  apply lex_eq; [apply cident_compare_eq | apply lex_eq; [apply cchi_compare_eq | apply cty_compare_eq]].
Qed.
Lemma cbinding_compare_refl : forall a, cbinding_compare a a = Datatypes.Eq.
Proof.
  intros a. rewrite cbinding_compare_lex.
  apply lex_refl; [apply cident_compare_refl | apply lex_refl; [apply cchi_compare_refl | apply cty_compare_refl]].
Qed.
Lemma cbinding_compare_anti : forall a b, cbinding_compare a b = CompOpp (cbinding_compare b a).
Proof.
  intros a b. rewrite !cbinding_compare_lex.
  apply lex_anti; [apply cident_compare_anti | apply lex_anti; [apply cchi_compare_anti | apply cty_compare_anti]].
Qed.
Lemma cbinding_compare_trans : forall a b c,
  cbinding_compare a b = Datatypes.Lt -> cbinding_compare b c = Datatypes.Lt -> cbinding_compare a c = Datatypes.Lt.
Proof.
  intros a b c. rewrite !cbinding_compare_lex.
  apply lex_trans; [apply cident_compare_eq | apply cident_compare_refl | apply cident_compare_trans |].
  apply lex_trans; [apply cchi_compare_eq | apply cchi_compare_refl | apply cchi_compare_trans | apply cty_compare_trans].
Qed.

(* bs_insert / bs_remove are the generic operations *)
Lemma bs_insert_ins : forall b l, bs_insert b l = ins _ cbinding_compare b l.
Proof. induction l; simpl; [reflexivity|]. now rewrite IHl. Qed.
Lemma bs_remove_rem : forall b l, bs_remove b l = rem _ cbinding_compare b l.
Proof. induction l; simpl; [reflexivity|]. now rewrite IHl. Qed.
Notation bsorted := (ssorted cbinding_compare).
Lemma bs_insert_sorted : forall b l, bsorted l -> bsorted (bs_insert b l).
Proof.
  intros. rewrite bs_insert_ins. apply ins_sorted; auto; [apply cbinding_compare_anti | apply cbinding_compare_trans].
Qed.
Lemma bs_remove_sorted : forall b l, bsorted l -> bsorted (bs_remove b l).
Proof. intros. rewrite bs_remove_rem. apply rem_sorted; auto. Qed.
Lemma bs_extend_sorted : forall bs l, bsorted l -> bsorted (bs_extend bs l).
Proof. induction bs; simpl; intros; auto. apply IHbs. now apply bs_insert_sorted. Qed.
Lemma bs_remove_all_sorted : forall bs l, bsorted l -> bsorted (bs_remove_all bs l).
Proof. induction bs; simpl; intros; auto. apply IHbs. now apply bs_remove_sorted. Qed.

Lemma tfv_sorted_all :
  (forall t acc, bsorted acc -> bsorted (tfv_term t acc)) /\
  (forall c acc, bsorted acc -> bsorted (tfv_clause c acc)) /\
  (forall s acc, bsorted acc -> bsorted (tfv_stmt s acc)).
Proof.
  apply fs_mutind; intros; simpl; auto using bs_insert_sorted, bs_remove_sorted, bs_extend_sorted, bs_remove_all_sorted.
  - (* XCase *) revert acc H0. induction H as [|cl r Hcl Hr IH]; intros acc Hacc; auto.
  - (* IfC *) apply H0, H. destruct b; auto using bs_insert_sorted.
Qed.
Lemma typed_free_vars_sorted : forall s, bsorted (typed_free_vars s).
Proof. intros. apply tfv_sorted_all. constructor. Qed.
Lemma typed_free_vars_nodup : forall s, NoDup (typed_free_vars s).
Proof.
  intros. eapply ssorted_nodup; [apply cbinding_compare_refl | apply typed_free_vars_sorted].
Qed.

(* ====================================================================================== *)
(* lift_closed                                                                              *)
(* ====================================================================================== *)
(* the parameters `lift` draws for the free variables fvs when max_id = m: same name, chirality and
   type, ids m+1, m+2, ... in order *)
Fixpoint fresh_params (fvs : list cbinding) (m : N) : cctx :=
  match fvs with
  | [] => []
  | b :: r => mkcb (fst (cbvar b), N.succ m) (cbchi b) (cbty b) :: fresh_params r (N.succ m)
  end.
Lemma lift_params_spec : forall fvs st cx sub st1,
  lift_params fvs st = ((cx, sub), st1) ->
  cx = fresh_params fvs (s_max st) /\ sub = combine (cids fvs) (cvars cx) /\
  st1 = mksst (s_max st + N.of_nat (List.length fvs)) (s_lifted st).
Proof.
  induction fvs as [|b r IH]; intros st cx sub st1 H; simpl in H.
  - inversion H; subst. simpl. rewrite N.add_0_r. destruct st1; auto.
  - destruct (lift_params r _) as [[cx' sub'] st2] eqn:Hr. inv H.
    apply IH in Hr as [-> [-> ->]]. cbn [s_max s_lifted fresh_params cids cvars map combine List.length]. repeat split.
    f_equal. rewrite Nat2N.inj_succ. lia.
Qed.
Lemma fresh_params_ids : forall fvs m x, In x (cids (fresh_params fvs m)) -> (m < x <= m + N.of_nat (List.length fvs))%N.
Proof.
  induction fvs as [|b r IH]; intros m x Hin; simpl in Hin; [contradiction|].
  cbn [List.length]. rewrite Nat2N.inj_succ. destruct Hin as [<-|Hin]; [unfold cid_id; simpl; lia|].
  apply IH in Hin. lia.
Qed.
Lemma fresh_params_nodup : forall fvs m, NoDup (cids (fresh_params fvs m)).
Proof.
  induction fvs as [|b r IH]; intros m; simpl; constructor; [|apply IH].
  intros Hin. apply fresh_params_ids in Hin. unfold cid_id in Hin. simpl in Hin. lia.
Qed.
Lemma fresh_params_sig : forall fvs m,
  Forall2 (fun p f => fst (cbvar p) = fst (cbvar f) /\ cbchi p = cbchi f /\ cbty p = cbty f) (fresh_params fvs m) fvs.
Proof. induction fvs; intros; simpl; constructor; auto. Qed.
(* the translated signature only depends on chirality and type *)
Lemma shrink_binding_sig : forall codata p f, cbchi p = cbchi f -> cbty p = cbty f ->
  bchi (shrink_binding codata p) = bchi (shrink_binding codata f) /\
  bty (shrink_binding codata p) = bty (shrink_binding codata f).
Proof.
  intros codata [v c t] [v' c' t'] H1 H2. simpl in *. subst. unfold shrink_binding. simpl.
  destruct (cty_eqb t' CI64); destruct (cchi_eqb c' CCns); simpl; auto;
  destruct (_ || _); auto.
Qed.

(* `lift s`: the free variables fvs of s (in BTreeSet order, duplicate-free) are passed by the call,
   in that order; the new definition, pushed to the front of the lifted definitions, has one fresh
   parameter per free variable, in the same order with the same name, chirality and type (hence the
   same AxCut signature as the call's arguments), pairwise distinct; its body is the shrunk statement
   with each free variable renamed to its parameter. *)
Theorem lift_closed : forall rec E s st r st',
  lift rec E s st = SOk (r, st') ->
  let fvs := typed_free_vars s in
  let params := fresh_params fvs (s_max st) in
  let label := (("lift_" ++ e_label E ++ "_")%string, N.succ (s_max st + N.of_nat (List.length fvs))) in
  bsorted fvs /\ NoDup fvs /\ NoDup (cids params) /\
  Forall2 (fun p f => fst (cbvar p) = fst (cbvar f) /\ cbchi p = cbchi f /\ cbty p = cbty f) params fvs /\
  r = Call label (shrink_context (e_codata E) fvs) /\
  exists body st3,
    rec (subst_stmt (combine (cids fvs) (cvars params)) s)
        (mksst (N.succ (s_max st + N.of_nat (List.length fvs))) (s_lifted st)) = SOk (body, st3) /\
    st' = mksst (s_max st3) (mkd label (shrink_context (e_codata E) params) body :: s_lifted st3).
Proof.
  intros rec E s st r st' H fvs params label. unfold lift in H. fold fvs in H.
  destruct (lift_params fvs st) as [[cx sub] st1] eqn:Hp.
  apply lift_params_spec in Hp as [-> [-> ->]]. fold params in H.
  unfold fresh_identifier in H. cbn [s_max s_lifted] in H.
  split; [apply typed_free_vars_sorted|]. split; [apply typed_free_vars_nodup|].
  split; [apply fresh_params_nodup|]. split; [apply fresh_params_sig|].
  destruct (rec _ _) as [[body st3]|] eqn:Hb; [|discriminate]. cbn [sbind] in H. inv H.
  split; [reflexivity|]. exists body, st3. split; reflexivity.
Qed.
