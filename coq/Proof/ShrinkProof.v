(* Proof/ShrinkProof.v - lemmas about the model of shrinking (Model/Shrink.v) for property C04.
   The theorems are re-stated in Props/C04.v. *)
From Coq Require Import List ZArith NArith String Bool Lia DecimalString DecimalN DecimalPos FinFun.
From SCC Require Import Base.Sexp Lang.SynUtil Lang.CoreSyn Lang.AxSyn Sem.FsCheck Model.Shrink.
Import ListNotations.
Open Scope list_scope.

(* ====================================================================================== *)
(* induction principle for the nested mutual syntax                                         *)
(* ====================================================================================== *)
Section FsInd.
Variables (P : fsterm -> Prop) (Q : fsclause -> Prop) (R : fsstmt -> Prop).
Hypothesis HXVar : forall c v t, P (FsXVar c v t).
Hypothesis HLit : forall n, P (FsLit n).
Hypothesis HOp : forall a o b, P (FsOp a o b).
Hypothesis HMu : forall c v s t, R s -> P (FsMu c v s t).
Hypothesis HXtor : forall c x args t, P (FsXtor c x args t).
Hypothesis HXCase : forall c cls t, Forall Q cls -> P (FsXCase c cls t).
Hypothesis HClause : forall c x ctx b, R b -> Q (FsClause c x ctx b).
Hypothesis HCut : forall p t k, P p -> P k -> R (FsCut p t k).
Hypothesis HIfC : forall so a b t e, R t -> R e -> R (FsIfC so a b t e).
Hypothesis HPrint : forall nl a n, R n -> R (FsPrint nl a n).
Hypothesis HCall : forall f args, R (FsCall f args).
Hypothesis HExit : forall v, R (FsExit v).

Fixpoint fsterm_ind' (t : fsterm) : P t :=
  match t with
  | FsXVar c v ty => HXVar c v ty
  | FsLit n => HLit n
  | FsOp a o b => HOp a o b
  | FsMu c v s ty => HMu c v s ty (fsstmt_ind' s)
  | FsXtor c x args ty => HXtor c x args ty
  | FsXCase c cls ty =>
      HXCase c cls ty
        ((fix go (l : list fsclause) : Forall Q l :=
            match l with
            | [] => Forall_nil Q
            | y :: r => Forall_cons y (fsclause_ind' y) (go r)
            end) cls)
  end
with fsclause_ind' (c : fsclause) : Q c :=
  match c with FsClause ch x ctx b => HClause ch x ctx b (fsstmt_ind' b) end
with fsstmt_ind' (s : fsstmt) : R s :=
  match s with
  | FsCut p ty k => HCut p ty k (fsterm_ind' p) (fsterm_ind' k)
  | FsIfC so a b t e => HIfC so a b t e (fsstmt_ind' t) (fsstmt_ind' e)
  | FsPrint nl a n => HPrint nl a n (fsstmt_ind' n)
  | FsCall f args => HCall f args
  | FsExit v => HExit v
  end.
Lemma fs_mutind : (forall t, P t) /\ (forall c, Q c) /\ (forall s, R s).
Proof. repeat split; [apply fsterm_ind' | apply fsclause_ind' | apply fsstmt_ind']. Qed.
End FsInd.

(* ====================================================================================== *)
(* the measure: substitution preserves it, sub-statements are smaller                       *)
(* ====================================================================================== *)
Definition fsz_clauses (cls : list fsclause) : nat :=
  (fix go (l : list fsclause) : nat := match l with [] => 0 | y :: r => fsz_clause y + go r end) cls.
Lemma fsz_term_xcase : forall c cls t, fsz_term (FsXCase c cls t) = S (fsz_clauses cls).
Proof. reflexivity. Qed.
Lemma fsz_clauses_cons : forall y r, fsz_clauses (y :: r) = fsz_clause y + fsz_clauses r.
Proof. reflexivity. Qed.

Lemma fsz_subst_all : forall sub,
  (forall t, fsz_term (subst_term sub t) = fsz_term t) /\
  (forall c, fsz_clause (subst_clause sub c) = fsz_clause c) /\
  (forall s, fsz (subst_stmt sub s) = fsz s).
Proof.
  intro sub. apply fs_mutind; intros; simpl; try reflexivity; try congruence.
  - (* XCase *) f_equal. induction H as [|y r Hy Hr IH]; simpl; [reflexivity|]. rewrite Hy. f_equal. exact IH.
Qed.
Lemma fsz_subst : forall sub s, fsz (subst_stmt sub s) = fsz s.
Proof. intros. apply (fsz_subst_all sub). Qed.

Lemma fsz_pos : forall s, 1 <= fsz s.
Proof. destruct s; simpl; lia. Qed.
Lemma fsz_clause_in : forall cl cls, In cl cls -> fsz_clause cl <= fsz_clauses cls.
Proof.
  induction cls as [|y r IH]; intros Hin; [contradiction|].
  rewrite fsz_clauses_cons. destruct Hin as [->|Hin]; [lia|]. specialize (IH Hin). lia.
Qed.

Ltac inv H := inversion H; subst; clear H.

(* ====================================================================================== *)
(* the label loop of `lift`                                                                 *)
(* ====================================================================================== *)
Lemma n_to_string_inj : forall a b, n_to_string a = n_to_string b -> a = b.
Proof.
  assert (H : forall n, n_of_string (n_to_string n) = Some n).
  { intros n. unfold n_of_string, n_to_string. rewrite DecimalString.NilZero.usu.
    - now rewrite DecimalN.Unsigned.of_to.
    - destruct n; simpl; [discriminate | apply DecimalPos.Unsigned.to_uint_nonnil]. }
  intros a b Hab. pose proof (H a) as Ha. rewrite Hab, H in Ha. now inv Ha.
Qed.
Lemma append_inj_l : forall a b c, (a ++ b)%string = (a ++ c)%string -> b = c.
Proof. induction a; simpl; intros b c H; [exact H|]. inversion H. auto. Qed.
Lemma show_cident_inj : forall base i j, i <> 0%N -> j <> 0%N -> show_cident (base, i) = show_cident (base, j) -> i = j.
Proof.
  intros base i j Hi Hj H. unfold show_cident in H. simpl in H.
  apply N.eqb_neq in Hi, Hj. rewrite Hi, Hj in H.
  apply append_inj_l in H. simpl in H. inversion H. now apply n_to_string_inj.
Qed.

Lemma fresh_label_spec : forall fuel used base st c st1,
  fresh_label fuel used base st = Some (c, st1) ->
  fst c = base /\ snd c = s_max st1 /\ (s_max st < s_max st1)%N /\
  s_lifted st1 = s_lifted st /\ s_used st1 = s_used st /\
  existsb (fun u => String.eqb (show_cident u) (show_cident c)) used = false.
Proof.
  induction fuel as [|fuel IH]; intros used base st c st1 H; simpl in H; [discriminate|].
  destruct (existsb _ used) eqn:He.
  - apply IH in H as [H1 [H2 [H3 [H4 [H5 H6]]]]]. simpl in *. repeat split; auto. lia.
  - inv H. simpl. repeat split; auto. lia.
Qed.
(* the candidates of a failing run are all (printed) among the used labels *)
Lemma fresh_label_none : forall fuel used base st,
  fresh_label fuel used base st = None ->
  forall k, k < fuel -> In (show_cident (base, s_max st + 1 + N.of_nat k)%N) (map show_cident used).
Proof.
  induction fuel as [|fuel IH]; intros used base st H k Hk; [lia|]. simpl in H.
  destruct (existsb _ used) eqn:He; [|discriminate].
  destruct k as [|k].
  - apply existsb_exists in He as [u [Hu Heq]]. apply String.eqb_eq in Heq.
    replace (s_max st + 1 + N.of_nat 0)%N with (N.succ (s_max st)) by lia. rewrite <- Heq. now apply in_map.
  - specialize (IH _ _ _ H k). simpl in IH.
    replace (s_max st + 1 + N.of_nat (S k))%N with (N.succ (s_max st) + 1 + N.of_nat k)%N by lia. apply IH. lia.
Qed.
Lemma fresh_label_total : forall used base st, exists r, fresh_label (S (List.length used)) used base st = Some r.
Proof.
  intros used base st. destruct (fresh_label _ used base st) as [r|] eqn:H; [eexists; reflexivity|]. exfalso.
  pose proof (fresh_label_none _ _ _ _ H) as Hin.
  set (cands := map (fun k => show_cident (base, s_max st + 1 + N.of_nat k)%N) (seq 0 (S (List.length used)))).
  assert (Hnd : NoDup cands).
  { unfold cands. apply FinFun.Injective_map_NoDup; [|apply seq_NoDup].
    intros a b Hab. apply show_cident_inj in Hab; lia. }
  assert (Hincl : incl cands (map show_cident used)).
  { intros x Hx. unfold cands in Hx. apply in_map_iff in Hx as [k [<- Hk]]. apply in_seq in Hk. apply Hin. lia. }
  apply NoDup_incl_length in Hincl; auto. unfold cands in Hincl. rewrite !map_length, seq_length in Hincl. lia.
Qed.

(* ====================================================================================== *)
(* shrink_total: the panics are unreachable on well-typed input                            *)
(* ====================================================================================== *)
(* [shape_*]: the context-free part of typing that decides which arm of FsCut::shrink is taken;
   invariant under variable-for-variable substitution *)
Definition is_some {X} (o : option X) : bool := match o with Some _ => true | None => false end.
Definition decl_found (D C : list ctydecl) (ty : cty) : bool :=
  match ty with
  | CI64 => true
  | CDecl n => is_some (lookup_type_declaration n (if is_codata C ty then C else D))
  end.
Definition cut_shape (D C : list ctydecl) (p : fsterm) (ty : cty) (k : fsterm) : bool :=
  match p, k with
  | FsMu _ _ _ _, FsXVar _ _ _ | FsXVar _ _ _, FsMu _ _ _ _ => true
  | FsXtor _ x _ _, FsXCase _ cls _ | FsXCase _ cls _, FsXtor _ x _ _ =>
      existsb (fun c => cident_eqb (clause_xtor c) x) cls
  | FsXVar _ _ _, FsXVar _ _ _ | FsMu _ _ _ _, FsMu _ _ _ _ => decl_found D C ty
  | FsLit _, FsMu _ _ _ _ | FsLit _, FsXVar _ _ _ | FsOp _ _ _, FsMu _ _ _ _ | FsOp _ _ _, FsXVar _ _ _ => true
  | FsXtor _ _ _ _, FsMu _ _ _ _ | FsMu _ _ _ _, FsXtor _ _ _ _ => true
  | FsXtor _ _ _ _, FsXVar _ _ _ | FsXVar _ _ _, FsXtor _ _ _ _ => true
  | FsXVar _ _ _, FsXCase _ _ _ | FsXCase _ _ _, FsXVar _ _ _ => true
  | FsMu _ _ _ _, FsXCase _ _ _ | FsXCase _ _ _, FsMu _ _ _ _ => true
  | _, _ => false
  end.
Section Shape.
Variables D C : list ctydecl.
Fixpoint shape_term (t : fsterm) : bool :=
  match t with
  | FsMu _ _ s _ => shape_stmt s
  | FsXCase _ cls _ =>
      (fix go (l : list fsclause) : bool := match l with [] => true | y :: r => shape_clause y && go r end) cls
  | _ => true
  end
with shape_clause (c : fsclause) : bool :=
  match c with FsClause _ _ _ b => shape_stmt b end
with shape_stmt (s : fsstmt) : bool :=
  match s with
  | FsCut p ty k => cut_shape D C p ty k && shape_term p && shape_term k
  | FsIfC _ _ _ t e => shape_stmt t && shape_stmt e
  | FsPrint _ _ n => shape_stmt n
  | FsCall _ _ | FsExit _ => true
  end.
Definition shape_clauses (cls : list fsclause) : bool := forallb shape_clause cls.
Lemma shape_term_xcase : forall c cls t, shape_term (FsXCase c cls t) = shape_clauses cls.
Proof. intros. simpl. induction cls; simpl; [reflexivity|]. now rewrite IHcls. Qed.

Lemma subst_clauses_names : forall sub cls x,
  existsb (fun c => cident_eqb (clause_xtor c) x) (subst_clauses sub cls)
  = existsb (fun c => cident_eqb (clause_xtor c) x) cls.
Proof. induction cls as [|[c y ctx b] r IH]; intros; simpl; [reflexivity|]. now rewrite IH. Qed.
Lemma subst_term_xcase : forall sub c cls t,
  subst_term sub (FsXCase c cls t) = FsXCase c (subst_clauses sub cls) t.
Proof. intros. reflexivity. Qed.

Lemma cut_shape_subst : forall sub p ty k,
  cut_shape D C (subst_term sub p) ty (subst_term sub k) = cut_shape D C p ty k.
Proof.
  intros sub p ty k.
  destruct p, k; try reflexivity;
    rewrite ?subst_term_xcase; simpl; try reflexivity; try apply subst_clauses_names.
Qed.

Lemma shape_subst_all : forall sub,
  (forall t, shape_term (subst_term sub t) = shape_term t) /\
  (forall c, shape_clause (subst_clause sub c) = shape_clause c) /\
  (forall s, shape_stmt (subst_stmt sub s) = shape_stmt s).
Proof.
  intro sub. apply fs_mutind; intros; try reflexivity.
  - simpl. exact H.
  - rewrite subst_term_xcase, !shape_term_xcase. unfold shape_clauses, subst_clauses.
    induction H as [|y r Hy Hr IH]; simpl; [reflexivity|]. now rewrite Hy, IH.
  - simpl. exact H.
  - change (shape_stmt (subst_stmt sub (FsCut p t k)))
      with (cut_shape D C (subst_term sub p) t (subst_term sub k) && shape_term (subst_term sub p) && shape_term (subst_term sub k)).
    now rewrite cut_shape_subst, H, H0.
  - simpl. now rewrite H, H0.
  - simpl. exact H.
Qed.
Lemma shape_subst : forall sub s, shape_stmt (subst_stmt sub s) = shape_stmt s.
Proof. intros. apply (shape_subst_all sub). Qed.
End Shape.


Section TotalStep.
Variable rec : fsstmt -> sst -> shres (stmt * sst).
Variable E : senv.
Variable n : nat.
Notation shapeS := (shape_stmt (e_data E) (e_codata E)).
Hypothesis Hrec : forall s st, fsz s <= n -> shapeS s = true -> exists r, rec s st = SOk r.

Lemma shrink_clauses_total : forall cls st,
  fsz_clauses cls <= n -> shape_clauses (e_data E) (e_codata E) cls = true ->
  exists r, shrink_clauses rec E cls st = SOk r.
Proof.
  induction cls as [|[c x ctx b] r IH]; intros st Hsz Hsh; simpl.
  - eexists; reflexivity.
  - rewrite fsz_clauses_cons in Hsz. simpl in Hsz, Hsh. apply andb_prop in Hsh as [Hb Hr].
    destruct (Hrec b st) as [[b' st1] Hb']; [lia | exact Hb |]. rewrite Hb'. simpl.
    destruct (IH st1) as [[r' st2] Hr']; [lia | exact Hr |]. rewrite Hr'. simpl. eexists; reflexivity.
Qed.

Lemma lift_total : forall s st, fsz s <= n -> shapeS s = true -> exists r, lift rec E s st = SOk r.
Proof.
  intros s st Hsz Hsh. unfold lift.
  destruct (lift_params (typed_free_vars s) st) as [[cx sub] st1].
  destruct (fresh_label_total (s_used st1) ("lift_" ++ e_label E ++ "_")%string st1) as [[label st2] Hl]. rewrite Hl.
  destruct (Hrec (subst_stmt sub s) (mksst (s_max st2) (s_lifted st2) (label :: s_used st2))) as [[b st3] Hb].
  - now rewrite fsz_subst.
  - now rewrite shape_subst.
  - rewrite Hb. simpl. eexists; reflexivity.
Qed.

Lemma xtors_of_found : forall ty name, ty = CDecl name ->
  decl_found (e_data E) (e_codata E) ty = true -> exists xs, xtors_of E ty name = SOk xs.
Proof.
  intros ty name -> H. unfold decl_found in H. unfold xtors_of.
  destruct (lookup_type_declaration name _); [eexists; reflexivity | discriminate].
Qed.

Lemma critical_total : forall vp sp vc sc ty st,
  fsz sp <= n -> fsz sc <= n -> shapeS sp = true -> shapeS sc = true ->
  decl_found (e_data E) (e_codata E) ty = true ->
  exists r, shrink_critical_pairs rec E vp sp vc sc ty st = SOk r.
Proof.
  intros vp sp vc sc ty st Hp Hc Sp Sc Hd. unfold shrink_critical_pairs. destruct ty as [|name].
  - destruct (Hrec sc st) as [[b st1] Hb]; auto. rewrite Hb. simpl.
    destruct (Hrec sp st1) as [[b2 st2] Hb2]; auto. rewrite Hb2. simpl. eexists; reflexivity.
  - destruct (xtors_of_found (CDecl name) name eq_refl Hd) as [xs Hxs].
    remember (is_codata (e_codata E) (CDecl name)) as cd. rewrite Hxs. cbn [sbind].
    destruct cd; cbv beta iota.
    + assert (Hexp : exists r, (if Nat.leb (List.length xs) 1 || is_leaf_statement sp then rec sp st else lift rec E sp st) = SOk r).
      { destruct (Nat.leb (List.length xs) 1 || is_leaf_statement sp); [apply Hrec | apply lift_total]; auto. }
      destruct Hexp as [[se st1] He]. rewrite He. simpl.
      destruct (critical_clauses _ _ _ _ _ _) as [cls st2].
      destruct (Hrec sc st2) as [[b st3] Hb]; auto. rewrite Hb. simpl. eexists; reflexivity.
    + assert (Hexp : exists r, (if Nat.leb (List.length xs) 1 || is_leaf_statement sc then rec sc st else lift rec E sc st) = SOk r).
      { destruct (Nat.leb (List.length xs) 1 || is_leaf_statement sc); [apply Hrec | apply lift_total]; auto. }
      destruct Hexp as [[se st1] He]. rewrite He. simpl.
      destruct (critical_clauses _ _ _ _ _ _) as [cls st2].
      destruct (Hrec sp st2) as [[b st3] Hb]; auto. rewrite Hb. simpl. eexists; reflexivity.
Qed.

Lemma unknown_total : forall vp vc ty st,
  decl_found (e_data E) (e_codata E) ty = true -> exists r, shrink_unknown_cuts E vp vc ty st = SOk r.
Proof.
  intros vp vc ty st Hd. unfold shrink_unknown_cuts. destruct ty as [|name]; [eexists; reflexivity|].
  destruct (xtors_of_found (CDecl name) name eq_refl Hd) as [xs Hxs].
  remember (is_codata (e_codata E) (CDecl name)) as cd. rewrite Hxs. cbn [sbind].
  destruct cd; cbv beta iota; destruct (unknown_clauses _ _ _ _ _); eexists; reflexivity.
Qed.

Lemma known_total : forall x args cls st,
  fsz_clauses cls <= n -> shape_clauses (e_data E) (e_codata E) cls = true ->
  existsb (fun c => cident_eqb (clause_xtor c) x) cls = true ->
  exists r, shrink_known_cuts rec x args cls st = SOk r.
Proof.
  intros x args cls st Hsz Hsh Hex. unfold shrink_known_cuts.
  destruct (find (fun c => cident_eqb (clause_xtor c) x) cls) as [cl|] eqn:Hf.
  - apply find_some in Hf as [Hin _].
    assert (Hcl : fsz_clause cl <= fsz_clauses cls) by now apply fsz_clause_in.
    unfold shape_clauses in Hsh. rewrite forallb_forall in Hsh. specialize (Hsh cl Hin).
    destruct cl as [c y ctx b]. simpl in *. apply Hrec; [rewrite fsz_subst; lia | now rewrite shape_subst].
  - exfalso. apply existsb_exists in Hex as [c [Hin Hc]].
    eapply find_none in Hf; [|exact Hin]. simpl in Hf. congruence.
Qed.

Lemma shrink_step_total : forall s st, fsz s <= S n -> shapeS s = true -> exists r, shrink_step rec E s st = SOk r.
Proof.
  intros s st Hsz Hsh. destruct s as [p ty k|so a b t e|nl a nx|f args|v]; simpl in Hsz.
  - (* cut *)
    change (shapeS (FsCut p ty k)) with (cut_shape (e_data E) (e_codata E) p ty k && shape_term (e_data E) (e_codata E) p && shape_term (e_data E) (e_codata E) k) in Hsh.
    apply andb_prop in Hsh as [Hsh Hk]. apply andb_prop in Hsh as [Hcut Hp].
    simpl. unfold shrink_cut.
    destruct p as [c1 v1 t1|l1|a1 o1 b1|c1 v1 s1 t1|c1 x1 args1 t1|c1 cls1 t1];
    destruct k as [c2 v2 t2|l2|a2 o2 b2|c2 v2 s2 t2|c2 x2 args2 t2|c2 cls2 t2];
      try discriminate Hcut;
      rewrite ?fsz_term_xcase in Hsz; rewrite ?shape_term_xcase in Hp, Hk; simpl in Hsz, Hp, Hk.
    + (* XVar, XVar *) now apply unknown_total.
    + (* XVar, Mu *) unfold shrink_renaming. apply Hrec; [rewrite fsz_subst; lia | now rewrite shape_subst].
    + (* XVar, Xtor *) eexists; reflexivity.
    + (* XVar, XCase *)
      destruct (shrink_clauses_total cls2 st) as [[cls' st1] Hc]; [lia | exact Hk |]. rewrite Hc. simpl. eexists; reflexivity.
    + (* Lit, XVar *) destruct (fresh_var st). eexists; reflexivity.
    + (* Lit, Mu *) destruct (Hrec s2 st) as [[b st1] Hb]; [lia | exact Hk |]. rewrite Hb. simpl. eexists; reflexivity.
    + (* Op, XVar *) destruct (fresh_var st). eexists; reflexivity.
    + (* Op, Mu *) destruct (Hrec s2 st) as [[b st1] Hb]; [lia | exact Hk |]. rewrite Hb. simpl. eexists; reflexivity.
    + (* Mu, XVar *) unfold shrink_renaming. apply Hrec; [rewrite fsz_subst; lia | now rewrite shape_subst].
    + (* Mu, Mu *) apply critical_total; auto; lia.
    + (* Mu, Xtor *) destruct (Hrec s1 st) as [[b st1] Hb]; [lia | exact Hp |]. rewrite Hb. simpl. eexists; reflexivity.
    + (* Mu, XCase *)
      destruct (shrink_clauses_total cls2 st) as [[cls' st1] Hc]; [lia | exact Hk |]. rewrite Hc. simpl.
      destruct (Hrec s1 st1) as [[b st2] Hb]; [lia | exact Hp |]. rewrite Hb. simpl. eexists; reflexivity.
    + (* Xtor, XVar *) eexists; reflexivity.
    + (* Xtor, Mu *) destruct (Hrec s2 st) as [[b st1] Hb]; [lia | exact Hk |]. rewrite Hb. simpl. eexists; reflexivity.
    + (* Xtor, XCase *) apply known_total; auto; lia.
    + (* XCase, XVar *)
      destruct (shrink_clauses_total cls1 st) as [[cls' st1] Hc]; [lia | exact Hp |]. rewrite Hc. simpl. eexists; reflexivity.
    + (* XCase, Mu *)
      destruct (shrink_clauses_total cls1 st) as [[cls' st1] Hc]; [lia | exact Hp |]. rewrite Hc. simpl.
      destruct (Hrec s2 st1) as [[b st2] Hb]; [lia | exact Hk |]. rewrite Hb. simpl. eexists; reflexivity.
    + (* XCase, Xtor *) apply known_total; auto; lia.
  - simpl in Hsh. apply andb_prop in Hsh as [Ht He]. simpl.
    destruct (Hrec t st) as [[t' st1] H1]; [lia | exact Ht |]. rewrite H1. simpl.
    destruct (Hrec e st1) as [[e' st2] H2]; [lia | exact He |]. rewrite H2. simpl. eexists; reflexivity.
  - simpl in Hsh. simpl. destruct (Hrec nx st) as [[t' st1] H1]; [lia | exact Hsh |]. rewrite H1. simpl. eexists; reflexivity.
  - eexists; reflexivity.
  - eexists; reflexivity.
Qed.
End TotalStep.

Lemma shrink_stmt_total : forall E fuel s st,
  fsz s <= fuel -> shape_stmt (e_data E) (e_codata E) s = true -> exists r, shrink_stmt fuel E s st = SOk r.
Proof.
  intros E fuel. induction fuel as [|fuel IH]; intros s st Hsz Hsh.
  - pose proof (fsz_pos s). lia.
  - simpl. apply shrink_step_total with (n := fuel); auto.
Qed.

(* ---------- typing implies the shape ---------- *)
Lemma cident_eqb_eq : forall a b, cident_eqb a b = true <-> a = b.
Proof.
  intros [a1 a2] [b1 b2]. unfold cident_eqb. simpl. rewrite andb_true_iff, String.eqb_eq, N.eqb_eq.
  split; [intros [-> ->]; reflexivity | intros H; inversion H; auto].
Qed.
Lemma cident_eqb_refl : forall a, cident_eqb a a = true.
Proof. intro. now apply cident_eqb_eq. Qed.

Lemma cty_eqb_eq_i64 : forall t, cty_eqb t CI64 = true -> t = CI64.
Proof. destruct t; simpl; [reflexivity | discriminate]. Qed.
Lemma seq_none : forall (a b : option string),
  (match a with None => b | Some e => Some e end) = None -> a = None /\ b = None.
Proof. intros [e|] b H; [discriminate | auto]. Qed.
Lemma fensure_none : forall b m, fensure b m = None -> b = true.
Proof. intros [|] m H; [reflexivity | discriminate]. Qed.
Ltac break_checks :=
  repeat match goal with
         | H : (match ?a with None => _ | Some _ => Some _ end) = None |- _ =>
             let H1 := fresh H in apply seq_none in H as [H1 H]
         | H : fensure _ _ = None |- _ => apply fensure_none in H
         end.

Ltac subst_i64 := match goal with H : cty_eqb ?t CI64 = true |- _ => apply cty_eqb_eq_i64 in H; subst t end.

Lemma is_codata_find : forall C n,
  is_codata C (CDecl n) = is_some (find_decl C n).
Proof.
  intros C n. unfold is_codata, find_decl. induction C as [|d r IH]; simpl; [reflexivity|].
  destruct (cident_eqb (ctname d) n); simpl; auto.
Qed.
Lemma find_app_l : forall {X} (f : X -> bool) l1 l2 x, find f l1 = Some x -> find f (l1 ++ l2) = Some x.
Proof. induction l1; simpl; intros; [discriminate|]. destruct (f a); auto. Qed.

Lemma clauses_match_exists : forall side n cls xs x sg,
  clauses_match side n cls xs = None -> find (fun s => cident_eqb (cxname s) x) xs = Some sg ->
  existsb (fun c => cident_eqb (clause_xtor c) x) cls = true.
Proof.
  induction cls as [|[c y ctx b] r IH]; intros xs x sg Hm Hf; destruct xs as [|s xr]; simpl in *; try discriminate.
  break_checks. apply cident_eqb_eq in Hm1. subst y.
  destruct (cident_eqb (cxname s) x) eqn:Hx; simpl; [reflexivity|]. eapply IH; eauto.
Qed.

Ltac refold_find n :=
  repeat match goal with
  | H : context [find (fun d : ctydecl => cident_eqb (ctname d) n) ?l] |- _ =>
      change (find (fun d : ctydecl => cident_eqb (ctname d) n) l) with (find_decl l n) in H
  end.

Section TypingShape.
Variables data codata : list ctydecl.
Variable defs : list fsdef.
Hypothesis Hdisj : forall n, find_decl data n <> None -> find_decl codata n = None.
Notation D := (data ++ [cont_int]).

Lemma ty_ok_found : forall ty, ty_ok data codata ty = true -> decl_found D codata ty = true.
Proof.
  intros [|n] H; [reflexivity|]. unfold decl_found. rewrite is_codata_find. unfold ty_ok in H.
  destruct (find_decl codata n) eqn:Hc; simpl.
  - unfold lookup_type_declaration. unfold find_decl in Hc. now rewrite Hc.
  - destruct (find_decl data n) eqn:Hd; [|discriminate].
    unfold lookup_type_declaration. unfold find_decl in Hd. now rewrite (find_app_l _ _ _ _ Hd).
Qed.

Lemma cut_shape_typed : forall G p ty k,
  ty_ok data codata ty = true ->
  check_term data codata defs G CPrd ty p = None -> check_term data codata defs G CCns ty k = None ->
  cut_shape D codata p ty k = true.
Proof.
  intros G p ty k Hty Hp Hk.
  destruct p as [c1 v1 t1|l1|a1 o1 b1|c1 v1 s1 t1|c1 x1 args1 t1|c1 cls1 t1];
  destruct k as [c2 v2 t2|l2|a2 o2 b2|c2 v2 s2 t2|c2 x2 args2 t2|c2 cls2 t2];
    cbn in Hp, Hk; break_checks; try discriminate; try reflexivity;
    try (now apply ty_ok_found).
  - (* Lit, Xtor *) subst_i64. discriminate.
  - (* Lit, XCase *) subst_i64. discriminate.
  - (* Op, Xtor *) subst_i64. discriminate.
  - (* Op, XCase *) subst_i64. discriminate.
  - (* Xtor, Xtor *) destruct ty as [|n]; [discriminate|]. refold_find n.
    destruct (find_decl data n) eqn:Hd; [|discriminate].
    rewrite Hdisj in Hk; [discriminate | congruence].
  - (* Xtor, XCase *) destruct ty as [|n]; [discriminate|]. refold_find n.
    destruct (find_decl data n) as [d|] eqn:Hd; [|discriminate].
    destruct (find_cxtor d x1) as [sg|] eqn:Hx; [|discriminate]. break_checks.
    simpl. eapply clauses_match_exists; eauto.
  - (* XCase, Xtor *) destruct ty as [|n]; [discriminate|]. refold_find n.
    destruct (find_decl codata n) as [d|] eqn:Hd; [|discriminate].
    destruct (find_cxtor d x2) as [sg|] eqn:Hx; [|discriminate]. break_checks.
    simpl. eapply clauses_match_exists; eauto.
  - (* XCase, XCase *) destruct ty as [|n]; [discriminate|]. refold_find n.
    destruct (find_decl data n) eqn:Hd; [|discriminate].
    rewrite Hdisj in Hp; [discriminate | congruence].
Qed.
End TypingShape.

Section TypingShape2.
Variables data codata : list ctydecl.
Variable defs : list fsdef.
Hypothesis Hdisj : forall n, find_decl data n <> None -> find_decl codata n = None.
Notation D := (data ++ [cont_int]).

Definition check_bodies (G : cctx) (cls : list fsclause) : option string :=
  (fix go (cls : list fsclause) {struct cls} : option string :=
     match cls with
     | [] => None
     | FsClause _ _ ctx body :: cr =>
         match check_stmt data codata defs (app ctx G) body with None => go cr | Some e => Some e end
     end) cls.
Lemma check_bodies_cons : forall G c x ctx body cr,
  check_bodies G (FsClause c x ctx body :: cr) =
  match check_stmt data codata defs (app ctx G) body with None => check_bodies G cr | Some e => Some e end.
Proof. reflexivity. Qed.
Lemma check_term_xcase_eq : forall G side ty c cls t',
  check_term data codata defs G side ty (FsXCase c cls t') =
  match fensure (cchi_eqb c side) "xcase with the wrong prdcns field" with
  | Some e => Some e
  | None =>
  match fensure (cty_eqb t' ty) ("xcase annotated " ++ show_cty t' ++ " in a cut at " ++ show_cty ty)%string with
  | Some e => Some e
  | None =>
      match ty with
      | CI64 => Some "xcase at type i64"%string
      | CDecl n =>
          match find_decl (match side with CPrd => codata | CCns => data end) n with
          | None => Some ("xcase: " ++ show_cident n ++ " is no " ++
                          (match side with CPrd => "codata" | CCns => "data" end) ++ " type")%string
          | Some d =>
              match clauses_match side n cls (ctxtors d) with
              | Some e => Some e
              | None => check_bodies G cls
              end
          end
      end
  end end.
Proof. reflexivity. Qed.
Lemma check_term_mu_eq : forall G side ty c v s t',
  check_term data codata defs G side ty (FsMu c v s t') =
  match fensure (cchi_eqb c side) "mu with the wrong prdcns field" with
  | Some e => Some e
  | None =>
  match fensure (cty_eqb t' ty) ("mu " ++ show_cident v ++ " annotated " ++ show_cty t' ++ " in a cut at " ++ show_cty ty)%string with
  | Some e => Some e
  | None => check_stmt data codata defs (mkcb v (opp side) ty :: G) s
  end end.
Proof. reflexivity. Qed.
Lemma check_stmt_cut_eq : forall G p ty k,
  check_stmt data codata defs G (FsCut p ty k) =
  match fensure (ty_ok data codata ty) ("cut at undeclared type " ++ show_cty ty)%string with
  | Some e => Some e
  | None =>
  match check_term data codata defs G CPrd ty p with
  | Some e => Some e
  | None => check_term data codata defs G CCns ty k
  end end.
Proof. reflexivity. Qed.
Lemma check_stmt_ifc_eq : forall G so a b t e,
  check_stmt data codata defs G (FsIfC so a b t e) =
  match fbound G a CPrd CI64 with
  | Some e => Some e
  | None =>
  match (match b with Some b' => fbound G b' CPrd CI64 | None => None end) with
  | Some e => Some e
  | None =>
  match check_stmt data codata defs G t with
  | Some e => Some e
  | None => check_stmt data codata defs G e
  end end end.
Proof. reflexivity. Qed.
Lemma check_stmt_print_eq : forall G nl a next,
  check_stmt data codata defs G (FsPrint nl a next) =
  match fbound G a CPrd CI64 with Some e => Some e | None => check_stmt data codata defs G next end.
Proof. reflexivity. Qed.

Lemma check_shape_all :
  (forall t G side ty, check_term data codata defs G side ty t = None -> shape_term D codata t = true) /\
  (forall cl G, check_stmt data codata defs G (clause_body cl) = None -> shape_clause D codata cl = true) /\
  (forall s G, check_stmt data codata defs G s = None -> shape_stmt D codata s = true).
Proof.
  apply fs_mutind; intros; try reflexivity.
  - (* Mu *) rewrite check_term_mu_eq in H0. break_checks. simpl. eapply H; eauto.
  - (* XCase *) rewrite shape_term_xcase. rewrite check_term_xcase_eq in H0. break_checks.
    destruct ty as [|n]; [discriminate|].
    destruct (find_decl _ _) as [d|]; [|discriminate]. break_checks. clear H3.
    unfold shape_clauses. induction H as [|cl r Hcl Hr IH]; simpl; [reflexivity|].
    destruct cl as [c' x ctx body]. rewrite check_bodies_cons in H0. break_checks.
    apply andb_true_intro; split; [eapply Hcl; eauto | apply IH; exact H0].
  - (* Clause *) simpl in *. eapply H; eauto.
  - (* Cut *) rewrite check_stmt_cut_eq in H1. break_checks.
    change (shape_stmt D codata (FsCut p t k)) with (cut_shape D codata p t k && shape_term D codata p && shape_term D codata k).
    repeat (apply andb_true_intro; split); [eapply cut_shape_typed | eapply H | eapply H0]; eauto.
  - (* IfC *) rewrite check_stmt_ifc_eq in H1. break_checks. simpl. apply andb_true_intro; split; [eapply H | eapply H0]; eauto.
  - (* Print *) rewrite check_stmt_print_eq in H0. break_checks. simpl. eapply H; eauto.
Qed.
Lemma check_stmt_shape : forall s G, check_stmt data codata defs G s = None -> shape_stmt D codata s = true.
Proof. apply check_shape_all. Qed.
End TypingShape2.

(* ---------- program level ---------- *)
Lemma nodup_by_app_disjoint : forall (l1 l2 : list cident) x,
  nodup_by cident_eqb (l1 ++ l2) = true -> In x l1 -> In x l2 -> False.
Proof.
  induction l1 as [|a r IH]; intros l2 x Hn H1 H2; [contradiction|].
  simpl in Hn. apply andb_prop in Hn as [Ha Hr]. destruct H1 as [->|H1].
  - apply negb_true_iff in Ha. assert (existsb (cident_eqb x) (r ++ l2) = true).
    { apply existsb_exists. exists x. split; [apply in_or_app; now right | apply cident_eqb_refl]. }
    congruence.
  - eapply IH; eauto.
Qed.
Lemma find_decl_some_in : forall ts n d, find_decl ts n = Some d -> In n (map ctname ts).
Proof.
  intros ts n d H. unfold find_decl in H. apply find_some in H as [Hin Heq].
  apply cident_eqb_eq in Heq. subst n. now apply in_map.
Qed.
Lemma nodup_types_disjoint : forall data codata,
  nodup_by cident_eqb (map ctname (data ++ codata)) = true ->
  forall n, find_decl data n <> None -> find_decl codata n = None.
Proof.
  intros data codata Hn n Hd. rewrite map_app in Hn.
  destruct (find_decl data n) as [d|] eqn:H1; [|congruence].
  destruct (find_decl codata n) as [d'|] eqn:H2; [|reflexivity].
  exfalso. eapply nodup_by_app_disjoint; eauto using find_decl_some_in.
Qed.

Lemma check_defs_in : forall p l d, check_defs p l = None -> In d l ->
  check_stmt (fspdata p) (fspcodata p) (fspdefs p) (fsdctx d) (fsdbody d) = None.
Proof.
  induction l as [|a r IH]; intros d Hc Hin; [contradiction|]. simpl in Hc. break_checks.
  destruct (check_stmt _ _ _ (fsdctx a) (fsdbody a)) eqn:Ha; [discriminate|].
  destruct Hin as [->|Hin]; [exact Ha | now apply IH].
Qed.

Lemma shrink_defs_total : forall data codata ds used m acc,
  (forall d, In d ds -> shape_stmt data codata (fsdbody d) = true) ->
  exists r, shrink_defs ds data codata used m acc = SOk r.
Proof.
  induction ds as [|d r IH]; intros used m acc Hsh; simpl; [eexists; reflexivity|].
  unfold shrink_def.
  destruct (shrink_stmt_total (mksenv data codata (fst (fsdname d))) (fsz (fsdbody d)) (fsdbody d) (mksst m [] used))
    as [[b st] Hb]; [lia | apply Hsh; now left |].
  rewrite Hb. simpl. apply IH. intros d' Hin. apply Hsh. now right.
Qed.

Lemma existsb_app_false : forall {X} (f : X -> bool) l1 l2, existsb f (l1 ++ l2) = false -> existsb f l1 = false /\ existsb f l2 = false.
Proof. intros. rewrite existsb_app in H. now apply orb_false_iff in H. Qed.

Theorem shrink_total : forall p, wt_fs p = true -> exists q, shrink_prog p = SOk q.
Proof.
  intros p Hwt. unfold wt_fs in Hwt. destruct (check_fs p) eqn:Hc; [discriminate|]. clear Hwt.
  unfold check_fs in Hc. break_checks.
  apply negb_true_iff in Hc2. apply existsb_app_false in Hc2 as [Hd Hcd].
  unfold shrink_prog. unfold cont_name_fs in *. unfold cont_name. rewrite Hd, Hcd. simpl.
  destruct (shrink_defs_total (fspdata p ++ [cont_int]) (fspcodata p) (fspdefs p) (map fsdname (fspdefs p)) (fspmax p) []) as [[defs m] Hs].
  - intros d Hin. eapply check_stmt_shape.
    + apply nodup_types_disjoint. exact Hc1.
    + eapply check_defs_in; eauto.
  - rewrite Hs. simpl. eexists; reflexivity.
Qed.

(* ====================================================================================== *)
(* shrink_binding_chirality: the collapse table                                            *)
(* ====================================================================================== *)
(* i64: producers stay integers (ext), consumers become continuations (cns _Cont);
   data: chirality kept; codata: chirality flipped (so data producers and codata consumers are
   prd, data consumers and codata producers are cns). *)
Theorem shrink_binding_chirality : forall codata v n,
  shrink_binding codata (mkcb v CPrd CI64) = mkb v Ext I64 /\
  shrink_binding codata (mkcb v CCns CI64) = mkb v Cns (Decl cont_name) /\
  (is_codata codata (CDecl n) = false ->
     shrink_binding codata (mkcb v CPrd (CDecl n)) = mkb v Prd (Decl n) /\
     shrink_binding codata (mkcb v CCns (CDecl n)) = mkb v Cns (Decl n)) /\
  (is_codata codata (CDecl n) = true ->
     shrink_binding codata (mkcb v CPrd (CDecl n)) = mkb v Cns (Decl n) /\
     shrink_binding codata (mkcb v CCns (CDecl n)) = mkb v Prd (Decl n)).
Proof.
  intros. unfold shrink_binding. simpl. split; [reflexivity|]. split; [reflexivity|]. split; intros Hc; rewrite Hc; split; reflexivity.
Qed.

(* ====================================================================================== *)
(* critical_pair_order                                                                      *)
(* ====================================================================================== *)
(* For <mu a.sp | ty | mu~ x.sc> the result is `create v = {clauses}; next`:
   - i64:    v = a (the producer's covariable, a continuation), the single clause Ret(x) holds the
             shrunk CONSUMER body, and `next` - what runs first - is the shrunk PRODUCER body;
   - data:   v = a, next = the shrunk PRODUCER body (the consumer is suspended in the clauses);
   - codata: v = x, next = the shrunk CONSUMER body (the producer is suspended in the clauses).
   In the two declared-type cases every clause re-binds the expanded variable with `let` and
   continues with the shrunk expanded side (in place, or a call to its lifted definition). *)
Definition all_let_clauses (cls : list clause) : Prop :=
  Forall (fun c => exists v t tag next, cl_body c = Let v t tag (cl_ctx c) next /\ tag = cl_xtor c) cls.
Lemma critical_clauses_lets : forall codata ve tty se xs st cls st',
  critical_clauses codata ve tty se xs st = (cls, st') -> all_let_clauses cls.
Proof.
  induction xs as [|[xt args] r IH]; intros st cls st' H; simpl in H.
  - inv H. constructor.
  - destruct (fresh_env _ _) as [env sta].
    destruct (critical_clauses _ _ _ _ r _) as [r' stc] eqn:Hr. inv H.
    constructor; [|eapply IH; eauto]. simpl. repeat eexists.
Qed.

Theorem critical_pair_order : forall rec E vp sp vc sc ty st s st',
  shrink_critical_pairs rec E vp sp vc sc ty st = SOk (s, st') ->
  match ty with
  | CI64 =>
      exists body next st1,
        rec sc st = SOk (body, st1) /\ rec sp st1 = SOk (next, st') /\
        s = Create vp (Decl cont_name) None [(ret_name, [mkb vc Ext I64], body)] next
  | CDecl n =>
      exists cls next st2,
        all_let_clauses cls /\
        if is_codata (e_codata E) ty
        then rec sc st2 = SOk (next, st') /\ s = Create vc (Decl n) None cls next     (* consumer first *)
        else rec sp st2 = SOk (next, st') /\ s = Create vp (Decl n) None cls next     (* producer first *)
  end.
Proof.
  intros rec E vp sp vc sc ty st s st' H. unfold shrink_critical_pairs in H. destruct ty as [|n].
  - destruct (rec sc st) as [[body st1]|] eqn:H1; [|discriminate]. cbn [sbind] in H.
    destruct (rec sp st1) as [[next st2]|] eqn:H2; [|discriminate]. cbn [sbind] in H. inv H.
    repeat eexists; eauto.
  - destruct (xtors_of E (CDecl n) n) as [xs|]; [|discriminate]. cbn [sbind] in H.
    destruct (is_codata (e_codata E) (CDecl n)); cbv beta iota in H.
    + destruct (if (_ || _)%bool then _ else _) as [[se st1]|]; [|discriminate]. cbn [sbind] in H.
      destruct (critical_clauses _ _ _ _ _ _) as [cls st2] eqn:Hc.
      destruct (rec sc st2) as [[next st3]|] eqn:H2; [|discriminate]. cbn [sbind] in H. inv H.
      exists cls, next, st2. split; [eapply critical_clauses_lets; eauto | split; auto].
    + destruct (if (_ || _)%bool then _ else _) as [[se st1]|]; [|discriminate]. cbn [sbind] in H.
      destruct (critical_clauses _ _ _ _ _ _) as [cls st2] eqn:Hc.
      destruct (rec sp st2) as [[next st3]|] eqn:H2; [|discriminate]. cbn [sbind] in H. inv H.
      exists cls, next, st2. split; [eapply critical_clauses_lets; eauto | split; auto].
Qed.

(* ====================================================================================== *)
(* known_cut_selects                                                                        *)
(* ====================================================================================== *)
Lemma clauses_match_find : forall side n cls xs x sg,
  clauses_match side n cls xs = None -> find (fun s => cident_eqb (cxname s) x) xs = Some sg ->
  exists cl, find (fun c => cident_eqb (clause_xtor c) x) cls = Some cl /\
             clause_xtor cl = x /\ fparams_ok (clause_ctx cl) (cxargs sg) = true.
Proof.
  induction cls as [|[c y ctx b] r IH]; intros xs x sg Hm Hf; destruct xs as [|s xr]; simpl in *; try discriminate.
  break_checks. apply cident_eqb_eq in Hm1. subst y.
  destruct (cident_eqb (cxname s) x) eqn:Hx.
  - inv Hf. eexists; repeat split; eauto. now apply cident_eqb_eq.
  - eapply IH; eauto.
Qed.
Lemma fparams_ok_length : forall ps sg, fparams_ok ps sg = true -> List.length ps = List.length sg.
Proof.
  induction ps as [|a r IH]; destruct sg as [|s sr]; simpl; intros H; try discriminate; [reflexivity|].
  apply andb_prop in H as [_ H]. f_equal. now apply IH.
Qed.
Lemma fargs_ok_length : forall what G args sg, fargs_ok what G args sg = None -> List.length args = List.length sg.
Proof.
  induction args as [|a r IH]; destruct sg as [|s sr]; simpl; intros H; try discriminate; [reflexivity|].
  break_checks. f_equal. now apply IH.
Qed.

(* A cut of a known constructor against a case continues with the body of the FIRST clause for
   that constructor, its parameters replaced by the arguments, zipped in order; by typing the
   clause exists and has as many parameters as there are arguments. *)
Theorem known_cut_selects_ctor : forall data codata defs G rec E c1 x args t1 ty c2 cls t2 st,
  check_term data codata defs G CPrd ty (FsXtor c1 x args t1) = None ->
  check_term data codata defs G CCns ty (FsXCase c2 cls t2) = None ->
  exists cl,
    find (fun c => cident_eqb (clause_xtor c) x) cls = Some cl /\ clause_xtor cl = x /\
    List.length (clause_ctx cl) = List.length args /\
    shrink_cut rec E (FsXtor c1 x args t1) ty (FsXCase c2 cls t2) st
    = rec (subst_stmt (combine (cids (clause_ctx cl)) (cvars args)) (clause_body cl)) st.
Proof.
  intros data codata defs G rec E c1 x args t1 ty c2 cls t2 st Hp Hk.
  rewrite check_term_xcase_eq in Hk. cbn in Hp. break_checks.
  destruct ty as [|n]; [discriminate|]. refold_find n.
  destruct (find_decl data n) as [d|] eqn:Hd; [|discriminate].
  destruct (find_cxtor d x) as [sg|] eqn:Hx; [|discriminate]. break_checks.
  edestruct clauses_match_find as [cl [Hf [Hn Hps]]]; [eassumption | exact Hx |].
  exists cl. repeat split; auto.
  - rewrite (fparams_ok_length _ _ Hps). symmetry. eapply fargs_ok_length; eauto.
  - simpl. unfold shrink_known_cuts. now rewrite Hf.
Qed.
(* ... and dually a cocase against a known destructor *)
Theorem known_cut_selects_dtor : forall data codata defs G rec E c1 cls t1 ty c2 x args t2 st,
  check_term data codata defs G CPrd ty (FsXCase c1 cls t1) = None ->
  check_term data codata defs G CCns ty (FsXtor c2 x args t2) = None ->
  exists cl,
    find (fun c => cident_eqb (clause_xtor c) x) cls = Some cl /\ clause_xtor cl = x /\
    List.length (clause_ctx cl) = List.length args /\
    shrink_cut rec E (FsXCase c1 cls t1) ty (FsXtor c2 x args t2) st
    = rec (subst_stmt (combine (cids (clause_ctx cl)) (cvars args)) (clause_body cl)) st.
Proof.
  intros data codata defs G rec E c1 cls t1 ty c2 x args t2 st Hp Hk.
  rewrite check_term_xcase_eq in Hp. cbn in Hk. break_checks.
  destruct ty as [|n]; [discriminate|]. refold_find n.
  destruct (find_decl codata n) as [d|] eqn:Hd; [|discriminate].
  destruct (find_cxtor d x) as [sg|] eqn:Hx; [|discriminate]. break_checks.
  edestruct clauses_match_find as [cl [Hf [Hn Hps]]]; [eassumption | exact Hx |].
  exists cl. repeat split; auto.
  - rewrite (fparams_ok_length _ _ Hps). symmetry. eapply fargs_ok_length; eauto.
  - simpl. unfold shrink_known_cuts. now rewrite Hf.
Qed.

(* what the zipped substitution does: the i-th parameter becomes the i-th argument *)
Lemma subst_combine_nth : forall ids args i nm d,
  NoDup ids -> List.length ids = List.length args -> i < List.length ids ->
  subst_ident (combine ids args) (nm, nth i ids 0%N) = nth i args d.
Proof.
  induction ids as [|a r IH]; intros args i nm d Hnd Hlen Hi; simpl in Hi; [lia|].
  destruct args as [|b br]; [discriminate|]. inv Hnd. simpl in Hlen.
  destruct i as [|i]; simpl.
  - unfold cid_id. simpl. now rewrite N.eqb_refl.
  - unfold cid_id. simpl. destruct (N.eqb a (nth i r 0%N)) eqn:He.
    + apply N.eqb_eq in He. exfalso. apply H1. rewrite He. apply nth_In. lia.
    + apply IH; auto; lia.
Qed.

(* ====================================================================================== *)
(* the BTreeSet model: sorted duplicate-free lists                                          *)
(* ====================================================================================== *)
Section SortedSet.
Variable X : Type.
Variable cmp : X -> X -> comparison.
Hypothesis cmp_eq : forall a b, cmp a b = Datatypes.Eq -> a = b.
Hypothesis cmp_refl : forall a, cmp a a = Datatypes.Eq.
Hypothesis cmp_antisym : forall a b, cmp a b = CompOpp (cmp b a).
Hypothesis cmp_trans : forall a b c, cmp a b = Datatypes.Lt -> cmp b c = Datatypes.Lt -> cmp a c = Datatypes.Lt.

Definition lt (a b : X) : Prop := cmp a b = Datatypes.Lt.
Fixpoint ins (b : X) (l : list X) : list X :=
  match l with
  | [] => [b]
  | x :: r => match cmp b x with Datatypes.Lt => b :: l | Datatypes.Eq => l | Datatypes.Gt => x :: ins b r end
  end.
Fixpoint rem (b : X) (l : list X) : list X :=
  match l with
  | [] => []
  | x :: r => match cmp b x with Datatypes.Lt => l | Datatypes.Eq => r | Datatypes.Gt => x :: rem b r end
  end.
(* strictly increasing *)
Inductive ssorted : list X -> Prop :=
| ss_nil : ssorted []
| ss_cons : forall a l, ssorted l -> Forall (lt a) l -> ssorted (a :: l).

Lemma gt_lt : forall a b, cmp a b = Datatypes.Gt -> lt b a.
Proof. intros a b H. unfold lt. rewrite cmp_antisym, H. reflexivity. Qed.
Lemma lt_irrefl : forall a, ~ lt a a.
Proof. intros a H. unfold lt in H. rewrite cmp_refl in H. discriminate. Qed.

Lemma ins_forall : forall a b l, lt a b -> Forall (lt a) l -> Forall (lt a) (ins b l).
Proof.
  induction l as [|x r IH]; intros Hab Hl; simpl; [constructor; auto|].
  inversion Hl; subst. destruct (cmp b x); auto.
Qed.
Lemma ins_sorted : forall b l, ssorted l -> ssorted (ins b l).
Proof.
  induction l as [|x r IH]; intros Hs; simpl.
  - constructor; constructor.
  - inversion Hs; subst. destruct (cmp b x) eqn:Hc.
    + exact Hs.
    + constructor; [exact Hs|]. constructor; [exact Hc|].
      eapply Forall_impl; [|exact H2]. intros y Hy. eapply cmp_trans; eauto.
    + constructor; [apply IH; auto|]. apply ins_forall; auto. now apply gt_lt.
Qed.
Lemma rem_forall : forall a b l, Forall (lt a) l -> Forall (lt a) (rem b l).
Proof.
  induction l as [|x r IH]; intros Hl; simpl; [constructor|].
  inversion Hl; subst. destruct (cmp b x); auto.
Qed.
Lemma rem_sorted : forall b l, ssorted l -> ssorted (rem b l).
Proof.
  induction l as [|x r IH]; intros Hs; simpl; [constructor|].
  inversion Hs; subst. destruct (cmp b x); auto.
  constructor; [apply IH; auto | apply rem_forall; auto].
Qed.
Lemma ssorted_nodup : forall l, ssorted l -> NoDup l.
Proof.
  induction 1; constructor; auto.
  intro Hin. rewrite Forall_forall in H0. apply (lt_irrefl a). now apply H0.
Qed.
End SortedSet.
Arguments ssorted {X} cmp l.

(* ---------- the derived Ord of ContextBinding is a strict total order ---------- *)
Lemma ascii_compare_trans : forall a b c,
  Ascii.compare a b = Datatypes.Lt -> Ascii.compare b c = Datatypes.Lt -> Ascii.compare a c = Datatypes.Lt.
Proof.
  intros a b c. unfold Ascii.compare. rewrite !N.compare_lt_iff. apply N.lt_trans.
Qed.
Lemma ascii_compare_refl : forall a, Ascii.compare a a = Datatypes.Eq.
Proof. intro. unfold Ascii.compare. apply N.compare_refl. Qed.
Lemma string_compare_refl : forall s, String.compare s s = Datatypes.Eq.
Proof. induction s; simpl; [reflexivity|]. now rewrite ascii_compare_refl. Qed.
Lemma string_compare_trans : forall a b c,
  String.compare a b = Datatypes.Lt -> String.compare b c = Datatypes.Lt -> String.compare a c = Datatypes.Lt.
Proof.
  induction a as [|x a IH]; intros [|y b] [|z c] H1 H2; simpl in *; try discriminate; try reflexivity.
  destruct (Ascii.compare x y) eqn:Hxy; try discriminate;
  destruct (Ascii.compare y z) eqn:Hyz; try discriminate.
  - apply Ascii.compare_eq_iff in Hxy, Hyz. subst. rewrite ascii_compare_refl. eapply IH; eauto.
  - apply Ascii.compare_eq_iff in Hxy. subst. now rewrite Hyz.
  - apply Ascii.compare_eq_iff in Hyz. subst. now rewrite Hxy.
  - now rewrite (ascii_compare_trans _ _ _ Hxy Hyz).
Qed.

(* lexicographic combination *)
Section Lex.
Variables (A B : Type) (ca : A -> A -> comparison) (cb : B -> B -> comparison).
Hypothesis a_eq : forall a b, ca a b = Datatypes.Eq -> a = b.
Hypothesis a_refl : forall a, ca a a = Datatypes.Eq.
Hypothesis a_anti : forall a b, ca a b = CompOpp (ca b a).
Hypothesis a_trans : forall a b c, ca a b = Datatypes.Lt -> ca b c = Datatypes.Lt -> ca a c = Datatypes.Lt.
Hypothesis b_eq : forall a b, cb a b = Datatypes.Eq -> a = b.
Hypothesis b_refl : forall a, cb a a = Datatypes.Eq.
Hypothesis b_anti : forall a b, cb a b = CompOpp (cb b a).
Hypothesis b_trans : forall a b c, cb a b = Datatypes.Lt -> cb b c = Datatypes.Lt -> cb a c = Datatypes.Lt.
Definition lex (x y : A * B) : comparison :=
  match ca (fst x) (fst y) with Datatypes.Eq => cb (snd x) (snd y) | c => c end.
Lemma lex_eq : forall x y, lex x y = Datatypes.Eq -> x = y.
Proof.
  intros [a b] [a' b']. unfold lex. simpl. destruct (ca a a') eqn:H; try discriminate.
  intros H2. apply a_eq in H. apply b_eq in H2. now subst.
Qed.
Lemma lex_refl : forall x, lex x x = Datatypes.Eq.
Proof. intros [a b]. unfold lex. simpl. now rewrite a_refl, b_refl. Qed.
Lemma lex_anti : forall x y, lex x y = CompOpp (lex y x).
Proof.
  intros [a b] [a' b']. unfold lex. simpl. rewrite (a_anti a a'). destruct (ca a' a); simpl; auto.
Qed.
Lemma lex_trans : forall x y z, lex x y = Datatypes.Lt -> lex y z = Datatypes.Lt -> lex x z = Datatypes.Lt.
Proof.
  intros [a b] [a' b'] [a'' b'']. unfold lex. simpl.
  destruct (ca a a') eqn:H1; try discriminate; destruct (ca a' a'') eqn:H2; try discriminate; intros H3 H4.
  - apply a_eq in H1, H2. subst. rewrite a_refl. eauto.
  - apply a_eq in H1. subst. now rewrite H2.
  - apply a_eq in H2. subst. now rewrite H1.
  - now rewrite (a_trans _ _ _ H1 H2).
Qed.
End Lex.

Lemma n_compare_trans : forall a b c, N.compare a b = Datatypes.Lt -> N.compare b c = Datatypes.Lt -> N.compare a c = Datatypes.Lt.
Proof. intros a b c. rewrite !N.compare_lt_iff. apply N.lt_trans. Qed.

Lemma cident_compare_lex : forall a b, cident_compare a b = lex _ _ String.compare N.compare a b.
Proof. reflexivity. Qed.
Lemma cident_compare_eq : forall a b, cident_compare a b = Datatypes.Eq -> a = b.
Proof. intros a b. rewrite cident_compare_lex. apply lex_eq; [apply String.compare_eq_iff | apply N.compare_eq]. Qed.
Lemma cident_compare_refl : forall a, cident_compare a a = Datatypes.Eq.
Proof. intros a. rewrite cident_compare_lex. apply lex_refl; [apply string_compare_refl | apply N.compare_refl]. Qed.
Lemma cident_compare_anti : forall a b, cident_compare a b = CompOpp (cident_compare b a).
Proof. intros a b. rewrite !cident_compare_lex. apply lex_anti; [apply String.compare_antisym | intros; apply N.compare_antisym]. Qed.
Lemma cident_compare_trans : forall a b c,
  cident_compare a b = Datatypes.Lt -> cident_compare b c = Datatypes.Lt -> cident_compare a c = Datatypes.Lt.
Proof.
  intros a b c. rewrite !cident_compare_lex.
  apply lex_trans; [apply String.compare_eq_iff | apply string_compare_refl | apply string_compare_trans | apply n_compare_trans].
Qed.

Lemma cchi_compare_eq : forall a b, cchi_compare a b = Datatypes.Eq -> a = b.
Proof. intros [|] [|]; simpl; congruence. Qed.
Lemma cchi_compare_refl : forall a, cchi_compare a a = Datatypes.Eq.
Proof. intros [|]; reflexivity. Qed.
Lemma cchi_compare_anti : forall a b, cchi_compare a b = CompOpp (cchi_compare b a).
Proof. intros [|] [|]; reflexivity. Qed.
Lemma cchi_compare_trans : forall a b c,
  cchi_compare a b = Datatypes.Lt -> cchi_compare b c = Datatypes.Lt -> cchi_compare a c = Datatypes.Lt.
Proof. intros [|] [|] [|]; simpl; congruence. Qed.

Lemma cty_compare_eq : forall a b, cty_compare a b = Datatypes.Eq -> a = b.
Proof. intros [|x] [|y]; simpl; try congruence. intros H. apply cident_compare_eq in H. now subst. Qed.
Lemma cty_compare_refl : forall a, cty_compare a a = Datatypes.Eq.
Proof. intros [|x]; simpl; [reflexivity | apply cident_compare_refl]. Qed.
Lemma cty_compare_anti : forall a b, cty_compare a b = CompOpp (cty_compare b a).
Proof. intros [|x] [|y]; simpl; try reflexivity. apply cident_compare_anti. Qed.
Lemma cty_compare_trans : forall a b c,
  cty_compare a b = Datatypes.Lt -> cty_compare b c = Datatypes.Lt -> cty_compare a c = Datatypes.Lt.
Proof. intros [|x] [|y] [|z]; simpl; try congruence. apply cident_compare_trans. Qed.

Definition cb_tuple (b : cbinding) : cident * (cchi * cty) := (cbvar b, (cbchi b, cbty b)).
Lemma cbinding_compare_lex : forall a b,
  cbinding_compare a b = lex _ _ cident_compare (lex _ _ cchi_compare cty_compare) (cb_tuple a) (cb_tuple b).
Proof. reflexivity. Qed.
Lemma cb_tuple_inj : forall a b, cb_tuple a = cb_tuple b -> a = b.
Proof. intros [v c t] [v' c' t'] H. inversion H. reflexivity. Qed.
Lemma cbinding_compare_eq : forall a b, cbinding_compare a b = Datatypes.Eq -> a = b.
Proof.
  intros a b. rewrite cbinding_compare_lex. intros H. apply cb_tuple_inj. revert H.
  apply lex_eq; [apply cident_compare_eq | apply lex_eq; [apply cchi_compare_eq | apply cty_compare_eq]].
Qed.
Lemma cbinding_compare_refl : forall a, cbinding_compare a a = Datatypes.Eq.
Proof.
  intros a. rewrite cbinding_compare_lex.
  apply lex_refl; [apply cident_compare_refl | apply lex_refl; [apply cchi_compare_refl | apply cty_compare_refl]].
Qed.
Lemma cbinding_compare_anti : forall a b, cbinding_compare a b = CompOpp (cbinding_compare b a).
Proof.
  intros a b. rewrite !cbinding_compare_lex.
  apply lex_anti; [apply cident_compare_anti | apply lex_anti; [apply cchi_compare_anti | apply cty_compare_anti]].
Qed.
Lemma cbinding_compare_trans : forall a b c,
  cbinding_compare a b = Datatypes.Lt -> cbinding_compare b c = Datatypes.Lt -> cbinding_compare a c = Datatypes.Lt.
Proof.
  intros a b c. rewrite !cbinding_compare_lex.
  apply lex_trans; [apply cident_compare_eq | apply cident_compare_refl | apply cident_compare_trans |].
  apply lex_trans; [apply cchi_compare_eq | apply cchi_compare_refl | apply cchi_compare_trans | apply cty_compare_trans].
Qed.

(* bs_insert / bs_remove are the generic operations *)
Lemma bs_insert_ins : forall b l, bs_insert b l = ins _ cbinding_compare b l.
Proof. induction l; simpl; [reflexivity|]. now rewrite IHl. Qed.
Lemma bs_remove_rem : forall b l, bs_remove b l = rem _ cbinding_compare b l.
Proof. induction l; simpl; [reflexivity|]. now rewrite IHl. Qed.
Notation bsorted := (ssorted cbinding_compare).
Lemma bs_insert_sorted : forall b l, bsorted l -> bsorted (bs_insert b l).
Proof.
  intros. rewrite bs_insert_ins. apply ins_sorted; auto; [apply cbinding_compare_anti | apply cbinding_compare_trans].
Qed.
Lemma bs_remove_sorted : forall b l, bsorted l -> bsorted (bs_remove b l).
Proof. intros. rewrite bs_remove_rem. apply rem_sorted; auto. Qed.
Lemma bs_extend_sorted : forall bs l, bsorted l -> bsorted (bs_extend bs l).
Proof. induction bs; simpl; intros; auto. apply IHbs. now apply bs_insert_sorted. Qed.
Lemma bs_remove_all_sorted : forall bs l, bsorted l -> bsorted (bs_remove_all bs l).
Proof. induction bs; simpl; intros; auto. apply IHbs. now apply bs_remove_sorted. Qed.

Lemma tfv_sorted_all :
  (forall t acc, bsorted acc -> bsorted (tfv_term t acc)) /\
  (forall c acc, bsorted acc -> bsorted (tfv_clause c acc)) /\
  (forall s acc, bsorted acc -> bsorted (tfv_stmt s acc)).
Proof.
  apply fs_mutind; intros; simpl; auto using bs_insert_sorted, bs_remove_sorted, bs_extend_sorted, bs_remove_all_sorted.
  - (* XCase *) revert acc H0. induction H as [|cl r Hcl Hr IH]; intros acc Hacc; auto.
  - (* IfC *) apply H0, H. destruct b; auto using bs_insert_sorted.
Qed.
Lemma typed_free_vars_sorted : forall s, bsorted (typed_free_vars s).
Proof. intros. apply tfv_sorted_all. constructor. Qed.
Lemma typed_free_vars_nodup : forall s, NoDup (typed_free_vars s).
Proof.
  intros. eapply ssorted_nodup; [apply cbinding_compare_refl | apply typed_free_vars_sorted].
Qed.

(* ====================================================================================== *)
(* lift_closed                                                                              *)
(* ====================================================================================== *)
(* the parameters `lift` draws for the free variables fvs when max_id = m: same name, chirality and
   type, ids m+1, m+2, ... in order *)
Fixpoint fresh_params (fvs : list cbinding) (m : N) : cctx :=
  match fvs with
  | [] => []
  | b :: r => mkcb (fst (cbvar b), N.succ m) (cbchi b) (cbty b) :: fresh_params r (N.succ m)
  end.
Lemma lift_params_spec : forall fvs st cx sub st1,
  lift_params fvs st = ((cx, sub), st1) ->
  cx = fresh_params fvs (s_max st) /\ sub = combine (cids fvs) (cvars cx) /\
  st1 = mksst (s_max st + N.of_nat (List.length fvs)) (s_lifted st) (s_used st).
Proof.
  induction fvs as [|b r IH]; intros st cx sub st1 H; simpl in H.
  - inversion H; subst. simpl. rewrite N.add_0_r. destruct st1; auto.
  - destruct (lift_params r _) as [[cx' sub'] st2] eqn:Hr. inv H.
    apply IH in Hr as [-> [-> ->]]. cbn [s_max s_lifted fresh_params cids cvars map combine List.length]. repeat split.
    f_equal. rewrite Nat2N.inj_succ. lia.
Qed.
Lemma fresh_params_ids : forall fvs m x, In x (cids (fresh_params fvs m)) -> (m < x <= m + N.of_nat (List.length fvs))%N.
Proof.
  induction fvs as [|b r IH]; intros m x Hin; simpl in Hin; [contradiction|].
  cbn [List.length]. rewrite Nat2N.inj_succ. destruct Hin as [<-|Hin]; [unfold cid_id; simpl; lia|].
  apply IH in Hin. lia.
Qed.
Lemma fresh_params_nodup : forall fvs m, NoDup (cids (fresh_params fvs m)).
Proof.
  induction fvs as [|b r IH]; intros m; simpl; constructor; [|apply IH].
  intros Hin. apply fresh_params_ids in Hin. unfold cid_id in Hin. simpl in Hin. lia.
Qed.
Lemma fresh_params_sig : forall fvs m,
  Forall2 (fun p f => fst (cbvar p) = fst (cbvar f) /\ cbchi p = cbchi f /\ cbty p = cbty f) (fresh_params fvs m) fvs.
Proof. induction fvs; intros; simpl; constructor; auto. Qed.
(* the translated signature only depends on chirality and type *)
Lemma shrink_binding_sig : forall codata p f, cbchi p = cbchi f -> cbty p = cbty f ->
  bchi (shrink_binding codata p) = bchi (shrink_binding codata f) /\
  bty (shrink_binding codata p) = bty (shrink_binding codata f).
Proof.
  intros codata [v c t] [v' c' t'] H1 H2. simpl in *. subst. unfold shrink_binding. simpl.
  destruct (cty_eqb t' CI64); destruct (cchi_eqb c' CCns); simpl; auto;
  destruct (_ || _); auto.
Qed.

(* `lift s`: the free variables fvs of s (in BTreeSet order, duplicate-free) are passed by the call,
   in that order; the new definition, pushed to the front of the lifted definitions, has one fresh
   parameter per free variable, in the same order with the same name, chirality and type (hence the
   same AxCut signature as the call's arguments), pairwise distinct; its body is the shrunk statement
   with each free variable renamed to its parameter; its label `lift_<def>_` carries an id drawn
   after the parameters whose PRINTED form differs from that of every label used so far, and is
   recorded as used. *)
Theorem lift_closed : forall rec E s st r st',
  lift rec E s st = SOk (r, st') ->
  let fvs := typed_free_vars s in
  let params := fresh_params fvs (s_max st) in
  bsorted fvs /\ NoDup fvs /\ NoDup (cids params) /\
  Forall2 (fun p f => fst (cbvar p) = fst (cbvar f) /\ cbchi p = cbchi f /\ cbty p = cbty f) params fvs /\
  exists label body st3,
    fst label = ("lift_" ++ e_label E ++ "_")%string /\
    (s_max st + N.of_nat (List.length fvs) < snd label)%N /\
    existsb (fun u => String.eqb (show_cident u) (show_cident label)) (s_used st) = false /\
    r = Call label (shrink_context (e_codata E) fvs) /\
    rec (subst_stmt (combine (cids fvs) (cvars params)) s)
        (mksst (snd label) (s_lifted st) (label :: s_used st)) = SOk (body, st3) /\
    st' = mksst (s_max st3) (mkd label (shrink_context (e_codata E) params) body :: s_lifted st3) (s_used st3).
Proof.
  intros rec E s st r st' H fvs params. unfold lift in H. fold fvs in H.
  destruct (lift_params fvs st) as [[cx sub] st1] eqn:Hp.
  apply lift_params_spec in Hp as [-> [-> ->]]. fold params in H.
  split; [apply typed_free_vars_sorted|]. split; [apply typed_free_vars_nodup|].
  split; [apply fresh_params_nodup|]. split; [apply fresh_params_sig|].
  destruct (fresh_label _ _ _ _) as [[label st2]|] eqn:Hl; [|discriminate].
  apply fresh_label_spec in Hl as [Hbase [Hid [Hlt [Hlift [Hused Hnew]]]]]. cbn [s_max s_lifted s_used] in *.
  rewrite Hlift, Hused, <- Hid in H.
  destruct (rec _ _) as [[body st3]|] eqn:Hb; [|discriminate]. cbn [sbind] in H. inv H.
  exists label, body, st3. repeat split; auto. now rewrite Hid.
Qed.

(* ====================================================================================== *)
(* shrink_fresh_ids, part 1: max_id grows and bounds every variable id of the output        *)
(* ====================================================================================== *)
Section StmtInd.
Variable P : stmt -> Prop.
Hypothesis HSub : forall re n, P n -> P (Substitute re n).
Hypothesis HCall : forall l a, P (Call l a).
Hypothesis HLet : forall v t tag a n, P n -> P (Let v t tag a n).
Hypothesis HSwitch : forall v t cls, Forall (fun c => P (snd c)) cls -> P (Switch v t cls).
Hypothesis HCreate : forall v t env cls n, Forall (fun c => P (snd c)) cls -> P n -> P (Create v t env cls n).
Hypothesis HInvoke : forall v tag t a, P (Invoke v tag t a).
Hypothesis HLit : forall z v n, P n -> P (Literal z v n).
Hypothesis HOp : forall a o b v n, P n -> P (Op a o b v n).
Hypothesis HPrint : forall nl v n, P n -> P (PrintI64 nl v n).
Hypothesis HIfC : forall so a b t e, P t -> P e -> P (IfC so a b t e).
Hypothesis HExit : forall v, P (Exit v).
Fixpoint stmt_ind' (s : stmt) : P s :=
  let go := fix go (l : list (ident * ctx * stmt)) : Forall (fun c => P (snd c)) l :=
    match l with
    | [] => Forall_nil _
    | c :: r => Forall_cons c (stmt_ind' (snd c)) (go r)
    end in
  match s with
  | Substitute re n => HSub re n (stmt_ind' n)
  | Call l a => HCall l a
  | Let v t tag a n => HLet v t tag a n (stmt_ind' n)
  | Switch v t cls => HSwitch v t cls (go cls)
  | Create v t env cls n => HCreate v t env cls n (go cls) (stmt_ind' n)
  | Invoke v tag t a => HInvoke v tag t a
  | Literal z v n => HLit z v n (stmt_ind' n)
  | Op a o b v n => HOp a o b v n (stmt_ind' n)
  | PrintI64 nl v n => HPrint nl v n (stmt_ind' n)
  | IfC so a b t e => HIfC so a b t e (stmt_ind' t) (stmt_ind' e)
  | Exit v => HExit v
  end.
End StmtInd.

(* every VARIABLE identifier of an AxCut statement (binders and occurrences; not labels, tags, type
   names) has an id <= m *)
Definition v_le (m : N) (x : ident) : bool := N.leb (idn x) m.
Definition actx_le (m : N) (c : ctx) : bool := forallb (fun b => v_le m (bvar b)) c.
Fixpoint ax_le (m : N) (s : stmt) : bool :=
  let cls_le := fix go (l : list (ident * ctx * stmt)) : bool :=
    match l with
    | [] => true
    | c :: r => actx_le m (snd (fst c)) && ax_le m (snd c) && go r
    end in
  match s with
  | Substitute re n => forallb (fun p => v_le m (bvar (fst p)) && v_le m (snd p)) re && ax_le m n
  | Call _ a => actx_le m a
  | Let v _ _ a n => v_le m v && actx_le m a && ax_le m n
  | Switch v _ cls => v_le m v && cls_le cls
  | Create v _ env cls n =>
      v_le m v && match env with Some e => actx_le m e | None => true end && cls_le cls && ax_le m n
  | Invoke v _ _ a => v_le m v && actx_le m a
  | Literal _ v n => v_le m v && ax_le m n
  | Op a _ b v n => v_le m a && v_le m b && v_le m v && ax_le m n
  | PrintI64 _ v n => v_le m v && ax_le m n
  | IfC _ a b t e => v_le m a && match b with Some b' => v_le m b' | None => true end && ax_le m t && ax_le m e
  | Exit v => v_le m v
  end.
Definition cls_le (m : N) (cls : list (ident * ctx * stmt)) : bool :=
  forallb (fun c => actx_le m (snd (fst c)) && ax_le m (snd c)) cls.
Lemma ax_le_switch : forall m v t cls, ax_le m (Switch v t cls) = v_le m v && cls_le m cls.
Proof. intros. reflexivity. Qed.
Lemma ax_le_create : forall m v t env cls n,
  ax_le m (Create v t env cls n) =
  v_le m v && match env with Some e => actx_le m e | None => true end && cls_le m cls && ax_le m n.
Proof. intros. reflexivity. Qed.
Definition def_le (m : N) (d : def) : bool := actx_le m (dctx d) && ax_le m (dbody d).

Lemma v_le_mono : forall m m' x, (m <= m')%N -> v_le m x = true -> v_le m' x = true.
Proof. unfold v_le. intros. apply N.leb_le. apply N.leb_le in H0. lia. Qed.
Lemma actx_le_mono : forall m m' c, (m <= m')%N -> actx_le m c = true -> actx_le m' c = true.
Proof.
  unfold actx_le. intros m m' c Hm H. rewrite forallb_forall in *. intros b Hb. eapply v_le_mono; eauto.
Qed.
Ltac split_and :=
  repeat match goal with
         | H : _ && _ = true |- _ => apply andb_prop in H as [? ?]
         | |- _ && _ = true => apply andb_true_intro; split
         end.
Lemma cls_le_mono : forall m m' cls, (m <= m')%N ->
  Forall (fun c : ident * ctx * stmt => ax_le m (snd c) = true -> ax_le m' (snd c) = true) cls ->
  cls_le m cls = true -> cls_le m' cls = true.
Proof.
  intros m m' cls Hm HF H. unfold cls_le in *. rewrite forallb_forall in *. rewrite Forall_forall in HF.
  intros c Hc. specialize (H c Hc). split_and; eauto using actx_le_mono.
Qed.
Lemma re_le_mono : forall m m' (re : list (binding * ident)), (m <= m')%N ->
  forallb (fun p => v_le m (bvar (fst p)) && v_le m (snd p)) re = true ->
  forallb (fun p => v_le m' (bvar (fst p)) && v_le m' (snd p)) re = true.
Proof.
  intros m m' re Hm H. rewrite forallb_forall in *. intros p Hp. specialize (H p Hp). split_and; eauto using v_le_mono.
Qed.
Lemma ax_le_mono : forall m m', (m <= m')%N -> forall s, ax_le m s = true -> ax_le m' s = true.
Proof.
  intros m m' Hm. apply (stmt_ind' (fun s => ax_le m s = true -> ax_le m' s = true)); intros; rewrite ?ax_le_switch, ?ax_le_create in *.
  - cbn [ax_le] in *. split_and; eauto using re_le_mono.
  - cbn [ax_le] in *. eauto using actx_le_mono.
  - cbn [ax_le] in *. split_and; eauto using v_le_mono, actx_le_mono.
  - split_and; eauto using v_le_mono, cls_le_mono.
  - split_and; eauto using v_le_mono, cls_le_mono. destruct env; eauto using actx_le_mono.
  - cbn [ax_le] in *. split_and; eauto using v_le_mono, actx_le_mono.
  - cbn [ax_le] in *. split_and; eauto using v_le_mono.
  - cbn [ax_le] in *. split_and; eauto using v_le_mono.
  - cbn [ax_le] in *. split_and; eauto using v_le_mono.
  - cbn [ax_le] in *. split_and; eauto using v_le_mono. destruct b; eauto using v_le_mono.
  - cbn [ax_le] in *. eauto using v_le_mono.
Qed.
Lemma def_le_mono : forall m m' d, (m <= m')%N -> def_le m d = true -> def_le m' d = true.
Proof. unfold def_le. intros. split_and; eauto using actx_le_mono, ax_le_mono. Qed.
Lemma defs_le_mono : forall m m' ds, (m <= m')%N -> forallb (def_le m) ds = true -> forallb (def_le m') ds = true.
Proof. intros. rewrite forallb_forall in *. intros d Hd. eapply def_le_mono; eauto. Qed.

(* substitution (AxCut) keeps the bound when the new identifiers obey it *)
Definition asub_le (m : N) (sub : asubst) : Prop := forall o n, In (o, n) sub -> v_le m n = true.
Lemma ax_subst_ident_le : forall m sub x, asub_le m sub -> v_le m x = true -> v_le m (ax_subst_ident sub x) = true.
Proof.
  induction sub as [|[o n] r IH]; intros x Hs Hx; simpl; [exact Hx|].
  destruct (N.eqb o (idn x)); [eapply Hs; now left | apply IH; auto]. intros o' n' Hin. eapply Hs. right. exact Hin.
Qed.
Lemma ax_subst_ctx_le : forall m sub c, asub_le m sub -> actx_le m c = true -> actx_le m (ax_subst_ctx sub c) = true.
Proof.
  intros m sub c Hs H. unfold actx_le, ax_subst_ctx in *. rewrite forallb_forall in *. intros b Hb.
  apply in_map_iff in Hb as [b0 [<- Hb0]]. simpl. apply ax_subst_ident_le; auto.
Qed.
Definition ax_subst_cls (sub : asubst) (cls : list (ident * ctx * stmt)) : list (ident * ctx * stmt) :=
  map (fun c => (fst (fst c), snd (fst c), ax_subst sub (snd c))) cls.
Lemma ax_subst_switch : forall sub v t cls, ax_subst sub (Switch v t cls) = Switch (ax_subst_ident sub v) t (ax_subst_cls sub cls).
Proof.
  intros. simpl. f_equal. induction cls as [|[[x c] b] r IH]; simpl; [reflexivity|]. now rewrite IH.
Qed.
Lemma ax_subst_create : forall sub v t env cls n,
  ax_subst sub (Create v t env cls n) = Create v t (option_map (ax_subst_ctx sub) env) (ax_subst_cls sub cls) (ax_subst sub n).
Proof.
  intros. simpl. f_equal. induction cls as [|[[x c] b] r IH]; simpl; [reflexivity|]. now rewrite IH.
Qed.
Lemma ax_subst_cls_le : forall m sub cls,
  Forall (fun c : ident * ctx * stmt => ax_le m (snd c) = true -> ax_le m (ax_subst sub (snd c)) = true) cls ->
  cls_le m cls = true -> cls_le m (ax_subst_cls sub cls) = true.
Proof.
  intros m sub cls HF H. unfold cls_le, ax_subst_cls in *. rewrite forallb_forall in *. rewrite Forall_forall in HF.
  intros c Hc. apply in_map_iff in Hc as [c0 [<- Hc0]]. simpl. specialize (H c0 Hc0). split_and; auto.
Qed.
Lemma ax_subst_le : forall m sub, asub_le m sub -> forall s, ax_le m s = true -> ax_le m (ax_subst sub s) = true.
Proof.
  intros m sub Hs. apply (stmt_ind' (fun s => ax_le m s = true -> ax_le m (ax_subst sub s) = true)); intros;
    rewrite ?ax_subst_switch, ?ax_subst_create; rewrite ?ax_le_switch, ?ax_le_create in *.
  - cbn [ax_le ax_subst] in *. split_and; auto. rewrite forallb_forall in *. intros p Hp.
    apply in_map_iff in Hp as [p0 [<- Hp0]]. simpl. specialize (H0 p0 Hp0). split_and; auto using ax_subst_ident_le.
  - cbn [ax_le ax_subst] in *. auto using ax_subst_ctx_le.
  - cbn [ax_le ax_subst] in *. split_and; auto using ax_subst_ctx_le.
  - split_and; auto using ax_subst_ident_le, ax_subst_cls_le.
  - split_and; auto using ax_subst_cls_le. destruct env; simpl; auto using ax_subst_ctx_le.
  - cbn [ax_le ax_subst] in *. split_and; auto using ax_subst_ident_le, ax_subst_ctx_le.
  - cbn [ax_le ax_subst] in *. split_and; auto.
  - cbn [ax_le ax_subst] in *. split_and; auto using ax_subst_ident_le.
  - cbn [ax_le ax_subst] in *. split_and; auto using ax_subst_ident_le.
  - cbn [ax_le ax_subst] in *. split_and; auto using ax_subst_ident_le. destruct b; simpl; auto using ax_subst_ident_le.
  - cbn [ax_le ax_subst] in *. auto using ax_subst_ident_le.
Qed.

(* Core side: [ib_stmt m] (every variable id <= m) is monotone in m and stable under substitution *)
Lemma id_le_mono : forall m m' x, (m <= m')%N -> id_le m x = true -> id_le m' x = true.
Proof. unfold id_le. intros. apply N.leb_le. apply N.leb_le in H0. lia. Qed.
Lemma ctx_le_mono : forall m m' c, (m <= m')%N -> ctx_le m c = true -> ctx_le m' c = true.
Proof. unfold ctx_le. intros. rewrite forallb_forall in *. intros b Hb. eapply id_le_mono; eauto. Qed.
Definition ib_clauses (m : N) (cls : list fsclause) : bool :=
  forallb (fun c => ctx_le m (clause_ctx c) && ib_stmt m (clause_body c)) cls.
Lemma ib_term_xcase : forall m c cls t, ib_term m (FsXCase c cls t) = ib_clauses m cls.
Proof.
  intros. unfold ib_clauses. cbn. induction cls as [|[c' x ctx b] r IH]; cbn; [reflexivity|]. now rewrite IH.
Qed.
Definition csub_le (m : N) (sub : csubst) : Prop := forall o n, In (o, n) sub -> id_le m n = true.
Lemma subst_ident_le : forall m sub x, csub_le m sub -> id_le m x = true -> id_le m (subst_ident sub x) = true.
Proof.
  induction sub as [|[o n] r IH]; intros x Hs Hx; simpl; [exact Hx|].
  destruct (N.eqb o (cid_id x)); [eapply Hs; now left | apply IH; auto]. intros o' n' Hin. eapply Hs. right. exact Hin.
Qed.
Lemma subst_ctx_le : forall m sub c, csub_le m sub -> ctx_le m c = true -> ctx_le m (subst_ctx sub c) = true.
Proof.
  intros m sub c Hs H. unfold ctx_le, subst_ctx in *. rewrite forallb_forall in *. intros b Hb.
  apply in_map_iff in Hb as [b0 [<- Hb0]]. simpl. apply subst_ident_le; auto.
Qed.
Lemma ib_all : forall m m' sub, (m <= m')%N -> csub_le m' sub ->
  (forall t, ib_term m t = true -> ib_term m' (subst_term sub t) = true) /\
  (forall c, ctx_le m (clause_ctx c) && ib_stmt m (clause_body c) = true ->
             ctx_le m' (clause_ctx (subst_clause sub c)) && ib_stmt m' (clause_body (subst_clause sub c)) = true) /\
  (forall s, ib_stmt m s = true -> ib_stmt m' (subst_stmt sub s) = true).
Proof.
  intros m m' sub Hm Hs. apply fs_mutind; intros.
  - cbn [ib_term ib_stmt subst_term subst_stmt subst_clause clause_ctx clause_body option_map] in *. apply subst_ident_le; eauto using id_le_mono.
  - reflexivity.
  - cbn [ib_term ib_stmt subst_term subst_stmt subst_clause clause_ctx clause_body option_map] in *. split_and; apply subst_ident_le; eauto using id_le_mono.
  - cbn [ib_term ib_stmt subst_term subst_stmt subst_clause clause_ctx clause_body option_map] in *. split_and; eauto using id_le_mono.
  - cbn [ib_term ib_stmt subst_term subst_stmt subst_clause clause_ctx clause_body option_map] in *. apply subst_ctx_le; eauto using ctx_le_mono.
  - rewrite subst_term_xcase, ib_term_xcase in *. unfold ib_clauses, subst_clauses in *.
    rewrite forallb_forall in *. rewrite Forall_forall in H. intros c0 Hc0.
    apply in_map_iff in Hc0 as [c1 [<- Hc1]]. apply H; auto.
  - cbn [ib_term ib_stmt subst_term subst_stmt subst_clause clause_ctx clause_body option_map] in *. split_and; eauto using ctx_le_mono.
  - cbn [ib_term ib_stmt subst_term subst_stmt subst_clause clause_ctx clause_body option_map] in *. split_and; auto.
  - cbn [ib_term ib_stmt subst_term subst_stmt subst_clause clause_ctx clause_body option_map] in *. split_and; auto; try (apply subst_ident_le; eauto using id_le_mono).
    destruct b; simpl; auto. apply subst_ident_le; eauto using id_le_mono.
  - cbn [ib_term ib_stmt subst_term subst_stmt subst_clause clause_ctx clause_body option_map] in *. split_and; auto. apply subst_ident_le; eauto using id_le_mono.
  - cbn [ib_term ib_stmt subst_term subst_stmt subst_clause clause_ctx clause_body option_map] in *. apply subst_ctx_le; eauto using ctx_le_mono.
  - cbn [ib_term ib_stmt subst_term subst_stmt subst_clause clause_ctx clause_body option_map] in *. apply subst_ident_le; eauto using id_le_mono.
Qed.
Lemma ib_stmt_subst : forall m m' sub s, (m <= m')%N -> csub_le m' sub -> ib_stmt m s = true -> ib_stmt m' (subst_stmt sub s) = true.
Proof. intros. eapply ib_all; eauto. Qed.
Lemma subst_stmt_nil_ident : forall x, subst_ident [] x = x.
Proof. reflexivity. Qed.
Lemma ib_stmt_mono : forall m m' s, (m <= m')%N -> ib_stmt m s = true -> ib_stmt m' s = true.
Proof.
  intros m m' s Hm H.
  assert (Hn : (forall t, subst_term [] t = t) /\ (forall c, subst_clause [] c = c) /\ (forall s, subst_stmt [] s = s)).
  { apply fs_mutind; intros; simpl; try congruence.
    - f_equal. unfold subst_ctx. rewrite <- (map_id args) at 2. apply map_ext. intros [v c0 t0]; reflexivity.
    - f_equal. induction H0 as [|y r Hy Hr IH]; [reflexivity|]. now rewrite Hy, IH.
    - destruct b; simpl; congruence.
    - f_equal. unfold subst_ctx. rewrite <- (map_id args) at 2. apply map_ext. intros [v c0 t0]; reflexivity. }
  destruct Hn as [_ [_ Hn]]. rewrite <- (Hn s). eapply ib_stmt_subst; eauto. intros o n [].
Qed.

Lemma shrink_binding_var : forall codata b, bvar (shrink_binding codata b) = cbvar b.
Proof.
  intros codata [v c t]. unfold shrink_binding. simpl.
  destruct (cty_eqb t CI64); destruct (cchi_eqb c CCns); simpl; auto; destruct (_ || _); auto.
Qed.
Lemma shrink_context_le : forall m codata c, ctx_le m c = true -> actx_le m (shrink_context codata c) = true.
Proof.
  intros m codata c H. unfold ctx_le, actx_le, shrink_context in *. rewrite forallb_forall in *.
  intros b Hb. apply in_map_iff in Hb as [b0 [<- Hb0]]. rewrite shrink_binding_var. apply (H b0 Hb0).
Qed.
Lemma fresh_env_spec : forall bs st env st1, fresh_env bs st = (env, st1) ->
  (s_max st <= s_max st1)%N /\ s_lifted st1 = s_lifted st /\ actx_le (s_max st1) env = true.
Proof.
  induction bs as [|b r IH]; intros st env st1 H; simpl in H.
  - inv H. repeat split; auto. lia.
  - destruct (fresh_env r _) as [r' st2] eqn:Hr. inv H. apply IH in Hr as [Hm [Hl Hle]]. simpl in *.
    repeat split; auto; [lia|]. split_and; auto. unfold v_le. simpl. apply N.leb_le. lia.
Qed.

Lemma unknown_clauses_spec : forall codata ve tty xs st cls st',
  unknown_clauses codata ve tty xs st = (cls, st') -> v_le (s_max st) ve = true ->
  (s_max st <= s_max st')%N /\ s_lifted st' = s_lifted st /\ cls_le (s_max st') cls = true.
Proof.
  induction xs as [|[xt args] r IH]; intros st cls st' H Hv; simpl in H.
  - inv H. repeat split; auto. lia.
  - destruct (fresh_env _ st) as [env st1] eqn:He. destruct (unknown_clauses _ _ _ r st1) as [r' st2] eqn:Hr. inv H.
    apply fresh_env_spec in He as [Hm1 [Hl1 Hle1]].
    apply IH in Hr as [Hm2 [Hl2 Hle2]]; [|eapply v_le_mono; eauto].
    repeat split; [lia | congruence |]. unfold cls_le in *. simpl. split_and; auto.
    + eapply actx_le_mono; eauto.
    + eapply v_le_mono; [|exact Hv]. lia.
    + eapply actx_le_mono; eauto.
Qed.

Lemma critical_clauses_spec : forall codata ve tty se xs st cls st',
  critical_clauses codata ve tty se xs st = (cls, st') -> ax_le (s_max st) se = true ->
  (s_max st <= s_max st')%N /\ s_lifted st' = s_lifted st /\ cls_le (s_max st') cls = true.
Proof.
  induction xs as [|[xt args] r IH]; intros st cls st' H Hse; simpl in H.
  - inv H. repeat split; auto. lia.
  - destruct (fresh_env _ st) as [env sta] eqn:He.
    destruct (critical_clauses _ _ _ _ r _) as [r' stc] eqn:Hr. inv H.
    apply fresh_env_spec in He as [Hm1 [Hl1 Hle1]].
    apply IH in Hr as [Hm2 [Hl2 Hle2]]; [|eapply ax_le_mono; [|exact Hse]; simpl; lia].
    simpl in *. repeat split; [lia | congruence |]. unfold cls_le in *. simpl. split_and; auto.
    + apply actx_le_mono with (m := s_max sta); [lia | exact Hle1].
    + unfold v_le. simpl. apply N.leb_le. lia.
    + apply actx_le_mono with (m := s_max sta); [lia | exact Hle1].
    + apply ax_subst_le.
      * intros o n [Heq|[]]. inv Heq. unfold v_le. simpl. apply N.leb_le. lia.
      * eapply ax_le_mono; [|exact Hse]. lia.
Qed.

Definition ids_pre (st : sst) (s : fsstmt) : Prop :=
  ib_stmt (s_max st) s = true /\ forallb (def_le (s_max st)) (s_lifted st) = true.
Definition ids_post (st : sst) (r : stmt) (st' : sst) : Prop :=
  (s_max st <= s_max st')%N /\ ax_le (s_max st') r = true /\ forallb (def_le (s_max st')) (s_lifted st') = true.

Lemma ids_pre_weaken : forall st st0 s r0,
  ids_post st0 r0 st -> ib_stmt (s_max st0) s = true -> ids_pre st s.
Proof. intros st st0 s r0 [Hm [_ Hl]] Hs. split; [eapply ib_stmt_mono; eauto | exact Hl]. Qed.

Section IdsStep.
Variable rec : fsstmt -> sst -> shres (stmt * sst).
Variable E : senv.
Hypothesis Hrec : forall s st r st', rec s st = SOk (r, st') -> ids_pre st s -> ids_post st r st'.

Lemma shrink_clauses_ids : forall cls st r st',
  shrink_clauses rec E cls st = SOk (r, st') ->
  ib_clauses (s_max st) cls = true -> forallb (def_le (s_max st)) (s_lifted st) = true ->
  (s_max st <= s_max st')%N /\ cls_le (s_max st') r = true /\ forallb (def_le (s_max st')) (s_lifted st') = true.
Proof.
  induction cls as [|[c x ctx b] rr IH]; intros st r st' H Hib Hl; simpl in H.
  - inv H. repeat split; auto. lia.
  - destruct (rec b st) as [[b' st1]|] eqn:Hb; [|discriminate]. cbn [sbind] in H.
    destruct (shrink_clauses rec E rr st1) as [[r' st2]|] eqn:Hr; [|discriminate]. cbn [sbind] in H. inv H.
    unfold ib_clauses in Hib. simpl in Hib. split_and.
    apply Hrec in Hb as [Hm1 [Hle1 Hl1]]; [|split; auto].
    apply IH in Hr as [Hm2 [Hle2 Hl2]]; auto.
    + repeat split; [lia | | auto]. unfold cls_le in *. simpl. split_and; auto.
      * apply shrink_context_le. eapply ctx_le_mono; [|eauto]. lia.
      * eapply ax_le_mono; eauto.
    + unfold ib_clauses. rewrite forallb_forall in *. intros c0 Hc0. specialize (H0 c0 Hc0). split_and.
      * eapply ctx_le_mono; eauto.
      * eapply ib_stmt_mono; eauto.
Qed.

Lemma fresh_params_le : forall fvs m, ctx_le (m + N.of_nat (List.length fvs)) (fresh_params fvs m) = true.
Proof.
  intros fvs m. unfold ctx_le. rewrite forallb_forall. intros b Hb.
  assert (Hin : In (cid_id (cbvar b)) (cids (fresh_params fvs m))) by (unfold cids; now apply in_map with (f := fun b => cid_id (cbvar b))).
  apply fresh_params_ids in Hin. unfold id_le. apply N.leb_le. lia.
Qed.
Lemma combine_sub_le : forall m ids (xs : list cident),
  forallb (id_le m) xs = true -> csub_le m (combine ids xs).
Proof.
  intros m ids xs H o n Hin. apply in_combine_r in Hin. rewrite forallb_forall in H. now apply H.
Qed.
Lemma ctx_le_vars : forall m c, ctx_le m c = true -> forallb (id_le m) (cvars c) = true.
Proof. intros. unfold ctx_le, cvars in *. rewrite forallb_forall in *. intros x Hx. apply in_map_iff in Hx as [b [<- Hb]]. now apply H. Qed.

(* the free variables of a statement are among its variables *)
Lemma bs_insert_in : forall b x l, In x (bs_insert b l) -> x = b \/ In x l.
Proof.
  induction l as [|y r IH]; simpl; intros H.
  - destruct H as [<-|[]]; auto.
  - destruct (cbinding_compare b y); simpl in H; auto.
    + destruct H as [<-|H]; auto.
    + destruct H as [<-|H]; auto. apply IH in H as [->|H]; auto.
Qed.
Lemma bs_remove_in : forall b x l, In x (bs_remove b l) -> In x l.
Proof.
  induction l as [|y r IH]; simpl; intros H; auto.
  destruct (cbinding_compare b y); simpl in *; auto. destruct H; auto.
Qed.
Lemma bs_extend_in : forall bs x l, In x (bs_extend bs l) -> In x bs \/ In x l.
Proof.
  induction bs as [|b r IH]; simpl; intros x l H; auto.
  apply IH in H as [H|H]; auto. apply bs_insert_in in H as [->|H]; auto.
Qed.
Lemma bs_remove_all_in : forall bs x l, In x (bs_remove_all bs l) -> In x l.
Proof. induction bs as [|b r IH]; simpl; intros x l H; auto. apply IH in H. eapply bs_remove_in; eauto. Qed.
Definition bset_le (m : N) (l : bset) : Prop := forall b, In b l -> id_le m (cbvar b) = true.
Lemma tfv_le_all : forall m,
  (forall t acc, ib_term m t = true -> bset_le m acc -> bset_le m (tfv_term t acc)) /\
  (forall c acc, ctx_le m (clause_ctx c) && ib_stmt m (clause_body c) = true -> bset_le m acc -> bset_le m (tfv_clause c acc)) /\
  (forall s acc, ib_stmt m s = true -> bset_le m acc -> bset_le m (tfv_stmt s acc)).
Proof.
  intros m. apply fs_mutind; intros; rewrite ?ib_term_xcase in *;
    cbn [ib_term ib_stmt tfv_term tfv_stmt tfv_clause clause_ctx clause_body] in *; split_and.
  - intros z Hz. apply bs_insert_in in Hz as [->|Hz]; auto.
  - auto.
  - intros z Hz. apply bs_insert_in in Hz as [->|Hz]; auto. apply bs_insert_in in Hz as [->|Hz]; auto.
  - intros z Hz. apply bs_remove_in in Hz. eapply H; eauto.
  - intros z Hz. apply bs_extend_in in Hz as [Hz|Hz]; auto. unfold ctx_le in H. rewrite forallb_forall in H. auto.
  - unfold ib_clauses in H0. revert acc H1. induction H as [|cl r Hcl Hr IH]; intros acc Hacc; auto.
    simpl in H0. split_and. apply IH; auto. apply Hcl; auto. split_and; auto.
  - intros z Hz. apply bs_remove_all_in in Hz. eapply H; eauto.
  - apply H0; auto.
  - apply H0; auto. apply H; auto.
    assert (Ha : bset_le m (bs_insert (i64_prd a) acc)).
    { intros z Hz. apply bs_insert_in in Hz as [->|Hz]; auto. }
    destruct b; auto. intros z Hz. apply bs_insert_in in Hz as [->|Hz]; auto.
  - apply H; auto. intros z Hz. apply bs_insert_in in Hz as [->|Hz]; auto.
  - intros z Hz. apply bs_extend_in in Hz as [Hz|Hz]; auto. unfold ctx_le in H. rewrite forallb_forall in H. auto.
  - intros z Hz. apply bs_insert_in in Hz as [->|Hz]; auto.
Qed.
Lemma typed_free_vars_le : forall m s, ib_stmt m s = true -> ctx_le m (typed_free_vars s) = true.
Proof.
  intros m s H. unfold ctx_le. rewrite forallb_forall. intros b Hb.
  eapply (proj2 (proj2 (tfv_le_all m))); eauto. intros x [].
Qed.

Lemma lift_ids : forall s st r st', lift rec E s st = SOk (r, st') -> ids_pre st s -> ids_post st r st'.
Proof.
  intros s st r st' H [Hib Hl]. apply lift_closed in H.
  destruct H as [_ [_ [_ [_ [label [body [st3 [_ [Hlab [_ [-> [Hb ->]]]]]]]]]]]].
  set (fvs := typed_free_vars s) in *. set (m1 := snd label) in *.
  assert (Hp : ctx_le m1 (fresh_params fvs (s_max st)) = true).
  { eapply ctx_le_mono; [|apply fresh_params_le]. unfold m1. lia. }
  apply Hrec in Hb as [Hm [Hle Hl3]].
  - unfold ids_post. cbn [s_max s_lifted] in *. repeat split.
    + unfold m1 in Hm. lia.
    + cbn [ax_le]. apply shrink_context_le. eapply ctx_le_mono; [|apply typed_free_vars_le; exact Hib]. unfold m1 in Hm. lia.
    + cbn [forallb]. split_and; auto. unfold def_le. cbn [dctx dbody]. split_and; auto.
      apply shrink_context_le. eapply ctx_le_mono; eauto.
  - unfold ids_pre. split; cbn [s_max s_lifted].
    + eapply ib_stmt_subst; [|apply combine_sub_le; apply ctx_le_vars; exact Hp|exact Hib]. unfold m1. lia.
    + eapply defs_le_mono; [|exact Hl]. unfold m1. lia.
Qed.
End IdsStep.

Lemma ib_stmt_cut : forall m p ty k, ib_stmt m (FsCut p ty k) = ib_term m p && ib_term m k.
Proof. reflexivity. Qed.
Lemma ib_stmt_ifc : forall m so a b t e, ib_stmt m (FsIfC so a b t e) =
  id_le m a && match b with Some b' => id_le m b' | None => true end && ib_stmt m t && ib_stmt m e.
Proof. reflexivity. Qed.
Lemma ib_stmt_print : forall m nl a n, ib_stmt m (FsPrint nl a n) = id_le m a && ib_stmt m n.
Proof. reflexivity. Qed.
Lemma ib_term_mu : forall m c v s t, ib_term m (FsMu c v s t) = id_le m v && ib_stmt m s.
Proof. reflexivity. Qed.
Lemma ib_term_xvar : forall m c v t, ib_term m (FsXVar c v t) = id_le m v.
Proof. reflexivity. Qed.
Lemma ib_term_op : forall m a o b, ib_term m (FsOp a o b) = id_le m a && id_le m b.
Proof. reflexivity. Qed.
Lemma ib_term_xtor : forall m c x args t, ib_term m (FsXtor c x args t) = ctx_le m args.
Proof. reflexivity. Qed.

Section IdsStep2.
Variable rec : fsstmt -> sst -> shres (stmt * sst).
Variable E : senv.
Hypothesis Hrec : forall s st r st', rec s st = SOk (r, st') -> ids_pre st s -> ids_post st r st'.

Lemma v_le_id_le : forall m x, id_le m x = true -> v_le m x = true.
Proof. intros. exact H. Qed.

Lemma critical_ids : forall vp sp vc sc ty st r st',
  shrink_critical_pairs rec E vp sp vc sc ty st = SOk (r, st') ->
  id_le (s_max st) vp = true -> id_le (s_max st) vc = true ->
  ib_stmt (s_max st) sp = true -> ib_stmt (s_max st) sc = true ->
  forallb (def_le (s_max st)) (s_lifted st) = true -> ids_post st r st'.
Proof.
  intros vp sp vc sc ty st r st' H Hvp Hvc Hsp Hsc Hl. unfold shrink_critical_pairs in H. destruct ty as [|n].
  - destruct (rec sc st) as [[body st1]|] eqn:H1; [|discriminate]. cbn [sbind] in H.
    destruct (rec sp st1) as [[next st2]|] eqn:H2; [|discriminate]. cbn [sbind] in H. inv H.
    apply Hrec in H1 as [Hm1 [Hle1 Hl1]]; [|split; auto].
    apply Hrec in H2 as [Hm2 [Hle2 Hl2]]; [|split; auto; eapply ib_stmt_mono; eauto].
    unfold ids_post. repeat split; [lia | | auto].
    rewrite ax_le_create. unfold cls_le. cbn [forallb actx_le fst snd bvar]. split_and; auto.
    + eapply v_le_mono; [|exact Hvp]. lia.
    + eapply v_le_mono; [|exact Hvc]. lia.
    + eapply ax_le_mono; eauto.
  - destruct (xtors_of E (CDecl n) n) as [xs|]; [|discriminate]. cbn [sbind] in H.
    (* both orientations are the same argument: (keep, expand) *)
    assert (Hgen : forall vk sk ve se,
      id_le (s_max st) vk = true -> id_le (s_max st) ve = true ->
      ib_stmt (s_max st) sk = true -> ib_stmt (s_max st) se = true ->
      (dos (shrunk, st1) <- (if Nat.leb (List.length xs) 1 || is_leaf_statement se then rec se st else lift rec E se st);
       let '(clauses, st2) := critical_clauses (e_codata E) ve (shrink_ty (CDecl n)) shrunk xs st1 in
       dos (next, st3) <- rec sk st2;
       SOk (Create (shrink_identifier vk) (Decl (shrink_identifier n)) None clauses next, st3)) = SOk (r, st') ->
      ids_post st r st').
    { intros vk sk ve se Hvk Hve Hsk Hse H0.
      destruct (if _ || _ then _ else _) as [[shrunk st1]|] eqn:He; [|discriminate]. cbn [sbind] in H0.
      destruct (critical_clauses _ _ _ _ _ _) as [cls st2] eqn:Hc.
      destruct (rec sk st2) as [[next st3]|] eqn:Hk; [|discriminate]. cbn [sbind] in H0. inv H0.
      assert (Hpost1 : ids_post st shrunk st1).
      { destruct (_ || _); [eapply Hrec; [exact He|] | eapply lift_ids; [exact Hrec | exact He |]]; split; auto. }
      destruct Hpost1 as [Hm1 [Hle1 Hl1]].
      apply critical_clauses_spec in Hc as [Hm2 [Hl2 Hle2]]; auto.
      apply Hrec in Hk as [Hm3 [Hle3 Hl3]].
      - unfold ids_post. repeat split; [lia | | auto]. rewrite ax_le_create. split_and; auto.
        + eapply v_le_mono; [|exact Hvk]. lia.
        + unfold cls_le in *. rewrite forallb_forall in *. intros c Hc. specialize (Hle2 c Hc). split_and.
          * eapply actx_le_mono; eauto.
          * eapply ax_le_mono; eauto.
      - split; [eapply ib_stmt_mono; [|exact Hsk]; lia|]. rewrite Hl2. eapply defs_le_mono; eauto. }
    destruct (is_codata (e_codata E) (CDecl n)); cbv beta iota in H;
      [apply (Hgen vc sc vp sp) | apply (Hgen vp sp vc sc)]; auto.
Qed.

Lemma unknown_ids : forall vp vc ty st r st',
  shrink_unknown_cuts E vp vc ty st = SOk (r, st') ->
  id_le (s_max st) vp = true -> id_le (s_max st) vc = true ->
  forallb (def_le (s_max st)) (s_lifted st) = true -> ids_post st r st'.
Proof.
  intros vp vc ty st r st' H Hvp Hvc Hl. unfold shrink_unknown_cuts in H. destruct ty as [|n].
  - inv H. unfold ids_post, invoke_ret. cbn [ax_le actx_le forallb bvar]. repeat split; auto; [lia|]. split_and; auto.
  - destruct (xtors_of E (CDecl n) n) as [xs|]; [|discriminate]. cbn [sbind] in H.
    destruct (is_codata (e_codata E) (CDecl n)); cbv beta iota in H;
      destruct (unknown_clauses _ _ _ _ _) as [cls st1] eqn:Hc; inv H;
      apply unknown_clauses_spec in Hc as [Hm [Hl1 Hle]]; auto;
      (unfold ids_post; repeat split; [lia | | rewrite Hl1; eapply defs_le_mono; eauto]);
      rewrite ax_le_switch; split_and; auto; eapply v_le_mono; eauto.
Qed.

Lemma known_ids : forall x args cls st r st',
  shrink_known_cuts rec x args cls st = SOk (r, st') ->
  forallb (id_le (s_max st)) args = true -> ib_clauses (s_max st) cls = true ->
  forallb (def_le (s_max st)) (s_lifted st) = true -> ids_post st r st'.
Proof.
  intros x args cls st r st' H Ha Hc Hl. unfold shrink_known_cuts in H.
  destruct (find _ cls) as [cl|] eqn:Hf; [|discriminate]. apply find_some in Hf as [Hin _].
  unfold ib_clauses in Hc. rewrite forallb_forall in Hc. specialize (Hc cl Hin). split_and.
  apply Hrec in H; auto. split; auto.
  eapply ib_stmt_subst; [apply N.le_refl | apply combine_sub_le; exact Ha | auto].
Qed.

Lemma shrink_step_ids : forall s st r st', shrink_step rec E s st = SOk (r, st') -> ids_pre st s -> ids_post st r st'.
Proof.
  intros s st r st' H [Hib Hl]. destruct s as [p ty k|so a b t e|nl a nx|f args|v].
  - (* cut *)
    cbn [shrink_step] in H. unfold shrink_cut in H. rewrite ib_stmt_cut in Hib. apply andb_prop in Hib as [Hp Hk].
    destruct p as [c1 v1 t1|l1|a1 o1 b1|c1 v1 s1 t1|c1 x1 args1 t1|c1 cls1 t1];
    destruct k as [c2 v2 t2|l2|a2 o2 b2|c2 v2 s2 t2|c2 x2 args2 t2|c2 cls2 t2];
      try discriminate H; rewrite ?ib_term_xcase, ?ib_term_mu, ?ib_term_xvar, ?ib_term_op, ?ib_term_xtor in *; split_and.
    + (* XVar, XVar *) eapply unknown_ids; eauto.
    + (* XVar, Mu *) unfold shrink_renaming in H. apply Hrec in H; auto. split; auto.
      eapply ib_stmt_subst; [apply N.le_refl | | eauto]. intros o n [Heq|[]]. now inv Heq.
    + (* XVar, Xtor *) inv H. unfold ids_post. cbn [ax_le]. repeat split; auto; [lia|]. split_and; auto using shrink_context_le.
    + (* XVar, XCase *)
      destruct (shrink_clauses rec E cls2 st) as [[cls' st1]|] eqn:Hc; [|discriminate]. cbn [sbind] in H. inv H.
      eapply shrink_clauses_ids in Hc as [Hm [Hle Hl1]]; eauto.
      unfold ids_post. rewrite ax_le_switch. repeat split; auto. split_and; auto. eapply v_le_mono; eauto.
    + (* Lit, XVar *) unfold fresh_var, fresh_identifier in H. inv H. unfold ids_post, invoke_ret. cbn [s_max s_lifted ax_le actx_le forallb bvar].
      repeat split; [lia | | eapply defs_le_mono; [|eauto]; lia].
      split_and; auto; try (unfold v_le; simpl; apply N.leb_le; lia). eapply v_le_mono; [|exact Hk]. lia.
    + (* Lit, Mu *)
      destruct (rec s2 st) as [[nx st1]|] eqn:Hr; [|discriminate]. cbn [sbind] in H. inv H.
      apply Hrec in Hr as [Hm [Hle Hl1]]; [|split; auto]. unfold ids_post. cbn [ax_le]. repeat split; auto. split_and; auto. eapply v_le_mono; eauto.
    + (* Op, XVar *) unfold fresh_var, fresh_identifier in H. inv H. unfold ids_post, invoke_ret. cbn [s_max s_lifted ax_le actx_le forallb bvar].
      repeat split; [lia | | eapply defs_le_mono; [|eauto]; lia].
      split_and; auto; try (unfold v_le; simpl; apply N.leb_le; lia); (eapply v_le_mono; [|eassumption]; lia).
    + (* Op, Mu *)
      destruct (rec s2 st) as [[nx st1]|] eqn:Hr; [|discriminate]. cbn [sbind] in H. inv H.
      apply Hrec in Hr as [Hm [Hle Hl1]]; [|split; auto]. unfold ids_post. cbn [ax_le]. repeat split; auto.
      split_and; auto; eapply v_le_mono; eauto.
    + (* Mu, XVar *) unfold shrink_renaming in H. apply Hrec in H; auto. split; auto.
      eapply ib_stmt_subst; [apply N.le_refl | | eauto]. intros o n [Heq|[]]. now inv Heq.
    + (* Mu, Mu *) eapply critical_ids; eauto.
    + (* Mu, Xtor *)
      destruct (rec s1 st) as [[nx st1]|] eqn:Hr; [|discriminate]. cbn [sbind] in H. inv H.
      apply Hrec in Hr as [Hm [Hle Hl1]]; [|split; auto]. unfold ids_post. cbn [ax_le]. repeat split; auto.
      split_and; auto; [eapply v_le_mono; eauto | apply shrink_context_le; eapply ctx_le_mono; eauto].
    + (* Mu, XCase *)
      destruct (shrink_clauses rec E cls2 st) as [[cls' st1]|] eqn:Hc; [|discriminate]. cbn [sbind] in H.
      destruct (rec s1 st1) as [[nx st2]|] eqn:Hr; [|discriminate]. cbn [sbind] in H. inv H.
      eapply shrink_clauses_ids in Hc as [Hm1 [Hle1 Hl1]]; eauto.
      apply Hrec in Hr as [Hm2 [Hle2 Hl2]]; [|split; auto; eapply ib_stmt_mono; eauto].
      unfold ids_post. rewrite ax_le_create. repeat split; auto; [lia|]. split_and; auto.
      * eapply v_le_mono; [|eassumption]. lia.
      * unfold cls_le in *. rewrite forallb_forall in *. intros c Hc. specialize (Hle1 c Hc). split_and;
          [eapply actx_le_mono; eauto | eapply ax_le_mono; eauto].
    + (* Xtor, XVar *) inv H. unfold ids_post. cbn [ax_le]. repeat split; auto; [lia|]. split_and; auto using shrink_context_le.
    + (* Xtor, Mu *)
      destruct (rec s2 st) as [[nx st1]|] eqn:Hr; [|discriminate]. cbn [sbind] in H. inv H.
      apply Hrec in Hr as [Hm [Hle Hl1]]; [|split; auto]. unfold ids_post. cbn [ax_le]. repeat split; auto.
      split_and; auto; [eapply v_le_mono; eauto | apply shrink_context_le; eapply ctx_le_mono; eauto].
    + (* Xtor, XCase *) eapply known_ids; eauto. now apply ctx_le_vars.
    + (* XCase, XVar *)
      destruct (shrink_clauses rec E cls1 st) as [[cls' st1]|] eqn:Hc; [|discriminate]. cbn [sbind] in H. inv H.
      eapply shrink_clauses_ids in Hc as [Hm [Hle Hl1]]; eauto.
      unfold ids_post. rewrite ax_le_switch. repeat split; auto. split_and; auto. eapply v_le_mono; eauto.
    + (* XCase, Mu *)
      destruct (shrink_clauses rec E cls1 st) as [[cls' st1]|] eqn:Hc; [|discriminate]. cbn [sbind] in H.
      destruct (rec s2 st1) as [[nx st2]|] eqn:Hr; [|discriminate]. cbn [sbind] in H. inv H.
      eapply shrink_clauses_ids in Hc as [Hm1 [Hle1 Hl1]]; eauto.
      apply Hrec in Hr as [Hm2 [Hle2 Hl2]]; [|split; auto; eapply ib_stmt_mono; eauto].
      unfold ids_post. rewrite ax_le_create. repeat split; auto; [lia|]. split_and; auto.
      * eapply v_le_mono; [|eassumption]. lia.
      * unfold cls_le in *. rewrite forallb_forall in *. intros c Hc. specialize (Hle1 c Hc). split_and;
          [eapply actx_le_mono; eauto | eapply ax_le_mono; eauto].
    + (* XCase, Xtor *) eapply known_ids; eauto. now apply ctx_le_vars.
  - cbn [shrink_step] in H. rewrite ib_stmt_ifc in Hib. split_and.
    destruct (rec t st) as [[t' st1]|] eqn:Hr1; [|discriminate]. cbn [sbind] in H.
    destruct (rec e st1) as [[e' st2]|] eqn:Hr2; [|discriminate]. cbn [sbind] in H. inv H.
    apply Hrec in Hr1 as [Hm1 [Hle1 Hl1]]; [|split; auto].
    apply Hrec in Hr2 as [Hm2 [Hle2 Hl2]]; [|split; auto; eapply ib_stmt_mono; eauto].
    unfold ids_post. cbn [ax_le]. repeat split; auto; [lia|]. split_and; auto.
    + eapply v_le_mono; [|eassumption]. lia.
    + destruct b; simpl; auto. eapply v_le_mono; [|eassumption]. lia.
    + eapply ax_le_mono; eauto.
  - cbn [shrink_step] in H. rewrite ib_stmt_print in Hib. split_and.
    destruct (rec nx st) as [[t' st1]|] eqn:Hr1; [|discriminate]. cbn [sbind] in H. inv H.
    apply Hrec in Hr1 as [Hm1 [Hle1 Hl1]]; [|split; auto].
    unfold ids_post. cbn [ax_le]. repeat split; auto. split_and; auto. eapply v_le_mono; eauto.
  - cbn [shrink_step] in H. inv H. unfold ids_post. cbn [ax_le]. repeat split; auto; [lia|]. now apply shrink_context_le.
  - cbn [shrink_step] in H. inv H. unfold ids_post. cbn [ax_le]. repeat split; auto. lia.
Qed.
End IdsStep2.

Lemma shrink_stmt_ids : forall E fuel s st r st',
  shrink_stmt fuel E s st = SOk (r, st') -> ids_pre st s -> ids_post st r st'.
Proof.
  intros E fuel. induction fuel as [|fuel IH]; intros s st r st' H Hpre; [discriminate|].
  simpl in H. eapply shrink_step_ids; eauto.
Qed.

Lemma shrink_def_ids : forall d data codata used m ds used' m',
  shrink_def d data codata used m = SOk (ds, used', m') ->
  ctx_le m (fsdctx d) = true -> ib_stmt m (fsdbody d) = true ->
  (m <= m')%N /\ forallb (def_le m') ds = true.
Proof.
  intros d data codata used m ds used' m' H Hc Hb. unfold shrink_def in H.
  destruct (shrink_stmt _ _ _ _) as [[body st]|] eqn:Hs; [|discriminate]. cbn [sbind] in H. inv H.
  apply shrink_stmt_ids in Hs as [Hm [Hle Hl]]; [|split; auto]. cbn [s_max] in *.
  split; auto. cbn [forallb]. split_and; auto. unfold def_le. cbn [dctx dbody]. split_and; auto.
  apply shrink_context_le. eapply ctx_le_mono; eauto.
Qed.

Lemma shrink_defs_ids : forall ds data codata used m acc out m',
  shrink_defs ds data codata used m acc = SOk (out, m') ->
  forallb (fun d => ctx_le m (fsdctx d) && ib_stmt m (fsdbody d)) ds = true ->
  forallb (def_le m) acc = true ->
  (m <= m')%N /\ forallb (def_le m') out = true.
Proof.
  induction ds as [|d r IH]; intros data codata used m acc out m' H Hds Hacc; simpl in H.
  - inv H. split; [lia|]. unfold frev. rewrite rev_append_rev, app_nil_r. rewrite forallb_forall in *.
    intros x Hx. apply Hacc. now apply in_rev.
  - destruct (shrink_def d data codata used m) as [[[o u1] m1]|] eqn:Hd; [|discriminate]. cbn [sbind] in H.
    simpl in Hds. split_and. apply shrink_def_ids in Hd as [Hm1 Ho]; auto.
    apply IH in H as [Hm2 Hout].
    + split; [lia | exact Hout].
    + rewrite forallb_forall in *. intros x Hx. specialize (H1 x Hx). split_and; [eapply ctx_le_mono | eapply ib_stmt_mono]; eauto.
    + rewrite rev_append_rev. rewrite forallb_app. split_and.
      * rewrite forallb_forall in *. intros x Hx. apply Ho. now apply in_rev.
      * eapply defs_le_mono; eauto.
Qed.

(* The output's max_id is at least the input's and bounds the id of every variable (binder or
   occurrence, in definitions and lifted definitions, parameters included) of the output. *)
Theorem shrink_ids_bounded : forall p q,
  ids_bounded p = true -> shrink_prog p = SOk q ->
  (fspmax p <= pmax q)%N /\ forallb (def_le (pmax q)) (pdefs q) = true.
Proof.
  intros p q Hb H. unfold shrink_prog in H. destruct (_ || _); [discriminate|].
  destruct (shrink_defs _ _ _ _ _ _) as [[defs m]|] eqn:Hd; [|discriminate]. cbn [sbind] in H. inv H. cbn [pmax pdefs].
  eapply shrink_defs_ids; eauto. unfold ids_bounded in Hb. rewrite forallb_forall in *. intros d Hin.
  specialize (Hb d Hin). split_and; auto.
Qed.

(* ====================================================================================== *)
(* shrink_fresh_ids, part 2: the binders introduced by shrinking are new and pairwise distinct *)
(* ====================================================================================== *)
(* binder ids of an AxCut statement (let/create/literal/op variables and clause parameters) and of a
   focused Core statement (mu/mu~ variables and clause parameters), in traversal order *)
Fixpoint binders (s : stmt) : list N :=
  let go := fix go (l : list (ident * ctx * stmt)) : list N :=
    match l with
    | [] => []
    | c :: r => ids (snd (fst c)) ++ binders (snd c) ++ go r
    end in
  match s with
  | Substitute _ n => binders n       (* explicit substitutions do not occur before linearization *)
  | Let v _ _ _ n | Literal _ v n | Op _ _ _ v n => idn v :: binders n
  | Switch _ _ cls => go cls
  | Create v _ _ cls n => idn v :: go cls ++ binders n
  | PrintI64 _ _ n => binders n
  | IfC _ _ _ t e => binders t ++ binders e
  | Call _ _ | Invoke _ _ _ _ | Exit _ => []
  end.
Definition cls_binders (cls : list (ident * ctx * stmt)) : list N :=
  flat_map (fun c => ids (snd (fst c)) ++ binders (snd c)) cls.
Lemma binders_switch : forall v t cls, binders (Switch v t cls) = cls_binders cls.
Proof.
  intros. simpl. unfold cls_binders. induction cls as [|c r IH]; simpl; [reflexivity|]. now rewrite IH, app_assoc.
Qed.
Lemma binders_create : forall v t env cls n, binders (Create v t env cls n) = idn v :: cls_binders cls ++ binders n.
Proof.
  intros. simpl. f_equal. f_equal. unfold cls_binders. induction cls as [|c r IH]; simpl; [reflexivity|]. now rewrite IH, app_assoc.
Qed.
(* the ids a (lifted) definition introduces: the id of its label, its parameters, its binders *)
Definition def_binders (d : def) : list N := idn (dname d) :: ids (dctx d) ++ binders (dbody d).

Fixpoint cbinders_term (t : fsterm) : list N :=
  match t with
  | FsMu _ v s _ => cid_id v :: cbinders s
  | FsXCase _ cls _ =>
      (fix go (l : list fsclause) : list N :=
         match l with [] => [] | FsClause _ _ ctx b :: r => cids ctx ++ cbinders b ++ go r end) cls
  | _ => []
  end
with cbinders (s : fsstmt) : list N :=
  match s with
  | FsCut p _ k => cbinders_term p ++ cbinders_term k
  | FsIfC _ _ _ t e => cbinders t ++ cbinders e
  | FsPrint _ _ n => cbinders n
  | FsCall _ _ | FsExit _ => []
  end.
Definition cbinders_clauses (cls : list fsclause) : list N :=
  flat_map (fun c => cids (clause_ctx c) ++ cbinders (clause_body c)) cls.
Lemma cbinders_term_xcase : forall c cls t, cbinders_term (FsXCase c cls t) = cbinders_clauses cls.
Proof.
  intros. simpl. unfold cbinders_clauses. induction cls as [|[c' x ctx b] r IH]; simpl; [reflexivity|]. now rewrite IH, app_assoc.
Qed.

(* substitutions never touch binders *)
Lemma cbinders_subst_all : forall sub,
  (forall t, cbinders_term (subst_term sub t) = cbinders_term t) /\
  (forall c, cids (clause_ctx (subst_clause sub c)) ++ cbinders (clause_body (subst_clause sub c))
             = cids (clause_ctx c) ++ cbinders (clause_body c)) /\
  (forall s, cbinders (subst_stmt sub s) = cbinders s).
Proof.
  intros sub. apply fs_mutind; intros; try reflexivity.
  - simpl. now rewrite H.
  - rewrite subst_term_xcase, !cbinders_term_xcase. unfold cbinders_clauses, subst_clauses.
    induction H as [|y r Hy Hr IH]; simpl; [reflexivity|]. now rewrite Hy, IH.
  - simpl. now rewrite H.
  - simpl. now rewrite H, H0.
  - simpl. now rewrite H, H0.
  - simpl. now rewrite H.
Qed.
Lemma cbinders_subst : forall sub s, cbinders (subst_stmt sub s) = cbinders s.
Proof. intros. apply (cbinders_subst_all sub). Qed.
Lemma binders_ax_subst : forall sub s, binders (ax_subst sub s) = binders s.
Proof.
  intros sub. apply (stmt_ind' (fun s => binders (ax_subst sub s) = binders s)); intros;
    rewrite ?ax_subst_switch, ?ax_subst_create, ?binders_switch, ?binders_create; try reflexivity.
  - simpl. now rewrite H.
  - simpl. now rewrite H.
  - unfold cls_binders, ax_subst_cls. induction H as [|c r Hc Hr IH]; simpl; [reflexivity|]. now rewrite Hc, IH.
  - rewrite H0. do 2 f_equal. unfold cls_binders, ax_subst_cls. induction H as [|c r Hc Hr IH]; simpl; [reflexivity|]. now rewrite Hc, IH.
  - simpl. now rewrite H.
  - simpl. now rewrite H.
  - simpl. now rewrite H.
  - simpl. now rewrite H, H0.
Qed.

Definition cnt (l : list N) (x : N) : nat := count_occ N.eq_dec l x.
Lemma cnt_app : forall a b x, cnt (a ++ b) x = cnt a x + cnt b x.
Proof. intros. apply count_occ_app. Qed.
Lemma cnt_cons : forall a l x, cnt (a :: l) x = (if N.eq_dec a x then 1 else 0) + cnt l x.
Proof. intros. unfold cnt. simpl. destruct (N.eq_dec a x); reflexivity. Qed.
Lemma cnt_nil : forall x, cnt [] x = 0.
Proof. reflexivity. Qed.
Definition lifted_binders (ds : list def) : list N := flat_map def_binders ds.
Lemma lifted_binders_app : forall a b, lifted_binders (a ++ b) = lifted_binders a ++ lifted_binders b.
Proof. intros. apply flat_map_app. Qed.

Section Fresh.
Variable m0 : N.      (* every binder of the input is <= m0 *)
(* among the ids > m0, each occurs at most once in B and lies in (lo, hi] *)
Definition fresh_cnt (lo hi : N) (B : list N) : Prop :=
  forall x, (m0 < x)%N -> cnt B x <= 1 /\ (0 < cnt B x -> (lo < x <= hi)%N).
Definition old_only (B : list N) : Prop := forall x, (m0 < x)%N -> cnt B x = 0.

Ltac cnt_simpl := repeat (rewrite ?cnt_app, ?cnt_cons, ?cnt_nil in * ).
Ltac inst_at x Hx :=
  repeat match goal with
         | H : fresh_cnt _ _ _ |- _ => let H1 := fresh "Hc" in pose proof (H x Hx) as H1; clear H
         | H : old_only _ |- _ => let H1 := fresh "Ho" in pose proof (H x Hx) as H1; clear H
         end.
Ltac cnt_solve :=
  let x := fresh "x" in let Hx := fresh "Hx" in
  intros x Hx; inst_at x Hx; cnt_simpl;
  repeat match goal with |- context [N.eq_dec ?a x] => destruct (N.eq_dec a x); [subst|] end;
  simpl in *; try lia.

Lemma fresh_cnt_nil : forall lo hi, fresh_cnt lo hi [].
Proof. intros lo hi x Hx. rewrite cnt_nil. lia. Qed.
Lemma fresh_cnt_widen : forall lo hi lo' hi' B, fresh_cnt lo hi B -> (lo' <= lo)%N -> (hi <= hi')%N -> fresh_cnt lo' hi' B.
Proof. intros lo hi lo' hi' B H H1 H2. cnt_solve. Qed.
Lemma fresh_cnt_app : forall lo mid hi B1 B2,
  fresh_cnt lo mid B1 -> fresh_cnt mid hi B2 -> (lo <= mid)%N -> (mid <= hi)%N -> fresh_cnt lo hi (B1 ++ B2).
Proof. intros lo mid hi B1 B2 H1 H2 Ha Hb. cnt_solve. Qed.
Lemma fresh_cnt_old : forall lo hi B, old_only B -> fresh_cnt lo hi B.
Proof. intros lo hi B H. cnt_solve. Qed.
Lemma old_only_app : forall a b, old_only (a ++ b) <-> old_only a /\ old_only b.
Proof.
  intros a b. split.
  - intros H. split; intros x Hx; specialize (H x Hx); rewrite cnt_app in H; lia.
  - intros [H1 H2]. cnt_solve.
Qed.
Lemma old_only_cons : forall a l, old_only (a :: l) <-> (a <= m0)%N /\ old_only l.
Proof.
  intros a l. split.
  - intros H. split.
    + destruct (N.le_gt_cases a m0) as [Hle|Hgt]; [exact Hle|]. specialize (H a Hgt). rewrite cnt_cons in H.
      destruct (N.eq_dec a a); [discriminate | congruence].
    + intros x Hx. specialize (H x Hx). rewrite cnt_cons in H. lia.
  - intros [Ha H]. cnt_solve.
Qed.
Lemma old_only_nil : old_only [].
Proof. intros x Hx. reflexivity. Qed.

Lemma fresh_env_cnt : forall bs st env st1, fresh_env bs st = (env, st1) -> (m0 <= s_max st)%N ->
  fresh_cnt (s_max st) (s_max st1) (ids env).
Proof.
  induction bs as [|b r IH]; intros st env st1 H Hm; simpl in H.
  - inv H. apply fresh_cnt_nil.
  - destruct (fresh_env r _) as [r' st2] eqn:Hr. inv H.
    pose proof (fresh_env_spec _ _ _ _ Hr) as [Hm2 _]. apply IH in Hr; [|simpl; lia]. simpl in *.
    change (ids (mkb (shrink_identifier (fst (bvar b), N.succ (s_max st))) (bchi b) (bty b) :: r'))
      with (N.succ (s_max st) :: ids r'). cnt_solve.
Qed.
End Fresh.

Ltac cnt_simpl := repeat (rewrite ?cnt_app, ?cnt_cons, ?cnt_nil in * ).
Ltac inst_at x Hx :=
  repeat match goal with
         | H : fresh_cnt _ _ _ _ |- _ => let H1 := fresh "Hc" in pose proof (H x Hx) as H1; clear H
         | H : old_only _ _ |- _ => let H1 := fresh "Ho" in pose proof (H x Hx) as H1; clear H
         end.
Ltac cnt_solve :=
  let x := fresh "x" in let Hx := fresh "Hx" in
  intros x Hx; inst_at x Hx; cnt_simpl;
  repeat match goal with |- context [N.eq_dec ?a x] => destruct (N.eq_dec a x); [subst|] end;
  simpl in *; try lia.

Section Fresh2.
Variable m0 : N.
Notation fresh_cnt := (fresh_cnt m0).
Notation old_only := (old_only m0).

Lemma cls_binders_cons : forall c r, cls_binders (c :: r) = ids (snd (fst c)) ++ binders (snd c) ++ cls_binders r.
Proof. intros. unfold cls_binders. simpl. now rewrite app_assoc. Qed.

Lemma unknown_clauses_mono : forall codata ve tty xs st cls st',
  unknown_clauses codata ve tty xs st = (cls, st') -> (s_max st <= s_max st')%N.
Proof.
  induction xs as [|[xt args] r IH]; intros st cls st' H; simpl in H.
  - inv H. lia.
  - destruct (fresh_env _ st) as [env st1] eqn:He. destruct (unknown_clauses _ _ _ r st1) as [r' st2] eqn:Hr. inv H.
    apply fresh_env_spec in He as [? _]. apply IH in Hr. lia.
Qed.
Lemma critical_clauses_mono : forall codata ve tty se xs st cls st',
  critical_clauses codata ve tty se xs st = (cls, st') -> (s_max st <= s_max st')%N.
Proof.
  induction xs as [|[xt args] r IH]; intros st cls st' H; simpl in H.
  - inv H. lia.
  - destruct (fresh_env _ st) as [env st1] eqn:He. destruct (critical_clauses _ _ _ _ r _) as [r' st2] eqn:Hr. inv H.
    apply fresh_env_spec in He as [? _]. apply IH in Hr. simpl in Hr. lia.
Qed.

Lemma unknown_clauses_cnt : forall codata ve tty xs st cls st',
  unknown_clauses codata ve tty xs st = (cls, st') -> (m0 <= s_max st)%N ->
  fresh_cnt (s_max st) (s_max st') (cls_binders cls).
Proof.
  induction xs as [|[xt args] r IH]; intros st cls st' H Hm; simpl in H.
  - inv H. apply fresh_cnt_nil.
  - destruct (fresh_env _ st) as [env st1] eqn:He. destruct (unknown_clauses _ _ _ r st1) as [r' st2] eqn:Hr. inv H.
    pose proof (fresh_env_spec _ _ _ _ He) as [Hm1 _].
    pose proof (unknown_clauses_mono _ _ _ _ _ _ _ Hr) as Hm2.
    apply (fresh_env_cnt m0) in He; auto. apply IH in Hr; [|lia].
    rewrite cls_binders_cons. cbn [fst snd binders app].
    eapply fresh_cnt_app; eauto.
Qed.

(* the clauses of a critical pair contain one copy of the shrunk expanded side per xtor: fine when
   that statement binds nothing (leaf statement or call of its lifted definition) ... *)
Lemma critical_clauses_cnt_nil : forall codata ve tty se xs st cls st',
  critical_clauses codata ve tty se xs st = (cls, st') -> (m0 <= s_max st)%N -> binders se = [] ->
  fresh_cnt (s_max st) (s_max st') (cls_binders cls).
Proof.
  induction xs as [|[xt args] r IH]; intros st cls st' H Hm Hse; simpl in H.
  - inv H. apply fresh_cnt_nil.
  - destruct (fresh_env _ st) as [env st1] eqn:He. destruct (critical_clauses _ _ _ _ r _) as [r' st2] eqn:Hr. inv H.
    pose proof (fresh_env_spec _ _ _ _ He) as [Hm1 _].
    pose proof (critical_clauses_mono _ _ _ _ _ _ _ _ Hr) as Hm2. simpl in Hm2.
    apply (fresh_env_cnt m0) in He; auto. apply IH in Hr; auto; [|simpl; lia]. simpl in Hr.
    rewrite cls_binders_cons. cbn [fst snd]. cbn [binders]. rewrite binders_ax_subst, Hse. unfold idn. cbn [snd shrink_identifier].
    cnt_solve.
Qed.
(* ... or when there is at most one xtor *)
Lemma critical_clauses_cnt_one : forall codata ve tty se xs st cls st' lo extra,
  critical_clauses codata ve tty se xs st = (cls, st') -> (m0 <= lo)%N -> (lo <= s_max st)%N ->
  List.length xs <= 1 -> fresh_cnt lo (s_max st) (binders se ++ extra) ->
  fresh_cnt lo (s_max st') (cls_binders cls ++ extra).
Proof.
  intros codata ve tty se xs st cls st' lo extra H Hm Hlo Hlen Hse.
  destruct xs as [|[xt args] [|y r]]; simpl in Hlen; try lia; simpl in H.
  - inv H. cbn [cls_binders flat_map app]. cnt_solve.
  - destruct (fresh_env _ st) as [env st1] eqn:He. inv H.
    pose proof (fresh_env_spec _ _ _ _ He) as [Hm1 _].
    apply (fresh_env_cnt m0) in He; [|lia].
    rewrite cls_binders_cons. cbn [fst snd]. cbn [binders]. rewrite binders_ax_subst. unfold idn. cbn [snd shrink_identifier s_max cls_binders flat_map].
    cnt_solve.
Qed.

Lemma fresh_params_cnt : forall fvs m, (m0 <= m)%N -> fresh_cnt m (m + N.of_nat (List.length fvs)) (cids (fresh_params fvs m)).
Proof.
  induction fvs as [|b r IH]; intros m Hm; cbn [fresh_params cids map List.length].
  - apply fresh_cnt_nil.
  - specialize (IH (N.succ m)). unfold cid_id at 1. cbn [cbvar snd]. fold (cids (fresh_params r (N.succ m))).
    rewrite Nat2N.inj_succ. assert (Hs : (m0 <= N.succ m)%N) by lia. specialize (IH Hs).
    replace (m + N.succ (N.of_nat (List.length r)))%N with (N.succ m + N.of_nat (List.length r))%N by lia.
    cnt_solve.
Qed.
Lemma ids_shrink_context : forall codata c, ids (shrink_context codata c) = cids c.
Proof.
  intros. unfold ids, shrink_context, cids. rewrite map_map. apply map_ext. intros b. now rewrite shrink_binding_var.
Qed.

Definition fr_pre (st : sst) (s : fsstmt) : Prop := old_only (cbinders s) /\ (m0 <= s_max st)%N.
Definition fr_post (st : sst) (r : stmt) (st' : sst) : Prop :=
  (s_max st <= s_max st')%N /\
  exists nd, s_lifted st' = nd ++ s_lifted st /\ fresh_cnt (s_max st) (s_max st') (binders r ++ lifted_binders nd).

Section FreshStep.
Variable rec : fsstmt -> sst -> shres (stmt * sst).
Variable E : senv.
Hypothesis Hrec : forall s st r st', rec s st = SOk (r, st') -> fr_pre st s -> fr_post st r st'.
Hypothesis Hleaf : forall s st r st', rec s st = SOk (r, st') -> is_leaf_statement s = true -> binders r = [].

Lemma shrink_clauses_fr : forall cls st r st',
  shrink_clauses rec E cls st = SOk (r, st') -> old_only (cbinders_clauses cls) -> (m0 <= s_max st)%N ->
  (s_max st <= s_max st')%N /\
  exists nd, s_lifted st' = nd ++ s_lifted st /\ fresh_cnt (s_max st) (s_max st') (cls_binders r ++ lifted_binders nd).
Proof.
  induction cls as [|[c x ctx b] rr IH]; intros st r st' H Ho Hm; simpl in H.
  - inv H. split; [lia|]. exists []. split; [reflexivity|]. apply fresh_cnt_nil.
  - destruct (rec b st) as [[b' st1]|] eqn:Hb; [|discriminate]. cbn [sbind] in H.
    destruct (shrink_clauses rec E rr st1) as [[r' st2]|] eqn:Hr; [|discriminate]. cbn [sbind] in H. inv H.
    unfold cbinders_clauses in Ho. cbn [flat_map clause_ctx clause_body] in Ho.
    apply old_only_app in Ho as [Ho1 Ho2]. apply old_only_app in Ho1 as [Hctx Hbody].
    apply Hrec in Hb as [Hm1 [nd1 [Hl1 Hc1]]]; [|split; auto].
    apply IH in Hr as [Hm2 [nd2 [Hl2 Hc2]]]; auto; [|lia].
    split; [lia|]. exists (nd2 ++ nd1). split; [rewrite Hl2, Hl1; now rewrite app_assoc|].
    rewrite cls_binders_cons, lifted_binders_app. cbn [fst snd]. rewrite ids_shrink_context.
    cnt_solve.
Qed.

Lemma lift_fr : forall s st r st', lift rec E s st = SOk (r, st') -> fr_pre st s -> fr_post st r st' /\ binders r = [].
Proof.
  intros s st r st' H [Ho Hm]. apply lift_closed in H.
  destruct H as [_ [_ [_ [_ [label [body [st3 [_ [Hlab [_ [-> [Hb ->]]]]]]]]]]]]. split; [|reflexivity].
  set (fvs := typed_free_vars s) in *.
  apply Hrec in Hb as [Hm3 [nd3 [Hl3 Hc3]]]; [|split; [now rewrite cbinders_subst | cbn [s_max]; lia]].
  unfold fr_post. cbn [s_max s_lifted] in *. split; [lia|].
  exists (mkd label (shrink_context (e_codata E) (fresh_params fvs (s_max st))) body :: nd3).
  split; [now rewrite Hl3|].
  cbn [binders app lifted_binders flat_map]. unfold def_binders at 1. cbn [dctx dbody dname]. rewrite ids_shrink_context.
  unfold idn at 1. fold (lifted_binders nd3).
  pose proof (fresh_params_cnt fvs (s_max st) Hm) as Hp.
  cnt_solve.
Qed.
End FreshStep.
End Fresh2.


Lemma critical_clauses_lifted : forall codata ve tty se xs st cls st',
  critical_clauses codata ve tty se xs st = (cls, st') -> s_lifted st' = s_lifted st.
Proof.
  induction xs as [|[xt args] r IH]; intros st cls st' H; simpl in H.
  - now inv H.
  - destruct (fresh_env _ st) as [env st1] eqn:He. destruct (critical_clauses _ _ _ _ r _) as [r' st2] eqn:Hr. inv H.
    apply fresh_env_spec in He as [_ [Hl _]]. apply IH in Hr. simpl in Hr. congruence.
Qed.
Lemma unknown_clauses_lifted : forall codata ve tty xs st cls st',
  unknown_clauses codata ve tty xs st = (cls, st') -> s_lifted st' = s_lifted st.
Proof.
  induction xs as [|[xt args] r IH]; intros st cls st' H; simpl in H.
  - now inv H.
  - destruct (fresh_env _ st) as [env st1] eqn:He. destruct (unknown_clauses _ _ _ r st1) as [r' st2] eqn:Hr. inv H.
    apply fresh_env_spec in He as [_ [Hl _]]. apply IH in Hr. congruence.
Qed.

Section Fresh3.
Variable m0 : N.
Notation fresh_cnt := (fresh_cnt m0).
Notation old_only := (old_only m0).
Notation fr_pre := (fr_pre m0).
Notation fr_post := (fr_post m0).
Variable rec : fsstmt -> sst -> shres (stmt * sst).
Variable E : senv.
Hypothesis Hrec : forall s st r st', rec s st = SOk (r, st') -> fr_pre st s -> fr_post st r st'.
Hypothesis Hleaf : forall s st r st', rec s st = SOk (r, st') -> is_leaf_statement s = true -> binders r = [].

Lemma critical_fr : forall vp sp vc sc ty st r st',
  shrink_critical_pairs rec E vp sp vc sc ty st = SOk (r, st') ->
  (cid_id vp <= m0)%N -> (cid_id vc <= m0)%N -> old_only (cbinders sp) -> old_only (cbinders sc) ->
  (m0 <= s_max st)%N -> fr_post st r st'.
Proof.
  intros vp sp vc sc ty st r st' H Hvp Hvc Hsp Hsc Hm. unfold shrink_critical_pairs in H. destruct ty as [|n].
  - destruct (rec sc st) as [[body st1]|] eqn:H1; [|discriminate]. cbn [sbind] in H.
    destruct (rec sp st1) as [[next st2]|] eqn:H2; [|discriminate]. cbn [sbind] in H. inv H.
    apply Hrec in H1 as [Hm1 [nd1 [Hl1 Hc1]]]; [|split; auto].
    apply Hrec in H2 as [Hm2 [nd2 [Hl2 Hc2]]]; [|split; auto; lia].
    split; [lia|]. exists (nd2 ++ nd1). split; [rewrite Hl2, Hl1; now rewrite app_assoc|].
    rewrite binders_create, lifted_binders_app. unfold cls_binders. cbn [flat_map fst snd ids map bvar app].
    unfold idn, shrink_identifier. cbn [snd]. rewrite app_nil_r. unfold cid_id in *. cnt_solve.
  - destruct (xtors_of E (CDecl n) n) as [xs|]; [|discriminate]. cbn [sbind] in H.
    assert (Hgen : forall vk sk ve se,
      (cid_id vk <= m0)%N -> old_only (cbinders sk) -> old_only (cbinders se) ->
      (dos (shrunk, st1) <- (if Nat.leb (List.length xs) 1 || is_leaf_statement se then rec se st else lift rec E se st);
       let '(clauses, st2) := critical_clauses (e_codata E) ve (shrink_ty (CDecl n)) shrunk xs st1 in
       dos (next, st3) <- rec sk st2;
       SOk (Create (shrink_identifier vk) (Decl (shrink_identifier n)) None clauses next, st3)) = SOk (r, st') ->
      fr_post st r st').
    { intros vk sk ve se Hvk Hsk Hse H0.
      destruct (if _ || _ then _ else _) as [[shrunk st1]|] eqn:He; [|discriminate]. cbn [sbind] in H0.
      destruct (critical_clauses _ _ _ _ _ _) as [cls st2] eqn:Hc.
      destruct (rec sk st2) as [[next st3]|] eqn:Hk; [|discriminate]. cbn [sbind] in H0. inv H0.
      pose proof (critical_clauses_mono _ _ _ _ _ _ _ _ Hc) as Hm12.
      pose proof (critical_clauses_lifted _ _ _ _ _ _ _ _ Hc) as Hl12.
      assert (Hcls : (s_max st <= s_max st1)%N /\ exists nd1, s_lifted st1 = nd1 ++ s_lifted st /\
                     fresh_cnt (s_max st) (s_max st2) (cls_binders cls ++ lifted_binders nd1)).
      { destruct (Nat.leb (List.length xs) 1) eqn:Hlen; cbn [orb] in He.
        - apply Hrec in He as [Hm1 [nd1 [Hl1 Hc1]]]; [|split; auto]. split; [lia|]. exists nd1. split; auto.
          eapply critical_clauses_cnt_one; [exact Hc | exact Hm | lia | now apply Nat.leb_le | exact Hc1].
        - assert (Hpost : fr_post st shrunk st1 /\ binders shrunk = []).
          { destruct (is_leaf_statement se) eqn:Hlf.
            - split; [eapply Hrec; [exact He | split; auto] | eapply Hleaf; eauto].
            - eapply lift_fr; eauto. split; auto. }
          destruct Hpost as [[Hm1 [nd1 [Hl1 Hc1]]] Hb0]. split; [lia|]. exists nd1. split; auto.
          rewrite Hb0 in Hc1. cbn [app] in Hc1.
          pose proof (critical_clauses_cnt_nil m0 _ _ _ _ _ _ _ _ Hc) as Hcn.
          assert (Hcn' : fresh_cnt (s_max st1) (s_max st2) (cls_binders cls)) by (apply Hcn; auto; lia).
          clear Hcn. cnt_solve. }
      destruct Hcls as [Hm1 [nd1 [Hl1 Hc1]]].
      apply Hrec in Hk as [Hm3 [nd3 [Hl3 Hc3]]]; [|split; auto; lia].
      split; [lia|]. exists (nd3 ++ nd1). split; [rewrite Hl3, Hl12, Hl1; now rewrite app_assoc|].
      rewrite binders_create, lifted_binders_app. unfold idn, shrink_identifier. cbn [snd]. unfold cid_id in *.
      cnt_solve. }
    destruct (is_codata (e_codata E) (CDecl n)); cbv beta iota in H;
      [apply (Hgen vc sc vp sp) | apply (Hgen vp sp vc sc)]; auto.
Qed.
End Fresh3.

Lemma shrink_step_leaf : forall rec E s st r st',
  shrink_step rec E s st = SOk (r, st') -> is_leaf_statement s = true -> binders r = [].
Proof.
  intros rec E s st r st' H Hl. destruct s as [p ty k|so a b t e|nl a nx|f args|v]; try discriminate Hl.
  - destruct p; try discriminate Hl; destruct k; try discriminate Hl; simpl in H; inv H; reflexivity.
  - simpl in H. inv H. reflexivity.
  - simpl in H. inv H. reflexivity.
Qed.

Section Fresh4.
Variable m0 : N.
Notation fresh_cnt := (fresh_cnt m0).
Notation old_only := (old_only m0).
Notation fr_pre := (fr_pre m0).
Notation fr_post := (fr_post m0).
Variable rec : fsstmt -> sst -> shres (stmt * sst).
Variable E : senv.
Hypothesis Hrec : forall s st r st', rec s st = SOk (r, st') -> fr_pre st s -> fr_post st r st'.
Hypothesis Hleaf : forall s st r st', rec s st = SOk (r, st') -> is_leaf_statement s = true -> binders r = [].

Lemma fr_post_nobinders : forall st r, binders r = [] -> fr_post st r st.
Proof.
  intros st r Hb. split; [lia|]. exists []. split; [reflexivity|]. rewrite Hb. apply fresh_cnt_nil.
Qed.

Lemma unknown_fr : forall vp vc ty st r st',
  shrink_unknown_cuts E vp vc ty st = SOk (r, st') -> (m0 <= s_max st)%N -> fr_post st r st'.
Proof.
  intros vp vc ty st r st' H Hm. unfold shrink_unknown_cuts in H. destruct ty as [|n].
  - inv H. now apply fr_post_nobinders.
  - destruct (xtors_of E (CDecl n) n) as [xs|]; [|discriminate]. cbn [sbind] in H.
    destruct (is_codata (e_codata E) (CDecl n)); cbv beta iota in H;
      destruct (unknown_clauses _ _ _ _ _) as [cls st1] eqn:Hc; inv H;
      pose proof (unknown_clauses_mono _ _ _ _ _ _ _ Hc) as Hm1;
      pose proof (unknown_clauses_lifted _ _ _ _ _ _ _ Hc) as Hl1;
      apply (unknown_clauses_cnt m0) in Hc; auto;
      (split; [lia|]; exists []; split; [now rewrite Hl1|]; rewrite binders_switch; cbn [lifted_binders flat_map]; rewrite app_nil_r; exact Hc).
Qed.

Lemma old_only_clause_in : forall cls cl, old_only (cbinders_clauses cls) -> In cl cls -> old_only (cbinders (clause_body cl)).
Proof.
  induction cls as [|c r IH]; intros cl Ho Hin; [contradiction|].
  unfold cbinders_clauses in Ho. cbn [flat_map] in Ho. apply old_only_app in Ho as [Ho1 Ho2].
  destruct Hin as [->|Hin]; [now apply old_only_app in Ho1 as [_ ?] | now apply IH].
Qed.

Lemma known_fr : forall x args cls st r st',
  shrink_known_cuts rec x args cls st = SOk (r, st') ->
  old_only (cbinders_clauses cls) -> (m0 <= s_max st)%N -> fr_post st r st'.
Proof.
  intros x args cls st r st' H Ho Hm. unfold shrink_known_cuts in H.
  destruct (find _ cls) as [cl|] eqn:Hf; [|discriminate]. apply find_some in Hf as [Hin _].
  apply Hrec in H; auto. split; auto. rewrite cbinders_subst. eapply old_only_clause_in; eauto.
Qed.

Lemma shrink_step_fr : forall s st r st', shrink_step rec E s st = SOk (r, st') -> fr_pre st s -> fr_post st r st'.
Proof.
  intros s st r st' H [Ho Hm]. destruct s as [p ty k|so a b t e|nl a nx|f args|v].
  - (* cut *)
    cbn [shrink_step] in H. unfold shrink_cut in H. cbn [cbinders] in Ho. apply old_only_app in Ho as [Hp Hk].
    destruct p as [c1 v1 t1|l1|a1 o1 b1|c1 v1 s1 t1|c1 x1 args1 t1|c1 cls1 t1];
    destruct k as [c2 v2 t2|l2|a2 o2 b2|c2 v2 s2 t2|c2 x2 args2 t2|c2 cls2 t2];
      try discriminate H; rewrite ?cbinders_term_xcase in *; cbn [cbinders_term] in Hp, Hk;
      repeat match goal with Hq : old_only (_ :: _) |- _ => apply old_only_cons in Hq as [? ?] end.
    + (* XVar, XVar *) eapply unknown_fr; eauto.
    + (* XVar, Mu *) unfold shrink_renaming in H. apply Hrec in H; auto. split; auto. now rewrite cbinders_subst.
    + (* XVar, Xtor *) inv H. now apply fr_post_nobinders.
    + (* XVar, XCase *)
      destruct (shrink_clauses rec E cls2 st) as [[cls' st1]|] eqn:Hc; [|discriminate]. cbn [sbind] in H. inv H.
      eapply (shrink_clauses_fr m0) in Hc as [Hm1 [nd [Hl Hcn]]]; eauto.
      split; auto. exists nd. split; auto. now rewrite binders_switch.
    + (* Lit, XVar *) unfold fresh_var, fresh_identifier in H. inv H. split; [cbn [s_max]; lia|]. exists []. split; [reflexivity|].
      cbn [binders invoke_ret app lifted_binders flat_map s_max]. unfold idn, shrink_identifier, cid_id in *. cbn [snd]. cnt_solve.
    + (* Lit, Mu *)
      destruct (rec s2 st) as [[nx st1]|] eqn:Hr; [|discriminate]. cbn [sbind] in H. inv H.
      apply Hrec in Hr as [Hm1 [nd [Hl Hcn]]]; [|split; auto]. split; auto. exists nd. split; auto.
      cbn [binders]. unfold idn, shrink_identifier, cid_id in *. cnt_solve.
    + (* Op, XVar *) unfold fresh_var, fresh_identifier in H. inv H. split; [cbn [s_max]; lia|]. exists []. split; [reflexivity|].
      cbn [binders invoke_ret app lifted_binders flat_map s_max]. unfold idn, shrink_identifier, cid_id in *. cbn [snd]. cnt_solve.
    + (* Op, Mu *)
      destruct (rec s2 st) as [[nx st1]|] eqn:Hr; [|discriminate]. cbn [sbind] in H. inv H.
      apply Hrec in Hr as [Hm1 [nd [Hl Hcn]]]; [|split; auto]. split; auto. exists nd. split; auto.
      cbn [binders]. unfold idn, shrink_identifier, cid_id in *. cnt_solve.
    + (* Mu, XVar *) unfold shrink_renaming in H. apply Hrec in H; auto. split; auto. now rewrite cbinders_subst.
    + (* Mu, Mu *) eapply critical_fr; eauto.
    + (* Mu, Xtor *)
      destruct (rec s1 st) as [[nx st1]|] eqn:Hr; [|discriminate]. cbn [sbind] in H. inv H.
      apply Hrec in Hr as [Hm1 [nd [Hl Hcn]]]; [|split; auto]. split; auto. exists nd. split; auto.
      cbn [binders]. unfold idn, shrink_identifier, cid_id in *. cnt_solve.
    + (* Mu, XCase *)
      destruct (shrink_clauses rec E cls2 st) as [[cls' st1]|] eqn:Hc; [|discriminate]. cbn [sbind] in H.
      destruct (rec s1 st1) as [[nx st2]|] eqn:Hr; [|discriminate]. cbn [sbind] in H. inv H.
      eapply (shrink_clauses_fr m0) in Hc as [Hm1 [nd1 [Hl1 Hc1]]]; eauto.
      apply Hrec in Hr as [Hm2 [nd2 [Hl2 Hc2]]]; [|split; auto; lia].
      split; [lia|]. exists (nd2 ++ nd1). split; [rewrite Hl2, Hl1; now rewrite app_assoc|].
      rewrite binders_create, lifted_binders_app. unfold idn, shrink_identifier, cid_id in *. cnt_solve.
    + (* Xtor, XVar *) inv H. now apply fr_post_nobinders.
    + (* Xtor, Mu *)
      destruct (rec s2 st) as [[nx st1]|] eqn:Hr; [|discriminate]. cbn [sbind] in H. inv H.
      apply Hrec in Hr as [Hm1 [nd [Hl Hcn]]]; [|split; auto]. split; auto. exists nd. split; auto.
      cbn [binders]. unfold idn, shrink_identifier, cid_id in *. cnt_solve.
    + (* Xtor, XCase *) eapply known_fr; eauto.
    + (* XCase, XVar *)
      destruct (shrink_clauses rec E cls1 st) as [[cls' st1]|] eqn:Hc; [|discriminate]. cbn [sbind] in H. inv H.
      eapply (shrink_clauses_fr m0) in Hc as [Hm1 [nd [Hl Hcn]]]; eauto.
      split; auto. exists nd. split; auto. now rewrite binders_switch.
    + (* XCase, Mu *)
      destruct (shrink_clauses rec E cls1 st) as [[cls' st1]|] eqn:Hc; [|discriminate]. cbn [sbind] in H.
      destruct (rec s2 st1) as [[nx st2]|] eqn:Hr; [|discriminate]. cbn [sbind] in H. inv H.
      eapply (shrink_clauses_fr m0) in Hc as [Hm1 [nd1 [Hl1 Hc1]]]; eauto.
      apply Hrec in Hr as [Hm2 [nd2 [Hl2 Hc2]]]; [|split; auto; lia].
      split; [lia|]. exists (nd2 ++ nd1). split; [rewrite Hl2, Hl1; now rewrite app_assoc|].
      rewrite binders_create, lifted_binders_app. unfold idn, shrink_identifier, cid_id in *. cnt_solve.
    + (* XCase, Xtor *) eapply known_fr; eauto.
  - cbn [shrink_step] in H. cbn [cbinders] in Ho. apply old_only_app in Ho as [Ht He].
    destruct (rec t st) as [[t' st1]|] eqn:Hr1; [|discriminate]. cbn [sbind] in H.
    destruct (rec e st1) as [[e' st2]|] eqn:Hr2; [|discriminate]. cbn [sbind] in H. inv H.
    apply Hrec in Hr1 as [Hm1 [nd1 [Hl1 Hc1]]]; [|split; auto].
    apply Hrec in Hr2 as [Hm2 [nd2 [Hl2 Hc2]]]; [|split; auto; lia].
    split; [lia|]. exists (nd2 ++ nd1). split; [rewrite Hl2, Hl1; now rewrite app_assoc|].
    cbn [binders]. rewrite lifted_binders_app. cnt_solve.
  - cbn [shrink_step] in H. cbn [cbinders] in Ho.
    destruct (rec nx st) as [[t' st1]|] eqn:Hr1; [|discriminate]. cbn [sbind] in H. inv H.
    apply Hrec in Hr1 as [Hm1 [nd1 [Hl1 Hc1]]]; [|split; auto]. split; auto. exists nd1. split; auto.
  - cbn [shrink_step] in H. inv H. now apply fr_post_nobinders.
  - cbn [shrink_step] in H. inv H. now apply fr_post_nobinders.
Qed.
End Fresh4.

Lemma shrink_stmt_leaf : forall E fuel s st r st',
  shrink_stmt fuel E s st = SOk (r, st') -> is_leaf_statement s = true -> binders r = [].
Proof. intros E [|fuel] s st r st' H Hl; [discriminate|]. simpl in H. eapply shrink_step_leaf; eauto. Qed.
Lemma shrink_stmt_fr : forall m0 E fuel s st r st',
  shrink_stmt fuel E s st = SOk (r, st') -> fr_pre m0 st s -> fr_post m0 st r st'.
Proof.
  intros m0 E fuel. induction fuel as [|fuel IH]; intros s st r st' H Hpre; [discriminate|].
  simpl in H. eapply shrink_step_fr; eauto. intros. eapply shrink_stmt_leaf; eauto.
Qed.

(* ---------- program level ---------- *)
Lemma cbinders_le_all : forall m,
  (forall t, ib_term m t = true -> forall x, In x (cbinders_term t) -> (x <= m)%N) /\
  (forall c, ctx_le m (clause_ctx c) && ib_stmt m (clause_body c) = true ->
             forall x, In x (cids (clause_ctx c) ++ cbinders (clause_body c)) -> (x <= m)%N) /\
  (forall s, ib_stmt m s = true -> forall x, In x (cbinders s) -> (x <= m)%N).
Proof.
  intros m. apply fs_mutind; intros;
    rewrite ?ib_term_xcase, ?cbinders_term_xcase, ?ib_term_mu, ?ib_stmt_cut, ?ib_stmt_ifc, ?ib_stmt_print in *;
    cbn [cbinders_term cbinders clause_ctx clause_body] in *; try contradiction; split_and.
  - destruct H1 as [<-|H1]; [now apply N.leb_le | eauto].
  - unfold ib_clauses, cbinders_clauses in *. apply in_flat_map in H1 as [cl [Hcl Hx]].
    rewrite Forall_forall in H. rewrite forallb_forall in H0. eapply H; eauto.
  - apply in_app_or in H1 as [H1|H1]; [|eauto]. unfold ctx_le in H0. rewrite forallb_forall in H0.
    unfold cids in H1. apply in_map_iff in H1 as [b0 [<- Hb0]]. apply N.leb_le. now apply H0.
  - apply in_app_or in H2 as [H2|H2]; eauto.
  - apply in_app_or in H2 as [H2|H2]; eauto.
  - eauto.
Qed.
Lemma old_only_of_le : forall m0 l, (forall x, In x l -> (x <= m0)%N) -> old_only m0 l.
Proof.
  intros m0 l H x Hx. unfold cnt. apply count_occ_not_In. intros Hin. apply H in Hin. lia.
Qed.
Lemma old_only_cbinders : forall m0 s, ib_stmt m0 s = true -> old_only m0 (cbinders s).
Proof. intros. apply old_only_of_le. intros x Hx. eapply (proj2 (proj2 (cbinders_le_all m0))); eauto. Qed.
Lemma old_only_cids : forall m0 c, ctx_le m0 c = true -> old_only m0 (cids c).
Proof.
  intros. apply old_only_of_le. intros x Hx. unfold ctx_le in H. rewrite forallb_forall in H.
  unfold cids in Hx. apply in_map_iff in Hx as [b [<- Hb]]. apply N.leb_le. now apply H.
Qed.

Lemma cnt_lifted_rev_append : forall o acc x,
  cnt (lifted_binders (rev_append o acc)) x = cnt (lifted_binders o) x + cnt (lifted_binders acc) x.
Proof.
  induction o as [|d r IH]; intros acc x; [reflexivity|].
  cbn [rev_append]. rewrite IH. unfold lifted_binders. cbn [flat_map]. rewrite !cnt_app. lia.
Qed.

Lemma shrink_def_fr : forall m0 d data codata used m ds used' m',
  shrink_def d data codata used m = SOk (ds, used', m') -> (m0 <= m)%N ->
  id_le m0 (fsdname d) = true -> ctx_le m0 (fsdctx d) = true -> ib_stmt m0 (fsdbody d) = true ->
  (m <= m')%N /\ fresh_cnt m0 m m' (lifted_binders ds).
Proof.
  intros m0 d data codata used m ds used' m' H Hm Hn Hc Hb. unfold shrink_def in H.
  destruct (shrink_stmt _ _ _ _) as [[body st]|] eqn:Hs; [|discriminate]. cbn [sbind] in H. inv H.
  apply (shrink_stmt_fr m0) in Hs as [Hm1 [nd [Hl Hcn]]]; [|split; [now apply old_only_cbinders | exact Hm]].
  cbn [s_max s_lifted] in *. rewrite app_nil_r in Hl. subst nd. split; auto.
  cbn [lifted_binders flat_map]. unfold def_binders at 1. cbn [dname dctx dbody]. rewrite ids_shrink_context.
  fold (lifted_binders (s_lifted st)).
  pose proof (old_only_cids _ _ Hc) as Hoc. unfold idn, shrink_identifier. unfold id_le in Hn. apply N.leb_le in Hn. unfold cid_id in *.
  cnt_solve.
Qed.

Lemma shrink_defs_fr : forall m0 ds data codata used m acc out m',
  shrink_defs ds data codata used m acc = SOk (out, m') -> (m0 <= m)%N ->
  forallb (fun d => id_le m0 (fsdname d) && ctx_le m0 (fsdctx d) && ib_stmt m0 (fsdbody d)) ds = true ->
  fresh_cnt m0 m0 m (lifted_binders acc) ->
  (m <= m')%N /\ fresh_cnt m0 m0 m' (lifted_binders out).
Proof.
  induction ds as [|d r IH]; intros data codata used m acc out m' H Hm Hds Hacc; simpl in H.
  - inv H. split; [lia|]. unfold frev. intros x Hx. specialize (Hacc x Hx).
    rewrite cnt_lifted_rev_append. cbn [lifted_binders flat_map]. rewrite cnt_nil. lia.
  - destruct (shrink_def d data codata used m) as [[[o u1] m1]|] eqn:Hd; [|discriminate]. cbn [sbind] in H.
    simpl in Hds. split_and. eapply shrink_def_fr in Hd as [Hm1 Ho]; eauto.
    apply IH in H as [Hm2 Hout]; auto; [split; [lia | exact Hout] | lia |].
    intros x Hx. specialize (Hacc x Hx). specialize (Ho x Hx). rewrite cnt_lifted_rev_append. lia.
Qed.

Lemma fresh_cnt_nodup : forall m0 lo hi B, fresh_cnt m0 lo hi B -> NoDup (filter (fun x => N.ltb m0 x) B).
Proof.
  induction B as [|a r IH]; intros H; simpl; [constructor|].
  assert (Hr : fresh_cnt m0 lo hi r).
  { intros x Hx. specialize (H x Hx). rewrite cnt_cons in H. destruct (N.eq_dec a x); lia. }
  destruct (N.ltb m0 a) eqn:Ha; [|now apply IH].
  constructor; [|now apply IH]. intros Hin. apply filter_In in Hin as [Hin _].
  apply N.ltb_lt in Ha. specialize (H a Ha). rewrite cnt_cons in H. destruct (N.eq_dec a a); [|congruence].
  assert (cnt r a > 0) by (apply count_occ_In; exact Hin). lia.
Qed.

(* Every id that shrinking introduces - ids of lifted labels, parameters of lifted definitions, binders
   (let/create/literal/op variables, clause parameters) - is greater than the input's max_id, at most
   the output's max_id, and the ids introduced are pairwise distinct: in the list of all label ids,
   parameters and binders of the output program, the entries > max_id(input) occur once each. *)
Theorem shrink_fresh_ids : forall p q,
  ids_bounded p = true -> shrink_prog p = SOk q ->
  let B := lifted_binders (pdefs q) in
  (forall x, In x B -> (fspmax p < x)%N -> (x <= pmax q)%N) /\
  NoDup (filter (fun x => N.ltb (fspmax p) x) B).
Proof.
  intros p q Hb H B. unfold shrink_prog in H. destruct (_ || _); [discriminate|].
  destruct (shrink_defs _ _ _ _ _ _) as [[defs m]|] eqn:Hd; [|discriminate]. cbn [sbind] in H. inv H. cbn [pmax pdefs] in *.
  eapply (shrink_defs_fr (fspmax p)) in Hd as [Hm Hc]; [| lia | exact Hb | apply fresh_cnt_nil].
  split; [|eapply fresh_cnt_nodup; eauto].
  intros x Hin Hx. specialize (Hc x Hx). assert (cnt B x > 0) by (apply count_occ_In; exact Hin). unfold B in *. lia.
Qed.

(* ====================================================================================== *)
(* lift_label_fresh: the printed names of the definitions of the output are pairwise distinct *)
(* ====================================================================================== *)
Lemma NoDup_app_intro : forall {X} (a b : list X),
  NoDup a -> NoDup b -> (forall x, In x a -> In x b -> False) -> NoDup (a ++ b).
Proof.
  induction a as [|x r IH]; intros b Ha Hb Hd; simpl; [exact Hb|].
  inversion Ha as [|x' r' Hnin Hr]; subst. constructor.
  - intros Hin. apply in_app_or in Hin as [Hin|Hin]; [contradiction | apply (Hd x); [left; reflexivity | exact Hin]].
  - apply IH; auto. intros y Hy1 Hy2. apply (Hd y); [right; exact Hy1 | exact Hy2].
Qed.
Definition lnames (ds : list def) : list string := map (fun d => show_cident (dname d)) ds.
Definition unames (u : list cident) : list string := map show_cident u.
(* what a run does to (lifted_statements, used_labels): the labels of the new definitions are not
   printed like any label used before, pairwise different, and recorded as used *)
Definition lab_post (st st' : sst) : Prop :=
  incl (unames (s_used st)) (unames (s_used st')) /\
  exists nd, s_lifted st' = nd ++ s_lifted st /\ NoDup (lnames nd) /\
    (forall n, In n (lnames nd) -> ~ In n (unames (s_used st)) /\ In n (unames (s_used st'))).
Lemma lab_post_same : forall st st', s_lifted st' = s_lifted st -> s_used st' = s_used st -> lab_post st st'.
Proof.
  intros st st' Hl Hu. split; [rewrite Hu; apply incl_refl|]. exists []. split; [now rewrite Hl|].
  split; [constructor | intros n []].
Qed.
Lemma lab_post_trans : forall st1 st2 st3, lab_post st1 st2 -> lab_post st2 st3 -> lab_post st1 st3.
Proof.
  intros st1 st2 st3 [Hi1 [nd1 [Hl1 [Hn1 Hf1]]]] [Hi2 [nd2 [Hl2 [Hn2 Hf2]]]].
  split; [eapply incl_tran; eauto|]. exists (nd2 ++ nd1). split; [rewrite Hl2, Hl1; now rewrite app_assoc|].
  unfold lnames in *. rewrite map_app. split.
  - apply NoDup_app_intro; auto. intros n H2 H1. apply Hf2 in H2 as [Hnot _]. apply Hf1 in H1 as [_ Hin]. contradiction.
  - intros n Hin. apply in_app_or in Hin as [Hin|Hin].
    + apply Hf2 in Hin as [Hnot Hin']. split; auto.
    + apply Hf1 in Hin as [Hnot Hin']. split; auto.
Qed.

Lemma fresh_env_lu : forall bs st env st1, fresh_env bs st = (env, st1) ->
  s_lifted st1 = s_lifted st /\ s_used st1 = s_used st.
Proof.
  induction bs as [|b r IH]; intros st env st1 H; simpl in H; [inv H; auto|].
  destruct (fresh_env r _) as [r' st2] eqn:Hr. inv H. apply IH in Hr as [? ?]. simpl in *. auto.
Qed.
Lemma unknown_clauses_lu : forall codata ve tty xs st cls st',
  unknown_clauses codata ve tty xs st = (cls, st') -> s_lifted st' = s_lifted st /\ s_used st' = s_used st.
Proof.
  induction xs as [|[xt args] r IH]; intros st cls st' H; simpl in H; [inv H; auto|].
  destruct (fresh_env _ st) as [env st1] eqn:He. destruct (unknown_clauses _ _ _ r st1) as [r' st2] eqn:Hr. inv H.
  apply fresh_env_lu in He as [? ?]. apply IH in Hr as [? ?]. split; congruence.
Qed.
Lemma critical_clauses_lu : forall codata ve tty se xs st cls st',
  critical_clauses codata ve tty se xs st = (cls, st') -> s_lifted st' = s_lifted st /\ s_used st' = s_used st.
Proof.
  induction xs as [|[xt args] r IH]; intros st cls st' H; simpl in H; [inv H; auto|].
  destruct (fresh_env _ st) as [env st1] eqn:He. destruct (critical_clauses _ _ _ _ r _) as [r' st2] eqn:Hr. inv H.
  apply fresh_env_lu in He as [? ?]. apply IH in Hr as [? ?]. simpl in *. split; congruence.
Qed.

Section LabStep.
Variable rec : fsstmt -> sst -> shres (stmt * sst).
Variable E : senv.
Hypothesis Hrec : forall s st r st', rec s st = SOk (r, st') -> lab_post st st'.

Lemma shrink_clauses_lab : forall cls st r st', shrink_clauses rec E cls st = SOk (r, st') -> lab_post st st'.
Proof.
  induction cls as [|[c x ctx b] rr IH]; intros st r st' H; simpl in H.
  - inv H. now apply lab_post_same.
  - destruct (rec b st) as [[b' st1]|] eqn:Hb; [|discriminate]. cbn [sbind] in H.
    destruct (shrink_clauses rec E rr st1) as [[r' st2]|] eqn:Hr; [|discriminate]. cbn [sbind] in H. inv H.
    eapply lab_post_trans; eauto.
Qed.

Lemma lift_lab : forall s st r st', lift rec E s st = SOk (r, st') -> lab_post st st'.
Proof.
  intros s st r st' H. apply lift_closed in H.
  destruct H as [_ [_ [_ [_ [label [body [st3 [_ [_ [Hnew [_ [Hb ->]]]]]]]]]]]].
  apply Hrec in Hb as [Hi [nd3 [Hl3 [Hn3 Hf3]]]]. cbn [s_lifted s_used] in *.
  assert (Hlab : ~ In (show_cident label) (unames (s_used st))).
  { intros Hin. unfold unames in Hin. apply in_map_iff in Hin as [u [Heq Hu]].
    assert (existsb (fun u => String.eqb (show_cident u) (show_cident label)) (s_used st) = true).
    { apply existsb_exists. exists u. split; auto. now apply String.eqb_eq. }
    congruence. }
  split.
  - intros n Hn. apply Hi. unfold unames. simpl. now right.
  - exists (mkd label (shrink_context (e_codata E) (fresh_params (typed_free_vars s) (s_max st))) body :: nd3).
    split; [now rewrite Hl3|]. unfold lnames in *. cbn [map dname]. split.
    + constructor; auto. intros Hin. apply Hf3 in Hin as [Hnot _]. apply Hnot. unfold unames. simpl. now left.
    + intros n [<-|Hin].
      * split; auto. apply Hi. unfold unames. simpl. now left.
      * apply Hf3 in Hin as [Hnot Hin']. split; auto. intros Hc. apply Hnot. unfold unames. simpl. now right.
Qed.

Lemma shrink_step_lab : forall s st r st', shrink_step rec E s st = SOk (r, st') -> lab_post st st'.
Proof.
  intros s st r st' H. destruct s as [p ty k|so a b t e|nl a nx|f args|v].
  - cbn [shrink_step] in H. unfold shrink_cut in H.
    destruct p as [c1 v1 t1|l1|a1 o1 b1|c1 v1 s1 t1|c1 x1 args1 t1|c1 cls1 t1];
    destruct k as [c2 v2 t2|l2|a2 o2 b2|c2 v2 s2 t2|c2 x2 args2 t2|c2 cls2 t2];
      try discriminate H;
      try (unfold shrink_renaming in H; eapply Hrec; exact H);
      try (inv H; apply lab_post_same; reflexivity);
      try (unfold fresh_var, fresh_identifier in H; inv H; apply lab_post_same; reflexivity);
      try (destruct (rec _ st) as [[nx st1]|] eqn:Hr; [|discriminate]; cbn [sbind] in H; inv H; eapply Hrec; exact Hr);
      try (destruct (shrink_clauses rec E _ st) as [[cls' st1]|] eqn:Hc; [|discriminate]; cbn [sbind] in H;
           first [ inv H; eapply shrink_clauses_lab; exact Hc
                 | destruct (rec _ st1) as [[nx st2]|] eqn:Hr; [|discriminate]; cbn [sbind] in H; inv H;
                   eapply lab_post_trans; [eapply shrink_clauses_lab; exact Hc | eapply Hrec; exact Hr] ]);
      try (unfold shrink_known_cuts in H; destruct (find _ _) as [cl|]; [|discriminate]; eapply Hrec; exact H).
    + (* XVar, XVar *) unfold shrink_unknown_cuts in H. destruct ty as [|n]; [inv H; now apply lab_post_same|].
      destruct (xtors_of E (CDecl n) n) as [xs|]; [|discriminate]. cbn [sbind] in H.
      destruct (is_codata (e_codata E) (CDecl n)); cbv beta iota in H;
        destruct (unknown_clauses _ _ _ _ _) as [cls st1] eqn:Hc; inv H;
        apply unknown_clauses_lu in Hc as [? ?]; now apply lab_post_same.
    + (* Mu, Mu *) unfold shrink_critical_pairs in H. destruct ty as [|n].
      * destruct (rec s2 st) as [[body st1]|] eqn:H1; [|discriminate]. cbn [sbind] in H.
        destruct (rec s1 st1) as [[next st2]|] eqn:H2; [|discriminate]. cbn [sbind] in H. inv H.
        eapply lab_post_trans; eapply Hrec; eauto.
      * destruct (xtors_of E (CDecl n) n) as [xs|]; [|discriminate]. cbn [sbind] in H.
        assert (Hgen : forall vk sk ve se,
          (dos (shrunk, st1) <- (if Nat.leb (List.length xs) 1 || is_leaf_statement se then rec se st else lift rec E se st);
           let '(clauses, st2) := critical_clauses (e_codata E) ve (shrink_ty (CDecl n)) shrunk xs st1 in
           dos (next, st3) <- rec sk st2;
           SOk (Create (shrink_identifier vk) (Decl (shrink_identifier n)) None clauses next, st3)) = SOk (r, st') ->
          lab_post st st').
        { intros vk sk ve se H0.
          destruct (if _ || _ then _ else _) as [[shrunk st1]|] eqn:He; [|discriminate]. cbn [sbind] in H0.
          destruct (critical_clauses _ _ _ _ _ _) as [cls st2] eqn:Hc.
          destruct (rec sk st2) as [[next st3]|] eqn:Hk; [|discriminate]. cbn [sbind] in H0. inv H0.
          apply critical_clauses_lu in Hc as [Hl2 Hu2].
          eapply lab_post_trans; [|eapply lab_post_trans; [apply lab_post_same; eauto | eapply Hrec; exact Hk]].
          destruct (_ || _); [eapply Hrec | eapply lift_lab]; exact He. }
        destruct (is_codata (e_codata E) (CDecl n)); cbv beta iota in H; eapply Hgen; exact H.
  - cbn [shrink_step] in H.
    destruct (rec t st) as [[t' st1]|] eqn:Hr1; [|discriminate]. cbn [sbind] in H.
    destruct (rec e st1) as [[e' st2]|] eqn:Hr2; [|discriminate]. cbn [sbind] in H. inv H.
    eapply lab_post_trans; eapply Hrec; eauto.
  - cbn [shrink_step] in H.
    destruct (rec nx st) as [[t' st1]|] eqn:Hr1; [|discriminate]. cbn [sbind] in H. inv H. eapply Hrec; eauto.
  - cbn [shrink_step] in H. inv H. now apply lab_post_same.
  - cbn [shrink_step] in H. inv H. now apply lab_post_same.
Qed.
End LabStep.

Lemma shrink_stmt_lab : forall E fuel s st r st', shrink_stmt fuel E s st = SOk (r, st') -> lab_post st st'.
Proof.
  intros E fuel. induction fuel as [|fuel IH]; intros s st r st' H; [discriminate|].
  simpl in H. eapply shrink_step_lab; eauto.
Qed.

Lemma lnames_rev_append_in : forall o acc n, In n (lnames (rev_append o acc)) <-> In n (lnames o) \/ In n (lnames acc).
Proof.
  intros o acc n. unfold lnames. rewrite rev_append_rev, map_app, map_rev, in_app_iff, <- in_rev. tauto.
Qed.
Lemma lnames_rev_append_nodup : forall o acc,
  NoDup (lnames o) -> NoDup (lnames acc) -> (forall n, In n (lnames o) -> In n (lnames acc) -> False) ->
  NoDup (lnames (rev_append o acc)).
Proof.
  intros o acc Ho Ha Hd. unfold lnames in *. rewrite rev_append_rev, map_app, map_rev.
  apply NoDup_app_intro; auto; [now apply NoDup_rev|]. intros x Hx. apply in_rev in Hx. now apply Hd.
Qed.

Lemma shrink_defs_lab : forall ds data codata used m acc out m',
  shrink_defs ds data codata used m acc = SOk (out, m') ->
  NoDup (lnames acc) -> incl (lnames acc) (unames used) ->
  (forall d, In d ds -> In (show_cident (fsdname d)) (unames used)) ->
  NoDup (map (fun d => show_cident (fsdname d)) ds) ->
  (forall d, In d ds -> ~ In (show_cident (fsdname d)) (lnames acc)) ->
  NoDup (lnames out).
Proof.
  induction ds as [|d r IH]; intros data codata used m acc out m' H Hnd Hincl Hin Hnames Hdisj; simpl in H.
  - inv H. unfold frev. apply lnames_rev_append_nodup; [exact Hnd | constructor | intros n _ []].
  - destruct (shrink_def d data codata used m) as [[[o u1] m1]|] eqn:Hd; [|discriminate]. cbn [sbind] in H.
    unfold shrink_def in Hd.
    destruct (shrink_stmt _ _ _ _) as [[body st]|] eqn:Hs; [|discriminate]. cbn [sbind] in Hd. inv Hd.
    apply shrink_stmt_lab in Hs as [Hi [nd [Hl [Hn Hf]]]]. cbn [s_lifted s_used] in *. rewrite app_nil_r in Hl. subst nd.
    inversion Hnames as [|x l Hdn Hrn]; subst.
    assert (Hd_used : In (show_cident (fsdname d)) (unames used)) by (apply Hin; now left).
    eapply IH in H; eauto.
    + (* NoDup acc' *)
      apply lnames_rev_append_nodup; auto.
      * unfold lnames. cbn [map dname]. unfold shrink_identifier. constructor; auto.
        intros Hc. apply Hf in Hc as [Hnot _]. contradiction.
      * intros n Hn1 Hn2. unfold lnames in Hn1. cbn [map dname] in Hn1. destruct Hn1 as [<-|Hn1].
        -- eapply Hdisj; [now left | exact Hn2].
        -- apply Hf in Hn1 as [Hnot _]. apply Hnot. now apply Hincl.
    + (* acc' within used' *)
      intros n Hn0. apply lnames_rev_append_in in Hn0 as [Hn0|Hn0].
      * unfold lnames in Hn0. cbn [map dname] in Hn0. destruct Hn0 as [<-|Hn0]; [now apply Hi | now apply Hf in Hn0 as [_ ?]].
      * apply Hi. now apply Hincl.
    + intros d' Hd'. apply Hi. apply Hin. now right.
    + intros d' Hd' Hc. apply lnames_rev_append_in in Hc as [Hc|Hc].
      * unfold lnames in Hc. cbn [map dname] in Hc. destruct Hc as [Heq|Hc].
        -- apply Hdn. unfold shrink_identifier in Heq. rewrite Heq. apply in_map with (f := fun d => show_cident (fsdname d)). exact Hd'.
        -- apply Hf in Hc as [Hnot _]. apply Hnot. apply Hin. now right.
      * eapply Hdisj; [right; exact Hd' | exact Hc].
Qed.

(* The printed names (`name` or `name_id`, what the back ends use as assembly labels) of the
   definitions of the output program are pairwise distinct whenever those of the input are: the label
   of a lifted statement differs, as printed, from every input definition and every other lifted label. *)
Theorem lift_label_fresh : forall p q,
  NoDup (map (fun d => show_cident (fsdname d)) (fspdefs p)) -> shrink_prog p = SOk q ->
  NoDup (map (fun d => show_ident (dname d)) (pdefs q)).
Proof.
  intros p q Hn H. unfold shrink_prog in H. destruct (_ || _); [discriminate|].
  destruct (shrink_defs _ _ _ _ _ _) as [[defs m]|] eqn:Hd; [|discriminate]. cbn [sbind] in H. inv H. cbn [pdefs].
  change (NoDup (lnames defs)).
  eapply shrink_defs_lab; eauto.
  - constructor.
  - intros n [].
  - intros d Hin. unfold unames. rewrite map_map. apply in_map with (f := fun d => show_cident (fsdname d)). exact Hin.
Qed.
