(* Non-vacuity of the preservation theorem for the fragment: concrete multi-definition programs with
   recursion, non-tail conditionals (shared continuations), data types with case, labels/goto and a
   label passed as a consumer argument; each satisfies the guard, and both machines are run by
   vm_compute (the Core side on the model's translation). *)
From Coq Require Import List ZArith NArith String Bool.
From SCC Require Import Lang.FunSyn Lang.CoreSyn Sem.AxSem Sem.CoreSem Sem.FunSem Model.Fun2Core
     Proof.Fun2CoreProof Proof.Fun2CoreMain Proof.Fun2CoreInv Proof.Fun2CoreRel Proof.Fun2CoreProg.
Import ListNotations.
Local Open Scope string_scope.
Local Open Scope Z_scope.

Definition vI (x : string) : fterm := FVar x (Some FI64) (Some FPrd).
Definition pI (x : string) : fbinding := mkfb x FPrd FI64.
Definition callI (f : string) (args : list fterm) : fterm := FCall f args (Some FI64).
Definition oI : option fty := Some FI64.

(* ---------- 1. calls: recursion with non-tail calls, mutual recursion with tail calls ---------- *)
Definition ex_calls : fcprog :=
  mkfcprog [] []
    [mkfdef "fib" [pI "n"] FI64
       (FIfC FLt (vI "n") (Some (FLit 2)) (vI "n")
          (FOp (callI "fib" [FOp (vI "n") FSub (FLit 1)]) FSum (callI "fib" [FOp (vI "n") FSub (FLit 2)])) oI);
     mkfdef "even" [pI "n"] FI64
       (FIfC FEq (vI "n") None (FLit 1) (callI "odd" [FOp (vI "n") FSub (FLit 1)]) oI);
     mkfdef "odd" [pI "n"] FI64
       (FIfC FEq (vI "n") None (FLit 0) (callI "even" [FOp (vI "n") FSub (FLit 1)]) oI);
     mkfdef "main" [pI "n"] FI64
       (FPrint true (callI "fib" [vI "n"])
          (FPrint true (callI "even" [vI "n"]) (FLit 0) oI) oI)].

Example ex_calls_ok :
  prog_guard ex_calls = true /\ NoDup (map fdname (fcpdefs ex_calls)) /\
  compile_prog ex_calls = Ok (compiled_or_empty ex_calls) /\
  run_fun 3000 ex_calls [10] = ([(true, 55); (true, 1)], OExit 0) /\
  run_core 5000 (compiled_or_empty ex_calls) [10] = ([(true, 55); (true, 1)], OExit 0).
Proof.
  split; [vm_compute; reflexivity|]. split; [repeat constructor; simpl; intuition discriminate|].
  split; [vm_compute; reflexivity|]. split; vm_compute; reflexivity.
Qed.

(* ---------- 2. shared continuations: a conditional as let-bound term, nested lets ---------- *)
Definition ex_shared : fcprog :=
  mkfcprog [] []
    [mkfdef "clamp" [pI "x"; pI "lo"] FI64
       (FLet "y" FI64 (FIfC FLt (vI "x") (Some (vI "lo")) (vI "lo") (vI "x") oI)
          (FPrint true (vI "y")
             (FLet "z" FI64 (FIfC FEq (vI "y") (Some (vI "lo")) (FLet "w" FI64 (FOp (vI "y") FProd (FLit 2)) (vI "w") oI) (vI "y") oI)
                (FOp (vI "z") FSum (vI "x")) oI) oI) oI);
     mkfdef "main" [pI "n"] FI64
       (FPrint true (FOp (callI "clamp" [vI "n"; FLit 3]) FSum (FIfC FEq (vI "n") None (FLit 100) (FLit 200) oI))
          (FLit 0) oI)].

Example ex_shared_ok :
  prog_guard ex_shared = true /\ NoDup (map fdname (fcpdefs ex_shared)) /\
  compile_prog ex_shared = Ok (compiled_or_empty ex_shared) /\
  (2 <= List.length (cpdefs (compiled_or_empty ex_shared)) - 2)%nat /\
  run_fun 1000 ex_shared [1] = ([(true, 3); (true, 207)], OExit 0) /\
  run_core 2000 (compiled_or_empty ex_shared) [1] = ([(true, 3); (true, 207)], OExit 0).
Proof.
  split; [vm_compute; reflexivity|]. split; [repeat constructor; simpl; intuition discriminate|].
  split; [vm_compute; reflexivity|]. split; [vm_compute; repeat constructor|]. split; vm_compute; reflexivity.
Qed.

(* ---------- 3. data: constructors, case in tail and in non-tail position, recursion ---------- *)
Definition tyL : fty := FDecl "List" [].
Definition vL (x : string) : fterm := FVar x (Some tyL) (Some FPrd).
Definition consctx : fctx := [mkfb "h" FPrd FI64; mkfb "t" FPrd tyL].
Definition ex_data : fcprog :=
  mkfcprog [mkfdata "List" [] [mkfctor "Nil" []; mkfctor "Cons" [mkfb "x" FPrd FI64; mkfb "xs" FPrd tyL]]] []
    [mkfdef "range" [pI "n"] tyL
       (FIfC FEq (vI "n") None (FCtor "Nil" [] (Some tyL))
          (FCtor "Cons" [vI "n"; FCall "range" [FOp (vI "n") FSub (FLit 1)] (Some tyL)] (Some tyL)) (Some tyL));
     mkfdef "sum" [mkfb "l" FPrd tyL] FI64
       (FCase (vL "l") []
          [FClause FData "Nil" [] [] (FLit 0);
           FClause FData "Cons" ["h"; "t"] consctx (FOp (vI "h") FSum (callI "sum" [vL "t"]))] oI);
     mkfdef "heads" [mkfb "l" FPrd tyL] FI64
       (FLet "s" FI64
          (FCase (vL "l") []
             [FClause FData "Nil" [] [] (FLit 0);
              FClause FData "Cons" ["h"; "t"] consctx (vI "h")] oI)
          (FOp (vI "s") FProd (vI "s")) oI);
     mkfdef "main" [pI "n"] FI64
       (FPrint true (callI "sum" [FCall "range" [vI "n"] (Some tyL)])
          (FPrint true (callI "heads" [FCall "range" [vI "n"] (Some tyL)]) (FLit 0) oI) oI)].

Example ex_data_ok :
  prog_guard ex_data = true /\ NoDup (map fdname (fcpdefs ex_data)) /\
  compile_prog ex_data = Ok (compiled_or_empty ex_data) /\
  run_fun 2000 ex_data [6] = ([(true, 21); (true, 36)], OExit 0) /\
  run_core 4000 (compiled_or_empty ex_data) [6] = ([(true, 21); (true, 36)], OExit 0).
Proof.
  split; [vm_compute; reflexivity|]. split; [repeat constructor; simpl; intuition discriminate|].
  split; [vm_compute; reflexivity|]. split; vm_compute; reflexivity.
Qed.

(* ---------- 4. labels and goto; a label passed to a consumer parameter ---------- *)
Definition ex_labels : fcprog :=
  mkfcprog [] []
    [mkfdef "find" [pI "x"] FI64
       (FOp (FLabel "out" (FIfC FEq (vI "x") None (FGoto "out" (FLit 42) oI) (FOp (vI "x") FSum (FLit 1)) oI) oI)
            FSum (FLit 1000));
     mkfdef "jump" [mkfb "k" FCns FI64; pI "x"] FI64
       (FGoto "k" (FOp (vI "x") FProd (FLit 2)) oI);
     mkfdef "esc" [pI "x"] FI64
       (FLabel "r" (FOp (callI "jump" [FVar "r" (Some FI64) (Some FCns); vI "x"]) FSum (FLit 1000)) oI);
     mkfdef "main" [pI "n"] FI64
       (FPrint true (callI "find" [FLit 0])
          (FPrint true (callI "find" [vI "n"])
             (FPrint true (callI "esc" [vI "n"]) (FLit 0) oI) oI) oI)].

Example ex_labels_ok :
  prog_guard ex_labels = true /\ NoDup (map fdname (fcpdefs ex_labels)) /\
  compile_prog ex_labels = Ok (compiled_or_empty ex_labels) /\
  run_fun 1000 ex_labels [5] = ([(true, 1042); (true, 1006); (true, 10)], OExit 0) /\
  run_core 2000 (compiled_or_empty ex_labels) [5] = ([(true, 1042); (true, 1006); (true, 10)], OExit 0).
Proof.
  split; [vm_compute; reflexivity|]. split; [repeat constructor; simpl; intuition discriminate|].
  split; [vm_compute; reflexivity|]. split; vm_compute; reflexivity.
Qed.

(* ---------- 5. codata: a stream built by `new` (corecursive), destructors on variables, a by-name
   let and a by-name argument (s.tl() is passed unevaluated) ---------- *)
Definition tyS : fty := FDecl "Stream" [].
Definition vS (x : string) : fterm := FVar x (Some tyS) (Some FPrd).
Definition ex_codata : fcprog :=
  mkfcprog [] [mkfcodata "Stream" [] [mkfdtor "hd" [] FI64; mkfdtor "tl" [] tyS]]
    [mkfdef "from" [pI "n"] tyS
       (FNew [FClause FCodata "hd" [] [] (vI "n");
              FClause FCodata "tl" [] [] (FCall "from" [FOp (vI "n") FSum (FLit 1)] (Some tyS))] (Some tyS));
     mkfdef "nth" [mkfb "s" FPrd tyS; pI "k"] FI64
       (FIfC FEq (vI "k") None (FDtor (vS "s") "hd" [] [] oI)
          (callI "nth" [FDtor (vS "s") "tl" [] [] (Some tyS); FOp (vI "k") FSub (FLit 1)]) oI);
     mkfdef "main" [pI "n"] FI64
       (FLet "s" tyS (FCall "from" [vI "n"] (Some tyS))
          (FPrint true (callI "nth" [vS "s"; FLit 3])
             (FPrint true (FDtor (vS "s") "hd" [] [] oI)
                (* chained destructors and a call as scrutinee *)
                (FPrint true (FDtor (FDtor (FDtor (vS "s") "tl" [] [] (Some tyS)) "tl" [] [] (Some tyS)) "hd" [] [] oI)
                   (FPrint true (FDtor (FCall "from" [FLit 7] (Some tyS)) "hd" [] [] oI) (FLit 0) oI) oI) oI) oI) oI)].

Example ex_codata_ok :
  prog_guard ex_codata = true /\ NoDup (map fdname (fcpdefs ex_codata)) /\
  compile_prog ex_codata = Ok (compiled_or_empty ex_codata) /\
  run_fun 1000 ex_codata [10] = ([(true, 13); (true, 10); (true, 12); (true, 7)], OExit 0) /\
  run_core 2000 (compiled_or_empty ex_codata) [10] = ([(true, 13); (true, 10); (true, 12); (true, 7)], OExit 0).
Proof.
  split; [vm_compute; reflexivity|]. split; [repeat constructor; simpl; intuition discriminate|].
  split; [vm_compute; reflexivity|]. split; vm_compute; reflexivity.
Qed.

(* ---------- the capture witness: inside the guard since the repair d5d4151; the call-to-main witness:
   outside ---------- *)
Example guard_accepts_capture_witness :
  prog_guard capture_witness = true /\ NoDup (map fdname (fcpdefs capture_witness)) /\
  existsb (fun d => negb (nocap (fdbody d))) (fcpdefs capture_witness) = true /\
  shadowing_risk_prog capture_witness = true.
Proof.
  split; [vm_compute; reflexivity|]. split; [repeat constructor; simpl; intuition discriminate|].
  split; vm_compute; reflexivity.
Qed.
(* by the THEOREM (not by evaluation): every final source run of the capture witness is reproduced by the
   Core machine on its translation *)
Lemma capture_witness_simulated : forall (args : list Z) (n : nat) (o : obs),
  run_fun n capture_witness args = o -> final o ->
  exists m, run_core m (compiled_or_empty capture_witness) args = o.
Proof.
  intros args n o Hr Hf.
  exact (fun2core_correct_fragment_lemma capture_witness _ args n o (proj1 capture_witness_fixed_lemma)
           (proj1 (proj2 guard_accepts_capture_witness)) (proj1 guard_accepts_capture_witness) Hr Hf).
Qed.
(* the call-to-main witness (former finding, repaired in /repo by f929eb7) is INSIDE the guard too, and by the
   THEOREM every final source run of it is reproduced by the Core machine on its translation *)
Example guard_accepts_call_main_witness :
  prog_guard call_main_witness = true /\ NoDup (map fdname (fcpdefs call_main_witness)) /\
  calls_main_prog call_main_witness = true.
Proof.
  split; [vm_compute; reflexivity|]. split; [repeat constructor; simpl; intuition discriminate | vm_compute; reflexivity].
Qed.
Lemma call_main_witness_simulated : forall (args : list Z) (n : nat) (o : obs),
  run_fun n call_main_witness args = o -> final o ->
  exists m, run_core m (compiled_or_empty call_main_witness) args = o.
Proof.
  intros args n o Hr Hf.
  exact (fun2core_correct_fragment_lemma call_main_witness _ args n o (proj1 call_main_witness_fixed_lemma)
           (proj1 (proj2 guard_accepts_call_main_witness)) (proj1 guard_accepts_call_main_witness) Hr Hf).
Qed.
